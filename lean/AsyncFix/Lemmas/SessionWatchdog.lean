import AsyncFix.Model.Session

/-!
C12 helper lemmas, part 1: what `send_msg` and ONE iteration of the watchdog (`tick`) do on a logged-on
connection (`state = ACTIVE`, transport up).  Nothing here restates the model: every lemma is an equation
about `AsyncFix.Session.tick` / `sendMsg` / `disconnect` themselves.

Time is in milliseconds (`Env.now`), the heartbeat interval `hb` and the TestReqID in seconds, as in
the model: `TestReqID = now / 1000` (`int(time.time())`).
-/
namespace AsyncFix.Session.Watchdog

open AsyncFix.Generated AsyncFix.Generated.ConnEnum

/-! ### effect classification -/

/-- the two effects of a transport teardown -/
def isDisc : Effect → Bool
  | .closeSocket => true
  | .onDisconnect => true
  | _ => false

/-- frames written, in order -/
def writes : List Effect → List Msg
  | [] => []
  | .write f :: r => f :: writes r
  | _ :: r => writes r

theorem writes_append (a b : List Effect) : writes (a ++ b) = writes a ++ writes b := by
  induction a with
  | nil => rfl
  | cons e r ih => cases e <;> simp [writes, ih]

/-- no teardown among the effects -/
def NoDisc (es : List Effect) : Prop := ∀ e ∈ es, isDisc e = false

theorem NoDisc.nil : NoDisc [] := by intro e he; cases he

theorem NoDisc.append {a b : List Effect} (ha : NoDisc a) (hb : NoDisc b) : NoDisc (a ++ b) := by
  intro e he
  rcases List.mem_append.mp he with h | h
  · exact ha e h
  · exact hb e h

/-! ### evaluating the handler monad

`M.bind'` matches on the whole `Out` record, which `simp` turns into three projections of the
continuation (exponential in the nesting depth).  These lemmas evaluate a `bind` only once its first
computation has been brought into constructor form, and keep the continuation in one piece. -/

/-- prepend already emitted effects to an outcome -/
def pre {β : Type} (e1 : List Effect) (o : Out β) : Out β := ⟨o.res, o.conn, e1 ++ o.eff⟩

@[simp] theorem pre_mk {β : Type} (e1 e2 : List Effect) (r : Except Exc β) (c : Conn) :
    pre e1 ⟨r, c, e2⟩ = ⟨r, c, e1 ++ e2⟩ := rfl

@[simp] theorem pre_nil {β : Type} (o : Out β) : pre [] o = o := by
  cases o; simp [pre]

theorem bind_ok {α β : Type} {x : M α} {f : α → M β} {c c1 : Conn} {a : α} {e1 : List Effect}
    (h : x c = ⟨.ok a, c1, e1⟩) : (x >>= f) c = pre e1 (f a c1) := by
  show M.bind' x f c = _
  unfold M.bind'
  rw [h]
  rfl

theorem bind_err {α β : Type} {x : M α} {f : α → M β} {c c1 : Conn} {ex : Exc} {e1 : List Effect}
    (h : x c = ⟨.error ex, c1, e1⟩) : (x >>= f) c = ⟨.error ex, c1, e1⟩ := by
  show M.bind' x f c = _
  unfold M.bind'
  rw [h]

@[simp] theorem get_bind {β : Type} (f : Conn → M β) (c : Conn) : (M.get >>= f) c = f c c :=
  (bind_ok (x := M.get) (a := c) (c1 := c) (e1 := []) rfl).trans (pre_nil _)

@[simp] theorem modify_bind {β : Type} (g : Conn → Conn) (f : Unit → M β) (c : Conn) :
    (M.modify g >>= f) c = f () (g c) :=
  (bind_ok (x := M.modify g) (a := ()) (c1 := g c) (e1 := []) rfl).trans (pre_nil _)

@[simp] theorem emit_bind {β : Type} (e : Effect) (f : Unit → M β) (c : Conn) :
    (M.emit e >>= f) c = pre [e] (f () c) :=
  bind_ok (x := M.emit e) (a := ()) (c1 := c) (e1 := [e]) rfl

@[simp] theorem throw_bind {α β : Type} (ex : Exc) (f : α → M β) (c : Conn) :
    ((M.throw ex : M α) >>= f) c = ⟨.error ex, c, []⟩ :=
  bind_err (x := (M.throw ex : M α)) (c1 := c) (e1 := []) rfl

@[simp] theorem pure_bind' {α β : Type} (a : α) (f : α → M β) (c : Conn) :
    ((pure a : M α) >>= f) c = f a c :=
  (bind_ok (x := (pure a : M α)) (a := a) (c1 := c) (e1 := []) rfl).trans (pre_nil _)

@[simp] theorem pure_run {α : Type} (a : α) (c : Conn) : (pure a : M α) c = ⟨.ok a, c, []⟩ := rfl
@[simp] theorem throw_run {α : Type} (ex : Exc) (c : Conn) : (M.throw ex : M α) c = ⟨.error ex, c, []⟩ := rfl
@[simp] theorem modify_run (g : Conn → Conn) (c : Conn) : M.modify g c = ⟨.ok (), g c, []⟩ := rfl
@[simp] theorem emit_run (e : Effect) (c : Conn) : M.emit e c = ⟨.ok (), c, [e]⟩ := rfl
@[simp] theorem get_run (c : Conn) : M.get c = ⟨.ok c, c, []⟩ := rfl

@[simp] theorem bind_assoc' {α β γ : Type} (x : M α) (g : α → M β) (f : β → M γ) (c : Conn) :
    ((x >>= g) >>= f) c = (x >>= fun a => g a >>= f) c := by
  rcases hx : x c with ⟨r | a, c1, e1⟩
  · rw [bind_err (f := f) (bind_err (f := g) hx), bind_err hx]
  · have h1 : (x >>= g) c = pre e1 (g a c1) := bind_ok hx
    rw [bind_ok (f := fun a => g a >>= f) hx]
    rcases hg : g a c1 with ⟨r2 | b, c2, e2⟩
    · rw [hg, pre_mk] at h1
      rw [bind_err h1, bind_err hg, pre_mk]
    · rw [hg, pre_mk] at h1
      rw [bind_ok h1, bind_ok hg]
      rcases f b c2 with ⟨r3, c3, e3⟩
      simp [List.append_assoc]

theorem ite_run {α : Type} (b : Prop) [Decidable b] (x y : M α) (c : Conn) :
    (if b then x else y) c = if b then x c else y c := by
  split <;> rfl

/-! ### `send_msg` on an ACTIVE connection -/

/-- the frame `send_msg` writes for a message that takes the next outbound number -/
def frameOf (env : Env) (c : Conn) (m : Msg) : Msg := buildFrame c.sess env.stamp m c.sess.nextOut

/-- connection after a successful send: number consumed, frame journaled -/
def sent (c : Conn) (j : Journal) : Conn :=
  { c with sess := { c.sess with nextOut := c.sess.nextOut + 1 }, journal := j }

/-- connection after `DuplicateSeqNoError`: number consumed, nothing journaled, nothing written -/
def burnt (c : Conn) : Conn := { c with sess := { c.sess with nextOut := c.sess.nextOut + 1 } }

/-- a message that `Codec.encode` numbers with the next outbound number -/
def Plain (m : Msg) : Prop :=
  (m.mtype == mSequenceReset) = false ∧ ((m.get? tPossDupFlag).getD "N" == "Y") = false

theorem sendGate_active (m : Msg) (c : Conn) (ha : c.state = st_ACTIVE) :
    sendGate m c = ⟨.ok (), c, []⟩ := by
  simp [sendGate, ha, st_ACTIVE, st_NETWORK_CONN_ESTABLISHED, st_LOGON_INITIAL_SENT]

theorem encodeSeq_plain (m : Msg) (c : Conn) (hp : Plain m) :
    encodeSeq m c = ⟨.ok c.sess.nextOut, burnt c, []⟩ := by
  obtain ⟨hp1, hp2⟩ := hp
  simp [encodeSeq, hp1, hp2, burnt]

/-- `send_msg` on an ACTIVE connection with a transport, completely: EncodingError (latin-1),
DuplicateSeqNoError (journal row exists), or journal + write. -/
theorem sendMsg_active (env : Env) (c : Conn) (m : Msg) (ha : c.state = st_ACTIVE) (hs : c.sock = true)
    (hp : Plain m) (ht : (m.mtype == mTestRequest && c.testReqId.isNone) = false) :
    sendMsg env m c =
      if frameLatin1 (frameOf env c m) = false then ⟨.error .encoding, c, []⟩
      else match c.journal.persist .outbound c.sess.nextOut (frameOf env c m) with
        | none => ⟨.error .duplicateSeqNo, burnt c, []⟩
        | some j => ⟨.ok (), sent c j, [.write (frameOf env c m)]⟩ := by
  unfold sendMsg
  rw [bind_ok (sendGate_active m c ha), pre_nil]
  unfold sendCore
  simp only [get_bind, ht, Bool.false_eq_true, if_false]
  rw [bind_ok (encodeSeq_plain m c hp), pre_nil, get_bind]
  have hf : buildFrame (burnt c).sess env.stamp m c.sess.nextOut = frameOf env c m := rfl
  have hjn : (burnt c).journal = c.journal := rfl
  have hsk : (burnt c).sock = c.sock := rfl
  rw [hf, hjn, hsk, ite_run]
  cases hl : frameLatin1 (frameOf env c m)
  · simp [burnt]
  · simp only [Bool.not_true, Bool.false_eq_true, if_false, Bool.true_eq_false]
    cases hj : c.journal.persist Dir.outbound c.sess.nextOut (frameOf env c m)
    · simp
    · simp [burnt, hs, sent]

/-- the frame of a one-field session message keeps its type and carries that field
(stated for the two tags the watchdog path uses: TestReqID(112) and Text(58)) -/
theorem frameOf_mtype (env : Env) (c : Conn) (m : Msg) : (frameOf env c m).mtype = m.mtype := rfl

theorem frameOf_testReqId (env : Env) (c : Conn) (mt v : String) :
    (frameOf env c (Msg.mk' mt [(tTestReqID, v)])).get? tTestReqID = some v := by
  simp [frameOf, buildFrame, bodyFields, Msg.mk', Msg.get?, Msg.lookup, tTestReqID, tMsgSeqNum, tSendingTime,
    tSenderCompID, tTargetCompID, tBeginString, tBodyLength, tMsgType, tCheckSum]

theorem frameOf_text (env : Env) (c : Conn) (mt v : String) :
    (frameOf env c (Msg.mk' mt [(tText, v)])).get? tText = some v := by
  simp [frameOf, buildFrame, bodyFields, Msg.mk', Msg.get?, Msg.lookup, tText, tMsgSeqNum, tSendingTime,
    tSenderCompID, tTargetCompID, tBeginString, tBodyLength, tMsgType, tCheckSum]

/-! ### the watchdog's `disconnect(DISCONNECTED_BROKEN_CONN)` -/

/-- connection after `disconnect(DISCONNECTED_BROKEN_CONN)` from a connected state -/
def dropped (c : Conn) : Conn :=
  { c with testReqId := none, lastTime := 0, maxResend := 0, sock := false,
           state := st_DISCONNECTED_BROKEN_CONN }

/-- its effects: socket closed, `on_state_change`, `on_disconnect` -/
def dropEff : List Effect := [.closeSocket, .onState st_DISCONNECTED_BROKEN_CONN, .onDisconnect]

theorem disconnect_up (env : Env) (c : Conn) (hst : c.state > st_DISCONNECTED_BROKEN_CONN)
    (hs : c.sock = true) :
    disconnect env st_DISCONNECTED_BROKEN_CONN none c = ⟨.ok (), dropped c, dropEff⟩ := by
  have h3 : 3 < c.state := hst
  simp [disconnect, h3, M.assert, stateSet, hs, dropped, dropEff, st_DISCONNECTED_BROKEN_CONN, st_ACTIVE]

/-- the TestRequest `send_test_req` builds at time `env` -/
def testReqMsg (env : Env) : Msg := Msg.mk' mTestRequest [(tTestReqID, pyStr env.secs)]

theorem testReqMsg_plain (env : Env) : Plain (testReqMsg env) := by
  constructor
  · simp [testReqMsg, Msg.mk', mTestRequest, mSequenceReset]
  · simp [testReqMsg, Msg.mk', Msg.get?, Msg.lookup, tTestReqID, tPossDupFlag]

/-- the connection with the id of a TestRequest sent at `env` recorded -/
def armed (env : Env) (c : Conn) : Conn := { c with testReqId := some env.secs }

/-- `send_test_req` with none outstanding: record the id, then `send_msg` -/
theorem sendTestReq_none (env : Env) (c : Conn) (hn : c.testReqId = none) :
    sendTestReq env c = sendMsg env (testReqMsg env) (armed env c) := by
  simp [sendTestReq, hn, testReqMsg, armed]

/-- `send_test_req` refuses while an id is recorded (`is not None`): nothing written, nothing changed -/
theorem sendTestReq_some (env : Env) (c : Conn) (id : Int) (hn : c.testReqId = some id) :
    sendTestReq env c = ⟨.error .connection, c, []⟩ := by
  simp [sendTestReq, hn]

/-! ### one watchdog iteration -/

theorem tick_nosock (env : Env) (c : Conn) (hs : c.sock = false) : tick env c = (c, []) := by
  simp [tick, M.run, tickBody, hs]

/-- ACTIVE, nothing outstanding, last message recent: the iteration does nothing at all -/
theorem tick_none_quiet (env : Env) (c : Conn) (hs : c.sock = true) (ha : c.state = st_ACTIVE)
    (hn : c.testReqId = none) (hh : 1 ≤ c.hb) (h1 : env.now - c.lastTime ≤ (c.hb - 1) * 1000) :
    tick env c = (c, []) := by
  have h1' : ¬ ((c.hb - 1) * 1000 < env.now - c.lastTime) := by omega
  have h4 : ¬ (c.hb * 2 * 1000 < env.now - c.lastTime) := by omega
  simp [tick, M.run, tickBody, hs, ha, hn, h1', h4]

/-- ACTIVE with an outstanding (truthy) TestReqID `id` (after fix e3d9663): the iteration writes nothing and
does not touch `lastTime`; it disconnects iff `now − lastTime > 2·hb·1000` and (`lastTime ≠ 0`, the
"message last time" test, or the id is older than `2·hb·1000` too, the TestRequest test). -/
theorem tick_outstanding (env : Env) (c : Conn) (id : Int) (hs : c.sock = true) (ha : c.state = st_ACTIVE)
    (hid : c.testReqId = some id) (h0 : id ≠ 0) :
    tick env c =
      if c.hb * 2 * 1000 < env.now - c.lastTime ∧ (c.lastTime ≠ 0 ∨ c.hb * 2 * 1000 < env.now - id * 1000) then
        (dropped c, dropEff)
      else (c, []) := by
  have hd : disconnect env st_DISCONNECTED_BROKEN_CONN none c = ⟨.ok (), dropped c, dropEff⟩ :=
    disconnect_up env c (by rw [ha]; decide) hs
  by_cases hA : c.hb * 2 * 1000 < env.now - c.lastTime
  · by_cases hL : c.lastTime = 0
    · by_cases hX : c.hb * 2 * 1000 < env.now - id * 1000
      · have hA0 : c.hb * 2 * 1000 < env.now := by omega
        simp [tick, M.run, tickBody, hs, ha, hid, h0, hL, hX, hA0]
        rw [hd]
      · simp [tick, M.run, tickBody, hs, ha, hid, h0, hL, hX]
    · simp [tick, M.run, tickBody, hs, ha, hid, h0, hA, hL]
      rw [bind_ok hd]
      simp [dropped]
  · simp [tick, M.run, tickBody, hs, ha, hid, h0, hA]

/-- the TestRequest frame a tick at `env` writes -/
def testReqFrame (env : Env) (c : Conn) : Msg := frameOf env (armed env c) (testReqMsg env)

/-- ACTIVE, nothing outstanding, idle threshold exceeded: `send_test_req()`.  The id `now / 1000` is
recorded in every case; when the send raises (frame not latin-1 / journal row exists) the iteration is
aborted before `lastTime` is refreshed and nothing is written; otherwise exactly the TestRequest is
written and `lastTime := now`.  No outcome disconnects (the fresh id is less than a second old). -/
theorem tick_none_idle (env : Env) (c : Conn) (hs : c.sock = true) (ha : c.state = st_ACTIVE)
    (hn : c.testReqId = none) (hh : 1 ≤ c.hb) (h1 : (c.hb - 1) * 1000 < env.now - c.lastTime) :
    tick env c =
      if frameLatin1 (testReqFrame env c) = false then (armed env c, [.raised .encoding])
      else match c.journal.persist .outbound c.sess.nextOut (testReqFrame env c) with
        | none => (burnt (armed env c), [.raised .duplicateSeqNo])
        | some j => ({ sent (armed env c) j with lastTime := env.now }, [.write (testReqFrame env c)]) := by
  have hsend := sendMsg_active env (armed env c) (testReqMsg env) ha hs (testReqMsg_plain env)
    (by simp [armed])
  have hz : ¬ (c.hb * 2 * 1000 < 0) := by omega
  have hfresh : ¬ (c.hb * 2 * 1000 < env.now - env.now / 1000 * 1000) := by omega
  simp only [tick, M.run, tickBody, get_bind, hs, ha, hn, h1, Bool.not_true, Bool.false_eq_true, if_false,
    beq_self_eq_true, if_true, Option.getD_none]
  rw [← sendTestReq_none env c hn] at hsend
  have e1 : (armed env c).journal = c.journal := rfl
  have e2 : (armed env c).sess = c.sess := rfl
  rw [e1, e2] at hsend
  show _ = if frameLatin1 (frameOf env (armed env c) (testReqMsg env)) = false then _ else
    match c.journal.persist Dir.outbound c.sess.nextOut (frameOf env (armed env c) (testReqMsg env)) with
    | none => _ | some j => _
  cases hl : frameLatin1 (frameOf env (armed env c) (testReqMsg env))
  · rw [hl] at hsend
    simp only [if_true] at hsend
    rw [bind_err hsend]
    simp
  · rw [hl] at hsend
    simp only [Bool.true_eq_false, if_false] at hsend
    cases hj : c.journal.persist Dir.outbound c.sess.nextOut (frameOf env (armed env c) (testReqMsg env))
    · rw [hj] at hsend
      rw [bind_err hsend]
      simp
    · rw [hj] at hsend
      rw [bind_ok hsend]
      simp [sent, armed, Env.secs, hz, hfresh]
      rfl

end AsyncFix.Session.Watchdog
