/-
The exchange takes a request (`recv`) or decides an acknowledged one (`decide`): `Sync0` is kept –
except when a replace is accepted on a suspended order (known finding C17-suspended-replace-stuck).
-/
import AsyncFix.Lemmas.OrderObjExch
namespace AsyncFix.Model.OrderLink
open AsyncFix.Model.OrderObj AsyncFix.Model.Exchange AsyncFix.Model.OrderTable AsyncFix.Props.C16

/-- no emitted report is a Replaced report with OrdStatus Suspended -/
def noSuspReplace (rs : List Report) : Prop :=
  ∀ r ∈ rs, ¬ (r.execType = some "5" ∧ r.ordStatus = some "9")

theorem live_bases {s : String} (h : Exchange.live s = true) : s ∈ bases ∧ s ≠ "8" ∧ s ≠ "4" := by
  simp only [Exchange.live, Bool.or_eq_true, beq_iff_eq] at h
  rcases h with (h | h) | h <;> subst h <;> decide

/-- an execution report that the table accepts without a status change -/
theorem feed_stay (o : Order) (e : Exch) (cl : Str) (ex : String) (orig : Option Str)
    (hid : cl = o.clordId ∨ some cl = o.origClordId) (hex : ex ≠ "5")
    (hres : changeStatus spec o.status "8" ex e.reported false = .none) :
    feed o (e.execRep cl ex orig) =
      ({ o with orderId := some orderIdC, leavesQty := e.leaves, cumQty := e.cum, avgPx := some e.avgPx },
       .ok false) := by
  rw [feed_execRep o e cl ex orig hid, hres]
  simp [execApply, hex, finishExec_none]

theorem pending_not_nonPending {o : Order} {k : String} (h : o.status = pstat k) : ¬ nonPending o := by
  intro hnp
  rcases pstat_pending k with h' | h' <;> simp [nonPending, h, h'] at hnp

theorem decide_ok {o : Order} {c : List Msg} {e : Exch} (d : Decision) (h : Sync0 o c e)
    (hcalm : noSuspReplace (e.decide d).2) : EmitOk o c (e.decide d) := by
  unfold Exch.decide at hcalm ⊢
  cases hpe : e.pending with
  | none => exact emit_noop h
  | some p =>
    simp only [hpe] at hcalm ⊢
    cases h with
    | created h => have := h.pend; rw [hpe] at this; cases this
    | newSent m oo h => have := h.pend; rw [hpe] at this; cases this
    | idle h => have := h.pend; rw [hpe] at this; cases this
    | reqSent m k pr qr h => have := h.pend; rw [hpe] at this; cases this
    | reqPending p' h =>
      have hpp : p' = p := by have := h.pend; rw [hpe] at this; exact (Option.some.inj this).symm
      subst hpp
      obtain ⟨hbb, hb8, hb4⟩ := live_bases h.live
      have hpst := h.status ▸ pstat_pending p'.kind
      have hnp := pending_not_nonPending h.status
      by_cases hd : d = .reject
      · simp only [hd, if_true]
        have hf := feed_rej_pending o p'.clOrdId e.liveId (some e.liveId) e.base false hpst hbb h.orig h.livene
        simp only [hb8, if_false] at hf
        refine ⟨⟨⟨true, by rw [hf]⟩, fun hn => absurd hn hnp, trivial⟩, ?_⟩
        simp only [drain]; rw [hf]
        exact Sync0.idle ⟨h.known, rfl, rfl, hbb, rfl, h.livene, fun _ => rfl, fun h8 => absurd h8 hb8,
          ⟨h.nums.cum, h.nums.leaves, h.nums.price, h.nums.qty⟩⟩
      · simp only [hd, if_false] at hcalm ⊢
        by_cases hk : p'.kind = "F"
        · simp only [hk, if_true]
          have hst6 : o.status = "6" := by rw [h.status, hk]; rfl
          have hf := feed_go o { e with pending := none, liveId := p'.clOrdId, base := "4", leaves := 0 }
            p'.clOrdId "4" (some e.liveId) (Or.inl h.pcl) (by decide)
            (by rw [hst6]; exact cs8_cancelled) (by show "4" ∈ bases; decide)
          refine ⟨⟨⟨true, by rw [hf]⟩, fun hn => absurd hn hnp, trivial⟩, ?_⟩
          simp only [drain]; rw [hf]
          exact Sync0.idle ⟨h.known, rfl, rfl, (by show "4" ∈ bases; decide), h.pcl.symm, h.pcl ▸ h.clne, fun h4 => absurd rfl h4,
            fun h8 => by simp at h8, ⟨rfl, rfl, h.nums.price, h.nums.qty⟩⟩
        · have hkG : p'.kind = "G" := by rcases h.kind with h' | h'; exact absurd h' hk; exact h'
          simp only [hk, if_false] at hcalm ⊢
          have hstE : o.status = "E" := by rw [h.status, hkG]; rfl
          -- the reported state after the replace
          generalize hlv : (if p'.qty - e.cum < 0 then (0 : Int) else p'.qty - e.cum) = lv at hcalm ⊢
          generalize hb : (if lv = 0 then "2" else if e.base = "9" then "9" else if e.cum > 0 then "1" else "0") = b
            at hcalm ⊢
          generalize hnq : (if p'.qty < e.cum then e.cum else p'.qty) = nq at hcalm ⊢
          have hb9 : b ≠ "9" := by
            intro h9
            have := hcalm _ (List.mem_singleton.mpr rfl)
            apply this
            simp [Exch.execRep, Exch.reported, h9]
          have hbm : b ∈ ["0", "1", "2"] := by
            rw [← hb] at hb9 ⊢
            repeat' split
            all_goals first
              | decide
              | (exfalso; apply hb9; simp [*])
          have hfe := feed_execRep o
            { e with pending := none, liveId := p'.clOrdId, price := p'.price, qty := nq, leaves := lv, base := b }
            p'.clOrdId "5" (some e.liveId) (Or.inl h.pcl)
          have hrep : Exch.reported { e with pending := none, liveId := p'.clOrdId, price := p'.price, qty := nq, leaves := lv, base := b } = b := rfl
          rw [hrep, hstE, cs8_replaced b hbm] at hfe
          have hbsv : b ∈ statusValues ∧ b ≠ "" := by
            revert hbm; generalize b = b'; revert b'; decide +kernel
          simp only [execApply, if_true, finishExec_to _ hbsv] at hfe
          refine ⟨⟨⟨true, by rw [hfe]⟩, fun hn => absurd hn hnp, trivial⟩, ?_⟩
          simp only [drain]; rw [hfe]
          have hbb' : b ∈ bases := by revert hbm; generalize b = b'; revert b'; decide
          exact Sync0.idle ⟨h.known, rfl, rfl, hbb', h.pcl.symm, h.pcl ▸ h.clne, fun _ => rfl,
            fun h8 => by have h8' : b = "8" := h8; rw [h8'] at hbm; simp at hbm, ⟨rfl, rfl, rfl, rfl⟩⟩

/-- exchange state right after it took the NewOrderSingle of `o` -/
def newEx (e : Exch) (o : Order) (b : String) (lv : Int) : Exch :=
  { e with known := true, liveId := o.clordId, price := o.price, qty := o.qty, cum := 0, avgPx := 0, base := b, leaves := lv }

/-- the exchange takes the NewOrderSingle -/
theorem recv_new_ok {o : Order} {e : Exch} {m : Msg} {oo : Option Str} (d : Decision) (h : SNew o e m oo) :
    EmitOk o [] (e.recv (Req.ofMsg m) d) := by
  rw [h.req]
  have hnp : nonPending o := by simp [nonPending, h.status]
  -- the three answers
  have key : ∀ (b x : String) (lv : Int), (b = "0" ∧ x = "0") ∨ (b = "A" ∧ x = "A") ∨ (b = "8" ∧ x = "8") →
      (b = "8" → lv = 0) → EmitOk o [] (newEx e o b lv, [(newEx e o b lv).execRep o.clordId x none]) := by
    intro b x lv hbx h8
    have hrep : (newEx e o b lv).reported = b := by simp [Exch.reported, newEx, h.pend]
    have hbb : b ∈ bases ∧ b ≠ "4" ∧ x ≠ "5" := by
      rcases hbx with ⟨rfl, rfl⟩ | ⟨rfl, rfl⟩ | ⟨rfl, rfl⟩ <;> decide
    have hben : benign o.clordId ((newEx e o b lv).execRep o.clordId x none) :=
      ⟨_, x, rfl, hbb.2.2, h.pend, hbb.1, hbb.2.1⟩
    have hsync : ∀ o' : Order, o'.status = b → o'.clordId = o.clordId → o'.origClordId = none →
        o'.cumQty = 0 → o'.leavesQty = lv → o'.price = o.price → o'.qty = o.qty →
        Sync0 o' [] (newEx e o b lv) := by
      intro o' h1 h2 h3 h4 h5 h6 h7
      exact Sync0.idle ⟨rfl, h.pend, h1, hbb.1, h2, h.clne, fun _ => h3, h8, ⟨h4, h5, h6, h7⟩⟩
    rcases hbx with ⟨rfl, rfl⟩ | ⟨rfl, rfl⟩ | ⟨rfl, rfl⟩
    · have hf := feed_go o (newEx e o "0" lv) o.clordId "0" none (Or.inl rfl) (by decide)
        (by rw [hrep, h.status]; exact cs8_new_ack) (by rw [hrep]; decide)
      refine ⟨⟨⟨true, by rw [hf]⟩, fun _ => hben, trivial⟩, ?_⟩
      simp only [drain]; rw [hf]
      exact hsync _ hrep rfl h.orig rfl rfl rfl rfl
    · have hf := feed_stay o (newEx e o "A" lv) o.clordId "A" none (Or.inl rfl) (by decide)
        (by rw [hrep, h.status]; exact cs8_pendnew)
      refine ⟨⟨⟨false, by rw [hf]⟩, fun _ => hben, trivial⟩, ?_⟩
      simp only [drain]; rw [hf]
      exact hsync _ h.status rfl h.orig rfl rfl rfl rfl
    · have hf := feed_go o (newEx e o "8" lv) o.clordId "8" none (Or.inl rfl) (by decide)
        (by rw [hrep, h.status]; exact cs8_new_rej) (by rw [hrep]; decide)
      refine ⟨⟨⟨true, by rw [hf]⟩, fun _ => hben, trivial⟩, ?_⟩
      simp only [drain]; rw [hf]
      exact hsync _ hrep rfl h.orig rfl rfl rfl rfl
  unfold Exch.recv
  simp only [h.known, Bool.false_eq_true, if_false, if_true, Option.getD_some]
  by_cases hbad : badPQ (some o.price) (some o.qty) = true
  · simp only [hbad, if_true]
    exact key "8" "8" 0 (Or.inr (Or.inr ⟨rfl, rfl⟩)) (fun _ => rfl)
  · simp only [hbad, if_false]
    cases d with
    | accept => exact key "0" "0" o.qty (Or.inl ⟨rfl, rfl⟩) (fun h8 => by simp at h8)
    | pend => exact key "A" "A" o.qty (Or.inr (Or.inl ⟨rfl, rfl⟩)) (fun h8 => by simp at h8)
    | reject => exact key "8" "8" 0 (Or.inr (Or.inr ⟨rfl, rfl⟩)) (fun _ => rfl)

/-- exchange state holding the request -/
def holdEx (e : Exch) (k : String) (cl : Str) (np nq : Int) : Exch :=
  { e with pending := some ⟨k, cl, np, nq⟩ }

theorem hold_sync {o : Order} {e : Exch} {m : Msg} {k : String} {pr qr : Option Int} (np nq : Int)
    (h : SSent o e m k pr qr) (hl : Exchange.live e.base = true) :
    Sync0 o [] (holdEx e k o.clordId np nq) :=
  Sync0.reqPending ⟨k, o.clordId, np, nq⟩
    ⟨h.known, rfl, h.kind, rfl, h.orig, h.livene, h.clne, h.status, hl, ⟨h.nums.cum, h.nums.leaves, h.nums.price, h.nums.qty⟩⟩

/-- the request is acknowledged as pending -/
theorem recv_pend_ok {o : Order} {e : Exch} {m : Msg} {k : String} {pr qr : Option Int} (np nq : Int) (x : String)
    (hx : x = "6" ∨ x = "E") (h : SSent o e m k pr qr) (hl : Exchange.live e.base = true) :
    EmitOk o [] (holdEx e k o.clordId np nq, [(holdEx e k o.clordId np nq).execRep o.clordId x (some e.liveId)]) := by
  have hpst := h.status ▸ pstat_pending k
  have hnp := pending_not_nonPending h.status
  have hex : x ≠ "5" := by rcases hx with rfl | rfl <;> decide
  have hrep : (holdEx e k o.clordId np nq).reported = pstat k := rfl
  have hf := feed_pending o (holdEx e k o.clordId np nq) o.clordId x (some e.liveId) hpst (Or.inl rfl) hex
    (hrep ▸ pstat_ne4 k)
  refine ⟨⟨⟨false, by rw [hf]⟩, fun hn => absurd hn hnp, trivial⟩, ?_⟩
  simp only [drain]; rw [hf]
  exact Sync0.reqPending ⟨k, o.clordId, np, nq⟩
    ⟨h.known, rfl, h.kind, rfl, h.orig, h.livene, h.clne, h.status, hl, ⟨rfl, rfl, h.nums.price, h.nums.qty⟩⟩

/-- an immediate reject with the current state -/
theorem recv_rej_ok {o : Order} {e : Exch} {m : Msg} {k : String} {pr qr : Option Int}
    (h : SSent o e m k pr qr) : EmitOk o [] (e, [cxlRej o.clordId (some e.liveId) e.base]) := by
  have hpst := h.status ▸ pstat_pending k
  have hnp := pending_not_nonPending h.status
  have hf := feed_rej_pending o o.clordId e.liveId (some e.liveId) e.base false hpst h.base h.orig h.livene
  refine ⟨⟨⟨true, by rw [hf]⟩, fun hn => absurd hn hnp, trivial⟩, ?_⟩
  simp only [drain]; rw [hf]
  refine Sync0.idle ⟨h.known, h.pend, rfl, h.base, rfl, h.livene, fun _ => rfl, h.rej0, ?_⟩
  by_cases h8 : e.base = "8"
  · simp only [h8, if_true]
    exact ⟨h.nums.cum, (h.rej0 h8).symm, h.nums.price, h.nums.qty⟩
  · simp only [h8, if_false]
    exact ⟨h.nums.cum, h.nums.leaves, h.nums.price, h.nums.qty⟩

/-- the exchange takes a cancel / replace request -/
theorem recv_req_ok {o : Order} {e : Exch} {m : Msg} {k : String} {pr qr : Option Int} (d : Decision)
    (h : SSent o e m k pr qr) (hcalm : noSuspReplace (e.recv (Req.ofMsg m) d).2) :
    EmitOk o [] (e.recv (Req.ofMsg m) d) := by
  rw [h.req] at hcalm ⊢
  have hrej := recv_rej_ok h
  by_cases hl : Exchange.live e.base = true
  · rcases h.kind with hk | hk
    · -- cancel
      subst hk
      unfold Exch.recv at hcalm ⊢
      simp only [h.known, h.pend, hl, show ("F" : String) ≠ "D" by decide, show ("F" : String) ≠ "G" by decide,
        if_false, if_true, Bool.not_true, bne_self_eq_false, Option.isSome_none, Bool.or_self,
        Bool.false_eq_true, true_or, false_and, Option.getD_some] at hcalm ⊢
      cases d with
      | reject => simpa using hrej
      | pend =>
        simp only [show Decision.pend ≠ Decision.reject by decide, if_false, if_true]
        simpa only [holdEx, h.known] using recv_pend_ok e.price e.qty "6" (Or.inl rfl) h hl
      | accept =>
        simp only [show Decision.accept ≠ Decision.reject by decide, show Decision.accept ≠ Decision.pend by decide,
          if_false] at hcalm ⊢
        have hs := hold_sync e.price e.qty h hl
        simp only [holdEx, h.known] at hs
        exact decide_ok .accept hs hcalm
    · -- replace
      subst hk
      unfold Exch.recv at hcalm ⊢
      simp only [h.known, h.pend, hl, show ("G" : String) ≠ "D" by decide, show ("G" : String) ≠ "F" by decide,
        if_false, if_true, Bool.not_true, bne_self_eq_false, Option.isSome_none, Bool.or_self,
        Bool.false_eq_true, or_true, true_and] at hcalm ⊢
      by_cases hbad : badPQ pr qr = true
      · simpa [hbad] using hrej
      · simp only [hbad, Bool.false_eq_true, if_false] at hcalm ⊢
        cases d with
        | reject => simpa using hrej
        | pend =>
          simp only [show Decision.pend ≠ Decision.reject by decide, if_false, if_true]
          simpa only [holdEx, h.known] using recv_pend_ok (pr.getD 0) (qr.getD 0) "E" (Or.inr rfl) h hl
        | accept =>
          simp only [show Decision.accept ≠ Decision.reject by decide,
            show Decision.accept ≠ Decision.pend by decide, if_false] at hcalm ⊢
          have hs := hold_sync (pr.getD 0) (qr.getD 0) h hl
          simp only [holdEx, h.known] at hs
          exact decide_ok .accept hs hcalm
  · have hkD : k ≠ "D" := by rcases h.kind with h' | h' <;> rw [h'] <;> decide
    unfold Exch.recv
    simp only [hkD, if_false, h.kind, if_true, h.known, h.pend, Bool.not_true,
      bne_self_eq_false, Option.isSome_none, Bool.or_self, Bool.false_eq_true, hl, Bool.not_false]
    exact hrej

end AsyncFix.Model.OrderLink
