import AsyncFix.Lemmas.SchedSpec

/-!
Sched family: specifications (`MSpec`) of the await-free handlers.
-/
namespace AsyncFix.Sched

open AsyncFix.Session AsyncFix.Generated AsyncFix.Generated.ConnEnum

variable {i : Bool}

theorem stateSet_spec (s : Nat) : MSpec i (stateSet s) := by
  unfold stateSet
  spec_tac [MSpec.modify']

/-- number selection of `Codec.encode` for a new message: the session's counter, which is advanced -/
theorem encodeSeq_new {m : Msg} (hm : isNew m = true) (c : Conn) :
    encodeSeq m c = ⟨.ok c.sess.nextOut, { c with sess := { c.sess with nextOut := c.sess.nextOut + 1 } }, []⟩ := by
  simp only [isNew, Bool.and_eq_true, Bool.not_eq_true'] at hm
  unfold encodeSeq
  rw [if_neg (by simp [hm.1]), if_neg (by simp [hm.2])]
  rfl

/-- **`send_msg` after its state checks, for a new message, is one atomic step that keeps the outbound
invariant**: the number is the counter's value, the frame carries it, is journaled under it (never a
duplicate: all rows are below the counter) and is written – or, without a transport, is journaled and
lost. -/
theorem sendCore_spec (env : Env) {m : Msg} (hm : isNew m = true) : MSpec i (sendCore env m) := by
  constructor
  intro c hJ
  unfold sendCore
  simp only [M.bind_apply, M.get_apply]
  split
  · exact seg_raise hJ rfl
  · simp only [encodeSeq_new hm, M.bind_apply, M.get_apply, List.nil_append]
    split
    · -- not single-byte: the number is given back
      simp only [M.modify_apply, M.throw_apply, pend, List.nil_append]
      refine Seg.of_same hJ ⟨rfl, rfl, rfl⟩ rfl rfl rfl
    · -- journal
      have hins := rows_insert_above (k := c.sess.nextOut)
        (m := buildFrame { c.sess with nextOut := c.sess.nextOut + 1 } env.stamp m c.sess.nextOut) hJ.below
      simp only [Journal.persist, hins, Option.map_some]
      simp only [M.bind_apply, M.modify_apply, List.nil_append]
      have hJ' : J { c with sess := { c.sess with nextOut := c.sess.nextOut + 1 },
                            journal := { c.journal with
                              out := c.journal.out ++ [(c.sess.nextOut,
                                buildFrame { c.sess with nextOut := c.sess.nextOut + 1 } env.stamp m c.sess.nextOut)],
                              outSeq := c.sess.nextOut } } := by
        refine ⟨rfl, ?_⟩
        intro p hp
        simp only [List.mem_append, List.mem_singleton] at hp
        rcases hp with hp | hp
        · have := hJ.below p hp; simp only; omega
        · subst hp; simp only; omega
      split
      · -- no transport: AttributeError after the journal write
        simp only [M.throw_apply, pend, List.nil_append]
        exact ⟨hJ', by simp only [newWrites, writes, List.filter, Asc]; omega, by simp [newWrites, writes, lost],
          by simp [writes], fun n g hg => rows_find_append_some _ hg, by simp [newWrites, writes], rfl⟩
      · simp only [M.emit_apply, pend, List.append_nil]
        have hnew := buildFrame_isNew { c.sess with nextOut := c.sess.nextOut + 1 } env.stamp m c.sess.nextOut
        have hseq := buildFrame_seq { c.sess with nextOut := c.sess.nextOut + 1 } env.stamp m c.sess.nextOut
        rw [hm] at hnew
        refine ⟨hJ', ?_, ?_, ?_, fun n g hg => rows_find_append_some _ hg, ?_, rfl⟩
        · simp only [newWrites, writes, List.filter, hnew]
          exact ⟨_, hseq, Int.le_refl _, Int.le_refl _⟩
        · simp [newWrites, writes, List.filter, hnew, lost]
        · intro f hf; simp only [writes, List.mem_singleton] at hf; subst hf; exact hnew
        · intro f hf
          simp only [newWrites, writes, List.filter, hnew, List.mem_singleton] at hf
          subst hf
          exact ⟨_, hseq, rows_find_append_new hJ.below⟩

/-- text that no session can put on the wire: a tag the encoder copies into the frame (every tag but 34, 52,
49, 56) holds a character outside latin-1.  `send_msg` refuses such a message with EncodingError. -/
def unencodable (m : Msg) : Bool :=
  m.tags.any fun p => !isLatin1 p.2 &&
    (p.1 ≠ tMsgSeqNum && p.1 ≠ tSendingTime && p.1 ≠ tSenderCompID && p.1 ≠ tTargetCompID)

theorem buildFrame_not_latin1 (s : Session) (stamp : String) {m : Msg} (seq : Int) (h : unencodable m = true) :
    frameLatin1 (buildFrame s stamp m seq) = false := by
  simp only [unencodable, List.any_eq_true, Bool.and_eq_true, Bool.not_eq_true'] at h
  obtain ⟨p, hp, hl, hk⟩ := h
  simp only [frameLatin1, List.all_eq_false]
  refine ⟨p, ?_, by simp [hl]⟩
  simp only [buildFrame, bodyFields, List.mem_append, List.mem_filter]
  exact Or.inl (Or.inr (Or.inr ⟨hp, by simpa [Bool.and_eq_true] using hk⟩))

/-- number selection of `Codec.encode`, any message: no effect, the journal untouched; when it raises
(EncodingError / ValueError / TagNotFoundError) nothing at all has changed -/
theorem encodeSeq_shape (m : Msg) (c : Conn) :
    (encodeSeq m c).eff = [] ∧ (encodeSeq m c).conn.journal = c.journal ∧
    (∀ ex, (encodeSeq m c).res = .error ex → benign ex = true ∧ (encodeSeq m c).conn = c) := by
  have own : ∀ c : Conn,
      ((if (!m.has tMsgSeqNum) = true then (M.throw .encoding : M Int)
        else do let v ← M.liftE (m.get tMsgSeqNum); M.int v) c).eff = [] ∧
      ((if (!m.has tMsgSeqNum) = true then (M.throw .encoding : M Int)
        else do let v ← M.liftE (m.get tMsgSeqNum); M.int v) c).conn = c ∧
      (∀ ex, ((if (!m.has tMsgSeqNum) = true then (M.throw .encoding : M Int)
        else do let v ← M.liftE (m.get tMsgSeqNum); M.int v) c).res = .error ex → benign ex = true) := by
    intro c
    split
    · exact ⟨rfl, rfl, by intro ex h; cases h; rfl⟩
    · simp only [M.bind_apply, M.liftE_apply]
      cases hg : m.get tMsgSeqNum with
      | error e =>
        refine ⟨rfl, rfl, ?_⟩
        intro ex h
        simp only [Except.error.injEq] at h
        subst h
        unfold Msg.get at hg
        split at hg <;> cases hg
        rfl
      | ok v =>
        simp only [M.int_apply]
        cases pyInt v with
        | none => exact ⟨rfl, rfl, by intro ex h; cases h; rfl⟩
        | some n => exact ⟨rfl, rfl, by intro ex h; cases h⟩
  unfold encodeSeq
  split
  · obtain ⟨h1, h2, h3⟩ := own c
    exact ⟨h1, by rw [h2], fun ex h => ⟨h3 ex h, h2⟩⟩
  · split
    · obtain ⟨h1, h2, h3⟩ := own c
      exact ⟨h1, by rw [h2], fun ex h => ⟨h3 ex h, h2⟩⟩
    · exact ⟨rfl, rfl, by intro ex h; cases h⟩

/-- a message whose text cannot be encoded – whether it would take a new number or carries its own – is
refused with everything on the outbound side as it was -/
theorem sendCore_spec_unencodable (env : Env) {m : Msg} (hm : unencodable m = true) : MSpec i (sendCore env m) := by
  constructor
  intro c hJ
  obtain ⟨he, hj, hx⟩ := encodeSeq_shape m c
  rcases hres : encodeSeq m c with ⟨r, c1, e1⟩
  rw [hres] at he hj hx
  simp only at he hj hx
  subst he
  unfold sendCore
  simp only [M.bind_apply, M.get_apply]
  split
  · exact seg_raise hJ rfl
  · simp only [M.bind_apply, hres]
    cases r with
    | error ex =>
      obtain ⟨hb, hc⟩ := hx ex rfl
      subst hc
      simpa [pend] using (seg_raise (i := i) hJ hb)
    | ok seq =>
      simp only [M.bind_apply, M.get_apply, List.nil_append, buildFrame_not_latin1 _ _ _ hm, Bool.not_false,
        if_true, M.modify_apply, M.throw_apply, pend]
      exact Seg.of_same hJ ⟨rfl, by simp [hj], by simp [hj]⟩ rfl rfl rfl

theorem sendGate_spec (m : Msg) : MSpec i (sendGate m) := by
  unfold sendGate
  spec_tac [MSpec.modify', stateSet_spec]

theorem sendMsg_spec (env : Env) {m : Msg} (hm : isNew m = true) : MSpec i (sendMsg env m) := by
  unfold sendMsg
  exact MSpec.bind (sendGate_spec m) fun _ => sendCore_spec env hm

theorem validateIntegrity_spec (m : Msg) : MSpec i (validateIntegrity m) := by
  unfold validateIntegrity
  spec_tac []

/-- `set_seq_num(next_num_in = n)`: the outbound rows are all below the counter, so the `DELETE … >=`
removes none of them and the stored outbound counter is rewritten with its own value -/
theorem setSeqNum_in_spec (n : Int) : MSpec i (setSeqNum none (some n)) := by
  constructor
  intro c hJ
  by_cases hn : n > 0
  · let c' : Conn := { c with sess := { c.sess with nextIn := n }, journal := c.journal.setSeq c.sess.nextOut n }
    have h : setSeqNum none (some n) c = ⟨.ok (), c', []⟩ := by
      simp [setSeqNum, M.bind_apply, M.assert_apply, hn, c']
    rw [h]
    simp only [pend, List.append_nil]
    refine Seg.of_same hJ ⟨rfl, ?_, ?_⟩ rfl rfl rfl
    · simp only [c', Journal.setSeq]; exact rows_below_self hJ.below
    · simp only [c', Journal.setSeq]; have := hJ.counter; omega
  · have h : setSeqNum none (some n) c = ⟨.error .assertion, c, []⟩ := by
      simp [setSeqNum, M.bind_apply, M.assert_apply, hn]
    rw [h]
    exact seg_raise hJ rfl

theorem processSeqreset_spec (m : Msg) : MSpec i (processSeqreset m) := by
  unfold processSeqreset
  spec_tac [setSeqNum_in_spec]

theorem setNextNumIn_spec (m : Msg) : MSpec i (setNextNumIn m) := by
  unfold setNextNumIn
  spec_tac [MSpec.modify']

theorem persistInbound_spec (m : Msg) : MSpec true (persistInbound m) := by
  constructor
  intro c hJ
  have hraise : Seg true c c [.raised .fixMessage] := seg_raise hJ rfl
  unfold persistInbound
  cases hg : m.get? tMsgSeqNum with
  | none => simpa [M.bind_apply, pend] using hraise
  | some v =>
    dsimp only
    cases hp : pyInt v with
    | none => simpa [M.bind_apply, pend] using hraise
    | some n =>
      simp only [M.bind_apply, M.pure_apply, M.get_apply, List.nil_append, Journal.persist]
      cases c.journal.inb.insert n m with
      | none => exact Seg.of_same hJ (OutSame.refl c) rfl rfl rfl
      | some r => exact Seg.of_same hJ ⟨rfl, rfl, rfl⟩ rfl rfl rfl

end AsyncFix.Sched
