/-
Local invariants of the order object under ARBITRARY call sequences (any reports, well-formed or
not): status stays in the enum, `orig_clord_id` is only set while a request is pending (or after a
cancel), the builders succeed whenever the gates say so, the ClOrdID counter.
-/
import AsyncFix.Props.C16
import AsyncFix.Lemmas.OrderObjText
namespace AsyncFix.Model.OrderObj
open AsyncFix.Model.OrderTable AsyncFix.Props.C16

/-! ### table facts (generated table, finite check lifted to all strings) -/

theorem fresh_E : U.fresh ∉ U.E := by decide +kernel
theorem e5_E : "5" ∈ U.E := by decide +kernel

def sticky : List String := ["6", "E", "4"]
theorem sticky_sub : ∀ x ∈ sticky, x ∈ U.S := by decide +kernel
theorem r4_R : "4" ∈ U.R := by decide +kernel

theorem sticky_tbl : checkAll spec U
    (fun k s e r o => !(k == "8" && sticky.contains s && !(e == "5")) || o != .cell .go || r == "4") = true := by
  decide +kernel

/-- from PENDING_CANCEL / PENDING_REPLACE / CANCELED an execution report that is not a Replaced
report can only lead to CANCELED -/
theorem sticky_exec (status ex st s : String) (hs : status ∈ sticky) (hex : ex ≠ "5")
    (h : changeStatus spec status "8" ex st false = .to s) : s = "4" := by
  have hx : s = st ∧ cellOf spec "8" status ex st = .cell .go := by
    unfold changeStatus at h
    cases hco : cellOf spec "8" status ex st with
    | noTable => simp [hco] at h
    | cell c => cases c <;> simp_all
  obtain ⟨rfl, hgo⟩ := hx
  have h := checkAll_spec spec_ok sticky_tbl "8" status ex s
  simp only [beq_norm k8_K fresh_K, contains_norm sticky_sub fresh_S, beq_norm e5_E fresh_E,
    beq_norm r4_R fresh_R, hgo] at h
  have hc : sticky.contains status = true := by simpa using hs
  have he : (ex == "5") = false := by simpa using hex
  simpa [hc, he, hs] using h

theorem req_F : "F" ∈ requestKinds := by decide
theorem req_G : "G" ∈ requestKinds := by decide

theorem canRequest_eq (o : Order) (kind rep : String) (hk : kind ∈ requestKinds) :
    canRequest o kind rep = .ok (decide (o.status ∈ live)) := by
  unfold canRequest
  rw [cancel_replace_gate _ _ _ _ _ hk]
  by_cases h1 : o.status ∈ live
  · simp [h1]
  · by_cases h2 : o.status ∈ pendingReq <;> simp [h1, h2]

theorem canCancel_eq (o : Order) : canCancel o = .ok (decide (o.status ∈ live)) :=
  canRequest_eq o "F" "6" req_F
theorem canReplace_eq (o : Order) : canReplace o = .ok (decide (o.status ∈ live)) :=
  canRequest_eq o "G" "E" req_G

/-! ### the invariant -/

/-- status is an enum value; `orig_clord_id` is truthy only in PENDING_CANCEL / PENDING_REPLACE /
CANCELED; the current ClOrdID is never empty -/
structure LocalInv (o : Order) : Prop where
  enum : o.status ∈ statusValues
  orig : truthy o.origClordId = true → o.status ∈ sticky
  clord : o.clordId ≠ []

theorem sv_Z : "Z" ∈ statusValues := by decide +kernel
theorem sv_A : "A" ∈ statusValues := by decide +kernel
theorem sv_6 : "6" ∈ statusValues := by decide +kernel
theorem sv_E : "E" ∈ statusValues := by decide +kernel

theorem init_inv {root : Str} {p q : Int} {t s ot a : Str} {o : Order}
    (h : Order.init root p q t s ot a = .ok o) : LocalInv o := by
  unfold Order.init at h
  split at h
  · cases h
  · rename_i hr
    cases h
    exact ⟨sv_Z, by simp [truthy], hr⟩

theorem nextId_ne_nil (o : Order) : nextId o ≠ [] := by
  simp [nextId]

theorem live_not_sticky {s : String} (h : s ∈ live) : s ∉ sticky := by
  simp only [live, List.mem_cons, List.not_mem_nil, or_false] at h
  rcases h with rfl | rfl | rfl <;> decide

theorem newReq_inv (o : Order) (h : LocalInv o) : LocalInv (newReq o).1 := by
  unfold newReq
  split
  · exact h
  · rename_i hz
    have hz : o.status = "Z" := by simpa using hz
    refine ⟨sv_A, ?_, nextId_ne_nil o⟩
    intro ht
    have := h.orig ht
    rw [hz] at this; exact absurd this (by decide)

theorem cancelReq_inv (o : Order) (h : LocalInv o) : LocalInv (cancelReq o).1 := by
  unfold cancelReq
  rw [canCancel_eq]
  by_cases hl : o.status ∈ live
  · simp only [hl, decide_true]
    split
    · exact h
    · exact ⟨sv_6, fun _ => (by decide : "6" ∈ sticky), nextId_ne_nil o⟩
  · simp only [hl, decide_false]; exact h

theorem replaceReq_inv (o : Order) (p q : Option Int) (h : LocalInv o) : LocalInv (replaceReq o p q).1 := by
  unfold replaceReq
  rw [canReplace_eq]
  by_cases hl : o.status ∈ live
  · simp only [hl, decide_true]
    split
    · exact h
    · split
      · exact h
      · exact ⟨sv_E, fun _ => (by decide : "E" ∈ sticky), nextId_ne_nil o⟩
  · simp only [hl, decide_false]; exact h

theorem truthy_getD {x : Option Str} (h : truthy x = true) : x.getD [] ≠ [] := by
  match x, h with
  | some (_ :: _), _ => simp

theorem revertId_facts (o : Order) (hc : o.clordId ≠ []) :
    (revertId o).status = o.status ∧ (revertId o).clordId ≠ [] ∧ truthy (revertId o).origClordId = false ∧
    (revertId o).clordCnt = o.clordCnt := by
  unfold revertId
  by_cases ht : truthy o.origClordId = true
  · rw [if_pos ht]
    exact ⟨rfl, truthy_getD ht, rfl, rfl⟩
  · rw [if_neg ht]
    exact ⟨rfl, hc, by simpa using ht, rfl⟩

theorem processCancelRej_inv (o : Order) (r : Report) (h : LocalInv o) :
    LocalInv (processCancelRej o r).1 := by
  unfold processCancelRej
  split
  · exact h
  · split
    · exact h
    · rename_i st _
      have hk := revertId_facts (if st = "8" then { o with leavesQty := 0 } else o)
        (by split <;> exact h.clord)
      have hst : (if st = "8" then { o with leavesQty := 0 } else o).status = o.status := by split <;> rfl
      obtain ⟨k1, k2, k3, _⟩ := hk
      rw [hst] at k1
      split
      · exact h
      · rename_i s _
        unfold setStatus
        split
        · rename_i hs
          exact ⟨hs, fun ht => (by rw [k3] at ht; cases ht), k2⟩
        · exact ⟨(by show (revertId _).status ∈ statusValues; rw [k1]; exact h.enum), fun ht => (by rw [k3] at ht; cases ht), k2⟩
      · exact ⟨(by show (revertId _).status ∈ statusValues; rw [k1]; exact h.enum), fun ht => (by rw [k3] at ht; cases ht), k2⟩

/-- what `finishExec` can do: nothing, or set an enum status that the table allowed -/
theorem finishExec_shape (res : OrderTable.Res) (o : Order) :
    (finishExec res o).1 = o ∨
    ∃ s, res = .to s ∧ s ∈ statusValues ∧ (finishExec res o).1 = { o with status := s } := by
  unfold finishExec
  split
  · rename_i s
    split
    · unfold setStatus
      split
      · rename_i hs; exact Or.inr ⟨s, rfl, hs, rfl⟩
      · exact Or.inl rfl
    · exact Or.inl rfl
  · exact Or.inl rfl

/-- the order after a call of `process_execution_report`, up to the fields no invariant mentions -/
structure ExecShape (res : OrderTable.Res) (ex : String) (o o' : Order) : Prop where
  clord : o'.clordId = o.clordId
  cnt : o'.clordCnt = o.clordCnt
  status : o'.status = o.status ∨ (res = .to o'.status ∧ o'.status ∈ statusValues)
  orig : o'.origClordId = o.origClordId ∨ (o'.origClordId = none ∧ ex = "5")
  orig5 : o'.status ≠ o.status → ex = "5" → o'.origClordId = none

theorem ExecShape.refl' (res : OrderTable.Res) (ex : String) (o o' : Order)
    (h1 : o'.clordId = o.clordId) (h2 : o'.clordCnt = o.clordCnt) (h3 : o'.status = o.status)
    (h4 : o'.origClordId = o.origClordId) : ExecShape res ex o o' :=
  ⟨h1, h2, Or.inl h3, Or.inl h4, fun h => absurd h3 h⟩

theorem finishExec_execShape (res : OrderTable.Res) (ex : String) (o o3 : Order)
    (h1 : o3.clordId = o.clordId) (h2 : o3.clordCnt = o.clordCnt) (h3 : o3.status = o.status)
    (h4 : o3.origClordId = o.origClordId ∨ (o3.origClordId = none ∧ ex = "5"))
    (h5 : ex = "5" → o3.origClordId = none) :
    ExecShape res ex o (finishExec res o3).1 := by
  rcases finishExec_shape res o3 with h | ⟨s, hs, hv, h⟩
  · rw [h]; exact ⟨h1, h2, Or.inl h3, h4, fun _ => h5⟩
  · rw [h]; exact ⟨h1, h2, Or.inr ⟨hs, hv⟩, h4, fun _ => h5⟩

theorem applyReplaced_execShape (res : OrderTable.Res) (o o2 : Order) (r : Report)
    (h1 : o2.clordId = o.clordId) (h2 : o2.clordCnt = o.clordCnt) (h3 : o2.status = o.status)
    (h4 : o2.origClordId = o.origClordId) :
    ExecShape res "5" o (applyReplaced res o2 r).1 := by
  unfold applyReplaced
  repeat' split
  all_goals first
    | exact ExecShape.refl' _ _ _ _ h1 h2 h3 h4
    | exact finishExec_execShape _ _ _ _ h1 h2 h3 (Or.inr ⟨rfl, rfl⟩) (fun _ => rfl)

theorem processExecReport_shape (o : Order) (r : Report) :
    ExecShape (changeStatus spec o.status "8" (r.execType.getD "") (r.ordStatus.getD "") false)
      (r.execType.getD "") o (processExecReport o r).1 := by
  unfold processExecReport
  repeat' split
  all_goals (try subst_vars)
  all_goals simp only [*, Option.getD_some]
  all_goals first
    | exact ExecShape.refl' _ _ _ _ rfl rfl rfl rfl
    | exact applyReplaced_execShape _ _ _ _ rfl rfl rfl rfl
    | exact finishExec_execShape _ _ _ _ rfl rfl rfl (Or.inl rfl) (fun h => absurd h (by assumption))

theorem processExecReport_inv (o : Order) (r : Report) (h : LocalInv o) :
    LocalInv (processExecReport o r).1 := by
  have sh := processExecReport_shape o r
  generalize r.execType.getD "" = ex at sh
  generalize r.ordStatus.getD "" = st at sh
  refine ⟨?_, ?_, sh.clord ▸ h.clord⟩
  · rcases sh.status with hs | ⟨_, hv⟩
    · rw [hs]; exact h.enum
    · exact hv
  · intro ht
    rcases sh.orig with ho | ⟨ho, _⟩
    · rw [ho] at ht
      have hst := h.orig ht
      rcases sh.status with hs | ⟨hres, _⟩
      · rw [hs]; exact hst
      · by_cases h5 : ex = "5"
        · by_cases hne : (processExecReport o r).1.status = o.status
          · rw [hne]; exact hst
          · have := sh.orig5 hne h5
            rw [this] at ho; rw [← ho] at ht; cases ht
        · have := sticky_exec _ _ _ _ hst h5 hres
          rw [this]; decide
    · rw [ho] at ht; cases ht

end AsyncFix.Model.OrderObj
