import AsyncFix.Lemmas.SessionQuiet

/-!
Session family: `QSpec` (silence after a disconnect, from a connected start) for the handlers that can
disconnect, and `Calm` for the pieces of code that run after a disconnect.
-/
namespace AsyncFix.Session

open AsyncFix.Generated.ConnEnum

/-- `x` meets `QSpec G` from every connected state -/
structure QS {α : Type} (G : α → Prop) (x : M α) : Prop where
  out : ∀ c, isDisc c.state = false → QSpec G (x c)

/-- `x` is calm from every disconnected state -/
structure CalmFrom {α : Type} (x : M α) : Prop where
  out : ∀ c, isDisc c.state = true → Calm (x c)

namespace QS
variable {α β : Type}

theorem of_plain {G : α → Prop} {x : M α} (h : M.Rel RPlain x) : QS G x :=
  ⟨fun c hc => QSpec.of_plain h c hc⟩

theorem bind_plain {G : β → Prop} {x : M α} {f : α → M β} (hx : M.Rel RPlain x)
    (hf : ∀ a, QS G (f a)) : QS G (x >>= f) :=
  ⟨fun c hc => QSpec.bind_plain hx (fun a c1 h1 => (hf a).out c1 h1) c hc⟩

theorem bind {G : α → Prop} {H : β → Prop} {x : M α} {f : α → M β} (hx : QS G x)
    (hf : ∀ a, QS H (f a)) (hcalm : ∀ a, G a → CalmFrom (f a))
    (hH : ∀ a c1, G a → isDisc c1.state = true → ∀ b, (f a c1).res = .ok b → H b) :
    QS H (x >>= f) :=
  ⟨fun c hc => QSpec.bind c (hx.out c hc) (fun a c1 h1 => (hf a).out c1 h1)
    (fun a c1 hG hd => (hcalm a hG).out c1 hd) hH⟩

theorem tryCatch_plain {G : α → Prop} {x : M α} {h : Exc → M α} (hx : M.Rel RPlain x)
    (hh : ∀ ex, QS G (h ex)) : QS G (M.tryCatch x h) :=
  ⟨fun c hc => QSpec.tryCatch_plain hx (fun ex c1 h1 => (hh ex).out c1 h1) c hc⟩

theorem ite {G : α → Prop} {p : Prop} [Decidable p] {a b : M α} (ha : QS G a) (hb : QS G b) :
    QS G (if p then a else b) := by
  split <;> assumption

theorem pure {G : α → Prop} (a : α) : QS G (Pure.pure a : M α) :=
  of_plain (M.Rel.pure a)

/-- any single effect other than `onDisconnect` may be emitted from a connected state -/
theorem emit {G : Unit → Prop} {e : Effect} (h : flagAfter false [e] = false := by rfl)
    (h' : ∀ s, track s [e] = s := by intro s; rfl) : QS G (M.emit e) := by
  constructor
  intro c hc
  refine ⟨?_, ?_, ?_⟩
  · show quiet false [e] = true
    cases e <;> first | rfl | (simp [flagAfter] at h)
  · show isDisc c.state = flagAfter false [e]
    rw [h, hc]
  · intro a _ hd
    have : isDisc c.state = true := hd
    rw [hc] at this; cases this

/-- weaken the result predicate -/
theorem mono {G H : α → Prop} {x : M α} (h : ∀ a, G a → H a) (hx : QS G x) : QS H x :=
  ⟨fun c hc => ⟨(hx.out c hc).1, (hx.out c hc).2.1, fun a ha hd => h a ((hx.out c hc).2.2 a ha hd)⟩⟩

end QS

theorem CalmFrom.pure {α : Type} (a : α) : CalmFrom (Pure.pure a : M α) :=
  ⟨fun _ hc => ⟨rfl, hc⟩⟩

/-! ### `disconnect` -/

theorem discTail_QSpec (c1 : Conn) (d : Nat) (hd : isDisc d = true) :
    quiet false (discTail c1 d).2 = true ∧ flagAfter false (discTail c1 d).2 = true ∧
      isDisc (discTail c1 d).1.state = true := by
  cases hs : c1.sock <;> simp [discTail, quiet, flagAfter, hs, hd, Effect.loud]

theorem disconnect_QS (env : Env) (d : Nat) (lo : Option String) :
    QS (fun _ => True) (disconnect env d lo) := by
  constructor
  intro c h
  cases hd : isDisc d with
  | false =>
    rw [disconnect_bad_target env d lo c h hd]
    exact ⟨rfl, h, fun _ _ _ => trivial⟩
  | true =>
    cases lo with
    | none =>
      rw [disconnect_plain_eval env d c h hd]
      obtain ⟨h1, h2, h3⟩ := discTail_QSpec (discReset c) d hd
      exact ⟨h1, by rw [h2]; exact h3, fun _ _ _ => trivial⟩
    | some text =>
      rw [disconnect_logout_eval env d text c h hd]
      have hp := (sendMsg_plain env (logoutMsg text)).out (discReset c)
      rcases hsend : sendMsg env (logoutMsg text) (discReset c) with ⟨r, c1, e1⟩
      rw [hsend] at hp
      have hup : isDisc c1.state = false := by
        have := plain_track_up hp.2 (s := (discReset c).state) h
        rw [← hp.1] at this; exact this
      have hq1 := (plain_quiet hp.2).1
      have hf1 := (plain_quiet hp.2).2
      obtain ⟨h1, h2, h3⟩ := discTail_QSpec c1 d hd
      cases r with
      | error ex =>
        refine ⟨?_, ?_, fun _ _ _ => trivial⟩
        · show quiet false (e1 ++ [Effect.caught ex] ++ (discTail c1 d).2) = true
          rw [quiet_append, quiet_append, hq1, hf1, flagAfter_append, hf1]
          simp [quiet, flagAfter, Effect.busy, Effect.loud, h1]
        · show isDisc (discTail c1 d).1.state = flagAfter false (e1 ++ [Effect.caught ex] ++ (discTail c1 d).2)
          rw [flagAfter_append, flagAfter_append, hf1]
          simp [flagAfter, h2, h3]
      | ok u =>
        refine ⟨?_, ?_, fun _ _ _ => trivial⟩
        · show quiet false (e1 ++ (discTail c1 d).2) = true
          rw [quiet_append, hq1, hf1, h1]; rfl
        · show isDisc (discTail c1 d).1.state = flagAfter false (e1 ++ (discTail c1 d).2)
          rw [flagAfter_append, hf1, h2]; exact h3

theorem disconnect_calm (env : Env) (d : Nat) (lo : Option String) : CalmFrom (disconnect env d lo) :=
  ⟨fun c hc => by rw [disconnect_of_disc env d lo c hc]; exact ⟨rfl, hc⟩⟩

/-! ### the handlers that can disconnect -/

attribute [local irreducible] M.bind' M.pure' M.throw M.tryCatch M.get M.modify M.emit M.liftE
  M.assert M.int disconnect processLogon processLogout processHeartbeat processHead processDispatch
  processMessage swallow sendMsg sendTestReq checkSeqnumGaps processSeqreset processResend
  processTestRequest finalizeMessage validateIntegrity setSeqNum stateSet

/-- closes `M.Rel RPlain x` for every piece of code that cannot disconnect -/
macro "plain_tac" : tactic => `(tactic|
  (rel_tac [RPlain.modify, RPlain.emit, stateSet_plain, sendMsg_plain, sendTestReq_plain,
    setSeqNum_plain, processSeqreset_plain, checkSeqnumGaps_plain, finalizeMessage_plain,
    processResend_plain, processTestRequest_plain, validateIntegrity_plain]; done))

theorem isDisc_le {s : Nat} (h : isDisc s = true) : s ≤ st_DISCONNECTED_BROKEN_CONN := by
  simpa [isDisc] using h

theorem M.ite_apply {α : Type} (p : Prop) [Decidable p] (a b : M α) (c : Conn) :
    (if p then a else b) c = if p then a c else b c := by
  split <;> rfl

/-- evaluates a continuation from a disconnected state -/
macro "calm_tac" : tactic => `(tactic|
  (subst_vars; constructor; intro c hc; have hc' := isDisc_le hc
   simp [Calm, bind, M.bind', hc, hc', M.assert_apply, disconnect_of_disc, M.ite_apply]
   try (split <;> simp [Calm, hc, hc', disconnect_of_disc])))

/-- the result a continuation returns from a disconnected state -/
macro "res_tac" : tactic => `(tactic|
  (intro _ c1 _ hd b hb; have hd' := isDisc_le hd
   first
     | trivial
     | (simp [bind, M.bind', hd, hd', M.assert_apply, disconnect_of_disc] at hb
        first | exact hb.symm | exact hb | (cases hb; rfl) | simp_all)))

/-- walks a handler body: plain steps by `QS.bind_plain`, steps that can disconnect by `QS.bind` with the
lemmas given (result predicate `True`), continuations from a disconnected state by evaluation -/
syntax "qs_tac" "[" term,* "]" : tactic
open Lean in
macro_rules
  | `(tactic| qs_tac [$ls,*]) => do
    let exacts ← ls.getElems.mapM fun l => `(tactic| exact $l)
    let binds ← ls.getElems.mapM fun l => `(tactic| refine QS.bind (G := fun _ => True) $l ?_ ?_ ?_)
    let pre := #[← `(tactic| res_tac), ← `(tactic| intro _), ← `(tactic| rfl), ← `(tactic| trivial),
      ← `(tactic| exact QS.pure _), ← `(tactic| exact QS.emit),
      ← `(tactic| (refine QS.bind_plain ?_ ?_; focus plain_tac)),
      ← `(tactic| (refine QS.tryCatch_plain ?_ ?_; focus plain_tac))]
    let post := #[← `(tactic| apply QS.ite), ← `(tactic| split), ← `(tactic| calm_tac),
      ← `(tactic| (refine QS.of_plain ?_; focus plain_tac))]
    let all := pre ++ exacts ++ binds ++ post
    `(tactic| repeat' (first $[| $all:tactic]*))

theorem processLogout_QS (env : Env) (m : Msg) : QS (fun _ => True) (processLogout env m) := by
  unfold processLogout
  qs_tac [disconnect_QS _ _ _]

theorem processHeartbeat_QS (env : Env) (m : Msg) : QS (fun _ => True) (processHeartbeat env m) := by
  unfold processHeartbeat
  qs_tac [disconnect_QS _ _ _]

/-- the acceptor's Logon reply: when it ends in a disconnected state it has raised -/
theorem logonReply_QS (env : Env) (m : Msg) :
    QS (fun _ => False) (M.tryCatch (sendMsg env m) fun ex => do
      disconnect env st_DISCONNECTED_BROKEN_CONN none
      M.throw ex) := by
  refine QS.tryCatch_plain (sendMsg_plain env m) ?_
  intro ex
  refine QS.bind (G := fun _ => True) (disconnect_QS _ _ _) ?_ ?_ ?_
  · intro _; exact QS.of_plain (M.Rel.throw ex)
  · intro _ _; exact ⟨fun c hc => by simp [Calm, hc]⟩
  · intro _ c1 _ _ b hb; simp at hb

theorem processLogon_QS (env : Env) (m : Msg) : QS (fun _ => True) (processLogon env m) := by
  unfold processLogon
  qs_tac [disconnect_QS _ _ _]
  refine QS.bind (G := fun _ => False) (logonReply_QS env _) ?_ (fun _ h => h.elim) (fun _ _ h => h.elim)
  qs_tac [disconnect_QS _ _ _]

theorem processHead_QS (env : Env) (m : Msg) : QS (fun r => r = none) (processHead env m) := by
  unfold processHead
  qs_tac [disconnect_QS _ _ _, processLogon_QS _ _, processLogout_QS _ _]

theorem processDispatch_QS (env : Env) (sr : Msg → Bool) (m : Msg) (v : Bool) (n : Int) :
    QS (fun _ => True) (processDispatch env sr m v n) := by
  unfold processDispatch
  qs_tac [processHeartbeat_QS _ _]

end AsyncFix.Session
