import AsyncFix.Lemmas.RestartResend

/-!
Restart family: `_process_resend` as a whole satisfies `Good` on runs without exceptions.
-/
set_option linter.unusedSectionVars false

namespace AsyncFix.Restart

open AsyncFix.Session AsyncFix.Generated AsyncFix.Generated.ConnEnum

theorem ownSeq_of_possdup {m : Msg} (h : m.get? tPossDupFlag = some "Y") : ownSeq m = true := by
  simp [ownSeq, h]

theorem ownSeq_gapFill (a b : Int) : ownSeq (gapFillMsg a b) = true := by
  simp [ownSeq, gapFillMsg, Msg.mk']

theorem sendMsg_replay_rr (env : Env) {row rp : Msg} (h : prepareReplay row = .ok rp) :
    M.Rel RResend (sendMsg env rp) :=
  sendMsg_rr env rp (ownSeq_of_possdup (prepareReplay_possdup h))

/-- value-aware `liftE` step -/
theorem M.Rel.liftE_bind {α β : Type} {R : Conn → Conn → List Effect → Prop} [Compositional R]
    {x : Except Exc α} {f : α → M β} (h : ∀ a, x = .ok a → M.Rel R (f a)) : M.Rel R (M.liftE x >>= f) := by
  constructor
  intro c
  cases x with
  | error ex => rw [M.liftE_error_bind_apply]; exact Compositional.refl c
  | ok a => rw [M.liftE_ok_bind_apply]; exact (h a rfl).out c

theorem resendLoop_rr (env : Env) (sr : Msg → Bool) (rows : List Msg) (a b : Int) :
    M.Rel RResend (resendLoop env sr rows a b) := by
  induction rows generalizing a b with
  | nil => unfold resendLoop; exact M.Rel.pure _
  | cons row rest ih =>
    unfold resendLoop
    apply M.Rel.bind (M.Rel.liftE _); intro v
    apply M.Rel.bind (M.Rel.int _); intro n
    apply M.Rel.bind (M.Rel.liftE _); intro ty
    apply M.Rel.ite
    · exact ih _ _
    · have hjp : ∀ u : Unit, M.Rel RResend (do
          let rp ← M.liftE (prepareReplay row)
          sendMsg env rp
          resendLoop env sr rest (n + 1) b) := by
        intro _
        apply M.Rel.liftE_bind
        intro rp hrp
        apply M.Rel.bind (sendMsg_replay_rr env hrp)
        intro _
        exact ih _ _
      dsimp only
      split
      · exact M.Rel.bind (sendMsg_rr env _ (ownSeq_gapFill _ _)) hjp
      · exact hjp ()

/-- the part of `_process_resend` between its two `set_seq_num` calls -/
def resendMid (env : Env) (sr : Msg → Bool) (rows : List Msg) (b cur : Int) : M Unit := do
  let (gfb, gfe) ← resendLoop env sr rows b b
  M.assert (decide (gfe ≤ cur))
  if gfb < cur then sendMsg env (gapFillMsg gfb cur) else pure ()

theorem resendMid_rr (env : Env) (sr : Msg → Bool) (rows : List Msg) (b cur : Int) :
    M.Rel RResend (resendMid env sr rows b cur) := by
  unfold resendMid
  apply M.Rel.bind (resendLoop_rr env sr rows b b)
  intro p
  obtain ⟨gfb, gfe⟩ := p
  apply M.Rel.bind (M.Rel.assert _)
  intro _
  apply M.Rel.ite
  · exact sendMsg_rr env _ (ownSeq_gapFill _ _)
  · exact M.Rel.pure _

variable {g : List Effect → Bool} [EffGuard g] {om : Option Msg}

/-- the tail after the second `set_seq_num` -/
def resendTail : M Unit := do
  let c2 ← M.get
  if c2.state != st_RESENDREQ_AWAITING then stateSet st_ACTIVE else pure ()

theorem resendTail_good : OkRel g (Good om) resendTail := by
  unfold resendTail
  ok_tac [stateSet_good]

/-- rewind; replay; restore; tail – started in the state whose counter is `cur` -/
def resendBody (env : Env) (sr : Msg → Bool) (rows : List Msg) (b cur : Int) : M Unit := do
  setSeqNum (some b) none
  resendMid env sr rows b cur
  setSeqNum (some cur) none
  resendTail

theorem resendBody_good (env : Env) (sr : Msg → Bool) (rows : List Msg) (b : Int) (c : Conn) :
    ∀ a c' e, resendBody env sr rows b c.sess.nextOut c = ⟨.ok a, c', e⟩ → g e = true → Good om c c' e := by
  intro a c' e h hg
  unfold resendBody at h
  have hs1 := setSeqNum_out_apply b c
  by_cases hb : b > 0
  case neg => rw [if_neg hb] at hs1; rw [M.bind_err hs1] at h; cases h
  rw [if_pos hb] at hs1
  rw [M.bind_ok hs1] at h
  simp only [List.nil_append] at h
  rcases hm : resendMid env sr rows b c.sess.nextOut
      { c with sess := { c.sess with nextOut := b }, journal := c.journal.setSeq b c.sess.nextIn }
    with ⟨r, c2, e2⟩
  have hrel := (resendMid_rr env sr rows b c.sess.nextOut).out
      { c with sess := { c.sess with nextOut := b }, journal := c.journal.setSeq b c.sess.nextIn }
  rw [hm] at hrel
  cases r with
  | error ex => rw [M.bind_err hm] at h; simp at h
  | ok u =>
    rw [M.bind_ok hm] at h
    have hs2 := setSeqNum_out_apply c.sess.nextOut c2
    by_cases hcur : c.sess.nextOut > 0
    case neg => rw [if_neg hcur] at hs2; rw [M.bind_err hs2] at h; cases h
    rw [if_pos hcur] at hs2
    rw [M.bind_ok hs2] at h
    rcases ht : resendTail
        { c2 with sess := { c2.sess with nextOut := c.sess.nextOut },
                  journal := c2.journal.setSeq c.sess.nextOut c2.sess.nextIn } with ⟨r4, c4, e4⟩
    rw [ht] at h
    simp only [List.nil_append, Out.mk.injEq] at h
    obtain ⟨hr, hc, he⟩ := h
    subst hr hc he
    have hg4 : g e4 = true := by
      have := hg
      rw [EffGuard.app (g := g), Bool.and_eq_true] at this
      exact this.2
    have htail := (resendTail_good (g := g) (om := om)).out _ _ _ _ ht hg4
    -- the state after the second set_seq_num relates to the start state
    have hmid : Good om c
        { c2 with sess := { c2.sess with nextOut := c.sess.nextOut },
                  journal := c2.journal.setSeq c.sess.nextOut c2.sess.nextIn } e2 := by
      refine ⟨fun _ => ?_, ?_, hrel.nw.below _, Or.inr (Or.inl ?_), ⟨?_, ?_, ?_⟩, ?_⟩
      · show c.sess.nextOut - 1 + 1 = c.sess.nextOut; omega
      · exact Int.le_refl _
      · show c2.sess.nextIn - 1 + 1 = c2.sess.nextIn; omega
      · show c2.sess.sender = c.sess.sender; rw [hrel.sess]
      · show c2.sess.target = c.sess.target; rw [hrel.sess]
      · show c2.hb = c.hb; rw [hrel.hb]
      · show 0 < c.sess.nextIn → 0 < c2.sess.nextIn; rw [hrel.sess]; exact id
    have := Compositional.trans hmid htail
    simpa using this


/-- `_process_resend` after its first state change -/
def resendRest (env : Env) (sr : Msg → Bool) (m : Msg) : M Unit := do
  M.assert (m.mtype == mResendRequest)
  let c ← M.get
  M.assert (c.state == st_RESENDREQ_HANDLING || c.state == st_RESENDREQ_AWAITING)
  let vb ← M.liftE (m.get tBeginSeqNo)
  let b ← M.int vb
  let ve ← M.liftE (m.get tEndSeqNo)
  let e0 ← M.int ve
  let e := if e0 == 0 then sysMaxsize else e0
  if b < 1 || b ≥ c.sess.nextOut then
    if c.state != st_RESENDREQ_AWAITING then stateSet st_ACTIVE else pure ()
  else resendBody env sr (c.journal.recoverOut b e) b c.sess.nextOut

theorem processResend_eq (env : Env) (sr : Msg → Bool) (m : Msg) :
    processResend env sr m = (do
      let c0 ← M.get
      if c0.state != st_RESENDREQ_AWAITING then stateSet st_RESENDREQ_HANDLING else pure ()) >>=
      fun _ => resendRest env sr m := by
  simp only [processResend, resendRest, resendBody, resendMid, resendTail, bind_assoc, M.ite_bind, pure_bind]

theorem resendRest_good (env : Env) (sr : Msg → Bool) (m : Msg) : OkRel g (Good om) (resendRest env sr m) := by
  constructor
  intro c a c' e h hg
  unfold resendRest at h
  by_cases h1 : (m.mtype == mResendRequest) = true
  case neg => simp only [Bool.not_eq_true] at h1; rw [h1, M.assert_false_bind_apply] at h; cases h
  rw [h1, M.assert_true_bind_apply, M.get_bind_apply] at h
  by_cases h2 : (c.state == st_RESENDREQ_HANDLING || c.state == st_RESENDREQ_AWAITING) = true
  case neg => simp only [Bool.not_eq_true] at h2; rw [h2, M.assert_false_bind_apply] at h; cases h
  rw [h2, M.assert_true_bind_apply] at h
  cases hvb : m.get tBeginSeqNo with
  | error ex => rw [hvb, M.liftE_error_bind_apply] at h; cases h
  | ok vb =>
    rw [hvb, M.liftE_ok_bind_apply] at h
    cases hb : pyInt vb with
    | none => rw [M.int_none_bind_apply hb] at h; cases h
    | some b =>
      rw [M.int_some_bind_apply hb] at h
      cases hve : m.get tEndSeqNo with
      | error ex => rw [hve, M.liftE_error_bind_apply] at h; cases h
      | ok ve =>
        rw [hve, M.liftE_ok_bind_apply] at h
        cases he : pyInt ve with
        | none => rw [M.int_none_bind_apply he] at h; cases h
        | some e0 =>
          rw [M.int_some_bind_apply he] at h
          simp only [M.ite_apply] at h
          split at h
          · have hs : OkRel g (Good om)
                (if (c.state != st_RESENDREQ_AWAITING) = true then stateSet st_ACTIVE else pure ()) :=
              OkRel.ite (stateSet_good _) (OkRel.pure _)
            exact hs.out c a c' e (by rw [M.ite_apply]; exact h) hg
          · exact resendBody_good env sr _ b c a c' e h hg

theorem processResend_good (env : Env) (sr : Msg → Bool) (m : Msg) :
    OkRel g (Good om) (processResend env sr m) := by
  rw [processResend_eq]
  apply OkRel.bind
  · ok_tac [stateSet_good]
  · intro _; exact resendRest_good env sr m

end AsyncFix.Restart
