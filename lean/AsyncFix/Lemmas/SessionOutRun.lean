import AsyncFix.Lemmas.SessionOutHoare

/-!
C05 proof machinery: symbolic execution of the handler monad `M` by rewriting (`run_*` lemmas), so
that a handler applied to a concrete-shaped connection evaluates to a closed `Out` expression without
the term blow-up of unfolding `bind'` directly.
-/
namespace AsyncFix.Session

variable {α β γ : Type}

/-- prefix effects -/
def Out.pre (es : List Effect) (o : Out α) : Out α := ⟨o.res, o.conn, es ++ o.eff⟩

@[simp] theorem Out.pre_mk (es e : List Effect) (r : Except Exc α) (c : Conn) :
    Out.pre es ⟨r, c, e⟩ = ⟨r, c, es ++ e⟩ := rfl

@[simp] theorem Out.pre_res (es : List Effect) (o : Out α) : (Out.pre es o).res = o.res := rfl
@[simp] theorem Out.pre_conn (es : List Effect) (o : Out α) : (Out.pre es o).conn = o.conn := rfl
@[simp] theorem Out.pre_eff (es : List Effect) (o : Out α) : (Out.pre es o).eff = es ++ o.eff := rfl

theorem Out.pre_nil (o : Out α) : Out.pre [] o = o := by cases o; rfl

theorem Out.pre_pre (a b : List Effect) (o : Out α) : Out.pre a (Out.pre b o) = Out.pre (a ++ b) o := by
  cases o; simp [Out.pre, List.append_assoc]

theorem run_bind (x : M α) (f : α → M β) (c : Conn) :
    (x >>= f) c = match x c with
      | ⟨.ok a, c1, e1⟩ => Out.pre e1 (f a c1)
      | ⟨.error ex, c1, e1⟩ => ⟨.error ex, c1, e1⟩ := by
  rw [M.bind_eq]; unfold M.bind'
  rcases x c with ⟨r, c1, e1⟩
  cases r with
  | ok a => rcases hf : f a c1 with ⟨r2, c2, e2⟩; simp [hf]
  | error ex => rfl

theorem run_pure (a : α) (c : Conn) : (pure a : M α) c = ⟨.ok a, c, []⟩ := rfl
theorem run_throw (ex : Exc) (c : Conn) : (M.throw ex : M α) c = ⟨.error ex, c, []⟩ := rfl
theorem run_get (c : Conn) : M.get c = ⟨.ok c, c, []⟩ := rfl
theorem run_modify (g : Conn → Conn) (c : Conn) : M.modify g c = ⟨.ok (), g c, []⟩ := rfl
theorem run_emit (e : Effect) (c : Conn) : M.emit e c = ⟨.ok (), c, [e]⟩ := rfl
theorem run_liftE (x : Except Exc α) (c : Conn) : M.liftE x c = ⟨x, c, []⟩ := rfl

theorem run_bind_get (f : Conn → M β) (c : Conn) : (M.get >>= f) c = f c c := by
  rw [run_bind, run_get]; exact Out.pre_nil _

theorem run_bind_pure (a : α) (f : α → M β) (c : Conn) : (pure a >>= f) c = f a c := by
  rw [run_bind, run_pure]; exact Out.pre_nil _

theorem run_bind_throw (ex : Exc) (f : α → M β) (c : Conn) :
    ((M.throw ex : M α) >>= f) c = ⟨.error ex, c, []⟩ := by
  rw [run_bind, run_throw]

theorem run_bind_modify (g : Conn → Conn) (f : Unit → M β) (c : Conn) :
    (M.modify g >>= f) c = f () (g c) := by
  rw [run_bind, run_modify]; exact Out.pre_nil _

theorem run_bind_emit (e : Effect) (f : Unit → M β) (c : Conn) :
    (M.emit e >>= f) c = Out.pre [e] (f () c) := by
  rw [run_bind, run_emit]

theorem run_bind_liftE_ok (a : α) (f : α → M β) (c : Conn) :
    (M.liftE (.ok a) >>= f) c = f a c := by
  rw [run_bind, run_liftE]; exact Out.pre_nil _

theorem run_bind_liftE_err (ex : Exc) (f : α → M β) (c : Conn) :
    (M.liftE (.error ex : Except Exc α) >>= f) c = ⟨.error ex, c, []⟩ := by
  rw [run_bind, run_liftE]

theorem run_ite (p : Prop) [Decidable p] (x y : M α) (c : Conn) :
    (if p then x else y) c = if p then x c else y c := by
  split <;> rfl

theorem run_bind_ite (p : Prop) [Decidable p] (x y : M α) (f : α → M β) :
    ((if p then x else y) >>= f) = if p then x >>= f else y >>= f := by
  split <;> rfl

theorem run_bind_assoc (x : M α) (f : α → M β) (g : β → M γ) :
    ((x >>= f) >>= g) = x >>= fun a => f a >>= g := by
  funext c
  rw [run_bind, run_bind, run_bind]
  rcases x c with ⟨r, c1, e1⟩
  cases r with
  | error ex => rfl
  | ok a =>
    simp only [run_bind]
    rcases f a c1 with ⟨r2, c2, e2⟩
    cases r2 with
    | error ex => rfl
    | ok b =>
      simp only [Out.pre_mk]
      rcases g b c2 with ⟨r3, c3, e3⟩
      simp [List.append_assoc]

theorem run_assert_true (c : Conn) : M.assert true c = ⟨.ok (), c, []⟩ := rfl
theorem run_assert_false (c : Conn) : M.assert false c = ⟨.error .assertion, c, []⟩ := rfl

theorem run_int_some {s : String} {n : Int} (h : pyInt s = some n) (c : Conn) :
    M.int s c = ⟨.ok n, c, []⟩ := by
  unfold M.int; rw [h]; rfl

theorem run_int_none {s : String} (h : pyInt s = none) (c : Conn) :
    M.int s c = ⟨.error .value, c, []⟩ := by
  unfold M.int; rw [h]; rfl

/-- a computation whose result is known: continue with the continuation -/
theorem run_bind_of_ok {x : M α} {f : α → M β} {c c1 : Conn} {a : α} {e1 : List Effect}
    (h : x c = ⟨.ok a, c1, e1⟩) : (x >>= f) c = Out.pre e1 (f a c1) := by
  rw [run_bind, h]

theorem run_bind_of_err {x : M α} {f : α → M β} {c c1 : Conn} {ex : Exc} {e1 : List Effect}
    (h : x c = ⟨.error ex, c1, e1⟩) : (x >>= f) c = ⟨.error ex, c1, e1⟩ := by
  rw [run_bind, h]

end AsyncFix.Session
