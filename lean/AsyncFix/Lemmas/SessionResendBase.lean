import AsyncFix.Model.Session

/-!
C06 helper lemmas, part 1: Python-level facts the resend proof needs.

* `pyInt_pyStr`     – `int(str(n)) = n` for `n ≥ 0` (the numbers the resend loop writes into tag 34 / 36
                      are read back by `Codec.encode` and by the next ResendRequest);
* `isLatin1_*`      – decimal renderings are latin-1 encodable;
* `Rows.*`          – the journal store: appending above the largest key, `below`, `range`, `find`;
* `M.*`             – unfolding equations of the little state/effect/exception monad.
-/
namespace AsyncFix.Session

/-! ### decimal strings -/

theorem isAsciiDigit_of_isDigit {c : Char} (h : c.isDigit) : isAsciiDigit c = true := by
  simp only [Char.isDigit, Bool.and_eq_true, decide_eq_true_eq] at h
  simp only [isAsciiDigit, Char.toNat, Bool.and_eq_true, decide_eq_true_eq]
  have h1 := UInt32.le_iff_toNat_le.mp h.1
  have h2 := UInt32.le_iff_toNat_le.mp h.2
  exact ⟨by simpa using h1, by simpa using h2⟩

theorem not_ws_of_isDigit {c : Char} (h : c.isDigit) : isPyWs c = false := by
  have hd := isAsciiDigit_of_isDigit h
  simp only [isAsciiDigit, Bool.and_eq_true, decide_eq_true_eq] at hd
  have hne : c ≠ ' ' := by
    rintro rfl
    simp at hd
  simp only [isPyWs, Bool.or_eq_false_iff, decide_eq_false_iff_not, Bool.and_eq_false_iff]
  exact ⟨hne, Or.inr (by omega)⟩

theorem pyDigits_of_digits (cs : List Char) (acc : Nat) (prev : Bool)
    (hd : ∀ c ∈ cs, c.isDigit) (hne : cs ≠ [] ∨ prev = true) :
    pyDigits acc prev cs = some (Nat.ofDigitChars 10 cs acc) := by
  induction cs generalizing acc prev with
  | nil =>
    cases hne with
    | inl h => exact absurd rfl h
    | inr h => simp [pyDigits, h]
  | cons c r ih =>
    have hc := isAsciiDigit_of_isDigit (hd c (by simp))
    rw [pyDigits, if_pos hc, ih _ _ (fun x hx => hd x (by simp [hx])) (Or.inr rfl),
      Nat.ofDigitChars_cons]
    simp [Nat.mul_comm]

theorem dropWhile_eq_self {α} (p : α → Bool) (l : List α) (h : ∀ x ∈ l, p x = false) :
    l.dropWhile p = l := by
  cases l with
  | nil => rfl
  | cons a r => simp [List.dropWhile, h a (by simp)]

theorem stripWs_of_digits (cs : List Char) (hd : ∀ c ∈ cs, c.isDigit) : stripWs cs = cs := by
  unfold stripWs
  rw [dropWhile_eq_self _ _ (fun x hx => not_ws_of_isDigit (hd x hx)),
    dropWhile_eq_self _ _ (fun x hx => not_ws_of_isDigit (hd x (by simpa using hx)))]
  simp

theorem pyIntChars_digits (cs : List Char) (hd : ∀ c ∈ cs, c.isDigit) (hne : cs ≠ []) :
    pyIntChars cs = some (Nat.ofDigitChars 10 cs 0 : Nat) := by
  unfold pyIntChars
  rw [stripWs_of_digits cs hd]
  cases cs with
  | nil => exact absurd rfl hne
  | cons c r =>
    have hc : c.isDigit := hd c (by simp)
    have h1 : c ≠ '-' := by rintro rfl; simp [Char.isDigit] at hc
    have h2 : c ≠ '+' := by rintro rfl; simp [Char.isDigit] at hc
    split
    · rename_i heq; simp at heq; exact absurd heq.1 h1
    · rename_i heq; simp at heq; exact absurd heq.1 h2
    · rw [pyDigits_of_digits _ _ _ hd (Or.inl (by simp))]; rfl

theorem pyInt_natRepr (k : Nat) : pyInt (toString k) = some (k : Int) := by
  unfold pyInt
  rw [Nat.toString_eq_repr, Nat.toList_repr,
    pyIntChars_digits _ (fun c hc => Nat.isDigit_of_mem_toDigits (by decide) (by decide) hc)
      Nat.toDigits_ne_nil, Nat.ofDigitChars_ten_toDigits]
  rfl

/-- `int(str(n)) = n` for the non-negative numbers the session layer renders -/
theorem pyInt_pyStr (n : Int) (h : 0 ≤ n) : pyInt (pyStr n) = some n := by
  unfold pyStr
  rw [Int.toString_eq_repr, Int.repr_eq_if, if_pos h]
  have := pyInt_natRepr n.toNat
  rw [Nat.toString_eq_repr] at this
  rw [this, Int.toNat_of_nonneg h]

theorem isLatin1_of_digits (s : String) (h : ∀ c ∈ s.toList, c.isDigit) : isLatin1 s = true := by
  simp only [isLatin1, List.all_eq_true, decide_eq_true_eq]
  intro c hc
  have := isAsciiDigit_of_isDigit (h c hc)
  simp only [isAsciiDigit, Bool.and_eq_true, decide_eq_true_eq] at this
  omega

theorem isLatin1_natRepr (k : Nat) : isLatin1 (toString k) = true := by
  apply isLatin1_of_digits
  intro c hc
  rw [Nat.toString_eq_repr, Nat.toList_repr] at hc
  exact Nat.isDigit_of_mem_toDigits (by decide) (by decide) hc

theorem isLatin1_pyStr (n : Int) (h : 0 ≤ n) : isLatin1 (pyStr n) = true := by
  unfold pyStr
  rw [Int.toString_eq_repr, Int.repr_eq_if, if_pos h]
  have := isLatin1_natRepr n.toNat
  rwa [Nat.toString_eq_repr] at this

theorem isLatin1_append (a b : String) : isLatin1 (a ++ b) = (isLatin1 a && isLatin1 b) := by
  simp [isLatin1, String.toList_append, List.all_append]

theorem isLatin1_pad3 (k : Nat) : isLatin1 (pad3 k) = true := by
  unfold pad3
  simp only
  split
  · rw [isLatin1_append, isLatin1_natRepr]; decide
  · split
    · rw [isLatin1_append, isLatin1_natRepr]; decide
    · exact isLatin1_natRepr k

/-! ### journal rows -/

namespace Rows

/-- every key of `rs` is below `k` -/
def AllLt (k : Int) (rs : Rows) : Prop := ∀ p ∈ rs, p.1 < k

theorem insert_append (k : Int) (m : Msg) (rs : Rows) (h : AllLt k rs) :
    insert k m rs = some (rs ++ [(k, m)]) := by
  induction rs with
  | nil => rfl
  | cons p r ih =>
    obtain ⟨k', m'⟩ := p
    have hk : k' < k := h (k', m') (by simp)
    have hr : AllLt k r := fun q hq => h q (by simp [hq])
    have h1 : ¬ k < k' := by omega
    have h2 : ¬ k = k' := by omega
    simp [insert, h1, h2, ih hr]

theorem below_append_singleton (n k : Int) (m : Msg) (rs : Rows) :
    below n (rs ++ [(k, m)]) = if k < n then below n rs ++ [(k, m)] else below n rs := by
  unfold below
  rw [List.filter_append]
  by_cases h : k < n <;> simp [List.filter, h]

theorem below_of_allLt (n : Int) (rs : Rows) (h : AllLt n rs) : below n rs = rs := by
  unfold below
  exact List.filter_eq_self.mpr (fun p hp => by simpa using h p hp)

theorem allLt_below (n : Int) (rs : Rows) : AllLt n (below n rs) := by
  intro p hp
  simp only [below, List.mem_filter, decide_eq_true_eq] at hp
  exact hp.2

theorem allLt_mono {a b : Int} (h : a ≤ b) {rs : Rows} (hl : AllLt a rs) : AllLt b rs :=
  fun p hp => by have := hl p hp; omega

theorem allLt_append_singleton {k n : Int} {m : Msg} {rs : Rows}
    (h : AllLt n rs) (hk : k < n) : AllLt n (rs ++ [(k, m)]) := by
  intro p hp
  simp only [List.mem_append, List.mem_singleton] at hp
  cases hp with
  | inl h1 => exact h p h1
  | inr h1 => subst h1; exact hk

/-- strictly ascending keys (SQLite primary key + ORDER BY) -/
def Sorted (rs : Rows) : Prop := rs.Pairwise fun p q => p.1 < q.1

theorem find_eq_some_iff {rs : Rows} (hs : Sorted rs) (k : Int) (m : Msg) :
    find k rs = some m ↔ (k, m) ∈ rs := by
  induction rs with
  | nil => simp [find]
  | cons p r ih =>
    obtain ⟨k', m'⟩ := p
    have hs' := List.pairwise_cons.mp hs
    rw [find]
    by_cases hk : k = k'
    · subst hk
      simp only [if_true, Option.some.injEq, List.mem_cons, Prod.mk.injEq, true_and]
      constructor
      · intro h; exact Or.inl h.symm
      · intro h
        cases h with
        | inl h => exact h.symm
        | inr h => have := hs'.1 _ h; simp at this
    · simp only [List.mem_cons, Prod.mk.injEq, hk, false_and, false_or]
      exact ih hs'.2

theorem sorted_below {rs : Rows} (hs : Sorted rs) (n : Int) : Sorted (below n rs) :=
  List.Pairwise.filter _ hs

theorem sorted_range {rs : Rows} (hs : Sorted rs) (b e : Int) : Sorted (range b e rs) :=
  List.Pairwise.filter _ hs

theorem sorted_append_singleton {rs : Rows} (hs : Sorted rs) {k : Int} {m : Msg}
    (h : AllLt k rs) : Sorted (rs ++ [(k, m)]) := by
  unfold Sorted
  rw [List.pairwise_append]
  refine ⟨hs, by simp, ?_⟩
  intro p hp q hq
  simp only [List.mem_singleton] at hq
  subst hq
  exact h p hp

theorem mem_range {rs : Rows} {b e : Int} {p : Int × Msg} :
    p ∈ range b e rs ↔ p ∈ rs ∧ b ≤ p.1 ∧ p.1 ≤ e := by
  simp [range, List.mem_filter]

theorem mem_below {rs : Rows} {n : Int} {p : Int × Msg} :
    p ∈ below n rs ↔ p ∈ rs ∧ p.1 < n := by
  simp [below, List.mem_filter]

end Rows

/-! ### the monad -/
namespace M

@[simp] theorem pure_apply {α} (a : α) (c : Conn) : (pure a : M α) c = ⟨.ok a, c, []⟩ := rfl

@[simp] theorem get_apply (c : Conn) : M.get c = ⟨.ok c, c, []⟩ := rfl
@[simp] theorem modify_apply (f : Conn → Conn) (c : Conn) : M.modify f c = ⟨.ok (), f c, []⟩ := rfl
@[simp] theorem emit_apply (e : Effect) (c : Conn) : M.emit e c = ⟨.ok (), c, [e]⟩ := rfl
@[simp] theorem throw_apply {α} (ex : Exc) (c : Conn) : (M.throw ex : M α) c = ⟨.error ex, c, []⟩ := rfl
@[simp] theorem liftE_apply {α} (x : Except Exc α) (c : Conn) : M.liftE x c = ⟨x, c, []⟩ := rfl

theorem bind_apply {α β} (x : M α) (f : α → M β) (c : Conn) :
    (x >>= f) c = match x c with
      | ⟨.ok a, c1, e1⟩ => match f a c1 with | ⟨r, c2, e2⟩ => ⟨r, c2, e1 ++ e2⟩
      | ⟨.error ex, c1, e1⟩ => ⟨.error ex, c1, e1⟩ := rfl

/-- sequencing after a step that is known to succeed -/
theorem bind_ok {α β} {x : M α} {f : α → M β} {c c1 : Conn} {a : α} {e1 : List Effect}
    (h : x c = ⟨.ok a, c1, e1⟩) :
    (x >>= f) c = ⟨(f a c1).res, (f a c1).conn, e1 ++ (f a c1).eff⟩ := by
  rw [bind_apply, h]

theorem bind_err {α β} {x : M α} {f : α → M β} {c c1 : Conn} {ex : Exc} {e1 : List Effect}
    (h : x c = ⟨.error ex, c1, e1⟩) :
    (x >>= f) c = ⟨.error ex, c1, e1⟩ := by
  rw [bind_apply, h]

theorem assert_true_apply (c : Conn) : M.assert true c = ⟨.ok (), c, []⟩ := rfl
theorem assert_false_apply (c : Conn) : M.assert false c = ⟨.error .assertion, c, []⟩ := rfl

theorem int_apply_of {s : String} {n : Int} (h : pyInt s = some n) (c : Conn) :
    M.int s c = ⟨.ok n, c, []⟩ := by
  simp [M.int, h]

end M

end AsyncFix.Session
