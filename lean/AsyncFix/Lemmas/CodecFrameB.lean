/-
The field loop over byte strings, restated over `List Fld`: for fields whose tags are `okTag`
both guards of `fieldLoop` (`split("=", 1)` and `int(tag)`) pass, so the loop is a fold of
`stepField` over the (tag, value) pairs.  The group layer works with `fieldLoopF`.
-/
import AsyncFix.Lemmas.CodecFrame
namespace AsyncFix.Model.Codec

/-- `fieldLoop` on structured fields: no guards left -/
def fieldLoopF (tbl : Tbl) (ck : Nat) : DState → List Fld → Except Kind (Option DState)
  | s, [] => pure (some s)
  | s, f :: rest => do
    let s' ← stepField tbl ck s f.tag f.val
    fieldLoopF tbl ck s' rest

theorem okTag_no_EQS (t : Bytes) (h : okTag t = true) : EQS ∉ t :=
  digits_no_EQS _ ((okTag_iff t).mp h).2.1

/-- a field with a digit tag splits at its first `=` into the intended (tag, value)
(the value may contain `=` or anything else) -/
theorem splitEq_okTag (t v : Bytes) (h : okTag t = true) :
    splitEq (fieldBytes t v) = some (t, v) :=
  splitEq_fieldBytes t v (okTag_no_EQS t h)

theorem fieldLoop_frameFields (tbl : Tbl) (ck : Nat) (s : DState) (flds : List Fld)
    (h : ∀ f ∈ flds, okTag f.tag = true) :
    fieldLoop tbl ck s (flds.map fun f => fieldBytes f.tag f.val) = fieldLoopF tbl ck s flds := by
  induction flds generalizing s with
  | nil => rfl
  | cons f rest ih =>
    have hf := h f (by simp)
    have ih' := fun s' => ih s' (fun g hg => h g (by simp [hg]))
    simp only [List.map_cons, fieldLoop, splitEq_okTag _ _ hf, pyInt_okTag _ hf, fieldLoopF]
    cases stepField tbl ck s f.tag f.val with
    | error k => rfl
    | ok s' => exact ih' s'

/-- every field of a frame has a decodable tag -/
theorem okTag_frameFlds (bs : Bytes) (fs : List Fld) (hf : okFields fs = true) :
    ∀ f ∈ frameFlds bs fs, okTag f.tag = true := by
  intro f hm
  simp only [frameFlds, preFlds, List.mem_append, List.mem_cons, List.not_mem_nil,
    or_false] at hm
  rcases hm with (rfl | rfl | hm) | rfl
  · simp [okTag, isDigit, maxStrDigits]
  · simp [okTag, isDigit, maxStrDigits]
  · rw [okFields_eq] at hf
    exact ((okF_iff f).mp (List.all_eq_true.mp hf f hm)).1
  · simp [ckFld, okTag, isDigit, maxStrDigits]

/-- every element of `frameFields bs fs` splits into the intended (tag, value) with a tag that
`int()` accepts -/
theorem frameFields_splitEq (bs : Bytes) (fs : List Fld) (hf : okFields fs = true) :
    ∀ m ∈ frameFields bs fs, ∃ f ∈ frameFlds bs fs,
      m = fieldBytes f.tag f.val ∧ splitEq m = some (f.tag, f.val) ∧ (pyInt f.tag).isSome = true := by
  intro m hm
  rw [frameFields_eq] at hm
  obtain ⟨f, hfm, rfl⟩ := List.mem_map.mp hm
  have ht := okTag_frameFlds bs fs hf f hfm
  exact ⟨f, hfm, rfl, splitEq_okTag _ _ ht, pyInt_okTag_isSome _ ht⟩

/-- the decoder's loop over a frame is `fieldLoopF` over `frameFlds` -/
theorem fieldLoop_frame (tbl : Tbl) (ck : Nat) (s : DState) (bs : Bytes) (fs : List Fld)
    (hf : okFields fs = true) :
    fieldLoop tbl ck s (frameFields bs fs) = fieldLoopF tbl ck s (frameFlds bs fs) := by
  rw [frameFields_eq]
  exact fieldLoop_frameFields tbl ck s _ (okTag_frameFlds bs fs hf)

/-- `decode` on a valid frame, through the structured loop -/
theorem decode_mkFrame_F (bs : Bytes) (tbl : Tbl) (fs : List Fld)
    (hb : okBegin bs = true) (hf : okFields fs = true)
    (hd : (natToDec (bodyBytes fs).length).length ≤ maxStrDigits) :
    decode bs tbl (mkFrame bs fs) =
      match fieldLoopF tbl (frameCk bs fs) {} (frameFlds bs fs) with
      | .error k => .raised k
      | .ok none => .none (mkFrame bs fs).length
      | .ok (some s) =>
        if s.ckPassed then .msg { mtype := s.mtype, body := s.top } (mkFrame bs fs).length (mkFrame bs fs)
        else .none (mkFrame bs fs).length := by
  rw [decode_mkFrame bs tbl fs hb hf hd, decodeViaLoop, fieldLoop_frame tbl _ _ bs fs hf]
  generalize fieldLoopF tbl _ {} (frameFlds bs fs) = r
  cases r with
  | error k => rfl
  | ok o => cases o <;> rfl

/-- `fieldLoopF` never returns `none` (no guard is left), so on a valid frame `decode` either
raises (container error), or consumes exactly the frame -/
theorem fieldLoopF_ne_none (tbl : Tbl) (ck : Nat) (s : DState) (flds : List Fld) :
    fieldLoopF tbl ck s flds ≠ .ok none := by
  induction flds generalizing s with
  | nil => simp [fieldLoopF, pure, Except.pure]
  | cons f rest ih =>
    simp only [fieldLoopF, bind, Except.bind]
    cases stepField tbl ck s f.tag f.val with
    | error k => simp
    | ok s' => exact ih s'

/-- non-vacuity: `8=FIX.4.4|9=18|35=0|58=8=FIX.4.4|10=162|` – a value containing the frame-start
marker and `=` – satisfies the hypotheses of `decode_mkFrame` -/
example : okBegin [70, 73, 88, 46, 52, 46, 52] = true ∧
    okFields [⟨[51, 53], [48]⟩, ⟨[53, 56], [56, 61, 70, 73, 88, 46, 52, 46, 52]⟩] = true ∧
    (natToDec (bodyBytes [⟨[51, 53], [48]⟩, ⟨[53, 56], [56, 61, 70, 73, 88, 46, 52, 46, 52]⟩]).length).length
      ≤ maxStrDigits :=
  ⟨by decide, by decide, Nat.le_trans (natToDec_length_lt1000 _ (by decide)) (by decide)⟩

end AsyncFix.Model.Codec
