/-
The relation between order, queues and exchange that the convergence proof maintains.

`drain o q` is the order after it has processed every report in flight.  The invariant says
(1) `ChainP`: processing them never raises, and whenever the order – at that point of the queue –
has no request pending, the next report is an unsolicited execution report under its current ClOrdID;
(2) `Sync0`: the drained order agrees with the exchange, up to the request that is in flight
(`reqSent`) or acknowledged as pending (`reqPending`).
A request built on a stale order commutes with the reports in flight (`ChainP_ovl`).
-/
import AsyncFix.Lemmas.OrderObjFeed
namespace AsyncFix.Model.OrderLink
open AsyncFix.Model.OrderObj AsyncFix.Model.Exchange AsyncFix.Model.OrderTable AsyncFix.Props.C16

def drain (o : Order) : List Report → Order
  | [] => o
  | r :: q => drain (feed o r).1 q

theorem drain_append (o : Order) (q q' : List Report) : drain o (q ++ q') = drain (drain o q) q' := by
  induction q generalizing o with
  | nil => rfl
  | cons r q ih => exact ih _

def nonPending (o : Order) : Prop := o.status ≠ "6" ∧ o.status ≠ "E"

/-- an unsolicited execution report under ClOrdID `x`: not Replaced, not Canceled, no request involved -/
def benign (x : Str) (r : Report) : Prop :=
  ∃ (e : Exch) (ex : String), r = e.execRep x ex none ∧ ex ≠ "5" ∧ e.pending = none ∧
    e.base ∈ bases ∧ e.base ≠ "4"

def ChainP (o : Order) : List Report → Prop
  | [] => True
  | r :: q => (∃ b, (feed o r).2 = .ok b) ∧ (nonPending o → benign o.clordId r) ∧ ChainP (feed o r).1 q

theorem ChainP_append (o : Order) (q q' : List Report) :
    ChainP o (q ++ q') ↔ ChainP o q ∧ ChainP (drain o q) q' := by
  induction q generalizing o with
  | nil => simp [ChainP, drain]
  | cons r q ih =>
    simp only [List.cons_append, ChainP, drain, ih]
    constructor
    · intro ⟨h1, h2, h3, h4⟩; exact ⟨⟨h1, h2, h3⟩, h4⟩
    · intro ⟨⟨h1, h2, h3⟩, h4⟩; exact ⟨h1, h2, h3, h4⟩

theorem reported_of_pending_none {e : Exch} (h : e.pending = none) : e.reported = e.base := by
  simp [Exch.reported, h]

/-- effect of a benign report on an order without pending request: counters updated, the status
either kept or set to the reported base state -/
theorem feed_benign (o : Order) (r : Report) (hb : benign o.clordId r) :
    ∃ (oid : Str) (cum lv avg : Int) (s : String),
      (s = o.status ∨ (s ∈ bases ∧ s ≠ "4")) ∧
      (feed o r).1 = { o with orderId := some oid, leavesQty := lv, cumQty := cum, avgPx := some avg, status := s } ∧
      ∃ b, (feed o r).2 = .ok b := by
  obtain ⟨e, ex, rfl, hex, hp, hbase, hb4⟩ := hb
  rw [feed_execRep o e o.clordId ex none (Or.inl rfl), reported_of_pending_none hp]
  simp only [execApply, hex, if_false]
  have hnr := cs8_not_raised o.status ex e.base
  cases hres : changeStatus spec o.status "8" ex e.base false with
  | raised => exact absurd hres hnr
  | none =>
    exact ⟨orderIdC, e.cum, e.leaves, e.avgPx, o.status, Or.inl rfl, rfl, false, rfl⟩
  | to s =>
    have hs : s = e.base := cs_to_eq hres
    subst hs
    rw [finishExec_to _ (bases_sv _ hbase)]
    exact ⟨orderIdC, e.cum, e.leaves, e.avgPx, e.base, Or.inr ⟨hbase, hb4⟩, rfl, true, rfl⟩

theorem bases_nonPending {s : String} (h : s ∈ bases) : s ≠ "6" ∧ s ≠ "E" := by
  revert s; decide

/-- the part of the order a request overwrites -/
structure Ovl where
  status : String
  orig : Str
  clord : Str
  cnt : Nat

def ovl (p : Ovl) (o : Order) : Order :=
  { o with status := p.status, origClordId := some p.orig, clordId := p.clord, clordCnt := p.cnt }

theorem startRequest_eq_ovl (o : Order) (s : String) :
    startRequest o s = ovl ⟨s, o.clordId, nextId o, o.clordCnt + 1⟩ o := rfl

/-- a benign report is digested the same way before and after the request was built -/
theorem feed_ovl (p : Ovl) (o : Order) (r : Report) (hp : p.status = "6" ∨ p.status = "E")
    (hx : p.orig = o.clordId) (hb : benign o.clordId r) :
    feed (ovl p o) r = (ovl p (feed o r).1, .ok false) := by
  obtain ⟨oid, cum, lv, avg, s, _, hfeed, _⟩ := feed_benign o r hb
  obtain ⟨e, ex, rfl, hex, hpn, hbase, hb4⟩ := hb
  rw [hfeed]
  rw [feed_execRep (ovl p o) e o.clordId ex none (Or.inr (by simp [ovl, hx])), reported_of_pending_none hpn]
  have hst : (ovl p o).status = p.status := rfl
  rw [hst, cs8_pending_none hp hex hb4]
  simp only [execApply, hex, if_false, finishExec_none]
  -- both sides are `ovl p` of the order with the counters of the report
  have := feed_execRep o e o.clordId ex none (Or.inl rfl)
  rw [reported_of_pending_none hpn] at this
  rw [this] at hfeed
  simp only [execApply, hex, if_false] at hfeed
  cases hres : changeStatus spec o.status "8" ex e.base false with
  | raised => exact absurd hres (cs8_not_raised _ _ _)
  | none =>
    rw [hres, finishExec_none] at hfeed
    simp only at hfeed
    have h1 := congrArg Order.orderId hfeed
    have h2 := congrArg Order.leavesQty hfeed
    have h3 := congrArg Order.cumQty hfeed
    have h4 := congrArg Order.avgPx hfeed
    simp only at h1 h2 h3 h4
    simp [ovl, ← h1, ← h2, ← h3, ← h4]
  | to s' =>
    have hs : s' = e.base := cs_to_eq hres
    subst hs
    rw [hres, finishExec_to _ (bases_sv _ hbase)] at hfeed
    simp only at hfeed
    have h1 := congrArg Order.orderId hfeed
    have h2 := congrArg Order.leavesQty hfeed
    have h3 := congrArg Order.cumQty hfeed
    have h4 := congrArg Order.avgPx hfeed
    simp only at h1 h2 h3 h4
    simp [ovl, ← h1, ← h2, ← h3, ← h4]

/-- a request built while reports are in flight commutes with them -/
theorem ChainP_ovl (p : Ovl) (hp : p.status = "6" ∨ p.status = "E") (q : List Report) :
    ∀ o : Order, nonPending o → p.orig = o.clordId → ChainP o q →
      ChainP (ovl p o) q ∧ drain (ovl p o) q = ovl p (drain o q) ∧ nonPending (drain o q) ∧
      (drain o q).clordId = o.clordId ∧ ((drain o q).status = o.status ∨ (drain o q).status ∈ bases) := by
  induction q with
  | nil => intro o hn _ _; exact ⟨trivial, rfl, hn, rfl, Or.inl rfl⟩
  | cons r q ih =>
    intro o hn hx hc
    obtain ⟨_, hben, hrest⟩ := hc
    have hb := hben hn
    have hf := feed_ovl p o r hp hx hb
    obtain ⟨oid, cum, lv, avg, s, hs, hfeed, _⟩ := feed_benign o r hb
    have hn' : nonPending (feed o r).1 := by
      rw [hfeed]
      rcases hs with rfl | ⟨hs, _⟩
      · exact hn
      · exact bases_nonPending hs
    have hcl : (feed o r).1.clordId = o.clordId := by rw [hfeed]
    have hst : (feed o r).1.status = s := by rw [hfeed]
    obtain ⟨i1, i2, i3, i4, i5⟩ := ih (feed o r).1 hn' (hx.trans hcl.symm) hrest
    refine ⟨⟨⟨false, by rw [hf]⟩, ?_, by rw [hf]; exact i1⟩, ?_, i3, i4.trans hcl, ?_⟩
    · intro hnp
      exact absurd hnp (by rcases hp with h | h <;> simp [nonPending, ovl, h])
    · simp only [drain]; rw [hf]; exact i2
    · show (drain (feed o r).1 q).status = o.status ∨ (drain (feed o r).1 q).status ∈ bases
      rcases i5 with h5 | h5
      · rw [h5, hst]
        rcases hs with rfl | ⟨hs, _⟩
        · exact Or.inl rfl
        · exact Or.inr hs
      · exact Or.inr h5

/-! ### the drained order against the exchange -/

structure Nums (o : Order) (e : Exch) : Prop where
  cum : o.cumQty = e.cum
  leaves : o.leavesQty = e.leaves
  price : o.price = e.price
  qty : o.qty = e.qty

/-- status a request of kind F / G puts the order in -/
def pstat (k : String) : String := if k = "F" then "6" else "E"

/-- nothing sent yet -/
structure SCreated (o : Order) (e : Exch) : Prop where
  known : e.known = false
  pend : e.pending = none
  status : o.status = "Z"
  orig : o.origClordId = none

/-- NewOrderSingle `m` in flight -/
structure SNew (o : Order) (e : Exch) (m : Msg) (oo : Option Str) : Prop where
  known : e.known = false
  pend : e.pending = none
  status : o.status = "A"
  orig : o.origClordId = none
  clne : o.clordId ≠ []
  req : Req.ofMsg m = ⟨"D", some o.clordId, oo, some o.price, some o.qty⟩

/-- no request of the client involved -/
structure SIdle (o : Order) (e : Exch) : Prop where
  known : e.known = true
  pend : e.pending = none
  status : o.status = e.base
  base : e.base ∈ bases
  clord : o.clordId = e.liveId
  livene : e.liveId ≠ []
  orig : e.base ≠ "4" → o.origClordId = none
  rej0 : e.base = "8" → e.leaves = 0
  nums : Nums o e

/-- cancel ("F") / replace ("G") request `m` in flight -/
structure SSent (o : Order) (e : Exch) (m : Msg) (k : String) (pr qr : Option Int) : Prop where
  known : e.known = true
  pend : e.pending = none
  base : e.base ∈ bases
  kind : k = "F" ∨ k = "G"
  req : Req.ofMsg m = ⟨k, some o.clordId, some e.liveId, pr, qr⟩
  orig : o.origClordId = some e.liveId
  livene : e.liveId ≠ []
  clne : o.clordId ≠ []
  status : o.status = pstat k
  rej0 : e.base = "8" → e.leaves = 0
  nums : Nums o e

/-- request `p` acknowledged as pending by the exchange -/
structure SPend (o : Order) (e : Exch) (p : PReq) : Prop where
  known : e.known = true
  pend : e.pending = some p
  kind : p.kind = "F" ∨ p.kind = "G"
  pcl : p.clOrdId = o.clordId
  orig : o.origClordId = some e.liveId
  livene : e.liveId ≠ []
  clne : o.clordId ≠ []
  status : o.status = pstat p.kind
  live : live e.base = true
  nums : Nums o e

inductive Sync0 : Order → List Msg → Exch → Prop
  | created {o : Order} {e : Exch} (h : SCreated o e) : Sync0 o [] e
  | newSent {o : Order} {e : Exch} (m : Msg) (oo : Option Str) (h : SNew o e m oo) : Sync0 o [m] e
  | idle {o : Order} {e : Exch} (h : SIdle o e) : Sync0 o [] e
  | reqSent {o : Order} {e : Exch} (m : Msg) (k : String) (pr qr : Option Int) (h : SSent o e m k pr qr) :
      Sync0 o [m] e
  | reqPending {o : Order} {e : Exch} (p : PReq) (h : SPend o e p) : Sync0 o [] e

end AsyncFix.Model.OrderLink
