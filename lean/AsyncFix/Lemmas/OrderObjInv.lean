/-
The inductive invariant of the closed system and its preservation by every action that is not one
of the two excluded races.
-/
import AsyncFix.Lemmas.OrderObjReq
namespace AsyncFix.Model.OrderLink
open AsyncFix.Model.OrderObj AsyncFix.Model.Exchange AsyncFix.Model.OrderTable AsyncFix.Props.C16

structure Inv (l : Link) : Prop where
  loc : LocalInv l.order
  fresh : l.order.status = "Z" → l.c2e = [] ∧ l.e2c = [] ∧ l.ex.known = false
  quiet : l.ex.known = false → l.e2c = []
  chain : ChainP l.order l.e2c
  sync : Sync0 (drain l.order l.e2c) l.c2e l.ex

/-- the reports an action makes the exchange emit -/
def emitted (l : Link) (a : Action) : List Report :=
  match (stepFull l a).2 with
  | .emit rs => rs
  | _ => []

/-- the two races the order object does not survive (known findings): a suspended order expires;
a replace is accepted on a suspended order (Replaced report with OrdStatus Suspended) -/
def excluded (l : Link) (a : Action) : Bool :=
  (l.ex.known && l.ex.base == "9" && a == .xExpire) ||
  (emitted l a).any fun r => r.execType == some "5" && r.ordStatus == some "9"

/-- no step of the run is an excluded race -/
def calm (l : Link) : List Action → Bool
  | [] => true
  | a :: rest => !excluded l a && calm (step l a) rest

theorem noSusp_of_not_excluded {l : Link} {a : Action} {rs : List Report}
    (h : excluded l a = false) (he : emitted l a = rs) : noSuspReplace rs := by
  intro r hr ⟨h1, h2⟩
  simp only [excluded, Bool.or_eq_false_iff] at h
  have := h.2
  rw [he, List.any_eq_false] at this
  have := this r hr
  simp [h1, h2] at this

/-! ### exchange operations that do not take a request -/

theorem init_inv_link {o : Order} (h : LocalInv o) (hs : o.status = "Z") (ho : o.origClordId = none) :
    Inv { order := o } :=
  ⟨h, fun _ => ⟨rfl, rfl, rfl⟩, fun _ => rfl, trivial, Sync0.created ⟨rfl, rfl, hs, ho⟩⟩

/-- generic step of the exchange: `r` is what the operation returns on `l.ex` -/
theorem exch_inv {l : Link} (h : Inv l) (r : Exch × List Report)
    (hknown : r.1.known = l.ex.known) (hnoop : l.ex.known = false → r = (l.ex, []))
    (hemit : EmitOk (drain l.order l.e2c) l.c2e r) : Inv (exchDo l r).1 := by
  refine ⟨h.loc, ?_, ?_, ?_, ?_⟩
  · intro hz
    obtain ⟨h1, h2, h3⟩ := h.fresh hz
    have := hnoop h3
    simp only [exchDo]
    rw [this]
    exact ⟨h1, by simp [h2], h3⟩
  · intro hk
    simp only [exchDo] at hk ⊢
    rw [hknown] at hk
    have := hnoop hk
    rw [this, h.quiet hk]; rfl
  · simp only [exchDo]
    exact (ChainP_append _ _ _).mpr ⟨h.chain, hemit.1⟩
  · simp only [exchDo]
    rw [drain_append]
    exact hemit.2

theorem ack_known (e : Exch) : e.ack.1.known = e.known ∧ (e.known = false → e.ack = (e, [])) := by
  unfold Exch.ack; constructor
  · split <;> rfl
  · intro h; simp [h]
theorem rejectNew_known (e : Exch) :
    e.rejectNew.1.known = e.known ∧ (e.known = false → e.rejectNew = (e, [])) := by
  unfold Exch.rejectNew; constructor
  · split <;> rfl
  · intro h; simp [h]
theorem suspend_known (e : Exch) : e.suspend.1.known = e.known ∧ (e.known = false → e.suspend = (e, [])) := by
  unfold Exch.suspend; constructor
  · split <;> rfl
  · intro h; simp [h]
theorem resume_known (e : Exch) : e.resume.1.known = e.known ∧ (e.known = false → e.resume = (e, [])) := by
  unfold Exch.resume; constructor
  · split <;> rfl
  · intro h; simp [h]
theorem finish_known (e : Exch) (x : String) : (e.finish x).1.known = e.known := by
  unfold Exch.finish; split <;> rfl
theorem fill_known (e : Exch) (q px : Int) :
    (e.fill q px).1.known = e.known ∧ (e.known = false → e.fill q px = (e, [])) := by
  unfold Exch.fill; constructor
  · split
    · rfl
    · simp only; split
      · rw [finish_known]
      · rfl
  · intro h; simp [h]
theorem expire_known (e : Exch) : e.expire.1.known = e.known ∧ (e.known = false → e.expire = (e, [])) := by
  unfold Exch.expire; constructor
  · split
    · rfl
    · rw [finish_known]
  · intro h; simp [h]
theorem decide_known (e : Exch) (d : Decision) :
    (e.decide d).1.known = e.known ∧ (e.pending = none → e.decide d = (e, [])) := by
  unfold Exch.decide; constructor
  · repeat' split
    all_goals rfl
  · intro h; simp [h]

theorem recv_known (e : Exch) (m : Req) (d : Decision)
    (h : e.known = true ∨ (m.kind = "D" ∧ m.clOrdId.isSome = true)) : (e.recv m d).1.known = true := by
  unfold Exch.recv
  cases hcl : m.clOrdId with
  | none =>
    rcases h with h | ⟨_, h⟩
    · exact h
    · rw [hcl] at h; cases h
  | some cl =>
    simp only
    by_cases hD : m.kind = "D"
    · simp only [hD, if_true]
      by_cases hk : e.known = true
      · simp [hk]
      · simp only [hk, Bool.false_eq_true, if_false]
        repeat' split
        all_goals rfl
    · have hk : e.known = true := by
        rcases h with h | ⟨h, _⟩
        · exact h
        · exact absurd h hD
      simp only [hD, if_false]
      repeat' split
      all_goals first
        | exact hk
        | (rw [(decide_known _ _).1]; exact hk)

end AsyncFix.Model.OrderLink
