/-
UTCTimeOnly: model and SPEC as the same explicit shape with different parameters.
-/
import AsyncFix.Lemmas.LexTime
namespace AsyncFix.Lemmas.LexTimeOnly
open AsyncFix.Py AsyncFix.Lemmas.LexTok AsyncFix.Lemmas.LexSeq AsyncFix.Lemmas.LexLayout
open AsyncFix.Lemmas.LexDate AsyncFix.Lemmas.LexTime
open AsyncFix.Model AsyncFix.Model.Lexical AsyncFix.Model.LexClass

/-- HH:MM:SS[.fraction] with HH ≤ 23, MM ≤ 59, SS ≤ maxSec; fraction of three digits, or
(if `six`) of six digits -/
def TimeShape (maxSec : Nat) (six : Bool) (tm : Str) : Prop :=
  ∃ h1 h2 n1 n2 s1 s2 fr, tm = h1 :: h2 :: 58 :: n1 :: n2 :: 58 :: s1 :: s2 :: fr ∧
    D6 h1 h2 n1 n2 s1 s2 ∧ two h1 h2 ≤ 23 ∧ two n1 n2 ≤ 59 ∧ two s1 s2 ≤ maxSec ∧
    (fr = [] ∨ Is3 fr ∨ (six = true ∧ Is6 fr))

theorem digit_ne_dot {c : Nat} (h : isAsciiDigit c = true) : c ≠ 46 := by
  have := digit_iff.1 h; omega

theorem hms_no_dot {h1 h2 n1 n2 s1 s2 : Nat} (hd : D6 h1 h2 n1 n2 s1 s2) :
    [h1, h2, 58, n1, n2, 58, s1, s2].contains 46 = false := by
  obtain ⟨a1, a2, a3, a4, a5, a6⟩ := hd
  have := digit_ne_dot a1; have := digit_ne_dot a2; have := digit_ne_dot a3
  have := digit_ne_dot a4; have := digit_ne_dot a5; have := digit_ne_dot a6
  simp; omega

theorem effFmt_hms_nodot {s : Str} (h : s.contains 46 = false) : effFmt s fmtHMS = fmtHMS := by
  unfold effFmt; rw [h]; rfl

theorem effFmt_hms_dot {s : Str} (h : s.contains 46 = true) : effFmt s fmtHMS = fmtHMSf := by
  unfold effFmt; rw [h]; rfl

theorem rng_iff {h1 h2 n1 n2 s1 s2 : Nat} :
    (inRng .H h1 h2 && inRng .M n1 n2 && inRng .S s1 s2) = true ↔
      two h1 h2 ≤ 23 ∧ two n1 n2 ≤ 59 ∧ two s1 s2 ≤ 61 := by
  simp only [Bool.and_eq_true, inRng_iff, lo, hi]
  omega

/-- the model's time-only validator accepts exactly this shape -/
theorem time_pass_shape (s : Str) : validateDatetime s fmtHMS = .pass ↔ TimeShape 59 true s := by
  rw [validateDatetime_pass_iff]
  constructor
  · rintro ⟨⟨vals, hv, hok⟩, hl⟩
    by_cases hdot : s.contains 46 = true
    · rw [effFmt_hms_dot hdot] at hv hok hl
      obtain ⟨h1, h2, n1, n2, s1, s2, r, rfl, hd, hr⟩ := layout_hms_gen.1 hl
      have h36 := layout_dotf.1 hr
      obtain ⟨fr, rfl⟩ := is3_or_6_head h36
      obtain ⟨fv, hf, hfv⟩ := frac_headFull h36
      rw [hmsf_headFull hd hf] at hv
      by_cases hr : (inRng .H h1 h2 && inRng .M n1 n2 && inRng .S s1 s2) = true
      · rw [if_pos hr] at hv
        injection hv with hv; subst hv
        have := rng_iff.1 hr
        rw [dtOk_iff] at hok
        simp [assign, fmtHMSf, fmtHMS] at hok
        refine ⟨h1, h2, n1, n2, s1, s2, _, rfl, hd, by omega, by omega, by omega, ?_⟩
        rcases h36 with h | h
        · exact Or.inr (Or.inl h)
        · exact Or.inr (Or.inr ⟨rfl, h⟩)
      · rw [if_neg hr] at hv; cases hv
    · have hdot : s.contains 46 = false := by simpa using hdot
      rw [effFmt_hms_nodot hdot] at hv hok hl
      obtain ⟨h1, h2, n1, n2, s1, s2, r, rfl, hd, hr⟩ := layout_hms_gen.1 hl
      rw [layout_nil] at hr; subst hr
      rw [hms_headFull hd] at hv
      by_cases hr : (inRng .H h1 h2 && inRng .M n1 n2 && inRng .S s1 s2) = true
      · rw [if_pos hr] at hv
        injection hv with hv; subst hv
        have := rng_iff.1 hr
        rw [dtOk_iff] at hok
        simp [assign, fmtHMS] at hok
        exact ⟨h1, h2, n1, n2, s1, s2, _, rfl, hd, by omega, by omega, by omega, Or.inl rfl⟩
      · rw [if_neg hr] at hv; cases hv
  · rintro ⟨h1, h2, n1, n2, s1, s2, fr, rfl, hd, b1, b2, b3, hfr⟩
    have hr : (inRng .H h1 h2 && inRng .M n1 n2 && inRng .S s1 s2) = true := rng_iff.2 ⟨b1, b2, by omega⟩
    rcases hfr with rfl | hfr
    · rw [effFmt_hms_nodot (hms_no_dot hd)]
      refine ⟨⟨_, by rw [hms_headFull hd, if_pos hr], ?_⟩, layout_hms_gen.2 ⟨_, _, _, _, _, _, _, rfl, hd, layout_nil.2 rfl⟩⟩
      rw [dtOk_iff]
      simp [assign, fmtHMS, DateTime.effYear, daysInMonth]
      omega
    · have h36 : Is3 fr ∨ Is6 fr := by
        rcases hfr with h | ⟨-, h⟩
        · exact Or.inl h
        · exact Or.inr h
      obtain ⟨fr', rfl⟩ := is3_or_6_head h36
      obtain ⟨fv, hf, hfv⟩ := frac_headFull h36
      have hdot : (h1 :: h2 :: 58 :: n1 :: n2 :: 58 :: s1 :: s2 :: 46 :: fr').contains 46 = true := by simp
      rw [effFmt_hms_dot hdot]
      refine ⟨⟨_, by rw [hmsf_headFull hd hf, if_pos hr], ?_⟩,
        layout_hms_gen.2 ⟨_, _, _, _, _, _, _, rfl, hd, layout_dotf.2 h36⟩⟩
      rw [dtOk_iff]
      simp [assign, fmtHMSf, fmtHMS, DateTime.effYear, daysInMonth]
      omega

/-! ### the SPEC side -/

theorem isHMS_iff {s : Str} : LexSpec.isHMS s = true ↔
    ∃ h1 h2 n1 n2 s1 s2, s = [h1, h2, 58, n1, n2, 58, s1, s2] ∧ D6 h1 h2 n1 n2 s1 s2 ∧
      two h1 h2 ≤ 23 ∧ two n1 n2 ≤ 59 ∧ two s1 s2 ≤ 60 := by
  constructor
  · intro h
    unfold LexSpec.isHMS at h
    split at h
    · rename_i h1 h2 n1 n2 s1 s2
      simp only [Bool.and_eq_true, decide_eq_true_eq] at h
      simp only [spec_digit, spec_two] at h
      obtain ⟨⟨⟨⟨⟨⟨⟨⟨a1, a2⟩, a3⟩, a4⟩, a5⟩, a6⟩, b1⟩, b2⟩, b3⟩ := h
      exact ⟨h1, h2, n1, n2, s1, s2, rfl, ⟨a1, a2, a3, a4, a5, a6⟩, b1, b2, b3⟩
    · cases h
  · rintro ⟨h1, h2, n1, n2, s1, s2, rfl, ⟨a1, a2, a3, a4, a5, a6⟩, b1, b2, b3⟩
    simp only [LexSpec.isHMS, Bool.and_eq_true, decide_eq_true_eq]
    simp only [spec_digit, spec_two]
    exact ⟨⟨⟨⟨⟨⟨⟨⟨a1, a2⟩, a3⟩, a4⟩, a5⟩, a6⟩, b1⟩, b2⟩, b3⟩

theorem isMillis_iff {w : Str} : LexSpec.isMillis w = true ↔ Is3 w := by
  constructor
  · intro h
    unfold LexSpec.isMillis at h
    split at h
    · rename_i a b c
      simp only [Bool.and_eq_true, spec_digit] at h
      exact ⟨a, b, c, rfl, h.1.1, h.1.2, h.2⟩
    · cases h
  · rintro ⟨a, b, c, rfl, x1, x2, x3⟩
    simp only [LexSpec.isMillis, Bool.and_eq_true, spec_digit]
    exact ⟨⟨x1, x2⟩, x3⟩

/-- the FIX UTCTimeOnly lexical space as a shape -/
theorem isTimeOnly_shape (s : Str) : LexSpec.isTimeOnly s = true ↔ TimeShape 60 false s := by
  unfold LexSpec.isTimeOnly
  rw [Bool.or_eq_true, Bool.and_eq_true, isHMS_iff, isHMS_iff, isMillis_iff]
  constructor
  · rintro (⟨h1, h2, n1, n2, s1, s2, rfl, hd, b⟩ | ⟨⟨h1, h2, n1, n2, s1, s2, he, hd, b⟩, h3⟩)
    · exact ⟨h1, h2, n1, n2, s1, s2, [], rfl, hd, b.1, b.2.1, b.2.2, Or.inl rfl⟩
    · refine ⟨h1, h2, n1, n2, s1, s2, s.drop 8, ?_, hd, b.1, b.2.1, b.2.2, Or.inr (Or.inl h3)⟩
      have := List.take_append_drop 8 s
      rw [he] at this
      exact this.symm
  · rintro ⟨h1, h2, n1, n2, s1, s2, fr, rfl, hd, b1, b2, b3, hfr⟩
    rcases hfr with rfl | h3 | ⟨h, -⟩
    · exact Or.inl ⟨h1, h2, n1, n2, s1, s2, rfl, hd, b1, b2, b3⟩
    · exact Or.inr ⟨⟨h1, h2, n1, n2, s1, s2, by simp, hd, b1, b2, b3⟩, by simpa using h3⟩
    · cases h

theorem second60_shape {h1 h2 n1 n2 s1 s2 : Nat} {fr : Str} (hd : D6 h1 h2 n1 n2 s1 s2) :
    second60 (h1 :: h2 :: 58 :: n1 :: n2 :: 58 :: s1 :: s2 :: fr) = true ↔ two s1 s2 = 60 := by
  obtain ⟨-, -, -, -, a5, a6⟩ := hd
  have := digit_iff.1 a5; have := digit_iff.1 a6
  simp [second60, two]
  omega

/-- a time with six fraction digits, otherwise a valid accepted FIX time (stated on the time part) -/
def SixFrac (tm : Str) : Prop :=
  tm.length = 15 ∧ TimeShape 60 false (tm.take 12) ∧ second60 (tm.take 12) = false ∧
    (tm.drop 12).all isAsciiDigit = true

/-- model shape = (SPEC shape minus second 60) plus six-digit fractions -/
theorem timeShape_split (tm : Str) :
    TimeShape 59 true tm ↔ (TimeShape 60 false tm ∧ second60 tm = false) ∨ SixFrac tm := by
  constructor
  · rintro ⟨h1, h2, n1, n2, s1, s2, fr, rfl, hd, b1, b2, b3, hfr⟩
    have hs : ∀ fr', second60 (h1 :: h2 :: 58 :: n1 :: n2 :: 58 :: s1 :: s2 :: fr') = false := by
      intro fr'
      cases h : second60 (h1 :: h2 :: 58 :: n1 :: n2 :: 58 :: s1 :: s2 :: fr')
      · rfl
      · have := (second60_shape hd).1 h; omega
    rcases hfr with rfl | h3 | ⟨-, a, b, c, d, e, f, rfl, x1, x2, x3, x4, x5, x6⟩
    · exact Or.inl ⟨⟨h1, h2, n1, n2, s1, s2, [], rfl, hd, b1, b2, by omega, Or.inl rfl⟩, hs _⟩
    · exact Or.inl ⟨⟨h1, h2, n1, n2, s1, s2, _, rfl, hd, b1, b2, by omega, Or.inr (Or.inl h3)⟩, hs _⟩
    · refine Or.inr ⟨rfl, ⟨h1, h2, n1, n2, s1, s2, [46, a, b, c], rfl, hd, b1, b2, by omega,
        Or.inr (Or.inl ⟨a, b, c, rfl, x1, x2, x3⟩)⟩, hs _, ?_⟩
      simp [x4, x5, x6]
  · rintro (⟨⟨h1, h2, n1, n2, s1, s2, fr, rfl, hd, b1, b2, b3, hfr⟩, hs⟩ | ⟨hlen, hsh, hs, hdig⟩)
    · have : two s1 s2 ≠ 60 := by
        intro h; rw [(second60_shape hd).2 h] at hs; cases hs
      refine ⟨h1, h2, n1, n2, s1, s2, fr, rfl, hd, b1, b2, by omega, ?_⟩
      rcases hfr with h | h | ⟨h, -⟩
      · exact Or.inl h
      · exact Or.inr (Or.inl h)
      · cases h
    · obtain ⟨h1, h2, n1, n2, s1, s2, fr, he, hd, b1, b2, b3, hfr⟩ := hsh
      have hl12 : (tm.take 12).length = 12 := by simp [List.length_take]; omega
      have : two s1 s2 ≠ 60 := by
        intro h; rw [he, (second60_shape hd).2 h] at hs; cases hs
      have hfr3 : Is3 fr := by
        rw [he] at hl12
        rcases hfr with rfl | h | ⟨h, -⟩
        · simp at hl12
        · exact h
        · cases h
      obtain ⟨a, b, c, rfl, x1, x2, x3⟩ := hfr3
      have hsplit := List.take_append_drop 12 tm
      have hdl : (tm.drop 12).length = 3 := by simp [List.length_drop]; omega
      rcases hdr : tm.drop 12 with _ | ⟨d, _ | ⟨e, _ | ⟨f, _ | ⟨g, t⟩⟩⟩⟩ <;> rw [hdr] at hdl <;>
        simp at hdl
      rw [hdr] at hdig hsplit
      simp only [List.all_cons, List.all_nil, Bool.and_true, Bool.and_eq_true] at hdig
      rw [he] at hsplit
      refine ⟨h1, h2, n1, n2, s1, s2, [46, a, b, c, d, e, f], hsplit.symm, hd, b1, b2, by omega,
        Or.inr (Or.inr ⟨rfl, a, b, c, d, e, f, rfl, x1, x2, x3, hdig.1, hdig.2.1, hdig.2.2⟩)⟩

theorem sixFrac_timeOnly (cfg : Cfg) (s : Str) :
    sixFractionDigits cfg .timeOnly LexSpec.isTimeOnly 8 s = true ↔ SixFrac s := by
  simp only [sixFractionDigits, narrow, Bool.and_eq_true, decide_eq_true_eq, Bool.not_eq_true',
    isTimeOnly_shape, SixFrac]
  constructor
  · rintro ⟨⟨⟨a, b⟩, c⟩, d⟩; exact ⟨a, b, c, d⟩
  · rintro ⟨a, b, c, d⟩; exact ⟨⟨⟨a, b⟩, c⟩, d⟩

/-- UTCTimeOnly: accepted = (a FIX time whose second is not 60) or (six fraction digits) -/
theorem timeOnly_pass_iff (cfg : Cfg) (s : Str) :
    validateDatetime s fmtHMS = .pass ↔
      (LexSpec.isTimeOnly s = true ∧ second60 s = false) ∨ deviation cfg .timeOnly s = true := by
  rw [time_pass_shape, timeShape_split, isTimeOnly_shape]
  show _ ↔ _ ∨ sixFractionDigits cfg .timeOnly LexSpec.isTimeOnly 8 s = true
  rw [sixFrac_timeOnly]

end AsyncFix.Lemmas.LexTimeOnly
