/-
C15: message level – lookup of the message type, header check, per-tag loop, and what
`schemaWF` provides.
-/
import AsyncFix.Lemmas.SchemaGroup
namespace AsyncFix.Model.Schema

/-! ### what `schemaWF` gives -/

theorem wf_nd (sch : Schema) :
    (∀ ms, membersWF sch ms = true → membersND ms = true) ∧
    (∀ m, memberWF sch m = true → memberND m = true) := by
  apply membersWF.mutual_induct
  · intro t r _; rfl
  · intro t r gm ih h
    rw [memberWF] at h
    simp only [Bool.and_eq_true] at h
    rw [memberND]; exact ih h.2
  · intro _; rfl
  · intro m rest ih1 ih2 h
    rw [membersWF] at h
    simp only [Bool.and_eq_true] at h
    rw [membersND_cons]
    refine ⟨ih1 h.1.1, ?_, ih2 h.2⟩
    simpa using h.1.2

theorem nodupStr_iff {l : List String} : nodupStr l = true ↔ l.Nodup := by
  induction l with
  | nil => simp [nodupStr]
  | cons x xs ih => simp [nodupStr, ih]

theorem lookupMsg_iff {msgs : List (String × List Member)} (h : (msgs.map (·.1)).Nodup)
    {t : String} {ms : List Member} : lookupMsg msgs t = some ms ↔ (t, ms) ∈ msgs := by
  induction msgs with
  | nil => simp [lookupMsg]
  | cons p rest ih =>
    obtain ⟨k, v⟩ := p
    simp only [List.map_cons, List.nodup_cons] at h
    unfold lookupMsg
    by_cases hk : k = t
    · subst hk
      simp only [if_true, Option.some.injEq, List.mem_cons, Prod.mk.injEq, true_and]
      constructor
      · intro e; exact Or.inl e.symm
      · rintro (e | hmem)
        · exact e.symm
        · exact absurd (List.mem_map.mpr ⟨(k, ms), hmem, rfl⟩) h.1
    · simp only [hk, if_false, ih h.2, List.mem_cons, Prod.mk.injEq]
      constructor
      · exact Or.inr
      · rintro (⟨e, _⟩ | hmem)
        · exact absurd e.symm hk
        · exact hmem

structure WF (sch : Schema) : Prop where
  types : (sch.messages.map (·.1)).Nodup
  members : ∀ p, p ∈ sch.messages → membersND (sch.header ++ sch.trailer ++ p.2) = true
  hdr10 : "10" ∉ memberTags sch.header
  hdrReq : ∀ m, m ∈ sch.header → m.req = true → m.isField = true

theorem schemaWF_WF {sch : Schema} (h : schemaWF sch = true) : WF sch := by
  unfold schemaWF at h
  simp only [Bool.and_eq_true] at h
  obtain ⟨⟨⟨⟨⟨⟨_, _⟩, h3⟩, _⟩, h5⟩, h6⟩, h7⟩ := h
  refine ⟨nodupStr_iff.mp h3, ?_, by simpa using h6, ?_⟩
  · intro p hp
    exact (wf_nd sch).1 _ (List.all_eq_true.mp h5 p hp)
  · intro m hm hr
    have := List.all_eq_true.mp h7 m hm
    simpa [hr] using this

/-! ### tags -/

theorem NodeOk.tag_eq {vv : Tag → String → Bool} {mem : Member} {n : Node} (h : NodeOk vv mem n) :
    mem.tag = n.tag := by
  cases h <;> rfl

theorem knownTag_iff {sch : Schema} {t : Tag} : sch.knownTag t = true ↔ sch.declares t := by
  unfold Schema.knownTag Schema.declares
  rw [List.any_eq_true]
  constructor
  · rintro ⟨f, hf, h⟩; exact ⟨f, hf, by simpa using h⟩
  · rintro ⟨f, hf, h⟩; exact ⟨f, hf, by simpa using h⟩

theorem memberFor_some {sch : Schema} {ms : List Member} {t : Tag} {mem : Member} :
    memberFor sch ms t = some mem → mem ∈ sch.header ++ sch.trailer ++ ms ∧ mem.tag = t := by
  unfold memberFor
  cases h1 : lookupMem sch.header t with
  | some p =>
    obtain ⟨i, m⟩ := p
    simp only [Option.some.injEq]; rintro rfl
    obtain ⟨a, b, _⟩ := lookupMem_some h1
    exact ⟨by simp [a], b⟩
  | none =>
    cases h2 : lookupMem sch.trailer t with
    | some p =>
      obtain ⟨i, m⟩ := p
      simp only [Option.some.injEq]; rintro rfl
      obtain ⟨a, b, _⟩ := lookupMem_some h2
      exact ⟨by simp [a], b⟩
    | none =>
      cases h3 : lookupMem ms t with
      | some p =>
        obtain ⟨i, m⟩ := p
        simp only [Option.some.injEq]; rintro rfl
        obtain ⟨a, b, _⟩ := lookupMem_some h3
        exact ⟨by simp [a], b⟩
      | none => simp

theorem memberFor_none {sch : Schema} {ms : List Member} {t : Tag} :
    memberFor sch ms t = none → ∀ mem, mem ∈ sch.header ++ sch.trailer ++ ms → mem.tag ≠ t := by
  unfold memberFor
  cases h1 : lookupMem sch.header t with
  | some p => simp
  | none =>
    cases h2 : lookupMem sch.trailer t with
    | some p => simp
    | none =>
      cases h3 : lookupMem ms t with
      | some p => simp
      | none =>
        intro _ mem hmem ht
        have e1 := lookupMem_none.mp h1
        have e2 := lookupMem_none.mp h2
        have e3 := lookupMem_none.mp h3
        simp only [List.mem_append] at hmem
        rcases hmem with (hm | hm) | hm
        · exact e1 (ht ▸ List.mem_map.mpr ⟨mem, hm, rfl⟩)
        · exact e2 (ht ▸ List.mem_map.mpr ⟨mem, hm, rfl⟩)
        · exact e3 (ht ▸ List.mem_map.mpr ⟨mem, hm, rfl⟩)

theorem memberFor_of_mem {sch : Schema} {ms : List Member}
    (hnd : membersND (sch.header ++ sch.trailer ++ ms) = true) {mem : Member}
    (hmem : mem ∈ sch.header ++ sch.trailer ++ ms) : memberFor sch ms mem.tag = some mem := by
  cases h : memberFor sch ms mem.tag with
  | none => exact absurd rfl (memberFor_none h mem hmem)
  | some m' =>
    obtain ⟨a, b⟩ := memberFor_some h
    rw [membersND_unique hnd a hmem b]

/-! ### the per-tag loop -/

theorem checkEntries_iff {vv : Tag → String → Bool} {sch : Schema} {ms : List Member}
    (hnd : membersND (sch.header ++ sch.trailer ++ ms) = true) {ns : List Node} :
    checkEntries vv sch ms ns = .ok ↔
      ∀ n, n ∈ ns → n.tag ≠ "10" →
        sch.declares n.tag ∧ ∃ mem, mem ∈ sch.header ++ sch.trailer ++ ms ∧ NodeOk vv mem n := by
  induction ns with
  | nil => simp [checkEntries]
  | cons n rest ih =>
    unfold checkEntries
    by_cases h10 : n.tag = "10"
    · rw [if_pos h10, ih]
      constructor
      · intro h n' hn' hne
        rcases List.mem_cons.mp hn' with rfl | hn'
        · exact absurd h10 hne
        · exact h n' hn' hne
      · intro h n' hn' hne; exact h n' (List.mem_cons_of_mem _ hn') hne
    · rw [if_neg h10]
      by_cases hk : sch.knownTag n.tag = true
      · simp only [hk, Bool.not_true, Bool.false_eq_true, if_false]
        cases hm : memberFor sch ms n.tag with
        | none =>
          simp only [reduceCtorEq, false_iff]
          intro h
          obtain ⟨_, mem, hmem, hok⟩ := h n (List.mem_cons_self ..) h10
          exact memberFor_none hm mem hmem hok.tag_eq
        | some mem =>
          obtain ⟨hmem, ht⟩ := memberFor_some hm
          simp only []
          rw [andThen_ok, validateMember_iff ht (membersND_mem hnd hmem), ih]
          constructor
          · rintro ⟨hok, hrest⟩ n' hn' hne
            rcases List.mem_cons.mp hn' with rfl | hn'
            · exact ⟨knownTag_iff.mp hk, mem, hmem, hok⟩
            · exact hrest n' hn' hne
          · intro h
            refine ⟨?_, fun n' hn' hne => h n' (List.mem_cons_of_mem _ hn') hne⟩
            obtain ⟨_, mem', hmem', hok'⟩ := h n (List.mem_cons_self ..) h10
            rw [membersND_unique hnd hmem hmem' (ht.trans hok'.tag_eq.symm)]
            exact hok'
      · have hk' : sch.knownTag n.tag = false := by simpa using hk
        simp only [hk', Bool.not_false, if_true, reduceCtorEq, false_iff]
        intro h
        exact hk (knownTag_iff.mpr (h n (List.mem_cons_self ..) h10).1)

theorem checkEntries_kind {vv : Tag → String → Bool} {sch : Schema} {ms : List Member}
    {ns : List Node} {k : Kind} : checkEntries vv sch ms ns = .raised k → k = .msgError := by
  induction ns with
  | nil => simp [checkEntries]
  | cons n rest ih =>
    unfold checkEntries
    split
    · exact ih
    · split
      · simp; exact fun h => h.symm
      · split
        · simp; exact fun h => h.symm
        · intro h
          rcases andThen_raised h with h | h
          · exact (group_kind vv).2.2 _ _ _ h
          · exact ih h

/-! ### the header check -/

theorem getNode_some {ns : List Node} {t : Tag} {n : Node} (h : getNode ns t = some n) :
    n ∈ ns ∧ n.tag = t := by
  unfold getNode at h
  exact ⟨List.mem_of_find?_eq_some h, by simpa using List.find?_some h⟩

theorem getNode_of_mem {ns : List Node} {t : Tag} (h : t ∈ nodeTags ns) :
    ∃ n, getNode ns t = some n := by
  unfold getNode
  cases hf : ns.find? (fun n => n.tag = t) with
  | some n => exact ⟨n, rfl⟩
  | none =>
    obtain ⟨n, hn, ht⟩ := List.mem_map.mp h
    have := List.find?_eq_none.mp hf n hn
    simp [ht] at this

theorem validateHeader_present {vv : Tag → String → Bool} {ns : List Node} {hdr : List Member}
    (h : validateHeader vv ns hdr = .ok) :
    ∀ t, Member.field t true ∈ hdr → t ∈ nodeTags ns := by
  induction hdr with
  | nil => intro t ht; cases ht
  | cons m rest ih =>
    intro t ht
    cases m with
    | group gt gr gm =>
      rw [validateHeader] at h
      rcases List.mem_cons.mp ht with e | ht
      · cases e
      · exact ih h t ht
    | field ft fr =>
      rw [validateHeader] at h
      cases fr with
      | false =>
        simp only [Bool.not_false, if_true] at h
        rcases List.mem_cons.mp ht with e | ht
        · cases e
        · exact ih h t ht
      | true =>
        simp only [Bool.not_true, Bool.false_eq_true, if_false] at h
        cases hg : getNode ns ft with
        | none => simp [hg] at h
        | some n =>
          rw [hg] at h
          rcases List.mem_cons.mp ht with e | ht
          · cases e
            obtain ⟨hn, hnt⟩ := getNode_some hg
            exact hnt ▸ List.mem_map.mpr ⟨n, hn, rfl⟩
          · cases n with
            | plain a s => simp only [andThen_ok] at h; exact ih h.2 t ht
            | cls a k => simp at h
            | group a items => simp at h

theorem validateHeader_ok {vv : Tag → String → Bool} {ns : List Node} {hdr : List Member}
    (h : ∀ t, Member.field t true ∈ hdr → ∃ n, getNode ns t = some n ∧ NodeOk vv (.field t true) n) :
    validateHeader vv ns hdr = .ok := by
  induction hdr with
  | nil => rfl
  | cons m rest ih =>
    have ih' := ih (fun t ht => h t (List.mem_cons_of_mem _ ht))
    cases m with
    | group gt gr gm => rw [validateHeader]; exact ih'
    | field ft fr =>
      rw [validateHeader]
      cases fr with
      | false => simpa using ih'
      | true =>
        obtain ⟨n, hg, hok⟩ := h ft (List.mem_cons_self ..)
        simp only [Bool.not_true, Bool.false_eq_true, if_false, hg]
        cases hok with
        | field h1 h2 =>
          simp only [andThen_ok, strOutcome_ok]
          exact ⟨⟨h1, h2⟩, ih'⟩

theorem validateHeader_kind {vv : Tag → String → Bool} {ns : List Node} {hdr : List Member}
    {k : Kind} : validateHeader vv ns hdr = .raised k → k = .msgError := by
  induction hdr with
  | nil => simp [validateHeader]
  | cons m rest ih =>
    cases m with
    | group gt gr gm => rw [validateHeader]; exact ih
    | field ft fr =>
      rw [validateHeader]
      split
      · exact ih
      · split
        · simp; exact fun h => h.symm
        · simp; exact fun h => h.symm
        · simp; exact fun h => h.symm
        · intro h
          rcases andThen_raised h with h | h
          · unfold strOutcome at h
            split at h
            · simp at h; exact h.symm
            · split at h <;> simp at h; exact h.symm
          · exact ih h

end AsyncFix.Model.Schema
