/-
C03, part 6: the invariant.  `readLoop_good`: run on any buffer content that is a prefix of a good
stream, the loop hands over exactly the frames that end inside it and keeps a suffix that, followed
by the rest of the stream, is again a good stream.  `feedAll_good`: induction over the chunk list.
-/
import AsyncFix.Lemmas.CodecReaderStream
namespace AsyncFix.Model.Codec

/-- one buffer content `X` that is a prefix of a good stream: the loop hands over exactly the frames
that end inside `X`; what it keeps, followed by the rest of the stream, is again a good stream -/
theorem readLoop_good {bs : Bytes} {tbl : Tbl} (hb : okBegin bs = true) :
    ∀ (frames : List Bytes) (g0 : Bytes) (gs : List Bytes) (X R : Bytes) (acc : List (Msg × Bytes)),
      Good bs tbl (g0 :: gs) frames → X ++ R = interleave (g0 :: gs) frames →
      ∃ (done left : List Bytes) (g' : Bytes) (gsl : List Bytes) (b' : Bytes),
        frames = done ++ left ∧
        readLoop bs tbl X acc =
          { buf := b', delivered := acc ++ done.map (fun f => (msgOf bs tbl f, f)) } ∧
        Good bs tbl (g' :: gsl) left ∧ b' ++ R = interleave (g' :: gsl) left ∧
        lastG (g' :: gsl) <:+ lastG (g0 :: gs) ∧
        (∃ gj, (g0 :: gs).drop done.length = gj :: gsl ∧ g' <:+ gj) ∧ Short b' g' left := by
  intro frames
  induction frames with
  | nil =>
    intro g0 gs X R acc hgood hs
    have hgs : gs = [] := by
      have := hgood.hlen
      simp only [List.length_cons, List.length_nil] at this
      exact List.eq_nil_of_length_eq_zero (by omega)
    subst hgs
    simp only [interleave] at hs
    have hg0 : NoMarker g0 := hgood.hg g0 (by simp)
    have hX : NoMarker X := NoMarker_of_prefix (hs ▸ hg0)
    obtain ⟨k, hk5, hkl, _, hkeq, hrl⟩ := readLoop_junk (bs := bs) (tbl := tbl) (acc := acc) hX
    have hdrop : X.drop (X.length - k) ++ R = g0.drop (X.length - k) := by
      rw [← hs, List.drop_append_of_le_length (by omega)]
    refine ⟨[], [], X.drop (X.length - k) ++ R, [], X.drop (X.length - k), rfl, ?_, ?_, rfl, ?_, ?_, ?_⟩
    · simpa using hrl
    · exact hgood.newHead (by rw [hdrop]; exact NoMarker_drop hg0 _)
    · simp only [lastG, List.getLast?_singleton, Option.getD_some]
      rw [hdrop]; exact List.drop_suffix _ _
    · exact ⟨g0, rfl, by rw [hdrop]; exact List.drop_suffix _ _⟩
    · exact ⟨k, by omega, hkeq⟩
  | cons f fs ih =>
    intro g0 gs X R acc hgood hs
    obtain ⟨g1, gs', rfl⟩ : ∃ g1 gs', gs = g1 :: gs' := by
      have := hgood.hlen
      cases gs with
      | nil => simp at this
      | cons a b => exact ⟨a, b, rfl⟩
    simp only [interleave] at hs
    obtain ⟨hwf, m, hd⟩ := hgood.hv f (by simp)
    have hg0 : NoMarker g0 := hgood.hg g0 (by simp)
    have hf6 := WFFrame_length hb hwf
    by_cases hfull : g0.length + f.length ≤ X.length
    · -- the whole frame is in the buffer
      rw [← List.append_assoc] at hs
      obtain ⟨hX, hX'⟩ := split_at_le hs (by simpa using hfull)
      generalize X.drop (g0 ++ f).length = X' at hX hX'
      have hdec := decode_frame_ctx (tbl := tbl) hb hwf hd hg0 X'
      rw [List.append_assoc] at hX
      rw [← hX] at hdec
      have hstep := readLoop_msg (acc := acc) hdec ⟨by omega, hfull⟩
      have hdropX : X.drop (g0.length + f.length) = X' := by
        rw [hX, ← List.append_assoc, ← List.length_append, List.drop_left]
      rw [hdropX] at hstep
      obtain ⟨done, left, g', gsl, b', hfr, hrl, hgd, hbr, hlast, hdropj, hshort⟩ :=
        ih g1 gs' X' R (acc ++ [(m, f)]) hgood.tail hX'
      refine ⟨f :: done, left, g', gsl, b', by rw [hfr]; rfl, ?_, hgd, hbr, ?_, ?_, hshort⟩
      · rw [hstep, hrl]
        simp only [List.map_cons, msgOf_eq hd, List.append_assoc, List.cons_append, List.nil_append]
      · rw [lastG_cons_cons]; exact hlast
      · simpa using hdropj
    · -- the first frame is not complete yet
      have hfull' : X.length < g0.length + f.length := by omega
      -- marker-free buffer?
      by_cases hjunk : X.length < g0.length + 6
      · have hXnm_d : NoMarker X ∧ X.length - partialMarkerKeep X ≤ g0.length := by
          by_cases hle : X.length ≤ g0.length
          · refine ⟨?_, by omega⟩
            have hp : X <+: g0 := by
              refine List.prefix_of_prefix_length_le (List.prefix_append X R) (hs ▸ List.prefix_append g0 _) hle
            obtain ⟨t, ht⟩ := hp
            exact NoMarker_of_prefix (ht ▸ hg0)
          · obtain ⟨hX, hp⟩ := split_at_le hs (by omega)
            generalize hpd : X.drop g0.length = p at hX hp
            have hpl : p.length = X.length - g0.length := by rw [← hpd]; simp
            have hpf : p <+: f :=
              List.prefix_of_prefix_length_le (List.prefix_append p R) (hp ▸ List.prefix_append f _) (by omega)
            have hpm : p <+: marker :=
              List.prefix_of_prefix_length_le hpf (WFFrame_marker hb hwf) (by rw [marker_length]; omega)
            have hpt : p = marker.take p.length := List.prefix_iff_eq_take.1 hpm
            constructor
            · rw [hX, hpt]; exact NoMarker_append_take hg0 _ (by omega)
            · have : p.length ≤ partialMarkerKeep X := by
                refine pmk_ge (by omega) (by omega) ?_
                rw [← hpt]
                conv => lhs; rw [hX]
                rw [show (g0 ++ p).length - p.length = g0.length by simp, List.drop_left]
              omega
        obtain ⟨hXnm, hdle⟩ := hXnm_d
        obtain ⟨k, hk5, hkl, hkdef, hkeq, hrl⟩ := readLoop_junk (bs := bs) (tbl := tbl) (acc := acc) hXnm
        subst hkdef
        generalize hd' : X.length - partialMarkerKeep X = d at *
        have hdrop : X.drop d ++ R = g0.drop d ++ (f ++ interleave (g1 :: gs') fs) := by
          rw [← List.drop_append_of_le_length hdle, ← hs, List.drop_append_of_le_length (by omega)]
        refine ⟨[], f :: fs, g0.drop d, g1 :: gs', X.drop d, rfl, ?_, ?_, ?_, ?_, ?_, ?_⟩
        · simpa using hrl
        · exact hgood.newHead (NoMarker_drop hg0 _)
        · simpa only [interleave] using hdrop
        · rw [lastG_cons_cons, lastG_cons_cons]; exact List.suffix_refl _
        · exact ⟨g0, rfl, List.drop_suffix _ _⟩
        · show (X.drop d).length < (g0.drop d).length + f.length
          rw [hkeq]
          simp only [List.length_take, marker_length, List.length_drop]
          omega
      · -- junk, then a proper prefix of the frame that shows the marker
        obtain ⟨hX, hp⟩ := split_at_le hs (by omega)
        generalize hpd : X.drop g0.length = p at hX hp
        have hpl : p.length = X.length - g0.length := by rw [← hpd]; simp
        have hpf : p <+: f :=
          List.prefix_of_prefix_length_le (List.prefix_append p R) (hp ▸ List.prefix_append f _) (by omega)
        have hdec := decode_frame_prefix (tbl := tbl) hb hwf hd hg0 hpf (by omega) (by omega)
        rw [← hX] at hdec
        have hrl := readLoop_none (acc := acc) hdec
        rw [hpd] at hrl
        refine ⟨[], f :: fs, [], g1 :: gs', p, rfl, ?_, ?_, ?_, ?_, ?_, ?_⟩
        · simpa using hrl
        · exact hgood.newHead NoMarker_nil
        · simpa only [interleave, List.nil_append] using hp
        · rw [lastG_cons_cons, lastG_cons_cons]; exact List.suffix_refl _
        · exact ⟨g0, rfl, List.nil_suffix⟩
        · show p.length < ([] : Bytes).length + f.length
          simp only [List.length_nil]; omega

/-- the invariant over the chunk list -/
theorem feedAll_good {bs : Bytes} {tbl : Tbl} (hb : okBegin bs = true) :
    ∀ (chunks : List Bytes) (buf : Bytes) (acc : List (Msg × Bytes)) (frames : List Bytes) (g0 : Bytes)
      (gs : List Bytes),
      Good bs tbl (g0 :: gs) frames → buf ++ chunks.flatten = interleave (g0 :: gs) frames →
      Short buf g0 frames →
      (feedAll bs tbl buf chunks acc).2 = acc ++ frames.map (fun f => (msgOf bs tbl f, f)) ∧
      ∃ k, k < 6 ∧ (feedAll bs tbl buf chunks acc).1 = marker.take k ∧
        (feedAll bs tbl buf chunks acc).1 <:+ lastG (g0 :: gs) := by
  intro chunks
  induction chunks with
  | nil =>
    intro buf acc frames g0 gs hgood hs hshort
    simp only [List.flatten_nil, List.append_nil] at hs
    cases frames with
    | nil =>
      have hgs : gs = [] := by
        have := hgood.hlen
        simp only [List.length_cons, List.length_nil] at this
        exact List.eq_nil_of_length_eq_zero (by omega)
      subst hgs
      simp only [interleave] at hs
      obtain ⟨k, hk, hbk⟩ := hshort
      refine ⟨by simp [feedAll], k, hk, by simpa [feedAll] using hbk, ?_⟩
      simp only [feedAll, lastG, List.getLast?_singleton, Option.getD_some, hs]
      exact List.suffix_refl _
    | cons f fs =>
      exfalso
      obtain ⟨g1, gs', rfl⟩ : ∃ g1 gs', gs = g1 :: gs' := by
        have := hgood.hlen
        cases gs with
        | nil => simp at this
        | cons a b => exact ⟨a, b, rfl⟩
      simp only [interleave] at hs
      have : buf.length < g0.length + f.length := hshort
      rw [hs] at this
      simp only [List.length_append] at this
      omega
  | cons c cs ih =>
    intro buf acc frames g0 gs hgood hs hshort
    simp only [List.flatten_cons, ← List.append_assoc] at hs
    obtain ⟨done, left, g', gsl, b', hfr, hrl, hgd, hbr, hlast, _, hsh'⟩ :=
      readLoop_good hb frames g0 gs (buf ++ c) cs.flatten [] hgood hs
    obtain ⟨h2, k, hk, h1, hsuf⟩ := ih b' (acc ++ done.map (fun f => (msgOf bs tbl f, f))) left g' gsl hgd hbr hsh'
    have hfeed : feedAll bs tbl buf (c :: cs) acc =
        feedAll bs tbl b' cs (acc ++ done.map (fun f => (msgOf bs tbl f, f))) := by
      simp only [feedAll, feed, hrl, List.nil_append]
    rw [hfeed]
    refine ⟨?_, k, hk, h1, hsuf.trans hlast⟩
    rw [h2, hfr, List.map_append, List.append_assoc]

/-- hypotheses on a stream description (kept as separate hypotheses in the theorems) -/
theorem good_of {bs : Bytes} {tbl : Tbl} {frames gs : List Bytes}
    (hv : ∀ f ∈ frames, WFFrame bs f ∧ ∃ m, decode bs tbl f = .msg m f.length f)
    (hg : ∀ g ∈ gs, NoMarker g) (hlen : gs.length = frames.length + 1) :
    ∃ g0 gs', gs = g0 :: gs' ∧ Good bs tbl (g0 :: gs') frames := by
  cases gs with
  | nil => simp at hlen
  | cons g0 gs' => exact ⟨g0, gs', rfl, ⟨hv, hg, hlen⟩⟩

theorem short_nil {bs : Bytes} {tbl : Tbl} {frames : List Bytes} (g0 : Bytes) (hb : okBegin bs = true)
    (hv : ∀ f ∈ frames, WFFrame bs f ∧ ∃ m, decode bs tbl f = .msg m f.length f) :
    Short [] g0 frames := by
  cases frames with
  | nil => exact ⟨0, by omega, rfl⟩
  | cons f fs =>
    have := WFFrame_length hb (hv f (by simp)).1
    show ([] : Bytes).length < g0.length + f.length
    simp only [List.length_nil]; omega

end AsyncFix.Model.Codec
