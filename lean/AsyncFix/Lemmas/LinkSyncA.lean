import AsyncFix.Model.LinkInv

/-!
Link family, coverage invariant (`SyncInv`), part A: list lemmas (`chain`, `dropWhile`, `requests`) and the
specification of `AConn.serve` (`_process_resend`): the reply to `ResendRequest(b, 0)` is a chain `b … o` of
gap fills and retransmissions, and the server's phase and counters stay.
-/
namespace AsyncFix.Link

open AsyncFix.Session

/-! ### chain -/

theorem chain_le : ∀ {Q : List AFrame} {a b : Int}, chain a Q b → a ≤ b
  | [], a, b, h => by simp [chain] at h; omega
  | f :: r, a, b, h => by
    obtain ⟨h1, h2, h3⟩ := h
    have := chain_le h3
    omega

theorem chain_append : ∀ {Q R : List AFrame} {a b c : Int}, chain a Q b → chain b R c → chain a (Q ++ R) c
  | [], R, a, b, c, h, h' => by simp [chain] at h; subst h; simpa using h'
  | f :: r, R, a, b, c, h, h' => by
    obtain ⟨h1, h2, h3⟩ := h
    exact ⟨h1, h2, chain_append h3 h'⟩

theorem chain_snoc {Q : List AFrame} {a b : Int} (f : AFrame) (h : chain a Q b) (h1 : f.seq = b)
    (h2 : f.seq < f.next) : chain a (Q ++ [f]) f.next :=
  chain_append h ⟨h1, h2, rfl⟩

theorem chain_seq_ge : ∀ {Q : List AFrame} {a b : Int}, chain a Q b → ∀ f ∈ Q, a ≤ f.seq
  | [], _, _, _, f, hf => by simp at hf
  | g :: r, a, b, h, f, hf => by
    obtain ⟨h1, h2, h3⟩ := h
    rcases List.mem_cons.1 hf with rfl | hf
    · omega
    · have := chain_seq_ge h3 f hf
      omega

theorem chain_lt {Q : List AFrame} {a b : Int} (h : chain a Q b) (hne : Q ≠ []) : a < b := by
  cases Q with
  | nil => exact absurd rfl hne
  | cons f r =>
    obtain ⟨h1, h2, h3⟩ := h
    have := chain_le h3
    omega

theorem chain_nil {a b : Int} : chain a [] b ↔ a = b := Iff.rfl

theorem chain_cons {a b : Int} {f : AFrame} {r : List AFrame} :
    chain a (f :: r) b ↔ f.seq = a ∧ f.seq < f.next ∧ chain f.next r b := Iff.rfl

/-! ### dropWhile -/

theorem dropWhile_nil_iff {α} (p : α → Bool) (l : List α) : l.dropWhile p = [] ↔ ∀ x ∈ l, p x = true := by
  induction l with
  | nil => simp
  | cons x r ih =>
    by_cases hx : p x = true
    · simp [hx, ih]
    · simp [hx]

theorem dropWhile_append_of_nil {α} (p : α → Bool) (l r : List α) (h : l.dropWhile p = []) :
    (l ++ r).dropWhile p = r.dropWhile p := by
  induction l with
  | nil => rfl
  | cons x t ih =>
    by_cases hx : p x = true
    · simp [hx] at h ⊢
      exact ih h
    · simp [hx] at h

theorem dropWhile_append_of_ne_nil {α} (p : α → Bool) (l r : List α) (h : l.dropWhile p ≠ []) :
    (l ++ r).dropWhile p = l.dropWhile p ++ r := by
  induction l with
  | nil => simp at h
  | cons x t ih =>
    by_cases hx : p x = true
    · simp [hx] at h ⊢
      exact ih h
    · simp [hx]

/-- the junk prefix of a chain that starts at `e` is empty -/
theorem dropWhile_chain {Q : List AFrame} {e b : Int} (h : chain e Q b) :
    Q.dropWhile (fun f => e < f.seq) = Q := by
  cases Q with
  | nil => rfl
  | cons f r =>
    obtain ⟨h1, _, _⟩ := h
    simp [h1]

/-- a chain that starts above `e` is junk as a whole -/
theorem dropWhile_chain_above {Q : List AFrame} {e a b : Int} (h : chain a Q b) (ha : e < a) :
    Q.dropWhile (fun f => e < f.seq) = [] := by
  rw [dropWhile_nil_iff]
  intro f hf
  have := chain_seq_ge h f hf
  simp; omega

/-! ### frame kinds -/

/-- neither Logon nor Logout -/
def clean (f : AFrame) : Prop := f.kind ≠ .logon ∧ f.kind ≠ .logout

/-- a gap fill or an application frame (what `serve` writes) -/
def isData (f : AFrame) : Prop :=
  match f.kind with
  | .gapFill _ => True
  | .app _ _ => True
  | _ => False

theorem isData.clean {f : AFrame} (h : isData f) : clean f := by
  unfold isData at h; unfold Link.clean
  cases hk : f.kind <;> simp_all

theorem isData.resendB {f : AFrame} (h : isData f) : resendB f = none := by
  unfold isData at h; unfold Link.resendB
  cases hk : f.kind <;> simp_all

theorem requests_append (q r : List AFrame) : requests (q ++ r) = requests q ++ requests r := by
  simp [requests, List.filterMap_append]

theorem requests_cons (f : AFrame) (r : List AFrame) :
    requests (f :: r) = (match resendB f with | some b => b :: requests r | none => requests r) := by
  simp only [requests, List.filterMap_cons]
  cases resendB f <;> rfl

theorem requests_data {q : List AFrame} (h : ∀ f ∈ q, isData f) : requests q = [] := by
  induction q with
  | nil => rfl
  | cons f r ih =>
    rw [requests_cons, (h f (by simp)).resendB]
    exact ih fun g hg => h g (by simp [hg])

theorem all_not_logon {q : List AFrame} : q.all (fun g => !isLogon g) = true ↔ ∀ f ∈ q, f.kind ≠ .logon := by
  simp [isLogon]

theorem all_not_logout {q : List AFrame} : q.all (fun g => !isLogout g) = true ↔ ∀ f ∈ q, f.kind ≠ .logout := by
  simp [isLogout]

/-! ### `serve` -/

/-- the fields of an endpoint that `serve` does not touch -/
def AConn.same (c d : AConn) : Prop := d.st = c.st ∧ d.e = c.e ∧ d.o = c.o ∧ d.w = c.w ∧ d.ini = c.ini

theorem AConn.same.rfl' (c : AConn) : c.same c := ⟨rfl, rfl, rfl, rfl, rfl⟩

theorem resendRows_spec (o : Int) : ∀ (rows : AJournal) (gfb : Int) (c : AConn) (acc : List AFrame) (a : Int),
    rows.Pairwise (fun x y => x.1 < y.1) → (∀ r ∈ rows, gfb ≤ r.1 ∧ r.1 < o) → gfb ≤ o →
    chain a acc gfb → (∀ f ∈ acc, isData f) →
    chain a (resendRows rows gfb c acc).2.1 (resendRows rows gfb c acc).2.2 ∧
    (resendRows rows gfb c acc).2.2 ≤ o ∧ (∀ f ∈ (resendRows rows gfb c acc).2.1, isData f) ∧
    c.same (resendRows rows gfb c acc).1
  | [], gfb, c, acc, a, _, _, ho, hc, hd => by
    simp only [resendRows]
    exact ⟨hc, ho, hd, AConn.same.rfl' c⟩
  | (_, none) :: rest, gfb, c, acc, a, hp, hr, ho, hc, hd => by
    simp only [resendRows]
    exact resendRows_spec o rest gfb c acc a (List.pairwise_cons.1 hp).2
      (fun r h => hr r (List.mem_cons_of_mem _ h)) ho hc hd
  | (k, some p) :: rest, gfb, c, acc, a, hp, hr, ho, hc, hd => by
    have hk := hr (k, some p) (by simp)
    simp only at hk
    have hrest : ∀ r ∈ rest, k + 1 ≤ r.1 ∧ r.1 < o := fun r h => by
      have h1 := (List.pairwise_cons.1 hp).1 r h
      have h2 := hr r (List.mem_cons_of_mem _ h)
      simp only at h1
      omega
    simp only [resendRows]
    by_cases hg : gfb < k
    · simp only [hg, if_true, AConn.pushAt]
      have hc1 : chain a (acc ++ [⟨gfb, .gapFill k⟩] ++ [⟨k, .app p true⟩]) (k + 1) := by
        refine chain_append (chain_append hc ?_) ?_ (b := k)
        · exact ⟨rfl, by simpa [AFrame.next] using hg, rfl⟩
        · exact ⟨rfl, by simp [AFrame.next]; omega, rfl⟩
      have hd1 : ∀ f ∈ acc ++ [⟨gfb, .gapFill k⟩] ++ [⟨k, .app p true⟩], isData f := by
        intro f hf
        simp only [List.mem_append, List.mem_singleton] at hf
        rcases hf with (hf | rfl) | rfl
        · exact hd f hf
        · trivial
        · trivial
      have := resendRows_spec o rest (k + 1)
        { c with out := c.out ++ [(gfb, (AKind.gapFill k).entry)] ++ [(k, (AKind.app p true).entry)] }
        _ a (List.pairwise_cons.1 hp).2 hrest (by omega) hc1 hd1
      simpa [AConn.same] using this
    · have hgk : gfb = k := by omega
      subst hgk
      simp only [hg, if_false, AConn.pushAt]
      have hc1 : chain a (acc ++ [⟨gfb, .app p true⟩]) (gfb + 1) :=
        chain_append hc ⟨rfl, by simp [AFrame.next]; omega, rfl⟩
      have hd1 : ∀ f ∈ acc ++ [⟨gfb, .app p true⟩], isData f := by
        intro f hf
        simp only [List.mem_append, List.mem_singleton] at hf
        rcases hf with hf | rfl
        · exact hd f hf
        · trivial
      have := resendRows_spec o rest (gfb + 1)
        { c with out := c.out ++ [(gfb, (AKind.app p true).entry)] }
        _ a (List.pairwise_cons.1 hp).2 hrest (by omega) hc1 hd1
      simpa [AConn.same] using this

/-- the reply to `ResendRequest(b, 0)`, `1 ≤ b < o`: a chain `b … o` of gap fills and retransmissions -/
theorem serve_spec (c : AConn) (b : Int) (hb1 : 1 ≤ b) (hbo : b < c.o) (hk : keysOK c.o c.out)
    (hmax : c.o ≤ sysMaxsize + 1) :
    chain b (c.serve b).2 c.o ∧ (∀ f ∈ (c.serve b).2, isData f) ∧ c.same (c.serve b).1 := by
  have hm : min (sysMaxsize + 1) c.o = c.o := Int.min_eq_right hmax
  have hcond : (b < 1 || b ≥ c.o) = false := by simp; omega
  obtain ⟨hpw, hrng⟩ := hk
  have hspec := resendRows_spec c.o (c.out.filter fun r => b ≤ r.1 && r.1 ≤ sysMaxsize) b
    { c with out := c.out.filter fun r => r.1 < b } [] b (hpw.filter _)
    (by
      intro r hr
      simp only [List.mem_filter, Bool.and_eq_true, decide_eq_true_eq] at hr
      exact ⟨hr.2.1, (hrng r hr.1).2⟩)
    (by omega) rfl (by simp)
  unfold AConn.serve
  simp only [hcond, Bool.false_eq_true, if_false, hm]
  obtain ⟨h1, h2, h3, h4⟩ := hspec
  split
  · rename_i hlt
    simp only [AConn.pushAt]
    refine ⟨chain_append h1 ⟨rfl, by simpa [AFrame.next] using hlt, rfl⟩, ?_, ?_⟩
    · intro f hf
      simp only [List.mem_append, List.mem_singleton] at hf
      rcases hf with hf | rfl
      · exact h3 f hf
      · trivial
    · simpa [AConn.same] using h4
  · rename_i hge
    have : (resendRows (c.out.filter fun r => b ≤ r.1 && r.1 ≤ sysMaxsize) b
      { c with out := c.out.filter fun r => r.1 < b } []).2.2 = c.o := Int.le_antisymm h2 (Int.not_lt.1 hge)
    rw [this] at h1
    exact ⟨h1, h3, h4⟩

end AsyncFix.Link
