import AsyncFix.Lemmas.SessionOutResendD

/-!
C05, resend servicing, part D2: the servicing proper (`resendCore`) computed – rewind, loop over the
requested rows, rows above EndSeqNo put back, gap fill up to `min(EndSeqNo + 1, counter)` inserted
between them, counter restored (`resendCore_run`).
-/
namespace AsyncFix.Session

open AsyncFix.Generated AsyncFix.Generated.ConnEnum

/-- from the description of the final rows `J' ∪ G ∪ hi` to `ResendOut` -/
theorem resendOut_of (env : Env) (sr : Msg → Bool) (c c' : Conn) (b e : Int) (es : List Effect)
    (hI : OutInv c) (J' G lo hi : Rows) (gfb' gfe' : Int) (es1 : List Effect)
    (hlo : ∀ p, p ∈ lo ↔ p ∈ c.journal.out ∧ b ≤ p.1 ∧ p.1 ≤ sysMaxsize ∧ p.1 ≤ e)
    (hhi : ∀ p, p ∈ hi ↔ p ∈ c.journal.out ∧ b ≤ p.1 ∧ p.1 ≤ sysMaxsize ∧ e < p.1)
    (hout : LoopOut env sr (rewind c b) lo b e c.sess.nextOut J' gfb' gfe' es1)
    (hsorted : Rows.Sorted c'.journal.out)
    (hmem : ∀ p, p ∈ c'.journal.out ↔ p ∈ J' ∨ p ∈ G ∨ p ∈ hi)
    (hG : ∀ p ∈ G, p.2.mtype = mSequenceReset ∧ RowOk p.2 p.1 ∧ b ≤ p.1 ∧ p.1 ≤ e ∧ p.1 < c.sess.nextOut)
    (f1 : c'.sess.nextOut = c.sess.nextOut) (f2 : c'.sess.sender = c.sess.sender)
    (f3 : c'.sess.target = c.sess.target) (f5 : c'.journal.outSeq = c.sess.nextOut - 1)
    (f6 : c'.sock = c.sock) (f7 : st_DISCONNECTED_BROKEN_CONN < c'.state) (hn : newWrites es = []) :
    ResendOut env sr c c' b e es := by
  have hJ'below : ∀ k g, k < b → ((k, g) ∈ J' ↔ (k, g) ∈ c.journal.out) := by
    intro k g hk
    rw [Rows.mem_iff_find hout.sorted, hout.below k hk, Rows.mem_iff_find hI.sorted]
    show Rows.find k (Rows.below b c.journal.out) = some g ↔ _
    rw [Rows.find_below _ _ _ hI.sorted, if_pos hk]
  have hJ'ge : ∀ p ∈ J', b ≤ p.1 → p.1 ≤ e := by
    intro p hp hbp
    have h1 := hout.allLt p hp
    rcases hout.leE with h | h <;> omega
  refine ⟨f1, f2, f3, f5, f6, f7, hn, hsorted, ?_, ?_, ?_, ?_, ?_⟩
  · intro p hp
    rcases (hmem p).mp hp with h | h | h
    · exact ⟨hout.rowOk p h, by have := hout.allLt p h; have := hout.leCur; omega⟩
    · exact ⟨(hG p h).2.1, (hG p h).2.2.2.2⟩
    · exact hI.rows p ((hhi p).mp h).1
  · intro k g hk
    rw [hmem]
    constructor
    · rintro (h | h | h)
      · exact (hJ'below k g hk).mp h
      · have := (hG _ h).2.2.1; simp only at this; omega
      · have := ((hhi _).mp h).2.1; simp only at this; omega
    · intro h; exact Or.inl ((hJ'below k g hk).mpr h)
  · intro k g' hk hm
    rcases (hmem _).mp hm with h | h | h
    · left
      refine ⟨hJ'ge _ h hk, ?_⟩
      rcases hout.above k g' hk ((Rows.mem_iff_find hout.sorted).mp h) with h4 | ⟨g, rp, hm2, h1, h2, h3⟩
      · exact Or.inl h4
      · exact Or.inr ⟨g, rp, ((hlo _).mp hm2).1, h1, h2, h3⟩
    · left; exact ⟨(hG _ h).2.2.2.1, Or.inl (hG _ h).1⟩
    · right; exact ⟨((hhi _).mp h).2.2.2, ((hhi _).mp h).1⟩
  · intro p hp hbp hpe hmx hrep
    obtain ⟨rp, h1, h2⟩ := hout.copies p ((hlo p).mpr ⟨hp, hbp, hmx, hpe⟩) hrep
    exact ⟨rp, h1, (hmem _).mpr (Or.inl (Rows.find_mem h2))⟩
  · intro p hp hbp hpe hmx
    exact (hmem p).mpr (Or.inr (Or.inr ((hhi p).mpr ⟨hp, hbp, hmx, hpe⟩)))

theorem resendCore_run (env : Env) (sr : Msg → Bool) (c : Conn) (b e : Int) (hI : OutInv c)
    (hst : st_LOGON_INITIAL_SENT < c.state) (hstamp : isLatin1 env.stamp = true)
    (hb : 1 ≤ b) (hbc : b < c.sess.nextOut) :
    ∃ c' es, resendCore env sr b e (c.journal.recoverOut b sysMaxsize) c.sess.nextOut c
        = ⟨.ok (), c', es⟩ ∧ ResendOut env sr c c' b e es := by
  have hlive : st_DISCONNECTED_BROKEN_CONN < c.state :=
    Nat.lt_trans (by decide : st_DISCONNECTED_BROKEN_CONN < st_LOGON_INITIAL_SENT) hst
  have hsock := hI.sock hlive
  have hc1 : ResendCtx env (rewind c b) := ⟨hst, hsock, hI.latin.1, hI.latin.2, hstamp⟩
  -- the recovered rows, split at EndSeqNo
  have hrsS := Rows.sorted_range b sysMaxsize _ hI.sorted
  have hsplit := Rows.split_le e _ hrsS
  generalize hlo : (Rows.range b sysMaxsize c.journal.out).filter (fun p => decide (p.1 ≤ e)) = lo at hsplit
  generalize hhi : (Rows.range b sysMaxsize c.journal.out).filter (fun p => decide (e < p.1)) = hi at hsplit
  have hloS : Rows.Sorted lo := by rw [← hlo]; exact List.Pairwise.filter _ hrsS
  have hhiS : Rows.Sorted hi := by rw [← hhi]; exact List.Pairwise.filter _ hrsS
  have hlom : ∀ p ∈ lo, RowOk p.2 p.1 ∧ b ≤ p.1 ∧ p.1 < c.sess.nextOut ∧ p.1 ≤ e := by
    intro p hp
    rw [← hlo] at hp
    obtain ⟨hr, he⟩ := List.mem_filter.mp hp
    obtain ⟨hm, h1, _⟩ := Rows.mem_range.mp hr
    exact ⟨(hI.rows p hm).1, h1, (hI.rows p hm).2, by simpa using he⟩
  have hhim : ∀ p ∈ hi, RowOk p.2 p.1 ∧ e < p.1 ∧ b ≤ p.1 ∧ p.1 < c.sess.nextOut := by
    intro p hp
    rw [← hhi] at hp
    obtain ⟨hr, he⟩ := List.mem_filter.mp hp
    obtain ⟨hm, h1, _⟩ := Rows.mem_range.mp hr
    exact ⟨(hI.rows p hm).1, by simpa using he, h1, (hI.rows p hm).2⟩
  have hrows : c.journal.recoverOut b sysMaxsize = lo.map (·.2) ++ hi.map (·.2) := by
    unfold Journal.recoverOut; rw [hsplit, List.map_append]
  -- phase 1: the requested rows
  obtain ⟨J', o', gfb', gfe', es1, heq, hout⟩ :=
    resendLoop_spec env sr e c.sess.nextOut (hi.map (·.2)) lo (rewind c b) b b hc1
      (Rows.sorted_below b _ hI.sorted) (Rows.allLt_below b _)
      (fun p hp => (hI.rows p (Rows.mem_below.mp hp).1).1) hloS hlom (by omega) (by omega)
  have hc2 : ResendCtx env (setOut (rewind c b) J' o') := hc1.setOut _ _
  -- phase 2: rows above EndSeqNo go back
  have hJhi : ∀ a ∈ J', ∀ p ∈ hi, a.1 < p.1 := by
    intro a ha p hp
    have h1 := hout.allLt a ha
    have h2 := hhim p hp
    rcases hout.leE with h | h <;> omega
  have hS2 : Rows.Sorted (J' ++ hi) := by
    unfold Rows.Sorted
    rw [List.pairwise_append]
    exact ⟨hout.sorted, hhiS, hJhi⟩
  obtain ⟨o2, heq2'⟩ := resendLoop_high env sr e hi (setOut (rewind c b) J' o') gfb' gfe' hS2
    (fun p hp => ⟨(hhim p hp).1, (hhim p hp).2.1⟩)
  have heq2 : resendLoop env sr e (hi.map (·.2)) gfb' gfe' (setOut (rewind c b) J' o') =
      ⟨.ok (gfb', gfe'), setOut (setOut (rewind c b) J' o') (J' ++ hi) o2, []⟩ := heq2'
  have hge : decide (gfe' ≤ c.sess.nextOut) = true := by simpa using hout.gfeCur
  have hcur : (0 : Int) < c.sess.nextOut := by omega
  unfold resendCore
  rw [hrows, run_bind_of_ok (setSeqNum_out_eq b c (by omega)), Out.pre_nil, run_bind, heq, heq2]
  simp only [Out.pre_mk, List.append_nil]
  rw [hge, run_bind_of_ok (run_assert_true _), Out.pre_nil]
  -- the rest is expressed through the description of the final rows
  have hlo' : ∀ p, p ∈ lo ↔ p ∈ c.journal.out ∧ b ≤ p.1 ∧ p.1 ≤ sysMaxsize ∧ p.1 ≤ e := by
    intro p; rw [← hlo]; simp [List.mem_filter, Rows.mem_range, and_assoc]
  have hhi' : ∀ p, p ∈ hi ↔ p ∈ c.journal.out ∧ b ≤ p.1 ∧ p.1 ≤ sysMaxsize ∧ e < p.1 := by
    intro p; rw [← hhi]; simp [List.mem_filter, Rows.mem_range, and_assoc]
  by_cases hg : gfb' < min (e + 1) c.sess.nextOut
  · have hins := Rows.insert_mid gfb'
      (buildFrame c.sess env.stamp (gapFillMsg gfb' (min (e + 1) c.sess.nextOut)) gfb') J' hi hout.allLt
      (fun p hp => by have := (hhim p hp).2.1; omega)
    rw [if_pos hg, run_bind_of_ok (sendMsg_gapFill' env (setOut (setOut (rewind c b) J' o') _ o2) gfb' _ _
      (hc2.setOut _ _) hins)]
    have hJ3 : Rows.AllLt c.sess.nextOut (J' ++ (gfb',
        buildFrame c.sess env.stamp (gapFillMsg gfb' (min (e + 1) c.sess.nextOut)) gfb') :: hi) := by
      intro p hp
      rcases List.mem_append.mp hp with hp | hp
      · have := hout.allLt p hp; have := hout.leCur; omega
      · rcases List.mem_cons.mp hp with hp | hp
        · subst hp; simp only; omega
        · exact (hhim p hp).2.2.2
    obtain ⟨c', es2, hfin, hn2, f1, f2, f3, f4, f5, f6, f7⟩ :=
      resend_finish c.sess.nextOut (setOut (setOut (setOut (rewind c b) J' o') (J' ++ hi) o2)
        (J' ++ (gfb', buildFrame c.sess env.stamp (gapFillMsg gfb' (min (e + 1) c.sess.nextOut)) gfb') :: hi)
        gfb') hcur hJ3 hlive
    replace f4 : c'.journal.out = J' ++ (gfb',
      buildFrame c.sess env.stamp (gapFillMsg gfb' (min (e + 1) c.sess.nextOut)) gfb') :: hi := f4
    refine ⟨c', _, congrArg (fun o => Out.pre es1 (Out.pre _ o)) hfin, ?_⟩
    refine resendOut_of env sr c c' b e _ hI J'
      [(gfb', buildFrame c.sess env.stamp (gapFillMsg gfb' (min (e + 1) c.sess.nextOut)) gfb')] lo hi
      gfb' gfe' es1 hlo' hhi' hout ?_ ?_ ?_ f1 f2 f3 f5 f6 f7 ?_
    · rw [f4]
      unfold Rows.Sorted
      rw [List.pairwise_append]
      refine ⟨hout.sorted, List.pairwise_cons.mpr ⟨fun p hp => by have := (hhim p hp).2.1; simp only; omega, hhiS⟩, ?_⟩
      intro a ha p hp
      rcases List.mem_cons.mp hp with hp | hp
      · subst hp; exact hout.allLt a ha
      · exact hJhi a ha p hp
    · intro p; rw [f4]; simp [List.mem_append, List.mem_cons]
    · intro p hp
      simp only [List.mem_singleton] at hp
      subst hp
      exact ⟨rfl, rowOk_gapFill hc2 _ _, hout.le, by simp only; omega, by simp only; omega⟩
    · have : ∀ s : Session, isNew (buildFrame s env.stamp (gapFillMsg gfb' (min (e + 1) c.sess.nextOut)) gfb') = false := by
        intro s; rw [buildFrame_isNew]; rfl
      simp [newWrites_append, hout.noNew, hn2, newWrites, this]
  · rw [if_neg hg]
    have hJ3 : Rows.AllLt c.sess.nextOut (J' ++ hi) := by
      intro p hp
      rcases List.mem_append.mp hp with hp | hp
      · have := hout.allLt p hp; have := hout.leCur; omega
      · exact (hhim p hp).2.2.2
    obtain ⟨c', es2, hfin, hn2, f1, f2, f3, f4, f5, f6, f7⟩ :=
      resend_finish c.sess.nextOut (setOut (setOut (rewind c b) J' o') (J' ++ hi) o2) hcur hJ3 hlive
    replace f4 : c'.journal.out = J' ++ hi := f4
    refine ⟨c', _, congrArg (fun o => Out.pre es1 o) hfin, ?_⟩
    refine resendOut_of env sr c c' b e _ hI J' [] lo hi gfb' gfe' es1 hlo' hhi' hout ?_ ?_ ?_ f1 f2 f3 f5 f6 f7 ?_
    · rw [f4]; exact hS2
    · intro p; rw [f4]; simp [List.mem_append]
    · intro p hp; cases hp
    · simp [newWrites_append, hout.noNew, hn2]

end AsyncFix.Session
