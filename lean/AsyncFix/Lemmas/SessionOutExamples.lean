import AsyncFix.Lemmas.SessionOutRunHist

/-!
C05: concrete states and a concrete history used by the non-vacuity `example`s of Props/C05 and by
Findings/C05; the refusal predicate `sendRefused`; `recover_messages(n, n)` on an ascending journal.
-/
namespace AsyncFix.Props.C05

open AsyncFix.Session AsyncFix.Generated AsyncFix.Generated.ConnEnum

/-- every way `send_msg` refuses because of the connection state (FIXConnectionError) -/
def sendRefused (c : Conn) (m : Msg) : Bool :=
  gateRefuses c m || (m.mtype == mTestRequest && c.testReqId.isNone)

theorem afterGate_of_testreq {c : Conn} {m : Msg} (hg : gateRefuses c m = false)
    (ht : (m.mtype == mTestRequest) = true) : afterGate c = c ∧ gateEff c = [] := by
  have h6 : (c.state == st_NETWORK_CONN_ESTABLISHED) = false := by
    cases h : c.state == st_NETWORK_CONN_ESTABLISHED with
    | false => rfl
    | true =>
      have hm : m.mtype = mTestRequest := by simpa using ht
      simp [gateRefuses, h, hm, mTestRequest, mLogon, mLogout] at hg
  simp [afterGate, gateEff, h6]


theorem recoverOut_single (j : Journal) (hs : Rows.Sorted j.out) (n : Int) (f : Msg)
    (h : Rows.find n j.out = some f) : j.recoverOut n n = [f] := by
  unfold Journal.recoverOut Rows.range
  have hm := Rows.find_mem h
  have : ∀ (rs : Rows), Rows.Sorted rs → (n, f) ∈ rs →
      (rs.filter fun p => decide (n ≤ p.1) && decide (p.1 ≤ n)) = [(n, f)] := by
    intro rs
    induction rs with
    | nil => intro _ hm; cases hm
    | cons p r ih =>
      intro hs hm
      have hs' := List.pairwise_cons.mp hs
      rcases List.mem_cons.mp hm with e | hr
      · subst e
        have : (r.filter fun p => decide (n ≤ p.1) && decide (p.1 ≤ n)) = [] := by
          rw [List.filter_eq_nil_iff]
          intro q hq
          have := hs'.1 q hq
          simp only [Bool.and_eq_true, decide_eq_true_eq, not_and]
          intro _; simp only at this; omega
        simp [List.filter, this]
      · have hlt := hs'.1 (n, f) hr
        have : (decide (n ≤ p.1) && decide (p.1 ≤ n)) = false := by
          simp only [Bool.and_eq_false_iff, decide_eq_false_iff_not]
          simp only at hlt; left; omega
        simp only [List.filter, this]
        exact ih hs'.2 hr
  rw [this j.out hs hm]; rfl


def j0 : Journal := { outSeq := 41, inSeq := 6 }

def c0 : Conn := Conn.create "INIT" "ACPT" j0 30 roleInitiator

def c1 : Conn := (connected c0 .initiator).1

def env0 : Env := { now := 1700000000000, stamp := "20240102-00:00:00.000" }

def logon : Msg := Msg.mk' mLogon [(tEncryptMethod, "0"), (tHeartBtInt, "30")]

def order (t : String) : Msg := Msg.mk' "D" [(11, "c1"), (58, t)]

theorem c0_inv : OutInv c0 :=
  ⟨rfl, fun p hp => by simp [c0, Conn.create, j0] at hp, by simp [c0, Conn.create, j0, Rows.Sorted], by decide,
    fun h => absurd (show st_DISCONNECTED_BROKEN_CONN < st_DISCONNECTED_NOCONN_TODAY from h) (by decide)⟩

theorem c1_inv : OutInv c1 := step_inv (fun _ => true) c0 (.connected .initiator) c0_inv trivial

theorem logon_latin : frameLatin1 (buildFrame c1.sess env0.stamp logon c1.sess.nextOut) = true :=
  frameLatin1_build _ _ _ _ (by decide) (by decide) (by decide) ⟨by decide, by decide⟩

/-- `encoding_refusal` applies: a Logon with a non-single-byte field from NETWORK_CONN_ESTABLISHED; the
state HAS moved to LOGON_INITIAL_SENT although nothing was sent -/
def badLogon : Msg := Msg.mk' mLogon [(tEncryptMethod, "0"), (tHeartBtInt, "30"), (553, "€")]

def peer (mtype : String) (seq : Int) (body : List (Nat × String)) : Msg :=
  Msg.ofFields ([(8, "FIX.4.4"), (9, "0"), (35, mtype), (49, "ACPT"), (56, "INIT"), (34, toString seq),
    (52, "20240102-00:00:01.000")] ++ body ++ [(10, "000")])

def hist : List Event := [
  .connected .initiator,
  .appSend env0 logon,
  .recv env0 (peer "A" 7 [(98, "0"), (108, "30")]),
  .appSend env0 (order "one"),
  .appSend env0 (order "two"),
  .recv env0 (peer "2" 8 [(7, "42"), (16, "0")]),
  .recv env0 (peer "1" 9 [(112, "T")]),
  .tick env0,
  .appSend env0 (order "€") ]

theorem hist_ok : ∀ ev ∈ hist, ev.ok ∧ isReset ev = false := by
  intro ev hev
  simp only [hist, List.mem_cons, List.mem_nil_iff, or_false] at hev
  rcases hev with rfl | rfl | rfl | rfl | rfl | rfl | rfl | rfl | rfl <;> exact ⟨by first | trivial | decide | rfl, rfl⟩

theorem hist_max : (run (fun _ => true) c0 hist).1.sess.nextOut ≤ sysMaxsize + 1 := by decide +kernel

theorem hist_unbounded : ∀ ev ∈ hist, boundedResend ev = false := by decide

theorem hist5_noResend : ∀ ev ∈ hist.take 5, isResendReq ev = false := by decide

end AsyncFix.Props.C05
