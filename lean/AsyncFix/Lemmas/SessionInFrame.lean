import AsyncFix.Lemmas.SessionInWp

/-!
C04 helper: frame facts.  `Quiet` – a computation neither moves the expected inbound number nor calls
`on_message`.  Everything except `_process_seqreset`, `set_next_num_in`, the application branch of the
dispatch and `reset_seq_num` is `Quiet`, by structure.
-/
namespace AsyncFix.Session
open AsyncFix.Generated AsyncFix.Generated.ConnEnum

/-- the messages handed to `on_message`, in order -/
def deliveries : List Effect → List Msg
  | [] => []
  | .deliver m :: r => m :: deliveries r
  | _ :: r => deliveries r

@[simp] theorem deliveries_nil : deliveries [] = [] := rfl

@[simp] theorem deliveries_append (a b : List Effect) : deliveries (a ++ b) = deliveries a ++ deliveries b := by
  induction a with
  | nil => rfl
  | cons x r ih => cases x <;> simp [deliveries, ih]

theorem mem_deliveries {m : Msg} {e : List Effect} : m ∈ deliveries e ↔ Effect.deliver m ∈ e := by
  induction e with
  | nil => simp
  | cons x r ih => cases x <;> simp [deliveries, ih]

/-- expected inbound number unchanged, nothing delivered -/
def Quiet : StepRel where
  R c c' e := c'.sess.nextIn = c.sess.nextIn ∧ deliveries e = []
  refl c := ⟨rfl, rfl⟩
  trans := by
    intro a b c e1 e2 h1 h2
    exact ⟨h2.1.trans h1.1, by simp [h1.2, h2.2]⟩

/-- the side conditions left by `sat_step` for `Quiet` -/
macro "quiet_side" : tactic => `(tactic| all_goals (simp [Quiet, deliveries]))

theorem stateSet_quiet (s : Nat) : Sat Quiet (stateSet s) := by
  unfold stateSet
  repeat' sat_step
  quiet_side

theorem encodeSeq_quiet (m : Msg) : Sat Quiet (encodeSeq m) := by
  unfold encodeSeq
  repeat' sat_step
  quiet_side

theorem sendGate_quiet (m : Msg) : Sat Quiet (sendGate m) := by
  unfold sendGate
  repeat' (first | with_reducible exact stateSet_quiet _ | sat_step)
  quiet_side

theorem sendCore_quiet (env : Env) (m : Msg) : Sat Quiet (sendCore env m) := by
  unfold sendCore
  repeat' (first | with_reducible exact encodeSeq_quiet _ | sat_step | split)
  quiet_side

theorem sendMsg_quiet (env : Env) (m : Msg) : Sat Quiet (sendMsg env m) := by
  unfold sendMsg
  exact Sat.bind (sendGate_quiet m) fun _ => sendCore_quiet env m

theorem sendTestReq_quiet (env : Env) : Sat Quiet (sendTestReq env) := by
  unfold sendTestReq
  repeat' (first | with_reducible exact sendMsg_quiet _ _ | sat_step)
  quiet_side

theorem disconnect_quiet (env : Env) (d : Nat) (l : Option String) : Sat Quiet (disconnect env d l) := by
  unfold disconnect swallow
  repeat' (first | with_reducible exact sendMsg_quiet _ _ | with_reducible exact stateSet_quiet _ | sat_step | split)
  quiet_side

theorem validateIntegrity_quiet (m : Msg) : Sat Quiet (validateIntegrity m) := by
  unfold validateIntegrity
  repeat' (first | sat_step | split)

theorem setSeqNum_out_quiet (o : Option Int) : Sat Quiet (setSeqNum o none) := by
  cases o <;> (unfold setSeqNum; dsimp only; repeat' sat_step)
  quiet_side

theorem processLogon_quiet (env : Env) (m : Msg) : Sat Quiet (processLogon env m) := by
  unfold processLogon
  repeat' (first | with_reducible exact sendMsg_quiet _ _ | with_reducible exact stateSet_quiet _ | with_reducible exact disconnect_quiet _ _ _ | sat_step)
  quiet_side

theorem checkSeqnumGaps_quiet (env : Env) (n : Int) : Sat Quiet (checkSeqnumGaps env n) := by
  unfold checkSeqnumGaps
  repeat' (first | with_reducible exact sendMsg_quiet _ _ | with_reducible exact stateSet_quiet _ | sat_step)
  quiet_side

theorem processLogout_quiet (env : Env) (m : Msg) : Sat Quiet (processLogout env m) := by
  unfold processLogout
  repeat' (first | with_reducible exact disconnect_quiet _ _ _ | sat_step)
  quiet_side

theorem processTestRequest_quiet (env : Env) (m : Msg) : Sat Quiet (processTestRequest env m) := by
  unfold processTestRequest
  repeat' (first | with_reducible exact sendMsg_quiet _ _ | sat_step)

theorem processHeartbeat_quiet (env : Env) (m : Msg) : Sat Quiet (processHeartbeat env m) := by
  unfold processHeartbeat
  repeat' (first | with_reducible exact disconnect_quiet _ _ _ | sat_step | split)
  quiet_side

theorem persistOutboundRow_quiet (n : Int) (row : Msg) : Sat Quiet (persistOutboundRow n row) := by
  unfold persistOutboundRow
  repeat' (first | sat_step | split)
  quiet_side

theorem resendLoop_quiet (env : Env) (sr : Msg → Bool) (endNo : Int) (rows : List Msg) (gfb gfe : Int) :
    Sat Quiet (resendLoop env sr endNo rows gfb gfe) := by
  induction rows generalizing gfb gfe with
  | nil => unfold resendLoop; exact Sat.pure _
  | cons row rest ih =>
    unfold resendLoop
    repeat' (first | with_reducible exact ih _ _ | with_reducible exact sendMsg_quiet _ _ | with_reducible exact persistOutboundRow_quiet _ _ | sat_step)

theorem processResend_quiet (env : Env) (sr : Msg → Bool) (m : Msg) : Sat Quiet (processResend env sr m) := by
  unfold processResend
  repeat' (first | with_reducible exact resendLoop_quiet _ _ _ _ _ _ | with_reducible exact sendMsg_quiet _ _ | with_reducible exact stateSet_quiet _ | with_reducible exact setSeqNum_out_quiet _ | sat_step | dsimp only | split)

theorem tickBody_quiet (env : Env) : Sat Quiet (tickBody env) := by
  unfold tickBody
  repeat' (first | with_reducible exact sendTestReq_quiet _ | with_reducible exact disconnect_quiet _ _ _ | sat_step)
  quiet_side

theorem connectedM_quiet (k : ConnKind) : Sat Quiet (connectedM k) := by
  cases k <;> unfold connectedM <;> repeat' sat_step
  quiet_side

/-- what `Quiet` means for a top-level entry point -/
theorem Sat.run_quiet {α} {x : M α} (h : Sat Quiet x) (c : Conn) :
    (x.run c).1.sess.nextIn = c.sess.nextIn ∧ deliveries (x.run c).2 = [] := by
  rw [run_eq]
  have := h.out c
  refine ⟨this.1, ?_⟩
  simp only [deliveries_append, this.2, List.nil_append]
  cases (x c).res <;> rfl

end AsyncFix.Session
