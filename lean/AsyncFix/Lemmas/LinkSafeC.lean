import AsyncFix.Lemmas.LinkSafeB

/-!
Link family, safety invariant, part C: `arecv` is a `RecvStep` for the direction the endpoint receives on and a
`SendStep` for the direction it sends on (`arecv_ok`).
-/
namespace AsyncFix.Link

open AsyncFix.Session

/-- what one entry point does to the endpoint, seen from both directions -/
structure RecvOK (c : AConn) (f : AFrame) (r : ARes) : Prop where
  recv : RecvStep c.e f r.c.e r.dl
  mono : c.o ≤ r.c.o
  send : keysOK c.o c.out → 1 ≤ c.o → r.c.o ≤ sysMaxsize + 1 → SendStep c.o c.out r.c.o r.c.out r.wr []

theorem advance_e (c : AConn) (e' : Int) : (c.advance e').e = e' := by
  unfold AConn.advance; split <;> rfl

theorem advance_o (c : AConn) (e' : Int) : (c.advance e').o = c.o := by
  unfold AConn.advance; split <;> rfl

theorem advance_out (c : AConn) (e' : Int) : (c.advance e').out = c.out := by
  unfold AConn.advance; split <;> rfl

theorem push_send (c : AConn) (k : AKind) (hg : ∀ nw, k ≠ .gapFill nw) (hk : keysOK c.o c.out) (h1 : 1 ≤ c.o) :
    SendStep c.o c.out (c.push k).1.o (c.push k).1.out [(c.push k).2] (pushExt c.o k) :=
  sendStep_push hk h1 k hg

theorem askResend_send (c : AConn) (n : Int) (hk : keysOK c.o c.out) (h1 : 1 ≤ c.o) :
    SendStep c.o c.out (c.askResend n).1.o (c.askResend n).1.out [(c.askResend n).2] [] :=
  sendStep_push hk h1 (.resend c.e) (by intro nw h; cases h)

/-- the endpoint ignores the frame (as far as numbers and journal go) -/
theorem recvOK_same {c c' : AConn} {f : AFrame} (he : c'.e = c.e) (ho : c'.o = c.o) (hj : c'.out = c.out) :
    RecvOK c f { c := c' } :=
  ⟨Or.inl ⟨he, rfl⟩, by simp [ho], fun hk _ _ => by simpa [ho, hj] using SendStep.refl hk⟩

theorem recvOK_ask (c : AConn) (f : AFrame) (n : Int) :
    RecvOK c f { c := (c.askResend n).1, wr := [(c.askResend n).2] } :=
  ⟨Or.inl ⟨rfl, rfl⟩, by simp [AConn.askResend, AConn.push] <;> omega, fun hk h1 _ => askResend_send c n hk h1⟩

theorem recvOK_dropLogout (c : AConn) (f : AFrame) : RecvOK c f c.dropLogout := by
  refine ⟨Or.inl ⟨?_, ?_⟩, ?_, fun hk h1 _ => ?_⟩
  · simp only [AConn.dropLogout, AConn.push, AConn.drop]; split <;> rfl
  · rfl
  · simp only [AConn.dropLogout, AConn.push, AConn.drop]; split <;> (first | omega | (simp only []; omega))
  · have : c.dropLogout.c.o = c.o + 1 ∧ c.dropLogout.c.out = c.out ++ [(c.o, none)] ∧
        c.dropLogout.wr = [⟨c.o, .logout⟩] := by
      simp only [AConn.dropLogout, AConn.push, AConn.drop]; split <;> simp [AKind.entry]
    rw [this.1, this.2.1, this.2.2]
    exact sendStep_push hk h1 .logout (by intro nw h; cases h)

/-- the endpoint accepts the frame as number `e` without sending anything -/
theorem recvOK_accept {c c' : AConn} {f : AFrame} {dl} (hs : f.seq = c.e) (hlt : f.seq < f.next)
    (he : c'.e = f.next) (ho : c'.o = c.o) (hj : c'.out = c.out)
    (hd : dl = match f.kind with
      | .app p _ => [(f.seq, p)]
      | _ => []) : RecvOK c f { c := c', dl := dl } :=
  ⟨Or.inr ⟨hs, hlt, he, hd⟩, by simp [ho], fun hk _ _ => by simpa [ho, hj] using SendStep.refl hk⟩

theorem recvOK_resend {c X c' : AConn} {f : AFrame} {b : Int} {wr1 : List AFrame} (hkind : f.kind = .resend b)
    (hX : (X = c ∧ wr1 = []) ∨ (X = (c.askResend f.seq).1 ∧ wr1 = [(c.askResend f.seq).2]))
    (hc' : (f.seq = c.e ∧ c' = (X.serve b).1.advance (c.e + 1)) ∨ (f.seq ≠ c.e ∧ c' = (X.serve b).1)) :
    RecvOK c f { c := c', wr := wr1 ++ (X.serve b).2 } := by
  have hXe : X.e = c.e := by rcases hX with ⟨rfl, _⟩ | ⟨rfl, _⟩ <;> rfl
  have hXo : c.o ≤ X.o := by
    rcases hX with ⟨rfl, _⟩ | ⟨rfl, _⟩
    · exact Int.le_refl _
    · simp [AConn.askResend, AConn.push] <;> omega
  have hXs : keysOK c.o c.out → 1 ≤ c.o → SendStep c.o c.out X.o X.out wr1 [] := by
    intro hk h1
    rcases hX with ⟨rfl, rfl⟩ | ⟨rfl, rfl⟩
    · exact SendStep.refl hk
    · exact askResend_send c f.seq hk h1
  have hc'o : c'.o = X.o := by
    rcases hc' with ⟨_, rfl⟩ | ⟨_, rfl⟩
    · rw [advance_o, serve_o]
    · rw [serve_o]
  have hc'j : c'.out = (X.serve b).1.out := by
    rcases hc' with ⟨_, rfl⟩ | ⟨_, rfl⟩
    · rw [advance_out]
    · rfl
  refine ⟨?_, by simp only [hc'o]; exact hXo, fun hk h1 hmax => ?_⟩
  · rcases hc' with ⟨hs, rfl⟩ | ⟨_, rfl⟩
    · refine Or.inr ⟨hs, by simp [AFrame.next, hkind] <;> omega, ?_, by simp [hkind]⟩
      simp only [advance_e]
      simp [AFrame.next, hkind, hs]
    · exact Or.inl ⟨by simp only [serve_e]; exact hXe, rfl⟩
  · simp only [hc'o, hc'j] at hmax ⊢
    have S1 := hXs hk h1
    have S2 := sendStep_serve X b S1.keys hmax
    rw [serve_o] at S2
    simpa using S1.trans S2

theorem arecv_ok (c : AConn) (f : AFrame) : RecvOK c f (arecv c f) := by
  unfold arecv
  simp only []
  cases hkind : f.kind with
  | logon =>
    simp only []
    split
    · exact recvOK_dropLogout c f
    split
    · exact recvOK_same rfl rfl rfl
    split
    · exact recvOK_same rfl rfl rfl
    split
    · split
      · rename_i hs
        refine ⟨Or.inr ⟨hs, by simp [AFrame.next, hkind] <;> omega, by simp [AFrame.next, hkind, hs],
          by simp [hkind]⟩, by simp [AConn.push] <;> omega, fun hk h1 _ => ?_⟩
        exact push_send { c with ini := false } .logon (by intro nw h; cases h) hk h1
      · refine ⟨Or.inl ⟨rfl, rfl⟩, by simp [AConn.push, AConn.askResend]; omega, fun hk h1 _ => ?_⟩
        have S1 := push_send { c with ini := false } .logon (by intro nw h; cases h) hk h1
        have S2 := askResend_send ({ c with ini := false }.push .logon).1 f.seq S1.keys
          (by simp [AConn.push]; omega)
        exact S1.trans S2
    split
    · exact recvOK_same rfl rfl rfl
    split
    · rename_i hs
      exact recvOK_accept hs (by simp [AFrame.next, hkind] <;> omega) (by simp [AFrame.next, hkind, hs]) rfl rfl
        (by simp [hkind])
    · exact recvOK_ask c f f.seq
  | logout =>
    simp only []
    split
    · exact recvOK_dropLogout c f
    split
    · exact recvOK_same rfl rfl rfl
    split
    · exact recvOK_same rfl rfl rfl
    · exact recvOK_same rfl rfl rfl
  | gapFill nw =>
    simp only []
    split
    · exact recvOK_dropLogout c f
    split
    · exact recvOK_same rfl rfl rfl
    split
    · exact recvOK_same rfl rfl rfl
    split
    · rename_i h
      simp at h
      exact recvOK_accept h.1 (by simp [AFrame.next, hkind]; omega)
        (by simp [AFrame.next, hkind, advance_e]) (advance_o _ _) (advance_out _ _) (by simp [hkind])
    split
    · exact recvOK_ask c f f.seq
    · exact recvOK_same rfl rfl rfl
  | resend b =>
    simp only []
    split
    · exact recvOK_dropLogout c f
    split
    · exact recvOK_same rfl rfl rfl
    split
    · exact recvOK_same rfl rfl rfl
    · refine recvOK_resend hkind ?_ ?_
      · split
        · exact Or.inr ⟨rfl, rfl⟩
        · exact Or.inl ⟨rfl, rfl⟩
      · split
        · rename_i hs
          exact Or.inl ⟨hs, rfl⟩
        · rename_i hs
          exact Or.inr ⟨hs, rfl⟩
  | app p pd =>
    simp only []
    split
    · exact recvOK_dropLogout c f
    split
    · exact recvOK_same rfl rfl rfl
    split
    · exact recvOK_same rfl rfl rfl
    split
    · split
      · exact recvOK_ask c f f.seq
      · exact recvOK_same rfl rfl rfl
    split
    · rename_i hs
      exact recvOK_accept hs (by simp [AFrame.next, hkind] <;> omega)
        (by simp [AFrame.next, hkind, advance_e, hs]) (advance_o _ _) (advance_out _ _) (by simp [hkind])
    · exact recvOK_same rfl rfl rfl

end AsyncFix.Link
