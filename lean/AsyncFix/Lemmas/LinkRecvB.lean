import AsyncFix.Lemmas.LinkRecvA

/-!
C07: `Session.recv` vs `arecv` – part B: frames that end the session (too low, not a Logon first, Logout) and
the remaining application-frame cases.
-/
namespace AsyncFix.Link

open AsyncFix.Session AsyncFix.Generated AsyncFix.Generated.ConnEnum
open AsyncFix.Session.Msg

theorem isLatin1_tooLow (e n : Int) :
    isLatin1 ("MsgSeqNum is too low, expected " ++ pyStr e ++ ", got " ++ pyStr n) = true := by
  rw [isLatin1_append, isLatin1_append, isLatin1_append, isLatin1_pyStr, isLatin1_pyStr]
  decide

/-- `disconnect(BROKEN_CONN)` without Logout, from a connected state -/
theorem recv_drop_eval {s : Side} {c : Conn} (hc : ConnGood s c) (eff : List Effect) (c' : Conn)
    (h1 : c'.sess = c.sess) (h2 : c'.journal = c.journal) (h3 : c'.role = c.role) (h4 : c'.sock = false)
    (h5 : c'.maxResend = 0) (h6 : c'.state ≤ st_DISCONNECTED_BROKEN_CONN ∧ 1 ≤ c'.state)
    (h7 : writesOf eff = []) (h8 : deliveriesOf eff = []) :
    StepOK s { c := (absConn c).drop } c' eff := by
  obtain ⟨g1, g2, g5, g6, g7, g8, he, hinb, hrows, l1, l2⟩ := connFacts hc
  rw [stepOK_iff, connGood_iff]
  have hst : c'.state = 1 ∨ c'.state = 2 ∨ c'.state = 3 := by
    have := h6.1; have := h6.2; simp only [st_DISCONNECTED_BROKEN_CONN] at *; omega
  refine ⟨?_, by simp [h7], by simp [h8], ⟨by rw [h1, g1], by rw [h1, g2], ?_, ?_, by rw [h3]; exact g5,
    by rw [h1]; exact g6, by rw [h1]; exact g7, by rw [h1, h2]; exact g8, ?_, by rw [h1, h2]; exact hinb⟩,
    by simp [h7]⟩
  · rcases hst with h | h | h <;> simp [absConn, AConn.drop, absSt, h, h1, h2, h3, h5, st_DISCONNECTED_BROKEN_CONN]
  · rcases hst with h | h | h <;> simp [restState, h, st_DISCONNECTED_NOCONN_TODAY, st_DISCONNECTED_WCONN_TODAY,
      st_DISCONNECTED_BROKEN_CONN]
  · rcases hst with h | h | h <;> simp [h, h4, st_DISCONNECTED_BROKEN_CONN]
  · rcases hst with h | h | h <;> simp [h, st_RESENDREQ_AWAITING]

/-- the frame is not "too low": `_validate_integrity` returns `None` -/
def NotLow (c : Conn) (f : Msg) (n : Int) : Prop :=
  c.sess.nextIn ≤ n ∨ f.mtype = mSequenceReset ∨ (c.state = st_RESENDREQ_AWAITING ∧ f.get? tPossDupFlag = some "Y")

/-- first frame on a fresh transport is not a Logon: dropped without Logout -/
theorem recv_conn_drop {s : Side} {env : Env} {c : Conn} {f : Msg} {n : Int}
    (hc : ConnGood s c) (hi : InFrame c f n) (hst : c.state = st_NETWORK_CONN_ESTABLISHED)
    (hA : f.mtype ≠ mLogon) (hv : c.sess.nextIn ≤ n ∨ f.mtype = mSequenceReset) :
    StepOK s { c := (absConn c).drop } (recv srAll env c f).1 (recv srAll env c f).2 := by
  obtain ⟨h8, h49, h56, h34⟩ := hi
  have hsock := sock_of_state hc (by rw [hst]; decide)
  rcases hv with hv | hv
  · have hlow : ¬ n < c.sess.nextIn := by omega
    refine recv_drop_eval hc _ _ ?_ ?_ ?_ ?_ ?_ ?_ ?_ ?_ <;>
      ev_simp [h8, h49, h56, h34, hst, hA, hlow, hsock]
  · refine recv_drop_eval hc _ _ ?_ ?_ ?_ ?_ ?_ ?_ ?_ ?_ <;>
      ev_simp [h8, h49, h56, h34, hst, hA, hv, hsock, mLogon, mSequenceReset]

/-- initiator before the Logon reply: anything but Logon / Logout is dropped (fix bafdff0) -/
theorem recv_sent_drop {s : Side} {env : Env} {c : Conn} {f : Msg} {n : Int}
    (hc : ConnGood s c) (hi : InFrame c f n) (hst : c.state = st_LOGON_INITIAL_SENT)
    (hA : f.mtype ≠ mLogon) (h5 : f.mtype ≠ mLogout) (hv : c.sess.nextIn ≤ n ∨ f.mtype = mSequenceReset) :
    StepOK s { c := (absConn c).drop } (recv srAll env c f).1 (recv srAll env c f).2 := by
  obtain ⟨h8, h49, h56, h34⟩ := hi
  have hsock := sock_of_state hc (by rw [hst]; decide)
  rcases hv with hv | hv
  · have hlow : ¬ n < c.sess.nextIn := by omega
    refine recv_drop_eval hc _ _ ?_ ?_ ?_ ?_ ?_ ?_ ?_ ?_ <;>
      ev_simp [h8, h49, h56, h34, hst, hA, h5, hlow, hsock]
  · refine recv_drop_eval hc _ _ ?_ ?_ ?_ ?_ ?_ ?_ ?_ ?_ <;>
      ev_simp [h8, h49, h56, h34, hst, hA, h5, hv, hsock, mLogon, mSequenceReset, mLogout]

/-- Logout of the peer (not too low) in a logged-on or Logon-sent phase -/
theorem recv_logout {s : Side} {env : Env} {c : Conn} {f : Msg} {n : Int}
    (hc : ConnGood s c) (hi : InFrame c f n)
    (hst : c.state = st_LOGON_INITIAL_SENT ∨ c.state = st_RESENDREQ_AWAITING ∨ c.state = st_ACTIVE)
    (h5 : f.mtype = mLogout) (hv : c.sess.nextIn ≤ n) :
    StepOK s { c := (absConn c).drop } (recv srAll env c f).1 (recv srAll env c f).2 := by
  obtain ⟨h8, h49, h56, h34⟩ := hi
  have hlow : ¬ n < c.sess.nextIn := by omega
  rcases hst with hst | hst | hst <;>
  · have hsock := sock_of_state hc (by rw [hst]; decide)
    by_cases hwa : c.wasActive = true
    · refine recv_drop_eval hc _ _ ?_ ?_ ?_ ?_ ?_ ?_ ?_ ?_ <;>
        ev_simp [h8, h49, h56, h34, hst, h5, hlow, hsock, mLogon, mSequenceReset, mLogout, hwa]
    · refine recv_drop_eval hc _ _ ?_ ?_ ?_ ?_ ?_ ?_ ?_ ?_ <;>
        ev_simp [h8, h49, h56, h34, hst, h5, hlow, hsock, mLogon, mSequenceReset, mLogout, hwa]

/-- a frame numbered below the expectation (not a SequenceReset, not a tolerated duplicate): Logout with the
reason, disconnect -/
theorem recv_tooLow {s : Side} {env : Env} {c : Conn} {f : Msg} {n : Int}
    (hc : ConnGood s c) (hi : InFrame c f n) (hl3 : isLatin1 env.stamp = true)
    (hst : c.state = st_NETWORK_CONN_ESTABLISHED ∨ c.state = st_LOGON_INITIAL_SENT ∨ c.state = st_ACTIVE ∨
      (c.state = st_RESENDREQ_AWAITING ∧ f.get? tPossDupFlag ≠ some "Y"))
    (h4 : f.mtype ≠ mSequenceReset) (hn : n < c.sess.nextIn) :
    StepOK s (absConn c).dropLogout (recv srAll env c f).1 (recv srAll env c f).2 := by
  obtain ⟨h8, h49, h56, h34⟩ := hi
  obtain ⟨g1, g2, g5, g6, g7, g8, he, hinb, hrows, l1, l2⟩ := connFacts hc
  have ht := isLatin1_tooLow c.sess.nextIn n
  rw [stepOK_iff, connGood_iff]
  simp only [← g1, ← g2] at g8 ⊢
  rcases hst with hst | hst | hst | ⟨hst, hpd⟩
  · have hsock := sock_of_state hc (by rw [hst]; decide)
    ev_simp [h8, h49, h56, h34, hst, h4, hn, hsock, g5, g6, g7, g8, hinb, hrows, l1, l2, hl3, ht]
    omega
  · have hsock := sock_of_state hc (by rw [hst]; decide)
    ev_simp [h8, h49, h56, h34, hst, h4, hn, hsock, g5, g6, g7, g8, hinb, hrows, l1, l2, hl3, ht]
    omega
  · have hsock := sock_of_state hc (by rw [hst]; decide)
    ev_simp [h8, h49, h56, h34, hst, h4, hn, hsock, g5, g6, g7, g8, hinb, hrows, l1, l2, hl3, ht]
    omega
  · have hsock := sock_of_state hc (by rw [hst]; decide)
    have hpdb : ¬ (f.get? tPossDupFlag).getD "N" = "Y" := by
      cases h : f.get? tPossDupFlag with
      | none => decide
      | some v => intro hv; simp at hv; exact hpd (by rw [h, hv])
    ev_simp [h8, h49, h56, h34, hst, h4, hn, hsock, g5, g6, g7, g8, hinb, hrows, l1, l2, hl3, ht, hpdb]
    omega

end AsyncFix.Link
