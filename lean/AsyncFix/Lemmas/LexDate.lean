/-
Dates: `%Y%m%d` and `%Y%m` on layout-conform strings, calendar bridge between the SPEC's
`monthLength` / `leapYear` and the model's `daysInMonth` / `isLeap`, and the resulting
characterisations of the date and MonthYear validators.
-/
import AsyncFix.Lemmas.LexLayout
import AsyncFix.Model.LexSpec
import AsyncFix.Model.LexClass
namespace AsyncFix.Lemmas.LexDate
open AsyncFix.Py AsyncFix.Lemmas.LexTok AsyncFix.Lemmas.LexSeq AsyncFix.Lemmas.LexLayout
open AsyncFix.Model AsyncFix.Model.Lexical AsyncFix.Model.LexClass

theorem leap_eq (y : Nat) : LexSpec.leapYear y = isLeap y := by
  unfold LexSpec.leapYear isLeap
  rw [Bool.eq_iff_iff]
  simp
  omega

theorem monthLength_eq {m : Nat} (y : Nat) (h1 : 1 ≤ m) (h2 : m ≤ 12) :
    LexSpec.monthLength y m = daysInMonth y m := by
  have : m = 1 ∨ m = 2 ∨ m = 3 ∨ m = 4 ∨ m = 5 ∨ m = 6 ∨ m = 7 ∨ m = 8 ∨ m = 9 ∨ m = 10 ∨ m = 11 ∨ m = 12 := by
    omega
  rcases this with h | h | h | h | h | h | h | h | h | h | h | h <;> subst h <;>
    simp [LexSpec.monthLength, daysInMonth, leap_eq]

theorem spec_four (a b c d : Nat) : LexSpec.four a b c d = four a b c d := by
  simp [LexSpec.four, four]; omega

theorem four_le {a b c d : Nat} (h1 : isAsciiDigit a = true) (h2 : isAsciiDigit b = true)
    (h3 : isAsciiDigit c = true) (h4 : isAsciiDigit d = true) : four a b c d ≤ 9999 := by
  have := digit_iff.1 h1; have := digit_iff.1 h2; have := digit_iff.1 h3; have := digit_iff.1 h4
  simp [four]; omega

theorem four_eq_zero {a b c d : Nat} (h1 : isAsciiDigit a = true) (h2 : isAsciiDigit b = true)
    (h3 : isAsciiDigit c = true) (h4 : isAsciiDigit d = true) :
    four a b c d = 0 ↔ (a = 48 ∧ b = 48 ∧ c = 48 ∧ d = 48) := by
  have := digit_iff.1 h1; have := digit_iff.1 h2; have := digit_iff.1 h3; have := digit_iff.1 h4
  simp [four]; omega

/-- `%Y…` on four digits -/
theorem matchSeq_Y {a b c d : Nat} (ds : List Dir) (r : Str) (h1 : isAsciiDigit a = true)
    (h2 : isAsciiDigit b = true) (h3 : isAsciiDigit c = true) (h4 : isAsciiDigit d = true) :
    matchSeq (.Y :: ds) (a :: b :: c :: d :: r) = ext (four a b c d) (matchSeq ds r) := by
  rw [matchSeq_cons, alts_Y r h1 h2 h3 h4]
  simp

/-- strptime("%Y%m%d") on eight ASCII digits -/
theorem ymd_core {y1 y2 y3 y4 m1 m2 d1 d2 : Nat}
    (hy1 : isAsciiDigit y1 = true) (hy2 : isAsciiDigit y2 = true) (hy3 : isAsciiDigit y3 = true)
    (hy4 : isAsciiDigit y4 = true) (hm1 : isAsciiDigit m1 = true) (hm2 : isAsciiDigit m2 = true)
    (hd1 : isAsciiDigit d1 = true) (hd2 : isAsciiDigit d2 = true) :
    (∃ vals, headFull (matchSeq fmtYmd [y1, y2, y3, y4, m1, m2, d1, d2]) = some vals ∧
        dtOk (assign fmtYmd vals {}) = true) ↔
      (1 ≤ four y1 y2 y3 y4 ∧ 1 ≤ two m1 m2 ∧ two m1 m2 ≤ 12 ∧ 1 ≤ two d1 d2 ∧
        two d1 d2 ≤ daysInMonth (four y1 y2 y3 y4) (two m1 m2)) := by
  have hy := four_le hy1 hy2 hy3 hy4
  have hd : daysInMonth (four y1 y2 y3 y4) (two m1 m2) ≤ 31 := by
    unfold daysInMonth; split <;> split <;> omega
  unfold fmtYmd
  rw [matchSeq_Y _ _ hy1 hy2 hy3 hy4, headFull_ext, headFull_md_end hm1 hm2 hd1 hd2]
  by_cases hr : (inRng .m m1 m2 && inRng .d d1 d2) = true
  · simp only [hr, ↓reduceIte, Option.map_some, Option.some.injEq, exists_eq_left', dtOk_iff]
    simp only [Bool.and_eq_true, inRng_iff, lo, hi] at hr
    simp [assign, DateTime.effYear]
    omega
  · simp only [hr, Bool.false_eq_true, ↓reduceIte, Option.map_none, reduceCtorEq, false_and, exists_false,
      false_iff]
    simp only [Bool.and_eq_true, inRng_iff, lo, hi] at hr
    omega

theorem spec_digit (c : Nat) : LexSpec.digit c = isAsciiDigit c := rfl
theorem spec_two (a b : Nat) : LexSpec.two a b = two a b := rfl

theorem effFmt_ymd (s : Str) : effFmt s fmtYmd = fmtYmd := by
  simp [effFmt, fmtYmd]

theorem effFmt_ym (s : Str) : effFmt s fmtYm = fmtYm := by
  simp [effFmt, fmtYm]

theorem layout_ymd {s : Str} : layoutMatch fmtYmd s = true ↔
    ∃ y1 y2 y3 y4 m1 m2 d1 d2, s = [y1, y2, y3, y4, m1, m2, d1, d2] ∧
      isAsciiDigit y1 = true ∧ isAsciiDigit y2 = true ∧ isAsciiDigit y3 = true ∧ isAsciiDigit y4 = true ∧
      isAsciiDigit m1 = true ∧ isAsciiDigit m2 = true ∧ isAsciiDigit d1 = true ∧ isAsciiDigit d2 = true := by
  unfold fmtYmd
  constructor
  · intro h
    obtain ⟨y1, y2, y3, y4, r, rfl, h1, h2, h3, h4, h⟩ := layout_Y.1 h
    obtain ⟨m1, m2, r, rfl, h5, h6, h⟩ := (layout_num (D := .m) rfl).1 h
    obtain ⟨d1, d2, r, rfl, h7, h8, h⟩ := (layout_num (D := .d) rfl).1 h
    rw [layout_nil] at h; subst h
    exact ⟨y1, y2, y3, y4, m1, m2, d1, d2, rfl, h1, h2, h3, h4, h5, h6, h7, h8⟩
  · rintro ⟨y1, y2, y3, y4, m1, m2, d1, d2, rfl, h1, h2, h3, h4, h5, h6, h7, h8⟩
    exact layout_Y.2 ⟨_, _, _, _, _, rfl, h1, h2, h3, h4,
      (layout_num (D := .m) rfl).2 ⟨_, _, _, rfl, h5, h6,
        (layout_num (D := .d) rfl).2 ⟨_, _, _, rfl, h7, h8, layout_nil.2 rfl⟩⟩⟩

theorem isYearMonth_iff {s : Str} : LexSpec.isYearMonth s = true ↔
    ∃ y1 y2 y3 y4 m1 m2, s = [y1, y2, y3, y4, m1, m2] ∧
      isAsciiDigit y1 = true ∧ isAsciiDigit y2 = true ∧ isAsciiDigit y3 = true ∧ isAsciiDigit y4 = true ∧
      isAsciiDigit m1 = true ∧ isAsciiDigit m2 = true ∧ 1 ≤ two m1 m2 ∧ two m1 m2 ≤ 12 := by
  constructor
  · intro h
    unfold LexSpec.isYearMonth at h
    split at h
    · rename_i y1 y2 y3 y4 m1 m2
      simp only [Bool.and_eq_true, decide_eq_true_eq] at h
      simp only [spec_digit, spec_two] at h
      obtain ⟨⟨⟨⟨⟨⟨⟨a1, a2⟩, a3⟩, a4⟩, a5⟩, a6⟩, a7⟩, a8⟩ := h
      exact ⟨y1, y2, y3, y4, m1, m2, rfl, a1, a2, a3, a4, a5, a6, a7, a8⟩
    · cases h
  · rintro ⟨y1, y2, y3, y4, m1, m2, rfl, a1, a2, a3, a4, a5, a6, a7, a8⟩
    simp only [LexSpec.isYearMonth, Bool.and_eq_true, decide_eq_true_eq]
    simp only [spec_digit, spec_two]
    exact ⟨⟨⟨⟨⟨⟨⟨a1, a2⟩, a3⟩, a4⟩, a5⟩, a6⟩, a7⟩, a8⟩

theorem isDate_iff {s : Str} : LexSpec.isDate s = true ↔
    ∃ y1 y2 y3 y4 m1 m2 d1 d2, s = [y1, y2, y3, y4, m1, m2, d1, d2] ∧
      isAsciiDigit y1 = true ∧ isAsciiDigit y2 = true ∧ isAsciiDigit y3 = true ∧ isAsciiDigit y4 = true ∧
      isAsciiDigit m1 = true ∧ isAsciiDigit m2 = true ∧ isAsciiDigit d1 = true ∧ isAsciiDigit d2 = true ∧
      1 ≤ two m1 m2 ∧ two m1 m2 ≤ 12 ∧ 1 ≤ two d1 d2 ∧
      two d1 d2 ≤ daysInMonth (four y1 y2 y3 y4) (two m1 m2) := by
  constructor
  · intro h
    unfold LexSpec.isDate at h
    split at h
    · rename_i y1 y2 y3 y4 m1 m2 d1 d2
      simp only [Bool.and_eq_true, decide_eq_true_eq] at h
      simp only [spec_digit, spec_two, spec_four] at h
      obtain ⟨⟨⟨⟨hym, hd1⟩, hd2⟩, hlo⟩, hhi⟩ := h
      obtain ⟨_, _, _, _, _, _, he, h1, h2, h3, h4, h5, h6, h7, h8⟩ := isYearMonth_iff.1 hym
      simp only [List.cons.injEq, and_true] at he
      obtain ⟨rfl, rfl, rfl, rfl, rfl, rfl⟩ := he
      rw [monthLength_eq _ h7 h8] at hhi
      exact ⟨y1, y2, y3, y4, m1, m2, d1, d2, rfl, h1, h2, h3, h4, h5, h6, hd1, hd2, h7, h8, hlo, hhi⟩
    · cases h
  · rintro ⟨y1, y2, y3, y4, m1, m2, d1, d2, rfl, h1, h2, h3, h4, h5, h6, h7, h8, h9, h10, h11, h12⟩
    simp only [LexSpec.isDate, Bool.and_eq_true, decide_eq_true_eq]
    simp only [spec_digit, spec_two, spec_four]
    rw [monthLength_eq _ h9 h10]
    exact ⟨⟨⟨⟨isYearMonth_iff.2 ⟨_, _, _, _, _, _, rfl, h1, h2, h3, h4, h5, h6, h9, h10⟩, h7⟩, h8⟩, h11⟩, h12⟩

/-- UTCDateOnly / LocalMktDate: accepted = a FIX date whose year is not 0000 -/
theorem date_pass_iff (s : Str) :
    validateDatetime s fmtYmd = .pass ↔ LexSpec.isDate s = true ∧ year0000 s = false := by
  rw [validateDatetime_pass_iff, effFmt_ymd, isDate_iff]
  constructor
  · rintro ⟨hm, hl⟩
    obtain ⟨y1, y2, y3, y4, m1, m2, d1, d2, rfl, h1, h2, h3, h4, h5, h6, h7, h8⟩ := layout_ymd.1 hl
    obtain ⟨hy, ha, hb, hc, hd⟩ := (ymd_core h1 h2 h3 h4 h5 h6 h7 h8).1 hm
    refine ⟨⟨_, _, _, _, _, _, _, _, rfl, h1, h2, h3, h4, h5, h6, h7, h8, ha, hb, hc, hd⟩, ?_⟩
    have := four_eq_zero h1 h2 h3 h4
    simp [year0000]
    omega
  · rintro ⟨⟨y1, y2, y3, y4, m1, m2, d1, d2, rfl, h1, h2, h3, h4, h5, h6, h7, h8, ha, hb, hc, hd⟩, hy⟩
    refine ⟨(ymd_core h1 h2 h3 h4 h5 h6 h7 h8).2 ⟨?_, ha, hb, hc, hd⟩,
      layout_ymd.2 ⟨_, _, _, _, _, _, _, _, rfl, h1, h2, h3, h4, h5, h6, h7, h8⟩⟩
    have := four_eq_zero h1 h2 h3 h4
    simp [year0000] at hy
    omega

end AsyncFix.Lemmas.LexDate
