/-
C03, part 3: where the CheckSum field of a valid frame is.  Digits of the decimal renderings,
SOH-freeness of fields, and `findSub_ck_body`: scanning `fld SOH body… t` the first `SOH 10=`
is the one in front of `t` (body tags are digits and not "10", values have no SOH).
-/
import AsyncFix.Lemmas.CodecReaderDecode
namespace AsyncFix.Model.Codec

/-! ### digits -/

theorem rdr_natToDec_digits (n : Nat) : ∀ c ∈ natToDec n, isDigit c = true := by
  induction n using Nat.strongRecOn with
  | _ n ih =>
    rw [natToDec]
    split
    · intro c hc
      simp only [List.mem_singleton] at hc
      subst hc
      simp [isDigit]; omega
    · intro c hc
      simp only [List.mem_append, List.mem_singleton] at hc
      rcases hc with hc | hc
      · exact ih (n / 10) (by omega) c hc
      · subst hc
        simp [isDigit]; omega

theorem rdr_dec3_digits (n : Nat) : ∀ c ∈ dec3 n, isDigit c = true := by
  intro c hc
  simp only [dec3, List.mem_append, List.mem_replicate] at hc
  rcases hc with ⟨_, rfl⟩ | hc
  · rfl
  · exact rdr_natToDec_digits n c hc

theorem not_mem_of_digits {c : Nat} {l : Bytes} (hc : isDigit c = false)
    (h : ∀ x ∈ l, isDigit x = true) : c ∉ l := by
  intro hm
  rw [h c hm] at hc
  cases hc

/-! ### fields of a valid frame -/

theorem okFields_cons {f : Fld} {fs : List Fld} (h : okFields (f :: fs) = true) :
    (f.tag.all isDigit = true ∧ f.tag ≠ [49, 48] ∧ SOH ∉ f.val) ∧ okFields fs = true := by
  simp only [okFields, okTag, List.all_cons, Bool.and_eq_true, Bool.not_eq_true', bne_iff_ne, ne_eq,
    decide_eq_true_eq, List.contains_eq_mem, decide_eq_false_iff_not] at h ⊢
  exact ⟨⟨h.1.1.1.1.2, h.1.1.2, h.1.2⟩, h.2⟩

theorem soh_not_mem_field {t v : Bytes} (ht : t.all isDigit = true) (hv : SOH ∉ v) :
    SOH ∉ fieldBytes t v := by
  simp only [fieldBytes, List.mem_append, List.mem_cons, not_or]
  refine ⟨?_, by decide, hv⟩
  exact not_mem_of_digits (by decide) (by simpa using ht)

/-- a body field does not look like the CheckSum field -/
theorem not_ck_prefix_field {t v r : Bytes} (ht : t.all isDigit = true) (hne : t ≠ [49, 48]) :
    ¬ [49, 48, 61] <+: fieldBytes t v ++ SOH :: r := by
  intro h
  have h' : [49, 48, 61] <+: fieldBytes t v := prefix_of_prefix_append_cons h (by decide)
  unfold fieldBytes EQS at h'
  match t, ht, hne with
  | [], _, _ => simp at h'
  | [a], _, _ => simp at h'
  | [a, b], _, hne =>
    simp only [List.cons_append, List.nil_append, List.cons_prefix_cons] at h'
    exact hne (by rw [h'.1, h'.2.1])
  | a :: b :: c :: _, ht, _ =>
    simp only [List.cons_append, List.cons_prefix_cons] at h'
    have : isDigit c = true := by
      simp only [List.all_cons, Bool.and_eq_true] at ht
      exact ht.2.2.1
    rw [← h'.2.2.1] at this
    cases this

theorem findSub_ck_at_soh {s : Bytes} :
    findSub cksumPat (SOH :: s) =
      if [49, 48, 61] <+: s then some 0 else (findSub cksumPat s).map (· + 1) := by
  rw [findSub]
  by_cases h : [49, 48, 61] <+: s
  · have : isPrefix cksumPat (SOH :: s) = true := by
      rw [isPrefix_iff]; exact List.cons_prefix_cons.2 ⟨rfl, h⟩
    simp [this, h]
  · have : isPrefix cksumPat (SOH :: s) = false := by
      rw [isPrefix_false_iff]; intro hp; exact h (List.cons_prefix_cons.1 hp).2
    simp only [this, h, if_false, Bool.false_eq_true]
    cases findSub cksumPat s <;> rfl

/-- in `fld SOH body… t` with `t` starting like a CheckSum field, the first `SOH 10=` is the one
in front of `t` -/
theorem findSub_ck_body (fs : List Fld) (hok : okFields fs = true) (t : Bytes)
    (ht : [49, 48, 61] <+: t) (fld : Bytes) (hfld : SOH ∉ fld) :
    findSub cksumPat (fld ++ SOH :: (bodyBytes fs ++ t)) = some (fld.length + (bodyBytes fs).length) := by
  induction fs generalizing fld with
  | nil =>
    rw [show cksumPat = SOH :: [49, 48, 61] from rfl, findSub_skip hfld]
    rw [show SOH :: [49, 48, 61] = cksumPat from rfl, findSub_ck_at_soh]
    simp [bodyBytes, ht]
  | cons x xs ih =>
    obtain ⟨⟨hd, hne, hv⟩, hxs⟩ := okFields_cons hok
    rw [show cksumPat = SOH :: [49, 48, 61] from rfl, findSub_skip hfld]
    rw [show SOH :: [49, 48, 61] = cksumPat from rfl, findSub_ck_at_soh]
    simp only [bodyBytes, List.append_assoc, List.cons_append]
    rw [if_neg (not_ck_prefix_field hd hne)]
    rw [ih hxs _ (soh_not_mem_field hd hv)]
    simp only [Option.map_some, List.length_append, List.length_cons, Option.some.injEq]
    omega

end AsyncFix.Model.Codec
