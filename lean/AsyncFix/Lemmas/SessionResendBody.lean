import AsyncFix.Lemmas.SessionResendLoop

/-!
C06 helper lemmas, part 6: `_process_resend` as a whole.

`resendBody` is the model's text after the first statement (checked equal by `rfl`);
`resendBody_valid` runs it for a request `[b, ∞)` / `[b, e]` with `e ≥ last sent`:
`set_seq_num(b)`, the loop (`resendLoop_spec`), the assertion, the trailing gap fill, `set_seq_num(cur)`,
the state.
-/
namespace AsyncFix.Session.C06
open Msg AsyncFix.Generated AsyncFix.Generated.ConnEnum

/-- `_process_resend` after its first statement (the text of the model, verbatim) -/
def resendBody (env : Env) (sr : Msg → Bool) (m : Msg) : M Unit := do
  M.assert (m.mtype == mResendRequest)
  let c ← M.get
  M.assert (c.state == st_RESENDREQ_HANDLING || c.state == st_RESENDREQ_AWAITING)
  let vb ← M.liftE (m.get tBeginSeqNo)
  let b ← M.int vb
  let ve ← M.liftE (m.get tEndSeqNo)
  let e0 ← M.int ve
  let e := if e0 == 0 then sysMaxsize else e0
  if b < 1 || b ≥ c.sess.nextOut then
    if c.state != st_RESENDREQ_AWAITING then stateSet st_ACTIVE else pure ()
  else do
    let rows := c.journal.recoverOut b sysMaxsize
    let cur := c.sess.nextOut
    setSeqNum (some b) none
    let (gfb, gfe) ← resendLoop env sr e rows b b
    M.assert (decide (gfe ≤ cur))
    let gfe2 := min (e + 1) cur
    if gfb < gfe2 then sendMsg env (gapFillMsg gfb gfe2) else pure ()
    setSeqNum (some cur) none
    let c2 ← M.get
    if c2.state != st_RESENDREQ_AWAITING then stateSet st_ACTIVE else pure ()

theorem processResend_eq (env : Env) (sr : Msg → Bool) (m : Msg) (c : Conn) :
    processResend env sr m c =
      (if c.state != st_RESENDREQ_AWAITING then (do stateSet st_RESENDREQ_HANDLING; resendBody env sr m)
       else resendBody env sr m) c := by
  rfl

theorem _root_.AsyncFix.Session.M.bind_ok2 {α β} {x : M α} {f : α → M β} {c c1 c2 : Conn} {a : α}
    {e1 e2 : List Effect} {r : Except Exc β}
    (h1 : x c = ⟨.ok a, c1, e1⟩) (h2 : f a c1 = ⟨r, c2, e2⟩) : (x >>= f) c = ⟨r, c2, e1 ++ e2⟩ := by
  rw [M.bind_apply, h1]; simp only [h2]

theorem chain_sess_congr {s s' : Session} {J : Rows} {sr : Msg → Bool} {a z : Int} {xs : List Msg}
    (h1 : s.sender = s'.sender) (h2 : s.target = s'.target) (h : Chain s J sr a z xs) :
    Chain s' J sr a z xs := by
  induction h with
  | nil => exact Chain.nil _
  | replay hf hr hi _ ih =>
    exact Chain.replay hf hr ⟨hi.mtype, hi.tag35, hi.seq, hi.possDup, hi.orig, hi.body, hi.begin_,
      h1 ▸ hi.sender, h2 ▸ hi.target⟩ ih
  | gap hl hg hn _ ih =>
    exact Chain.gap hl ⟨hg.mtype, hg.tag35, hg.seq, hg.newSeq, hg.gapFill, hg.body, hg.begin_,
      h1 ▸ hg.sender, h2 ▸ hg.target⟩ hn ih

theorem setSeqNum_out (n : Int) (hn : 0 < n) (c : Conn) :
    setSeqNum (some n) none c =
      ⟨.ok (), { c with sess := { c.sess with nextOut := n },
                        journal := c.journal.setSeq n c.sess.nextIn }, []⟩ := by
  have : decide (n > 0) = true := by simpa using hn
  simp [setSeqNum, M.bind_apply, this, M.assert_true_apply]

/-- the request as `_process_resend` reads it -/
structure Req (m : Msg) (b e0 : Int) : Prop where
  mtype : m.mtype = mResendRequest
  begin_ : ∃ v, m.get? tBeginSeqNo = some v ∧ pyInt v = some b
  end_ : ∃ v, m.get? tEndSeqNo = some v ∧ pyInt v = some e0

theorem resendBody_head (env : Env) (sr : Msg → Bool) (m : Msg) (c : Conn) (b e0 : Int)
    (hreq : Req m b e0)
    (hin : c.state = st_RESENDREQ_HANDLING ∨ c.state = st_RESENDREQ_AWAITING) :
    resendBody env sr m c =
      (let e := if e0 == 0 then sysMaxsize else e0
       if b < 1 || b ≥ c.sess.nextOut then
         if c.state != st_RESENDREQ_AWAITING then stateSet st_ACTIVE else pure ()
       else do
         let rows := c.journal.recoverOut b sysMaxsize
         let cur := c.sess.nextOut
         setSeqNum (some b) none
         let (gfb, gfe) ← resendLoop env sr e rows b b
         M.assert (decide (gfe ≤ cur))
         let gfe2 := min (e + 1) cur
         if gfb < gfe2 then sendMsg env (gapFillMsg gfb gfe2) else pure ()
         setSeqNum (some cur) none
         let c2 ← M.get
         if c2.state != st_RESENDREQ_AWAITING then stateSet st_ACTIVE else pure ()) c := by
  obtain ⟨vb, hb1, hb2⟩ := hreq.begin_
  obtain ⟨ve, he1, he2⟩ := hreq.end_
  have hst : (c.state == st_RESENDREQ_HANDLING || c.state == st_RESENDREQ_AWAITING) = true := by
    rcases hin with h | h <;> simp [h]
  unfold resendBody
  simp only [M.bind_apply, hreq.mtype, beq_self_eq_true, M.assert_true_apply, M.get_apply, hst, Msg.get,
    hb1, he1, M.liftE_apply, M.int_apply_of hb2, M.int_apply_of he2, List.nil_append]

/-- the effective EndSeqNo of `_process_resend` -/
def effEnd (e0 : Int) : Int := if e0 == 0 then sysMaxsize else e0

/-- the journal rows after EndSeqNo (they are put back unsent) -/
def tailRows (c : Conn) (b e0 : Int) : Rows :=
  (c.journal.out.range b sysMaxsize).filter fun p => effEnd e0 < p.1

/-- one past the last number the reply covers: `min(EndSeqNo, last sent) + 1`, but not below `b` -/
def chainEnd (c : Conn) (b e0 : Int) : Int := max b (min (effEnd e0 + 1) c.sess.nextOut)

/-- the connection after a served request: as before except the outbound rows from `b` up to EndSeqNo
(now the frames just sent), the inbound side of `set_seq_num`, and the state excursion -/
def served (c : Conn) (b : Int) (sent tail : Rows) : Conn :=
  { c with
    state := if c.state = st_RESENDREQ_AWAITING then st_RESENDREQ_AWAITING else st_ACTIVE
    wasActive := c.wasActive || (c.state != st_RESENDREQ_AWAITING)
    journal := { out := c.journal.out.below b ++ sent ++ tail, inb := c.journal.inb.below c.sess.nextIn,
                 outSeq := c.sess.nextOut - 1, inSeq := c.sess.nextIn - 1 } }

theorem resendBody_valid (env : Env) (sr : Msg → Bool) (m : Msg) (c : Conn) (b e0 : Int)
    (hreq : Req m b e0) (hctx : LoopCtx env c) (hinv : OutInv c)
    (hb1 : 1 ≤ b) (hb2 : b < c.sess.nextOut) (hmax : c.sess.nextOut - 1 ≤ sysMaxsize) :
    ∃ sent : Rows,
      resendBody env sr m c =
        ⟨.ok (), served c b sent (tailRows c b e0),
          sent.map (fun p => Effect.write p.2) ++
            (if c.state = st_RESENDREQ_AWAITING then [] else [.onState st_ACTIVE])⟩ ∧
      Chain c.sess c.journal.out sr b (chainEnd c b e0) (sent.map (·.2)) ∧
      Rows.Sorted (c.journal.out.below b ++ sent ++ tailRows c b e0) ∧
      Rows.AllLt c.sess.nextOut (c.journal.out.below b ++ sent ++ tailRows c b e0) ∧
      Rows.AllLt (chainEnd c b e0) (c.journal.out.below b ++ sent) ∧
      (∀ p ∈ sent, RowOK p.1 p.2 ∧ b ≤ p.1) := by
  have hcond : (decide (b < 1) || decide (b ≥ c.sess.nextOut)) = false := by
    simp; omega
  rw [resendBody_head env sr m c b e0 hreq hctx.inres.1]
  simp only [hcond, Bool.false_eq_true, if_false]
  have hJ := hinv.sorted
  -- the recovered rows: up to EndSeqNo, after EndSeqNo
  let e : Int := if e0 == 0 then sysMaxsize else e0
  have heff : effEnd e0 = e := rfl
  let rs1 : Rows := (c.journal.out.range b sysMaxsize).filter fun p => p.1 ≤ e
  have hsplit0 : c.journal.out.range b sysMaxsize = rs1 ++ tailRows c b e0 :=
    Rows.split_at e (Rows.sorted_range hJ _ _)
  have hrows : c.journal.recoverOut b sysMaxsize = (rs1 ++ tailRows c b e0).map (·.2) := by
    unfold Journal.recoverOut; rw [hsplit0]
  have hmem1 : ∀ p ∈ rs1, p ∈ c.journal.out ∧ b ≤ p.1 ∧ p.1 ≤ e := by
    intro p hp
    obtain ⟨h1, h2⟩ := List.mem_filter.mp hp
    obtain ⟨h3, h4, _⟩ := Rows.mem_range.mp h1
    exact ⟨h3, h4, by simpa using h2⟩
  have hmem2 : ∀ p ∈ tailRows c b e0, p ∈ c.journal.out ∧ b ≤ p.1 ∧ e < p.1 := by
    intro p hp
    obtain ⟨h1, h2⟩ := List.mem_filter.mp hp
    obtain ⟨h3, h4, _⟩ := Rows.mem_range.mp h1
    exact ⟨h3, h4, by simpa [heff] using h2⟩
  have hz : chainEnd c b e0 = max b (min (e + 1) c.sess.nextOut) := rfl
  have hzb : b ≤ chainEnd c b e0 := by rw [hz]; omega
  have hzc : chainEnd c b e0 ≤ c.sess.nextOut := by rw [hz]; omega
  -- first set_seq_num
  have e1 := setSeqNum_out b (by omega) c
  let c1 : Conn := { c with sess := { c.sess with nextOut := b },
                            journal := c.journal.setSeq b c.sess.nextIn }
  have hctx1 : LoopCtx env c1 := ⟨hctx.inres, hctx.lsender, hctx.ltarget, hctx.lstamp⟩
  -- the loop
  obtain ⟨sent, gfb', gfe', os, e2, ch2, b1, b2, so2, lt2, ok2, ge2, no2⟩ :=
    resendLoop_spec env sr c.journal.out hJ (chainEnd c b e0) e (tailRows c b e0)
      (fun p hp => ⟨(hmem2 p hp).2.2, hinv.rows p (hmem2 p hp).1⟩)
      rs1 b b c1 hctx1 (by omega) hzb hzb (Rows.sorted_below hJ b) (Rows.allLt_below b _)
      (by rw [← hsplit0]; exact Rows.sorted_range hJ _ _)
      (by
        intro p hp
        obtain ⟨h1, h2, h3⟩ := hmem1 p hp
        have := hinv.lt p h1
        exact ⟨h2, by rw [hz]; omega, h3, h1, hinv.rows p h1⟩)
      (fun p hp => (hmem2 p hp).2.1)
      (by
        intro n row h1 h2 h3 _
        have hn := hinv.lt (n, row) h3
        simp only at hn
        rw [hz] at h2
        refine List.mem_filter.mpr ⟨Rows.mem_range.mpr ⟨h3, h1, by simp only; omega⟩, ?_⟩
        simp only [decide_eq_true_eq]; omega)
  have hle := chain_le ch2
  have hout1 : c1.journal.out = c.journal.out.below b := rfl
  rw [hout1] at e2 so2 lt2
  -- trailing gap fill, between the frames sent and the rows put back
  have hctx3 := hctx1.withOut (c.journal.out.below b ++ sent ++ tailRows c b e0) os
  have hifeq : (if gfb' < min (e + 1) c.sess.nextOut
        then sendMsg env (gapFillMsg gfb' (min (e + 1) c.sess.nextOut)) else pure ()) =
      (if gfb' < chainEnd c b e0 then sendMsg env (gapFillMsg gfb' (chainEnd c b e0)) else pure ()) := by
    by_cases hbz : b < min (e + 1) c.sess.nextOut
    · have : chainEnd c b e0 = min (e + 1) c.sess.nextOut := by rw [hz]; omega
      rw [this]
    · have hzb' : chainEnd c b e0 = b := by rw [hz]; omega
      have h1 : ¬ gfb' < min (e + 1) c.sess.nextOut := by omega
      have h2 : ¬ gfb' < chainEnd c b e0 := by omega
      rw [if_neg h1, if_neg h2]
  obtain ⟨pre, os3, e3, ch3, so3, lt3, ok3⟩ :=
    gap_step_mid env sr c.journal.out
      (withOut c1 (c.journal.out.below b ++ sent ++ tailRows c b e0) os) gfb' (chainEnd c b e0)
      (c.journal.out.below b ++ sent) (tailRows c b e0)
      hctx3 (by omega) b1 rfl so2 lt2
      (by
        intro p hp
        have h1 := (hmem2 p hp).2.2
        have h2 := ge2 p hp
        have h3 := (hmem2 p hp).2.1
        rw [hz]; omega)
      (by
        intro n row h1 h2 h3
        exact no2 n row h1 h2 ((Rows.find_eq_some_iff hJ _ _).mp h3))
  simp only [withOut_withOut] at e3
  -- second set_seq_num
  have htail_lt : Rows.AllLt c.sess.nextOut (tailRows c b e0) := fun p hp => hinv.lt p (hmem2 p hp).1
  have lt4 : Rows.AllLt c.sess.nextOut (c.journal.out.below b ++ (sent ++ pre) ++ tailRows c b e0) := by
    intro p hp
    rcases List.mem_append.mp hp with h | h
    · have := lt3 p (by simpa [List.append_assoc] using h); omega
    · exact htail_lt p h
  have hbelow : (c.journal.out.below b ++ (sent ++ pre) ++ tailRows c b e0).below c.sess.nextOut =
      c.journal.out.below b ++ (sent ++ pre) ++ tailRows c b e0 := Rows.below_of_allLt _ _ lt4
  have hinb : (c.journal.inb.below c.sess.nextIn).below c.sess.nextIn =
      c.journal.inb.below c.sess.nextIn := Rows.below_of_allLt _ _ (Rows.allLt_below _ _)
  let c5 : Conn := { c with journal :=
    { out := c.journal.out.below b ++ (sent ++ pre) ++ tailRows c b e0,
      inb := c.journal.inb.below c.sess.nextIn,
      outSeq := c.sess.nextOut - 1, inSeq := c.sess.nextIn - 1 } }
  have e4 : setSeqNum (some c.sess.nextOut) none
      (withOut c1 (c.journal.out.below b ++ sent ++ pre ++ tailRows c b e0) os3) = ⟨.ok (), c5, []⟩ := by
    rw [setSeqNum_out c.sess.nextOut (by omega)]
    simp only [c5, c1, withOut, Journal.setSeq, hinb, List.append_assoc]
    rw [show Rows.below b c.journal.out ++ (sent ++ (pre ++ tailRows c b e0)) =
      Rows.below b c.journal.out ++ (sent ++ pre) ++ tailRows c b e0 by simp [List.append_assoc], hbelow]
  have hlast : (M.get >>= fun c2 =>
      if (c2.state != st_RESENDREQ_AWAITING) = true then stateSet st_ACTIVE else pure ()) c5 =
      ⟨.ok (), served c b (sent ++ pre) (tailRows c b e0),
        if c.state = st_RESENDREQ_AWAITING then [] else [.onState st_ACTIVE]⟩ := by
    rcases hctx.inres.1 with h | h
    · have hne : c.state ≠ st_RESENDREQ_AWAITING := by rw [h]; decide
      simp [M.bind_apply, h, stateSet, served, c5, st_RESENDREQ_HANDLING, st_RESENDREQ_AWAITING,
        st_ACTIVE]
    · simp [M.bind_apply, h, served, c5]
  refine ⟨sent ++ pre, ?_, ?_, ?_, lt4, ?_, ?_⟩
  · have hsplit : ∀ (x : M Unit) (F : M Unit),
        (if gfb' < min (e + 1) c.sess.nextOut then (do x; F) else F) =
          ((if gfb' < min (e + 1) c.sess.nextOut then x else pure ()) >>= fun _ => F) := by
      intro x F; split <;> rfl
    have hge : M.assert (decide (gfe' ≤ c.sess.nextOut))
        (withOut c1 (c.journal.out.below b ++ sent ++ tailRows c b e0) os) =
          ⟨.ok (), withOut c1 (c.journal.out.below b ++ sent ++ tailRows c b e0) os, []⟩ := by
      have : decide (gfe' ≤ c.sess.nextOut) = true := by simp; omega
      rw [this]; rfl
    rw [hrows]
    refine (M.bind_ok2 e1 (M.bind_ok2 e2 (M.bind_ok2 hge ((congrFun (hsplit _ _) _).trans
      (M.bind_ok2 (by rw [hifeq]; exact e3) (M.bind_ok2 e4 hlast)))))).trans ?_
    simp
  · have := chain_append ch2 ch3
    rw [List.map_append]
    exact chain_sess_congr (s := c1.sess) (s' := c.sess) rfl rfl this
  · simpa [List.append_assoc] using so3
  · simpa [List.append_assoc] using lt3
  · intro p hp
    simp only [List.mem_append] at hp
    rcases hp with hp | hp
    · exact ok2 p hp
    · obtain ⟨h1, h2⟩ := ok3 p hp
      exact ⟨h1, by omega⟩

end AsyncFix.Session.C06
