import AsyncFix.Lemmas.SessionResendLoop

/-!
C06 helper lemmas, part 6: `_process_resend` as a whole.

`resendBody` is the model's text after the first statement (checked equal by `rfl`);
`resendBody_valid` runs it for a request `[b, ∞)` / `[b, e]` with `e ≥ last sent`:
`set_seq_num(b)`, the loop (`resendLoop_spec`), the assertion, the trailing gap fill, `set_seq_num(cur)`,
the state.
-/
namespace AsyncFix.Session.C06
open Msg AsyncFix.Generated AsyncFix.Generated.ConnEnum

/-- `_process_resend` after its first statement (the text of the model, verbatim) -/
def resendBody (env : Env) (sr : Msg → Bool) (m : Msg) : M Unit := do
  M.assert (m.mtype == mResendRequest)
  let c ← M.get
  M.assert (c.state == st_RESENDREQ_HANDLING || c.state == st_RESENDREQ_AWAITING)
  let vb ← M.liftE (m.get tBeginSeqNo)
  let b ← M.int vb
  let ve ← M.liftE (m.get tEndSeqNo)
  let e0 ← M.int ve
  let e := if e0 == 0 then sysMaxsize else e0
  if b < 1 || b ≥ c.sess.nextOut then
    if c.state != st_RESENDREQ_AWAITING then stateSet st_ACTIVE else pure ()
  else do
    let rows := c.journal.recoverOut b e
    let cur := c.sess.nextOut
    setSeqNum (some b) none
    let (gfb, gfe) ← resendLoop env sr rows b b
    M.assert (decide (gfe ≤ cur))
    if gfb < cur then sendMsg env (gapFillMsg gfb cur) else pure ()
    setSeqNum (some cur) none
    let c2 ← M.get
    if c2.state != st_RESENDREQ_AWAITING then stateSet st_ACTIVE else pure ()

theorem processResend_eq (env : Env) (sr : Msg → Bool) (m : Msg) (c : Conn) :
    processResend env sr m c =
      (if c.state != st_RESENDREQ_AWAITING then (do stateSet st_RESENDREQ_HANDLING; resendBody env sr m)
       else resendBody env sr m) c := by
  rfl

theorem _root_.AsyncFix.Session.M.bind_ok2 {α β} {x : M α} {f : α → M β} {c c1 c2 : Conn} {a : α}
    {e1 e2 : List Effect} {r : Except Exc β}
    (h1 : x c = ⟨.ok a, c1, e1⟩) (h2 : f a c1 = ⟨r, c2, e2⟩) : (x >>= f) c = ⟨r, c2, e1 ++ e2⟩ := by
  rw [M.bind_apply, h1]; simp only [h2]

theorem chain_sess_congr {s s' : Session} {J : Rows} {sr : Msg → Bool} {a z : Int} {xs : List Msg}
    (h1 : s.sender = s'.sender) (h2 : s.target = s'.target) (h : Chain s J sr a z xs) :
    Chain s' J sr a z xs := by
  induction h with
  | nil => exact Chain.nil _
  | replay hf hr hi _ ih =>
    exact Chain.replay hf hr ⟨hi.mtype, hi.tag35, hi.seq, hi.possDup, hi.orig, hi.body, hi.begin_,
      h1 ▸ hi.sender, h2 ▸ hi.target⟩ ih
  | gap hl hg hn _ ih =>
    exact Chain.gap hl ⟨hg.mtype, hg.tag35, hg.seq, hg.newSeq, hg.gapFill, hg.body, hg.begin_,
      h1 ▸ hg.sender, h2 ▸ hg.target⟩ hn ih

theorem setSeqNum_out (n : Int) (hn : 0 < n) (c : Conn) :
    setSeqNum (some n) none c =
      ⟨.ok (), { c with sess := { c.sess with nextOut := n },
                        journal := c.journal.setSeq n c.sess.nextIn }, []⟩ := by
  have : decide (n > 0) = true := by simpa using hn
  simp [setSeqNum, M.bind_apply, this, M.assert_true_apply]

/-- the request as `_process_resend` reads it -/
structure Req (m : Msg) (b e0 : Int) : Prop where
  mtype : m.mtype = mResendRequest
  begin_ : ∃ v, m.get? tBeginSeqNo = some v ∧ pyInt v = some b
  end_ : ∃ v, m.get? tEndSeqNo = some v ∧ pyInt v = some e0

theorem resendBody_head (env : Env) (sr : Msg → Bool) (m : Msg) (c : Conn) (b e0 : Int)
    (hreq : Req m b e0)
    (hin : c.state = st_RESENDREQ_HANDLING ∨ c.state = st_RESENDREQ_AWAITING) :
    resendBody env sr m c =
      (let e := if e0 == 0 then sysMaxsize else e0
       if b < 1 || b ≥ c.sess.nextOut then
         if c.state != st_RESENDREQ_AWAITING then stateSet st_ACTIVE else pure ()
       else do
         let rows := c.journal.recoverOut b e
         let cur := c.sess.nextOut
         setSeqNum (some b) none
         let (gfb, gfe) ← resendLoop env sr rows b b
         M.assert (decide (gfe ≤ cur))
         if gfb < cur then sendMsg env (gapFillMsg gfb cur) else pure ()
         setSeqNum (some cur) none
         let c2 ← M.get
         if c2.state != st_RESENDREQ_AWAITING then stateSet st_ACTIVE else pure ()) c := by
  obtain ⟨vb, hb1, hb2⟩ := hreq.begin_
  obtain ⟨ve, he1, he2⟩ := hreq.end_
  have hst : (c.state == st_RESENDREQ_HANDLING || c.state == st_RESENDREQ_AWAITING) = true := by
    rcases hin with h | h <;> simp [h]
  unfold resendBody
  simp only [M.bind_apply, hreq.mtype, beq_self_eq_true, M.assert_true_apply, M.get_apply, hst, Msg.get,
    hb1, he1, M.liftE_apply, M.int_apply_of hb2, M.int_apply_of he2, List.nil_append]

/-- the effective EndSeqNo of `_process_resend` -/
def effEnd (e0 : Int) : Int := if e0 == 0 then sysMaxsize else e0

/-- the connection after a served request: as before except the outbound rows from `b` on (now the
frames just sent), the inbound side of `set_seq_num`, and the state excursion -/
def served (c : Conn) (b : Int) (sent : Rows) : Conn :=
  { c with
    state := if c.state = st_RESENDREQ_AWAITING then st_RESENDREQ_AWAITING else st_ACTIVE
    wasActive := c.wasActive || (c.state != st_RESENDREQ_AWAITING)
    journal := { out := c.journal.out.below b ++ sent, inb := c.journal.inb.below c.sess.nextIn,
                 outSeq := c.sess.nextOut - 1, inSeq := c.sess.nextIn - 1 } }

theorem resendBody_valid (env : Env) (sr : Msg → Bool) (m : Msg) (c : Conn) (b e0 : Int)
    (hreq : Req m b e0) (hctx : LoopCtx env c) (hinv : OutInv c)
    (hb1 : 1 ≤ b) (hb2 : b < c.sess.nextOut)
    (he : e0 = 0 ∨ c.sess.nextOut - 1 ≤ e0) (hmax : c.sess.nextOut - 1 ≤ sysMaxsize) :
    ∃ sent : Rows,
      resendBody env sr m c =
        ⟨.ok (), served c b sent,
          sent.map (fun p => Effect.write p.2) ++
            (if c.state = st_RESENDREQ_AWAITING then [] else [.onState st_ACTIVE])⟩ ∧
      Chain c.sess c.journal.out sr b c.sess.nextOut (sent.map (·.2)) ∧
      Rows.Sorted (c.journal.out.below b ++ sent) ∧
      Rows.AllLt c.sess.nextOut (c.journal.out.below b ++ sent) ∧
      (∀ p ∈ sent, RowOK p.1 p.2 ∧ b ≤ p.1) := by
  have hcond : (decide (b < 1) || decide (b ≥ c.sess.nextOut)) = false := by
    simp; omega
  rw [resendBody_head env sr m c b e0 hreq hctx.inres.1]
  simp only [hcond, Bool.false_eq_true, if_false]
  -- first set_seq_num
  have e1 := setSeqNum_out b (by omega) c
  -- the loop
  have hJ := hinv.sorted
  have hend : ∀ n, n < c.sess.nextOut → n ≤ (if e0 == 0 then sysMaxsize else e0) := by
    intro n hn
    rcases he with h | h
    · subst h; simp only [beq_self_eq_true, if_true]; omega
    · split <;> omega
  let c1 : Conn := { c with sess := { c.sess with nextOut := b },
                            journal := c.journal.setSeq b c.sess.nextIn }
  have hctx1 : LoopCtx env c1 := ⟨hctx.inres, hctx.lsender, hctx.ltarget, hctx.lstamp⟩
  obtain ⟨sent, gfb', gfe', os, e2, ch2, b1, b2, so2, lt2, ok2, no2⟩ :=
    resendLoop_spec env sr c.journal.out hJ c.sess.nextOut
      (c.journal.out.range b (if e0 == 0 then sysMaxsize else e0)) b b c1 hctx1 (by omega) (by omega)
      (by omega) (Rows.sorted_below hJ b) (Rows.allLt_below b _) (Rows.sorted_range hJ _ _)
      (by
        intro p hp
        obtain ⟨h1, h2, _⟩ := Rows.mem_range.mp hp
        exact ⟨h2, hinv.lt p h1, h1, hinv.rows p h1⟩)
      (by
        intro n row h1 h2 h3 _
        exact Rows.mem_range.mpr ⟨h3, h1, hend n h2⟩)
  have hle := chain_le ch2
  have hout1 : c1.journal.out = c.journal.out.below b := rfl
  have hsess1 : c1.sess.nextOut = b := rfl
  rw [hout1] at e2 so2 lt2
  -- trailing gap fill
  have hctx3 := hctx1.withOut (c.journal.out.below b ++ sent) os
  obtain ⟨pre, os3, e3, ch3, so3, lt3, ok3⟩ :=
    gap_step env sr c.journal.out (withOut c1 (c.journal.out.below b ++ sent) os) gfb' c.sess.nextOut
      hctx3 (by omega) b1 (by simpa using so2) (by simpa using lt2)
      (by
        intro n row h1 h2 h3
        exact no2 n row h1 h2 ((Rows.find_eq_some_iff hJ _ _).mp h3))
  simp only [withOut_out, withOut_withOut] at e3 so3 lt3
  -- second set_seq_num
  have hbelow : (c.journal.out.below b ++ (sent ++ pre)).below c.sess.nextOut =
      c.journal.out.below b ++ (sent ++ pre) :=
    Rows.below_of_allLt _ _ (by simpa [List.append_assoc] using lt3)
  have hinb : (c.journal.inb.below c.sess.nextIn).below c.sess.nextIn =
      c.journal.inb.below c.sess.nextIn := Rows.below_of_allLt _ _ (Rows.allLt_below _ _)
  let c5 : Conn := { c with journal :=
    { out := c.journal.out.below b ++ (sent ++ pre), inb := c.journal.inb.below c.sess.nextIn,
      outSeq := c.sess.nextOut - 1, inSeq := c.sess.nextIn - 1 } }
  have e4 : setSeqNum (some c.sess.nextOut) none
      (withOut c1 (c.journal.out.below b ++ sent ++ pre) os3) = ⟨.ok (), c5, []⟩ := by
    rw [setSeqNum_out c.sess.nextOut (by omega)]
    simp only [c5, c1, withOut, Journal.setSeq, hinb, List.append_assoc]
    rw [hbelow]
  have hlast : (M.get >>= fun c2 =>
      if (c2.state != st_RESENDREQ_AWAITING) = true then stateSet st_ACTIVE else pure ()) c5 =
      ⟨.ok (), served c b (sent ++ pre),
        if c.state = st_RESENDREQ_AWAITING then [] else [.onState st_ACTIVE]⟩ := by
    rcases hctx.inres.1 with h | h
    · have hne : c.state ≠ st_RESENDREQ_AWAITING := by rw [h]; decide
      simp [M.bind_apply, h, stateSet, served, c5, st_RESENDREQ_HANDLING, st_RESENDREQ_AWAITING,
        st_ACTIVE]
    · simp [M.bind_apply, h, served, c5]
  refine ⟨sent ++ pre, ?_, ?_, by simpa [List.append_assoc] using so3,
    by simpa [List.append_assoc] using lt3, ?_⟩
  · have hsplit : ∀ (F : M Unit),
        (if gfb' < c.sess.nextOut then (do sendMsg env (gapFillMsg gfb' c.sess.nextOut); F) else F) =
          ((if gfb' < c.sess.nextOut then sendMsg env (gapFillMsg gfb' c.sess.nextOut) else pure ())
            >>= fun _ => F) := by
      intro F; split <;> rfl
    have hge : M.assert (decide (gfe' ≤ c.sess.nextOut))
        (withOut c1 (c.journal.out.below b ++ sent) os) =
          ⟨.ok (), withOut c1 (c.journal.out.below b ++ sent) os, []⟩ := by
      have : decide (gfe' ≤ c.sess.nextOut) = true := by simpa using b2
      rw [this]; rfl
    refine (M.bind_ok2 e1 (M.bind_ok2 e2 (M.bind_ok2 hge ((congrFun (hsplit _) _).trans
      (M.bind_ok2 e3 (M.bind_ok2 e4 hlast)))))).trans ?_
    simp
  · have := chain_append ch2 ch3
    rw [List.map_append]
    exact chain_sess_congr (s := c1.sess) (s' := c.sess) rfl rfl this
  · intro p hp
    simp only [List.mem_append] at hp
    rcases hp with hp | hp
    · exact ok2 p hp
    · obtain ⟨h1, h2⟩ := ok3 p hp
      exact ⟨h1, by omega⟩
end AsyncFix.Session.C06
