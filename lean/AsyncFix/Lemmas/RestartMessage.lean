import AsyncFix.Lemmas.RestartHead

/-!
Restart family: `_process_message` as a whole.  On a run without exceptions, started with a positive
inbound counter, it satisfies `Good (some m)`.
-/
set_option linter.unusedSectionVars false

namespace AsyncFix.Restart

open AsyncFix.Session AsyncFix.Generated AsyncFix.Generated.ConnEnum

variable {g : List Effect → Bool} [EffGuard g] {om : Option Msg}

theorem P2.of_ni {m : Msg} {c c' : Conn} (h : c'.sess.nextIn = c.sess.nextIn) (hp : P2 m c) : P2 m c' := by
  intro h4; rw [h]; exact hp h4

/-- the part of the head after the type-specific handling only reads and sends -/
theorem headRest_ni (env : Env) (m : Msg) : M.Rel NI (do
    let c2 ← M.get
    if c2.state ≤ st_DISCONNECTED_BROKEN_CONN then pure none
    else do
      let v ← M.liftE (m.get tMsgSeqNum)
      let n ← M.int v
      let valid ← checkSeqnumGaps env n
      pure (some (valid, n)) : M (Option (Bool × Int))) := by
  rel_tac [checkSeqnumGaps_ni]

theorem processHead_p2 (env : Env) (m : Msg) :
    OkPost g (processHead env m) (fun r c' => r.isSome = true → P2 m c') := by
  by_cases h4 : m.mtype = mSequenceReset
  case neg => exact ⟨fun _ _ _ _ _ _ _ h => absurd h h4⟩
  unfold processHead
  dsimp only
  simp only [pure_bind, h4, Bool.false_eq_true, if_false, if_true]
  simp [mLogon, mLogout, mSequenceReset, -bind_assoc, -bind_pure_comp]
  apply OkPost.skip; intro c
  apply OkPost.skip; intro _
  split
  · apply OkPost.skip; intro _
    exact OkPost.pure (fun _ h => by cases h)
  apply OkPost.skip; intro c1
  split
  · apply OkPost.skip; intro _
    exact OkPost.pure (fun _ h => by cases h)
  apply OkPost.bind_pre (processSeqreset_p2 m)
  intro ok
  split
  · have : OkPost g (do
        let v ← M.liftE (m.get tMsgSeqNum)
        let n ← M.int v
        let _ ← checkSeqnumGaps env n
        pure none : M (Option (Bool × Int))) (fun b _ => b = none) := by
      apply OkPost.skip; intro _
      apply OkPost.skip; intro _
      apply OkPost.skip; intro _
      exact OkPost.pure (fun _ => rfl)
    exact this.conseq (fun _ b _ _ hb _ hf => by rw [hb] at hf; cases hf)
  · rename_i hok
    have hni := OkSpec.ofRel (g := g) (headRest_ni env m)
    refine hni.conseq (fun c0 b c' _ hn hf _ => P2.of_ni hn (hf ?_))
    simpa using hok

end AsyncFix.Restart
