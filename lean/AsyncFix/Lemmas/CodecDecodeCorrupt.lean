/-
Uniqueness of the decomposition `pre ++ SOH "10=" v [SOH]` of a frame, the effect of a
one-byte substitution on the byte sum, and: a frame-shaped buffer whose CheckSum value does
not match its bytes is never returned, whatever follows it (`mismatching_frame_rejected`).
-/
import AsyncFix.Lemmas.CodecDecodeLoopCk
namespace AsyncFix.Model.Codec

theorem last_field_unique {p1 p2 X1 X2 : Bytes} (h : p1 ++ SOH :: X1 = p2 ++ SOH :: X2)
    (h1 : SOH ∉ X1) (h2 : SOH ∉ X2) : p1 = p2 ∧ X1 = X2 := by
  rcases List.append_eq_append_iff.1 h with ⟨a', ha, hy⟩ | ⟨c', hc, hz⟩
  · cases a' with
    | nil =>
      simp only [List.nil_append, List.cons.injEq, true_and] at hy
      exact ⟨by simpa using ha.symm, hy⟩
    | cons d a'' =>
      simp only [List.cons_append, List.cons.injEq] at hy
      exfalso; apply h1; rw [hy.2]; simp
  · cases c' with
    | nil =>
      simp only [List.nil_append, List.cons.injEq, true_and] at hz
      exact ⟨by simpa using hc, hz.symm⟩
    | cons d c'' =>
      simp only [List.cons_append, List.cons.injEq] at hz
      exfalso; apply h2; rw [hz.2]; simp

theorem not_end_with_sep {p X q : Bytes} (hX : X ≠ []) (h1 : SOH ∉ X) :
    p ++ SOH :: X ≠ q ++ [SOH] := by
  intro h
  rcases List.eq_nil_or_concat X with hx | ⟨X', l, hx⟩
  · exact hX hx
  · rw [List.concat_eq_append] at hx
    subst hx
    have : (p ++ SOH :: X') ++ [l] = q ++ [SOH] := by simpa using h
    have := (List.append_inj' this rfl).2
    simp only [List.cons.injEq, and_true] at this
    apply h1; rw [this]; simp

/-- the strict CheckSum parser: exactly three ASCII digits -/
theorem ckParse_some {v : Bytes} {n : Nat} (h : ckParse v = some n) :
    ∃ a b c, v = [a, b, c] ∧ isDigit a = true ∧ isDigit b = true ∧ isDigit c = true ∧
      n = (a - 48) * 100 + (b - 48) * 10 + (c - 48) := by
  unfold ckParse at h
  split at h
  · rename_i a b c
    split at h
    · rename_i hd
      simp only [Bool.and_eq_true] at hd
      cases h
      exact ⟨a, b, c, rfl, hd.1.1, hd.1.2, hd.2, rfl⟩
    · cases h
  · cases h

/-- … and it is injective: a CheckSum value is determined by the number it denotes -/
theorem ckParse_inj {v1 v2 : Bytes} {n : Nat} (h1 : ckParse v1 = some n) (h2 : ckParse v2 = some n) :
    v1 = v2 := by
  obtain ⟨a, b, c, rfl, ha, hb, hc, hn⟩ := ckParse_some h1
  obtain ⟨a', b', c', rfl, ha', hb', hc', hn'⟩ := ckParse_some h2
  simp only [isDigit, Bool.and_eq_true, decide_eq_true_eq] at ha hb hc ha' hb' hc'
  have : a = a' ∧ b = b' ∧ c = c' := by omega
  rw [this.1, this.2.1, this.2.2]

theorem ckParse_noSep {v : Bytes} {n : Nat} (h : ckParse v = some n) : SOH ∉ v := by
  obtain ⟨a, b, c, rfl, ha, hb, hc, _⟩ := ckParse_some h
  simp only [isDigit, Bool.and_eq_true, decide_eq_true_eq] at ha hb hc
  simp only [List.mem_cons, List.not_mem_nil, or_false, SOH]
  omega

theorem ckfield_noSep {v : Bytes} (h : SOH ∉ v) : SOH ∉ ck3 ++ v := by
  intro hm
  rcases List.mem_append.1 hm with h1 | h1
  · revert h1; decide
  · exact h h1

/-- a frame determines its CheckSum field: the decomposition is unique -/
theorem ck_decomp_unique {p1 p2 v1 v2 t1 t2 : Bytes}
    (h : p1 ++ SOH :: (ck3 ++ v1) ++ t1 = p2 ++ SOH :: (ck3 ++ v2) ++ t2)
    (h1 : SOH ∉ v1) (h2 : SOH ∉ v2) (ht1 : t1 = [] ∨ t1 = [SOH]) (ht2 : t2 = [] ∨ t2 = [SOH]) :
    p1 = p2 ∧ v1 = v2 ∧ t1 = t2 := by
  have n1 := ckfield_noSep h1
  have n2 := ckfield_noSep h2
  have ne1 : ck3 ++ v1 ≠ [] := by simp [ck3]
  have ne2 : ck3 ++ v2 ≠ [] := by simp [ck3]
  rcases ht1 with rfl | rfl <;> rcases ht2 with rfl | rfl
  · simp only [List.append_nil] at h
    obtain ⟨hp, hx⟩ := last_field_unique h n1 n2
    exact ⟨hp, List.append_cancel_left hx, rfl⟩
  · simp only [List.append_nil] at h
    exact absurd h (not_end_with_sep ne1 n1)
  · simp only [List.append_nil] at h
    exact absurd h.symm (not_end_with_sep ne2 n2)
  · have := List.append_cancel_right h
    obtain ⟨hp, hx⟩ := last_field_unique this n1 n2
    exact ⟨hp, List.append_cancel_left hx, rfl⟩

/-- a substitution of one byte by a different byte changes the sum mod 256 -/
theorem sum_subst_ne {a b : Bytes} {x y : Nat} (hx : x < 256) (hy : y < 256) (hxy : x ≠ y) :
    (sum (a ++ x :: b) + 1) % 256 ≠ (sum (a ++ y :: b) + 1) % 256 := by
  rw [sum_append, sum_append, sum_cons, sum_cons]
  omega

/-- the CheckSum statement in the form "frame = pre ++ SOH 10= v ++ tail"; since the decoder waits
for the SOH that terminates the CheckSum field, `tail` is in fact always `[SOH]` (`decode_checksum_soh`) -/
theorem decode_checksum' {bs : Bytes} {tbl : Tbl} {raw : Bytes} {m : Msg} {n : Nat} {enc : Bytes}
    (h : decode bs tbl raw = .msg m n enc) :
    ∃ pre v tail, enc = pre ++ SOH :: (ck3 ++ v) ++ tail ∧ (tail = [] ∨ tail = [SOH]) ∧ SOH ∉ v ∧
      ckParse v = some ((sum pre + 1) % 256) ∧ pre = join SOH (fieldsOf enc).dropLast := by
  obtain ⟨F, v, hf, _, hv, hpy, henc⟩ := decode_checksum h
  have hd : (fieldsOf enc).dropLast = F := by rw [hf]; simp
  rcases henc with h0 | h0
  · exact ⟨join SOH F, v, [], by rw [List.append_nil]; exact h0, Or.inl rfl, hv, hpy, by rw [hd]⟩
  · exact ⟨join SOH F, v, [SOH], h0, Or.inr rfl, hv, hpy, by rw [hd]⟩

/-- **every returned frame is `pre ++ SOH "10=" ddd SOH`** with `ddd` the three-digit byte sum -/
theorem decode_checksum_soh {bs : Bytes} {tbl : Tbl} {raw : Bytes} {m : Msg} {n : Nat} {enc : Bytes}
    (h : decode bs tbl raw = .msg m n enc) :
    ∃ pre v, enc = pre ++ SOH :: (ck3 ++ v) ++ [SOH] ∧
      ckParse v = some ((sum pre + 1) % 256) ∧ pre = join SOH (fieldsOf enc).dropLast := by
  obtain ⟨pre, v, tail, he, ht, hv, hp, hpre⟩ := decode_checksum' h
  rcases ht with rfl | rfl
  · exfalso
    rw [List.append_nil] at he
    obtain ⟨x, hx⟩ := decode_msg_ends_soh h (a := pre) (b := v) (by rw [he, cksumPat_eq]; simp)
    rw [he] at hx
    exact not_end_with_sep (by simp [ck3]) (ckfield_noSep hv) hx
  · exact ⟨pre, v, he, hp, hpre⟩

/-- what `decode` parses when the buffer starts with a frame-shaped piece -/
theorem cut_of_frame {pre v rest : Bytes} (hck : findSub cksumPat (pre ++ cksumPat) = some pre.length)
    (hv : SOH ∉ v) :
    closedAtOf (pre ++ cksumPat ++ v ++ SOH :: rest) = some (pre ++ cksumPat ++ v ++ [SOH]).length ∧
    (pre ++ cksumPat ++ v ++ SOH :: rest).take (cutOf (pre ++ cksumPat ++ v ++ SOH :: rest)) =
      pre ++ cksumPat ++ v ++ [SOH] := by
  have h1 : findSub cksumPat (pre ++ cksumPat ++ v ++ SOH :: rest) = some pre.length := by
    have := findSub_append (v ++ SOH :: rest) hck
    simpa only [List.append_assoc] using this
  have h2 : (pre ++ cksumPat ++ v ++ SOH :: rest).drop (pre.length + 1) = (ck3 ++ v) ++ SOH :: rest := by
    apply drop_succ_of_eq _ (P := pre) (s := SOH) _ rfl
    simp [cksumPat_eq]
  have h3 : findChar SOH ((ck3 ++ v) ++ SOH :: rest) = some (ck3 ++ v).length :=
    findChar_of_notMem _ _ (ckfield_noSep hv)
  have hc : closedAtOf (pre ++ cksumPat ++ v ++ SOH :: rest) =
      some (pre ++ cksumPat ++ v ++ [SOH]).length := by
    unfold closedAtOf
    rw [h1]; dsimp only
    rw [h2, h3]; dsimp only
    simp [cksumPat, ck3]; omega
  refine ⟨hc, ?_⟩
  unfold cutOf
  rw [hc, Option.getD_some]
  have : pre ++ cksumPat ++ v ++ SOH :: rest = (pre ++ cksumPat ++ v ++ [SOH]) ++ rest := by simp
  rw [this]
  exact List.take_left' rfl

theorem findSub_zero_of_prefix {pat s : Bytes} (hs : s ≠ []) (h : isPrefix pat s = true) :
    findSub pat s = some 0 := by
  cases s with
  | nil => exact absurd rfl hs
  | cons c cs => simp [findSub, h]

/-- **a frame-shaped buffer whose CheckSum value does not match its bytes is never returned**,
whatever follows it in the buffer -/
theorem mismatching_frame_rejected (bs : Bytes) (tbl : Tbl) {pre v : Bytes}
    (hm : isPrefix marker pre = true)
    (hck : findSub cksumPat (pre ++ cksumPat) = some pre.length) (hv : SOH ∉ v)
    (hbad : ckParse v ≠ some ((sum pre + 1) % 256)) (rest : Bytes) (m : Msg) (n : Nat) (e : Bytes) :
    decode bs tbl (pre ++ cksumPat ++ v ++ SOH :: rest) ≠ .msg m n e := by
  intro h
  have h' := h
  rw [decode_eq] at h'
  have hpre : isPrefix marker (pre ++ cksumPat ++ v ++ SOH :: rest) = true := by
    obtain ⟨r, hr⟩ := isPrefix_iff.1 hm
    rw [hr]; simp only [List.append_assoc]; exact isPrefix_append _ _
  rw [findSub_zero_of_prefix (by simp [cksumPat]) hpre] at h'
  simp only [List.drop_zero] at h'
  have hnopen : ckOpen (pre ++ cksumPat ++ v ++ SOH :: rest) = false := by
    unfold ckOpen
    rw [(cut_of_frame (rest := rest) hck hv).1]
    simp
  rw [hnopen] at h'
  simp only [Bool.false_eq_true, if_false] at h'
  obtain ⟨_, _, _, _, _, _, _, _, _, _, _, _, _, _, _, _, _, _, he⟩ := decodeFields_msg h'
  rw [(cut_of_frame hck hv).2] at he
  obtain ⟨p2, v2, t2, henc, ht2, hv2, hpy, _⟩ := decode_checksum' h
  rw [he] at henc
  have hform : pre ++ cksumPat ++ v ++ [SOH] = pre ++ SOH :: (ck3 ++ v) ++ [SOH] := by
    simp [cksumPat_eq]
  rw [hform] at henc
  obtain ⟨hp, hvv, _⟩ := ck_decomp_unique henc hv hv2 (Or.inr rfl) ht2
  apply hbad
  rw [hvv, hp]; exact hpy

end AsyncFix.Model.Codec
