/-
float() on the members of the FIX float lexical space: it parses, and the result is finite unless
the magnitude reaches 2^1024 − 2^970.
-/
import AsyncFix.Lemmas.LexFloat
namespace AsyncFix.Lemmas.LexFloatPy
open AsyncFix.Py AsyncFix.Model AsyncFix.Model.Lexical AsyncFix.Model.LexClass
open AsyncFix.Lemmas.LexInt AsyncFix.Lemmas.LexFloat

/-- the characters of a FIX float: ASCII digits, '-', '.' -/
def floatChar (c : Nat) : Bool := isAsciiDigit c || c == 45 || c == 46

theorem floatChar_facts {c : Nat} (h : floatChar c = true) :
    xform c = c ∧ isAsciiSpace c = false ∧ c ≠ 95 := by
  simp only [floatChar, Bool.or_eq_true, beq_iff_eq] at h
  have : c = 45 ∨ c = 46 ∨ (48 ≤ c ∧ c ≤ 57) := by
    rcases h with (h | h) | h
    · exact Or.inr (Or.inr (digit_iff.1 h))
    · exact Or.inl h
    · exact Or.inr (Or.inl h)
  refine ⟨?_, ?_, ?_⟩
  · simp [xform]; omega
  · simp [isAsciiSpace]; omega
  · omega

theorem map_xform_floatChars {t : Str} (h : t.all floatChar = true) : t.map xform = t := by
  induction t with
  | nil => rfl
  | cons c cs ih =>
    simp only [List.all_cons, Bool.and_eq_true] at h
    simp [(floatChar_facts h.1).1, ih h.2]

theorem dropTrailingSpace_id {t : Str} (h : t.all floatChar = true) : dropTrailingSpace t = t := by
  induction t with
  | nil => rfl
  | cons c cs ih =>
    simp only [List.all_cons, Bool.and_eq_true] at h
    simp [dropTrailingSpace, ih h.2, (floatChar_facts h.1).2.1]

theorem removeUnderscores_id {t : Str} (h : t.all floatChar = true) :
    ∀ prev, prev ≠ 95 → removeUnderscores prev t = some t := by
  induction t with
  | nil => intro prev hp; simp [removeUnderscores, hp]
  | cons c cs ih =>
    intro prev hp
    simp only [List.all_cons, Bool.and_eq_true] at h
    have hc := (floatChar_facts h.1).2.2
    simp [removeUnderscores, hc, hp, ih h.2 c hc]

theorem digits_floatChars {ds : Str} (h : ds.all isAsciiDigit = true) : ds.all floatChar = true := by
  induction ds with
  | nil => rfl
  | cons c cs ih =>
    simp only [List.all_cons, Bool.and_eq_true] at h
    simp [floatChar, h.1, ih h.2]

theorem form_floatChars {b : Str} (h : FloatForm b) : b.all floatChar = true ∧ b ≠ [] := by
  obtain ⟨ip, fp, hip, hfp, (⟨rfl, hne⟩ | ⟨rfl, hne⟩)⟩ := h
  · exact ⟨digits_floatChars hip, hne⟩
  · refine ⟨?_, by simp⟩
    simp [digits_floatChars hip, digits_floatChars hfp, floatChar]

theorem filter_digits_id {ds : Str} (h : ds.all isAsciiDigit = true) : ds.filter isAsciiDigit = ds := by
  induction ds with
  | nil => rfl
  | cons c cs ih =>
    simp only [List.all_cons, Bool.and_eq_true] at h
    simp [List.filter, h.1, ih h.2]

/-- head of an unsigned float form is a digit or '.', hence no sign to strip -/
theorem stripSign_form {b : Str} (h : FloatForm b) : stripSign b = b := by
  obtain ⟨hall, hne⟩ := form_floatChars h
  obtain ⟨c, cs, rfl⟩ := List.exists_cons_of_ne_nil hne
  have hc : c ≠ 43 ∧ c ≠ 45 := by
    obtain ⟨ip, fp, hip, hfp, (⟨he, hne'⟩ | ⟨he, hne'⟩)⟩ := h
    · rw [← he] at hip
      simp only [List.all_cons, Bool.and_eq_true] at hip
      have := digit_iff.1 hip.1; omega
    · cases ip with
      | nil => simp at he; omega
      | cons a t =>
        simp only [List.all_cons, Bool.and_eq_true] at hip
        have := digit_iff.1 hip.1
        simp at he; omega
  unfold stripSign
  split
  · rename_i heq; injection heq with h1 _; omega
  · rename_i heq; injection heq with h1 _; omega
  · rfl

/-- the literal float() reads from an unsigned float form -/
theorem parseDecimal_form {b : Str} {ip fp : Str} (hip : ip.all isAsciiDigit = true)
    (hfp : fp.all isAsciiDigit = true)
    (hb : (b = ip ∧ ip ≠ [] ∧ fp = []) ∨ (b = ip ++ 46 :: fp ∧ (ip ≠ [] ∨ fp ≠ [])))
    {u : Str} (hs : stripSign u = b) :
    parseDecimal u = some ⟨(ip ++ fp).map (· - 48), fp.length, 0⟩ := by
  unfold parseDecimal
  rw [hs]
  rcases hb with ⟨rfl, hne, rfl⟩ | ⟨rfl, hne⟩
  · simp only [(tw_all hip).1, (tw_all hip).2]
    simp [hne]
  · simp only [(tw_dot hip fp).1, (tw_dot hip fp).2, (tw_all hfp).1, (tw_all hfp).2]
    rcases hne with h | h <;> simp [h]

/-- magnitude test of `floatOverflow` on the unsigned part -/
def unsignedOverflow (b : Str) : Bool :=
  let ds := (b.filter isAsciiDigit).map (· - 48)
  !decFinite (decVal ds) ds.length (- (((b.dropWhile isAsciiDigit).filter isAsciiDigit).length : Int))

theorem floatOverflow_eq (s : Str) : floatOverflow s = unsignedOverflow (dropMinus s) := rfl

theorem overflow_form {b ip fp : Str} (hip : ip.all isAsciiDigit = true) (hfp : fp.all isAsciiDigit = true)
    (hb : (b = ip ∧ ip ≠ [] ∧ fp = []) ∨ (b = ip ++ 46 :: fp ∧ (ip ≠ [] ∨ fp ≠ []))) :
    unsignedOverflow b = !(DecLit.finite ⟨(ip ++ fp).map (· - 48), fp.length, 0⟩) := by
  unfold unsignedOverflow DecLit.finite
  rcases hb with ⟨rfl, -, rfl⟩ | ⟨rfl, -⟩
  · simp [filter_digits_id hip, (tw_all hip).2]
  · simp [List.filter_append, filter_digits_id hip, filter_digits_id hfp, (tw_dot hip fp).2,
      not_digit_dot, List.filter]

/-- float() on an optional '-' followed by an unsigned float form -/
theorem pyFloat_form {t b : Str} (ht : t = b ∨ t = 45 :: b) (hf : FloatForm b) :
    pyFloat t = if unsignedOverflow b then .nonFinite else .finite := by
  obtain ⟨hall, hne⟩ := form_floatChars hf
  have htall : t.all floatChar = true := by
    rcases ht with rfl | rfl
    · exact hall
    · simp [floatChar, hall]
  have htne : t ≠ [] := by
    rcases ht with rfl | rfl
    · exact hne
    · simp
  have hstrip : stripSign t = b := by
    rcases ht with rfl | rfl
    · exact stripSign_form hf
    · rfl
  obtain ⟨ip, fp, hip, hfp, hb⟩ := hf
  have hb' : ∃ fp', fp'.all isAsciiDigit = true ∧
      ((b = ip ∧ ip ≠ [] ∧ fp' = []) ∨ (b = ip ++ 46 :: fp' ∧ (ip ≠ [] ∨ fp' ≠ []))) := by
    rcases hb with ⟨h1, h2⟩ | h
    · exact ⟨[], rfl, Or.inl ⟨h1, h2, rfl⟩⟩
    · exact ⟨fp, hfp, Or.inr h⟩
  obtain ⟨fp', hfp', hb'⟩ := hb'
  unfold pyFloat
  rw [map_xform_floatChars htall]
  unfold pyFloatAscii
  obtain ⟨c, cs, rfl⟩ := List.exists_cons_of_ne_nil htne
  have hc : floatChar c = true := by
    simp only [List.all_cons, Bool.and_eq_true] at htall; exact htall.1
  have e1 : (c :: cs).dropWhile isAsciiSpace = c :: cs := by
    simp [List.dropWhile, (floatChar_facts hc).2.1]
  simp only [e1, List.isEmpty_cons, Bool.false_eq_true, ↓reduceIte, dropTrailingSpace_id htall,
    removeUnderscores_id htall 0 (by decide), parseDecimal_form hip hfp' hb' hstrip,
    overflow_form hip hfp' hb']
  cases DecLit.finite ⟨(ip ++ fp').map (· - 48), fp'.length, 0⟩ <;> rfl

theorem isFloat_cases {s : Str} : LexSpec.isFloat s = true ↔
    ∃ b, (s = b ∨ s = 45 :: b) ∧ FloatForm b ∧ dropMinus s = b := by
  unfold LexSpec.isFloat
  split
  · rename_i r
    rw [isUnsigned_iff]
    constructor
    · intro h; exact ⟨r, Or.inr rfl, h, rfl⟩
    · rintro ⟨b, (rfl | he), hf, hd⟩
      · exfalso
        have := stripSign_form hf
        simp [stripSign] at this
      · injection he with _ he; subst he; exact hf
  · rename_i hne
    rw [isUnsigned_iff]
    constructor
    · intro h
      refine ⟨s, Or.inl rfl, h, ?_⟩
      unfold dropMinus
      split
      · rename_i r; exact absurd rfl (hne r)
      · rfl
    · rintro ⟨b, (rfl | rfl), hf, hd⟩
      · exact hf
      · exact absurd rfl (hne b)

/-- float family: accepted = FIX float whose magnitude float() can hold -/
theorem float_pass_iff (cfg : Cfg) (s : Str) :
    validateTyped cfg .float s = .pass ↔ LexSpec.isFloat s = true ∧ floatOverflow s = false := by
  show validateNumber cfg .float false false true none s = .pass ↔ _
  unfold validateNumber
  rw [reFloat_eq, floatOverflow_eq]
  cases hs : s with
  | nil => simp [LexSpec.isFloat, LexSpec.isUnsignedFloat]
  | cons c cs =>
    rw [← hs]
    simp only [hs, List.isEmpty_cons, Bool.false_eq_true, ↓reduceIte, Bool.or_self, Option.isSome_none]
    rw [← hs]
    cases hfl : LexSpec.isFloat s with
    | false => cases pyFloat s <;> simp
    | true =>
      obtain ⟨b, ht, hf, hd⟩ := isFloat_cases.1 hfl
      rw [pyFloat_form ht hf, hd]
      cases unsignedOverflow b <;> simp

end AsyncFix.Lemmas.LexFloatPy
