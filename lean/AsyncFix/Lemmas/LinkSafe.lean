import AsyncFix.Lemmas.LinkSafeC

/-!
Link family: `SafeInv` is an inductive invariant of the abstract protocol model (`safeInv_init`, `safeInv_step`);
the counters never decrease (`astep_o_mono`).  The consequences of `Safe` used by the property statements
(`safe_prefix`, `safe_seq_increasing`, `safe_complete`, `safe_number_stable`) are in `LinkSafeA`.
-/
namespace AsyncFix.Link

open AsyncFix.Session

theorem safeInv_init :
    SafeInv { i := ⟨.disc, true, 1, 1, 0, []⟩, a := ⟨.disc, false, 1, 1, 0, []⟩ } := by
  decide

theorem eof_o (c : AConn) : c.eof.o = c.o := by
  unfold AConn.eof; split <;> rfl

theorem eof_out (c : AConn) : c.eof.out = c.out := by
  unfold AConn.eof; split <;> rfl

theorem eof_e (c : AConn) : c.eof.e = c.e := by
  unfold AConn.eof; split <;> rfl

/-- counters never decrease -/
theorem astep_o_mono (l : ALink) (ev : AEv) : l.i.o ≤ (astep l ev).i.o ∧ l.a.o ≤ (astep l ev).a.o := by
  cases ev with
  | appSend s p ok =>
    cases s <;> simp only [astep]
    rw [show l.conn Side.I = l.i from rfl]
    rotate_left
    rw [show l.conn Side.A = l.a from rfl]
    rotate_left
    · by_cases hc : (l.i.canSend && ok) = true
      · rw [if_pos hc]; simp [ALink.absorb, ALink.noteAccepted, AConn.push]; omega
      · rw [if_neg hc]; simp
    · by_cases hc : (l.a.canSend && ok) = true
      · rw [if_pos hc]; simp [ALink.absorb, ALink.noteAccepted, AConn.push]; omega
      · rw [if_neg hc]; simp
  | deliverNext to =>
    cases to <;> simp only [astep, ALink.queueTo]
    rw [show l.conn Side.I = l.i from rfl]
    rotate_left
    rw [show l.conn Side.A = l.a from rfl]
    rotate_left
    all_goals split <;> try simp
    · by_cases hc : l.i.st = ASt.disc
      · rw [if_pos hc]; simp [ALink.pop]
      · rw [if_neg hc]; simpa [ALink.pop, ALink.absorb] using (arecv_ok l.i _).mono
    · by_cases hc : l.a.st = ASt.disc
      · rw [if_pos hc]; simp [ALink.pop]
      · rw [if_neg hc]; simpa [ALink.pop, ALink.absorb] using (arecv_ok l.a _).mono
  | breakConn => simp [astep, eof_o]
  | reconnect =>
    simp only [astep]
    by_cases hc : (l.i.st ≠ ASt.disc || l.a.st ≠ ASt.disc) = true
    · rw [if_pos hc]; simp
    · rw [if_neg hc]; simp [AConn.push]; omega

/-- one delivery, seen from both directions: `Y` consumes the head of `X → Y` and answers on `Y → X` -/
theorem safe_deliver {X Y : AConn} {QXY QYX delY delX accX accY wireX wireY} {f : AFrame} {rest}
    (hXY : Safe X Y QXY delY accX wireX) (hYX : Safe Y X QYX delX accY wireY) (hq : QXY = f :: rest)
    (hmax : (arecv Y f).c.o ≤ sysMaxsize + 1) :
    Safe X (arecv Y f).c QXY.tail (delY ++ (arecv Y f).dl) accX wireX ∧
      Safe (arecv Y f).c X (QYX ++ (arecv Y f).wr) delX accY (wireY ++ (arecv Y f).wr) := by
  have ok := arecv_ok Y f
  constructor
  · exact (safe_recv hXY (hXY.sub f (by simp [hq])) ok.recv).subQ fun g hg => List.mem_of_mem_tail hg
  · have h1 : 1 ≤ Y.o := Int.le_trans hYX.e1 hYX.s2
    simpa using safe_send (X' := (arecv Y f).c) hYX (ok.send hYX.keys h1 hmax)

theorem safe_push_session {X Y X0 : AConn} {Q delY accX wireX} (h : Safe X Y Q delY accX wireX) (k : AKind)
    (hk : k.entry = none) (hg : ∀ nw, k ≠ .gapFill nw) (ho : X0.o = X.o) (hj : X0.out = X.out) :
    Safe (X0.push k).1 Y (Q ++ [(X0.push k).2]) delY accX (wireX ++ [(X0.push k).2]) := by
  have h0 : Safe X0 Y Q delY accX wireX := h.congr ho hj rfl
  have := safe_send (X' := (X0.push k).1) h0 (push_send X0 k hg h0.keys (Int.le_trans h0.e1 h0.s2))
  simpa [pushExt, hk] using this

theorem safe_push_app {X Y : AConn} {Q delY accX wireX} (h : Safe X Y Q delY accX wireX) (p : Payload) :
    Safe (X.push (.app p false)).1 Y (Q ++ [(X.push (.app p false)).2]) delY (accX ++ [p])
      (wireX ++ [(X.push (.app p false)).2]) := by
  have := safe_send (X' := (X.push (.app p false)).1) h
    (push_send X (.app p false) (by intro nw h; cases h) h.keys (Int.le_trans h.e1 h.s2))
  simpa [pushExt, AKind.entry] using this

theorem safeInv_step (l : ALink) (ev : AEv) (h : SafeInv l) (hb : Bounded (astep l ev)) :
    SafeInv (astep l ev) := by
  obtain ⟨hIA, hAI⟩ := h
  cases ev with
  | appSend s p ok =>
    cases s
    · by_cases hc : (l.i.canSend && ok) = true
      · have heq : astep l (.appSend .I p ok) = (l.absorb .I ⟨(l.i.push (.app p false)).1,
            [(l.i.push (.app p false)).2], []⟩).noteAccepted .I p := by
          simp only [astep]
          rw [show l.conn Side.I = l.i from rfl, if_pos hc]
        rw [heq]
        refine ⟨safe_push_app hIA p, ?_⟩
        simpa [ALink.absorb, ALink.noteAccepted] using hAI.congr (Y' := (l.i.push (.app p false)).1) rfl rfl rfl
      · have heq : astep l (.appSend .I p ok) = l := by
          simp only [astep]
          rw [show l.conn Side.I = l.i from rfl, if_neg hc]
        rw [heq]; exact ⟨hIA, hAI⟩
    · by_cases hc : (l.a.canSend && ok) = true
      · have heq : astep l (.appSend .A p ok) = (l.absorb .A ⟨(l.a.push (.app p false)).1,
            [(l.a.push (.app p false)).2], []⟩).noteAccepted .A p := by
          simp only [astep]
          rw [show l.conn Side.A = l.a from rfl, if_pos hc]
        rw [heq]
        refine ⟨?_, safe_push_app hAI p⟩
        simpa [ALink.absorb, ALink.noteAccepted] using hIA.congr (Y' := (l.a.push (.app p false)).1) rfl rfl rfl
      · have heq : astep l (.appSend .A p ok) = l := by
          simp only [astep]
          rw [show l.conn Side.A = l.a from rfl, if_neg hc]
        rw [heq]; exact ⟨hIA, hAI⟩
  | deliverNext to =>
    cases to
    · cases hq : l.toI with
      | nil =>
        have heq : astep l (.deliverNext .I) = l := by simp [astep, ALink.queueTo, hq]
        rw [heq]; exact ⟨hIA, hAI⟩
      | cons f rest =>
        by_cases hst : l.i.st = .disc
        · have heq : astep l (.deliverNext .I) = l.pop .I := by
            simp [astep, ALink.queueTo, ALink.conn, hq, hst]
          rw [heq]
          exact ⟨hIA, hAI.subQ fun g hg => List.mem_of_mem_tail hg⟩
        · have heq : astep l (.deliverNext .I) = (l.pop .I).absorb .I (arecv l.i f) := by
            simp [astep, ALink.queueTo, ALink.conn, hq, hst]
          rw [heq] at hb ⊢
          have := safe_deliver hAI hIA hq hb.1
          exact ⟨this.2, this.1⟩
    · cases hq : l.toA with
      | nil =>
        have heq : astep l (.deliverNext .A) = l := by simp [astep, ALink.queueTo, hq]
        rw [heq]; exact ⟨hIA, hAI⟩
      | cons f rest =>
        by_cases hst : l.a.st = .disc
        · have heq : astep l (.deliverNext .A) = l.pop .A := by
            simp [astep, ALink.queueTo, ALink.conn, hq, hst]
          rw [heq]
          exact ⟨hIA.subQ fun g hg => List.mem_of_mem_tail hg, hAI⟩
        · have heq : astep l (.deliverNext .A) = (l.pop .A).absorb .A (arecv l.a f) := by
            simp [astep, ALink.queueTo, ALink.conn, hq, hst]
          rw [heq] at hb ⊢
          exact safe_deliver hIA hAI hq hb.2
  | breakConn =>
    exact ⟨(hIA.congr (eof_o _) (eof_out _) (eof_e _)).subQ (fun _ hf => by cases hf),
      (hAI.congr (eof_o _) (eof_out _) (eof_e _)).subQ (fun _ hf => by cases hf)⟩
  | reconnect =>
    simp only [astep]
    by_cases hc : (l.i.st ≠ ASt.disc || l.a.st ≠ ASt.disc) = true
    · rw [if_pos hc]; exact ⟨hIA, hAI⟩
    · rw [if_neg hc]
      have h1 := safe_push_session (X0 := { l.i with st := .sent, ini := true }) hIA .logon rfl
        (by intro nw h; cases h) rfl rfl
      refine ⟨((h1.congr (Y' := { l.a with st := .conn }) rfl rfl rfl).subQ (by simp)), ?_⟩
      exact Safe.subQ (Q := l.toI) (Q' := []) (Safe.congr hAI rfl rfl rfl) (fun _ hf => by cases hf)

end AsyncFix.Link
