import AsyncFix.Lemmas.SessionResendBase

/-!
C06 – SPECIFICATION of a correct reply to a ResendRequest (definitions only, no algorithm).

Nothing here mentions `_process_resend`, its loop or its variables: `Chain` says what a list of
written frames has to look like for a journal `J`, a replay filter `sr` and a range of numbers.
`Props/C06.lean` states the theorems with these definitions; `harness/c06.py` implements the same
relation in Python on frames decoded from the bytes the real connection wrote.

A frame / journal row is a `Msg` as the decoder reads it back (`tags` = all fields in wire order).
-/
namespace AsyncFix.Session.C06

open AsyncFix.Generated

/-- header and trailer fields that `Codec.encode` writes itself, plus the two duplicate markers
PossDupFlag(43) and OrigSendingTime(122): everything else is the message's own content. -/
def envelopeTags : List Nat :=
  [tBeginString, tBodyLength, tMsgType, tSenderCompID, tTargetCompID, tMsgSeqNum, tSendingTime,
   tCheckSum, tPossDupFlag, tOrigSendingTime]

/-- the content fields of a frame, in wire order -/
def appBody (f : Msg) : List (Nat × String) := f.tags.filter fun p => !envelopeTags.contains p.1

/-- an application-level row which the application agrees to replay -/
def Replayable (sr : Msg → Bool) (row : Msg) : Prop :=
  ConnEnum.noReplay.contains row.mtype = false ∧ sr row = true

instance (sr : Msg → Bool) (row : Msg) : Decidable (Replayable sr row) := by
  unfold Replayable; infer_instance

/-- the time the message was FIRST sent: the row's OrigSendingTime when the row is itself a
retransmitted copy (left by an earlier resend), its SendingTime otherwise -/
def origTime (row : Msg) : Option String :=
  match row.get? tOrigSendingTime with
  | some t => some t
  | none => row.get? tSendingTime

/-- `g` is a retransmission of journal row `row` (number `n`) on session `s` -/
structure IsRetransmission (s : Session) (n : Int) (row g : Msg) : Prop where
  mtype : g.mtype = row.mtype
  tag35 : g.get? tMsgType = some row.mtype
  seq : g.get? tMsgSeqNum = some (pyStr n)
  possDup : g.get? tPossDupFlag = some "Y"
  orig : ∃ t, origTime row = some t ∧ g.get? tOrigSendingTime = some t
  body : appBody g = appBody row
  begin_ : g.get? tBeginString = some Proto.beginString
  sender : g.get? tSenderCompID = some s.sender
  target : g.get? tTargetCompID = some s.target

/-- `g` is a SequenceReset-GapFill numbered `a` that moves the receiver to `z` -/
structure IsGapFill (s : Session) (a z : Int) (g : Msg) : Prop where
  mtype : g.mtype = mSequenceReset
  tag35 : g.get? tMsgType = some mSequenceReset
  seq : g.get? tMsgSeqNum = some (pyStr a)
  newSeq : g.get? tNewSeqNo = some (pyStr z)
  gapFill : g.get? tGapFillFlag = some "Y"
  body : appBody g = [(tGapFillFlag, "Y"), (tNewSeqNo, pyStr z)]
  begin_ : g.get? tBeginString = some Proto.beginString
  sender : g.get? tSenderCompID = some s.sender
  target : g.get? tTargetCompID = some s.target

/-- `Chain s J sr a z frames`: the frames cover the numbers `[a, z)` exactly once, in ascending order
and abutting: each frame is either the retransmission of the replayable row numbered `a` (then the
rest starts at `a + 1`), or a GapFill `[a, a')` over numbers none of which is a replayable row
(then the rest starts at `a'`). -/
inductive Chain (s : Session) (J : Rows) (sr : Msg → Bool) : Int → Int → List Msg → Prop
  | nil (a : Int) : Chain s J sr a a []
  | replay {a z : Int} {row g : Msg} {rest : List Msg} :
      J.find a = some row → Replayable sr row → IsRetransmission s a row g →
      Chain s J sr (a + 1) z rest → Chain s J sr a z (g :: rest)
  | gap {a a' z : Int} {g : Msg} {rest : List Msg} :
      a < a' → IsGapFill s a a' g →
      (∀ n row, a ≤ n → n < a' → J.find n = some row → ¬ Replayable sr row) →
      Chain s J sr a' z rest → Chain s J sr a z (g :: rest)

/-- the reply to a request for `[b, last]` -/
def ReplyChain (s : Session) (J : Rows) (sr : Msg → Bool) (b last : Int) (frames : List Msg) : Prop :=
  Chain s J sr b (last + 1) frames

/-- the frames written, in order -/
def writes : List Effect → List Msg
  | [] => []
  | .write f :: r => f :: writes r
  | _ :: r => writes r

/-- nothing went wrong and the application saw nothing: only writes and state notifications -/
def Quiet (effs : List Effect) : Prop :=
  ∀ e ∈ effs, (∃ f, e = .write f) ∨ (∃ s, e = .onState s)

/-! ### the outbound invariant (property C05) as far as the resend needs it -/

/-- what `send_msg` leaves in the journal under number `n`: a complete frame carrying `n` -/
structure RowOK (n : Int) (f : Msg) : Prop where
  seq : ∃ v, f.get? tMsgSeqNum = some v ∧ pyInt v = some n
  tag35 : f.get? tMsgType = some f.mtype
  has8 : f.has tBeginString = true
  has9 : f.has tBodyLength = true
  has52 : f.has tSendingTime = true
  has49 : f.has tSenderCompID = true
  has56 : f.has tTargetCompID = true
  has10 : f.has tCheckSum = true
  latin : frameLatin1 f = true

/-- outbound rows strictly ascending, row `n` carries MsgSeqNum `n`, all rows below the next number,
stored counter = next number − 1 -/
structure OutInv (c : Conn) : Prop where
  sorted : Rows.Sorted c.journal.out
  lt : Rows.AllLt c.sess.nextOut c.journal.out
  rows : ∀ p ∈ c.journal.out, RowOK p.1 p.2
  stored : c.journal.outSeq + 1 = c.sess.nextOut

end AsyncFix.Session.C06
