/-
Sequencing facts about the backtracking matcher `matchSeq`, and `strptime` in terms of
`headFull` = "the match `re.match` returns, if it consumed the whole string".
-/
import AsyncFix.Lemmas.LexTok
namespace AsyncFix.Lemmas.LexSeq
open AsyncFix.Py AsyncFix.Lemmas.LexTok

abbrev Succ := List (List Nat × Str)

/-- prepend a group value to every match -/
def ext (v : Nat) (L : Succ) : Succ := L.map fun ws => (v :: ws.1, ws.2)

/-- group values of the first match, provided it consumed everything -/
def headFull (L : Succ) : Option (List Nat) :=
  match L.head? with
  | some (vs, []) => some vs
  | _ => none

@[simp] theorem headFull_nil : headFull [] = none := rfl
@[simp] theorem headFull_cons_nil (vs : List Nat) (L : Succ) : headFull ((vs, []) :: L) = some vs := rfl
@[simp] theorem headFull_cons_cons (vs : List Nat) (c : Nat) (r : Str) (L : Succ) :
    headFull ((vs, c :: r) :: L) = none := rfl
@[simp] theorem ext_nil (v : Nat) : ext v [] = [] := rfl
@[simp] theorem ext_cons (v : Nat) (x : List Nat × Str) (L : Succ) :
    ext v (x :: L) = (v :: x.1, x.2) :: ext v L := rfl
@[simp] theorem ext_append (v : Nat) (A B : Succ) : ext v (A ++ B) = ext v A ++ ext v B := by
  simp [ext]

theorem headFull_ext (v : Nat) (L : Succ) : headFull (ext v L) = (headFull L).map (v :: ·) := by
  cases L with
  | nil => rfl
  | cons x L =>
    obtain ⟨vs, r⟩ := x
    cases r <;> rfl

theorem matchSeq_cons (D : Dir) (ds : List Dir) (s : Str) :
    matchSeq (D :: ds) s = (D.alts s).flatMap fun vr => ext vr.1 (matchSeq ds vr.2) := rfl

@[simp] theorem matchSeq_nil (s : Str) : matchSeq [] s = [([], s)] := rfl

theorem matchSeq_lit_eq (c : Nat) (ds : List Dir) (r : Str) :
    matchSeq (.lit c :: ds) (c :: r) = ext 0 (matchSeq ds r) := by
  simp [matchSeq_cons, Dir.alts]

theorem matchSeq_lit_ne {a c : Nat} (h : a ≠ c) (ds : List Dir) (r : Str) :
    matchSeq (.lit c :: ds) (a :: r) = [] := by
  simp [matchSeq_cons, Dir.alts, h]

theorem matchSeq_lit_nil (c : Nat) (ds : List Dir) : matchSeq (.lit c :: ds) [] = [] := by
  simp [matchSeq_cons, Dir.alts]

/-- a numeric directive on two ASCII digits, whatever follows -/
theorem matchSeq_num {D : Dir} (hD : isNum D = true) {a b : Nat} (ds : List Dir) (r : Str)
    (ha : isAsciiDigit a = true) (hb : isAsciiDigit b = true) :
    matchSeq (D :: ds) (a :: b :: r) =
      (if inRng D a b then ext (two a b) (matchSeq ds r) else []) ++
      (if one D a then ext (a - 48) (matchSeq ds (b :: r)) else []) := by
  rw [matchSeq_cons, alts_num hD r ha hb]
  unfold altsTwo
  by_cases h1 : inRng D a b = true <;> by_cases h2 : one D a = true <;> simp [h1, h2]

/-- … followed by a literal that is not a digit: only the two-digit reading survives -/
theorem matchSeq_num_lit {D : Dir} (hD : isNum D = true) {a b c : Nat} (ds : List Dir) (r : Str)
    (ha : isAsciiDigit a = true) (hb : isAsciiDigit b = true) (hc : isAsciiDigit c = false) :
    matchSeq (D :: .lit c :: ds) (a :: b :: c :: r) =
      if inRng D a b then ext (two a b) (ext 0 (matchSeq ds r)) else [] := by
  have hbc : b ≠ c := by
    intro h; subst h; simp [hb] at hc
  rw [matchSeq_num hD _ _ ha hb, matchSeq_lit_eq, matchSeq_lit_ne hbc]
  simp

/-- … followed by a literal, but standing on three digits: no match at all -/
theorem matchSeq_num_lit_junk {D : Dir} (hD : isNum D = true) {a b x c : Nat} (ds : List Dir) (r : Str)
    (ha : isAsciiDigit a = true) (hb : isAsciiDigit b = true) (hx : isAsciiDigit x = true)
    (hc : isAsciiDigit c = false) :
    matchSeq (D :: .lit c :: ds) (a :: b :: x :: r) = [] := by
  have hbc : b ≠ c := by
    intro h; subst h; simp [hb] at hc
  have hxc : x ≠ c := by
    intro h; subst h; simp [hx] at hc
  rw [matchSeq_num hD _ _ ha hb, matchSeq_lit_ne hxc, matchSeq_lit_ne hbc]
  simp

/-- `%m%d` on four digits followed by a non-digit literal -/
theorem matchSeq_md_lit {m1 m2 d1 d2 c : Nat} (ds : List Dir) (r : Str)
    (h1 : isAsciiDigit m1 = true) (h2 : isAsciiDigit m2 = true) (h3 : isAsciiDigit d1 = true)
    (h4 : isAsciiDigit d2 = true) (hc : isAsciiDigit c = false) :
    matchSeq (.m :: .d :: .lit c :: ds) (m1 :: m2 :: d1 :: d2 :: c :: r) =
      if inRng .m m1 m2 && inRng .d d1 d2 then
        ext (two m1 m2) (ext (two d1 d2) (ext 0 (matchSeq ds r))) else [] := by
  rw [matchSeq_num (D := .m) rfl _ _ h1 h2, matchSeq_num_lit (D := .d) rfl _ _ h3 h4 hc,
    matchSeq_num_lit_junk (D := .d) rfl _ _ h2 h3 h4 hc]
  by_cases a : inRng .m m1 m2 = true <;> by_cases b : inRng .d d1 d2 = true <;> simp [a, b]

/-- `%m%d` on exactly four digits -/
theorem headFull_md_end {m1 m2 d1 d2 : Nat}
    (h1 : isAsciiDigit m1 = true) (h2 : isAsciiDigit m2 = true) (h3 : isAsciiDigit d1 = true)
    (h4 : isAsciiDigit d2 = true) :
    headFull (matchSeq [.m, .d] [m1, m2, d1, d2]) =
      if inRng .m m1 m2 && inRng .d d1 d2 then some [two m1 m2, two d1 d2] else none := by
  rw [matchSeq_num (D := .m) rfl _ _ h1 h2, matchSeq_num (D := .d) rfl _ _ h3 h4,
    matchSeq_num (D := .d) rfl _ _ h2 h3]
  by_cases a : inRng .m m1 m2 = true <;> by_cases b : inRng .d d1 d2 = true <;>
    by_cases c : one .m m1 = true <;> by_cases d : one .d d1 = true <;>
    by_cases e : inRng .d m2 d1 = true <;> by_cases f : one .d m2 = true <;>
    simp [a, b, c, d, e, f, headFull]

/-- a numeric directive on exactly two digits at the end of the format -/
theorem headFull_num_end {D : Dir} (hD : isNum D = true) {a b : Nat}
    (ha : isAsciiDigit a = true) (hb : isAsciiDigit b = true) :
    headFull (matchSeq [D] [a, b]) = if inRng D a b then some [two a b] else none := by
  rw [matchSeq_num hD _ _ ha hb]
  by_cases h1 : inRng D a b = true <;> by_cases h2 : one D a = true <;> simp [h1, h2, headFull]

end AsyncFix.Lemmas.LexSeq
