/-
How the order object digests the reports of the reference exchange: closed forms of
`process_execution_report` / `process_cancel_rej_report` on `execRep` / `cxlRej`, and the cells of
the generated table that the closed system exercises.
-/
import AsyncFix.Lemmas.OrderObjIds
import AsyncFix.Model.OrderLink
namespace AsyncFix.Model.OrderLink
open AsyncFix.Model.OrderObj AsyncFix.Model.Exchange AsyncFix.Model.OrderTable AsyncFix.Props.C16

/-! ### table cells -/

theorem k8_mem : "8" ∈ spec.map Prod.fst := by decide +kernel
theorem k9_mem : "9" ∈ spec.map Prod.fst := by decide +kernel

theorem cs_to_eq {status kind ex st s : String} {raise : Bool}
    (h : changeStatus spec status kind ex st raise = .to s) : s = st := by
  unfold changeStatus at h
  cases hco : cellOf spec kind status ex st with
  | noTable => simp [hco] at h
  | cell c => cases c <;> (try cases raise) <;> simp_all

theorem cs8_not_raised (status ex st : String) : changeStatus spec status "8" ex st false ≠ .raised := by
  intro hr
  rcases trichotomy_partial status "8" ex st false k8_mem with h | h | ⟨_, h⟩
  · exact absurd (h.symm.trans hr) (by simp)
  · exact absurd (h.symm.trans hr) (by simp)
  · cases h

theorem cs9_not_raised (status ex st : String) : changeStatus spec status "9" ex st false ≠ .raised := by
  intro hr
  rcases trichotomy_partial status "9" ex st false k9_mem with h | h | ⟨_, h⟩
  · exact absurd (h.symm.trans hr) (by simp)
  · exact absurd (h.symm.trans hr) (by simp)
  · cases h

/-- while a request is pending, execution reports other than Replaced / Canceled change nothing -/
theorem cs8_pending_none {status ex st : String} (hs : status = "6" ∨ status = "E") (hex : ex ≠ "5")
    (hst : st ≠ "4") : changeStatus spec status "8" ex st false = .none := by
  have hmem : status ∈ sticky := by rcases hs with rfl | rfl <;> decide
  rcases trichotomy_partial status "8" ex st false k8_mem with h | h | h
  · exact absurd (sticky_exec _ _ _ _ hmem hex h) hst
  · exact h
  · simp at h

/-- base states of the reference exchange -/
def bases : List String := ["A", "0", "1", "2", "4", "8", "C", "9"]

/-- an OrderCancelReject moves a pending order to whatever base state it reports -/
theorem cs9_pending : ∀ cur ∈ ["6", "E"], ∀ st ∈ bases,
    changeStatus spec cur "9" omitted st false = .to st := by decide +kernel

/-- Replaced reports reporting New / PartiallyFilled / Filled are accepted -/
theorem cs8_replaced : ∀ st ∈ ["0", "1", "2"], changeStatus spec "E" "8" "5" st false = .to st := by
  decide +kernel

/-- the transitions (state, ExecType, new state) the exchange makes while no request is involved -/
def idleTrans : List (String × String × String) :=
  [("A", "0", "0"), ("A", "8", "8"), ("0", "F", "1"), ("0", "F", "2"), ("1", "F", "1"), ("1", "F", "2"),
   ("0", "C", "C"), ("1", "C", "C"), ("0", "9", "9"), ("1", "9", "9"), ("9", "D", "0"), ("9", "D", "1")]

theorem cs8_idle : ∀ t ∈ idleTrans, changeStatus spec t.1 "8" t.2.1 t.2.2 false = .to t.2.2 := by
  decide +kernel

theorem cs8_pendnew : changeStatus spec "A" "8" "A" "A" false = .none := by decide +kernel
theorem cs8_new_ack : changeStatus spec "A" "8" "0" "0" false = .to "0" := by decide +kernel
theorem cs8_new_rej : changeStatus spec "A" "8" "8" "8" false = .to "8" := by decide +kernel
theorem cs8_cancelled : changeStatus spec "6" "8" "4" "4" false = .to "4" := by decide +kernel

theorem bases_sv : ∀ s ∈ bases, s ∈ statusValues ∧ s ≠ "" := by decide +kernel

/-! ### closed forms -/

/-- the order after an execution report that carries every tag -/
def execApply (o : Order) (oid : Str) (ex : String) (cum lv avg px qty : Int)
    (res : OrderTable.Res) : Order × Res Bool :=
  if ex = "5" then
    finishExec res { o with orderId := some oid, leavesQty := lv, cumQty := cum, avgPx := some avg,
                            price := px, qty := qty, origClordId := none }
  else
    finishExec res { o with orderId := some oid, leavesQty := lv, cumQty := cum, avgPx := some avg }

theorem feed_execRep (o : Order) (e : Exch) (cl : Str) (ex : String) (orig : Option Str)
    (hid : cl = o.clordId ∨ some cl = o.origClordId) :
    feed o (e.execRep cl ex orig) =
      execApply o orderIdC ex e.cum e.leaves e.avgPx e.price e.qty
        (changeStatus spec o.status "8" ex e.reported false) := by
  have hnr := cs8_not_raised o.status ex e.reported
  have hid' : ¬ (cl ≠ o.clordId ∧ some cl ≠ o.origClordId) := by
    intro ⟨h1, h2⟩; rcases hid with h | h
    · exact h1 h
    · exact h2 h
  simp only [feed, Exch.execRep, processExecReport, execApply, applyReplaced]
  simp [hnr, hid']

theorem finishExec_none (o : Order) : finishExec .none o = (o, .ok false) := rfl

theorem finishExec_to (o : Order) {s : String} (hs : s ∈ statusValues ∧ s ≠ "") :
    finishExec (.to s) o = ({ o with status := s }, .ok true) := by
  simp [finishExec, setStatus, hs.1, hs.2]

theorem feed_cxlRej (o : Order) (cl : Str) (orig : Option Str) (st : String) (unk : Bool) :
    feed o (cxlRej cl orig st unk) =
      match changeStatus spec o.status "9" omitted st false with
      | .raised => (o, .raised .fixError)
      | .to s => setStatus (revertId (if st = "8" then { o with leavesQty := 0 } else o)) s
      | .none => (revertId (if st = "8" then { o with leavesQty := 0 } else o), .ok false) := by
  simp only [feed, cxlRej, processCancelRej]
  simp only [ne_eq, not_true_eq_false, if_false, if_true]
  generalize changeStatus spec o.status "9" omitted st false = res
  cases res <;> rfl

end AsyncFix.Model.OrderLink
