import AsyncFix.Lemmas.SchedOkH

/-!
Sched family: the invariant of the scheduler – induction over an ARBITRARY schedule.

`GInv ts c0 s`: the whole run so far, seen as one long segment from the initial connection, satisfies
`Seg`; an escaping DuplicateSeqNoError can only come from a reader task (its inbound journal write);
every task that is not finished is `Ok` from whatever connection it will be resumed on.
`exec_inv`: it holds after every schedule in which no `_process_resend` has rewound the counter.
-/
namespace AsyncFix.Sched

open AsyncFix.Session AsyncFix.Generated AsyncFix.Generated.ConnEnum

/-- the reader task is the only one that also writes the inbound journal -/
def Task.inb : Task → Bool
  | .recv .. => true
  | _ => false

/-- application senders send NEW messages (not SequenceReset, no PossDupFlag=Y) – or messages of any kind
(also ones that carry their own number) whose text is outside latin-1 and is therefore refused -/
def Task.wf : Task → Bool
  | .send _ m => isNew m || unencodable m
  | _ => true

def flagOf (ts : List Task) (j : Nat) : Bool :=
  match ts[j]? with
  | some t => t.inb
  | none => false

theorem Task.body_ok (sr : Msg → Bool) (t : Task) (h : t.wf = true) : ROk t.inb (t.body sr) := by
  cases t with
  | send env m =>
    simp only [Task.wf, Bool.or_eq_true] at h
    rcases h with h | h
    · exact sendMsgR_ok env h
    · exact sendMsgR_ok_unencodable env h
  | tick env => exact tickBodyR_ok env
  | recv env m => exact processMessageR_ok env sr m

theorem Seg.toTrue {i : Bool} {c c' : Conn} {e : List Effect} (h : Seg i c c' e) : Seg true c c' e := by
  cases i with
  | true => exact h
  | false => exact h.weaken true

theorem raised_dup_not_mem {e : List Effect} (h : dupErr false e = false) :
    Effect.raised .duplicateSeqNo ∉ e := by
  induction e with
  | nil => simp
  | cons x r ih =>
    intro hm
    rcases List.mem_cons.mp hm with hx | hr
    · subst hx; simp [dupErr] at h
    · cases x with
      | caught k => cases k <;> simp_all [dupErr]
      | raised k => cases k <;> simp_all [dupErr]
      | _ => simp_all [dupErr]

theorem caught_dup_not_mem {e : List Effect} (h : dupErr true e = false) :
    Effect.caught .duplicateSeqNo ∉ e := by
  induction e with
  | nil => simp
  | cons x r ih =>
    intro hm
    rcases List.mem_cons.mp hm with hx | hr
    · subst hx; simp [dupErr] at h
    · cases x with
      | caught k => cases k <;> simp_all [dupErr]
      | raised k => cases k <;> simp_all [dupErr]
      | _ => simp_all [dupErr]

structure GInv (ts : List Task) (c0 : Conn) (s : SState) : Prop where
  seg : Seg true c0 s.conn s.effects
  strict : ∀ p ∈ s.log, p.2 = .raised .duplicateSeqNo → flagOf ts p.1 = true
  tasks : ∀ j pt k, s.tasks[j]? = some (.live pt k) → ∀ c1, Ok (flagOf ts j) c1 (k c1)

theorem countGhost_zero_notMem {g : List Ghost} {x : Ghost} (h : countGhost x g = 0) : x ∉ g := by
  unfold countGhost at h
  intro hm
  have : (g.filter (· == x)).length > 0 := by
    apply List.length_pos_of_mem (a := x)
    simp [List.mem_filter, hm]
  omega

theorem countGhost_zero {g : List Ghost} (h : countGhost .rewind g = 0) (h' : countGhost .waive g = 0) :
    noRewind g = true := by
  unfold noRewind
  simp [List.contains_eq_mem, countGhost_zero_notMem h, countGhost_zero_notMem h']

theorem errEff_eq_pend (r : Except Exc Unit) : errEff r = pend r := by cases r <;> rfl

theorem set_self_of_some {l : List TState} {j : Nat} {x y : TState} (h : l[j]? = some y) :
    (l.set j x)[j]? = some x := by
  have hlt : j < l.length := (List.getElem?_eq_some_iff.mp h).1
  simp [hlt]

/-- one segment of task `j` keeps the invariant (or rewinds) -/
theorem runTask_inv {ts : List Task} {c0 : Conn} {s : SState} {j : Nat} {pt : Option YieldPoint}
    {k : Conn → Res Unit} (h : GInv ts c0 s) (hk : s.tasks[j]? = some (.live pt k))
    (ho : (s.runTask j k).blocked = 0) : GInv ts c0 (s.runTask j k) := by
  have hok := h.tasks j pt k hk s.conn
  have hJ := h.seg.inv
  unfold SState.blocked SState.runTask at ho
  unfold SState.runTask
  cases hr : k s.conn with
  | done c e g r =>
    rw [hr] at hok ho
    simp only at ho ⊢
    have hg : noRewind g = true := countGhost_zero (by omega) (by omega)
    have hs := hok hg hJ
    refine ⟨?_, ?_, ?_⟩
    · simp only [SState.effects, List.map_append, List.map_map, Function.comp_def, List.map_id', errEff_eq_pend]
      exact h.seg.trans hs.toTrue
    · intro p hp
      simp only [List.mem_append, List.mem_map] at hp
      rcases hp with hp | ⟨x, hx, rfl⟩
      · exact h.strict p hp
      · intro hx'
        simp only at hx'
        cases hf : flagOf ts j with
        | true => rfl
        | false =>
          rw [hf] at hs
          rw [errEff_eq_pend, hx'] at hx
          exact absurd (List.mem_append.mpr hx) (raised_dup_not_mem hs.nodup)
    · intro j' pt' k' hj' c1
      by_cases hjj : j = j'
      · subst hjj
        rw [set_self_of_some hk] at hj'
        cases hj'
      · rw [List.getElem?_set_ne hjj] at hj'
        exact h.tasks j' pt' k' hj' c1
  | yield c e g pt2 k2 =>
    rw [hr] at hok ho
    simp only at ho ⊢
    have hg : noRewind g = true := countGhost_zero (by omega) (by omega)
    have hs := hok.1 hg hJ
    refine ⟨?_, ?_, ?_⟩
    · simp only [SState.effects, List.map_append, List.map_map, Function.comp_def, List.map_id']
      exact h.seg.trans hs.toTrue
    · intro p hp
      simp only [List.mem_append, List.mem_map] at hp
      rcases hp with hp | ⟨x, hx, rfl⟩
      · exact h.strict p hp
      · intro hx'
        simp only at hx'
        cases hf : flagOf ts j with
        | true => rfl
        | false =>
          rw [hf] at hs
          rw [hx'] at hx
          exact absurd hx (raised_dup_not_mem hs.nodup)
    · intro j' pt' k' hj' c1
      by_cases hjj : j = j'
      · subst hjj
        rw [set_self_of_some hk] at hj'
        simp only [Option.some.injEq, TState.live.injEq] at hj'
        obtain ⟨_, rfl⟩ := hj'
        exact hok.2 hg c1
      · rw [List.getElem?_set_ne hjj] at hj'
        exact h.tasks j' pt' k' hj' c1

theorem opened_mono_runTask (s : SState) (j : Nat) (k : Conn → Res Unit) : s.blocked ≤ (s.runTask j k).blocked := by
  unfold SState.blocked SState.runTask
  split <;> simp only <;> omega

theorem opened_mono_step (s : SState) (l : Letter) : s.blocked ≤ (s.step l).blocked := by
  cases l with
  | pause => exact Nat.le_refl _
  | resume => exact Nat.le_refl _
  | run j =>
    simp only [SState.step]
    split
    · split
      · split
        · exact opened_mono_runTask { s with drainQ := s.drainQ.tail } _ _
        · exact Nat.le_refl _
      · exact opened_mono_runTask _ _ _
    · exact Nat.le_refl _

theorem step_inv {ts : List Task} {c0 : Conn} {s : SState} (l : Letter) (h : GInv ts c0 s)
    (ho : (s.step l).blocked = 0) : GInv ts c0 (s.step l) := by
  cases l with
  | pause => exact ⟨h.seg, h.strict, h.tasks⟩
  | resume => exact ⟨h.seg, h.strict, h.tasks⟩
  | run j =>
    simp only [SState.step] at ho ⊢
    split
    · rename_i pt k hk
      rw [hk] at ho
      simp only at ho
      split
      · rename_i hq
        rw [if_pos hq] at ho
        split
        · rename_i hh
          rw [if_pos hh] at ho
          exact runTask_inv (s := { s with drainQ := s.drainQ.tail }) ⟨h.seg, h.strict, h.tasks⟩ hk ho
        · exact h
      · rename_i hq
        rw [if_neg hq] at ho
        exact runTask_inv h hk ho
    · exact h

theorem opened_mono_exec (s : SState) (sched : List Letter) : s.blocked ≤ (s.exec sched).blocked := by
  induction sched generalizing s with
  | nil => exact Nat.le_refl _
  | cons l r ih =>
    exact Nat.le_trans (opened_mono_step s l) (ih (s.step l))

/-- **induction over the schedule**: the invariant holds after every schedule, of any length, over any
number of tasks, in which no `_process_resend` has rewound the outbound counter -/
theorem exec_inv {ts : List Task} {c0 : Conn} {s : SState} (sched : List Letter) (h : GInv ts c0 s)
    (ho : (s.exec sched).blocked = 0) : GInv ts c0 (s.exec sched) := by
  induction sched generalizing s with
  | nil => exact h
  | cons l r ih =>
    have h1 : (s.step l).blocked = 0 := by
      have := opened_mono_exec (s.step l) r
      have e : (s.exec (l :: r)) = (s.step l).exec r := rfl
      rw [e] at ho
      omega
    exact ih (step_inv l h h1) ho

theorem init_inv (sr : Msg → Bool) (c0 : Conn) (ts : List Task) (paused : Bool) (hJ : J c0)
    (hT : ∀ t ∈ ts, t.wf = true) : GInv ts c0 (SState.init sr c0 ts paused) := by
  refine ⟨Seg.refl hJ, by simp [SState.init], ?_⟩
  intro j pt k hj c1
  simp only [SState.init, List.getElem?_map] at hj
  cases ht : ts[j]? with
  | none => simp [ht] at hj
  | some t =>
    simp only [ht, Option.map_some, Option.some.injEq, TState.live.injEq] at hj
    obtain ⟨_, rfl⟩ := hj
    have hm : t ∈ ts := List.mem_of_getElem? ht
    have := (Task.body_ok sr t (hT t hm)).out c1
    simpa [flagOf, ht] using this

end AsyncFix.Sched
