/-
The encoder's output is `mkFrame` of the header fields followed by the body's wire-order fields.
-/
import AsyncFix.Model.Codec.Encode
import AsyncFix.Lemmas.CodecSpec
namespace AsyncFix.Model.Codec

theorem field_eq_fieldBytes (t v : Bytes) : field t v = fieldBytes t v := rfl

theorem join_map_bodyBytes (fs : List Fld) (h : fs ≠ []) :
    join SOH (fs.map fun f => fieldBytes f.tag f.val) ++ [SOH] = bodyBytes fs := by
  induction fs with
  | nil => contradiction
  | cons f rest ih =>
    cases rest with
    | nil => simp [join, bodyBytes]
    | cons g rest' =>
      have := ih (by simp)
      simp only [List.map_cons, join, bodyBytes, List.append_assoc, List.cons_append] at this ⊢
      rw [this]

/-- header fields the encoder puts in front of the body, in wire order after BeginString/BodyLength -/
def hdrFlds (mtype sender target seq now : Bytes) : List Fld :=
  [⟨tag35, mtype⟩, ⟨tag49, sender⟩, ⟨tag56, target⟩, ⟨tag34, seq⟩, ⟨tag52, now⟩]

/-- the body entries the encoder emits: everything except 34 / 52 / 49 / 56 -/
def bodyOf (m : Msg) : Cont := m.body.filter fun n => !skipTags.contains n.tag

theorem assemble_eq_mkFrame (bs : Bytes) (m : Msg) (s : Session) (seq now : Bytes) (flat : List Fld)
    (hflat : addCont (bodyOf m) = .ok (flat.map fun f => fieldBytes f.tag f.val)) :
    assemble bs m s seq now = .ok (mkFrame bs (hdrFlds m.mtype s.sender s.target seq now ++ flat)) := by
  unfold assemble
  simp only [bind, Except.bind, pure, Except.pure]
  unfold bodyOf at hflat
  rw [hflat]
  simp only [Except.ok.injEq]
  have hb : join SOH ([field tag49 s.sender, field tag56 s.target, field tag34 seq, field tag52 now] ++
      List.map (fun f => fieldBytes f.tag f.val) flat) ++ [SOH] =
      bodyBytes (⟨tag49, s.sender⟩ :: ⟨tag56, s.target⟩ :: ⟨tag34, seq⟩ :: ⟨tag52, now⟩ :: flat) := by
    rw [← join_map_bodyBytes _ (by simp)]
    simp [field_eq_fieldBytes]
  rw [hb]
  unfold mkFrame hdrFlds headBytes
  simp only [List.cons_append, List.nil_append, bodyBytes]
  have hlen : (fieldBytes tag35 m.mtype ++ SOH ::
        bodyBytes (⟨tag49, s.sender⟩ :: ⟨tag56, s.target⟩ :: ⟨tag34, seq⟩ :: ⟨tag52, now⟩ :: flat)).length =
      (bodyBytes (⟨tag49, s.sender⟩ :: ⟨tag56, s.target⟩ :: ⟨tag34, seq⟩ :: ⟨tag52, now⟩ :: flat)).length +
        (field tag35e m.mtype).length + 1 := by
    simp only [List.length_append, List.length_cons, field_eq_fieldBytes, tag35e, tag35]; omega
  simp only [bodyBytes] at hlen
  rw [hlen]
  simp [join, field_eq_fieldBytes, tag35e, tag35, fieldBytes, List.append_assoc]

end AsyncFix.Model.Codec
