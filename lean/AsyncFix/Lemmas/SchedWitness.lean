import AsyncFix.Lemmas.SchedRunInv

/-!
Sched family: concrete connections, frames, task sets and schedules used by the non-vacuity examples of
`Props/C14.lean` and by the counter-examples of `Findings/C14.lean` (the same schedules are kept in
`corpus/sched/` and replayed on the real coroutines).
-/
namespace AsyncFix.Sched.Witness

open AsyncFix.Session AsyncFix.Sched AsyncFix.Generated.ConnEnum

def env0 : Env := { now := 1700000000000, stamp := "20240102-22:13:20.000" }
def env1 : Env := { now := 1700000000125, stamp := "20240102-22:13:20.125" }
def env2 : Env := { now := 1700000000250, stamp := "20240102-22:13:20.250" }

def appMsg (t : String) : Msg := Msg.mk' "D" [(11, "c"), (58, t)]

/-- an established session: 6 messages sent, 4 received; the last four sent are in the journal -/
def sess0 : Session := { sender := "S", target := "T", nextIn := 5, nextOut := 7 }
def row (n : Int) : Int × Msg := (n, buildFrame sess0 env0.stamp (appMsg "old") n)
def j0 : Journal := { out := [row 3, row 4, row 5, row 6], outSeq := 6, inSeq := 4 }
def c0 : Conn :=
  { state := st_ACTIVE, role := roleInitiator, wasActive := true, sess := sess0, sock := true,
    lastTime := 1699999999000, journal := j0 }

theorem J_c0 : J c0 := by
  refine ⟨by decide, ?_⟩
  intro p hp
  simp only [c0, j0, List.mem_cons, List.not_mem_nil, or_false] at hp
  rcases hp with h | h | h | h <;> subst h <;> decide

/-- an inbound frame as the decoder hands it over -/
def inbound (mtype seq : String) (body : List (Nat × String)) : Msg :=
  Msg.ofFields ([(8, "FIX.4.4"), (9, "0"), (35, mtype), (49, "T"), (56, "S"), (34, seq), (52, "x")] ++ body ++ [(10, "000")])

/-- ResendRequest(BeginSeqNo = 5, EndSeqNo = 0) -/
def resendReq : Msg := inbound "2" "5" [(7, "5"), (16, "0")]
def testReq : Msg := inbound "1" "5" [(112, "T1")]

def all : Msg → Bool := fun _ => true

/-- three senders, the watchdog and a reader answering a TestRequest -/
def tsPlain : List Task :=
  [.send env1 (appMsg "a"), .send env2 (appMsg "b"), .tick env0, .recv env0 testReq, .send env2 (appMsg "c")]

/-- an interleaving with back-pressure: every task is cut at its drain -/
def schedPlain : List Letter :=
  [.pause, .run 0, .run 3, .run 1, .run 2, .resume, .run 4, .run 0, .run 3, .run 3, .run 1, .run 4, .run 2, .run 3]

/-- reader servicing the ResendRequest + one application sender -/
def tsD21 : List Task := [.recv env0 resendReq, .send env1 (appMsg "concurrent")]

/-- reader: state change, then rewind and suspension in `should_replay` (window open); the sender runs to
its end; the reader goes on -/
def schedD21 : List Letter := [.run 0, .run 0, .run 1, .run 1, .run 0, .run 0]

/-- an acceptor whose transport is up, nothing exchanged yet, with an overdue TestRequest id (the watchdog
will drop the connection) -/
def sessA : Session := { sender := "S", target := "T", nextIn := 1, nextOut := 1 }
def cA : Conn :=
  { state := st_NETWORK_CONN_ESTABLISHED, role := roleAcceptor, sess := sessA, sock := true,
    testReqId := some 1699999939, journal := {} }

theorem J_cA : J cA := ⟨by decide, by intro p hp; simp [cA] at hp⟩

/-- Logon numbered 3 while 1 is expected -/
def logonHigh : Msg := inbound "A" "3" [(98, "0"), (108, "30")]
def tsRevive : List Task := [.recv env0 logonHigh, .tick env0]

/-- reader: Logon reply written, suspended in `drain`; watchdog: disconnects completely; reader resumes:
`_state_set(RECV_SEQNUM_TOO_HIGH)` on the dead connection, then its ResendRequest finds no transport -/
def schedRevive : List Letter := [.run 0, .run 0, .run 1, .run 1, .run 0, .run 0, .run 0, .run 1, .run 1]

end AsyncFix.Sched.Witness
