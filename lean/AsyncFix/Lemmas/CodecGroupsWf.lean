/-
Destructuring lemmas for the well-formedness predicates of CodecSpec.lean
(`wfNode / wfItems / wfItem / wfNodes`), shared by CodecGroupsTree.lean and CodecFlat.lean.
-/
import AsyncFix.Lemmas.CodecSpec
namespace AsyncFix.Model.Codec

/-- the membership test `wfNodes` applies to every entry tag -/
def inMs (ms? : Option (List Tag)) (t : Tag) : Bool :=
  match ms? with
  | some ms => ms.contains t
  | none => true

theorem wfItem_wfNodes {tbl : Tbl} {ms : List Tag} {it : List Node} (h : wfItem tbl ms it = true) :
    wfNodes tbl (some ms) [] it = true := by
  cases it with
  | nil => unfold wfItem at h; cases h
  | cons n rest =>
    cases n with
    | leaf t v => unfold wfItem at h; exact h
    | err t => unfold wfItem at h; cases h
    | group g items => unfold wfItem at h; cases h

theorem wfNodes_head {tbl : Tbl} {ms? : Option (List Tag)} {seen : List Tag} {n : Node}
    {rest : List Node} (h : wfNodes tbl ms? seen (n :: rest) = true) :
    wfNode tbl n = true ∧ seen.contains n.tag = false ∧ inMs ms? n.tag = true := by
  cases rest with
  | nil =>
    unfold wfNodes at h
    cases ms? <;> simp only [Bool.and_eq_true, Bool.not_eq_true', inMs] at h ⊢ <;>
      exact ⟨h.1.1, h.1.2, h.2⟩
  | cons m rest' =>
    unfold wfNodes at h
    cases ms? <;> simp only [Bool.and_eq_true, Bool.not_eq_true', inMs] at h ⊢ <;>
      exact ⟨h.1.1.1.1, h.1.1.1.2, h.1.1.2⟩

theorem wfNodes_cons2 {tbl : Tbl} {ms? : Option (List Tag)} {seen : List Tag} {n m : Node}
    {rest : List Node} (h : wfNodes tbl ms? seen (n :: m :: rest) = true) :
    notOpen m.tag (openMembersNode tbl n) = true ∧
      wfNodes tbl ms? (n.tag :: seen) (m :: rest) = true := by
  unfold wfNodes at h
  simp only [Bool.and_eq_true] at h
  exact ⟨h.1.2, h.2⟩

theorem wfItem_leaf_head {tbl : Tbl} {ms : List Tag} {t v : Bytes} {rest : List Node}
    (h : wfItem tbl ms (.leaf t v :: rest) = true) :
    ms.contains t = true ∧ tbl.members? t = none := by
  have h1 := wfNodes_head (wfItem_wfNodes h)
  simp only [wfNode, Node.tag, Bool.and_eq_true, Option.isNone_iff_eq_none, inMs] at h1
  exact ⟨h1.2.2, h1.1.2⟩

theorem wfItems_head {tbl : Tbl} {ms : List Tag} {it : List Node} {rest : List (List Node)}
    (h : wfItems tbl ms (it :: rest) = true) : wfItem tbl ms it = true := by
  cases rest with
  | nil => unfold wfItems at h; exact h
  | cons r rs =>
    unfold wfItems at h
    simp only [Bool.and_eq_true] at h
    exact h.1.1

theorem wfItems_cons2 {tbl : Tbl} {ms : List Tag} {it nxt : List Node} {rest : List (List Node)}
    (h : wfItems tbl ms (it :: nxt :: rest) = true) :
    wfItems tbl ms (nxt :: rest) = true ∧
      ∃ t v nrest, nxt = .leaf t v :: nrest ∧ (contTags it).contains t = true ∧
        notOpen t (openMembersCont tbl it) = true := by
  unfold wfItems at h
  simp only [Bool.and_eq_true] at h
  refine ⟨h.2, ?_⟩
  have h2 := h.1.2
  cases nxt with
  | nil => cases h2
  | cons n nrest =>
    cases n with
    | leaf t v =>
      simp only [Bool.and_eq_true] at h2
      exact ⟨t, v, nrest, rfl, h2.1, h2.2⟩
    | err t => cases h2
    | group g items => cases h2

theorem has_of_contTags {it : List Node} {t : Tag} (h : (contTags it).contains t = true) :
    Cont.has it t = true := by
  simp only [contTags, List.contains_eq_mem, List.mem_map, decide_eq_true_eq] at h
  obtain ⟨n, hn, ht⟩ := h
  simp only [Cont.has, List.any_eq_true]
  exact ⟨n, hn, by simp [ht]⟩

theorem wfNodes_tail {tbl : Tbl} {ms? : Option (List Tag)} {seen : List Tag} {n : Node}
    {rest : List Node} (h : wfNodes tbl ms? seen (n :: rest) = true) :
    wfNodes tbl ms? (n.tag :: seen) rest = true := by
  cases rest with
  | nil => unfold wfNodes; rfl
  | cons m rest' => exact (wfNodes_cons2 h).2

theorem wfItems_tail {tbl : Tbl} {ms : List Tag} {it : List Node} {rest : List (List Node)}
    (h : wfItems tbl ms (it :: rest) = true) : wfItems tbl ms rest = true := by
  cases rest with
  | nil => unfold wfItems; rfl
  | cons r rs => exact (wfItems_cons2 h).1

/-- every entry tag of a well-formed item is a member of the enclosing group -/
theorem wfNodes_mem_inMs {tbl : Tbl} {ms? : Option (List Tag)} {seen : List Tag} {c : List Node}
    (h : wfNodes tbl ms? seen c = true) : ∀ n ∈ c, inMs ms? n.tag = true := by
  induction c generalizing seen with
  | nil => intro n hn; cases hn
  | cons m rest ih =>
    intro n hn
    rcases List.mem_cons.mp hn with rfl | hn
    · exact (wfNodes_head h).2.2
    · exact ih (wfNodes_tail h) n hn

end AsyncFix.Model.Codec
