import AsyncFix.Lemmas.SessionOutRun

/-!
C05: `send_msg` computed.  `sendGate_eq`, `sendCore_new`, `sendCore_fixed` give the result of the
model's `sendMsg` as closed expressions (new messages: a number is allocated; SequenceReset /
PossDupFlag=Y messages: the message's own number is used); `sendMsg_hold` is the Hoare triple every
handler that sends a new message relies on.
-/
namespace AsyncFix.Session

open AsyncFix.Generated AsyncFix.Generated.ConnEnum

attribute [local simp] M.bind_eq M.bind' M.get M.throw M.modify M.emit M.pure_eq M.pure' M.liftE

/-- the state refusals of `send_msg` (FIXConnectionError before anything is touched) -/
def gateRefuses (c : Conn) (m : Msg) : Bool :=
  decide (c.state < st_NETWORK_CONN_ESTABLISHED) ||
  (c.state == st_NETWORK_CONN_ESTABLISHED && (m.mtype != mLogon && m.mtype != mLogout)) ||
  (c.state != st_NETWORK_CONN_ESTABLISHED &&
    (c.role == roleInitiator && c.state == st_LOGON_INITIAL_SENT && m.mtype != mLogout))

/-- NETWORK_CONN_ESTABLISHED → LOGON_INITIAL_SENT / INITIATOR, before encoding -/
def afterGate (c : Conn) : Conn :=
  if c.state == st_NETWORK_CONN_ESTABLISHED then
    { c with state := st_LOGON_INITIAL_SENT,
             wasActive := c.wasActive || st_LOGON_INITIAL_SENT == st_ACTIVE, role := roleInitiator }
  else c

def gateEff (c : Conn) : List Effect :=
  if c.state == st_NETWORK_CONN_ESTABLISHED then [.onState st_LOGON_INITIAL_SENT] else []

theorem sendGate_eq (m : Msg) (c : Conn) :
    sendGate m c =
      if gateRefuses c m then ⟨.error .connection, c, []⟩ else ⟨.ok (), afterGate c, gateEff c⟩ := by
  unfold sendGate gateRefuses afterGate gateEff stateSet
  by_cases h1 : c.state < st_NETWORK_CONN_ESTABLISHED
  · simp [h1]
  · by_cases h2 : c.state = st_NETWORK_CONN_ESTABLISHED
    · simp [h2]
      split <;> simp_all
    · simp [h1, h2]
      split <;> simp_all

/-- `allocate_next_num_out()` happened -/
def bump (c : Conn) : Conn := { c with sess := { c.sess with nextOut := c.sess.nextOut + 1 } }

theorem restore_bump (c : Conn) :
    { bump c with sess := { (bump c).sess with nextOut := c.sess.nextOut } } = c := by
  cases c; rename_i s _ _ _ _ _ _; cases s; rfl

theorem restore_same (c : Conn) : { c with sess := { c.sess with nextOut := c.sess.nextOut } } = c := by
  cases c; rename_i s _ _ _ _ _ _; cases s; rfl

theorem isNew_iff (m : Msg) : isNew m = true ↔
    (m.mtype == mSequenceReset) = false ∧ ((m.get? tPossDupFlag).getD "N" == "Y") = false := by
  simp [isNew]

theorem encodeSeq_new (m : Msg) (c : Conn) (hn : isNew m = true) :
    encodeSeq m c = ⟨.ok c.sess.nextOut, bump c, []⟩ := by
  obtain ⟨h1, h2⟩ := (isNew_iff m).mp hn
  unfold encodeSeq
  simp only [h1, h2, Bool.false_eq_true, if_false, run_bind_get, run_bind_modify, run_pure]
  rfl

/-- SequenceReset / PossDupFlag=Y: the message's own MsgSeqNum, nothing allocated -/
theorem encodeSeq_fixed (m : Msg) (c : Conn) (v : String) (n : Int) (hn : isNew m = false)
    (hs : m.get? tMsgSeqNum = some v) (hv : pyInt v = some n) :
    encodeSeq m c = ⟨.ok n, c, []⟩ := by
  have hhas : m.has tMsgSeqNum = true := by simp [Msg.has, hs]
  have hget : m.get tMsgSeqNum = .ok v := by simp [Msg.get, hs]
  have key : ((if (!m.has tMsgSeqNum) = true then (M.throw .encoding : M Int) else do
      let v ← M.liftE (m.get tMsgSeqNum)
      M.int v) : M Int) c = ⟨.ok n, c, []⟩ := by
    rw [hhas, hget]
    simp only [Bool.not_true, Bool.false_eq_true, if_false]
    rw [run_bind_liftE_ok, run_int_some hv]
  unfold encodeSeq
  by_cases h1 : (m.mtype == mSequenceReset) = true
  · rw [if_pos h1]; exact key
  · rw [if_neg h1]
    have h2 : ((m.get? tPossDupFlag).getD "N" == "Y") = true := by
      simp only [isNew, Bool.and_eq_false_iff, Bool.not_eq_false'] at hn
      rcases hn with hn | hn
      · exact absurd hn h1
      · simpa using hn
    rw [if_pos h2]; exact key

/-- `send_msg` after the state checks, for a NEW message -/
theorem sendCore_new (env : Env) (m : Msg) (c : Conn) (hn : isNew m = true) :
    sendCore env m c =
      if (m.mtype == mTestRequest && c.testReqId.isNone) = true then ⟨.error .connection, c, []⟩
      else
        if (!frameLatin1 (buildFrame c.sess env.stamp m c.sess.nextOut)) = true then
          ⟨.error .encoding, c, []⟩
        else match c.journal.persist .outbound c.sess.nextOut
            (buildFrame c.sess env.stamp m c.sess.nextOut) with
          | none => ⟨.error .duplicateSeqNo, bump c, []⟩
          | some j =>
            if (!c.sock) = true then ⟨.error .attribute, { bump c with journal := j }, []⟩
            else ⟨.ok (), { bump c with journal := j },
              [.write (buildFrame c.sess env.stamp m c.sess.nextOut)]⟩ := by
  unfold sendCore
  rw [run_bind_get, run_ite]
  split
  · rfl
  · rw [run_bind_of_ok (encodeSeq_new m c hn), Out.pre_nil, run_bind_get, run_ite]
    have hf : buildFrame (bump c).sess env.stamp m c.sess.nextOut
        = buildFrame c.sess env.stamp m c.sess.nextOut := rfl
    rw [hf]
    split
    · rw [run_bind_modify, run_throw, restore_bump c]
    · have hj : (bump c).journal = c.journal := rfl
      rw [hj]
      cases hp : c.journal.persist .outbound c.sess.nextOut
          (buildFrame c.sess env.stamp m c.sess.nextOut) with
      | none => rfl
      | some j =>
        simp only
        rw [run_bind_modify, run_ite]
        have hs : (bump c).sock = c.sock := rfl
        rw [hs]
        split <;> rfl

/-- `send_msg` after the state checks, for a message that carries its own number `n` -/
theorem sendCore_fixed (env : Env) (m : Msg) (c : Conn) (n : Int)
    (he : encodeSeq m c = ⟨.ok n, c, []⟩) :
    sendCore env m c =
      if (m.mtype == mTestRequest && c.testReqId.isNone) = true then ⟨.error .connection, c, []⟩
      else
        if (!frameLatin1 (buildFrame c.sess env.stamp m n)) = true then ⟨.error .encoding, c, []⟩
        else match c.journal.persist .outbound n (buildFrame c.sess env.stamp m n) with
          | none => ⟨.error .duplicateSeqNo, c, []⟩
          | some j =>
            if (!c.sock) = true then ⟨.error .attribute, { c with journal := j }, []⟩
            else ⟨.ok (), { c with journal := j }, [.write (buildFrame c.sess env.stamp m n)]⟩ := by
  unfold sendCore
  rw [run_bind_get, run_ite]
  split
  · rfl
  · rw [run_bind_of_ok he, Out.pre_nil, run_bind_get, run_ite]
    split
    · rw [run_bind_modify, run_throw, restore_same c]
    · cases hp : c.journal.persist .outbound n (buildFrame c.sess env.stamp m n) with
      | none => rfl
      | some j =>
        simp only
        rw [run_bind_modify, run_ite]
        split <;> rfl

theorem sendMsg_eq (env : Env) (m : Msg) (c : Conn) :
    sendMsg env m c =
      if gateRefuses c m then ⟨.error .connection, c, []⟩
      else Out.pre (gateEff c) (sendCore env m (afterGate c)) := by
  unfold sendMsg
  by_cases h : gateRefuses c m = true
  · rw [if_pos h, run_bind_of_err (by rw [sendGate_eq, if_pos h])]
  · rw [if_neg h, run_bind_of_ok (by rw [sendGate_eq, if_neg h])]

end AsyncFix.Session
