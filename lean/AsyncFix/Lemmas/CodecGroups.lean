/-
Repeating-group reconstruction: feeding the wire-order fields of a well-formed container,
followed by the CheckSum field, to the decoder's field loop rebuilds exactly that container
(same entries, same order, same group nesting / item count / item order), with no group left open.
No bound on sizes or nesting depth (mutual structural induction in CodecGroupsTree.lean).
-/
import AsyncFix.Lemmas.CodecGroupsTree
namespace AsyncFix.Model.Codec

/-- the `(top, stack)` part: the whole container is rebuilt and every group is closed -/
theorem coreAll_wfTop (tbl : Tbl) (c : Cont) (v : Bytes) (h : wfTop tbl c = true) :
    coreAll tbl ([], []) (flatCont c ++ [⟨tag10, v⟩]) = .ok (c ++ [.leaf tag10 v], []) := by
  simp only [wfTop, Bool.and_eq_true, Bool.not_eq_true', Option.isNone_iff_eq_none] at h
  obtain ⟨⟨⟨hw, hopen⟩, hnot⟩, hnone⟩ := h
  obtain ⟨s', h1, h2⟩ := cont_ok tbl c ([], []) none [] hw (fun _ _ => rfl)
    (fun t ht => by simp [cur, Cont.has] at ht)
  have h2' : ClosesTo (openMembersCont tbl c) s' (c, []) := by
    simpa only [cur, setCur, List.nil_append] using h2
  have hhas : Cont.has c tag10 = false := by
    cases hc : Cont.has c tag10 with
    | false => rfl
    | true =>
      simp only [Cont.has, List.any_eq_true, beq_iff_eq] at hc
      obtain ⟨n, hn, ht⟩ := hc
      have : (contTags c).contains tag10 = true := by
        simp only [contTags, List.contains_eq_mem, List.mem_map, decide_eq_true_eq]
        exact ⟨n, hn, ht⟩
      rw [this] at hnot; cases hnot
  rw [coreAll_append, h1]
  simp only
  rw [coreAll_closesTo h2' hopen]
  have e := stepCore_leaf (tbl := tbl) (s := (c, [])) v rfl hnone hhas
  simp only [coreAll, e, cur, setCur]

theorem lastMtype_snoc_tag10 (fs : List Fld) (v : Bytes) :
    lastMtype (fs ++ [⟨tag10, v⟩]) = lastMtype fs := by
  simp [lastMtype, List.foldl_append, tag10, tag35]

/-- TARGET: the field loop on the wire order of a well-formed container + CheckSum -/
theorem stepAll_wfTop (tbl : Tbl) (ck : Nat) (c : Cont) (v : Bytes) (h : wfTop tbl c = true) :
    stepAll tbl ck {} (flatCont c ++ [⟨tag10, v⟩]) =
      .ok { top := c ++ [.leaf tag10 v], stack := [],
            mtype := lastMtype (flatCont c),
            ckPassed := (ckParse v == some ck) } := by
  rw [stepAll_eq]
  have hc := coreAll_wfTop tbl c v h
  simp only at hc ⊢
  rw [hc]
  simp only [bkAll_snd_tag10, bkAll_fst]
  congr 2
  exact lastMtype_snoc_tag10 (flatCont c) v

/-! ### non-vacuity: a message with a 2-item group whose first item holds a nested 2-item group -/

def exTbl : Tbl :=
  [([52, 53, 51], [[52, 52, 56], [52, 52, 55], [56, 48, 50]]), ([56, 48, 50], [[53, 50, 51]])]

/-- `35=D | 453=2 | 448=a 802=2 [523=x] [523=y] | 448=b 447=D | 58=t` -/
def exCont : Cont :=
  [.leaf [51, 53] [68],
   .group [52, 53, 51]
     [[.leaf [52, 52, 56] [97],
       .group [56, 48, 50] [[.leaf [53, 50, 51] [120]], [.leaf [53, 50, 51] [121]]]],
      [.leaf [52, 52, 56] [98], .leaf [52, 52, 55] [68]]],
   .leaf [53, 56] [116]]

theorem exCont_wfTop : wfTop exTbl exCont = true := by
  simp [wfTop, exTbl, exCont, wfNodes, wfNode, wfItems, wfItem, Tbl.members?, okTag, isDigit,
    maxStrDigits, SOH, notOpen, openMembersNode, openMembersItems, openMembersCont, contTags,
    Node.tag, tag10]

example (ck : Nat) (v : Bytes) :
    stepAll exTbl ck {} (flatCont exCont ++ [⟨tag10, v⟩]) =
      .ok { top := exCont ++ [.leaf tag10 v], stack := [], mtype := lastMtype (flatCont exCont),
            ckPassed := (ckParse v == some ck) } :=
  stepAll_wfTop exTbl ck exCont v exCont_wfTop

end AsyncFix.Model.Codec
