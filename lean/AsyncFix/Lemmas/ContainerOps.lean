/-
Operation-level lemmas: what each mutator does to the key order and to lookups, invariants of
operation sequences, refinement of `step` to the reference map.  Core Lean only.
-/
import AsyncFix.Lemmas.ContainerDict
import AsyncFix.Lemmas.ContainerPyInt
namespace AsyncFix.Model.Container
open AsyncFix.Py

/-- the dict key an operation writes (or deletes) -/
def Op.key : Op → Option Str
  | .set t _ _ => some t.pyStr
  | .del t => some t.pyStr
  | .addGroup t _ _ => some t.pyStr
  | .setGroup t _ => some t.pyStr
  | .pickle => none

/-! ### shape of a successful mutation -/

/-- every successful operation is the identity, one `dictSet` or one `dictDel` on the operation's key -/
theorem apply_shape (c c' : Cont) (op : Op) (h : op.apply c = .ok c') :
    c' = c ∨ (∃ k v, op.key = some k ∧ c' = dictSet k v c) ∨
      (∃ k, op = .del k ∧ hasKey k.pyStr c = true ∧ c' = dictDel k.pyStr c) := by
  cases op with
  | set t v r =>
    simp only [Op.apply, set] at h
    split at h
    · simp at h
    · split at h
      · simp only [Except.ok.injEq] at h
        exact Or.inr (Or.inl ⟨_, _, rfl, h.symm⟩)
      · split at h
        · simp at h
        · simp only [Except.ok.injEq] at h
          exact Or.inr (Or.inl ⟨_, _, rfl, h.symm⟩)
  | del t =>
    simp only [Op.apply, delItem] at h
    split at h
    · next hk =>
      simp only [Except.ok.injEq] at h
      exact Or.inr (Or.inr ⟨t, rfl, hk, h.symm⟩)
    · simp at h
  | addGroup t g i =>
    simp only [Op.apply, addGroup] at h
    split at h
    · simp at h
    · split at h
      · simp at h
      · split at h
        · simp only [Except.ok.injEq] at h
          exact Or.inr (Or.inl ⟨_, _, rfl, h.symm⟩)
        · simp at h
        · simp only [Except.ok.injEq] at h
          exact Or.inr (Or.inl ⟨_, _, rfl, h.symm⟩)
  | setGroup t gs =>
    simp only [Op.apply, setGroup] at h
    split at h
    · simp at h
    · split at h
      · simp at h
      · split at h
        · simp at h
        · simp only [Except.ok.injEq] at h
          exact Or.inr (Or.inl ⟨_, _, rfl, h.symm⟩)
  | pickle =>
    simp only [Op.apply, pickleRoundtrip, Except.ok.injEq] at h
    exact Or.inl h.symm

theorem step_fst (c : Cont) (op : Op) :
    (step c op).1 = c ∨ op.apply c = .ok (step c op).1 := by
  unfold step
  cases h : op.apply c with
  | ok c' => exact Or.inr rfl
  | error k => exact Or.inl rfl

/-- a raising operation leaves the container as it was -/
theorem step_raise_unchanged (c : Cont) (op : Op) (k : Kind) (h : (step c op).2 = some k) :
    (step c op).1 = c := by
  unfold step at h ⊢
  cases h' : op.apply c with
  | ok c' => rw [h'] at h; simp at h
  | error e => rfl

/-! ### invariants of sequences -/

theorem step_nodup (c : Cont) (op : Op) (h : (keys c).Nodup) : (keys (step c op).1).Nodup := by
  rcases step_fst c op with e | e
  · rw [e]; exact h
  · rcases apply_shape c _ op e with e' | ⟨k, v, _, e'⟩ | ⟨k, _, _, e'⟩
    · rw [e']; exact h
    · rw [e']; exact nodup_dictSet k v c h
    · rw [e']; exact nodup_dictDel _ c h

theorem run_nodup (c : Cont) (ops : List Op) (h : (keys c).Nodup) : (keys (run c ops)).Nodup := by
  induction ops generalizing c with
  | nil => exact h
  | cons op ops ih => exact ih _ (step_nodup c op h)

/-- the key order after one operation: unchanged, one key appended, or one key removed -/
theorem step_keys (c : Cont) (op : Op) :
    keys (step c op).1 = keys c ∨
    (∃ k, op.key = some k ∧ k ∉ keys c ∧ keys (step c op).1 = keys c ++ [k]) ∨
    (∃ t, op = .del t ∧ keys (step c op).1 = (keys c).erase t.pyStr) := by
  rcases step_fst c op with e | e
  · rw [e]; exact Or.inl rfl
  · rcases apply_shape c _ op e with e' | ⟨k, v, hk, e'⟩ | ⟨t, ht, _, e'⟩
    · rw [e']; exact Or.inl rfl
    · rw [e', keys_dictSet]
      by_cases hm : k ∈ keys c
      · simp [hm]
      · simp only [hm, if_false]
        exact Or.inr (Or.inl ⟨k, hk, hm, rfl⟩)
    · rw [e', keys_dictDel]
      exact Or.inr (Or.inr ⟨t, ht, rfl⟩)

/-- keys that are not deleted keep their relative order, whatever else happens -/
theorem step_sublist (c : Cont) (op : Op) (l : List Str) (hl : l.Sublist (keys c))
    (hdel : ∀ t, op = .del t → t.pyStr ∉ l) : l.Sublist (keys (step c op).1) := by
  rcases step_keys c op with e | ⟨k, _, _, e⟩ | ⟨t, ht, e⟩
  · rw [e]; exact hl
  · rw [e]; exact hl.trans (List.sublist_append_left _ _)
  · rw [e]
    have := hl.erase t.pyStr
    rwa [List.erase_of_not_mem (hdel t ht)] at this

theorem run_sublist (c : Cont) (ops : List Op) (l : List Str) (hl : l.Sublist (keys c))
    (hdel : ∀ op ∈ ops, ∀ t, op = .del t → t.pyStr ∉ l) : l.Sublist (keys (run c ops)) := by
  induction ops generalizing c with
  | nil => exact hl
  | cons op ops ih =>
    exact ih _ (step_sublist c op l hl (hdel op (by simp)))
      (fun o ho => hdel o (by simp [ho]))

/-- operations on other keys do not disturb a lookup -/
theorem step_lookup_other (c : Cont) (op : Op) (k : Str) (hk : op.key ≠ some k) :
    lookup k (step c op).1 = lookup k c := by
  rcases step_fst c op with e | e
  · rw [e]
  · rcases apply_shape c _ op e with e' | ⟨k', v, hk', e'⟩ | ⟨t, ht, _, e'⟩
    · rw [e']
    · rw [e']
      apply lookup_dictSet_ne
      intro hh; subst hh; exact hk hk'
    · rw [e']
      apply lookup_dictDel_ne
      intro hh; subst ht; exact hk (by simp [Op.key, hh])

theorem run_lookup_other (c : Cont) (ops : List Op) (k : Str) (hk : ∀ op ∈ ops, op.key ≠ some k) :
    lookup k (run c ops) = lookup k c := by
  induction ops generalizing c with
  | nil => rfl
  | cons op ops ih =>
    simp only [run]
    rw [ih _ (fun o ho => hk o (by simp [ho])), step_lookup_other c op k (hk op (by simp))]

/-! ### set / get -/

theorem set_ok_obj (c c' : Cont) (t : PyObj) (o : PyObj) (r : Bool) (h : set c t (.obj o) r = .ok c') :
    intLike t.pyStr = true ∧ (r = true ∨ hasKey t.pyStr c = false) ∧ c' = dictSet t.pyStr (.str o.pyStr) c := by
  simp only [set] at h
  split at h
  · simp at h
  · next hi =>
    split at h
    · next hd => simp at h
    · next hd =>
      simp only [Except.ok.injEq] at h
      refine ⟨by simpa using hi, ?_, h.symm⟩
      cases r <;> simp_all

theorem get_of_lookup_str (c : Cont) (t : PyObj) (d : Default) (s : Str)
    (h : lookup t.pyStr c = some (.str s)) : get c t d = .ok (.str s) := by
  simp [get, h]

/-- lookups never depend on how a tag is spelled, only on `str(tag)` -/
theorem get_congr (c : Cont) (t t' : PyObj) (d : Default) (h : t'.pyStr = t.pyStr) :
    get c t' d = get c t d := by simp [get, h]

theorem set_congr (c : Cont) (t t' : PyObj) (v : PyVal) (r : Bool) (h : t'.pyStr = t.pyStr) :
    set c t' v r = set c t v r := by simp [set, h]

theorem isGroup_congr (c : Cont) (t t' : PyObj) (h : t'.pyStr = t.pyStr) :
    isGroup c t' = isGroup c t := by simp [isGroup, h]

theorem contains_congr (c : Cont) (t t' : PyObj) (h : t'.pyStr = t.pyStr) :
    contains c t' = contains c t := by simp [contains, h]

theorem delItem_congr (c : Cont) (t t' : PyObj) (h : t'.pyStr = t.pyStr) :
    delItem c t' = delItem c t := by simp [delItem, h]

theorem addGroup_congr (c : Cont) (t t' : PyObj) (g : DItem) (i : Int) (h : t'.pyStr = t.pyStr) :
    addGroup c t' g i = addGroup c t g i := by simp [addGroup, h]

theorem setGroup_congr (c : Cont) (t t' : PyObj) (gs : List DItem) (h : t'.pyStr = t.pyStr) :
    setGroup c t' gs = setGroup c t gs := by simp [setGroup, h]

theorem getGroupList_congr (c : Cont) (t t' : PyObj) (h : t'.pyStr = t.pyStr) :
    getGroupList c t' = getGroupList c t := by simp [getGroupList, h]

/-! ### refinement of `step` to the reference map -/

/-- the operations stated on the reference map -/
def Spec.apply (m : OMap Val) : Op → Except Kind (OMap Val)
  | .set t v r =>
    if !intLike t.pyStr then .error .fixMessageError
    else match v with
      | .cls k => .ok (m.put t.pyStr (.cls k))
      | .obj o =>
        if !r && (m.val t.pyStr).isSome then .error .duplicated
        else .ok (m.put t.pyStr (.str o.pyStr))
  | .del t => if (m.val t.pyStr).isSome then .ok (m.remove t.pyStr) else .error .keyError
  | .addGroup t item i =>
    if !intLike t.pyStr then .error .fixMessageError
    else match item.toCont with
      | .error e => .error e
      | .ok g =>
        match m.val t.pyStr with
        | some (.group items) => .ok (m.put t.pyStr (.group (groupAdd items g i)))
        | some _ => .error .duplicated
        | none => .ok (m.put t.pyStr (.group (groupAdd [] g i)))
  | .setGroup t items =>
    if !intLike t.pyStr then .error .fixMessageError
    else if (m.val t.pyStr).isSome then .error .duplicated
    else match buildItems items with
      | .error e => .error e
      | .ok gs => .ok (m.put t.pyStr (.group gs))
  | .pickle => .ok m

def Spec.step (m : OMap Val) (op : Op) : OMap Val × Option Kind :=
  match Spec.apply m op with
  | .ok m' => (m', none)
  | .error k => (m, some k)

def Spec.run (m : OMap Val) : List Op → OMap Val
  | [] => m
  | op :: ops => Spec.run (Spec.step m op).1 ops

theorem absMap_val (c : Cont) (k : Str) : (absMap c).val k = lookup k c := rfl

theorem apply_refines (c : Cont) (op : Op) (hnd : (keys c).Nodup) :
    Spec.apply (absMap c) op = (op.apply c).map absMap := by
  cases op with
  | set t v r =>
    simp only [Op.apply, set, Spec.apply, absMap_val, hasKey]
    cases intLike t.pyStr with
    | false => rfl
    | true =>
      cases v with
      | cls k => simp [Except.map, absMap_dictSet]
      | obj o =>
        by_cases h : (lookup t.pyStr c).isSome = true <;> cases r <;> simp [h, Except.map, absMap_dictSet]
  | del t =>
    simp only [Op.apply, delItem, Spec.apply, absMap_val, hasKey]
    by_cases h : (lookup t.pyStr c).isSome = true
    · simp [h, Except.map, absMap_dictDel _ _ hnd]
    · simp [h, Except.map]
  | addGroup t g i =>
    simp only [Op.apply, addGroup, Spec.apply, absMap_val]
    cases intLike t.pyStr with
    | false => rfl
    | true =>
      cases g.toCont with
      | error e => rfl
      | ok gc =>
        cases h : lookup t.pyStr c with
        | none => simp [Except.map, absMap_dictSet]
        | some v =>
          cases v with
          | group items => simp [Except.map, absMap_dictSet]
          | str s => rfl
          | cls k => rfl
  | setGroup t gs =>
    simp only [Op.apply, setGroup, Spec.apply, absMap_val, hasKey]
    cases intLike t.pyStr with
    | false => rfl
    | true =>
      by_cases h : (lookup t.pyStr c).isSome = true
      · simp [h, Except.map]
      · cases buildItems gs with
        | error e => simp [h, Except.map]
        | ok l => simp [h, Except.map, absMap_dictSet]
  | pickle => simp [Op.apply, Spec.apply, pickleRoundtrip, Except.map]

theorem step_refines (c : Cont) (op : Op) (hnd : (keys c).Nodup) :
    Spec.step (absMap c) op = (absMap (step c op).1, (step c op).2) := by
  have := apply_refines c op hnd
  unfold step Spec.step
  rw [this]
  cases op.apply c with
  | ok c' => rfl
  | error k => rfl

theorem run_refines (c : Cont) (ops : List Op) (hnd : (keys c).Nodup) :
    absMap (run c ops) = Spec.run (absMap c) ops := by
  induction ops generalizing c with
  | nil => rfl
  | cons op ops ih =>
    simp only [run, Spec.run]
    rw [step_refines c op hnd]
    exact ih _ (step_nodup c op hnd)

end AsyncFix.Model.Container
