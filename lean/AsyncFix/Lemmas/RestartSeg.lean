import AsyncFix.Lemmas.RestartMonad

/-!
The segmented handlers compose to the sequential model functions.
-/
namespace AsyncFix.Restart

open AsyncFix.Session AsyncFix.Generated AsyncFix.Generated.ConnEnum

/-! ### `send_msg` -/

/-- `sendCore` = allocate; journal; write; drain -/
theorem sendCore_eq (env : Env) (m : Msg) :
    sendCore env m = (do
      let p ← sendAlloc env m
      sendJournal p.1 p.2
      sendWrite p.2
      sendDrain) := by
  funext c
  simp only [sendCore, sendAlloc, sendJournal, sendWrite, sendDrain, bind_assoc, M.ite_bind, M.throw_bind,
    M.get_bind_apply, M.ite_apply, M.throw_apply, pure_bind]
  split
  · rfl
  · rcases h : encodeSeq m c with ⟨r, c1, e1⟩
    cases r with
    | error ex => rw [M.bind_err h, M.bind_err h]
    | ok seq =>
      rw [M.bind_ok h, M.bind_ok h]
      simp only [M.get_bind_apply, M.ite_apply]
      split
      · rfl
      · cases hp : c1.journal.persist .outbound seq (buildFrame c1.sess env.stamp m seq) with
        | none => simp
        | some j => simp [M.ite_apply]

theorem sendSeq_eq (env : Env) (m : Msg) : sendSeq env m = sendMsg env m := by
  simp only [sendSeq, sendSegs, runSegs, sendMsg, sendCore_eq, bind_assoc, pure_bind, sendDrain, bind_pure_unit]


/-! ### `_process_message` -/

/-- segments 3-5 = `_finalize_message` -/
theorem finalize_eq (env : Env) (m : Msg) (s : RecvSt) (hgo : s.go = true) (hv : s.valid = true) :
    (do let s1 ← recvCount m s
        let s2 ← recvMark env s1
        let _ ← recvJournal m s2
        pure ()) = finalizeMessage env m := by
  simp only [recvCount, hgo, hv, Bool.and_self, if_true, finalizeMessage, bind_assoc, pure_bind]
  congr 1
  funext k
  by_cases hk : k ≤ 0
  · have : ¬ (k > 0) := by omega
    simp [recvMark, recvJournal, hk, this]
  · have : k > 0 := by omega
    simp only [recvMark, recvJournal, this, decide_true, if_true, hk, if_false, bind_assoc, pure_bind,
      bind_pure_unit, M.ite_bind]

theorem recvSeq_eq (sr : Msg → Bool) (env : Env) (m : Msg) : recvSeq sr env m = processMessage env sr m := by
  simp only [recvSeq, recvSegs, runSegs, processMessage, recvHead, bind_assoc, pure_bind]
  congr 1
  funext integ
  cases integ with
  | critical => simp [recvDispatch, recvCount, recvMark, recvJournal]
  | reason text => simp [recvDispatch, recvCount, recvMark, recvJournal]
  | good =>
    simp only [bind_assoc]
    congr 1
    funext head
    cases head with
    | none => simp [recvDispatch, recvCount, recvMark, recvJournal]
    | some p =>
      obtain ⟨valid, n⟩ := p
      simp only [pure_bind, recvDispatch, if_true, bind_assoc]
      congr 1
      funext _
      cases valid with
      | false => simp [recvCount, recvMark, recvJournal]
      | true =>
        simp only [if_true]
        exact finalize_eq env m _ rfl rfl

end AsyncFix.Restart
