/-
C15, order-independence of component declarations: environments built by the sweep loop.
-/
import AsyncFix.Lemmas.SchemaResolveA
namespace AsyncFix.Model.SchemaResolve

def envNames (env : Env) : List String := env.map (·.1)
def declNames (p : List CDecl) : List String := p.map (·.1)

theorem get_none_iff {env : Env} {n : String} : env.get n = none ↔ n ∉ envNames env := by
  induction env with
  | nil => simp [Env.get, envNames]
  | cons p rest ih =>
    obtain ⟨a, b⟩ := p
    simp only [Env.get, envNames, List.map_cons, List.mem_cons, not_or]
    by_cases h : a = n
    · simp [h]
    · simp only [h, if_false]
      rw [ih]
      exact ⟨fun h' => ⟨fun e => h e.symm, h'⟩, fun h' => h'.2⟩

theorem get_isSome_iff {env : Env} {n : String} : (env.get n).isSome = true ↔ n ∈ envNames env := by
  cases h : env.get n with
  | none => simp [get_none_iff.mp h]
  | some x =>
    simp only [Option.isSome_some, true_iff]
    by_cases hm : n ∈ envNames env
    · exact hm
    · rw [get_none_iff.mpr hm] at h; cases h

theorem le_snoc {env : Env} {n0 : String} {ms0 : List RMem} (_h0 : env.get n0 = none) :
    ∀ c x, env.get c = some x → Env.get (env ++ [(n0, ms0)]) c = some x := by
  intro c x hc
  rw [Env.get_append, hc]

theorem decl_unique {ds : List CDecl} (hnd : (declNames ds).Nodup) {n : String} {b1 b2 : List Decl}
    (h1 : (n, b1) ∈ ds) (h2 : (n, b2) ∈ ds) : b1 = b2 := by
  induction ds with
  | nil => cases h1
  | cons d rest ih =>
    simp only [declNames, List.map_cons, List.nodup_cons] at hnd
    rcases List.mem_cons.mp h1 with e1 | h1 <;> rcases List.mem_cons.mp h2 with e2 | h2
    · rw [← e1] at e2; exact (Prod.mk.inj e2).2.symm
    · exact absurd (List.mem_map.mpr ⟨(n, b2), h2, by rw [← e1]⟩) hnd.1
    · exact absurd (List.mem_map.mpr ⟨(n, b1), h1, by rw [← e2]⟩) hnd.1
    · exact ih hnd.2 h1 h2

/-- environments the sweep loop can produce from declarations `ds`: every entry is the
    undeferred expansion of its declaration in the environment before it -/
inductive Built (ds : List CDecl) : Env → Prop
  | nil : Built ds []
  | snoc {env : Env} {n : String} {body : List Decl} {ms : List RMem} :
      Built ds env → (n, body) ∈ ds → env.get n = none →
      expandBody env body [] false = .done ms false → Built ds (env ++ [(n, ms)])

variable {ds : List CDecl}

theorem Built.names_sub {env : Env} (h : Built ds env) : ∀ n, n ∈ envNames env → n ∈ declNames ds := by
  induction h with
  | nil => intro n hn; cases hn
  | snoc _ hm _ _ ih =>
    intro k hk
    simp only [envNames, List.map_append, List.mem_append, List.map_cons, List.map_nil,
      List.mem_singleton] at hk
    rcases hk with hk | hk
    · exact ih k hk
    · exact hk ▸ List.mem_map.mpr ⟨_, hm, rfl⟩

theorem Built.nodup {env : Env} (h : Built ds env) : (envNames env).Nodup := by
  induction h with
  | nil => simp [envNames]
  | snoc _ _ hn _ ih =>
    simp only [envNames, List.map_append, List.map_cons, List.map_nil]
    rw [List.nodup_append]
    refine ⟨ih, by simp, ?_⟩
    intro a ha b hb
    simp only [List.mem_singleton] at hb
    subst hb
    intro e; subst e
    exact get_none_iff.mp hn ha

theorem Built.get_inv {E : Env} (h : Built ds E) {n : String} {ms : List RMem} (hg : E.get n = some ms) :
    ∃ pre body, Built ds pre ∧ (∀ c x, pre.get c = some x → E.get c = some x) ∧ (n, body) ∈ ds ∧
      expandBody pre body [] false = .done ms false := by
  induction h with
  | nil => simp [Env.get] at hg
  | @snoc env n0 body0 ms0 hb hm hn he ih =>
    rw [Env.get_append] at hg
    cases hgn : env.get n with
    | some y =>
      simp only [hgn, Option.some.injEq] at hg
      subst hg
      obtain ⟨pre, body, h1, h2, h3, h4⟩ := ih hgn
      exact ⟨pre, body, h1, fun c x hc => le_snoc hn c x (h2 c x hc), h3, h4⟩
    | none =>
      simp only [hgn] at hg
      split at hg
      · rename_i e
        cases hg; subst e
        exact ⟨env, body0, hb, le_snoc hn, hm, he⟩
      · cases hg

/-- two built environments agree on the components they both have -/
theorem Built.agree (hnd : (declNames ds).Nodup) {E1 : Env} (h1 : Built ds E1) :
    ∀ {E2 : Env}, Built ds E2 → ∀ {n x1 x2}, E1.get n = some x1 → E2.get n = some x2 → x1 = x2 := by
  induction h1 with
  | nil => intro _ _ _ _ _ hg; simp [Env.get] at hg
  | @snoc env n0 body0 ms0 hb hm hn he ih =>
    intro E2 h2 n x1 x2 hg1 hg2
    rw [Env.get_append] at hg1
    cases hgn : env.get n with
    | some y =>
      simp only [hgn, Option.some.injEq] at hg1
      subst hg1
      exact ih h2 hgn hg2
    | none =>
      simp only [hgn] at hg1
      split at hg1
      · rename_i e
        cases hg1; subst e
        obtain ⟨pre, body, hp1, hp2, hp3, hp4⟩ := h2.get_inv hg2
        have := decl_unique hnd hm hp3
        subst this
        have r1 := (expand_nodefer env he).2
        have r2 := (expand_nodefer pre hp4).2
        have hc : ∀ c, c ∈ refs body0 → env.get c = pre.get c := by
          intro c hc
          cases ha : env.get c with
          | none => have := r1 c hc; simp [ha] at this
          | some a =>
            cases hb' : pre.get c with
            | none => have := r2 c hc; simp [hb'] at this
            | some b => rw [ih h2 ha (hp2 c b hb')]
        rw [expand_congr hc, hp4] at he
        simp only [Res.done.injEq, and_true] at he
        exact he.symm
      · cases hg1

/-! ### one sweep -/

theorem sweep_sound {env : Env} {p : List CDecl} {e : Env} {r : List CDecl}
    (h : sweep env p = some (e, r)) (hb : Built ds env) (hp : ∀ d, d ∈ p → d ∈ ds) :
    Built ds e ∧ (∀ d, d ∈ r → d ∈ p) ∧
      (envNames e ++ declNames r).Perm (envNames env ++ declNames p) ∧
      (∀ c x, env.get c = some x → e.get c = some x) := by
  fun_induction sweep env p generalizing e r with
  | case1 env => simp only [Option.some.injEq, Prod.mk.injEq] at h; obtain ⟨rfl, rfl⟩ := h; simp [hb]
  | case2 => cases h
  | case3 => cases h
  | case4 env n body rest hn ms he ih =>
    have hn' : env.get n = none := by simpa using hn
    obtain ⟨h1, h2, h3, h4⟩ := ih h (Built.snoc hb (hp _ (List.mem_cons_self ..)) hn' he)
      (fun d hd => hp d (List.mem_cons_of_mem _ hd))
    refine ⟨h1, fun d hd => List.mem_cons_of_mem _ (h2 d hd), ?_, fun c x hc => h4 c x (le_snoc hn' c x hc)⟩
    refine h3.trans ?_
    simp only [envNames, declNames, List.map_append, List.map_cons, List.map_nil, List.append_assoc,
      List.singleton_append]
    exact List.Perm.refl _
  | case5 => simp_all
  | case6 env n body rest hn ms he e' p' hs ih =>
    simp only [Option.some.injEq, Prod.mk.injEq] at h
    obtain ⟨rfl, rfl⟩ := h
    obtain ⟨h1, h2, h3, h4⟩ := ih hs hb (fun d hd => hp d (List.mem_cons_of_mem _ hd))
    refine ⟨h1, ?_, ?_, h4⟩
    · intro d hd
      rcases List.mem_cons.mp hd with rfl | hd
      · exact List.mem_cons_self ..
      · exact List.mem_cons_of_mem _ (h2 d hd)
    · simp only [declNames, List.map_cons] at h3 ⊢
      exact (List.perm_middle.trans (List.Perm.cons _ h3)).trans List.perm_middle.symm

/-- a sweep that resolves nothing found every pending declaration deferred -/
theorem sweep_stuck {env : Env} {p : List CDecl} {e : Env} {r : List CDecl}
    (h : sweep env p = some (e, r)) :
    r.length ≤ p.length ∧ (r.length = p.length →
      ∀ d, d ∈ p → ∃ ms, expandBody env d.2 [] false = .done ms true) := by
  fun_induction sweep env p generalizing e r with
  | case1 env => simp only [Option.some.injEq, Prod.mk.injEq] at h; obtain ⟨rfl, rfl⟩ := h; simp
  | case2 => cases h
  | case3 => cases h
  | case4 env n body rest hn ms he ih =>
    have := (ih h).1
    simp only [List.length_cons]
    exact ⟨by omega, fun e => by omega⟩
  | case5 => simp_all
  | case6 env n body rest hn ms he e' p' hs ih =>
    simp only [Option.some.injEq, Prod.mk.injEq] at h
    obtain ⟨rfl, rfl⟩ := h
    obtain ⟨h1, h2⟩ := ih hs
    simp only [List.length_cons]
    refine ⟨by omega, fun e => ?_⟩
    intro d hd
    rcases List.mem_cons.mp hd with rfl | hd
    · exact ⟨ms, he⟩
    · exact h2 (by omega) d hd

theorem loop_sound {env : Env} {p : List CDecl} {E : Env}
    (h : resolveLoop env p = .ok E) (hb : Built ds env) (hp : ∀ d, d ∈ p → d ∈ ds) :
    Built ds E ∧ (envNames E).Perm (envNames env ++ declNames p) := by
  fun_induction resolveLoop env p generalizing E with
  | case1 env p he =>
    have : p = [] := by simpa using he
    subst this
    simp only [Resolved.ok.injEq] at h
    subst h
    simp [hb, declNames]
  | case2 => cases h
  | case3 env p hne e r hs hlt ih =>
    obtain ⟨h1, h2, h3, _⟩ := sweep_sound hs hb hp
    obtain ⟨a, b⟩ := ih h h1 (fun d hd => hp d (h2 d hd))
    exact ⟨a, b.trans h3⟩
  | case4 => cases h

end AsyncFix.Model.SchemaResolve
