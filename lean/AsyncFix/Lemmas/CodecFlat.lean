/-
`flatCont` is what the encoder emits, and its fields are decodable:
 (a) `addCont c = .ok ((flatCont c).map …)` for every container without `.err` entries at any
     level (`addCont_flat`), in particular every well-formed one (`addCont_wf`);
 (b) every field of `flatCont c` has an `okTag` tag and a SOH-free value when `c` is well-formed
     (`flatCont_okFld`); `okFields (flatCont c)` needs in addition that no field – at any nesting
     level – carries tag "10" (`okFields_flatCont`), which follows from `wfTop` when no member
     list of the group table contains "10" (`flatCont_no10`, `okFields_flatCont_wfTop`).
-/
import AsyncFix.Model.Codec.Encode
import AsyncFix.Lemmas.CodecDec
import AsyncFix.Lemmas.CodecGroupsWf
namespace AsyncFix.Model.Codec

mutual
/-- no `RepeatingTagError` marker at any level -/
def noErrNode : Node → Bool
  | .leaf _ _ => true
  | .err _ => false
  | .group _ items => noErrItems items
def noErrItems : List (List Node) → Bool
  | [] => true
  | it :: rest => noErrCont it && noErrItems rest
def noErrCont : List Node → Bool
  | [] => true
  | n :: rest => noErrNode n && noErrCont rest
end

/-- one wire field -/
def fb (f : Fld) : Bytes := fieldBytes f.tag f.val

/-! ### shape of `flatCont` -/

theorem flatCont_append (a b : List Node) : flatCont (a ++ b) = flatCont a ++ flatCont b := by
  induction a with
  | nil => rfl
  | cons n rest ih => simp only [List.cons_append, flatCont, ih, List.append_assoc]

/-- a container of plain entries (e.g. the header fields) flattens to itself -/
theorem flatCont_leaves (fs : List Fld) : flatCont (fs.map fun f => .leaf f.tag f.val) = fs := by
  induction fs with
  | nil => rfl
  | cons f rest ih => simp only [List.map_cons, flatCont, flatNode, ih, List.cons_append, List.nil_append]

/-! ### (a) the encoder emits `flatCont` -/

mutual
theorem addTag_flat : (n : Node) → noErrNode n = true → addTag n = .ok ((flatNode n).map fb)
  | .leaf t v, _ => rfl
  | .err t, h => by simp [noErrNode] at h
  | .group g items, h => by
    simp only [noErrNode] at h
    simp only [addTag, addItems_flat items h, flatNode, List.map_cons]
    rfl
theorem addItems_flat : (items : List (List Node)) → noErrItems items = true →
    addItems items = .ok ((flatItems items).map fb)
  | [], _ => rfl
  | it :: rest, h => by
    simp only [noErrItems, Bool.and_eq_true] at h
    simp only [addItems, addCont_flat it h.1, addItems_flat rest h.2, flatItems, List.map_append]
theorem addCont_flat : (c : List Node) → noErrCont c = true →
    addCont c = .ok ((flatCont c).map fb)
  | [], _ => rfl
  | n :: rest, h => by
    simp only [noErrCont, Bool.and_eq_true] at h
    simp only [addCont, addTag_flat n h.1, addCont_flat rest h.2, flatCont, List.map_append]
end

mutual
theorem noErr_of_wfNode (tbl : Tbl) : (n : Node) → wfNode tbl n = true → noErrNode n = true
  | .leaf _ _, _ => rfl
  | .err _, h => by simp [wfNode] at h
  | .group g items, h => by
    simp only [wfNode, Bool.and_eq_true] at h
    cases hm : tbl.members? g with
    | none => simp [hm] at h
    | some ms =>
      simp only [hm, Bool.and_eq_true] at h
      simp only [noErrNode]
      exact noErr_of_wfItems tbl ms items h.2.2
theorem noErr_of_wfItems (tbl : Tbl) (ms : List Tag) : (items : List (List Node)) →
    wfItems tbl ms items = true → noErrItems items = true
  | [], _ => rfl
  | it :: rest, h => by
    simp only [noErrItems, Bool.and_eq_true]
    exact ⟨noErr_of_wfNodes tbl (some ms) [] it (wfItem_wfNodes (wfItems_head h)),
      noErr_of_wfItems tbl ms rest (wfItems_tail h)⟩
theorem noErr_of_wfNodes (tbl : Tbl) (ms? : Option (List Tag)) (seen : List Tag) :
    (c : List Node) → wfNodes tbl ms? seen c = true → noErrCont c = true
  | [], _ => rfl
  | n :: rest, h => by
    simp only [noErrCont, Bool.and_eq_true]
    exact ⟨noErr_of_wfNode tbl n (wfNodes_head h).1,
      noErr_of_wfNodes tbl ms? (n.tag :: seen) rest (wfNodes_tail h)⟩
end

/-- the encoder's `_addTag` loop on a well-formed container emits exactly its wire order -/
theorem addCont_wf {tbl : Tbl} {ms? : Option (List Tag)} {seen : List Tag} {c : List Node}
    (h : wfNodes tbl ms? seen c = true) :
    addCont c = .ok ((flatCont c).map fun f => fieldBytes f.tag f.val) :=
  addCont_flat c (noErr_of_wfNodes tbl ms? seen c h)

theorem addCont_wfTop {tbl : Tbl} {c : Cont} (h : wfTop tbl c = true) :
    addCont c = .ok ((flatCont c).map fun f => fieldBytes f.tag f.val) := by
  simp only [wfTop, Bool.and_eq_true] at h
  exact addCont_wf h.1.1.1

/-! ### (b) the fields of `flatCont` are decodable -/

/-- a field the decoder's guards accept and that cannot break the SOH framing -/
def okFld (f : Fld) : Bool := okTag f.tag && !f.val.contains SOH

theorem natToDec_no_SOH (n : Nat) : (natToDec n).contains SOH = false := by
  have h := natToDec_all_digit n
  cases hc : (natToDec n).contains SOH with
  | false => rfl
  | true =>
    simp only [List.contains_eq_mem, decide_eq_true_eq] at hc
    have := List.all_eq_true.mp h SOH hc
    simp [isDigit, SOH] at this

mutual
theorem flatNode_okFld (tbl : Tbl) : (n : Node) → wfNode tbl n = true →
    (flatNode n).all okFld = true
  | .leaf t v, h => by
    simp only [wfNode, Bool.and_eq_true] at h
    simp only [flatNode, List.all_cons, List.all_nil, Bool.and_true, okFld, Bool.and_eq_true]
    exact ⟨h.1.1, h.1.2⟩
  | .err _, h => by simp [wfNode] at h
  | .group g items, h => by
    simp only [wfNode, Bool.and_eq_true] at h
    cases hm : tbl.members? g with
    | none => simp [hm] at h
    | some ms =>
      simp only [hm, Bool.and_eq_true] at h
      simp only [flatNode, List.all_cons, Bool.and_eq_true, okFld, natToDec_no_SOH, Bool.not_false]
      exact ⟨⟨h.1, trivial⟩, flatItems_okFld tbl ms items h.2.2⟩
theorem flatItems_okFld (tbl : Tbl) (ms : List Tag) : (items : List (List Node)) →
    wfItems tbl ms items = true → (flatItems items).all okFld = true
  | [], _ => rfl
  | it :: rest, h => by
    simp only [flatItems, List.all_append, Bool.and_eq_true]
    exact ⟨flatCont_okFld tbl (some ms) [] it (wfItem_wfNodes (wfItems_head h)),
      flatItems_okFld tbl ms rest (wfItems_tail h)⟩
theorem flatCont_okFld (tbl : Tbl) (ms? : Option (List Tag)) (seen : List Tag) :
    (c : List Node) → wfNodes tbl ms? seen c = true → (flatCont c).all okFld = true
  | [], _ => rfl
  | n :: rest, h => by
    simp only [flatCont, List.all_append, Bool.and_eq_true]
    exact ⟨flatNode_okFld tbl n (wfNodes_head h).1,
      flatCont_okFld tbl ms? (n.tag :: seen) rest (wfNodes_tail h)⟩
end

/-- `okFields` (Frame.lean) of the encoder's body output: well-formedness plus
"no field at any nesting level has tag 10" -/
theorem okFields_flatCont {tbl : Tbl} {ms? : Option (List Tag)} {seen : List Tag} {c : List Node}
    (h : wfNodes tbl ms? seen c = true) (h10 : ∀ f ∈ flatCont c, f.tag ≠ tag10) :
    okFields (flatCont c) = true := by
  have hk := flatCont_okFld tbl ms? seen c h
  simp only [okFields, List.all_eq_true, Bool.and_eq_true, bne_iff_ne, ne_eq] at hk ⊢
  intro f hf
  have := hk f hf
  simp only [okFld, Bool.and_eq_true] at this
  exact ⟨⟨this.1, h10 f hf⟩, this.2⟩

/-! ### where tag 10 can occur -/

/-- no group of the table lists CheckSum(10) as a member (decidable; true of the FIX 4.4 table) -/
def tblNo10 (tbl : Tbl) : Bool := tbl.all fun p => !p.2.contains tag10

theorem members_no10 {tbl : Tbl} {g : Tag} {ms : List Tag} (ht : tblNo10 tbl = true)
    (hm : tbl.members? g = some ms) : ms.contains tag10 = false := by
  unfold Tbl.members? at hm
  split at hm
  · next p hp =>
    cases hm
    have := List.all_eq_true.mp ht p (List.mem_of_find?_eq_some hp)
    simpa using this
  · cases hm

mutual
theorem flatNode_no10 (tbl : Tbl) (ht : tblNo10 tbl = true) : (n : Node) → wfNode tbl n = true →
    n.tag ≠ tag10 → ∀ f ∈ flatNode n, f.tag ≠ tag10
  | .leaf t v, _, hn => by
    intro f hf
    simp only [flatNode, List.mem_singleton] at hf
    subst hf; exact hn
  | .err _, h, _ => by simp [wfNode] at h
  | .group g items, h, hn => by
    simp only [wfNode, Bool.and_eq_true] at h
    cases hm : tbl.members? g with
    | none => simp [hm] at h
    | some ms =>
      simp only [hm, Bool.and_eq_true] at h
      intro f hf
      simp only [flatNode, List.mem_cons] at hf
      rcases hf with rfl | hf
      · exact hn
      · exact flatItems_no10 tbl ht ms items h.2.2 (members_no10 ht hm) f hf
theorem flatItems_no10 (tbl : Tbl) (ht : tblNo10 tbl = true) (ms : List Tag) :
    (items : List (List Node)) → wfItems tbl ms items = true → ms.contains tag10 = false →
    ∀ f ∈ flatItems items, f.tag ≠ tag10
  | [], _, _ => by intro f hf; cases hf
  | it :: rest, h, hms => by
    intro f hf
    simp only [flatItems, List.mem_append] at hf
    have hw := wfItem_wfNodes (wfItems_head h)
    rcases hf with hf | hf
    · refine flatCont_no10 tbl ht (some ms) [] it hw ?_ f hf
      intro n hn he
      have := wfNodes_mem_inMs hw n hn
      rw [he] at this
      simp only [inMs] at this
      rw [this] at hms; cases hms
    · exact flatItems_no10 tbl ht ms rest (wfItems_tail h) hms f hf
theorem flatCont_no10 (tbl : Tbl) (ht : tblNo10 tbl = true) (ms? : Option (List Tag))
    (seen : List Tag) : (c : List Node) → wfNodes tbl ms? seen c = true →
    (∀ n ∈ c, n.tag ≠ tag10) → ∀ f ∈ flatCont c, f.tag ≠ tag10
  | [], _, _ => by intro f hf; cases hf
  | n :: rest, h, hc => by
    intro f hf
    simp only [flatCont, List.mem_append] at hf
    rcases hf with hf | hf
    · exact flatNode_no10 tbl ht n (wfNodes_head h).1 (hc n (List.mem_cons_self ..)) f hf
    · exact flatCont_no10 tbl ht ms? (n.tag :: seen) rest (wfNodes_tail h)
        (fun m hm => hc m (List.mem_cons_of_mem _ hm)) f hf
end

/-- a `wfTop` container over a table without "10" members encodes to `okFields` -/
theorem okFields_flatCont_wfTop {tbl : Tbl} {c : Cont} (h : wfTop tbl c = true)
    (ht : tblNo10 tbl = true) : okFields (flatCont c) = true := by
  simp only [wfTop, Bool.and_eq_true, Bool.not_eq_true'] at h
  refine okFields_flatCont h.1.1.1 (flatCont_no10 tbl ht none [] c h.1.1.1 ?_)
  intro n hn he
  have : (contTags c).contains tag10 = true := by
    simp only [contTags, List.contains_eq_mem, List.mem_map, decide_eq_true_eq]
    exact ⟨n, hn, he⟩
  rw [this] at h; exact absurd h.1.2 (by simp)

end AsyncFix.Model.Codec
