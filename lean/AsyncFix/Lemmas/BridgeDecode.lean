import AsyncFix.Lemmas.BridgeFrame
import AsyncFix.Props.C01

/-!
Bridge, part 4: decoding the rendered frame with the codec model gives back the session model's
field list.

`decode_render_buildFrame`: for a group-free message whose kept tags are pairwise distinct plain
(non-group) tags other than 8 / 9 / 10 / 35 with SOH-free values (`PlainOK`), and a table in which no
header / trailer tag is a group (`hdrFree`), the codec model's `decode` of `render (buildFrame …)`
returns `toCodec (buildFrame …)` – the very field list the session model calls "the frame as the
decoder reads it back" – consumes the whole frame and hands back its bytes.  It is
`Props.C01.assemble_decode` instantiated through the bridge; the work here is `wfTop` of a group-free
container from explicit hypotheses.
-/
namespace AsyncFix.Bridge

open AsyncFix.Model AsyncFix.Generated
open AsyncFix.Model.Codec (Bytes SOH natToDec intToDec dec3 Fld Node Tag Tbl tag10 tag34 tag35 tag49 tag52
  tag56 wfNode wfNodes wfTop okTag maxStrDigits notOpen openMembersNode openMembersCont contTags bodyOf
  hdrFlds flatCont decode)

/-- the message's tags that `bodyFields` keeps (everything but 34 / 52 / 49 / 56) -/
def keptTags (m : Session.Msg) : List (Nat × String) := m.tags.filter fun p => keepTag p.1

/-- a field the decoder reads back as a plain entry: decodable tag that is no group of the table,
SOH-free value -/
def okEntry (tbl : Tbl) (p : Nat × String) : Prop :=
  (natToDec p.1).length ≤ maxStrDigits ∧ SOH ∉ cps p.2 ∧ tbl.members? (natToDec p.1) = none

/-- hypotheses of the round trip on the message and the session strings -/
structure PlainOK (tbl : Tbl) (s : Session.Session) (stamp : String) (m : Session.Msg) : Prop where
  mtype : SOH ∉ cps m.mtype
  sender : SOH ∉ cps s.sender
  target : SOH ∉ cps s.target
  stamp : SOH ∉ cps stamp
  /-- kept tags pairwise distinct (a dict has no duplicate keys) -/
  nodup : ((keptTags m).map (·.1)).Nodup
  /-- kept tags are not BeginString / BodyLength / MsgType / CheckSum, are no group tags, values SOH-free -/
  entry : ∀ p ∈ keptTags m, p.1 ≠ 8 ∧ p.1 ≠ 9 ∧ p.1 ≠ 35 ∧ p.1 ≠ 10 ∧ okEntry tbl p

/-- no header / trailer tag is a group tag of the table (decided on the generated FIX 4.4 table) -/
def hdrFree (tbl : Tbl) : Bool :=
  [[56], [57], tag10, tag35, tag49, tag56, tag34, tag52].all fun t => (tbl.members? t).isNone

theorem hdrFree_proto : hdrFree AsyncFix.Props.C01.protoTbl = true := by decide +kernel

/-! ### `wfTop` of a container of leaves -/

theorem wfNode_toLeaf {tbl : Tbl} {p : Nat × String} (h : okEntry tbl p) : wfNode tbl (toLeaf p) = true := by
  obtain ⟨h1, h2, h3⟩ := h
  have hne : (natToDec p.1).isEmpty = false := by
    cases hh : natToDec p.1 with
    | nil => exact absurd hh (Codec.natToDec_ne_nil _)
    | cons _ _ => rfl
  simp [toLeaf, wfNode, okTag, hne, Codec.natToDec_all_digit, h1, h2, h3]

theorem wfNodes_toLeaf (tbl : Tbl) (ps : List (Nat × String)) :
    ∀ (seen : List Tag), (∀ p ∈ ps, okEntry tbl p) → (ps.map (·.1)).Nodup →
      (∀ p ∈ ps, natToDec p.1 ∉ seen) → wfNodes tbl none seen (ps.map toLeaf) = true := by
  induction ps with
  | nil => intro _ _ _ _; simp [wfNodes]
  | cons p r ih =>
    intro seen hn hd hs
    have hp := wfNode_toLeaf (hn p (by simp))
    have hps : (seen.contains (natToDec p.1)) = false := by
      have := hs p (by simp); simpa using this
    cases r with
    | nil =>
      simp only [List.map_cons, List.map_nil, wfNodes, Bool.and_eq_true, Bool.not_eq_true']
      exact ⟨⟨hp, by simpa [toLeaf, Node.tag] using hps⟩, trivial⟩
    | cons q r' =>
      have hd' := List.nodup_cons.mp hd
      have ih' := ih (natToDec p.1 :: seen) (fun x hx => hn x (by simp [hx])) hd'.2 (by
        intro x hx hmem
        rcases List.mem_cons.mp hmem with e | e
        · have : x.1 = p.1 := natToDec_inj e
          exact hd'.1 (List.mem_map.mpr ⟨x, hx, this⟩)
        · exact hs x (by simp [hx]) e)
      simp only [List.map_cons] at ih' ⊢
      simp only [wfNodes, Bool.and_eq_true]
      refine ⟨⟨⟨⟨hp, ?_⟩, trivial⟩, ?_⟩, ?_⟩
      · simpa [toLeaf, Node.tag] using hps
      · simp [toLeaf, openMembersNode, notOpen]
      · simpa [toLeaf, Node.tag] using ih'

theorem openMembersCont_toLeaf (tbl : Tbl) (ps : List (Nat × String)) :
    openMembersCont tbl (ps.map toLeaf) = [] := by
  induction ps with
  | nil => simp [openMembersCont]
  | cons p r ih =>
    cases r with
    | nil => simp [openMembersCont, toLeaf, openMembersNode]
    | cons q r' =>
      simp only [List.map_cons] at ih ⊢
      rw [openMembersCont]; exact ih

theorem flatCont_toLeaf (ps : List (Nat × String)) : flatCont (ps.map toLeaf) = ps.map toFld := by
  have : ps.map toLeaf = (ps.map toFld).map fun f => Node.leaf f.tag f.val := by
    simp [List.map_map, toLeaf, toFld, Function.comp_def]
  rw [this, Codec.flatCont_leaves]

/-! ### the container `C01.assemble_decode` expects is the session model's field list -/

theorem wireFlds_toCodec (s : Session.Session) (stamp : String) (m : Session.Msg) (seq : Int) :
    AsyncFix.Props.C01.wireFlds (toCodec m) (toCodecSession s) (intToDec seq) (cps stamp) =
      sessFlds s stamp m seq := by
  rw [AsyncFix.Props.C01.wireFlds, bodyOf_toCodec, flatCont_toLeaf]
  exact hdrFlds_sessFlds s stamp m seq

theorem preTags_split (s : Session.Session) (stamp : String) (m : Session.Msg) (seq : Int) :
    preTags s stamp m seq =
      [(Session.tBeginString, Proto.beginString), (Session.tBodyLength, toString (blenOf s stamp m seq)),
       (Session.tMsgType, m.mtype), (Session.tSenderCompID, s.sender), (Session.tTargetCompID, s.target),
       (Session.tMsgSeqNum, Session.pyStr seq), (Session.tSendingTime, stamp)] ++ keptTags m := by
  rw [preTags, bodyFields_eq]; rfl

theorem expectedCont_toCodec (s : Session.Session) (stamp : String) (m : Session.Msg) (seq : Int) :
    AsyncFix.Props.C01.expectedCont Proto.beginStringBytes (toCodec m) (toCodecSession s) (intToDec seq)
      (cps stamp) = (preTags s stamp m seq).map toLeaf := by
  rw [AsyncFix.Props.C01.expectedCont_eq, wireFlds_toCodec, preFlds_sessFlds, bodyOf_toCodec, preTags_split]
  simp [toLeaf, toFld, keptTags]

/-! ### well-formedness from the explicit hypotheses -/

theorem intToDec_no_SOH (i : Int) : SOH ∉ intToDec i := by
  have hn : ∀ n, SOH ∉ natToDec n := fun n h => by
    have := Codec.natToDec_no_SOH n
    simp [h] at this
  cases i with
  | ofNat n => exact hn n
  | negSucc n =>
    intro h
    rcases List.mem_cons.mp h with e | e
    · simp [SOH] at e
    · exact hn _ e

theorem short_tag (n : Nat) (h : n < 1000) : (natToDec n).length ≤ maxStrDigits := by
  have := Codec.natToDec_length_lt1000 n h
  unfold maxStrDigits; omega

theorem preTags_ok {tbl : Tbl} {s : Session.Session} {stamp : String} {m : Session.Msg} (seq : Int)
    (hT : hdrFree tbl = true) (hok : PlainOK tbl s stamp m) : ∀ p ∈ preTags s stamp m seq, okEntry tbl p := by
  obtain ⟨h8, h9, -, h34, h35, h49, h52, h56, -⟩ := natToDec_small
  simp only [hdrFree, List.all_cons, List.all_nil, Bool.and_true, Bool.and_eq_true,
    Option.isNone_iff_eq_none] at hT
  obtain ⟨t8, t9, -, t35, t49, t56, t34, t52⟩ := hT
  intro p hp
  rw [preTags_split] at hp
  simp only [List.cons_append, List.nil_append, List.mem_cons] at hp
  rcases hp with rfl | rfl | rfl | rfl | rfl | rfl | rfl | hp
  · exact ⟨short_tag 8 (by decide), by rw [beginString_agree]; decide, by rw [Session.tBeginString, h8]; exact t8⟩
  · refine ⟨short_tag 9 (by decide), ?_, by rw [Session.tBodyLength, h9]; exact t9⟩
    rw [cps_toString_nat]; intro h
    have := Codec.natToDec_no_SOH (blenOf s stamp m seq); simp [h] at this
  · exact ⟨short_tag 35 (by decide), hok.mtype, by rw [Session.tMsgType, h35]; exact t35⟩
  · exact ⟨short_tag 49 (by decide), hok.sender, by rw [Session.tSenderCompID, h49]; exact t49⟩
  · exact ⟨short_tag 56 (by decide), hok.target, by rw [Session.tTargetCompID, h56]; exact t56⟩
  · exact ⟨short_tag 34 (by decide), by rw [cps_pyStr]; exact intToDec_no_SOH seq,
      by rw [Session.tMsgSeqNum, h34]; exact t34⟩
  · exact ⟨short_tag 52 (by decide), hok.stamp, by rw [Session.tSendingTime, h52]; exact t52⟩
  · exact (hok.entry p hp).2.2.2.2

theorem keepTag_false_iff (t : Nat) : keepTag t = true ↔ t ≠ 34 ∧ t ≠ 52 ∧ t ≠ 49 ∧ t ≠ 56 := by
  by_cases a : t = 34 <;> by_cases b : t = 52 <;> by_cases c : t = 49 <;> by_cases d : t = 56 <;>
    simp [keepTag, Session.tMsgSeqNum, Session.tSendingTime, Session.tSenderCompID,
      Session.tTargetCompID, a, b, c, d]

theorem preTags_nodup {tbl : Tbl} {s : Session.Session} {stamp : String} {m : Session.Msg} (seq : Int)
    (hok : PlainOK tbl s stamp m) : ((preTags s stamp m seq).map (·.1)).Nodup := by
  rw [preTags_split, List.map_append, List.nodup_append]
  refine ⟨by show ([8, 9, 35, 49, 56, 34, 52] : List Nat).Nodup; decide, hok.nodup, ?_⟩
  intro a ha b hb hab
  subst hab
  obtain ⟨p, hp, rfl⟩ := List.mem_map.mp hb
  obtain ⟨n8, n9, n35, -, -⟩ := hok.entry p hp
  have hk : keepTag p.1 = true := by
    have := (List.mem_filter.mp hp).2; simpa using this
  obtain ⟨k34, k52, k49, k56⟩ := (keepTag_false_iff p.1).mp hk
  simp only [List.map_cons, List.map_nil, List.mem_cons, List.not_mem_nil, or_false,
    Session.tBeginString, Session.tBodyLength, Session.tMsgType, Session.tSenderCompID,
    Session.tTargetCompID, Session.tMsgSeqNum, Session.tSendingTime] at ha
  omega

theorem preTags_no10 {tbl : Tbl} {s : Session.Session} {stamp : String} {m : Session.Msg} (seq : Int)
    (hok : PlainOK tbl s stamp m) : ∀ p ∈ preTags s stamp m seq, p.1 ≠ 10 := by
  intro p hp
  rw [preTags_split] at hp
  simp only [List.cons_append, List.nil_append, List.mem_cons] at hp
  rcases hp with rfl | rfl | rfl | rfl | rfl | rfl | rfl | hp
  all_goals first
    | (simp [Session.tBeginString, Session.tBodyLength, Session.tMsgType, Session.tSenderCompID,
        Session.tTargetCompID, Session.tMsgSeqNum, Session.tSendingTime]; done)
    | exact (hok.entry _ ‹_›).2.2.2.1

theorem wfTop_preTags {tbl : Tbl} {s : Session.Session} {stamp : String} {m : Session.Msg} (seq : Int)
    (hT : hdrFree tbl = true) (hok : PlainOK tbl s stamp m) :
    wfTop tbl ((preTags s stamp m seq).map toLeaf) = true := by
  have h10t : tbl.members? tag10 = none := by
    simp only [hdrFree, List.all_cons, List.all_nil, Bool.and_true, Bool.and_eq_true,
      Option.isNone_iff_eq_none] at hT
    exact hT.2.2.1
  have hno10 : (contTags ((preTags s stamp m seq).map toLeaf)).contains tag10 = false := by
    rw [← Bool.not_eq_true, List.contains_iff_mem]
    intro hmem
    simp only [contTags, List.map_map, List.mem_map, Function.comp] at hmem
    obtain ⟨p, hp, he⟩ := hmem
    have h10 := natToDec_small.2.2.1
    have : natToDec p.1 = natToDec 10 := by rw [h10]; simpa [toLeaf, Node.tag, tag10] using he
    exact preTags_no10 seq hok p hp (natToDec_inj this)
  simp only [wfTop, Bool.and_eq_true, Bool.not_eq_true']
  refine ⟨⟨⟨?_, ?_⟩, hno10⟩, by simp [h10t]⟩
  · exact wfNodes_toLeaf tbl _ [] (preTags_ok seq hT hok) (preTags_nodup seq hok) (fun _ _ h => by cases h)
  · rw [openMembersCont_toLeaf]; rfl

/-! ### the round trip -/

/-- **Bridge, decoder level**: the codec model's decoder, run on the bytes of the session model's
frame, returns the session model's field list (as a codec message of leaves), reports the whole frame
consumed and returns its bytes. -/
theorem decode_render_buildFrame (tbl : Tbl) (s : Session.Session) (stamp : String) (m : Session.Msg)
    (seq : Int) (h10 : Codec.tblNo10 tbl = true) (hT : hdrFree tbl = true) (hok : PlainOK tbl s stamp m)
    (hd : (natToDec (blenOf s stamp m seq)).length ≤ maxStrDigits) :
    decode Proto.beginStringBytes tbl (render (Session.buildFrame s stamp m seq)) =
      .msg (toCodec (Session.buildFrame s stamp m seq))
        (render (Session.buildFrame s stamp m seq)).length (render (Session.buildFrame s stamp m seq)) := by
  have hwf : wfTop tbl (AsyncFix.Props.C01.expectedCont Proto.beginStringBytes (toCodec m) (toCodecSession s)
      (intToDec seq) (cps stamp)) = true := by
    rw [expectedCont_toCodec]; exact wfTop_preTags seq hT hok
  have hd' : (natToDec (Codec.bodyBytes (AsyncFix.Props.C01.wireFlds (toCodec m) (toCodecSession s)
      (intToDec seq) (cps stamp))).length).length ≤ maxStrDigits := by
    rw [wireFlds_toCodec, length_sessFlds]; exact hd
  have hdec := (AsyncFix.Props.C01.assemble_decode Proto.beginStringBytes tbl (toCodec m) (toCodecSession s)
    (intToDec seq) (cps stamp) AsyncFix.Props.C01.okBegin_proto h10 hwf hd').2
  have h35 : ∀ f ∈ flatCont (bodyOf (toCodec m)), (f.tag == tag35) = false := by
    intro f hf
    rw [bodyOf_toCodec, flatCont_toLeaf] at hf
    obtain ⟨p, hp, rfl⟩ := List.mem_map.mp hf
    have hne := (hok.entry p hp).2.2.1
    have h35' := natToDec_small.2.2.2.2.1
    have : natToDec p.1 ≠ tag35 := by rw [← h35']; exact fun hh => hne (natToDec_inj hh)
    simpa [toFld] using this
  rw [AsyncFix.Props.C01.lastMtype_expected _ _ _ _ _ h35, expectedCont_toCodec, wireFlds_toCodec,
    frameCk_sessFlds, ← render_buildFrame] at hdec
  rw [hdec]
  have hbody : (preTags s stamp m seq).map toLeaf ++ [Node.leaf tag10 (dec3 (ckOf s stamp m seq))] =
      (toCodec (Session.buildFrame s stamp m seq)).body := by
    rw [toCodec_body, buildFrame_tags, List.map_append]
    have h10' := natToDec_small.2.2.1
    have hpad : cps (Session.pad3 (ckOf s stamp m seq)) = dec3 (ckOf s stamp m seq) :=
      cps_pad3 _ (by unfold ckOf; omega)
    simp [toLeaf, Session.tCheckSum, h10', hpad, tag10]
  rw [hbody]
  rfl

end AsyncFix.Bridge
