import AsyncFix.Lemmas.LinkLoop
import AsyncFix.Lemmas.LinkRecvA

/-!
C07: `_process_resend` agrees with the abstract `AConn.serve`.
-/
namespace AsyncFix.Link

open AsyncFix.Session AsyncFix.Generated AsyncFix.Generated.ConnEnum
open AsyncFix.Session.Msg

/-- facts of a ResendRequest frame -/
structure ResendFrame (f : Msg) (b : Int) : Prop where
  h2 : f.mtype = mResendRequest
  h7 : f.get? tBeginSeqNo = some (pyStr b)
  h16 : f.get? tEndSeqNo = some "0"

/-- outcome of `_process_resend` -/
def ServeRes (s : Side) (env : Env) (c : Conn) (f : Msg) (b : Int) : Prop :=
  ∃ (c' : Conn) (eff : List Effect),
    processResend env srAll f c = ⟨.ok (), c', eff⟩ ∧
    c'.state = c.state ∧ c'.role = c.role ∧ c'.sess = c.sess ∧ c'.maxResend = c.maxResend ∧ c'.sock = c.sock ∧
    c'.journal.inb = c.journal.inb ∧
    ((absConn c).serve b) = ({ absConn c with out := c'.journal.out.map absRow }, (writesOf eff).map absFrame) ∧
    deliveriesOf eff = [] ∧
    RowsGood s.name s.other.name c.sess.nextOut c'.journal.out ∧
    (∀ g ∈ writesOf eff, FrameGood s.name s.other.name g)

theorem pyInt_zero : pyInt "0" = some 0 := pyInt_pyStr 0

theorem map_absRow_below (b : Int) (rs : Rows) :
    (Rows.below b rs).map absRow = (rs.map absRow).filter fun r => r.1 < b := by
  unfold Rows.below
  induction rs with
  | nil => rfl
  | cons r rest ih =>
    by_cases h : r.1 < b <;> simp [List.filter_cons, h, absRow, ih]

theorem map_absRow_range (b e : Int) (rs : Rows) :
    (Rows.range b e rs).map absRow = (rs.map absRow).filter fun r => b ≤ r.1 && r.1 ≤ e := by
  unfold Rows.range
  induction rs with
  | nil => rfl
  | cons r rest ih =>
    by_cases h : (b ≤ r.1 && r.1 ≤ e) = true
    · simp only [List.filter_cons, h, if_true, List.map_cons, ih]
      have : (b ≤ (absRow r).1 && (absRow r).1 ≤ e) = true := by simpa [absRow] using h
      simp [this]
    · have h' : (b ≤ r.1 && r.1 ≤ e) = false := by simpa using h
      simp only [List.filter_cons, h', Bool.false_eq_true, if_false, List.map_cons, ih]
      have : (b ≤ (absRow r).1 && (absRow r).1 ≤ e) = false := by simpa [absRow] using h'
      simp [this]

/-- a request outside `[1, next_num_out)` is ignored (fix a3c0e87) -/
theorem processResend_ignore {s : Side} {env : Env} {c : Conn} {f : Msg} {b : Int}
    (hc : ConnGood s c) (hf : ResendFrame f b)
    (hst : c.state = st_RESENDREQ_AWAITING ∨ c.state = st_ACTIVE) (hb : b < 1 ∨ c.sess.nextOut ≤ b) :
    ServeRes s env c f b := by
  obtain ⟨h2, h7, h16⟩ := hf
  have hcond : (decide (b < 1) || decide (b ≥ c.sess.nextOut)) = true := by
    rcases hb with hb | hb <;> simp [hb]
  have habs : (absConn c).serve b = (absConn c, []) := by
    unfold AConn.serve
    have : (decide (b < 1) || decide (b ≥ (absConn c).o)) = true := hcond
    rw [if_pos this]
  rcases hst with hst | hst
  · refine ⟨c, [], ?_, rfl, rfl, rfl, rfl, rfl, rfl, ?_, rfl, hc.rows, by simp [writesOf]⟩
    · simp [processResend, M.bind_apply, hst, M.assert_apply, h2, get_of_get? h7, get_of_get? h16, M.int_apply,
        pyInt_pyStr, pyInt_zero, hb, st_RESENDREQ_AWAITING, st_RESENDREQ_HANDLING]
    · rw [habs]; simp [writesOf, absConn]
  · refine ⟨{ c with state := st_ACTIVE, wasActive := true }, [.onState st_RESENDREQ_HANDLING, .onState st_ACTIVE],
      ?_, hst.symm, rfl, rfl, rfl, rfl, rfl, ?_, rfl, hc.rows, by simp [writesOf]⟩
    · simp [processResend, M.bind_apply, hst, M.assert_apply, h2, get_of_get? h7, get_of_get? h16, M.int_apply,
        pyInt_pyStr, pyInt_zero, hb, st_RESENDREQ_AWAITING, st_RESENDREQ_HANDLING, stateSet_apply, setState, st_ACTIVE]
    · rw [habs]; simp [writesOf, absConn, absSt, hst, st_ACTIVE, st_DISCONNECTED_BROKEN_CONN,
        st_NETWORK_CONN_ESTABLISHED, st_LOGON_INITIAL_SENT, st_RESENDREQ_AWAITING]

/-- the connection on which the loop runs: state `st`, counter rewound to `b`, rows `≥ b` deleted -/
def rewound (c : Conn) (st : Nat) (b : Int) : Conn :=
  { c with state := st, wasActive := c.wasActive || st == st_ACTIVE,
           sess := { c.sess with nextOut := b },
           journal := { out := Rows.below b c.journal.out, inb := Rows.below c.sess.nextIn c.journal.inb,
                        outSeq := b - 1, inSeq := c.sess.nextIn - 1 } }

/-- the abstract side of serving, given the loop's abstract equation -/
theorem serve_abs {c : Conn} {b : Int} {out' : Rows} {ws : List AFrame} {gfb' : Int}
    (hb : ¬ (b < 1 ∨ c.sess.nextOut ≤ b))
    (hr2 : ∀ (ac : AConn) (acc : List AFrame), ac.out = (Rows.below b c.journal.out).map absRow →
      resendRows ((Rows.range b sysMaxsize c.journal.out).map absRow) b ac acc =
        ({ ac with out := out'.map absRow }, acc ++ ws, gfb')) :
    (absConn c).serve b =
      if gfb' < min (sysMaxsize + 1) c.sess.nextOut then
        ({ absConn c with out := out'.map absRow ++ [(gfb', none)] },
          ws ++ [⟨gfb', .gapFill (min (sysMaxsize + 1) c.sess.nextOut)⟩])
      else ({ absConn c with out := out'.map absRow }, ws) := by
  unfold AConn.serve
  have hcond : (decide (b < 1) || decide (b ≥ (absConn c).o)) = false := by
    show (decide (b < 1) || decide (b ≥ c.sess.nextOut)) = false
    simp only [Bool.or_eq_false_iff, decide_eq_false_iff_not]
    constructor <;> omega
  rw [if_neg (by rw [hcond]; decide)]
  have h1 : (absConn c).out.filter (fun r => b ≤ r.1 && r.1 ≤ sysMaxsize) =
      (Rows.range b sysMaxsize c.journal.out).map absRow := (map_absRow_range b sysMaxsize c.journal.out).symm
  have h2 : (absConn c).out.filter (fun r => decide (r.1 < b)) = (Rows.below b c.journal.out).map absRow :=
    (map_absRow_below b c.journal.out).symm
  simp only [h1, h2]
  rw [hr2 _ [] rfl]
  simp only [List.nil_append]
  by_cases hg : gfb' < min (sysMaxsize + 1) c.sess.nextOut
  · have : gfb' < min (sysMaxsize + 1) (absConn c).o := hg
    simp only [this, hg, if_true, AConn.pushAt, AKind.entry]
    rfl
  · have : ¬ gfb' < min (sysMaxsize + 1) (absConn c).o := hg
    simp only [this, hg, if_false]

theorem processResend_serve {s : Side} {env : Env} {c : Conn} {f : Msg} {b : Int}
    (hc : ConnGood s c) (hf : ResendFrame f b) (hl3 : isLatin1 env.stamp = true)
    (hst : c.state = st_RESENDREQ_AWAITING ∨ c.state = st_ACTIVE) (hb1 : 1 ≤ b) (hb2 : b < c.sess.nextOut) :
    ServeRes s env c f b := by
  obtain ⟨h2, h7, h16⟩ := hf
  obtain ⟨g1, g2, g5, g6, g7, g8, he, hinb, hrows, l1, l2⟩ := connFacts hc
  have hb : ¬ (b < 1 ∨ c.sess.nextOut ≤ b) := by omega
  have hb0 : 0 < b := by omega
  have ho0 : 0 < c.sess.nextOut := by omega
  have b2 : Rows.below c.sess.nextIn c.journal.inb = c.journal.inb := below_of_allLt _ _ hinb
  -- the state the loop runs in
  obtain ⟨st, hstL, hst6, hst7⟩ : ∃ st : Nat, (st = if c.state = st_RESENDREQ_AWAITING then c.state
      else st_RESENDREQ_HANDLING) ∧ st_NETWORK_CONN_ESTABLISHED < st ∧ st ≠ st_LOGON_INITIAL_SENT := by
    rcases hst with hst | hst <;> exact ⟨_, rfl, by rw [hst]; decide, by rw [hst]; decide⟩
  have hsock : c.sock = true := by
    rcases hst with hst | hst <;> exact sock_of_state hc (by rw [hst]; decide)
  have hL : LoopConn env (rewound c st b) := ⟨hst6, hst7, hsock, l1, l2, hl3⟩
  have hloop := resendLoop_eval env sysMaxsize c.sess.nextOut (Rows.range b sysMaxsize c.journal.out)
    (rewound c st b) b b hL (sorted_range g8.sorted _ _)
    (fun r hr => (mem_range.mp hr).2.2)
    (fun r hr => ⟨(mem_range.mp hr).2.1, (g8.range r (mem_range.mp hr).1).2⟩)
    (fun r hr => by
      have := g8.good r (mem_range.mp hr).1
      show FrameGood c.sess.sender c.sess.target r.2 ∧ _
      rw [g1, g2]; exact this)
    (allLt_below b c.journal.out) (by omega) (by omega)
  obtain ⟨out', os, eff, gfb', gfe', hr1, hr2, hr3, hr3', hr4, hr5, hr6, hr7, ⟨new, hn, hsn, hnew⟩⟩ := hloop
  have hr7' : ∀ g ∈ writesOf eff, FrameGood s.name s.other.name g := by
    intro g hg; have := hr7 g hg; rw [← g1, ← g2]; exact this
  have hnew' : ∀ r ∈ new, b ≤ r.1 ∧ r.1 < gfb' ∧ FrameGood s.name s.other.name r.2 ∧
      r.2.get? tMsgSeqNum = some (pyStr r.1) := by
    intro r hr; have := hnew r hr; rw [← g1, ← g2]; exact this
  have hout' : out' = Rows.below b c.journal.out ++ new := hn
  -- rows of the rebuilt journal
  have hgood' : RowsGood s.name s.other.name c.sess.nextOut out' := by
    rw [hout']
    refine ⟨?_, ?_, ?_⟩
    · unfold Sorted
      rw [List.pairwise_append]
      refine ⟨sorted_below g8.sorted b, hsn, ?_⟩
      intro a ha r hr
      have := (mem_below.mp ha).2
      have := (hnew' r hr).1
      omega
    · intro r hr
      rcases List.mem_append.mp hr with hr | hr
      · exact g8.range r (mem_below.mp hr).1
      · have := hnew' r hr; omega
    · intro r hr
      rcases List.mem_append.mp hr with hr | hr
      · exact g8.good r (mem_below.mp hr).1
      · exact ⟨(hnew' r hr).2.2.1, (hnew' r hr).2.2.2⟩
  have habs := serve_abs (c := c) (b := b) hb (fun ac acc hac => hr2 ac acc hac)
  have hL3 := loopConn_withOut hL out' os
  obtain ⟨top, htop⟩ : ∃ t, t = min (sysMaxsize + 1) c.sess.nextOut := ⟨_, rfl⟩
  have htop_le : top ≤ c.sess.nextOut := by rw [htop]; exact Int.min_le_right _ _
  have hgf := sendMsg_gapFill hL3 gfb' top hr3
  have hfg := frameGood_build_gapFill c.sess env.stamp gfb' top l1 l2 hl3
  rw [g1, g2] at hfg
  have hb3 : AllLt c.sess.nextOut out' := allLt_mono hr4 hr3
  have b3 : Rows.below c.sess.nextOut out' = out' := below_of_allLt _ _ hb3
  have hsess : ∀ (m : Msg) (n : Int), buildFrame { c.sess with nextOut := b } env.stamp m n =
      buildFrame c.sess env.stamp m n := fun m n => buildFrame_sess _ _ _ _ _ rfl rfl
  have hsesseta : (⟨c.sess.sender, c.sess.target, c.sess.nextIn, c.sess.nextOut⟩ : Session) = c.sess := rfl
  -- the two possible tails
  have tailGap : gfb' < top → ∀ effF : List Effect,
      writesOf effF = writesOf eff ++ [buildFrame c.sess env.stamp (gapFillMsg gfb' top) gfb'] →
      deliveriesOf effF = [] →
      (absConn c).serve b = ({ absConn c with out :=
          (out' ++ [(gfb', buildFrame c.sess env.stamp (gapFillMsg gfb' top) gfb')]).map absRow },
        (writesOf effF).map absFrame) ∧ deliveriesOf effF = [] ∧
      RowsGood s.name s.other.name c.sess.nextOut
        (out' ++ [(gfb', buildFrame c.sess env.stamp (gapFillMsg gfb' top) gfb')]) ∧
      ∀ g ∈ writesOf effF, FrameGood s.name s.other.name g := by
    intro hg effF hw hd
    refine ⟨?_, hd, ?_, ?_⟩
    · rw [habs, ← htop, if_pos hg, hw]
      simp [absRow_build_gapFill, absFrame_build_gapFill]
    · have hlt' : RowsGood s.name s.other.name gfb' out' :=
        { sorted := hgood'.sorted, range := fun r hr => ⟨(hgood'.range r hr).1, hr3 r hr⟩, good := hgood'.good }
      have h1 := rowsGood_append hlt' (by omega) hfg (get?_build_34 ..)
      exact rowsGood_mono h1 (by omega)
    · intro g hg'
      rw [hw] at hg'
      rcases List.mem_append.mp hg' with hg' | hg'
      · exact hr7' g hg'
      · simp only [List.mem_singleton] at hg'; subst hg'; exact hfg
  have tailNo : ¬ gfb' < top → ∀ effF : List Effect, writesOf effF = writesOf eff →
      deliveriesOf effF = [] →
      (absConn c).serve b = ({ absConn c with out := out'.map absRow }, (writesOf effF).map absFrame) ∧
      deliveriesOf effF = [] ∧ RowsGood s.name s.other.name c.sess.nextOut out' ∧
      ∀ g ∈ writesOf effF, FrameGood s.name s.other.name g := by
    intro hg effF hw hd
    refine ⟨?_, hd, hgood', ?_⟩
    · rw [habs, ← htop, if_neg hg, hw]
    · intro g hg'; rw [hw] at hg'; exact hr7' g hg'
  unfold ServeRes
  rcases hst with hst | hst
  · have hstv : st = 12 := by rw [hstL, if_pos hst, hst]; rfl
    subst hstv
    simp [rewound, withOut, st_RESENDREQ_HANDLING, st_ACTIVE, b2, hsess] at hr1 hgf
    by_cases hg : gfb' < top
    · have b4 : Rows.below c.sess.nextOut (out' ++ [(gfb', buildFrame c.sess env.stamp (gapFillMsg gfb' top) gfb')])
          = out' ++ [(gfb', buildFrame c.sess env.stamp (gapFillMsg gfb' top) gfb')] :=
        below_of_allLt _ _ (allLt_append_last hr3 (by omega))
      simp [processResend, M.bind_apply, hst, M.assert_apply, h2, get_of_get? h7, get_of_get? h16, M.int_apply,
        pyInt_pyStr, pyInt_zero, hb, st_RESENDREQ_AWAITING, st_RESENDREQ_HANDLING, stateSet_apply, setState, st_ACTIVE,
        setSeqNum, hb0, ho0, Journal.recoverOut, Journal.setSeq, hr1, hr5, ← htop, hg, hgf, sentAt, b2, hsess, b4, hsesseta]
      refine ⟨_, _, ⟨rfl, rfl⟩, rfl, rfl, rfl, rfl, rfl, rfl, ?_⟩
      exact tailGap hg _ (by simp [writesOf_append, writesOf]) (by simp [deliveriesOf_append, deliveriesOf, hr6])
    · simp [processResend, M.bind_apply, hst, M.assert_apply, h2, get_of_get? h7, get_of_get? h16, M.int_apply,
        pyInt_pyStr, pyInt_zero, hb, st_RESENDREQ_AWAITING, st_RESENDREQ_HANDLING, stateSet_apply, setState, st_ACTIVE,
        setSeqNum, hb0, ho0, Journal.recoverOut, Journal.setSeq, hr1, hr5, ← htop, hg, sentAt, b2, hsess, b3, hsesseta]
      refine ⟨_, _, ⟨rfl, rfl⟩, rfl, rfl, rfl, rfl, rfl, rfl, ?_⟩
      exact tailNo hg _ rfl hr6
  · have hne : c.state ≠ st_RESENDREQ_AWAITING := by rw [hst]; decide
    have hstv : st = 10 := by rw [hstL, if_neg hne]; rfl
    subst hstv
    simp [rewound, withOut, st_RESENDREQ_HANDLING, st_ACTIVE, b2, hsess] at hr1 hgf
    by_cases hg : gfb' < top
    · have b4 : Rows.below c.sess.nextOut (out' ++ [(gfb', buildFrame c.sess env.stamp (gapFillMsg gfb' top) gfb')])
          = out' ++ [(gfb', buildFrame c.sess env.stamp (gapFillMsg gfb' top) gfb')] :=
        below_of_allLt _ _ (allLt_append_last hr3 (by omega))
      simp [processResend, M.bind_apply, hst, M.assert_apply, h2, get_of_get? h7, get_of_get? h16, M.int_apply,
        pyInt_pyStr, pyInt_zero, hb, st_RESENDREQ_AWAITING, st_RESENDREQ_HANDLING, stateSet_apply, setState, st_ACTIVE,
        setSeqNum, hb0, ho0, Journal.recoverOut, Journal.setSeq, hr1, hr5, ← htop, hg, hgf, sentAt, b2, hsess, b4, hsesseta]
      refine ⟨_, _, ⟨rfl, rfl⟩, rfl, rfl, rfl, rfl, rfl, rfl, ?_⟩
      exact tailGap hg _ (by simp [writesOf_append, writesOf]) (by simp [deliveriesOf_append, deliveriesOf, hr6])
    · simp [processResend, M.bind_apply, hst, M.assert_apply, h2, get_of_get? h7, get_of_get? h16, M.int_apply,
        pyInt_pyStr, pyInt_zero, hb, st_RESENDREQ_AWAITING, st_RESENDREQ_HANDLING, stateSet_apply, setState, st_ACTIVE,
        setSeqNum, hb0, ho0, Journal.recoverOut, Journal.setSeq, hr1, hr5, ← htop, hg, sentAt, b2, hsess, b3, hsesseta]
      refine ⟨_, _, ⟨rfl, rfl⟩, rfl, rfl, rfl, rfl, rfl, rfl, ?_⟩
      exact tailNo hg _ (by simp [writesOf_append, writesOf]) (by simp [deliveriesOf_append, deliveriesOf, hr6])

end AsyncFix.Link
