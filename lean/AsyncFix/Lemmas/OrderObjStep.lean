/-
Every action keeps the invariant (unless it is an excluded race); hence every calm run does.
-/
import AsyncFix.Lemmas.OrderObjInv
namespace AsyncFix.Model.OrderLink
open AsyncFix.Model.OrderObj AsyncFix.Model.Exchange AsyncFix.Model.OrderTable AsyncFix.Props.C16

theorem feed_inv (o : Order) (r : Report) (h : LocalInv o) : LocalInv (feed o r).1 := by
  unfold feed; split
  · exact processCancelRej_inv o r h
  · exact processExecReport_inv o r h

theorem rk8 : "8" ∈ reportKinds := by decide
theorem rk9 : "9" ∈ reportKinds := by decide

theorem feed_not_created (o : Order) (r : Report) (h : o.status ≠ "Z") : (feed o r).1.status ≠ "Z" := by
  unfold feed; split
  · rcases processCancelRej_status o r with hs | ⟨st, hs⟩
    · rw [hs]; exact h
    · intro hz; rw [hz] at hs
      exact never_back_to_created _ _ _ _ _ rk9 hs
  · have sh := processExecReport_shape o r
    rcases sh.status with hs | ⟨hs, _⟩
    · rw [hs]; exact h
    · intro hz; rw [hz] at hs
      exact never_back_to_created _ _ _ _ _ rk8 hs

theorem live_nonPending {s : String} (h : s ∈ Props.C16.live) : s ≠ "6" ∧ s ≠ "E" ∧ s ≠ "Z" ∧ s ≠ "A" := by
  simp only [Props.C16.live, List.mem_cons, List.not_mem_nil, or_false] at h
  rcases h with rfl | rfl | rfl <;> decide

theorem bases_not_Z {s : String} (h : s ∈ bases) : s ≠ "Z" := by revert s; decide

/-- a cancel / replace request built on a (possibly stale) live order -/
theorem request_inv {l : Link} (h : Inv l) (hl : l.order.status ∈ Props.C16.live) (k : String) (hk : k = "F" ∨ k = "G")
    (m : Msg) (pr qr : Option Int)
    (hreq : Req.ofMsg m = ⟨k, some (nextId l.order), some l.order.clordId, pr, qr⟩) :
    Inv { l with order := startRequest l.order (pstat k), c2e := l.c2e ++ [m] } := by
  obtain ⟨n6, nE, nZ, nA⟩ := live_nonPending hl
  have hnp : nonPending l.order := ⟨n6, nE⟩
  have hpst : (pstat k = "6" ∨ pstat k = "E") := pstat_pending k
  rw [startRequest_eq_ovl]
  obtain ⟨c1, c2, c3, c4, c5⟩ := ChainP_ovl ⟨pstat k, l.order.clordId, nextId l.order, l.order.clordCnt + 1⟩
    hpst l.e2c l.order hnp rfl h.chain
  have hloc : LocalInv (startRequest l.order (pstat k)) :=
    ⟨by rcases hpst with h' | h' <;> (show pstat k ∈ statusValues; rw [h']) <;> decide +kernel,
     fun _ => by rcases hpst with h' | h' <;> (show pstat k ∈ sticky; rw [h']) <;> decide,
     nextId_ne_nil _⟩
  refine ⟨hloc, ?_, h.quiet, c1, ?_⟩
  · intro hz
    have : pstat k = "Z" := hz
    rcases hpst with h' | h' <;> rw [h'] at this <;> exact absurd this (by decide)
  · show Sync0 (drain (ovl _ l.order) l.e2c) (l.c2e ++ [m]) l.ex
    rw [c2]
    have hsync := h.sync
    have hdst : (drain l.order l.e2c).status ≠ "Z" := by
      rcases c5 with h5 | h5
      · rw [h5]; exact nZ
      · exact bases_not_Z h5
    cases hc : l.c2e with
    | cons m' rest =>
      rw [hc] at hsync
      cases hsync with
      | newSent _ oo hs =>
        have hq := h.quiet hs.known
        rw [hq] at hs
        exact absurd hs.status nA
      | reqSent _ k' pr' qr' hs => exact absurd c3 (pending_not_nonPending hs.status)
    | nil =>
      rw [hc] at hsync
      cases hsync with
      | created hs => exact absurd hs.status hdst
      | reqPending p hs => exact absurd c3 (pending_not_nonPending hs.status)
      | idle hs =>
        have hlive : l.ex.liveId = l.order.clordId := hs.clord.symm.trans c4
        exact Sync0.reqSent m k pr qr
          ⟨hs.known, hs.pend, hs.base, hk, by rw [hlive]; exact hreq, by rw [hlive]; rfl, hs.livene,
           nextId_ne_nil _, rfl, hs.rej0, ⟨hs.nums.cum, hs.nums.leaves, hs.nums.price, hs.nums.qty⟩⟩

theorem clientBuild_raised {l : Link} {e : Exc} : (clientBuild l (l.order, .raised e)).1 = l := rfl

theorem step_inv (l : Link) (a : Action) (h : Inv l) (hc : excluded l a = false) : Inv (step l a) := by
  unfold step
  cases a with
  | cNew =>
    simp only [stepFull]
    rcases newReq_cases l.order with ⟨e, hr⟩ | hr
    · rw [hr]; exact h
    · by_cases hz : l.order.status = "Z"
      · rw [hr]
        obtain ⟨h1, h2, h3⟩ := h.fresh hz
        have hsync := h.sync
        rw [h1, h2] at hsync
        have horig : l.order.origClordId = none := by
          cases hsync with
          | created hs => exact hs.orig
          | idle hs => exact absurd (hs.status ▸ hs.base) (by rw [show (drain l.order []).status = "Z" from hz]; decide)
          | reqPending p hs =>
            exact absurd (show nonPending (drain l.order []) by simp [nonPending, drain, hz])
              (pending_not_nonPending hs.status)
        have hpend := sync_known_false h.sync h3
        show Inv { l with order := { takeNextId l.order with status := "A" }, c2e := l.c2e ++ [msgD l.order] }
        refine ⟨?_, ?_, ?_, ?_, ?_⟩
        · have := newReq_inv l.order h.loc; rw [hr] at this; exact this
        · intro hz'; have hz'' : "A" = "Z" := hz'; exact absurd hz'' (by decide)
        · intro _; exact h2
        · show ChainP _ l.e2c; rw [h2]; trivial
        · show Sync0 (drain _ l.e2c) (l.c2e ++ [msgD l.order]) l.ex
          rw [h1, h2]
          exact Sync0.newSent (msgD l.order) none
            ⟨h3, hpend, rfl, horig, nextId_ne_nil _, by simp [Req.ofMsg, msgD, getText, getNum, takeNextId, drain]⟩
      · have : newReq l.order = (l.order, .raised .assertion) := by simp [newReq, hz]
        rw [this]; exact h
  | cCancel =>
    simp only [stepFull]
    by_cases hl : l.order.status ∈ Props.C16.live
    · have hcan : canCancel l.order = .ok true := by rw [canCancel_eq]; simp [hl]
      obtain ⟨h2, h1⟩ := cancelReq_builds l.order h.loc hcan
      have hpair : cancelReq l.order = (startRequest l.order "6", .ok (msgF l.order)) := Prod.ext h1 h2
      rw [hpair]
      exact request_inv h hl "F" (Or.inl rfl) (msgF l.order) none (some l.order.qty)
        (by simp [Req.ofMsg, msgF, getText, getNum])
    · have hcan : canCancel l.order = .ok false := by rw [canCancel_eq]; simp [hl]
      rw [cancelReq_refused _ hcan]; exact h
  | cReplace p q =>
    simp only [stepFull]
    rcases replaceReq_cases l.order p q with ⟨e, hr⟩ | hr
    · rw [hr]; exact h
    · by_cases hl : l.order.status ∈ Props.C16.live
      · rw [hr]
        exact request_inv h hl "G" (Or.inr rfl) (msgG l.order _ _) (some (effPrice l.order p))
          (some (effQty l.order q)) (by simp [Req.ofMsg, msgG, getText, getNum])
      · have hcan : canReplace l.order = .ok false := by rw [canReplace_eq]; simp [hl]
        rw [replaceReq_refused _ _ _ hcan]; exact h
  | cRecv =>
    simp only [stepFull]
    cases hq : l.e2c with
    | nil => exact h
    | cons r rest =>
      have hch := h.chain
      rw [hq] at hch
      obtain ⟨⟨b, hb⟩, _, hrest⟩ := hch
      have hnz : l.order.status ≠ "Z" := by
        intro hz; have := (h.fresh hz).2.1; rw [hq] at this; cases this
      have hkn : l.ex.known = true := by
        cases hk : l.ex.known with
        | true => rfl
        | false => have := h.quiet hk; rw [hq] at this; cases this
      have hsync := h.sync
      rw [hq] at hsync
      have key : Inv { l with order := (feed l.order r).1, e2c := rest } :=
        ⟨feed_inv _ _ h.loc, fun hz => absurd hz (feed_not_created _ _ hnz),
         fun hk => (by rw [hkn] at hk; cases hk), hrest, hsync⟩
      dsimp only
      cases hf : feed l.order r with
      | mk o' res =>
        rw [hf] at key
        cases res with
        | ok b' => exact key
        | raised e => exact key
  | xRecv d =>
    simp only [stepFull]
    cases hcq : l.c2e with
    | nil => exact h
    | cons m rest =>
      have hsync := h.sync
      rw [hcq] at hsync
      have hem : emitted l (.xRecv d) = (l.ex.recv (Req.ofMsg m) d).2 := by
        simp [emitted, stepFull, hcq, exchDo]
      have hcalm := noSusp_of_not_excluded hc hem
      have hnz : l.order.status ≠ "Z" := by
        intro hz; have := (h.fresh hz).1; rw [hcq] at this; cases this
      -- the request at the head is the only one
      have hgo : ∀ (hrest : rest = []) (hkn : (l.ex.recv (Req.ofMsg m) d).1.known = true)
          (hemit : EmitOk (drain l.order l.e2c) [] (l.ex.recv (Req.ofMsg m) d)),
          Inv (exchDo { l with c2e := rest } (l.ex.recv (Req.ofMsg m) d)).1 := by
        intro hrest hkn hemit
        subst hrest
        refine ⟨h.loc, fun hz => absurd hz hnz, ?_, ?_, ?_⟩
        · intro hk; simp only [exchDo] at hk; rw [hkn] at hk; cases hk
        · simp only [exchDo]; exact (ChainP_append _ _ _).mpr ⟨h.chain, hemit.1⟩
        · simp only [exchDo]; rw [drain_append]; exact hemit.2
      cases hsync with
      | newSent _ oo hs =>
        exact hgo rfl (recv_known _ _ _ (Or.inr (by rw [hs.req]; exact ⟨rfl, rfl⟩))) (recv_new_ok d hs)
      | reqSent _ k pr qr hs =>
        exact hgo rfl (recv_known _ _ _ (Or.inl hs.known)) (recv_req_ok d hs hcalm)
  | xDecide d =>
    simp only [stepFull]
    have hem : emitted l (.xDecide d) = (l.ex.decide d).2 := by simp [emitted, stepFull, exchDo]
    exact exch_inv h _ (decide_known _ _).1
      (fun hk => (decide_known _ _).2 (sync_known_false h.sync hk))
      (decide_ok d h.sync (noSusp_of_not_excluded hc hem))
  | xAck => exact exch_inv h _ (ack_known _).1 (ack_known _).2 (ack_ok h.sync)
  | xRejNew => exact exch_inv h _ (rejectNew_known _).1 (rejectNew_known _).2 (rejectNew_ok h.sync)
  | xFill q px => exact exch_inv h _ (fill_known _ _ _).1 (fill_known _ _ _).2 (fill_ok q px h.sync)
  | xExpire =>
    by_cases hk : l.ex.known = true
    · have h9 : l.ex.base ≠ "9" := by
        intro h9
        simp [excluded, hk, h9] at hc
      exact exch_inv h _ (expire_known _).1 (expire_known _).2 (expire_ok h.sync h9)
    · have hk' : l.ex.known = false := by simpa using hk
      have := (expire_known l.ex).2 hk'
      simp only [stepFull]
      rw [this]
      exact exch_inv h (l.ex, []) rfl (fun _ => rfl) (emit_noop h.sync)
  | xSuspend => exact exch_inv h _ (suspend_known _).1 (suspend_known _).2 (suspend_ok h.sync)
  | xResume => exact exch_inv h _ (resume_known _).1 (resume_known _).2 (resume_ok h.sync)

theorem run_inv (acts : List Action) : ∀ l : Link, Inv l → calm l acts = true → Inv (run l acts) := by
  induction acts with
  | nil => intro l h _; exact h
  | cons a rest ih =>
    intro l h hc
    simp only [calm, Bool.and_eq_true, Bool.not_eq_true'] at hc
    exact ih _ (step_inv l a h hc.1) hc.2

end AsyncFix.Model.OrderLink
