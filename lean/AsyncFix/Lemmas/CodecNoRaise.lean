/-
The field loop of `Codec.decode` never raises (C10 part 1; also used by C01 / C03).

Invariant `Inv tbl s`: in the message under construction and in the item of every open
repeating-group frame, an entry whose tag is a key of the group table is a `.group` node
(plain / error entries never carry a group tag, because a group tag always takes the first
branch of `stepField`), and every open frame's own tag is a key of the table.  Under it
`Cont.addGroup` never hits its `AttributeError` branch, `Cont.setStr` is only called behind
a `has` test, and so `stepField` returns `.ok` and re-establishes the invariant.
-/
import AsyncFix.Model.Codec.Decode
namespace AsyncFix.Model.Codec

def Node.isGroup : Node → Bool
  | .group _ _ => true
  | _ => false

/-- entries with a group tag are group nodes -/
def ContOK (tbl : Tbl) (c : Cont) : Prop :=
  ∀ n ∈ c, n.isGroup = true ∨ tbl.members? n.tag = none

def FrameOK (tbl : Tbl) (f : Frame) : Prop :=
  tbl.members? f.gtag ≠ none ∧ ContOK tbl f.item

def StackOK (tbl : Tbl) (st : List Frame) : Prop := ∀ f ∈ st, FrameOK tbl f

/-- the loop invariant of the field loop -/
def Inv (tbl : Tbl) (s : DState) : Prop := ContOK tbl s.top ∧ StackOK tbl s.stack

theorem ContOK_nil (tbl : Tbl) : ContOK tbl [] := by
  intro n h; cases h

theorem Inv_init (tbl : Tbl) : Inv tbl {} := by
  refine ⟨ContOK_nil tbl, ?_⟩
  intro f h; cases h

theorem ContOK_append {tbl : Tbl} {c : Cont} {n : Node} (hc : ContOK tbl c)
    (hn : n.isGroup = true ∨ tbl.members? n.tag = none) : ContOK tbl (c ++ [n]) := by
  intro m hm
  rcases List.mem_append.1 hm with h | h
  · exact hc m h
  · simp only [List.mem_singleton] at h; subst h; exact hn

/-! ### container operations -/

theorem setStr_ok {tbl : Tbl} {c : Cont} {t : Tag} (v : Bytes) (hc : ContOK tbl c)
    (ht : tbl.members? t = none) (hh : c.has t = false) :
    ∃ c', c.setStr t v = .ok c' ∧ ContOK tbl c' := by
  refine ⟨c ++ [.leaf t v], ?_, ContOK_append (n := .leaf t v) hc (Or.inr ht)⟩
  simp [Cont.setStr, hh]

theorem setErr_ok {tbl : Tbl} {c : Cont} {t : Tag} (hc : ContOK tbl c)
    (ht : tbl.members? t = none) : ContOK tbl (c.setErr t) := by
  unfold Cont.setErr Cont.put
  split
  · intro m hm
    rcases List.mem_map.1 hm with ⟨a, ha, rfl⟩
    split
    · exact Or.inr ht
    · exact hc a ha
  · exact ContOK_append hc (Or.inr ht)

theorem addGroup_ok {tbl : Tbl} {c : Cont} {t : Tag} (item : Cont) (hc : ContOK tbl c)
    (ht : tbl.members? t ≠ none) :
    ∃ c', c.addGroup t item = .ok c' ∧ ContOK tbl c' := by
  unfold Cont.addGroup
  cases hf : Cont.find? c t with
  | none =>
    exact ⟨_, rfl, ContOK_append hc (Or.inl rfl)⟩
  | some n =>
    have hmem : n ∈ c := List.mem_of_find?_eq_some hf
    have htag : n.tag = t := by
      have := List.find?_some hf
      exact eq_of_beq this
    have hg : n.isGroup = true := by
      rcases hc n hmem with h | h
      · exact h
      · rw [htag] at h; exact absurd h ht
    cases n with
    | leaf _ _ => cases hg
    | err _ => cases hg
    | group t' items =>
      refine ⟨_, rfl, ?_⟩
      intro m hm
      rcases List.mem_map.1 hm with ⟨a, ha, rfl⟩
      cases a with
      | leaf _ _ => exact hc _ ha
      | err _ => exact hc _ ha
      | group t'' its =>
        dsimp only
        split
        · exact Or.inl rfl
        · exact Or.inl rfl

/-! ### closing group frames -/

theorem closeTop_ok {tbl : Tbl} {top : Cont} {st : List Frame}
    (ht : ContOK tbl top) (hs : StackOK tbl st) :
    ∃ top' st', closeTop top st = .ok (top', st') ∧ ContOK tbl top' ∧ StackOK tbl st' := by
  match st with
  | [] => exact ⟨top, [], rfl, ht, hs⟩
  | [f] =>
    have hf := hs f (List.mem_singleton.2 rfl)
    obtain ⟨c', h1, h2⟩ := addGroup_ok f.item ht hf.1
    refine ⟨c', [], ?_, h2, ?_⟩
    · simp only [closeTop, bind, Except.bind, h1, pure, Except.pure]
    · intro g hg; cases hg
  | f :: p :: rest =>
    have hf := hs f (by simp)
    have hp := hs p (by simp)
    obtain ⟨c', h1, h2⟩ := addGroup_ok f.item hp.2 hf.1
    refine ⟨top, { p with item := c' } :: rest, ?_, ht, ?_⟩
    · simp only [closeTop, bind, Except.bind, h1, pure, Except.pure]
    · intro g hg
      rcases List.mem_cons.1 hg with h | h
      · subst h; exact ⟨hp.1, h2⟩
      · exact hs g (by simp [h])

theorem closeWhile_ok {tbl : Tbl} (tag : Tag) :
    ∀ (n : Nat) (top : Cont) (st : List Frame), st.length = n →
      ContOK tbl top → StackOK tbl st →
      ∃ top' st', closeWhile tag top st = .ok (top', st') ∧ ContOK tbl top' ∧ StackOK tbl st' := by
  intro n
  induction n with
  | zero =>
    intro top st hl ht hs
    have : st = [] := List.length_eq_zero_iff.1 hl
    subst this
    exact ⟨top, [], by simp [closeWhile], ht, hs⟩
  | succ n ih =>
    intro top st hl ht hs
    match st, hl with
    | f :: rest, hl =>
      unfold closeWhile
      split
      · exact ⟨top, f :: rest, rfl, ht, hs⟩
      · obtain ⟨top', st', h1, h2, h3⟩ := closeTop_ok ht hs
        have hlen := closeTop_length h1
        split
        · rename_i k hk; rw [h1] at hk; cases hk
        · rename_i t2 s2 hk
          rw [h1] at hk
          cases hk
          apply ih top' st' _ h2 h3
          simp only [List.length_cons] at hlen hl
          omega

/-! ### one field -/

theorem stepField_ok {tbl : Tbl} (ck : Nat) {s : DState} (tag value : Bytes) (hi : Inv tbl s) :
    ∃ s', stepField tbl ck s tag value = .ok s' ∧ Inv tbl s' := by
  unfold stepField
  -- the CheckSum / MsgType bookkeeping does not touch `top` / `stack`
  generalize hs1 : (if tag == tag10 then
      { s with ckPassed := (ckParse value == some ck) }
    else if tag == tag35 then { s with mtype := value } else s) = s1
  have hi1 : Inv tbl s1 := by
    subst hs1
    split
    · exact hi
    · split
      · exact hi
      · exact hi
  clear hs1 hi
  obtain ⟨ht, hs⟩ := hi1
  simp only [bind, Except.bind, pure, Except.pure]
  cases hm : tbl.members? tag with
  | some members =>
    dsimp only
    have hkey : tbl.members? tag ≠ none := by rw [hm]; exact Option.some_ne_none _
    split
    · -- no group open
      refine ⟨_, rfl, ht, ?_⟩
      intro f hf
      rcases List.mem_cons.1 hf with h | h
      · subst h; exact ⟨hkey, ContOK_nil tbl⟩
      · exact hs f h
    · obtain ⟨top', st', h1, h2, h3⟩ := closeWhile_ok tag _ s1.top s1.stack rfl ht hs
      rw [h1]
      refine ⟨_, rfl, h2, ?_⟩
      intro f hf
      rcases List.mem_cons.1 hf with h | h
      · subst h; exact ⟨hkey, ContOK_nil tbl⟩
      · exact h3 f h
  | none =>
    dsimp only
    split
    · -- no group open
      split
      · exact ⟨_, rfl, setErr_ok ht hm, hs⟩
      · rename_i hh
        obtain ⟨c', h1, h2⟩ := setStr_ok value ht hm (by simpa using hh)
        rw [h1]
        exact ⟨_, rfl, h2, hs⟩
    · obtain ⟨top', st', h1, h2, h3⟩ := closeWhile_ok tag _ s1.top s1.stack rfl ht hs
      rw [h1]
      dsimp only
      match st', h3 with
      | [], _ =>
        dsimp only
        split
        · refine ⟨_, rfl, setErr_ok h2 hm, ?_⟩
          intro f hf; cases hf
        · rename_i hh
          obtain ⟨c', h4, h5⟩ := setStr_ok value h2 hm (by simpa using hh)
          rw [h4]
          refine ⟨_, rfl, h5, ?_⟩
          intro f hf; cases hf
      | f :: rest, h3 =>
        dsimp only
        have hf := h3 f (by simp)
        split
        · -- start the next item of the group
          obtain ⟨top2, st2, h4, h5, h6⟩ := closeTop_ok h2 h3
          rw [h4]
          obtain ⟨c', h7, h8⟩ := setStr_ok (tbl := tbl) (c := []) value (ContOK_nil tbl) hm rfl
          rw [h7]
          refine ⟨_, rfl, h5, ?_⟩
          intro g hg
          rcases List.mem_cons.1 hg with h | h
          · subst h; exact ⟨hf.1, h8⟩
          · exact h6 g h
        · rename_i hh
          obtain ⟨c', h4, h5⟩ := setStr_ok value hf.2 hm (by simpa using hh)
          rw [h4]
          refine ⟨_, rfl, h2, ?_⟩
          intro g hg
          rcases List.mem_cons.1 hg with h | h
          · subst h; exact ⟨hf.1, h5⟩
          · exact h3 g (by simp [h])

/-! ### the loop -/

/-- generalisation with the invariant: from any state satisfying `Inv` the loop returns `.ok` -/
theorem fieldLoop_no_raise_inv (tbl : Tbl) (ck : Nat) :
    ∀ (fields : List Bytes) (s : DState), Inv tbl s → ∃ r, fieldLoop tbl ck s fields = .ok r := by
  intro fields
  induction fields with
  | nil => intro s _; exact ⟨some s, rfl⟩
  | cons m rest ih =>
    intro s hi
    unfold fieldLoop
    split
    · exact ⟨none, rfl⟩
    · split
      · exact ⟨none, rfl⟩
      · rename_i tag value _ _ _ _
        obtain ⟨s', h1, h2⟩ := stepField_ok ck tag value hi
        simp only [bind, Except.bind, h1]
        exact ih s' h2

/-- the final state (when the loop runs to the end) satisfies the invariant again -/
theorem fieldLoop_inv (tbl : Tbl) (ck : Nat) :
    ∀ (fields : List Bytes) (s s' : DState), Inv tbl s →
      fieldLoop tbl ck s fields = .ok (some s') → Inv tbl s' := by
  intro fields
  induction fields with
  | nil =>
    intro s s' hi h
    simp only [fieldLoop, pure, Except.pure, Except.ok.injEq, Option.some.injEq] at h
    subst h; exact hi
  | cons m rest ih =>
    intro s s' hi h
    unfold fieldLoop at h
    split at h
    · cases h
    · split at h
      · cases h
      · rename_i tag value _ _ _ _
        obtain ⟨s1, h1, h2⟩ := stepField_ok ck tag value hi
        simp only [bind, Except.bind, h1] at h
        exact ih s1 s' h2 h

/-- **the field loop of `decode` never raises** -/
theorem fieldLoop_no_raise (tbl : Tbl) (ck : Nat) (fields : List Bytes) :
    ∃ r, fieldLoop tbl ck {} fields = .ok r :=
  fieldLoop_no_raise_inv tbl ck fields {} (Inv_init tbl)

end AsyncFix.Model.Codec
