/-
Bridge to the framing layer: `fieldLoopF` (CodecFrameB.lean) is `stepAll` wrapped in `some`,
so the group theorem holds for the loop `decode_mkFrame_F` is stated with.
-/
import AsyncFix.Lemmas.CodecGroups
import AsyncFix.Lemmas.CodecFrameB
namespace AsyncFix.Model.Codec

theorem fieldLoopF_eq_stepAll (tbl : Tbl) (ck : Nat) (s : DState) (fs : List Fld) :
    fieldLoopF tbl ck s fs =
      match stepAll tbl ck s fs with
      | .error k => .error k
      | .ok s' => .ok (some s') := by
  induction fs generalizing s with
  | nil => rfl
  | cons f rest ih =>
    simp only [fieldLoopF, stepAll, bind, Except.bind]
    cases stepField tbl ck s f.tag f.val with
    | error k => rfl
    | ok s' => exact ih s'

/-- `stepAll_wfTop` for the loop of `decode_mkFrame_F` -/
theorem fieldLoopF_wfTop (tbl : Tbl) (ck : Nat) (c : Cont) (v : Bytes) (h : wfTop tbl c = true) :
    fieldLoopF tbl ck {} (flatCont c ++ [⟨tag10, v⟩]) =
      .ok (some { top := c ++ [.leaf tag10 v], stack := [],
                  mtype := lastMtype (flatCont c),
                  ckPassed := (ckParse v == some ck) }) := by
  rw [fieldLoopF_eq_stepAll, stepAll_wfTop tbl ck c v h]

end AsyncFix.Model.Codec
