import AsyncFix.Lemmas.SessionOutHandlers

/-!
C05: Hoare triples, continued: `_finalize_message`, `_process_testrequest`, `_process_heartbeat`,
`send_test_req`, `_validate_integrity`, the first part of `_process_message` (`processHead`).
-/
namespace AsyncFix.Session

open AsyncFix.Generated AsyncFix.Generated.ConnEnum

variable {sr : Msg → Bool} {U X : Prop} {α : Type}

theorem Hold.bind_modify' {α : Type} {c : Conn} {g : Conn → Conn} {f : Unit → M α}
    {Q : α → Conn → Prop} (hI : OutInv c) (he : OutEq c (g c)) (hst : (g c).state = c.state)
    (hsk : (g c).sock = c.sock) (hf : OutInv (g c) → Hold sr U X (g c) (f ()) Q) :
    Hold sr U X c (M.modify g >>= f) Q :=
  Hold.bind_modify hI he (fun h => by rw [hsk]; exact hI.sock (by rw [← hst]; exact h)) hf

theorem finalizeMessage_hold (env : Env) (m : Msg) (c : Conn) (hI : OutInv c) :
    Hold sr U X c (finalizeMessage env m) (fun _ _ => True) := by
  unfold finalizeMessage
  dsimp only
  refine Hold.seq (setNextNumIn_hold m c hI) ?_
  intro n c1 hI1 _
  -- everything after the optional RESENDREQ_AWAITING → ACTIVE transition
  have tail : ∀ c2, OutInv c2 → Hold sr U X c2 (do
      let c' ← M.get
      if c'.state > st_DISCONNECTED_BROKEN_CONN then M.modify fun c => { c with lastTime := env.now }
      else pure ()
      persistInbound m) (fun _ _ => True) := by
    intro c2 hI2
    dsimp only
    repeat' first
      | hstep
      | exact persistInbound_hold m _ (by assumption)
      | (refine Hold.bind_modify' (by assumption) ⟨⟨rfl, rfl, rfl⟩, rfl, rfl⟩ rfl rfl ?_; intro _)
  hstep
  · exact Hold.pure hI1 trivial
  · hstep
    hstep
    · rename_i h12
      have hs : c1.sock = true := hI1.sock (by
        have : c1.state = st_RESENDREQ_AWAITING := by simpa using h12
        rw [this]; decide)
      hstep; hstep
      · apply Hold.bind_modify hI1 ⟨⟨rfl, rfl, rfl⟩, rfl, rfl⟩ hI1.sock; intro hI2
        refine Hold.seq (stateSet_hold _ _ hI2 (fun _ => hs)) ?_
        intro _ c3 hI3 _
        exact tail c3 hI3
      · exact Hold.bind_pure (tail c1 hI1)
    · exact Hold.bind_pure (tail c1 hI1)

theorem processTestRequest_hold (env : Env) (m : Msg) (c : Conn) (hI : OutInv c) :
    Hold sr U X c (processTestRequest env m) (fun _ _ => True) := by
  unfold processTestRequest
  hstep
  exact (sendMsg_hold env _ c hI (isNew_mk' _ _ rfl rfl)).true_of

theorem processHeartbeat_hold (env : Env) (m : Msg) (c : Conn) (hI : OutInv c) :
    Hold sr U X c (processHeartbeat env m) (fun _ _ => True) := by
  unfold processHeartbeat
  dsimp only
  hstep; hstep
  cases c.testReqId with
  | none => exact Hold.pure hI trivial
  | some tid =>
    dsimp only
    cases m.get? tTestReqID with
    | none => exact Hold.pure hI trivial
    | some v =>
      dsimp only
      hstep
      · exact (disconnect_hold env _ _ c hI).true_of
      · exact Hold.modify (hI.of_outEq ⟨⟨rfl, rfl, rfl⟩, rfl, rfl⟩ hI.sock) ⟨⟨rfl, rfl, rfl⟩, rfl, rfl⟩
          trivial

theorem sendTestReq_hold (env : Env) (c : Conn) (hI : OutInv c) :
    Hold sr U X c (sendTestReq env) (fun _ _ => True) := by
  unfold sendTestReq
  repeat' hstep
  apply Hold.bind_modify hI ⟨⟨rfl, rfl, rfl⟩, rfl, rfl⟩ hI.sock; intro hI1
  exact (sendMsg_hold env _ _ hI1 (isNew_mk' _ _ rfl rfl)).true_of

/-- `_validate_integrity` only reads -/
theorem validateIntegrity_hold (m : Msg) (c : Conn) (hI : OutInv c) :
    Hold sr U X c (validateIntegrity m) (fun _ c' => c' = c) := by
  unfold validateIntegrity
  repeat' hstep
  cases pyInt _ with
  | none => exact Hold.pure hI rfl
  | some n => dsimp only; repeat' hstep

end AsyncFix.Session
