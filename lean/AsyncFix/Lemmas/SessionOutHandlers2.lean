import AsyncFix.Lemmas.SessionOutHandlers

/-!
C05: Hoare triples, continued: `_finalize_message`, `_process_testrequest`, `_process_heartbeat`,
`send_test_req`, `_validate_integrity`, the first part of `_process_message` (`processHead`).
-/
namespace AsyncFix.Session

open AsyncFix.Generated AsyncFix.Generated.ConnEnum

variable {sr : Msg → Bool} {U X : Prop} {α : Type}

theorem finalizeMessage_hold (env : Env) (m : Msg) (c : Conn) (hI : OutInv c) :
    Hold sr U X c (finalizeMessage env m) (fun _ _ => True) := by
  unfold finalizeMessage
  dsimp only
  refine Hold.seq (setNextNumIn_hold m c hI) ?_
  intro n c1 hI1 _
  have tail : ∀ c2, OutInv c2 → Hold sr U X c2 (do
      M.modify fun c => { c with lastTime := env.now }
      persistInbound m) (fun _ _ => True) := by
    intro c2 hI2
    apply Hold.bind_modify hI2 ⟨⟨rfl, rfl, rfl⟩, rfl, rfl⟩ hI2.sock; intro hI3
    exact persistInbound_hold m _ hI3
  repeat' hstep
  · apply Hold.bind_modify hI1 ⟨⟨rfl, rfl, rfl⟩, rfl, rfl⟩ hI1.sock; intro hI2
    rename_i h12 _ _
    have hs : c1.sock = true := hI1.sock (by
      have : c1.state = st_RESENDREQ_AWAITING := by simpa using h12
      rw [this]; decide)
    refine Hold.seq (stateSet_hold _ _ hI2 (fun _ => hs)) ?_
    intro _ c3 hI3 _
    exact tail c3 hI3
  · exact tail c1 hI1
  · exact tail c1 hI1

theorem processTestRequest_hold (env : Env) (m : Msg) (c : Conn) (hI : OutInv c) :
    Hold sr U X c (processTestRequest env m) (fun _ _ => True) := by
  unfold processTestRequest
  hstep
  exact (sendMsg_hold env _ c hI (isNew_mk' _ _ rfl rfl)).true_of

theorem processHeartbeat_hold (env : Env) (m : Msg) (c : Conn) (hI : OutInv c) :
    Hold sr U X c (processHeartbeat env m) (fun _ _ => True) := by
  unfold processHeartbeat
  dsimp only
  hstep; hstep
  cases c.testReqId with
  | none => exact Hold.pure hI trivial
  | some tid =>
    dsimp only
    cases m.get? tTestReqID with
    | none => exact Hold.pure hI trivial
    | some v =>
      dsimp only
      hstep
      · exact (disconnect_hold env _ _ c hI).true_of
      · exact Hold.modify (hI.of_outEq ⟨⟨rfl, rfl, rfl⟩, rfl, rfl⟩ hI.sock) ⟨⟨rfl, rfl, rfl⟩, rfl, rfl⟩
          trivial

theorem sendTestReq_hold (env : Env) (c : Conn) (hI : OutInv c) :
    Hold sr U X c (sendTestReq env) (fun _ _ => True) := by
  unfold sendTestReq
  repeat' hstep
  apply Hold.bind_modify hI ⟨⟨rfl, rfl, rfl⟩, rfl, rfl⟩ hI.sock; intro hI1
  exact (sendMsg_hold env _ _ hI1 (isNew_mk' _ _ rfl rfl)).true_of

/-- `_validate_integrity` only reads -/
theorem validateIntegrity_hold (m : Msg) (c : Conn) (hI : OutInv c) :
    Hold sr U X c (validateIntegrity m) (fun _ c' => c' = c) := by
  unfold validateIntegrity
  repeat' hstep
  cases pyInt _ with
  | none => exact Hold.pure hI rfl
  | some n => dsimp only; repeat' hstep

end AsyncFix.Session
