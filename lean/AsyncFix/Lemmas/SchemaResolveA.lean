/-
C15, order-independence of component declarations: facts about one body expansion
(`expandBody`, the model of `_parse_msg_set`).
-/
import AsyncFix.Model.SchemaResolve
namespace AsyncFix.Model.SchemaResolve

/-- component names referred to by a body, at any depth -/
def refs : List Decl → List String
  | [] => []
  | .field _ _ :: rest => refs rest
  | .comp n :: rest => n :: refs rest
  | .group _ _ body :: rest => refs body ++ refs rest

def names (ms : List RMem) : List String := ms.map RMem.name

theorem addMem_some {acc acc' : List RMem} {m : RMem} (h : addMem acc m = some acc') :
    acc' = acc ++ [m] := by
  cases m with
  | field n r =>
    simp only [addMem] at h
    split at h
    · cases h
    · exact (Option.some.inj h).symm
  | group n r ms => simp only [addMem] at h; exact (Option.some.inj h).symm

theorem addMem_field_none {acc : List RMem} {n : String} {r : Bool} :
    addMem acc (.field n r) = none ↔ n ∈ names acc := by
  unfold addMem names
  by_cases h : (acc.any fun m => decide (m.name = n)) = true
  · simp only [h, if_true, true_iff]
    obtain ⟨m, hm, e⟩ := List.any_eq_true.mp h
    exact List.mem_map.mpr ⟨m, hm, by simpa using e⟩
  · simp only [h, if_false, reduceCtorEq, false_iff]
    intro hmem
    obtain ⟨m, hm, e⟩ := List.mem_map.mp hmem
    exact h (List.any_eq_true.mpr ⟨m, hm, by simpa using e⟩)

/-- the accumulated names of a partial expansion are among those of the full expansion -/
def Sub (accP accF : List RMem) : Prop := ∀ x, x ∈ names accP → x ∈ names accF

theorem Sub.append {accP accF : List RMem} (h : Sub accP accF) (m m' : RMem) (e : m.name = m'.name) :
    Sub (accP ++ [m]) (accF ++ [m']) := by
  intro x hx
  simp only [names, List.map_append, List.mem_append, List.map_cons, List.map_nil,
    List.mem_singleton] at hx ⊢
  rcases hx with hx | hx
  · exact Or.inl (h x hx)
  · exact Or.inr (hx.trans e)

theorem Sub.right {accP accF : List RMem} (h : Sub accP accF) (m' : RMem) : Sub accP (accF ++ [m']) := by
  intro x hx
  simp only [names, List.map_append, List.mem_append]
  exact Or.inl (h x hx)

theorem mergeAll_grow {acc ms acc' : List RMem} (h : mergeAll acc ms = some acc') : Sub acc acc' := by
  induction ms generalizing acc with
  | nil => simp [mergeAll] at h; subst h; exact fun x hx => hx
  | cons m rest ih =>
    rw [mergeAll] at h
    cases ha : addMem acc m with
    | none => simp [ha] at h
    | some a =>
      simp only [ha] at h
      have := addMem_some ha
      subst this
      intro x hx
      exact ih h x (by simp only [names, List.map_append, List.mem_append]; exact Or.inl hx)

theorem merge_partial {accP accF ms accF' : List RMem} (hs : Sub accP accF)
    (h : mergeAll accF ms = some accF') : ∃ accP', mergeAll accP ms = some accP' ∧ Sub accP' accF' := by
  induction ms generalizing accP accF with
  | nil => simp [mergeAll] at h ⊢; subst h; exact hs
  | cons m rest ih =>
    rw [mergeAll] at h ⊢
    cases ha : addMem accF m with
    | none => simp [ha] at h
    | some a =>
      simp only [ha] at h
      have ea := addMem_some ha
      subst ea
      cases hp : addMem accP m with
      | none =>
        cases m with
        | group n r g => simp [addMem] at hp
        | field n r =>
          have := hs n (addMem_field_none.mp hp)
          rw [addMem_field_none.mpr this] at ha
          cases ha
      | some b =>
        have eb := addMem_some hp
        subst eb
        exact ih (hs.append m m rfl) h

theorem Env.get_append {env : Env} {n k : String} {ms : List RMem} :
    Env.get (env ++ [(n, ms)]) k =
      match env.get k with
      | some x => some x
      | none => if n = k then some ms else none := by
  induction env with
  | nil => simp [Env.get]
  | cons p rest ih =>
    obtain ⟨a, b⟩ := p
    simp only [List.cons_append, Env.get]
    by_cases h : a = k
    · simp [h]
    · simp only [h, if_false]; exact ih

section
variable (env : Env)

/-- once deferred, always deferred -/
theorem expand_flag {body : List Decl} {acc : List RMem} {d : Bool} {ms : List RMem} {d' : Bool}
    (h : expandBody env body acc d = .done ms d') : d = true → d' = true := by
  fun_induction expandBody env body acc d generalizing ms d' <;> simp_all

/-- not deferred ⇒ not deferred before and every referenced component is resolved -/
theorem expand_nodefer {body : List Decl} {acc : List RMem} {d : Bool} {ms : List RMem}
    (h : expandBody env body acc d = .done ms false) :
    d = false ∧ ∀ c, c ∈ refs body → (env.get c).isSome = true := by
  fun_induction expandBody env body acc d generalizing ms with
  | case1 acc d => simp_all [refs]
  | case2 => simp_all
  | case3 n r rest acc d acc' ha ih => simp_all [refs]
  | case4 n rest acc d hn ih => have := (ih h).1; simp at this
  | case5 => simp_all
  | case6 n rest acc d x hx acc' hm ih =>
    obtain ⟨h1, h2⟩ := ih h
    refine ⟨h1, ?_⟩
    intro c hc
    simp only [refs, List.mem_cons] at hc
    rcases hc with rfl | hc
    · simp [hx]
    · exact h2 c hc
  | case7 => simp_all
  | case8 n r body rest acc d gms hb ihb ih => have := (ih h).1; simp at this
  | case9 n r body rest acc d gms hb ihb ih =>
    obtain ⟨h1, h2⟩ := ih h
    refine ⟨h1, ?_⟩
    intro c hc
    simp only [refs, List.mem_append] at hc
    rcases hc with hc | hc
    · exact (ihb hb).2 c hc
    · exact h2 c hc

/-- every referenced component resolved ⇒ the expansion is not deferred -/
theorem expand_allrefs {body : List Decl} {acc : List RMem} {d : Bool} {ms : List RMem} {d' : Bool}
    (hr : ∀ c, c ∈ refs body → (env.get c).isSome = true)
    (h : expandBody env body acc d = .done ms d') : d' = d := by
  fun_induction expandBody env body acc d generalizing ms d' with
  | case1 acc d => simp_all
  | case2 => simp_all
  | case3 n r rest acc d acc' ha ih => exact ih (by simpa [refs] using hr) h
  | case4 n rest acc d hn ih => have := hr n (by simp [refs]); simp [hn] at this
  | case5 => simp_all
  | case6 n rest acc d x hx acc' hm ih =>
    exact ih (fun c hc => hr c (by simp [refs, hc])) h
  | case7 => simp_all
  | case8 n r body rest acc d gms hb ihb ih =>
    have := ihb (fun c hc => hr c (by simp [refs, hc])) hb
    simp at this
  | case9 n r body rest acc d gms hb ihb ih =>
    exact ih (fun c hc => hr c (by simp [refs, hc])) h

end

/-- the expansion only looks at the referenced components -/
theorem expand_congr {env env2 : Env} {body : List Decl} {acc : List RMem} {d : Bool}
    (hr : ∀ c, c ∈ refs body → env.get c = env2.get c) :
    expandBody env body acc d = expandBody env2 body acc d := by
  fun_induction expandBody env body acc d with
  | case1 acc d => simp [expandBody]
  | case2 n r rest acc d ha => simp [expandBody, ha]
  | case3 n r rest acc d acc' ha ih =>
    rw [expandBody.eq_2]; simp only [ha]; exact ih (by simpa [refs] using hr)
  | case4 n rest acc d hn ih =>
    have e := hr n (by simp [refs])
    rw [expandBody.eq_3, ← e]; simp only [hn]
    exact ih (fun c hc => hr c (by simp [refs, hc]))
  | case5 n rest acc d x hx hm =>
    have e := hr n (by simp [refs])
    rw [expandBody.eq_3, ← e]; simp only [hx, hm]
  | case6 n rest acc d x hx acc' hm ih =>
    have e := hr n (by simp [refs])
    rw [expandBody.eq_3, ← e]; simp only [hx, hm]
    exact ih (fun c hc => hr c (by simp [refs, hc]))
  | case7 n r body rest acc d hb ihb =>
    rw [expandBody.eq_4, ← ihb (fun c hc => hr c (by simp [refs, hc]))]; simp only [hb]
  | case8 n r body rest acc d gms hb ihb ih =>
    rw [expandBody.eq_4, ← ihb (fun c hc => hr c (by simp [refs, hc]))]; simp only [hb]
    exact ih (fun c hc => hr c (by simp [refs, hc]))
  | case9 n r body rest acc d gms hb ihb ih =>
    rw [expandBody.eq_4, ← ihb (fun c hc => hr c (by simp [refs, hc]))]; simp only [hb]
    exact ih (fun c hc => hr c (by simp [refs, hc]))


theorem Sub.trans {a b c : List RMem} (h1 : Sub a b) (h2 : Sub b c) : Sub a c := fun x hx => h2 x (h1 x hx)

/-- an attempt in a smaller environment (some components not resolved yet, the others with the
    same members) never fails an assertion when the attempt in the full environment succeeds:
    what it accumulates is a part of what the full expansion accumulates -/
theorem expand_partial {envP envF : Env} (hsub : ∀ c x, envP.get c = some x → envF.get c = some x)
    {body : List Decl} {accF : List RMem} {dF : Bool} {msF : List RMem} {dF' : Bool}
    (hr : ∀ c, c ∈ refs body → (envF.get c).isSome = true)
    (h : expandBody envF body accF dF = .done msF dF') :
    ∀ accP dP, Sub accP accF → ∃ msP dP', expandBody envP body accP dP = .done msP dP' ∧ Sub msP msF := by
  fun_induction expandBody envF body accF dF generalizing msF dF' with
  | case1 acc d =>
    intro accP dP hs
    simp only [Res.done.injEq] at h
    exact ⟨accP, dP, by simp [expandBody], h.1 ▸ hs⟩
  | case2 => cases h
  | case3 n r rest acc d acc' ha ih =>
    intro accP dP hs
    have ea := addMem_some ha
    subst ea
    rw [expandBody.eq_2]
    cases hp : addMem accP (.field n r) with
    | none =>
      have := hs n (addMem_field_none.mp hp)
      rw [addMem_field_none.mpr this] at ha
      cases ha
    | some b =>
      have eb := addMem_some hp
      subst eb
      exact ih (by simpa [refs] using hr) h _ dP (hs.append _ _ rfl)
  | case4 n rest acc d hn ih => have := hr n (by simp [refs]); simp [hn] at this
  | case5 => cases h
  | case6 n rest acc d x hx acc' hm ih =>
    intro accP dP hs
    have hr' : ∀ c, c ∈ refs rest → (envF.get c).isSome = true := fun c hc => hr c (by simp [refs, hc])
    rw [expandBody.eq_3]
    cases hp : envP.get n with
    | none => exact ih hr' h accP true (hs.trans (mergeAll_grow hm))
    | some x' =>
      have := hsub n x' hp
      rw [hx] at this
      cases this
      obtain ⟨accP', hmp, hs'⟩ := merge_partial hs hm
      simp only [hmp]
      exact ih hr' h accP' dP hs'
  | case7 => cases h
  | case8 n r body rest acc d gms hb ihb ih =>
    have := expand_allrefs envF (fun c hc => hr c (by simp [refs, hc])) hb
    simp at this
  | case9 n r body rest acc d gms hb ihb ih =>
    intro accP dP hs
    have hr' : ∀ c, c ∈ refs rest → (envF.get c).isSome = true := fun c hc => hr c (by simp [refs, hc])
    obtain ⟨gmsP, dg, hgp, _⟩ := ihb (fun c hc => hr c (by simp [refs, hc])) hb [] false (fun x hx => hx)
    rw [expandBody.eq_4]
    simp only [hgp]
    cases dg with
    | true => exact ih hr' h accP true (hs.right _)
    | false => exact ih hr' h _ dP (hs.append _ _ rfl)

end AsyncFix.Model.SchemaResolve
