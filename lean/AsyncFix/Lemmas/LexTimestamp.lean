/-
UTCTimestamp: `%Y%m%d-` in front of the time part.
-/
import AsyncFix.Lemmas.LexTimeOnly
namespace AsyncFix.Lemmas.LexTimestamp
open AsyncFix.Py AsyncFix.Lemmas.LexTok AsyncFix.Lemmas.LexSeq AsyncFix.Lemmas.LexLayout
open AsyncFix.Lemmas.LexDate AsyncFix.Lemmas.LexTime AsyncFix.Lemmas.LexTimeOnly
open AsyncFix.Model AsyncFix.Model.Lexical AsyncFix.Model.LexClass

/-- eight ASCII digits -/
def D8 (y1 y2 y3 y4 m1 m2 d1 d2 : Nat) : Prop :=
  isAsciiDigit y1 = true ∧ isAsciiDigit y2 = true ∧ isAsciiDigit y3 = true ∧ isAsciiDigit y4 = true ∧
    isAsciiDigit m1 = true ∧ isAsciiDigit m2 = true ∧ isAsciiDigit d1 = true ∧ isAsciiDigit d2 = true

def fmtTimestampF : List Dir := fmtTimestamp ++ [.lit 46, .f]

theorem effFmt_ts_nodot {s : Str} (h : s.contains 46 = false) : effFmt s fmtTimestamp = fmtTimestamp := by
  unfold effFmt; rw [h]; rfl

theorem effFmt_ts_dot {s : Str} (h : s.contains 46 = true) : effFmt s fmtTimestamp = fmtTimestampF := by
  unfold effFmt; rw [h]; rfl

/-- `%Y%m%d-` followed by a time format -/
theorem ts_headFull {y1 y2 y3 y4 m1 m2 d1 d2 : Nat} (hd : D8 y1 y2 y3 y4 m1 m2 d1 d2)
    (tf : List Dir) (tm : Str) :
    headFull (matchSeq (.Y :: .m :: .d :: .lit 45 :: tf) (y1 :: y2 :: y3 :: y4 :: m1 :: m2 :: d1 :: d2 :: 45 :: tm)) =
      if (inRng .m m1 m2 && inRng .d d1 d2) = true then
        (headFull (matchSeq tf tm)).map fun tv => four y1 y2 y3 y4 :: two m1 m2 :: two d1 d2 :: 0 :: tv
      else none := by
  obtain ⟨a1, a2, a3, a4, a5, a6, a7, a8⟩ := hd
  rw [matchSeq_Y _ _ a1 a2 a3 a4, matchSeq_md_lit _ _ a5 a6 a7 a8 not_digit_45]
  by_cases x : (inRng .m m1 m2 && inRng .d d1 d2) = true
  · simp only [x, ↓reduceIte, headFull_ext, Option.map_map]
    cases headFull (matchSeq tf tm) <;> rfl
  · simp [x]

theorem layout_ts_gen {tf : List Dir} {s : Str} :
    layoutMatch (.Y :: .m :: .d :: .lit 45 :: tf) s = true ↔
      ∃ y1 y2 y3 y4 m1 m2 d1 d2 tm, s = y1 :: y2 :: y3 :: y4 :: m1 :: m2 :: d1 :: d2 :: 45 :: tm ∧
        D8 y1 y2 y3 y4 m1 m2 d1 d2 ∧ layoutMatch tf tm = true := by
  constructor
  · intro h
    obtain ⟨y1, y2, y3, y4, r, rfl, h1, h2, h3, h4, h⟩ := layout_Y.1 h
    obtain ⟨m1, m2, r, rfl, h5, h6, h⟩ := (layout_num (D := .m) rfl).1 h
    obtain ⟨d1, d2, r, rfl, h7, h8, h⟩ := (layout_num (D := .d) rfl).1 h
    obtain ⟨r, rfl, h⟩ := layout_lit.1 h
    exact ⟨y1, y2, y3, y4, m1, m2, d1, d2, r, rfl, ⟨h1, h2, h3, h4, h5, h6, h7, h8⟩, h⟩
  · rintro ⟨y1, y2, y3, y4, m1, m2, d1, d2, tm, rfl, ⟨h1, h2, h3, h4, h5, h6, h7, h8⟩, h⟩
    exact layout_Y.2 ⟨_, _, _, _, _, rfl, h1, h2, h3, h4,
      (layout_num (D := .m) rfl).2 ⟨_, _, _, rfl, h5, h6,
        (layout_num (D := .d) rfl).2 ⟨_, _, _, rfl, h7, h8, layout_lit.2 ⟨_, rfl, h⟩⟩⟩⟩

/-- calendar part of a timestamp: month, day exist; `minYear` = 1 for the model, 0 for the SPEC -/
def DateOK (minYear : Nat) (y1 y2 y3 y4 m1 m2 d1 d2 : Nat) : Prop :=
  minYear ≤ four y1 y2 y3 y4 ∧ 1 ≤ two m1 m2 ∧ two m1 m2 ≤ 12 ∧ 1 ≤ two d1 d2 ∧
    two d1 d2 ≤ daysInMonth (four y1 y2 y3 y4) (two m1 m2)

/-- YYYYMMDD-<time> -/
def StampShape (minYear maxSec : Nat) (six : Bool) (s : Str) : Prop :=
  ∃ y1 y2 y3 y4 m1 m2 d1 d2 tm, s = y1 :: y2 :: y3 :: y4 :: m1 :: m2 :: d1 :: d2 :: 45 :: tm ∧
    D8 y1 y2 y3 y4 m1 m2 d1 d2 ∧ DateOK minYear y1 y2 y3 y4 m1 m2 d1 d2 ∧ TimeShape maxSec six tm

theorem d8_no_dot {y1 y2 y3 y4 m1 m2 d1 d2 : Nat} (hd : D8 y1 y2 y3 y4 m1 m2 d1 d2) (tm : Str) :
    (y1 :: y2 :: y3 :: y4 :: m1 :: m2 :: d1 :: d2 :: 45 :: tm).contains 46 = tm.contains 46 := by
  obtain ⟨a1, a2, a3, a4, a5, a6, a7, a8⟩ := hd
  have e : ∀ c, isAsciiDigit c = true → decide (46 = c) = false := by
    intro c h; have := digit_ne_dot h; simp; omega
  simp [e _ a1, e _ a2, e _ a3, e _ a4, e _ a5, e _ a6, e _ a7, e _ a8]

theorem mdrng_iff {m1 m2 d1 d2 : Nat} :
    (inRng .m m1 m2 && inRng .d d1 d2) = true ↔
      (1 ≤ two m1 m2 ∧ two m1 m2 ≤ 12) ∧ 1 ≤ two d1 d2 ∧ two d1 d2 ≤ 31 := by
  simp only [Bool.and_eq_true, inRng_iff, lo, hi]

theorem daysInMonth_le (y m : Nat) : daysInMonth y m ≤ 31 := by
  unfold daysInMonth; split <;> split <;> omega

/-- the model's timestamp validator accepts exactly this shape -/
theorem ts_pass_shape (s : Str) : validateDatetime s fmtTimestamp = .pass ↔ StampShape 1 59 true s := by
  rw [validateDatetime_pass_iff]
  constructor
  · rintro ⟨⟨vals, hv, hok⟩, hl⟩
    by_cases hdot : s.contains 46 = true
    · rw [effFmt_ts_dot hdot] at hv hok hl
      obtain ⟨y1, y2, y3, y4, m1, m2, d1, d2, tm, rfl, hd8, hl⟩ := layout_ts_gen.1 hl
      obtain ⟨h1, h2, n1, n2, s1, s2, r, rfl, hd, hr⟩ := layout_hms_gen.1 hl
      have h36 := layout_dotf.1 hr
      obtain ⟨fr, rfl⟩ := is3_or_6_head h36
      obtain ⟨fv, hf, hfv⟩ := frac_headFull h36
      have hv' := hv
      unfold fmtTimestampF fmtTimestamp at hv'
      simp only [List.cons_append, List.nil_append] at hv'
      rw [ts_headFull hd8, show ([Dir.H, .lit 58, .M, .lit 58, .S, .lit 46, .f] : List Dir) = fmtHMSf from rfl,
        hmsf_headFull hd hf] at hv'
      by_cases hr1 : (inRng .m m1 m2 && inRng .d d1 d2) = true
      · by_cases hr2 : (inRng .H h1 h2 && inRng .M n1 n2 && inRng .S s1 s2) = true
        · rw [if_pos hr1, if_pos hr2] at hv'
          injection hv' with hv'; subst hv'
          have := rng_iff.1 hr2
          have := mdrng_iff.1 hr1
          rw [dtOk_iff] at hok
          simp [assign, fmtTimestampF, fmtTimestamp, DateTime.effYear] at hok
          refine ⟨y1, y2, y3, y4, m1, m2, d1, d2, _, rfl, hd8, ⟨by omega, by omega, by omega, by omega, by omega⟩,
            h1, h2, n1, n2, s1, s2, _, rfl, hd, by omega, by omega, by omega, ?_⟩
          rcases h36 with h | h
          · exact Or.inr (Or.inl h)
          · exact Or.inr (Or.inr ⟨rfl, h⟩)
        · rw [if_pos hr1, if_neg hr2] at hv'; cases hv'
      · rw [if_neg hr1] at hv'; cases hv'
    · have hdot : s.contains 46 = false := by simpa using hdot
      rw [effFmt_ts_nodot hdot] at hv hok hl
      obtain ⟨y1, y2, y3, y4, m1, m2, d1, d2, tm, rfl, hd8, hl⟩ := layout_ts_gen.1 hl
      obtain ⟨h1, h2, n1, n2, s1, s2, r, rfl, hd, hr⟩ := layout_hms_gen.1 hl
      rw [layout_nil] at hr; subst hr
      have hv' := hv
      unfold fmtTimestamp at hv'
      rw [ts_headFull hd8, show ([Dir.H, .lit 58, .M, .lit 58, .S] : List Dir) = fmtHMS from rfl,
        hms_headFull hd] at hv'
      by_cases hr1 : (inRng .m m1 m2 && inRng .d d1 d2) = true
      · by_cases hr2 : (inRng .H h1 h2 && inRng .M n1 n2 && inRng .S s1 s2) = true
        · rw [if_pos hr1, if_pos hr2] at hv'
          injection hv' with hv'; subst hv'
          have := rng_iff.1 hr2
          have := mdrng_iff.1 hr1
          rw [dtOk_iff] at hok
          simp [assign, fmtTimestamp, DateTime.effYear] at hok
          exact ⟨y1, y2, y3, y4, m1, m2, d1, d2, _, rfl, hd8, ⟨by omega, by omega, by omega, by omega, by omega⟩,
            h1, h2, n1, n2, s1, s2, _, rfl, hd, by omega, by omega, by omega, Or.inl rfl⟩
        · rw [if_pos hr1, if_neg hr2] at hv'; cases hv'
      · rw [if_neg hr1] at hv'; cases hv'
  · rintro ⟨y1, y2, y3, y4, m1, m2, d1, d2, tm, rfl, hd8, ⟨c1, c2, c3, c4, c5⟩,
      h1, h2, n1, n2, s1, s2, fr, rfl, hd, b1, b2, b3, hfr⟩
    have hy := four_le hd8.1 hd8.2.1 hd8.2.2.1 hd8.2.2.2.1
    have hdm := daysInMonth_le (four y1 y2 y3 y4) (two m1 m2)
    have hr1 : (inRng .m m1 m2 && inRng .d d1 d2) = true := mdrng_iff.2 ⟨⟨c2, c3⟩, c4, by omega⟩
    have hr2 : (inRng .H h1 h2 && inRng .M n1 n2 && inRng .S s1 s2) = true := rng_iff.2 ⟨b1, b2, by omega⟩
    rcases hfr with rfl | hfr
    · have hnd : (y1 :: y2 :: y3 :: y4 :: m1 :: m2 :: d1 :: d2 :: 45 ::
          [h1, h2, 58, n1, n2, 58, s1, s2]).contains 46 = false := by
        rw [d8_no_dot hd8]; exact hms_no_dot hd
      rw [effFmt_ts_nodot hnd]
      refine ⟨⟨[four y1 y2 y3 y4, two m1 m2, two d1 d2, 0, two h1 h2, 0, two n1 n2, 0, two s1 s2], ?_, ?_⟩,
        layout_ts_gen.2 ⟨_, _, _, _, _, _, _, _, _, rfl, hd8,
        layout_hms_gen.2 ⟨_, _, _, _, _, _, _, rfl, hd, layout_nil.2 rfl⟩⟩⟩
      · unfold fmtTimestamp
        rw [ts_headFull hd8, show ([Dir.H, .lit 58, .M, .lit 58, .S] : List Dir) = fmtHMS from rfl,
          hms_headFull hd, if_pos hr1, if_pos hr2]
        rfl
      · rw [dtOk_iff]
        simp [assign, fmtTimestamp, DateTime.effYear]
        omega
    · have h36 : Is3 fr ∨ Is6 fr := by
        rcases hfr with h | ⟨-, h⟩
        · exact Or.inl h
        · exact Or.inr h
      obtain ⟨fr', rfl⟩ := is3_or_6_head h36
      obtain ⟨fv, hf, hfv⟩ := frac_headFull h36
      have hdot : (y1 :: y2 :: y3 :: y4 :: m1 :: m2 :: d1 :: d2 :: 45 ::
          h1 :: h2 :: 58 :: n1 :: n2 :: 58 :: s1 :: s2 :: 46 :: fr').contains 46 = true := by
        rw [d8_no_dot hd8]; simp
      rw [effFmt_ts_dot hdot]
      refine ⟨⟨[four y1 y2 y3 y4, two m1 m2, two d1 d2, 0, two h1 h2, 0, two n1 n2, 0, two s1 s2, 0, fv], ?_, ?_⟩,
        layout_ts_gen.2 ⟨_, _, _, _, _, _, _, _, _, rfl, hd8,
        layout_hms_gen.2 ⟨_, _, _, _, _, _, _, rfl, hd, layout_dotf.2 h36⟩⟩⟩
      · unfold fmtTimestampF fmtTimestamp
        simp only [List.cons_append, List.nil_append]
        rw [ts_headFull hd8, show ([Dir.H, .lit 58, .M, .lit 58, .S, .lit 46, .f] : List Dir) = fmtHMSf from rfl,
          hmsf_headFull hd hf, if_pos hr1, if_pos hr2]
        rfl
      · rw [dtOk_iff]
        simp [assign, fmtTimestampF, fmtTimestamp, DateTime.effYear]
        omega

/-! ### the SPEC side -/

theorem isDashTime_iff {w : Str} : LexSpec.isDashTime w = true ↔ ∃ tm, w = 45 :: tm ∧ TimeShape 60 false tm := by
  constructor
  · intro h
    unfold LexSpec.isDashTime at h
    split at h
    · rename_i r
      exact ⟨r, rfl, (isTimeOnly_shape r).1 h⟩
    · cases h
  · rintro ⟨tm, rfl, h⟩
    simp only [LexSpec.isDashTime]
    exact (isTimeOnly_shape tm).2 h

/-- the FIX UTCTimestamp lexical space as a shape -/
theorem isTimestamp_shape (s : Str) : LexSpec.isTimestamp s = true ↔ StampShape 0 60 false s := by
  unfold LexSpec.isTimestamp
  rw [Bool.and_eq_true, isDate_iff, isDashTime_iff]
  constructor
  · rintro ⟨⟨y1, y2, y3, y4, m1, m2, d1, d2, he, h1, h2, h3, h4, h5, h6, h7, h8, c2, c3, c4, c5⟩, tm, hd, ht⟩
    refine ⟨y1, y2, y3, y4, m1, m2, d1, d2, tm, ?_, ⟨h1, h2, h3, h4, h5, h6, h7, h8⟩,
      ⟨Nat.zero_le _, c2, c3, c4, c5⟩, ht⟩
    have := List.take_append_drop 8 s
    rw [he, hd] at this
    exact this.symm
  · rintro ⟨y1, y2, y3, y4, m1, m2, d1, d2, tm, rfl, ⟨h1, h2, h3, h4, h5, h6, h7, h8⟩, ⟨-, c2, c3, c4, c5⟩, ht⟩
    exact ⟨⟨y1, y2, y3, y4, m1, m2, d1, d2, by simp, h1, h2, h3, h4, h5, h6, h7, h8, c2, c3, c4, c5⟩,
      tm, by simp, ht⟩

theorem year0000_shape {y1 y2 y3 y4 : Nat} {r : Str} (h1 : isAsciiDigit y1 = true) (h2 : isAsciiDigit y2 = true)
    (h3 : isAsciiDigit y3 = true) (h4 : isAsciiDigit y4 = true) :
    year0000 (y1 :: y2 :: y3 :: y4 :: r) = true ↔ four y1 y2 y3 y4 = 0 := by
  rw [four_eq_zero h1 h2 h3 h4]
  simp [year0000]

/-- UTCTimestamp: accepted = (a FIX timestamp with year ≠ 0000 and second ≠ 60) or (six fraction digits) -/
theorem timestamp_pass_iff (cfg : Cfg) (s : Str) :
    validateDatetime s fmtTimestamp = .pass ↔
      (LexSpec.isTimestamp s = true ∧ (year0000 s || second60 (s.drop 9)) = false) ∨
        deviation cfg .timestamp s = true := by
  rw [ts_pass_shape]
  show _ ↔ _ ∨ sixFractionDigits cfg .timestamp LexSpec.isTimestamp 17 s = true
  simp only [sixFractionDigits, narrow, Bool.and_eq_true, decide_eq_true_eq, Bool.not_eq_true',
    isTimestamp_shape, Bool.or_eq_false_iff]
  constructor
  · rintro ⟨y1, y2, y3, y4, m1, m2, d1, d2, tm, rfl, hd8, ⟨c1, c2, c3, c4, c5⟩, ht⟩
    have hy : ∀ r, year0000 (y1 :: y2 :: y3 :: y4 :: r) = false := by
      intro r
      cases h : year0000 (y1 :: y2 :: y3 :: y4 :: r)
      · rfl
      · have := (year0000_shape hd8.1 hd8.2.1 hd8.2.2.1 hd8.2.2.2.1).1 h; omega
    rcases (timeShape_split tm).1 ht with ⟨ht', hs⟩ | ⟨hlen, hsh, hs, hdig⟩
    · exact Or.inl ⟨⟨y1, y2, y3, y4, m1, m2, d1, d2, tm, rfl, hd8, ⟨Nat.zero_le _, c2, c3, c4, c5⟩, ht'⟩,
        hy _, by simpa using hs⟩
    · refine Or.inr ⟨⟨⟨by simp; omega, ?_⟩, ?_, ?_⟩, by simpa using hdig⟩
      · exact ⟨y1, y2, y3, y4, m1, m2, d1, d2, tm.take 12, by simp, hd8, ⟨Nat.zero_le _, c2, c3, c4, c5⟩, hsh⟩
      · simpa using hy _
      · simpa using hs
  · rintro (⟨⟨y1, y2, y3, y4, m1, m2, d1, d2, tm, rfl, hd8, ⟨-, c2, c3, c4, c5⟩, ht⟩, hy, hs⟩ |
      ⟨⟨⟨hlen, y1, y2, y3, y4, m1, m2, d1, d2, tm', he, hd8, ⟨-, c2, c3, c4, c5⟩, ht⟩, hy, hs⟩, hdig⟩)
    · have c1 : 1 ≤ four y1 y2 y3 y4 := by
        have := (year0000_shape (r := m1 :: m2 :: d1 :: d2 :: 45 :: tm) hd8.1 hd8.2.1 hd8.2.2.1 hd8.2.2.2.1)
        rw [hy] at this
        have : four y1 y2 y3 y4 ≠ 0 := fun h => by cases this.2 h
        omega
      refine ⟨y1, y2, y3, y4, m1, m2, d1, d2, tm, rfl, hd8, ⟨c1, c2, c3, c4, c5⟩,
        (timeShape_split tm).2 (Or.inl ⟨ht, by simpa using hs⟩)⟩
    · rw [he] at hy hs
      have c1 : 1 ≤ four y1 y2 y3 y4 := by
        have := (year0000_shape (r := m1 :: m2 :: d1 :: d2 :: 45 :: tm') hd8.1 hd8.2.1 hd8.2.2.1 hd8.2.2.2.1)
        rw [hy] at this
        have : four y1 y2 y3 y4 ≠ 0 := fun h => by cases this.2 h
        omega
      have hsplit := List.take_append_drop 21 s
      rw [he] at hsplit
      have hl21 : (s.take 21).length = 21 := by simp [List.length_take]; omega
      rw [he] at hl21
      have hl' : tm'.length = 12 := by simp at hl21; omega
      have hdl : (s.drop 21).length = 3 := by simp [List.length_drop]; omega
      refine ⟨y1, y2, y3, y4, m1, m2, d1, d2, tm' ++ s.drop 21, by simpa using hsplit.symm, hd8,
        ⟨c1, c2, c3, c4, c5⟩, (timeShape_split _).2 (Or.inr ⟨by simp; omega, ?_, ?_, ?_⟩)⟩
      · rw [List.take_left' hl']; exact ht
      · rw [List.take_left' hl']; simpa using hs
      · rw [List.drop_left' hl']; exact hdig

end AsyncFix.Lemmas.LexTimestamp
