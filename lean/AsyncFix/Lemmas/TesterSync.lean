import AsyncFix.Lemmas.TesterOps

/-!
C20 helper lemmas: `AccEq` (tester's acceptor vs a real one: equal except for the outbound half of the
journal) and `Sync` (an established, synchronised pair), and how the closed forms preserve them.
-/
namespace AsyncFix.Tester
open AsyncFix.Session AsyncFix.Generated AsyncFix.Generated.ConnEnum

/-- equal except for `journal.out` / `journal.outSeq` -/
structure AccEq (t l : Conn) : Prop where
  state : t.state = l.state
  role : t.role = l.role
  was : t.wasActive = l.wasActive
  sess : t.sess = l.sess
  maxResend : t.maxResend = l.maxResend
  req : t.testReqId = l.testReqId
  last : t.lastTime = l.lastTime
  hb : t.hb = l.hb
  sock : t.sock = l.sock
  inb : t.journal.inb = l.journal.inb
  inSeq : t.journal.inSeq = l.journal.inSeq

theorem AccEq.frame {t l : Conn} (h : AccEq t l) (env : Env) (m : Msg) : sentFrame t env m = sentFrame l env m := by
  simp [sentFrame, h.sess]

theorem jIn_inb (c : Conn) (f : Msg) :
    (jIn c f).inb = ((c.journal.inb.insert c.sess.nextIn f).getD c.journal.inb) ∧
    (jIn c f).inSeq = (if (c.journal.inb.insert c.sess.nextIn f).isSome then c.sess.nextIn else c.journal.inSeq) ∧
    (jIn c f).out = c.journal.out ∧ (jIn c f).outSeq = c.journal.outSeq := by
  unfold jIn Journal.persist
  cases c.journal.inb.insert c.sess.nextIn f <;> simp

theorem jOut_inb (c : Conn) (env : Env) (m : Msg) :
    (jOut c env m).inb = c.journal.inb ∧ (jOut c env m).inSeq = c.journal.inSeq := by
  unfold jOut Journal.persist
  cases c.journal.out.insert c.sess.nextOut (sentFrame c env m) <;> simp

theorem accEq_afterIn {t l : Conn} (h : AccEq t l) (env : Env) (f : Msg) : AccEq (afterIn t env f) (afterIn l env f) := by
  refine ⟨h.state, h.role, h.was, by simp [afterIn, h.sess], h.maxResend, h.req, rfl, h.hb, h.sock, ?_, ?_⟩
  · simp [afterIn, (jIn_inb t f).1, (jIn_inb l f).1, h.inb, h.sess]
  · simp [afterIn, (jIn_inb t f).2.1, (jIn_inb l f).2.1, h.inb, h.sess, h.inSeq]

theorem accEq_afterSend {t l : Conn} (h : AccEq t l) (env : Env) (m : Msg) :
    AccEq (afterSend t env m) (afterSend l env m) := by
  refine ⟨h.state, h.role, h.was, by simp [afterSend, h.sess], h.maxResend, h.req, h.last, h.hb, h.sock, ?_, ?_⟩
  · simp [afterSend, (jOut_inb t env m).1, (jOut_inb l env m).1, h.inb]
  · simp [afterSend, (jOut_inb t env m).2, (jOut_inb l env m).2, h.inSeq]

/-- what `reply` leaves behind vs what `send_msg` leaves behind -/
theorem accEq_reply {t l : Conn} (h : AccEq t l) (env : Env) (m : Msg) : AccEq (afterReply t) (afterSend l env m) := by
  refine ⟨h.state, h.role, h.was, by simp [afterReply, afterSend, h.sess], h.maxResend, h.req, h.last, h.hb, h.sock, ?_, ?_⟩
  · simp [afterReply, afterSend, (jOut_inb l env m).1, h.inb]
  · simp [afterReply, afterSend, (jOut_inb l env m).2, h.inSeq]

theorem jfresh_afterReply {c : Conn} (h : JFresh c) : JFresh (afterReply c) :=
  ⟨fun p hp => by have := h.out p hp; show p.1 < c.sess.nextOut + 1; omega, h.inb⟩

theorem est_afterReply {c : Conn} (h : Est c) : Est (afterReply c) :=
  ⟨h.st, h.was, h.sock, h.noreq, h.posIn, jfresh_afterReply h.fresh, h.latinS, h.latinT⟩

/-- an established, synchronised pair -/
structure Sync (ci ca : Conn) : Prop where
  i : Est ci
  a : Est ca
  peer : Peer ci ca

theorem peer_send_in {a b : Conn} (h : Peer a b) (env : Env) (m f : Msg) : Peer (afterSend a env m) (afterIn b env f) :=
  ⟨h.st, h.ts, by show b.sess.nextIn + 1 = a.sess.nextOut + 1; rw [h.oi], h.io⟩

theorem peer_in_send {a b : Conn} (h : Peer a b) (env : Env) (m f : Msg) : Peer (afterIn a env f) (afterSend b env m) :=
  (peer_send_in h.symm env m f).symm

theorem peer_in_reply {a b : Conn} (h : Peer a b) (env : Env) (f : Msg) : Peer (afterIn a env f) (afterReply b) :=
  ⟨h.st, h.ts, h.oi, by show a.sess.nextIn + 1 = b.sess.nextOut + 1; rw [h.io]⟩

end AsyncFix.Tester
