/-
MonthYear: `%Y%m` on six digits and the week-code branch of `_validate_value_monthyear`.
-/
import AsyncFix.Lemmas.LexDate
namespace AsyncFix.Lemmas.LexMonthYear
open AsyncFix.Py AsyncFix.Lemmas.LexTok AsyncFix.Lemmas.LexSeq AsyncFix.Lemmas.LexLayout
open AsyncFix.Lemmas.LexDate
open AsyncFix.Model AsyncFix.Model.Lexical AsyncFix.Model.LexClass

theorem daysInMonth_pos (y m : Nat) : 1 ≤ daysInMonth y m := by
  unfold daysInMonth; split <;> split <;> omega

theorem ym_core {y1 y2 y3 y4 m1 m2 : Nat}
    (hy1 : isAsciiDigit y1 = true) (hy2 : isAsciiDigit y2 = true) (hy3 : isAsciiDigit y3 = true)
    (hy4 : isAsciiDigit y4 = true) (hm1 : isAsciiDigit m1 = true) (hm2 : isAsciiDigit m2 = true) :
    (∃ vals, headFull (matchSeq fmtYm [y1, y2, y3, y4, m1, m2]) = some vals ∧
        dtOk (assign fmtYm vals {}) = true) ↔
      (1 ≤ four y1 y2 y3 y4 ∧ 1 ≤ two m1 m2 ∧ two m1 m2 ≤ 12) := by
  have hy := four_le hy1 hy2 hy3 hy4
  have hd := daysInMonth_pos (four y1 y2 y3 y4) (two m1 m2)
  unfold fmtYm
  rw [matchSeq_Y _ _ hy1 hy2 hy3 hy4, headFull_ext, headFull_num_end (D := .m) rfl hm1 hm2]
  by_cases hr : inRng .m m1 m2 = true
  · simp only [hr, ↓reduceIte, Option.map_some, Option.some.injEq, exists_eq_left', dtOk_iff]
    simp only [inRng_iff, lo, hi] at hr
    simp [assign, DateTime.effYear]
    omega
  · simp only [hr, Bool.false_eq_true, ↓reduceIte, Option.map_none, reduceCtorEq, false_and, exists_false,
      false_iff]
    simp only [inRng_iff, lo, hi] at hr
    omega

theorem layout_ym {s : Str} : layoutMatch fmtYm s = true ↔
    ∃ y1 y2 y3 y4 m1 m2, s = [y1, y2, y3, y4, m1, m2] ∧
      isAsciiDigit y1 = true ∧ isAsciiDigit y2 = true ∧ isAsciiDigit y3 = true ∧ isAsciiDigit y4 = true ∧
      isAsciiDigit m1 = true ∧ isAsciiDigit m2 = true := by
  unfold fmtYm
  constructor
  · intro h
    obtain ⟨y1, y2, y3, y4, r, rfl, h1, h2, h3, h4, h⟩ := layout_Y.1 h
    obtain ⟨m1, m2, r, rfl, h5, h6, h⟩ := (layout_num (D := .m) rfl).1 h
    rw [layout_nil] at h; subst h
    exact ⟨y1, y2, y3, y4, m1, m2, rfl, h1, h2, h3, h4, h5, h6⟩
  · rintro ⟨y1, y2, y3, y4, m1, m2, rfl, h1, h2, h3, h4, h5, h6⟩
    exact layout_Y.2 ⟨_, _, _, _, _, rfl, h1, h2, h3, h4,
      (layout_num (D := .m) rfl).2 ⟨_, _, _, rfl, h5, h6, layout_nil.2 rfl⟩⟩

/-- `%Y%m`: accepted = YYYYMM with a month 01..12 and a year other than 0000 -/
theorem ym_pass_iff (s : Str) :
    validateDatetime s fmtYm = .pass ↔ LexSpec.isYearMonth s = true ∧ year0000 s = false := by
  rw [validateDatetime_pass_iff, effFmt_ym, isYearMonth_iff]
  constructor
  · rintro ⟨hm, hl⟩
    obtain ⟨y1, y2, y3, y4, m1, m2, rfl, h1, h2, h3, h4, h5, h6⟩ := layout_ym.1 hl
    obtain ⟨hy, ha, hb⟩ := (ym_core h1 h2 h3 h4 h5 h6).1 hm
    refine ⟨⟨_, _, _, _, _, _, rfl, h1, h2, h3, h4, h5, h6, ha, hb⟩, ?_⟩
    have := four_eq_zero h1 h2 h3 h4
    simp [year0000]
    omega
  · rintro ⟨⟨y1, y2, y3, y4, m1, m2, rfl, h1, h2, h3, h4, h5, h6, ha, hb⟩, hy⟩
    refine ⟨(ym_core h1 h2 h3 h4 h5 h6).2 ⟨?_, ha, hb⟩,
      layout_ym.2 ⟨_, _, _, _, _, _, rfl, h1, h2, h3, h4, h5, h6⟩⟩
    have := four_eq_zero h1 h2 h3 h4
    simp [year0000] at hy
    omega

theorem digit_ne_w {c : Nat} (h : isAsciiDigit c = true) : c ≠ 119 := by
  have := digit_iff.1 h; omega

theorem isYearMonth_facts {s : Str} (h : LexSpec.isYearMonth s = true) :
    s.length = 6 ∧ s.contains 119 = false := by
  obtain ⟨y1, y2, y3, y4, m1, m2, rfl, h1, h2, h3, h4, h5, h6, _⟩ := isYearMonth_iff.1 h
  have := digit_ne_w h1; have := digit_ne_w h2; have := digit_ne_w h3
  have := digit_ne_w h4; have := digit_ne_w h5; have := digit_ne_w h6
  simp; omega

theorem isDate_facts {s : Str} (h : LexSpec.isDate s = true) :
    s.length = 8 ∧ s.contains 119 = false := by
  obtain ⟨y1, y2, y3, y4, m1, m2, d1, d2, rfl, h1, h2, h3, h4, h5, h6, h7, h8, _⟩ := isDate_iff.1 h
  have := digit_ne_w h1; have := digit_ne_w h2; have := digit_ne_w h3; have := digit_ne_w h4
  have := digit_ne_w h5; have := digit_ne_w h6; have := digit_ne_w h7; have := digit_ne_w h8
  simp; omega

/-- the SPEC's week-code test is membership in the code's set of week codes -/
theorem weekMatch_eq (w : Str) : LexSpec.isWeekCode w = weekCodes.contains w := by
  unfold LexSpec.isWeekCode
  rcases w with _ | ⟨a, _ | ⟨b, _ | ⟨c, t⟩⟩⟩
  · rfl
  · simp [weekCodes]
  · by_cases ha : a = 119
    · subst ha
      rw [Bool.eq_iff_iff]
      simp [weekCodes]
      omega
    · split
      · rename_i n heq
        simp at heq
        exact absurd heq.1 ha
      · simp [weekCodes, ha]
  · simp [weekCodes]

theorem weekCodes_facts {w : Str} (h : weekCodes.contains w = true) : w.length = 2 ∧ w.head? = some 119 := by
  simp [weekCodes] at h
  rcases h with rfl | rfl | rfl | rfl | rfl <;> exact ⟨rfl, rfl⟩

theorem not_isYearMonth_of_w {s : Str} (hw : s.contains 119 = true) : LexSpec.isYearMonth s = false := by
  cases h : LexSpec.isYearMonth s
  · rfl
  · have := (isYearMonth_facts h).2
    rw [hw] at this; cases this

theorem not_isDate_of_w {s : Str} (hw : s.contains 119 = true) : LexSpec.isDate s = false := by
  cases h : LexSpec.isDate s
  · rfl
  · have := (isDate_facts h).2
    rw [hw] at this; cases this

/-- MonthYear: accepted = YYYYMM | YYYYMMDD | YYYYMMwN with a year other than 0000 -/
theorem monthYear_pass_iff (s : Str) :
    validateMonthYear s = .pass ↔ LexSpec.isMonthYear s = true ∧ year0000 s = false := by
  unfold validateMonthYear LexSpec.isMonthYear
  rw [weekMatch_eq]
  by_cases hw : s.contains 119 = true
  · rw [if_pos hw, not_isYearMonth_of_w hw, not_isDate_of_w hw]
    simp only [Bool.false_or, Bool.and_eq_true]
    by_cases hwk : weekCodes.contains (s.drop (s.length - 2)) = true
    · have hk := (weekCodes_facts hwk).1
      simp only [List.length_drop] at hk
      by_cases hv : (s.take (s.length - 2)).length = 6
      · have hlen : s.length = 8 := by
          simp only [List.length_take] at hv; omega
        have e2 : s.length - 2 = 6 := by omega
        rw [e2] at hwk hv ⊢
        simp only [hwk, Bool.not_true, Bool.false_eq_true, ↓reduceIte, hv, ne_eq, not_true_eq_false]
        rw [ym_pass_iff]
        have : year0000 (s.take 6) = year0000 s := by
          simp [year0000, List.take_take]
        rw [this]
        simp
      · simp only [hwk, Bool.not_true, Bool.false_eq_true, ↓reduceIte, ne_eq, hv, not_false_eq_true,
          reduceCtorEq, false_iff]
        rintro ⟨⟨h1, h2⟩, -⟩
        have := (weekCodes_facts h2).1
        simp only [List.length_drop] at this
        have e2 : s.length - 2 = 6 := by omega
        rw [e2] at hv
        simp only [List.length_take] at hv
        omega
    · simp only [hwk, Bool.not_false, ↓reduceIte, reduceCtorEq, false_iff]
      rintro ⟨⟨h1, h2⟩, -⟩
      have := (weekCodes_facts h2).1
      simp only [List.length_drop] at this
      have e2 : s.length - 2 = 6 := by omega
      rw [e2] at hwk
      exact hwk h2
  · rw [if_neg hw]
    have h3 : weekCodes.contains (s.drop 6) = false := by
      cases h : weekCodes.contains (s.drop 6)
      · rfl
      · exfalso
        apply hw
        have := (weekCodes_facts h).2
        have hm : (119 : Nat) ∈ s.drop 6 := by
          cases hd : s.drop 6 with
          | nil => rw [hd] at this; cases this
          | cons a r => rw [hd] at this; simp at this; subst this; simp
        simpa using List.mem_of_mem_drop hm
    rw [h3]
    simp only [Bool.and_false, Bool.or_false]
    by_cases hl : s.length = 6
    · rw [if_pos hl, ym_pass_iff]
      have : LexSpec.isDate s = false := by
        cases h : LexSpec.isDate s
        · rfl
        · have := (isDate_facts h).1; omega
      rw [this]; simp
    · rw [if_neg hl, date_pass_iff]
      have : LexSpec.isYearMonth s = false := by
        cases h : LexSpec.isYearMonth s
        · rfl
        · have := (isYearMonth_facts h).1; omega
      rw [this]; simp

end AsyncFix.Lemmas.LexMonthYear
