import AsyncFix.Lemmas.SchedInv

/-!
Sched family: Hoare-style specification `MSpec x` of the code that runs INSIDE one segment
(`M` computations, no await): started under `J`, `x` relates its start and end by `Seg` (a pending
exception counted as `raised ex`).  Rules for the monad operations, a tactic `spec_tac`, and the
specifications of the await-free handlers: `stateSet`, `sendCore` (for a new message – the heart of
C14: allocate, journal under the allocated number, write, all in one segment), `setSeqNum` on the
inbound side, `processSeqreset`, `validateIntegrity`, `setNextNumIn`, `persistInbound`.
-/
namespace AsyncFix.Sched

open AsyncFix.Session AsyncFix.Generated AsyncFix.Generated.ConnEnum

structure MSpec {α : Type} (inb : Bool) (x : M α) : Prop where
  out : ∀ c, J c → Seg inb c (x c).conn ((x c).eff ++ pend (x c).res)

/-- exception kinds that are neither of the two C14 counts -/
def benign (ex : Exc) : Bool := ex != .duplicateSeqNo && ex != .attribute

theorem seg_raise {i : Bool} {c : Conn} (hJ : J c) {ex : Exc} (h : benign ex = true) : Seg i c c [.raised ex] := by
  refine Seg.of_same hJ (OutSame.refl c) rfl ?_ ?_ <;> cases ex <;> simp_all [benign, lost, dupErr]

namespace MSpec
variable {α β : Type} {i : Bool}

theorem weaken {x : M α} (h : MSpec false x) : MSpec i x := ⟨fun c hJ => (h.out c hJ).weaken i⟩

theorem pure (a : α) : MSpec i (Pure.pure a : M α) := ⟨fun c hJ => Seg.refl hJ⟩
theorem get : MSpec i M.get := ⟨fun c hJ => Seg.refl hJ⟩

theorem throw {ex : Exc} (h : benign ex = true := by rfl) : MSpec i (M.throw ex : M α) :=
  ⟨fun c hJ => seg_raise hJ h⟩

theorem liftE {x : Except Exc α} (h : ∀ ex, x = .error ex → benign ex = true) : MSpec i (M.liftE x) := by
  constructor
  intro c hJ
  cases x with
  | ok a => exact Seg.refl hJ
  | error ex => exact seg_raise hJ (h ex rfl)

theorem liftE_get (m : Msg) (t : Nat) : MSpec i (M.liftE (m.get t)) := by
  apply liftE
  intro ex h
  unfold Msg.get at h
  split at h
  · cases h
  · cases h; rfl

theorem assert (b : Bool) : MSpec i (M.assert b) := by
  constructor
  intro c hJ
  rw [M.assert_apply]
  split
  · exact Seg.refl hJ
  · exact seg_raise hJ rfl

theorem int (s : String) : MSpec i (M.int s) := by
  constructor
  intro c hJ
  rw [M.int_apply]
  split
  · exact Seg.refl hJ
  · exact seg_raise hJ rfl

theorem bind {x : M α} {f : α → M β} (hx : MSpec i x) (hf : ∀ a, MSpec i (f a)) : MSpec i (x >>= f) := by
  constructor
  intro c hJ
  have h1 := hx.out c hJ
  rcases hxc : x c with ⟨r, c1, e1⟩
  rw [hxc] at h1
  cases r with
  | error ex => rw [M.bind_err hxc]; exact h1
  | ok a =>
    rw [M.bind_ok hxc]
    simp only [pend, List.append_nil] at h1
    have h2 := (hf a).out c1 h1.inv
    simpa [List.append_assoc] using h1.trans h2

theorem ite {p : Prop} [Decidable p] {a b : M α} (ha : MSpec i a) (hb : MSpec i b) :
    MSpec i (if p then a else b) := by
  split <;> assumption

theorem modify {f : Conn → Conn} (h : ∀ c, OutSame c (f c)) : MSpec i (M.modify f) :=
  ⟨fun c hJ => Seg.of_same hJ (h c) rfl rfl rfl⟩

theorem emit {e : Effect} (h : quiet e = true := by rfl) : MSpec i (M.emit e) :=
  ⟨fun c hJ => Seg.of_same hJ (OutSame.refl c) (writes_quiet h) (lost_quiet h) (dupErr_quiet h i)⟩

/-- `except Exception: log` keeps the spec: the swallowed exception is counted as it would have been -/
theorem swallow {x : M α} (d : α) (hx : MSpec false x) : MSpec i (swallow d x) := by
  constructor
  intro c hJ
  have h1 := hx.out c hJ
  unfold Session.swallow
  rcases hxc : x c with ⟨r, c1, e1⟩
  rw [hxc] at h1
  cases r with
  | ok a => rw [M.tryCatch_ok hxc]; exact h1.weaken i
  | error ex =>
    rw [M.tryCatch_err hxc]
    simp only [pend] at h1
    have : Seg i c c1 (e1 ++ [.caught ex]) := h1.caught_of_raised
    simpa [M.bind_apply, pend] using this

end MSpec

/-- walks a handler body: monad rules, then the lemmas given, then case splits -/
syntax "spec_tac" "[" term,* "]" : tactic
open Lean in
macro_rules
  | `(tactic| spec_tac [$ls,*]) => do
    let user ← ls.getElems.mapM fun l => `(tactic| apply $l)
    let builtin ← #[``MSpec.pure, ``MSpec.throw, ``MSpec.get, ``MSpec.liftE_get, ``MSpec.assert, ``MSpec.int,
        ``MSpec.emit].mapM fun n => `(tactic| apply $(mkIdent n))
    let tail ← #[``MSpec.bind, ``MSpec.ite].mapM fun n => `(tactic| apply $(mkIdent n))
    let all := #[← `(tactic| intro _), ← `(tactic| rfl)] ++ builtin ++ user ++ tail ++ #[← `(tactic| split)]
    `(tactic| repeat' (first $[| $all:tactic]*))

/-- `M.modify` that leaves the outbound side alone (closes the side goal by `rfl`s) -/
theorem MSpec.modify' {i : Bool} {f : Conn → Conn} (h1 : ∀ c, (f c).sess.nextOut = c.sess.nextOut)
    (h2 : ∀ c, (f c).journal.out = c.journal.out) (h3 : ∀ c, (f c).journal.outSeq = c.journal.outSeq) :
    MSpec i (M.modify f) := MSpec.modify fun c => ⟨h1 c, h2 c, h3 c⟩

/-! ### journal rows -/

theorem rows_insert_above {k : Int} {m : Msg} {rows : Rows} (h : ∀ p ∈ rows, p.1 < k) :
    Rows.insert k m rows = some (rows ++ [(k, m)]) := by
  induction rows with
  | nil => rfl
  | cons p r ih =>
    obtain ⟨k', m'⟩ := p
    have hk : k' < k := h (k', m') (by simp)
    have hr := ih fun q hq => h q (by simp [hq])
    simp only [Rows.insert]
    rw [if_neg (by omega), if_neg (by omega), hr]
    rfl

theorem rows_find_append_some {n : Int} {g : Msg} {rows : Rows} (x : Int × Msg)
    (h : Rows.find n rows = some g) : Rows.find n (rows ++ [x]) = some g := by
  induction rows with
  | nil => simp [Rows.find] at h
  | cons p r ih =>
    obtain ⟨k', m'⟩ := p
    simp only [List.cons_append, Rows.find] at h ⊢
    split
    · simpa [*] using h
    · rename_i hne; rw [if_neg hne] at h; exact ih h

theorem rows_find_append_new {k : Int} {m : Msg} {rows : Rows} (h : ∀ p ∈ rows, p.1 < k) :
    Rows.find k (rows ++ [(k, m)]) = some m := by
  induction rows with
  | nil => simp [Rows.find]
  | cons p r ih =>
    obtain ⟨k', m'⟩ := p
    have hk : k' < k := h (k', m') (by simp)
    simp only [List.cons_append, Rows.find]
    rw [if_neg (by omega)]
    exact ih fun q hq => h q (by simp [hq])

theorem rows_below_self {n : Int} {rows : Rows} (h : ∀ p ∈ rows, p.1 < n) : Rows.below n rows = rows := by
  unfold Rows.below
  rw [List.filter_eq_self]
  intro p hp
  simpa using h p hp

/-! ### frames -/

theorem lookup_append (t : Nat) (a b : List (Nat × String)) :
    Msg.lookup t (a ++ b) = (match Msg.lookup t a with | some v => some v | none => Msg.lookup t b) := by
  induction a with
  | nil => rfl
  | cons p r ih =>
    obtain ⟨k, v⟩ := p
    simp only [List.cons_append, Msg.lookup]
    split
    · rfl
    · exact ih

theorem lookup_filter (t : Nat) (q : Nat × String → Bool) (l : List (Nat × String))
    (h : ∀ v, q (t, v) = true) : Msg.lookup t (l.filter q) = Msg.lookup t l := by
  induction l with
  | nil => rfl
  | cons p r ih =>
    obtain ⟨k, v⟩ := p
    by_cases hk : k = t
    · subst hk; simp [List.filter, h v, Msg.lookup]
    · cases hq : q (k, v) <;> simp [List.filter, hq, Msg.lookup, hk, ih]

theorem buildFrame_mtype (s : Session) (stamp : String) (m : Msg) (seq : Int) :
    (buildFrame s stamp m seq).mtype = m.mtype := rfl

theorem buildFrame_seq (s : Session) (stamp : String) (m : Msg) (seq : Int) :
    seqOf (buildFrame s stamp m seq) = some seq := by
  have : (buildFrame s stamp m seq).get? tMsgSeqNum = some (pyStr seq) := by
    simp [buildFrame, bodyFields, Msg.get?, Msg.lookup, tMsgSeqNum, tBeginString, tBodyLength, tMsgType,
      tSenderCompID, tTargetCompID]
  simp [seqOf, this, int_str_roundtrip]

theorem buildFrame_possDup (s : Session) (stamp : String) (m : Msg) (seq : Int) :
    (buildFrame s stamp m seq).get? tPossDupFlag = m.get? tPossDupFlag := by
  simp only [buildFrame, bodyFields, Msg.get?]
  rw [lookup_append, lookup_append]
  have h1 : Msg.lookup tPossDupFlag [(tBeginString, Proto.beginString),
      (tBodyLength, toString ((List.map fieldLen ([(tSenderCompID, s.sender), (tTargetCompID, s.target),
        (tMsgSeqNum, pyStr seq), (tSendingTime, stamp)] ++ m.tags.filter fun p =>
          p.1 ≠ tMsgSeqNum && p.1 ≠ tSendingTime && p.1 ≠ tSenderCompID && p.1 ≠ tTargetCompID)).sum
            + fieldLen (tMsgType, m.mtype))), (tMsgType, m.mtype)] = none := by
    simp [Msg.lookup, tPossDupFlag, tBeginString, tBodyLength, tMsgType]
  rw [h1]
  simp only
  rw [lookup_append]
  have h2 : Msg.lookup tPossDupFlag [(tSenderCompID, s.sender), (tTargetCompID, s.target),
      (tMsgSeqNum, pyStr seq), (tSendingTime, stamp)] = none := by
    simp [Msg.lookup, tPossDupFlag, tSenderCompID, tTargetCompID, tMsgSeqNum, tSendingTime]
  rw [h2]
  simp only
  rw [lookup_filter _ _ _ (by intro v; simp [tPossDupFlag, tMsgSeqNum, tSendingTime, tSenderCompID, tTargetCompID])]
  cases Msg.lookup tPossDupFlag m.tags with
  | some v => rfl
  | none => simp [Msg.lookup, tPossDupFlag, tCheckSum]

theorem buildFrame_isNew (s : Session) (stamp : String) (m : Msg) (seq : Int) :
    isNew (buildFrame s stamp m seq) = isNew m := by
  simp [isNew, buildFrame_mtype, buildFrame_possDup]

end AsyncFix.Sched
