/-
Decidable projections of `DecRes` (which has no `DecidableEq`), so that concrete
evaluations of the model can be checked by the kernel (`decide +kernel`) and turned
into statements about `decode … = …`.
-/
import AsyncFix.Model.Codec.Decode
namespace AsyncFix.Model.Codec

/-- `(consumed, raw bytes)` of a returned message -/
def DecRes.msgOf : DecRes → Option (Nat × Bytes)
  | .msg _ n e => some (n, e)
  | _ => Option.none

/-- consumed length of a "no message" result -/
def DecRes.noneOf : DecRes → Option Nat
  | .none n => some n
  | _ => Option.none

theorem DecRes.of_msgOf {r : DecRes} {n : Nat} {e : Bytes} (h : r.msgOf = some (n, e)) :
    ∃ m, r = .msg m n e := by
  cases r with
  | msg m n' e' => simp only [DecRes.msgOf, Option.some.injEq, Prod.mk.injEq] at h; exact ⟨m, by rw [h.1, h.2]⟩
  | none _ => cases h
  | raised _ => cases h

theorem DecRes.of_noneOf {r : DecRes} {n : Nat} (h : r.noneOf = some n) : r = .none n := by
  cases r with
  | msg _ _ _ => cases h
  | none n' => simp only [DecRes.noneOf, Option.some.injEq] at h; rw [h]
  | raised _ => cases h

/-- `"FIX.4.4"` -/
def bs44 : Bytes := [70, 73, 88, 46, 52, 46, 52]

end AsyncFix.Model.Codec
