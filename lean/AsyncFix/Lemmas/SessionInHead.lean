import AsyncFix.Lemmas.SessionInCore

/-!
C04 helper: `_process_message` up to the dispatch (`processHead`), the dispatch, and the whole of
`_process_message`.
-/
namespace AsyncFix.Session
open AsyncFix.Generated AsyncFix.Generated.ConnEnum

/-- nothing delivered -/
def NoDeliver : StepRel where
  R _ _ e := deliveries e = []
  refl _ := rfl
  trans := by
    intro a b c e1 e2 h1 h2
    simp [h1, h2]

theorem Sat.quiet_noDeliver {α} {x : M α} (h : Sat Quiet x) : Sat NoDeliver x := ⟨fun c => (h.out c).2⟩

theorem processSeqreset_noDeliver (m : Msg) : Sat NoDeliver (processSeqreset m) := by
  unfold processSeqreset setSeqNum
  repeat' (first | sat_step | dsimp only)
  all_goals simp [NoDeliver]

theorem processHead_noDeliver (env : Env) (m : Msg) : Sat NoDeliver (processHead env m) := by
  unfold processHead
  repeat' (first
    | with_reducible exact (disconnect_quiet _ _ _).quiet_noDeliver | with_reducible exact (stateSet_quiet _).quiet_noDeliver
    | with_reducible exact (processLogon_quiet _ _).quiet_noDeliver | with_reducible exact (processLogout_quiet _ _).quiet_noDeliver
    | with_reducible exact (checkSeqnumGaps_quiet _ _).quiet_noDeliver | with_reducible exact processSeqreset_noDeliver _
    | sat_step | dsimp only)
  all_goals simp [NoDeliver]

theorem processHead_quiet (env : Env) (m : Msg) (hm : m.mtype ≠ mSequenceReset) :
    Sat Quiet (processHead env m) := by
  unfold processHead
  repeat' (first
    | with_reducible exact disconnect_quiet _ _ _ | with_reducible exact stateSet_quiet _ | with_reducible exact processLogon_quiet _ _
    | with_reducible exact processLogout_quiet _ _ | with_reducible exact checkSeqnumGaps_quiet _ _
    | sat_step | dsimp only)
  all_goals first | (simp [Quiet]; done) | simp_all

/-- what a non-`none` result of `processHead` tells, and what a `none` result leaves behind for a
SequenceReset -/
@[irreducible] def HeadPost (c : Conn) (m : Msg) : Post (Option (Bool × Int)) := fun r c1 _ =>
  (∀ valid n, r = .ok (some (valid, n)) →
      seqOf m = some n ∧ (valid = true ↔ n ≤ c1.sess.nextIn) ∧
      (m.mtype ≠ mLogon → st_LOGON_INITIAL_RECV ≤ c.state) ∧ m.mtype ≠ mLogout ∧
      (m.mtype = mSequenceReset → ∃ nw, newSeqOf m = some nw ∧
        (isGapFill m = true → n = c.sess.nextIn ∧ n < nw) ∧ c1.sess.nextIn = nw)) ∧
  (m.mtype = mSequenceReset →
      c1.sess.nextIn = c.sess.nextIn ∨
      (∃ n nw, seqOf m = some n ∧ newSeqOf m = some nw ∧
        (isGapFill m = true → n = c.sess.nextIn ∧ n < nw) ∧ c1.sess.nextIn = nw))

theorem processHead_path (env : Env) (m : Msg) (c : Conn) :
    Holds (processHead env m) c (HeadPost c m) := by
  unfold processHead stateSet
  wp_simp
  repeat' (first
    | apply Holds.of_sat' (disconnect_quiet _ _ _)
    | apply Holds.of_sat' (processLogon_quiet _ _)
    | apply Holds.of_spec (processSeqreset_spec _ _)
    | apply Holds.of_spec ((processLogout_state _ _ _).and (Sat.holds (processLogout_quiet _ _) _))
    | apply Holds.of_spec ((checkSeqnumGaps_spec _ _ _).and (Sat.holds (checkSeqnumGaps_quiet _ _) _))
    | intro _ | apply And.intro | wp_simp)
  all_goals (simp_all [HeadPost, Quiet, seqOf, mLogon, mLogout, mSequenceReset, st_LOGON_INITIAL_RECV, st_NETWORK_CONN_ESTABLISHED, st_LOGON_INITIAL_SENT, st_DISCONNECTED_BROKEN_CONN])
  all_goals first | omega | grind

end AsyncFix.Session
