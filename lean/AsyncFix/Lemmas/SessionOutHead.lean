import AsyncFix.Lemmas.SessionOutHandlers2

/-!
C05: the first part of `_process_message` (`processHead`), restated in pieces (`processHead_eq`)
and its Hoare triple: when it hands a number on to the dispatch, the connection is live.
`M` is a lawful monad (used to prove restatements equal to the model's definitions).
-/
namespace AsyncFix.Session

open AsyncFix.Generated AsyncFix.Generated.ConnEnum

variable {sr : Msg → Bool} {U X : Prop} {α : Type}

theorem M.id_map' {α} (x : M α) : id <$> x = x := by
  funext c
  show (x >>= fun a => pure (id a)) c = x c
  rw [run_bind]
  rcases x c with ⟨r, c1, e1⟩
  cases r <;> simp [run_pure]

instance : LawfulMonad M := LawfulMonad.mk'
  (id_map := M.id_map')
  (pure_bind := fun a f => by funext c; exact run_bind_pure a f c)
  (bind_assoc := fun x f g => run_bind_assoc x f g)

theorem ite_bind' {α β} (p : Prop) [Decidable p] (x y : M α) (f : α → M β) :
    ((if p then x else y) >>= f) = if p then x >>= f else y >>= f := run_bind_ite p x y f

/-- `_process_message` l.844-849: the final gap check -/
def headTail (env : Env) (m : Msg) : M (Option (Bool × Int)) := do
  let c2 ← M.get
  if c2.state ≤ st_DISCONNECTED_BROKEN_CONN then pure none
  else do
    let v ← M.liftE (m.get tMsgSeqNum)
    let n ← M.int v
    let valid ← checkSeqnumGaps env n
    pure (some (valid, n))

/-- l.835-842: Logon / SequenceReset / Logout pre-processing; `true` = early return -/
def headStop2 (env : Env) (m : Msg) : M Bool := do
  if m.mtype == mLogon then do processLogon env m; pure false
  else if m.mtype == mSequenceReset then do
    let ok ← processSeqreset m
    if !ok then do
      let v ← M.liftE (m.get tMsgSeqNum)
      let n ← M.int v
      let _ ← checkSeqnumGaps env n
      pure true
    else pure false
  else if m.mtype == mLogout then do processLogout env m; pure false
  else pure false

def headMid (env : Env) (m : Msg) : M (Option (Bool × Int)) := do
  let c1 ← M.get
  if c1.state == st_LOGON_INITIAL_SENT && m.mtype != mLogon && m.mtype != mLogout then do
    disconnect env st_DISCONNECTED_BROKEN_CONN none
    pure none
  else do
    let stop2 ← headStop2 env m
    if stop2 then pure none
    else headTail env m

def headStop1 (env : Env) (m : Msg) (c : Conn) : M Bool :=
  if c.state == st_NETWORK_CONN_ESTABLISHED then
    if m.mtype != mLogon then do
      disconnect env st_DISCONNECTED_BROKEN_CONN none
      pure true
    else do
      stateSet st_LOGON_INITIAL_RECV
      M.modify fun c => { c with role := roleAcceptor }
      pure false
  else pure false

def processHead' (env : Env) (m : Msg) : M (Option (Bool × Int)) := do
  let c ← M.get
  M.assert (decide (c.state ≥ st_NETWORK_CONN_ESTABLISHED))
  let stop1 ← headStop1 env m c
  if stop1 then pure none
  else headMid env m

theorem processHead_eq (env : Env) (m : Msg) : processHead env m = processHead' env m := by
  unfold processHead processHead' headStop1 headMid headStop2 headTail
  simp only [bind_assoc, pure_bind, ite_bind']

theorem headTail_hold (env : Env) (m : Msg) (c : Conn) (hI : OutInv c) :
    Hold sr U X c (headTail env m) (fun r c' => r.isSome = true → Live c') := by
  unfold headTail
  hstep; hstep
  · exact Hold.pure hI (by simp)
  · rename_i hl
    hstep; hstep
    refine Hold.seq (checkSeqnumGaps_hold env _ c hI (by unfold Live; omega)) ?_
    intro valid c1 hI1 hl1
    exact Hold.pure hI1 (fun _ => hl1)

theorem headStop2_hold (env : Env) (m : Msg) (c : Conn) (hI : OutInv c) (hl : Live c) :
    Hold sr U X c (headStop2 env m) (fun _ _ => True) := by
  unfold headStop2
  repeat' hstep
  · exact Hold.seq (processLogon_hold env m c hI hl) (fun _ c1 hI1 _ => Hold.pure hI1 trivial)
  · refine Hold.seq (processSeqreset_hold m c hI) ?_
    intro ok c1 hI1 h1
    have hl1 : Live c1 := by unfold Live; rw [h1]; exact hl
    repeat' hstep
    exact Hold.seq (checkSeqnumGaps_hold env _ c1 hI1 hl1) (fun _ c2 hI2 _ => Hold.pure hI2 trivial)
  · exact Hold.seq (processLogout_hold env m c hI) (fun _ c1 hI1 _ => Hold.pure hI1 trivial)

theorem headMid_hold (env : Env) (m : Msg) (c : Conn) (hI : OutInv c) (hl : Live c) :
    Hold sr U X c (headMid env m) (fun r c' => r.isSome = true → Live c') := by
  unfold headMid
  hstep; hstep
  · exact Hold.seq (disconnect_hold env _ none c hI) (fun _ c1 hI1 _ => Hold.pure hI1 (by simp))
  · refine Hold.seq (headStop2_hold env m c hI hl) ?_
    intro stop2 c1 hI1 _
    hstep
    · exact Hold.pure hI1 (by simp)
    · exact headTail_hold env m c1 hI1

theorem headStop1_hold (env : Env) (m : Msg) (c : Conn) (hI : OutInv c)
    (h6 : st_NETWORK_CONN_ESTABLISHED ≤ c.state) :
    Hold sr U X c (headStop1 env m c) (fun stop c' => stop = false → Live c') := by
  have hl : Live c := Nat.lt_of_lt_of_le (by decide) h6
  unfold headStop1
  hstep
  · hstep
    · exact Hold.seq (disconnect_hold env _ none c hI) (fun _ c1 hI1 _ => Hold.pure hI1 (by simp))
    · refine Hold.seq (stateSet_hold _ c hI (fun _ => hI.sock hl)) ?_
      intro _ c1 hI1 h1
      have hl1 : Live c1 := by unfold Live; rw [h1.1]; decide
      apply Hold.bind_modify hI1 ⟨⟨rfl, rfl, rfl⟩, rfl, rfl⟩ hI1.sock; intro hI2
      exact Hold.pure hI2 (fun _ => hl1)
  · exact Hold.pure hI (fun _ => hl)

/-- `_process_message` up to the gap check: `some _` is only returned from a live connection -/
theorem processHead_hold (env : Env) (m : Msg) (c : Conn) (hI : OutInv c) :
    Hold sr U X c (processHead env m) (fun r c' => r.isSome = true → Live c') := by
  rw [processHead_eq]
  unfold processHead'
  hstep; hstep
  rename_i h6
  refine Hold.seq (headStop1_hold env m c hI (by simpa using h6)) ?_
  intro stop1 c1 hI1 h1
  hstep
  · exact Hold.pure hI1 (by simp)
  · rename_i hs
    exact headMid_hold env m c1 hI1 (h1 (by simpa using hs))

end AsyncFix.Session
