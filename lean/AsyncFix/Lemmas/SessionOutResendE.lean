import AsyncFix.Lemmas.SessionOutResendD

/-!
C05, resend servicing, part E: the step relation `Good` holds across `_process_resend`
(`processResend_hold`).  `OutInv`, numbering and counter: for EVERY ResendRequest.  Journal slots
(`Slot`): when the request is not bounded (`U → e = sys.maxsize`).
-/
namespace AsyncFix.Session

open AsyncFix.Generated AsyncFix.Generated.ConnEnum

variable {sr : Msg → Bool} {U X : Prop}

theorem Except.bind_ok_iff {ε α β : Type} (x : Except ε α) (f : α → Except ε β) (b : β) :
    (x >>= f) = .ok b ↔ ∃ a, x = .ok a ∧ f a = .ok b := by
  cases x with
  | error e => simp [bind, Except.bind]
  | ok a => simp [bind, Except.bind]

theorem Msg.set_mtype {m m' : Msg} {t : Nat} {v : String} {r : Bool} (h : m.set t v r = .ok m') :
    m'.mtype = m.mtype := by
  unfold Msg.set at h
  split at h
  · split at h
    · cases h; rfl
    · cases h
  · cases h; rfl

theorem Msg.del_mtype {m m' : Msg} {t : Nat} (h : m.del t = .ok m') : m'.mtype = m.mtype := by
  unfold Msg.del at h
  split at h
  · cases h; rfl
  · cases h

theorem prepareReplay_mtype {g rp : Msg} (h : prepareReplay g = .ok rp) : rp.mtype = g.mtype := by
  unfold prepareReplay at h
  simp only [Except.bind_ok_iff] at h
  obtain ⟨r1, h1, h2⟩ := h
  have dels : ∀ r2 : Msg, (do
      let r ← r2.del tMsgType
      let r ← r.del tBeginString
      let r ← r.del tBodyLength
      let r ← r.del tSendingTime
      let r ← r.del tSenderCompID
      let r ← r.del tTargetCompID
      r.del tCheckSum) = Except.ok rp → rp.mtype = r2.mtype := by
    intro r2 hd
    simp only [Except.bind_ok_iff] at hd
    obtain ⟨r3, h3, r4, h4, r5, h5, r6, h6, r7, h7, r8, h8, h9⟩ := hd
    rw [Msg.del_mtype h9, Msg.del_mtype h8, Msg.del_mtype h7, Msg.del_mtype h6, Msg.del_mtype h5,
      Msg.del_mtype h4, Msg.del_mtype h3]
  split at h2
  · simp only [Except.bind_ok_iff] at h2
    obtain ⟨r2, hp, hd⟩ := h2
    cases hp
    rw [dels r1 (by simpa only [Except.bind_ok_iff] using hd), Msg.set_mtype h1]
  · simp only [Except.bind_ok_iff] at h2
    obtain ⟨st, _, r2, hs, hd⟩ := h2
    rw [dels r2 (by simpa only [Except.bind_ok_iff] using hd), Msg.set_mtype hs, Msg.set_mtype h1]

theorem Copy.mtype {snd tgt : String} {f g : Msg} (h : Copy snd tgt f g) : g.mtype = f.mtype := by
  induction h with
  | refl => rfl
  | resent stamp rp n _ hrp ih => rw [buildFrame_mtype, prepareReplay_mtype hrp, ih]

theorem not_replayable_of_seqReset {sr : Msg → Bool} {g : Msg} (h : g.mtype = mSequenceReset) :
    ¬ Replayable sr g := by
  unfold Replayable
  have : ConnEnum.noReplay.contains mSequenceReset = true := by decide
  rw [h, this]
  simp

/-- a frame whose journal copy is not retransmitted is `Declined` -/
theorem declined_of_not_replayable {sr : Msg → Bool} {snd tgt : String} {f g : Msg}
    (hc : Copy snd tgt f g) (h : ¬ Replayable sr g) : Declined sr snd tgt f := by
  unfold Replayable at h
  cases hn : ConnEnum.noReplay.contains g.mtype with
  | true => left; rw [← hc.mtype]; exact hn
  | false =>
    right
    refine ⟨g, hc, ?_⟩
    cases hs : sr g with
    | false => rfl
    | true => exact absurd (by rw [hn, hs]; rfl) h

theorem slot_after_resend (env : Env) {c c' : Conn} {b e : Int} {es : List Effect} (hI : OutInv c)
    (R : ResendOut env sr c c' b e es) (hall : ∀ p ∈ c.journal.out, p.1 ≤ e)
    (k : Int) (f : Msg) (hs : Slot sr c k f) : Slot sr c' k f := by
  unfold Slot at hs ⊢
  rw [R.sender, R.target]
  by_cases hk : k < b
  · rw [R.below k hk]; exact hs
  · have hkb : b ≤ k := by omega
    have huniq : ∀ g2, (k, g2) ∈ Rows.range b e c.journal.out → Rows.find k c.journal.out = some g2 :=
      fun g2 h2 => Rows.find_of_mem hI.sorted (Rows.mem_range.mp h2).1
    cases hfc : Rows.find k c.journal.out with
    | none =>
      rw [hfc] at hs
      cases hf' : Rows.find k c'.journal.out with
      | none => exact hs
      | some g' =>
        rcases R.above k g' hkb hf' with h4 | ⟨g2, rp, hm, _, _, _⟩
        · exact Or.inr ⟨h4, hs⟩
        · have := huniq g2 hm; rw [hfc] at this; cases this
    | some g =>
      rw [hfc] at hs
      have hmem : (k, g) ∈ Rows.range b e c.journal.out :=
        Rows.mem_range.mpr ⟨Rows.find_mem hfc, hkb, hall _ (Rows.find_mem hfc)⟩
      by_cases hrep : Replayable sr g
      · have hcopy : Copy c.sess.sender c.sess.target f g := by
          rcases hs with h | ⟨h4, _⟩
          · exact h
          · exact absurd hrep (not_replayable_of_seqReset h4)
        obtain ⟨rp, hrp, hfind⟩ := R.copies (k, g) hmem hrep
        rw [hfind]
        left
        rw [buildFrame_sess]
        exact Copy.resent env.stamp rp k hcopy hrp
      · have hdecl : Declined sr c.sess.sender c.sess.target f := by
          rcases hs with h | ⟨_, h⟩
          · exact declined_of_not_replayable h hrep
          · exact h
        cases hf' : Rows.find k c'.journal.out with
        | none => exact hdecl
        | some g' =>
          rcases R.above k g' hkb hf' with h4 | ⟨g2, rp, hm, hr2, _, _⟩
          · exact Or.inr ⟨h4, hdecl⟩
          · have := huniq g2 hm; rw [hfc] at this; cases this
            exact absurd hr2 hrep

/-- the servicing proper satisfies the step relation -/
theorem resendCore_hold (env : Env) (c : Conn) (b e : Int) (hI : OutInv c)
    (hst : st_LOGON_INITIAL_SENT < c.state) (hstamp : isLatin1 env.stamp = true)
    (hb : 1 ≤ b) (hbc : b < c.sess.nextOut) (hU : U → e = sysMaxsize) (hX : ¬ X) :
    Hold sr U X c (resendCore env sr b (c.journal.recoverOut b e) c.sess.nextOut)
      (fun _ _ => True) := by
  obtain ⟨c', es, heq, R⟩ := resendCore_run env sr c b e hI hst hstamp hb hbc
  have hlive : st_DISCONNECTED_BROKEN_CONN < c.state :=
    Nat.lt_trans (by decide : st_DISCONNECTED_BROKEN_CONN < st_LOGON_INITIAL_SENT) hst
  unfold Hold
  rw [heq]
  refine ⟨?_, fun _ _ => trivial⟩
  refine {
    inv := ⟨by rw [R.outSeq, R.nextOut]; omega, fun p hp => by rw [R.nextOut]; exact R.rows p hp,
      R.sorted, by rw [R.sender, R.target]; exact hI.latin,
      fun _ => by rw [R.sock]; exact hI.sock hlive⟩
    ids := ⟨R.sender, R.target⟩
    num := by rw [R.noNew]; trivial
    cnt := by rw [R.noNew, R.nextOut]; simp
    keepSlot := ?_
    freshSlot := by intro _ _ f hf; rw [R.noNew] at hf; cases hf
    keepRow := fun h => absurd h hX
    freshRow := fun h => absurd h hX }
  intro hu hB k f _ hs
  have he := hU hu
  refine slot_after_resend env hI R ?_ k f hs
  intro p hp
  have := (hI.rows p hp).2
  rw [R.nextOut] at hB
  rw [he]; omega

/-- **`_process_resend`** -/
theorem processResend_hold (env : Env) (m : Msg) (c : Conn) (hI : OutInv c)
    (hl : Live c) (hstamp : isLatin1 env.stamp = true)
    (hU : U → (m.get? tEndSeqNo).bind pyInt = some 0) (hX : ¬ X) :
    Hold sr U X c (processResend env sr m) (fun _ _ => True) := by
  rw [processResend_eq]
  unfold processResend'
  have tailIgnored : ∀ c1 : Conn, OutInv c1 → Live c1 → Hold sr U X c1
      (if c1.state != st_RESENDREQ_AWAITING then stateSet st_ACTIVE else pure ()) (fun _ _ => True) := by
    intro c1 hI1 hl1
    hstep
    · exact (stateSet_hold _ c1 hI1 (fun _ => hI1.sock hl1)).true_of
    · exact Hold.pure hI1 trivial
  have main : ∀ c1 : Conn, OutInv c1 → Live c1 → Hold sr U X c1 (do
      M.assert (m.mtype == mResendRequest)
      let c ← M.get
      M.assert (c.state == st_RESENDREQ_HANDLING || c.state == st_RESENDREQ_AWAITING)
      let vb ← M.liftE (m.get tBeginSeqNo)
      let b ← M.int vb
      let ve ← M.liftE (m.get tEndSeqNo)
      let e0 ← M.int ve
      if b < 1 || b ≥ c.sess.nextOut then
        if c.state != st_RESENDREQ_AWAITING then stateSet st_ACTIVE else pure ()
      else
        resendCore env sr b (c.journal.recoverOut b (if e0 == 0 then sysMaxsize else e0))
          c.sess.nextOut) (fun _ _ => True) := by
    intro c1 hI1 hl1
    hstep; hstep; hstep
    rename_i hstate
    hstep; hstep; hstep
    rename_i ve hve
    hstep
    rename_i e0 he0
    hstep
    · exact tailIgnored c1 hI1 hl1
    · rename_i b _ hrange
      have hst : st_LOGON_INITIAL_SENT < c1.state := by
        simp only [Bool.or_eq_true, beq_iff_eq] at hstate
        rcases hstate with h | h <;> (rw [h]; decide)
      simp only [Bool.or_eq_true, decide_eq_true_eq, not_or] at hrange
      refine resendCore_hold env c1 b _ hI1 hst hstamp (by omega) (by omega) ?_ hX
      intro hu
      have h0 := hU hu
      have hget : m.get? tEndSeqNo = some ve := by
        simp only [Msg.get] at hve
        cases hx : m.get? tEndSeqNo with
        | none => rw [hx] at hve; cases hve
        | some w => rw [hx] at hve; cases hve; rfl
      rw [hget] at h0
      simp only [Option.bind_some] at h0
      rw [he0] at h0
      cases h0
      rfl
  hstep
  hstep
  · refine Hold.seq (stateSet_hold _ c hI (fun _ => hI.sock hl)) ?_
    intro _ c1 hI1 h1
    exact main c1 hI1 (by unfold Live; rw [h1.1]; decide)
  · exact Hold.bind_pure (main c hI hl)

end AsyncFix.Session
