/-
C03, part 2: `partialMarkerKeep` facts and a factored form of `decode`
(`decode_eq`): marker search, provisional cut (`cutOf`), field split (`fieldsOf`),
header guards (`hdr`), body (`decodeBody`).  The factored form is proved equal to the
model text; the transfer lemmas at the end say how the result depends on the two
numbers `len(rawmsg)` and `valid_idx` only.
-/
import AsyncFix.Lemmas.CodecReaderBasic
namespace AsyncFix.Model.Codec

/-! ### `partialMarkerKeep` -/

theorem pmk_spec (raw : Bytes) :
    partialMarkerKeep raw ≤ 5 ∧ partialMarkerKeep raw ≤ raw.length ∧
      raw.drop (raw.length - partialMarkerKeep raw) = marker.take (partialMarkerKeep raw) := by
  unfold partialMarkerKeep
  simp only [Bool.and_eq_true, decide_eq_true_eq, beq_iff_eq]
  repeat' split
  all_goals simp_all

theorem pmk_ge {raw : Bytes} {k : Nat} (hk : k ≤ 5) (hl : k ≤ raw.length)
    (hd : raw.drop (raw.length - k) = marker.take k) : k ≤ partialMarkerKeep raw := by
  unfold partialMarkerKeep
  simp only [Bool.and_eq_true, decide_eq_true_eq, beq_iff_eq]
  have hk' : k = 0 ∨ k = 1 ∨ k = 2 ∨ k = 3 ∨ k = 4 ∨ k = 5 := by omega
  repeat' split
  all_goals first | omega | (rcases hk' with rfl | rfl | rfl | rfl | rfl | rfl <;> simp_all)

/-! ### factored `decode` -/

/-- end of the first complete `SOH 10=…SOH` field, if there is one -/
def closedAtOf (msg : Bytes) : Option Nat :=
  match findSub cksumPat msg with
  | some ci => (match findChar SOH (msg.drop (ci + 1)) with
      | some e => some (e + (ci + 1) + 1)
      | none => none)
  | none => none

/-- the cut `next_msg` computed on the part of the buffer that starts at the marker -/
def cutOf (msg : Bytes) : Nat :=
  let nextMsg0 := match findSub marker (msg.drop 5) with
    | some i => i + 5
    | none => msg.length
  (closedAtOf msg).getD nextMsg0

/-- `SOH 10=` has been seen but its terminating SOH has not arrived: `decode` waits -/
def waitCk (msg : Bytes) : Bool := (findSub cksumPat msg).isSome && (closedAtOf msg).isNone

/-- consumed length reported when the cut has fewer than three fields -/
def fewOf (validIdx : Nat) (msg : Bytes) : Nat :=
  if (closedAtOf msg).isSome then validIdx + cutOf msg else validIdx

/-- `msg[:next_msg].split(SOH)` without a trailing empty piece -/
def fieldsOf (encoded : Bytes) : List Bytes :=
  let fields0 := splitOn SOH encoded
  if fields0.getLast?.getD [] == [] then fields0.dropLast else fields0

/-- outcome of the BeginString / BodyLength guards on the first two fields -/
inductive Hdr
  | raise
  | bad
  | ok (msgLength : Nat)

def hdr (bs f0 f1 : Bytes) : Hdr :=
  match splitEq f0 with
  | none => .raise
  | some (_, v0) =>
    if v0 != bs then .bad else
    match splitEq f1 with
    | none => .bad
    | some (t1, v1) =>
      if t1 != tag9 then .bad else
      match pyInt v1 with
      | none => .bad
      | some bl => if bl < 0 then .bad else .ok (f0.length + f1.length + 6 + 3 + bl.toNat)

/-- the part of `decode` after the length guard -/
def decodeBody (tbl : Tbl) (rawLen validIdx msgLength : Nat) (encoded : Bytes) (fields : List Bytes) : DecRes :=
  if msgLength > rawLen - validIdx then .none validIdx else
  let parsed := validIdx + msgLength
  let ckExpected := (sum (join SOH fields.dropLast) + 1) % 256
  match fieldLoop tbl ckExpected {} fields with
  | .error k => .raised k
  | .ok none => .none rawLen
  | .ok (some s) =>
    if s.ckPassed then .msg { mtype := s.mtype, body := s.top } parsed encoded
    else .none parsed

/-- `decode` after the marker was found at `validIdx` and the cut was made -/
def decodeTail (bs : Bytes) (tbl : Tbl) (rawLen validIdx few : Nat) (encoded : Bytes) : DecRes :=
  let fields := fieldsOf encoded
  if fields.length < 3 then .none few else
  match fields with
  | f0 :: f1 :: _ =>
    match hdr bs f0 f1 with
    | .raise => .raised .valueError
    | .bad => .none rawLen
    | .ok ml => decodeBody tbl rawLen validIdx ml encoded fields
  | _ => .none validIdx

/-- verbatim copy of the model text after `fields` is computed -/
def decodeFields (bs : Bytes) (tbl : Tbl) (rawLen validIdx few : Nat) (encoded : Bytes) (fields : List Bytes) : DecRes :=
    if fields.length < 3 then .none few else
    match fields with
    | f0 :: f1 :: _ =>
      match splitEq f0 with
      | none => .raised .valueError
      | some (_, v0) =>
        if v0 != bs then .none rawLen else
        match splitEq f1 with
        | none => .none rawLen
        | some (t1, v1) =>
          if t1 != tag9 then .none rawLen else
          match pyInt v1 with
          | none => .none rawLen
          | some bl =>
            if bl < 0 then .none rawLen else
            let msgLength := f0.length + f1.length + 6 + 3 + bl.toNat
            if msgLength > rawLen - validIdx then .none validIdx else
            let parsed := validIdx + msgLength
            let ckExpected := (sum (join SOH fields.dropLast) + 1) % 256
            match fieldLoop tbl ckExpected {} fields with
            | .error k => .raised k
            | .ok none => .none rawLen
            | .ok (some s) =>
              if s.ckPassed then .msg { mtype := s.mtype, body := s.top } parsed encoded
              else .none parsed
    | _ => .none validIdx

theorem decode_eq0 (bs : Bytes) (tbl : Tbl) (raw : Bytes) :
    decode bs tbl raw =
      match findSub marker raw with
      | none => .none (raw.length - partialMarkerKeep raw)
      | some v => if waitCk (raw.drop v) then .none v else
          decodeFields bs tbl raw.length v (fewOf v (raw.drop v)) ((raw.drop v).take (cutOf (raw.drop v)))
          (fieldsOf ((raw.drop v).take (cutOf (raw.drop v)))) := by
  cases h : findSub marker raw with
  | none => simp only [decode, h]
  | some v => simp only [decode, h]; rfl

theorem decodeFields_eq (bs : Bytes) (tbl : Tbl) (rawLen v few : Nat) (enc : Bytes) :
    decodeFields bs tbl rawLen v few enc (fieldsOf enc) = decodeTail bs tbl rawLen v few enc := by
  unfold decodeTail
  generalize fieldsOf enc = fields
  unfold decodeFields
  simp only []
  split
  · rfl
  · match fields with
    | [] => rfl
    | [_] => rfl
    | f0 :: f1 :: r =>
      simp only [hdr, decodeBody]
      repeat' split
      all_goals first | (simp_all; done) | (simp_all; omega) | omega

theorem decode_eq (bs : Bytes) (tbl : Tbl) (raw : Bytes) :
    decode bs tbl raw =
      match findSub marker raw with
      | none => .none (raw.length - partialMarkerKeep raw)
      | some v => if waitCk (raw.drop v) then .none v else
          decodeTail bs tbl raw.length v (fewOf v (raw.drop v)) ((raw.drop v).take (cutOf (raw.drop v))) := by
  rw [decode_eq0]
  cases findSub marker raw with
  | none => rfl
  | some v => simp only [decodeFields_eq]


/-! ### transfer lemmas -/

/-- a frame that decodes in one buffer decodes to the same message in any buffer that holds at
least as many bytes after the marker -/
theorem decodeTail_msg_inv {bs : Bytes} {tbl : Tbl} {L v few : Nat} {enc : Bytes} {m : Msg} {n : Nat} {raw : Bytes}
    (h : decodeTail bs tbl L v few enc = .msg m n raw) :
    ∃ f0 f1 r ml, fieldsOf enc = f0 :: f1 :: r ∧ 3 ≤ (fieldsOf enc).length ∧ hdr bs f0 f1 = .ok ml ∧
      ml ≤ L - v ∧ n = v + ml ∧ raw = enc ∧
      ∀ L' v' few', ml ≤ L' - v' → decodeTail bs tbl L' v' few' enc = .msg m (v' + ml) enc := by
  unfold decodeTail at h
  simp only [] at h
  split at h
  · cases h
  · rename_i hlen
    split at h
    · rename_i f0 f1 r hf
      split at h
      · cases h
      · cases h
      · rename_i ml hh
        refine ⟨f0, f1, r, ml, hf, by omega, hh, ?_⟩
        unfold decodeBody at h
        split at h
        · cases h
        · rename_i hml
          simp only [] at h
          split at h
          · cases h
          · cases h
          · rename_i s hs
            split at h
            · rename_i hck
              simp only [DecRes.msg.injEq] at h
              obtain ⟨hm, hn, hr⟩ := h
              refine ⟨by omega, hn.symm, hr.symm, ?_⟩
              intro L' v' few' hml'
              unfold decodeTail
              simp only [hf, hh]
              rw [hf] at hlen
              simp only [hlen, if_false]
              unfold decodeBody
              have : ¬ ml > L' - v' := by omega
              rw [hf] at hs
              simp only [this, if_false, hs, hck, if_true, hm]
            · cases h
    · cases h

/-- same first two fields, but fewer bytes than the header announces: wait at the marker -/
theorem decodeTail_short {bs : Bytes} {tbl : Tbl} {L v few : Nat} {enc : Bytes} {f0 f1 : Bytes} {r : List Bytes}
    {ml : Nat} (hf : fieldsOf enc = f0 :: f1 :: r) (hh : hdr bs f0 f1 = .ok ml) (hlt : L - v < ml)
    (h3 : 3 ≤ (fieldsOf enc).length) :
    decodeTail bs tbl L v few enc = .none v := by
  unfold decodeTail
  rw [hf] at h3
  simp only [hf, hh]
  split
  · omega
  · unfold decodeBody
    have : ml > L - v := hlt
    simp only [this, if_true]

theorem decodeTail_few {bs : Bytes} {tbl : Tbl} {L v few : Nat} {enc : Bytes}
    (hf : (fieldsOf enc).length < 3) : decodeTail bs tbl L v few enc = .none few := by
  unfold decodeTail
  simp only [hf, if_true]

/-! ### fields of a prefix -/

theorem take2_dropLast {α : Type} (l : List α) (h : 3 ≤ l.length) : l.dropLast.take 2 = l.take 2 := by
  rw [List.dropLast_eq_take, List.take_take]
  congr 1
  omega

theorem fieldsOf_take2 (x : Bytes) (h : 3 ≤ (fieldsOf x).length) :
    (fieldsOf x).take 2 = (splitOn SOH x).take 2 := by
  unfold fieldsOf at *
  simp only [] at *
  split at h
  · rename_i hc
    simp only [hc, if_true]
    rw [take2_dropLast]
    simp only [List.length_dropLast] at h
    omega
  · rename_i hc
    simp only [hc]
    rfl

/-- a prefix of a frame either has fewer than three fields or the frame's first two fields -/
theorem fieldsOf_prefix {e f : Bytes} (hp : e <+: f) (he : 3 ≤ (fieldsOf e).length)
    (hf : 3 ≤ (fieldsOf f).length) : (fieldsOf e).take 2 = (fieldsOf f).take 2 := by
  rw [fieldsOf_take2 e he, fieldsOf_take2 f hf]
  obtain ⟨l, hl, hpre⟩ := splitOn_prefix SOH hp
  have hlen : 3 ≤ (splitOn SOH e).length := by
    unfold fieldsOf at he
    simp only [] at he
    split at he
    · simp only [List.length_dropLast] at he; omega
    · exact he
  rw [← take2_dropLast _ hlen]
  rw [List.prefix_iff_eq_take] at hpre
  rw [hpre, List.take_take]
  congr 1
  simp only [List.length_dropLast]
  omega

end AsyncFix.Model.Codec
