import AsyncFix.Lemmas.RestartMessage

/-!
Restart family: `_finalize_message` – the live inbound counter moves (`set_next_num_in`), then the frame
is journaled under its own MsgSeqNum.  For an ordinary frame both agree afterwards; for a SequenceReset
the stored counter is the frame's MsgSeqNum, the live one its NewSeqNo (`lagBy`).
-/
set_option linter.unusedSectionVars false

namespace AsyncFix.Restart

open AsyncFix.Session AsyncFix.Generated AsyncFix.Generated.ConnEnum

variable {g : List Effect → Bool} [EffGuard g]

/-! ### pointwise descriptions -/

theorem get_ok_get? {m : Msg} {t : Nat} {v : String} (h : m.get t = .ok v) : m.get? t = some v := by
  unfold Msg.get at h
  split at h
  · rename_i w hw; cases h; exact hw
  · cases h

theorem setNextNumIn_ok {m : Msg} {c c1 : Conn} {n : Int} {e1 : List Effect}
    (h : setNextNumIn m c = ⟨.ok n, c1, e1⟩) :
    e1 = [] ∧
    ((m.mtype = mSequenceReset ∧
        ((n = 0 ∧ c1 = c) ∨
         (∃ nw, newSeqOf m = some nw ∧ n = nw - 1 ∧
            c1 = { c with sess := { c.sess with nextIn := nw - 1 + 1 } })))
     ∨ (m.mtype ≠ mSequenceReset ∧
        ((n ≤ 0 ∧ c1 = c) ∨
         (seqOf m = some n ∧ n = c.sess.nextIn ∧ c1 = { c with sess := { c.sess with nextIn := n + 1 } })))) := by
  unfold setNextNumIn at h
  simp only [M.get_bind_apply, M.ite_apply] at h
  split at h
  · rename_i h4
    have h4' : m.mtype = mSequenceReset := by simpa using h4
    split at h
    · cases h; exact ⟨rfl, Or.inl ⟨h4', Or.inl ⟨rfl, rfl⟩⟩⟩
    · cases hw : m.get tNewSeqNo with
      | error ex => rw [hw, M.liftE_error_bind_apply] at h; cases h
      | ok w =>
        rw [hw, M.liftE_ok_bind_apply] at h
        cases hn : pyInt w with
        | none => rw [M.int_none_bind_apply hn] at h; cases h
        | some nw =>
          rw [M.int_some_bind_apply hn, M.modify_bind_apply] at h
          cases h
          refine ⟨rfl, Or.inl ⟨h4', Or.inr ⟨nw, ?_, rfl, rfl⟩⟩⟩
          unfold newSeqOf; rw [get_ok_get? hw]; exact hn
  · rename_i h4
    have h4' : m.mtype ≠ mSequenceReset := by simpa using h4
    split at h
    · cases h; exact ⟨rfl, Or.inr ⟨h4', Or.inl ⟨Int.le_refl _, rfl⟩⟩⟩
    · cases hv : m.get tMsgSeqNum with
      | error ex => rw [hv, M.liftE_error_bind_apply] at h; cases h
      | ok v =>
        rw [hv, M.liftE_ok_bind_apply] at h
        cases hn : pyInt v with
        | none => rw [M.int_none_bind_apply hn] at h; cases h
        | some k =>
          rw [M.int_some_bind_apply hn] at h
          simp only [M.ite_apply] at h
          split at h
          · cases h; exact ⟨rfl, Or.inr ⟨h4', Or.inl ⟨by omega, rfl⟩⟩⟩
          · rename_i hk
            rw [M.modify_bind_apply] at h
            cases h
            have hk' : n = c.sess.nextIn := by simpa using hk
            refine ⟨rfl, Or.inr ⟨h4', Or.inr ⟨?_, hk', rfl⟩⟩⟩
            unfold seqOf; rw [get_ok_get? hv]; exact hn

theorem rows_insert_find {k : Int} {m : Msg} {rs r : Rows} (h : Rows.insert k m rs = some r) :
    r.find k = some m := by
  induction rs generalizing r with
  | nil => simp only [Rows.insert] at h; cases h; simp [Rows.find]
  | cons x xs ih =>
    obtain ⟨k', m'⟩ := x
    simp only [Rows.insert] at h
    split at h
    · cases h; simp [Rows.find]
    · split at h
      · cases h
      · rename_i hlt hne
        simp only [Option.map_eq_some_iff] at h
        obtain ⟨r', hr', hr⟩ := h
        subst hr
        simp [Rows.find, hne, ih hr']

theorem persist_in_fields {j j' : Journal} {seq : Int} {f : Msg} (h : j.persist .inbound seq f = some j') :
    j'.inSeq = seq ∧ j'.outSeq = j.outSeq ∧ j'.out = j.out ∧ j'.inb.find seq = some f := by
  unfold Journal.persist at h
  simp only [Option.map_eq_some_iff] at h
  obtain ⟨r, hr, hj⟩ := h
  subst hj
  exact ⟨rfl, rfl, rfl, rows_insert_find hr⟩

theorem persistInbound_ok {m : Msg} {c c' : Conn} {e : List Effect}
    (h : persistInbound m c = ⟨.ok (), c', e⟩) :
    e = [] ∧ ∃ seq j, seqOf m = some seq ∧ c.journal.persist .inbound seq m = some j ∧
      c' = { c with journal := j } := by
  unfold persistInbound at h
  cases hv : m.get? tMsgSeqNum with
  | none => simp only [hv, M.throw_bind_apply] at h; cases h
  | some v =>
    cases hn : pyInt v with
    | none => simp only [hv, hn, M.throw_bind_apply] at h; cases h
    | some seq =>
      simp only [hv, hn, pure_bind, M.get_bind_apply] at h
      cases hj : c.journal.persist .inbound seq m with
      | none => simp only [hj, M.throw_apply] at h; cases h
      | some j =>
        simp only [hj, M.modify_apply] at h
        cases h
        exact ⟨rfl, seq, j, by unfold seqOf; rw [hv]; exact hn, hj, rfl⟩

/-! ### the state / timer update between counting and journaling touches nothing the invariant mentions -/

structure Frame (c c' : Conn) (e : List Effect) : Prop where
  sess : c'.sess = c.sess
  journal : c'.journal = c.journal
  hb : c'.hb = c.hb
  nw : NoNewWrites e

instance : Compositional Frame where
  refl := fun _ => ⟨rfl, rfl, rfl, NoNewWrites.nil⟩
  trans := fun h1 h2 => ⟨h2.sess.trans h1.sess, h2.journal.trans h1.journal, h2.hb.trans h1.hb,
    h1.nw.append h2.nw⟩

theorem Frame.modify {f : Conn → Conn}
    (h : ∀ c, (f c).sess = c.sess ∧ (f c).journal = c.journal ∧ (f c).hb = c.hb) : M.Rel Frame (M.modify f) :=
  ⟨fun c => by simp only [M.modify_apply]; exact ⟨(h c).1, (h c).2.1, (h c).2.2, NoNewWrites.nil⟩⟩

theorem stateSet_frame (s : Nat) : M.Rel Frame (stateSet s) := by
  unfold stateSet
  apply M.Rel.bind
  · exact Frame.modify fun _ => ⟨rfl, rfl, rfl⟩
  · intro _; exact ⟨fun _ => ⟨rfl, rfl, rfl, NoNewWrites.single (by intro f h; cases h)⟩⟩

/-- `_finalize_message` between `set_next_num_in` and `persist_msg` -/
def finalizeMid (env : Env) (n : Int) : M Unit := do
  let c ← M.get
  if c.state == st_RESENDREQ_AWAITING then do
    M.assert (decide (c.maxResend > 0))
    if n ≥ c.maxResend then do
      M.modify fun c => { c with maxResend := 0 }
      stateSet st_ACTIVE
    else pure ()
  else pure ()
  let c' ← M.get
  if c'.state > st_DISCONNECTED_BROKEN_CONN then M.modify fun c => { c with lastTime := env.now }
  else pure ()

theorem finalizeMid_frame (env : Env) (n : Int) : M.Rel Frame (finalizeMid env n) := by
  unfold finalizeMid
  rel_tac [stateSet_frame, Frame.modify]
  all_goals exact ⟨rfl, rfl, rfl⟩

theorem finalizeMessage_eq (env : Env) (m : Msg) :
    finalizeMessage env m = (do
      let n ← setNextNumIn m
      if n ≤ 0 then pure ()
      else do
        finalizeMid env n
        persistInbound m) := by
  simp only [finalizeMessage, finalizeMid, bind_assoc, M.ite_bind, pure_bind]


theorem finalize_good (env : Env) (m : Msg) :
    OkSpec g (finalizeMessage env m)
      (fun c _ c' e => P2 m c → 0 < c.sess.nextIn → Good (some m) c c' e) := by
  constructor
  intro c a c' e h _ hp2 hpos
  rw [finalizeMessage_eq] at h
  rcases hs : setNextNumIn m c with ⟨r, c1, e1⟩
  cases r with
  | error ex => rw [M.bind_err hs] at h; cases h
  | ok n =>
    obtain ⟨e2, hF, he⟩ := M.bind_ok_inv hs h
    obtain ⟨he1, hcases⟩ := setNextNumIn_ok hs
    subst he1 he
    rw [M.ite_apply] at hF
    by_cases hn : n ≤ 0
    · rw [if_pos hn] at hF
      cases hF
      rcases hcases with ⟨h4, hA⟩ | ⟨_, hB⟩
      · rcases hA with ⟨_, hc1⟩ | ⟨nw, hnw, _, hc1⟩
        · subst hc1; exact Compositional.refl _
        · have hnw' : nw = c.sess.nextIn := by
            have := hp2 h4; rw [hnw] at this; exact Option.some.inj this
          subst hc1
          refine ⟨id, Int.le_refl _, NewWritesBelow.nil _, Or.inl ⟨?_, rfl, rfl⟩, ⟨rfl, rfl, rfl⟩, ?_⟩
          · show nw - 1 + 1 = c.sess.nextIn; omega
          · intro _; show 0 < nw - 1 + 1; omega
      · rcases hB with ⟨_, hc1⟩ | ⟨_, hk, _⟩
        · subst hc1; exact Compositional.refl _
        · omega
    · rw [if_neg hn] at hF
      rcases hm : finalizeMid env n c1 with ⟨r2, c2, e3⟩
      have hfr := (finalizeMid_frame env n).out c1
      rw [hm] at hfr
      cases r2 with
      | error ex => rw [M.bind_err hm] at hF; cases hF
      | ok u =>
        obtain ⟨e4, hP, he⟩ := M.bind_ok_inv hm hF
        obtain ⟨he4, seq, j, hseq, hj, hc'⟩ := persistInbound_ok hP
        subst he4 he hc'
        obtain ⟨hji, hjo, _, hjf⟩ := persist_in_fields hj
        simp only [List.append_nil]
        rcases hcases with ⟨h4, hA⟩ | ⟨_, hB⟩
        · rcases hA with ⟨hn0, _⟩ | ⟨nw, hnw, hnn, hc1⟩
          · omega
          · subst hc1
            have hs2 : c2.sess = { c.sess with nextIn := nw - 1 + 1 } := hfr.sess
            refine ⟨fun ho => ?_, ?_, hfr.nw.below _, Or.inr (Or.inr ⟨m, rfl, ?_⟩), ⟨?_, ?_, ?_⟩, ?_⟩
            · show j.outSeq + 1 = c2.sess.nextOut
              rw [hjo, hfr.journal, hs2]; exact ho
            · show c.sess.nextOut ≤ c2.sess.nextOut; rw [hs2]; exact Int.le_refl _
            · have hnin : c2.sess.nextIn = nw := by rw [hs2]; show nw - 1 + 1 = nw; omega
              simp only [lagBy, Bool.and_eq_true, beq_iff_eq]
              refine ⟨⟨⟨h4, ?_⟩, ?_⟩, ?_⟩
              · show j.inb.find j.inSeq = some m; rw [hji]; exact hjf
              · show seqOf m = some j.inSeq; rw [hji]; exact hseq
              · show newSeqOf m = some c2.sess.nextIn; rw [hnin]; exact hnw
            · show c2.sess.sender = c.sess.sender; rw [hs2]
            · show c2.sess.target = c.sess.target; rw [hs2]
            · show c2.hb = c.hb; exact hfr.hb
            · intro _; show 0 < c2.sess.nextIn; rw [hs2]; show 0 < nw - 1 + 1; omega
        · rcases hB with ⟨hn0, _⟩ | ⟨hsq, hk, hc1⟩
          · omega
          · subst hc1
            have hs2 : c2.sess = { c.sess with nextIn := n + 1 } := hfr.sess
            have hsn : seq = n := by rw [hsq] at hseq; exact (Option.some.inj hseq).symm
            refine ⟨fun ho => ?_, ?_, hfr.nw.below _, Or.inr (Or.inl ?_), ⟨?_, ?_, ?_⟩, ?_⟩
            · show j.outSeq + 1 = c2.sess.nextOut
              rw [hjo, hfr.journal, hs2]; exact ho
            · show c.sess.nextOut ≤ c2.sess.nextOut; rw [hs2]; exact Int.le_refl _
            · show j.inSeq + 1 = c2.sess.nextIn
              rw [hji, hs2, hsn]
            · show c2.sess.sender = c.sess.sender; rw [hs2]
            · show c2.sess.target = c.sess.target; rw [hs2]
            · show c2.hb = c.hb; exact hfr.hb
            · intro _; show 0 < c2.sess.nextIn; rw [hs2]; show 0 < n + 1; omega

end AsyncFix.Restart
