import AsyncFix.Model.Session

/-!
C04 helper: a small weakest-precondition calculus for the session monad `M`.

`Holds x c Q` – running `x` from connection `c` ends in a result / connection / effect list
satisfying `Q`.  The `holds_*` lemmas push `Holds` through every combinator the handlers use
(`pure`, `bind`, `throw`, `tryCatch`, `get`, `modify`, `emit`, `liftE`, `assert`, `int`, `if`), so
that `simp only [wp]` turns a handler into a plain logical formula; calls that are treated as black
boxes (`disconnect`, `sendMsg`, …) are discharged with `Holds.mono` from their own specifications.

`Sat S x` – `x` satisfies a *step relation* `S` (reflexive, transitive over effect concatenation)
from every connection: closed under all combinators, so whole handlers satisfy it by structure.
-/
namespace AsyncFix.Session

abbrev Post (α : Type) := Except Exc α → Conn → List Effect → Prop

def Holds {α} (x : M α) (c : Conn) (Q : Post α) : Prop := Q (x c).res (x c).conn (x c).eff

theorem Holds.mono {α} {x : M α} {c : Conn} {Q Q' : Post α}
    (h : Holds x c Q) (hq : ∀ r c' e, Q r c' e → Q' r c' e) : Holds x c Q' := hq _ _ _ h

theorem Holds.and {α} {x : M α} {c : Conn} {Q Q' : Post α}
    (h : Holds x c Q) (h' : Holds x c Q') : Holds x c (fun r c' e => Q r c' e ∧ Q' r c' e) := ⟨h, h'⟩

section wp
variable {α β : Type}

@[simp] theorem holds_pure (a : α) (c : Conn) (Q : Post α) :
    Holds (pure a : M α) c Q ↔ Q (.ok a) c [] := Iff.rfl

theorem bind_apply (x : M α) (f : α → M β) (c : Conn) :
    (x >>= f) c =
      match (x c).res with
      | .ok a => ⟨(f a (x c).conn).res, (f a (x c).conn).conn, (x c).eff ++ (f a (x c).conn).eff⟩
      | .error ex => ⟨.error ex, (x c).conn, (x c).eff⟩ := by
  show M.bind' x f c = _
  unfold M.bind'
  rcases h : x c with ⟨r, c1, e1⟩
  cases r <;> rfl

@[simp] theorem holds_bind (x : M α) (f : α → M β) (c : Conn) (Q : Post β) :
    Holds (x >>= f) c Q ↔
      Holds x c (fun r c1 e1 =>
        match r with
        | .ok a => Holds (f a) c1 (fun r2 c2 e2 => Q r2 c2 (e1 ++ e2))
        | .error ex => Q (.error ex) c1 e1) := by
  unfold Holds
  rw [bind_apply]
  cases (x c).res <;> rfl

@[simp] theorem holds_throw (ex : Exc) (c : Conn) (Q : Post α) :
    Holds (M.throw ex : M α) c Q ↔ Q (.error ex) c [] := Iff.rfl

theorem tryCatch_apply (x : M α) (h : Exc → M α) (c : Conn) :
    M.tryCatch x h c =
      match (x c).res with
      | .ok a => ⟨.ok a, (x c).conn, (x c).eff⟩
      | .error ex => ⟨(h ex (x c).conn).res, (h ex (x c).conn).conn, (x c).eff ++ (h ex (x c).conn).eff⟩ := by
  unfold M.tryCatch
  rcases hx : x c with ⟨r, c1, e1⟩
  cases r <;> rfl

@[simp] theorem holds_tryCatch (x : M α) (h : Exc → M α) (c : Conn) (Q : Post α) :
    Holds (M.tryCatch x h) c Q ↔
      Holds x c (fun r c1 e1 =>
        match r with
        | .ok a => Q (.ok a) c1 e1
        | .error ex => Holds (h ex) c1 (fun r2 c2 e2 => Q r2 c2 (e1 ++ e2))) := by
  unfold Holds
  rw [tryCatch_apply]
  cases (x c).res <;> rfl

@[simp] theorem holds_get (c : Conn) (Q : Post Conn) : Holds M.get c Q ↔ Q (.ok c) c [] := Iff.rfl

@[simp] theorem holds_modify (f : Conn → Conn) (c : Conn) (Q : Post Unit) :
    Holds (M.modify f) c Q ↔ Q (.ok ()) (f c) [] := Iff.rfl

@[simp] theorem holds_emit (e : Effect) (c : Conn) (Q : Post Unit) :
    Holds (M.emit e) c Q ↔ Q (.ok ()) c [e] := Iff.rfl

@[simp] theorem holds_liftE (x : Except Exc α) (c : Conn) (Q : Post α) :
    Holds (M.liftE x) c Q ↔ Q x c [] := Iff.rfl

@[simp] theorem holds_ite (p : Prop) [Decidable p] (x y : M α) (c : Conn) (Q : Post α) :
    Holds (if p then x else y) c Q ↔ (p → Holds x c Q) ∧ (¬p → Holds y c Q) := by
  by_cases hp : p <;> simp [hp]

@[simp] theorem holds_assert (b : Bool) (c : Conn) (Q : Post Unit) :
    Holds (M.assert b) c Q ↔ (b = true → Q (.ok ()) c []) ∧ (b = false → Q (.error .assertion) c []) := by
  cases b <;> simp [M.assert, Holds, M.throw] <;> rfl

@[simp] theorem holds_int (s : String) (c : Conn) (Q : Post Int) :
    Holds (M.int s) c Q ↔
      (∀ n, pyInt s = some n → Q (.ok n) c []) ∧ (pyInt s = none → Q (.error .value) c []) := by
  unfold M.int
  cases h : pyInt s <;> simp [Holds, M.throw] <;> rfl

/-- the top-level wrapper: effects of `run` are the effects of the computation plus a final `raised` -/
theorem run_eq (x : M α) (c : Conn) :
    x.run c = ((x c).conn,
      (x c).eff ++ (match (x c).res with | .ok _ => [] | .error ex => [Effect.raised ex])) := by
  unfold M.run
  rcases h : x c with ⟨r, c1, e1⟩
  cases r <;> simp

end wp

/-! ### step relations -/

structure StepRel where
  R : Conn → Conn → List Effect → Prop
  refl : ∀ c, R c c []
  trans : ∀ {a b c e1 e2}, R a b e1 → R b c e2 → R a c (e1 ++ e2)

structure Sat {α} (S : StepRel) (x : M α) : Prop where
  out : ∀ c, S.R c (x c).conn (x c).eff

namespace Sat
variable {α β : Type} {S : StepRel}

theorem holds {x : M α} (h : Sat S x) (c : Conn) : Holds x c (fun _ c' e => S.R c c' e) := h.out c

theorem pure (a : α) : Sat S (Pure.pure a : M α) := ⟨fun c => S.refl c⟩

theorem bind {x : M α} {f : α → M β} (hx : Sat S x) (hf : ∀ a, Sat S (f a)) : Sat S (x >>= f) := by
  refine ⟨fun c => ?_⟩
  rw [bind_apply]
  cases h : (x c).res with
  | ok a => exact S.trans (hx.out c) ((hf a).out _)
  | error ex => exact hx.out c

theorem throw (ex : Exc) : Sat S (M.throw ex : M α) := ⟨fun c => S.refl c⟩

theorem tryCatch {x : M α} {h : Exc → M α} (hx : Sat S x) (hh : ∀ ex, Sat S (h ex)) :
    Sat S (M.tryCatch x h) := by
  refine ⟨fun c => ?_⟩
  rw [tryCatch_apply]
  cases hr : (x c).res with
  | ok a => exact hx.out c
  | error ex => exact S.trans (hx.out c) ((hh ex).out _)

theorem get : Sat S M.get := ⟨fun c => S.refl c⟩
theorem liftE (x : Except Exc α) : Sat S (M.liftE x) := ⟨fun c => S.refl c⟩
theorem modify {f : Conn → Conn} (h : ∀ c, S.R c (f c) []) : Sat S (M.modify f) := ⟨h⟩
theorem emit {e : Effect} (h : ∀ c, S.R c c [e]) : Sat S (M.emit e) := ⟨h⟩

theorem assert (b : Bool) : Sat S (M.assert b) := by
  unfold M.assert
  cases b
  · simpa using throw _
  · simpa using pure _

theorem int (s : String) : Sat S (M.int s) := by
  unfold M.int
  cases pyInt s
  · exact throw _
  · exact pure _

theorem ite {p : Prop} [Decidable p] {x y : M α} (hx : p → Sat S x) (hy : ¬p → Sat S y) :
    Sat S (if p then x else y) := by
  by_cases hp : p <;> simp [hp, hx, hy]

end Sat

theorem Holds.of_sat {α} {S : StepRel} {x : M α} {c : Conn} {Q : Post α} (h : Sat S x)
    (hq : ∀ r c' e, S.R c c' e → Q r c' e) : Holds x c Q := hq _ _ _ (h.out c)

theorem Holds.any {α} {x : M α} {c : Conn} {Q : Post α} (hq : ∀ r c' e, Q r c' e) : Holds x c Q := hq _ _ _

@[simp] theorem holds_getTag (m : Msg) (t : Nat) (c : Conn) (Q : Post String) :
    Holds (M.liftE (m.get t)) c Q ↔
      (∀ v, m.get? t = some v → Q (.ok v) c []) ∧ (m.get? t = none → Q (.error .tagNotFound) c []) := by
  unfold Msg.get
  cases h : m.get? t <;> simp [Holds, M.liftE]

/-- structural proof of `Sat S x`: peels combinators, leaves the `modify` / `emit` side conditions and
the black-box calls -/
macro "sat_step" : tactic =>
  `(tactic| with_reducible first
    | exact Sat.pure _
    | exact Sat.throw _
    | exact Sat.get
    | exact Sat.liftE _
    | exact Sat.assert _
    | exact Sat.int _
    | apply Sat.bind
    | apply Sat.tryCatch
    | apply Sat.ite
    | apply Sat.modify
    | apply Sat.emit
    | intro _)

/-- use a specification of a black-box call; the result is split so that the continuation reduces -/
theorem Holds.of_spec {α} {x : M α} {c : Conn} {S Q : Post α} (h : Holds x c S)
    (hok : ∀ a c' e, S (.ok a) c' e → Q (.ok a) c' e)
    (herr : ∀ ex c' e, S (.error ex) c' e → Q (.error ex) c' e) : Holds x c Q := by
  unfold Holds at *
  cases hr : (x c).res with
  | ok a => rw [hr] at h; exact hok _ _ _ h
  | error ex => rw [hr] at h; exact herr _ _ _ h

theorem Holds.of_sat' {α} {S : StepRel} {x : M α} {c : Conn} {Q : Post α} (h : Sat S x)
    (hok : ∀ a c' e, S.R c c' e → Q (.ok a) c' e)
    (herr : ∀ ex c' e, S.R c c' e → Q (.error ex) c' e) : Holds x c Q :=
  Holds.of_spec (S := fun _ c' e => S.R c c' e) (h.out c) hok herr

theorem Sat.of_holds {α} {S : StepRel} {x : M α} (h : ∀ c, Holds x c (fun _ c' e => S.R c c' e)) :
    Sat S x := ⟨h⟩

/-- `a ← liftE x; f a` where the continuation may use that `x` returned `a` -/
theorem Sat.liftE_bind {α β} {S : StepRel} {x : Except Exc α} {f : α → M β}
    (h : ∀ a, x = .ok a → Sat S (f a)) : Sat S (M.liftE x >>= f) := by
  refine ⟨fun c => ?_⟩
  rw [bind_apply]
  cases x with
  | ok a => simpa [M.liftE] using S.trans (S.refl c) ((h a rfl).out c)
  | error ex => exact S.refl c

theorem Holds.elim {α} {x : M α} {c : Conn} {Q : Post α} (h : Holds x c Q) :
    Q (x c).res (x c).conn (x c).eff := h

theorem Holds.intro {α} {x : M α} {c : Conn} {Q : Post α} (h : Q (x c).res (x c).conn (x c).eff) :
    Holds x c Q := h

attribute [irreducible] Holds

end AsyncFix.Session
