/-
C15 core: the group validator accepts exactly the items that are `ItemOk`
(mutual structural induction over the message tree; all nesting depths).
-/
import AsyncFix.Lemmas.Schema
namespace AsyncFix.Model.Schema

/-- what the entry loop of one item establishes, with the order bound `prev` -/
def LoopSpec (vv : Tag → String → Bool) (gm : List Member) (prev : Nat) (it : List Node) : Prop :=
  (∀ n, n ∈ it → n.tag ∈ memberTags gm) ∧
  (∀ n, n ∈ it → ∀ mem, mem ∈ gm → mem.tag = n.tag → NodeOk vv mem n) ∧
  (∀ n, n ∈ it → prev ≤ idxOf gm n.tag) ∧
  it.Pairwise (fun a b => idxOf gm a.tag ≤ idxOf gm b.tag)

theorem group_mutual (vv : Tag → String → Bool) :
    (∀ gm items, membersND gm = true →
      (validateGroup vv gm items = .ok ↔ ∀ it, it ∈ items → ItemOk vv gm it)) ∧
    (∀ gm prev it, membersND gm = true →
      (validateItemLoop vv gm prev it = .ok ↔ LoopSpec vv gm prev it)) ∧
    (∀ mem n, mem.tag = n.tag → memberND mem = true →
      (validateMember vv mem n = .ok ↔ NodeOk vv mem n)) := by
  apply validateGroup.mutual_induct
  · -- field / plain
    intro t s ft r ht _
    simp only [Member.tag, Node.tag] at ht
    subst ht
    rw [validateMember, strOutcome_ok]
    constructor
    · rintro ⟨h1, h2⟩; exact NodeOk.field h1 h2
    · intro h; cases h with | field h1 h2 => exact ⟨h1, h2⟩
  · -- group / plain
    intro t s gt r gm _ _
    rw [validateMember]
    constructor
    · intro h; cases h
    · intro h; cases h
  · -- cls
    intro mem t k _ _
    rw [validateMember]
    constructor
    · intro h; cases h
    · intro h; cases h
  · -- field / group
    intro t items ft r _ _
    rw [validateMember]
    constructor
    · intro h; cases h
    · intro h; cases h
  · -- group / group
    intro t items gt r gm ih ht hnd
    simp only [Member.tag, Node.tag] at ht
    subst ht
    rw [memberND] at hnd
    rw [validateMember, ih hnd]
    constructor
    · intro h; exact NodeOk.group h
    · intro h; cases h with | group h => exact h
  · -- no items
    intro gm _
    simp [validateGroup]
  · -- item :: rest
    intro gm it rest ihLoop ihRest hnd
    rw [validateGroup, andThen_ok, andThen_ok, ihLoop hnd, ihRest hnd]
    constructor
    · rintro ⟨⟨h1, h2, _, h4⟩, hfr, hrest⟩ it' hit'
      rcases List.mem_cons.mp hit' with rfl | hit'
      · by_cases hf : (it'.any fun n => (lookupMem gm n.tag).any fun p => p.1 = 0) = true
        · simp only [hf, Bool.not_true, Bool.false_eq_true, if_false] at hfr
          exact ItemOk.mk h1 h2 h4 (hasFirst_iff.mp hf) (checkRequired_ok.mp hfr)
        · simp [hf] at hfr
      · exact hrest it' hit'
    · intro hall
      have h0 := hall it (List.mem_cons_self ..)
      cases h0 with
      | mk h1 h2 h3 h4 h5 =>
        refine ⟨⟨h1, h2, fun _ _ => Nat.zero_le _, h3⟩, ?_, fun it' hit' => hall it' (List.mem_cons_of_mem _ hit')⟩
        have hf := hasFirst_iff.mpr h4
        simp only [hf, Bool.not_true, Bool.false_eq_true, if_false]
        exact checkRequired_ok.mpr h5
  · -- empty item
    intro gm prev _
    simp [validateItemLoop, LoopSpec]
  · -- unsupported tag
    intro gm prev n rest hl _
    rw [validateItemLoop, hl]
    simp only [reduceCtorEq, false_iff]
    rintro ⟨h1, _⟩
    exact lookupMem_none.mp hl (h1 n (List.mem_cons_self ..))
  · -- wrong order
    intro gm prev n rest i x hl hgt _
    rw [validateItemLoop, hl]
    simp only [hgt, if_true, reduceCtorEq, false_iff]
    rintro ⟨_, _, h3, _⟩
    have := h3 n (List.mem_cons_self ..)
    rw [← (lookupMem_some hl).2.2] at this
    omega
  · -- regular step
    intro gm prev n rest i x hl hle ihNode ihRest hnd
    obtain ⟨hx, hxt, hi⟩ := lookupMem_some hl
    rw [validateItemLoop, hl]
    simp only [hle, if_false]
    rw [andThen_ok, ihNode hxt (membersND_mem hnd hx), ihRest hnd]
    unfold LoopSpec
    constructor
    · rintro ⟨hok, h1, h2, h3, h4⟩
      refine ⟨?_, ?_, ?_, ?_⟩
      · intro n' hn'
        rcases List.mem_cons.mp hn' with rfl | hn'
        · exact hxt ▸ List.mem_map.mpr ⟨x, hx, rfl⟩
        · exact h1 n' hn'
      · intro n' hn' mem hmem ht
        rcases List.mem_cons.mp hn' with rfl | hn'
        · rw [membersND_unique hnd hmem hx (ht.trans hxt.symm)]; exact hok
        · exact h2 n' hn' mem hmem ht
      · intro n' hn'
        rcases List.mem_cons.mp hn' with rfl | hn'
        · omega
        · have := h3 n' hn'; omega
      · refine List.Pairwise.cons ?_ h4
        intro b hb
        have := h3 b hb
        omega
    · rintro ⟨h1, h2, h3, h4⟩
      have hp := List.pairwise_cons.mp h4
      refine ⟨h2 n (List.mem_cons_self ..) x hx hxt, fun n' hn' => h1 n' (List.mem_cons_of_mem _ hn'),
        fun n' hn' => h2 n' (List.mem_cons_of_mem _ hn'), ?_, hp.2⟩
      intro n' hn'
      have := hp.1 n' hn'
      omega

theorem validateGroup_iff {vv : Tag → String → Bool} {gm : List Member} {items : List (List Node)}
    (h : membersND gm = true) :
    validateGroup vv gm items = .ok ↔ ∀ it, it ∈ items → ItemOk vv gm it :=
  (group_mutual vv).1 gm items h

theorem validateMember_iff {vv : Tag → String → Bool} {mem : Member} {n : Node}
    (ht : mem.tag = n.tag) (h : memberND mem = true) :
    validateMember vv mem n = .ok ↔ NodeOk vv mem n :=
  (group_mutual vv).2.2 mem n ht h

/-- every rejection of the group validator is a `FIXMessageError` -/
theorem group_kind (vv : Tag → String → Bool) :
    (∀ gm items k, validateGroup vv gm items = .raised k → k = .msgError) ∧
    (∀ gm prev it k, validateItemLoop vv gm prev it = .raised k → k = .msgError) ∧
    (∀ mem n k, validateMember vv mem n = .raised k → k = .msgError) := by
  apply validateGroup.mutual_induct
  · intro t s ft r k
    rw [validateMember]; unfold strOutcome
    split
    · simp; exact fun h => h.symm
    · split <;> simp; exact fun h => h.symm
  · intro t s gt r gm k; rw [validateMember]; simp; exact fun h => h.symm
  · intro mem t c k; rw [validateMember]; simp; exact fun h => h.symm
  · intro t items ft r k; rw [validateMember]; simp; exact fun h => h.symm
  · intro t items gt r gm ih k; rw [validateMember]; exact ih k
  · intro gm k; simp [validateGroup]
  · intro gm it rest ihLoop ihRest k h
    rw [validateGroup] at h
    rcases andThen_raised h with h | h
    · exact ihLoop k h
    · rcases andThen_raised h with h | h
      · split at h
        · simp at h; exact h.symm
        · exact checkRequired_kind h
      · exact ihRest k h
  · intro gm prev k; simp [validateItemLoop]
  · intro gm prev n rest hl k; rw [validateItemLoop, hl]; simp; exact fun h => h.symm
  · intro gm prev n rest i x hl hgt k
    rw [validateItemLoop, hl]; simp [hgt]; exact fun h => h.symm
  · intro gm prev n rest i x hl hle ihNode ihRest k h
    rw [validateItemLoop, hl] at h
    simp only [hle, if_false] at h
    rcases andThen_raised h with h | h
    · exact ihNode k h
    · exact ihRest k h

end AsyncFix.Model.Schema
