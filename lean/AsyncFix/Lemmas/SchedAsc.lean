import AsyncFix.Lemmas.SchedRunInv

/-!
Sched family: reading `Asc` (the recursive "numbered strictly increasingly within `[lo, hi)`") as the
usual statements: a list of numbers that is `Pairwise (· < ·)`; and, when the counter advanced by exactly
the number of frames, numbered consecutively from `lo` (`numbered`).
-/
namespace AsyncFix.Sched

open AsyncFix.Session

theorem Asc.len_le {lo hi : Int} {l : List Msg} (h : Asc lo l hi) : lo + l.length ≤ hi := by
  induction l generalizing lo with
  | nil => simpa [Asc] using h
  | cons f r ih =>
    obtain ⟨n, _, h2, h3⟩ := h
    have := ih h3
    simp only [List.length_cons, Int.natCast_add, Int.cast_ofNat_Int]
    omega

/-- the numbers of the frames, in order; every one readable -/
theorem Asc.numbers {lo hi : Int} {l : List Msg} (h : Asc lo l hi) :
    ∃ ns : List Int, l.map seqOf = ns.map some ∧ ns.Pairwise (· < ·) ∧ ∀ n ∈ ns, lo ≤ n ∧ n < hi := by
  induction l generalizing lo with
  | nil => exact ⟨[], rfl, List.Pairwise.nil, by simp⟩
  | cons f r ih =>
    obtain ⟨n, h1, h2, h3⟩ := h
    obtain ⟨ns, e1, e2, e3⟩ := ih h3
    refine ⟨n :: ns, by simp [h1, e1], ?_, ?_⟩
    · refine List.Pairwise.cons ?_ e2
      intro m hm
      have := (e3 m hm).1
      omega
    · intro m hm
      rcases List.mem_cons.mp hm with rfl | hm
      · have := h3.len_le
        constructor <;> omega
      · have := e3 m hm
        constructor <;> omega

/-- numbered `lo, lo+1, lo+2, …` -/
def numbered : Int → List Msg → Prop
  | _, [] => True
  | lo, f :: r => seqOf f = some lo ∧ numbered (lo + 1) r

theorem Asc.numbered {lo hi : Int} {l : List Msg} (h : Asc lo l hi) (hc : hi ≤ lo + l.length) :
    numbered lo l := by
  induction l generalizing lo with
  | nil => trivial
  | cons f r ih =>
    obtain ⟨n, h1, h2, h3⟩ := h
    have hl := h3.len_le
    simp only [List.length_cons, Int.natCast_add, Int.cast_ofNat_Int] at hc
    have hn : n = lo := by omega
    subst hn
    exact ⟨h1, ih h3 (by omega)⟩

theorem numbered_last {lo : Int} {l : List Msg} (h : numbered lo l) (f : Msg) (hf : l.getLast? = some f) :
    seqOf f = some (lo + l.length - 1) := by
  induction l generalizing lo with
  | nil => simp at hf
  | cons g r ih =>
    cases r with
    | nil =>
      simp only [List.getLast?_singleton, Option.some.injEq] at hf
      subst hf
      simpa using h.1
    | cons g2 r2 =>
      rw [List.getLast?_cons_cons] at hf
      have := ih h.2 hf
      rw [this]
      simp only [List.length_cons, Int.natCast_add, Int.cast_ofNat_Int]
      congr 1
      omega

end AsyncFix.Sched
