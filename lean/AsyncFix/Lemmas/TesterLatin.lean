import AsyncFix.Lemmas.TesterFrame

/-!
C20 helper lemmas: a frame built from single-byte (latin-1) parts is encodable as latin-1 – what both
`send_msg` and (since fix bcdee93) `FIXTester.reply` put on the wire.
-/
namespace AsyncFix.Tester
open AsyncFix.Session AsyncFix.Generated

/-- every value of the message and its type are single-byte text -/
def latin1Msg (m : Msg) : Bool := isLatin1 m.mtype && m.tags.all fun p => isLatin1 p.2

theorem latin1_of_digits (s : String) (h : ∀ c ∈ s.toList, isAsciiDigit c = true ∨ c = '-') : isLatin1 s = true := by
  unfold isLatin1
  rw [List.all_eq_true]
  intro c hc
  rcases h c hc with h | h
  · simp only [isAsciiDigit, Bool.and_eq_true, decide_eq_true_eq] at h
    simp only [decide_eq_true_eq]; omega
  · subst h; decide

theorem latin1_natStr (n : Nat) : isLatin1 (toString n) = true := by
  apply latin1_of_digits
  intro c hc
  rw [Nat.toString_eq_repr, Nat.toList_repr] at hc
  exact Or.inl (digits_all n c hc)

theorem latin1_pyStr (n : Int) : isLatin1 (pyStr n) = true := by
  apply latin1_of_digits
  intro c hc
  unfold pyStr at hc
  rw [Int.toString_eq_repr, Int.repr_eq_if] at hc
  split at hc
  · rw [Nat.toList_repr] at hc; exact Or.inl (digits_all _ c hc)
  · simp only [String.toList_append, List.mem_append, Nat.toList_repr] at hc
    rcases hc with hc | hc
    · right; simpa using hc
    · exact Or.inl (digits_all _ c hc)

theorem latin1_append (a b : String) : isLatin1 (a ++ b) = (isLatin1 a && isLatin1 b) := by
  simp [isLatin1, String.toList_append, List.all_append]

theorem latin1_pad3 (n : Nat) : isLatin1 (pad3 n) = true := by
  unfold pad3
  simp only
  split
  · rw [latin1_append, latin1_natStr]; rfl
  · split
    · rw [latin1_append, latin1_natStr]; rfl
    · exact latin1_natStr n

/-- a frame built from single-byte parts is encodable as latin-1 -/
theorem frameLatin1_buildFrame (s : Session) (stamp : String) (m : Msg) (seq : Int)
    (h1 : isLatin1 s.sender = true) (h2 : isLatin1 s.target = true) (h3 : isLatin1 stamp = true)
    (h4 : latin1Msg m = true) : frameLatin1 (buildFrame s stamp m seq) = true := by
  simp only [latin1Msg, Bool.and_eq_true] at h4
  obtain ⟨hm, ht⟩ := h4
  have hb : isLatin1 Proto.beginString = true := by decide
  unfold frameLatin1
  simp only [buildFrame, bodyFields, List.all_append, List.all_cons, List.all_nil, Bool.and_true, Bool.and_eq_true,
    h1, h2, h3, hm, hb, latin1_natStr, latin1_pyStr, latin1_pad3, and_self, true_and, and_true]
  rw [List.all_eq_true] at ht ⊢
  intro p hp
  exact ht p (List.mem_filter.mp hp).1

end AsyncFix.Tester
