import AsyncFix.Lemmas.TesterSteps

/-!
C20 helper lemmas: the Logon exchange from freshly connected endpoints, for ANY acceptor-side connection
that looks like `AccStart` (both the tester's `mkAcceptor` and a real `realAcceptor` do).
-/
namespace AsyncFix.Tester
open AsyncFix.Session AsyncFix.Generated AsyncFix.Generated.ConnEnum

/-- the initiator before the script: connected, nothing sent yet -/
structure Start (ci : Conn) : Prop where
  st : ci.state = st_NETWORK_CONN_ESTABLISHED
  sock : ci.sock = true
  noreq : ci.testReqId = none
  posIn : 0 < ci.sess.nextIn
  posOut : 0 < ci.sess.nextOut
  fresh : JFresh ci
  latinS : isLatin1 ci.sess.sender = true
  latinT : isLatin1 ci.sess.target = true

/-- an acceptor-side connection waiting for the Logon of `ci` -/
structure AccStart (ci ca : Conn) : Prop where
  st : ca.state = st_NETWORK_CONN_ESTABLISHED
  sock : ca.sock = true
  noreq : ca.testReqId = none
  fresh : JFresh ca
  peer : Peer ci ca

/-- the Logon the script starts with -/
structure LogonMsg (m : Msg) : Prop where
  ty : m.mtype = mLogon
  noPossDup : (m.get? tPossDupFlag).getD "N" ≠ "Y"
  latin1 : latin1Msg m = true
  has98 : m.has tEncryptMethod = true
  has108 : m.has tHeartBtInt = true

theorem lookup_mem {t : Nat} {v : String} {tags : List (Nat × String)} (h : Msg.lookup t tags = some v) : (t, v) ∈ tags := by
  induction tags with
  | nil => cases h
  | cons p r ih =>
    obtain ⟨k, w⟩ := p
    by_cases hk : k = t
    · simp [Msg.lookup, hk] at h; subst hk; subst h; simp
    · simp [Msg.lookup, hk] at h; exact List.mem_cons_of_mem _ (ih h)

theorem latin1_of_get? {m : Msg} {t : Nat} {v : String} (hm : latin1Msg m = true) (h : m.get? t = some v) : isLatin1 v = true := by
  simp only [latin1Msg, Bool.and_eq_true, List.all_eq_true] at hm
  exact hm.2 (t, v) (lookup_mem h)

/-- connection of the initiator after its first Logon went out -/
def iAfterLogonSent (ci : Conn) (env : Env) (m : Msg) : Conn :=
  { afterSend ci env m with state := st_LOGON_INITIAL_SENT, role := roleInitiator }

/-- … and after the acceptor's Logon came back -/
def iAfterLogon (ci : Conn) (env : Env) (m g : Msg) : Conn :=
  { afterIn (afterSend ci env m) env g with state := st_ACTIVE, role := roleInitiator, wasActive := true }

/-- the acceptor after the Logon exchange -/
def aAfterLogon (ca : Conn) (env : Env) (f : Msg) : Conn :=
  { afterIn (afterSend ca env (logonReply f)) env f with state := st_ACTIVE, role := roleAcceptor, wasActive := true }

theorem appSend_logon {env : Env} {ci : Conn} {m : Msg} (h : Start ci) (hm : LogonMsg m) (henv : isLatin1 env.stamp = true) :
    appSend env ci m = (iAfterLogonSent ci env m, [.onState st_LOGON_INITIAL_SENT, .write (sentFrame ci env m)]) := by
  have := sendMsg_first_logon (env := env) h.st hm.ty hm.noPossDup
    ((sentFrame_latin1 h.latinS h.latinT henv hm.latin1)) (jOut_spec env m h.fresh) h.sock
  simp [appSend, M.run, this, iAfterLogonSent, afterSend]

theorem logonReply_latin1 {f : Msg} {e h : String} (h98 : f.get? tEncryptMethod = some e) (h108 : f.get? tHeartBtInt = some h)
    (he : isLatin1 e = true) (hh : isLatin1 h = true) : latin1Msg (logonReply f) = true := by
  simp [latin1Msg, logonReply, Msg.mk', h98, h108, he, hh]; decide

theorem recv_logon_acc {sr : Msg → Bool} {env : Env} {ci ca : Conn} {m : Msg} (hs : Start ci) (h : AccStart ci ca)
    (hm : LogonMsg m) (henv : isLatin1 env.stamp = true)
    (haS : isLatin1 ca.sess.sender = true) (haT : isLatin1 ca.sess.target = true) :
    recv sr env ca (sentFrame ci env m) =
      (aAfterLogon ca env (sentFrame ci env m),
       [.onState st_LOGON_INITIAL_RECV, .write (sentFrame ca env (logonReply (sentFrame ci env m))), .onState st_ACTIVE,
        .onLogon true]) := by
  obtain ⟨e, he⟩ := Option.isSome_iff_exists.mp (show (m.get? tEncryptMethod).isSome = true from hm.has98)
  obtain ⟨b, hb⟩ := Option.isSome_iff_exists.mp (show (m.get? tHeartBtInt).isSome = true from hm.has108)
  have h98 : (sentFrame ci env m).get? tEncryptMethod = some e := by
    unfold sentFrame; rw [buildFrame_get?_body _ _ _ _ _ (by decide)]; exact he
  have h108 : (sentFrame ci env m).get? tHeartBtInt = some b := by
    unfold sentFrame; rw [buildFrame_get?_body _ _ _ _ _ (by decide)]; exact hb
  have hra := logonReply_latin1 h98 h108 (latin1_of_get? hm.latin1 he) (latin1_of_get? hm.latin1 hb)
  have hpos : 0 < ca.sess.nextIn := by rw [h.peer.oi]; exact hs.posOut
  have hj1 := jOut_spec env (logonReply (sentFrame ci env m)) h.fresh
  have hj2 := jIn_spec (sentFrame ci env m) (jfresh_afterSend env (logonReply (sentFrame ci env m)) h.fresh)
  have := recv_logon_acceptor (sr := sr) (env := env) (addressed_peer h.peer env m) h.st hm.ty h98 h108
    ((sentFrame_latin1 haS haT henv hra)) hj1 h.sock hpos hj2
  rw [this]
  rfl

theorem recv_logon_ini {sr : Msg → Bool} {env : Env} {ci ca : Conn} {m : Msg} (hs : Start ci) (h : AccStart ci ca) (r : Msg)
    (hr : r.mtype = mLogon) :
    recv sr env (iAfterLogonSent ci env m) (sentFrame ca env r) =
      (iAfterLogon ci env m (sentFrame ca env r), [.onState st_ACTIVE, .onLogon true]) := by
  have ha : Addressed (iAfterLogonSent ci env m) (sentFrame ca env r) (pyStr ca.sess.nextOut)
      (iAfterLogonSent ci env m).sess.nextIn :=
    addressed_sentFrame env r h.peer.symm.st h.peer.symm.ts h.peer.io
  have hf : JFresh (iAfterLogonSent ci env m) := by
    have := jfresh_afterSend env m hs.fresh
    exact ⟨this.out, this.inb⟩
  have := recv_logon_initiator (sr := sr) (env := env) ha rfl rfl hr hs.posIn (jIn_spec (sentFrame ca env r) hf)
  rw [this]
  rfl

end AsyncFix.Tester
