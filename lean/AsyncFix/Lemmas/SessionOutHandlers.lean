import AsyncFix.Lemmas.SessionOutRules

/-!
C05: Hoare triples of the handlers that do not service a ResendRequest: `disconnect`,
`set_seq_num` (inbound side), `_process_logon`, `_check_seqnum_gaps`, `_process_logout`,
`_process_seqreset`, `_finalize_message`, `_process_testrequest`, `_process_heartbeat`,
`send_test_req`.
-/
namespace AsyncFix.Session

open AsyncFix.Generated AsyncFix.Generated.ConnEnum

variable {sr : Msg → Bool} {U X : Prop} {α : Type}

/-- one structural step of the Hoare logic (syntactic matching only) -/
macro "hstep" : tactic => `(tactic| first
  | (refine Hold.ite ?_ ?_ <;> intro _ <;> try contradiction)
  | with_reducible refine Hold.bind_get ?_
  | (with_reducible refine Hold.bind_assert (by assumption) ?_; intro _)
  | (with_reducible refine Hold.bind_liftE (by assumption) ?_; intro _ _)
  | (with_reducible refine Hold.bind_int (by assumption) ?_; intro _ _)
  | with_reducible refine Hold.bind_pure ?_
  | with_reducible refine Hold.bind_emit rfl (by assumption) ?_
  | with_reducible exact Hold.pure (by assumption) (by first | trivial | assumption | rfl)
  | with_reducible exact Hold.throw (by assumption)
  | with_reducible exact Hold.emit rfl (by assumption) trivial)

/-- not in a disconnected state -/
def Live (c : Conn) : Prop := st_DISCONNECTED_BROKEN_CONN < c.state

theorem Good.of_outEq {c c' : Conn} {es : List Effect} (hI : OutInv c') (he : OutEq c c')
    (hes : newWrites es = []) : Good sr U X c c' es := by
  have := Good.refl_of_eq (sr := sr) (U := U) (X := X) hI he
  exact { this with
    num := by rw [hes]; trivial
    cnt := by rw [hes]; exact this.cnt
    freshSlot := by intro _ _ f hf; rw [hes] at hf; cases hf
    freshRow := by intro _ f hf; rw [hes] at hf; cases hf }

theorem Hold.of_eq {c c' : Conn} {x : M α} {a : α} {es : List Effect} {Q : α → Conn → Prop}
    (h : x c = ⟨.ok a, c', es⟩) (hI : OutInv c') (he : OutEq c c') (hes : newWrites es = [])
    (hQ : Q a c') : Hold sr U X c x Q := by
  unfold Hold; rw [h]
  exact ⟨Good.of_outEq hI he hes, fun b hb => by cases hb; exact hQ⟩

theorem isNew_logout (text : String) : isNew (logoutMsg text) = true := by
  unfold logoutMsg; split <;> rfl

theorem isNew_mk' (ty : String) (tags : List (Nat × String)) (h1 : (ty == mSequenceReset) = false)
    (h2 : Msg.lookup tPossDupFlag tags = none) : isNew (Msg.mk' ty tags) = true := by
  simp [isNew, Msg.mk', Msg.get?, h1, h2]

/-- `disconnect`: ends in a disconnected state (or did nothing because it already was in one) -/
theorem disconnect_hold (env : Env) (d : Nat) (lo : Option String) (c : Conn) (hI : OutInv c) :
    Hold sr U X c (disconnect env d lo) (fun _ c' => c'.state ≤ st_DISCONNECTED_BROKEN_CONN) := by
  unfold disconnect
  apply Hold.bind_get
  apply Hold.ite
  · intro halive
    apply Hold.bind_assert hI; intro hd
    have hd' : d ≤ st_DISCONNECTED_BROKEN_CONN := by simpa using hd
    apply Hold.bind_modify hI ⟨⟨rfl, rfl, rfl⟩, rfl, rfl⟩ hI.sock; intro hI1
    dsimp only
    have tail : ∀ c1, OutInv c1 → Hold sr U X c1 (do
          let c2 ← M.get
          have __do_jp : Unit → M Unit := fun __r => do
            M.modify fun c => { c with sock := false }
            stateSet d
            M.emit Effect.onDisconnect
          if c2.sock = true then do
              let __r ← M.emit Effect.closeSocket
              __do_jp __r
            else __do_jp ()) (fun _ c' => c'.state ≤ st_DISCONNECTED_BROKEN_CONN) := by
      intro c1 hI1
      apply Hold.bind_get
      dsimp only
      have fin : Hold sr U X c1 (do
            M.modify fun c => { c with sock := false }
            stateSet d
            M.emit Effect.onDisconnect) (fun _ c' => c'.state ≤ st_DISCONNECTED_BROKEN_CONN) := by
        refine Hold.of_eq
          (c' := { c1 with sock := false, state := d, wasActive := c1.wasActive || d == st_ACTIVE })
          (es := [.onState d, .onDisconnect]) (a := ()) ?_ ?_ ⟨⟨rfl, rfl, rfl⟩, rfl, rfl⟩ rfl hd'
        · unfold stateSet
          rw [run_bind_modify, run_bind_assoc, run_bind_modify, run_bind_emit, run_emit]
          rfl
        · exact hI1.of_outEq ⟨⟨rfl, rfl, rfl⟩, rfl, rfl⟩ (fun h => absurd h (by simp only; omega))
      apply Hold.ite
      · intro _; exact Hold.bind_emit rfl hI1 fin
      · intro _; exact fin
    cases lo with
    | none => exact tail _ hI1
    | some text =>
      exact Hold.seq (Hold.swallow (Hold.true_of (sendMsg_hold env _ _ hI1 (isNew_logout text))) (fun _ _ => trivial))
        (fun _ c1 hI2 _ => tail c1 hI2)
  · intro h; exact Hold.pure hI (by omega)

/-- the journal part of `set_seq_num` is a no-op on the outbound side when the counter is unchanged -/
theorem setSeq_out (c : Conn) (hI : OutInv c) (ni : Int) :
    (c.journal.setSeq c.sess.nextOut ni).out = c.journal.out ∧
    (c.journal.setSeq c.sess.nextOut ni).outSeq = c.journal.outSeq := by
  constructor
  · exact Rows.below_of_allLt _ _ hI.allLt
  · have := hI.counter; simp only [Journal.setSeq]; omega

/-- `set_seq_num(next_num_in = n)`: outbound side untouched -/
theorem setSeqNum_in_hold (n : Int) (c : Conn) (hI : OutInv c) :
    Hold sr U X c (setSeqNum none (some n)) (fun _ c' => c'.state = c.state ∧ c'.sock = c.sock) := by
  unfold setSeqNum
  dsimp only
  hstep
  apply Hold.bind_modify hI ⟨⟨rfl, rfl, rfl⟩, rfl, rfl⟩ hI.sock; intro hI1
  have h := setSeq_out _ hI1 n
  apply Hold.modify
  · exact hI1.of_outEq ⟨⟨rfl, rfl, rfl⟩, h.1, h.2⟩ hI.sock
  · exact ⟨⟨rfl, rfl, rfl⟩, h.1, h.2⟩
  · exact ⟨rfl, rfl⟩

theorem logonTail_hold (s : Nat) (c : Conn) (hI : OutInv c) (hl : Live c) :
    Hold sr U X c (do
      stateSet s
      let c3 ← M.get
      M.emit (Effect.onLogon (c3.state == st_ACTIVE))) (fun _ _ => True) := by
  refine Hold.seq (stateSet_hold _ c hI (fun _ => hI.sock hl)) ?_
  intro _ c1 hI1 _; repeat' hstep

theorem processLogon_hold (env : Env) (m : Msg) (c : Conn) (hI : OutInv c) (hl : Live c) :
    Hold sr U X c (processLogon env m) (fun _ _ => True) := by
  unfold processLogon
  dsimp only
  repeat' hstep
  all_goals try exact logonTail_hold _ c hI hl
  · exact Hold.seq (disconnect_hold env _ _ c hI) (fun _ c1 hI1 _ => by repeat' hstep)
  · -- the reply, and (fix a9dbd9f) `disconnect` + re-raise when it cannot be sent
    refine Hold.seq (Hold.tryCatch (sendMsg_hold env _ c hI ?_) ?_) ?_
    · exact isNew_mk' _ _ rfl rfl
    · intro ex c1 hI1
      exact Hold.seq (disconnect_hold env _ _ c1 hI1) (fun _ c2 hI2 _ => Hold.throw hI2)
    intro _ c1 hI1 h1
    have hl1 : Live c1 := by unfold Live; rw [h1]; exact afterGate_alive c hl
    repeat' hstep
    all_goals exact logonTail_hold _ c1 hI1 hl1

/-- `_check_seqnum_gaps`: keeps the connection live -/
theorem checkSeqnumGaps_hold (env : Env) (n : Int) (c : Conn) (hI : OutInv c) (hl : Live c) :
    Hold sr U X c (checkSeqnumGaps env n) (fun _ c' => Live c') := by
  unfold checkSeqnumGaps
  dsimp only
  repeat' hstep
  apply Hold.bind_modify hI ⟨⟨rfl, rfl, rfl⟩, rfl, rfl⟩ hI.sock; intro hI1
  refine Hold.seq (sendMsg_hold env _ _ hI1 ?_) ?_
  · exact isNew_mk' _ _ rfl rfl
  intro _ c1 hI2 h1
  have hl1 : Live c1 := by unfold Live; rw [h1]; exact afterGate_alive _ hl
  refine Hold.seq (stateSet_hold _ c1 hI2 (fun _ => hI2.sock hl1)) ?_
  intro _ c2 hI3 h2
  exact Hold.pure hI3 (by unfold Live; rw [h2.1]; decide)

theorem processLogout_hold (env : Env) (m : Msg) (c : Conn) (hI : OutInv c) :
    Hold sr U X c (processLogout env m) (fun _ _ => True) := by
  unfold processLogout
  dsimp only
  repeat' hstep
  exact (disconnect_hold env _ none c hI).true_of

/-- `_process_seqreset`: only the inbound side moves -/
theorem processSeqreset_hold (m : Msg) (c : Conn) (hI : OutInv c) :
    Hold sr U X c (processSeqreset m) (fun _ c' => c'.state = c.state) := by
  unfold processSeqreset
  dsimp only
  have fin : ∀ n nw, Hold sr U X c (do
      setSeqNum none (some n)
      setSeqNum none (some nw)
      pure true) (fun _ c' => c'.state = c.state) := by
    intro n nw
    refine Hold.seq (setSeqNum_in_hold _ c hI) ?_
    intro _ c1 hI1 h1
    refine Hold.seq (setSeqNum_in_hold _ c1 hI1) ?_
    intro _ c2 hI2 h2
    exact Hold.pure hI2 (by rw [h2.1, h1.1])
  repeat' hstep
  all_goals exact fin _ _

/-- `FIXSession.set_next_num_in`: inbound counter only -/
theorem setNextNumIn_hold (m : Msg) (c : Conn) (hI : OutInv c) :
    Hold sr U X c (setNextNumIn m) (fun _ c' => c'.state = c.state) := by
  unfold setNextNumIn
  dsimp only
  repeat' hstep
  all_goals
    apply Hold.bind_modify hI ⟨⟨rfl, rfl, rfl⟩, rfl, rfl⟩ hI.sock; intro hI1
    exact Hold.pure hI1 rfl

/-- `persist_msg(…, INBOUND)`: inbound rows / counter only -/
theorem persistInbound_hold (m : Msg) (c : Conn) (hI : OutInv c) :
    Hold sr U X c (persistInbound m) (fun _ _ => True) := by
  unfold persistInbound
  have tail : ∀ c, OutInv c → ∀ seq : Int, Hold sr U X c (do
      let c ← M.get
      match c.journal.persist .inbound seq m with
      | none => M.throw .duplicateSeqNo
      | some j => M.modify fun c => { c with journal := j }) (fun _ _ => True) := by
    intro c hI seq
    hstep
    cases hp : c.journal.persist .inbound seq m with
    | none => exact Hold.throw hI
    | some j =>
      have hj : j.out = c.journal.out ∧ j.outSeq = c.journal.outSeq := by
        simp only [Journal.persist, Option.map_eq_some_iff] at hp
        obtain ⟨r, _, rfl⟩ := hp
        exact ⟨rfl, rfl⟩
      dsimp only
      apply Hold.modify
      · exact hI.of_outEq ⟨⟨rfl, rfl, rfl⟩, hj.1, hj.2⟩ hI.sock
      · exact ⟨⟨rfl, rfl, rfl⟩, hj.1, hj.2⟩
      · trivial
  dsimp only
  cases h34 : m.get? tMsgSeqNum with
  | none => exact Hold.bind (Hold.throw (Q := fun _ _ => True) hI) (fun n c1 hI1 _ => tail c1 hI1 n)
  | some v =>
    cases hv : pyInt v with
    | none =>
      dsimp only
      rw [hv]
      exact Hold.bind (Hold.throw (Q := fun _ _ => True) hI) (fun n c1 hI1 _ => tail c1 hI1 n)
    | some n =>
      dsimp only
      rw [hv]
      exact Hold.bind_pure (tail c hI n)

end AsyncFix.Session
