import AsyncFix.Lemmas.LinkConst
import AsyncFix.Lemmas.SessionRel

/-!
C07 helper lemmas, part 1: Python-level facts (`int(str(n)) = n`, decimal strings are single-byte).
(The decimal-string lemmas are the ones agent c05 proved for C05; copied here under the `Link` namespace so that
this family builds on its own.)
-/
namespace AsyncFix.Link

open AsyncFix.Session


/-! ### decimal strings -/

theorem isAsciiDigit_of_isDigit {c : Char} (h : c.isDigit = true) : isAsciiDigit c = true := by
  simp only [Char.isDigit, Bool.and_eq_true, decide_eq_true_eq] at h
  have h1 : 48 ≤ c.toNat := by
    have := h.1; simp only [UInt32.le_iff_toNat_le] at this; simpa using this
  have h2 : c.toNat ≤ 57 := by
    have := h.2; simp only [UInt32.le_iff_toNat_le] at this; simpa using this
  simp [isAsciiDigit, h1, h2]

theorem digits_all (n : Nat) : ∀ c ∈ Nat.toDigits 10 n, isAsciiDigit c = true := fun _ hc =>
  isAsciiDigit_of_isDigit (Nat.isDigit_of_mem_toDigits (by decide) (by decide) hc)

theorem pyDigits_digits (cs : List Char) (h : ∀ c ∈ cs, isAsciiDigit c = true) (acc : Nat) (prev : Bool)
    (hne : cs ≠ [] ∨ prev = true) : pyDigits acc prev cs = some (Nat.ofDigitChars 10 cs acc) := by
  induction cs generalizing acc prev with
  | nil =>
    cases hne with
    | inl h => exact absurd rfl h
    | inr h => simp [pyDigits, h]
  | cons c r ih =>
    have hc := h c (by simp)
    rw [pyDigits, if_pos hc, ih (fun d hd => h d (by simp [hd])) _ true (Or.inr rfl),
      Nat.ofDigitChars_cons]
    simp [Nat.mul_comm]

theorem isPyWs_of_digit {c : Char} (h : isAsciiDigit c = true) : isPyWs c = false := by
  simp only [isAsciiDigit, Bool.and_eq_true, decide_eq_true_eq] at h
  have hne : c ≠ ' ' := by
    intro e; subst e; revert h; decide
  simp only [isPyWs, Bool.or_eq_false_iff, decide_eq_false_iff_not, Bool.and_eq_false_iff]
  refine ⟨hne, Or.inr ?_⟩
  omega

theorem dropWhile_ws_digits (cs : List Char) (h : ∀ c ∈ cs, isAsciiDigit c = true) :
    cs.dropWhile isPyWs = cs := by
  cases cs with
  | nil => rfl
  | cons c r => simp [List.dropWhile, isPyWs_of_digit (h c (by simp))]

theorem stripWs_digits (cs : List Char) (h : ∀ c ∈ cs, isAsciiDigit c = true) : stripWs cs = cs := by
  unfold stripWs
  rw [dropWhile_ws_digits cs h, dropWhile_ws_digits cs.reverse (fun c hc => h c (by simpa using hc))]
  simp

theorem stripWs_minus_digits (cs : List Char) (h : ∀ c ∈ cs, isAsciiDigit c = true) (hne : cs ≠ []) :
    stripWs ('-' :: cs) = '-' :: cs := by
  unfold stripWs
  have h1 : ('-' :: cs).dropWhile isPyWs = '-' :: cs := by
    simp [List.dropWhile, isPyWs]
  rw [h1]
  have h2 : ('-' :: cs).reverse = cs.reverse ++ ['-'] := by simp
  rw [h2]
  obtain ⟨d, r, hr⟩ : ∃ d r, cs.reverse = d :: r := by
    cases hcs : cs.reverse with
    | nil => simp at hcs; exact absurd hcs hne
    | cons d r => exact ⟨d, r, rfl⟩
  have hd : isAsciiDigit d = true := h d (by
    have : d ∈ cs.reverse := by rw [hr]; simp
    simpa using this)
  rw [hr]
  simp only [List.cons_append, List.dropWhile, isPyWs_of_digit hd]
  rw [← List.cons_append, ← hr]
  simp

theorem pyIntChars_digits (cs : List Char) (h : ∀ c ∈ cs, isAsciiDigit c = true) (hne : cs ≠ []) :
    pyIntChars cs = some ((Nat.ofDigitChars 10 cs 0 : Nat) : Int) := by
  unfold pyIntChars
  rw [stripWs_digits cs h]
  have key := pyDigits_digits cs h 0 false (Or.inl hne)
  split
  · have hc := h '-' (by simp)
    exact absurd hc (by decide)
  · have hc := h '+' (by simp)
    exact absurd hc (by decide)
  · rw [key]; rfl

theorem pyIntChars_minus_digits (cs : List Char) (h : ∀ c ∈ cs, isAsciiDigit c = true) (hne : cs ≠ []) :
    pyIntChars ('-' :: cs) = some (- ((Nat.ofDigitChars 10 cs 0 : Nat) : Int)) := by
  unfold pyIntChars
  rw [stripWs_minus_digits cs h hne]
  simp only
  rw [pyDigits_digits cs h 0 false (Or.inl hne)]
  rfl

/-- `int(str(n)) == n` for every Python int -/
theorem pyInt_pyStr (n : Int) : pyInt (pyStr n) = some n := by
  unfold pyInt pyStr
  rw [Int.toString_eq_repr, Int.repr_eq_if]
  by_cases h0 : 0 ≤ n
  · rw [if_pos h0, Nat.toList_repr, pyIntChars_digits _ (digits_all _) Nat.toDigits_ne_nil,
      Nat.ofDigitChars_ten_toDigits]
    simp [Int.toNat_of_nonneg h0]
  · rw [if_neg h0]
    have hl : ("-" ++ (-n).toNat.repr).toList = '-' :: Nat.toDigits 10 (-n).toNat := by
      simp [String.toList_append]
    rw [hl, pyIntChars_minus_digits _ (digits_all _) Nat.toDigits_ne_nil,
      Nat.ofDigitChars_ten_toDigits]
    congr 1
    have : ((-n).toNat : Int) = -n := Int.toNat_of_nonneg (by omega)
    omega

theorem isLatin1_of_digits (s : String) (h : ∀ c ∈ s.toList, isAsciiDigit c = true ∨ c = '-') :
    isLatin1 s = true := by
  unfold isLatin1
  rw [List.all_eq_true]
  intro c hc
  rcases h c hc with h | h
  · simp only [isAsciiDigit, Bool.and_eq_true, decide_eq_true_eq] at h
    simp only [decide_eq_true_eq]; omega
  · subst h; decide

theorem isLatin1_natStr (n : Nat) : isLatin1 (toString n) = true := by
  apply isLatin1_of_digits
  intro c hc
  rw [Nat.toString_eq_repr, Nat.toList_repr] at hc
  exact Or.inl (digits_all n c hc)

theorem isLatin1_pyStr (n : Int) : isLatin1 (pyStr n) = true := by
  apply isLatin1_of_digits
  intro c hc
  unfold pyStr at hc
  rw [Int.toString_eq_repr, Int.repr_eq_if] at hc
  split at hc
  · rw [Nat.toList_repr] at hc; exact Or.inl (digits_all _ c hc)
  · rw [String.toList_append] at hc
    simp only [List.mem_append, Nat.toList_repr] at hc
    rcases hc with hc | hc
    · right; simpa using hc
    · exact Or.inl (digits_all _ c hc)

theorem isLatin1_append (a b : String) : isLatin1 (a ++ b) = (isLatin1 a && isLatin1 b) := by
  simp [isLatin1, String.toList_append, List.all_append]

theorem isLatin1_pad3 (n : Nat) : isLatin1 (pad3 n) = true := by
  unfold pad3
  simp only
  split
  · rw [isLatin1_append, isLatin1_natStr]; decide
  · split
    · rw [isLatin1_append, isLatin1_natStr]; decide
    · exact isLatin1_natStr n


end AsyncFix.Link
