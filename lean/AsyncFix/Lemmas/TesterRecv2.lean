import AsyncFix.Lemmas.TesterRecv

/-!
C20 helper lemmas, continued: Logon (both roles), Logout, the initiator's first Logon and
`send_test_req`.
-/
namespace AsyncFix.Tester
open AsyncFix.Session AsyncFix.Generated AsyncFix.Generated.ConnEnum

/-- the Logon an acceptor answers with -/
def logonReply (f : Msg) : Msg :=
  Msg.mk' mLogon [(tEncryptMethod, (f.get? tEncryptMethod).getD ""), (tHeartBtInt, (f.get? tHeartBtInt).getD "")]

/-- S2: the initiator's first Logon from NETWORK_CONN_ESTABLISHED -/
theorem sendMsg_first_logon {env : Env} {c : Conn} {m : Msg} {j : Journal}
    (hst : c.state = st_NETWORK_CONN_ESTABLISHED) (hty : m.mtype = mLogon)
    (hpd : (m.get? tPossDupFlag).getD "N" ≠ "Y")
    (hlat : frameLatin1 (sentFrame c env m) = true)
    (hj : c.journal.persist .outbound c.sess.nextOut (sentFrame c env m) = some j) (hsock : c.sock = true) :
    sendMsg env m c =
      ⟨.ok (), { c with state := st_LOGON_INITIAL_SENT, role := roleInitiator,
                        sess := { c.sess with nextOut := c.sess.nextOut + 1 }, journal := j },
       [.onState st_LOGON_INITIAL_SENT, .write (sentFrame c env m)]⟩ := by
  obtain ⟨state, role, wasActive, sess, maxResend, testReqId, lastTime, hb, sock, journal⟩ := c
  simp only at hst hsock hj hlat
  subst hst hsock
  have a : m.mtype = "A" := hty
  have h6 : ((m.get? tPossDupFlag).getD "N" == "Y") = false := by simp [hpd]
  unfold sentFrame at hlat hj
  simp only at hlat hj
  run_simp [sendMsg, sendGate, sendCore, encodeSeq, stateSet, a, h6, buildFrame_sess, hlat, hj, sentFrame]

/-- the TestRequest `send_test_req` sends at clock `env` -/
def testReqOut (env : Env) : Msg := Msg.mk' mTestRequest [(tTestReqID, pyStr env.secs)]

/-- S3: `send_test_req` on an ACTIVE connection without an outstanding request -/
theorem sendTestReq_closed {env : Env} {c : Conn} {j : Journal}
    (hst : c.state = st_ACTIVE) (hreq : c.testReqId = none)
    (hlat : frameLatin1 (sentFrame c env (testReqOut env)) = true)
    (hj : c.journal.persist .outbound c.sess.nextOut (sentFrame c env (testReqOut env)) = some j)
    (hsock : c.sock = true) :
    sendTestReq env c =
      ⟨.ok (), { c with testReqId := some env.secs, sess := { c.sess with nextOut := c.sess.nextOut + 1 }, journal := j },
       [.write (sentFrame c env (testReqOut env))]⟩ := by
  obtain ⟨state, role, wasActive, sess, maxResend, testReqId, lastTime, hb, sock, journal⟩ := c
  simp only at hst hsock hj hlat hreq
  subst hst hsock hreq
  unfold sentFrame testReqOut at hlat hj
  simp only [Msg.mk', mTestRequest, tTestReqID] at hlat hj
  run_simp [sendTestReq, sendMsg, sendGate, sendCore, encodeSeq, Msg.mk', Msg.get?, Msg.lookup, tPossDupFlag, tTestReqID,
    buildFrame_sess, hlat, hj, sentFrame, testReqOut]

/-- R4: the acceptor's side of the Logon: LOGON_INITIAL_RECV, role ACCEPTOR, answer through `send_msg`,
ACTIVE, `on_logon(True)`, counted / stamped / journaled -/
theorem recv_logon_acceptor {sr : Msg → Bool} {env : Env} {c : Conn} {f : Msg} {v e h : String} {j1 j2 : Journal}
    (ha : Addressed c f v c.sess.nextIn) (hst : c.state = st_NETWORK_CONN_ESTABLISHED) (hty : f.mtype = mLogon)
    (h98 : f.get? tEncryptMethod = some e) (h108 : f.get? tHeartBtInt = some h)
    (hlat : frameLatin1 (sentFrame c env (logonReply f)) = true)
    (hj1 : c.journal.persist .outbound c.sess.nextOut (sentFrame c env (logonReply f)) = some j1) (hsock : c.sock = true)
    (hpos : 0 < c.sess.nextIn) (hj2 : j1.persist .inbound c.sess.nextIn f = some j2) :
    recv sr env c f =
      ({ c with state := st_ACTIVE, role := roleAcceptor, wasActive := true,
                sess := { c.sess with nextIn := c.sess.nextIn + 1, nextOut := c.sess.nextOut + 1 },
                lastTime := env.now, journal := j2 },
       [.onState st_LOGON_INITIAL_RECV, .write (sentFrame c env (logonReply f)), .onState st_ACTIVE, .onLogon true]) := by
  have hv := validateIntegrity_good ha (Int.le_refl _)
  obtain ⟨hbs, h49, h56, h34, hint⟩ := ha
  obtain ⟨state, role, wasActive, sess, maxResend, testReqId, lastTime, hb, sock, journal⟩ := c
  simp only at hst hsock hj1 hj2 hlat hpos hint h49 h56 hv
  subst hst hsock
  have a : f.mtype = "A" := hty
  have hp : ¬ sess.nextIn ≤ 0 := by omega
  unfold sentFrame logonReply at hlat hj1
  simp only [tEncryptMethod, tHeartBtInt] at h98 h108
  simp only [Msg.mk', mLogon, tEncryptMethod, tHeartBtInt, h98, h108, Option.getD_some] at hlat hj1
  simp only [st_NETWORK_CONN_ESTABLISHED] at hv
  have hpd : ¬ ((({ mtype := "A", tags := [(98, e), (108, h)] } : Msg).get? tPossDupFlag).getD "N" = "Y") := by
    simp [Msg.get?, Msg.lookup, tPossDupFlag]
  unfold recv processMessage M.run swallow
  run_simp [hv, processHead, processLogon, processDispatch, checkSeqnumGaps, finalizeMessage, setNextNumIn, persistInbound,
    stateSet, disconnect, sendMsg, sendGate, sendCore, encodeSeq, Msg.mk', hpd, tEncryptMethod, tHeartBtInt,
    a, get_of_get? h34, has_of_get? h34, has_of_get? h98, has_of_get? h108, get_of_get? h98, get_of_get? h108, hint, h34,
    buildFrame_sess, hlat, hj1, hj2, hp, sentFrame, logonReply, h98, h108]

/-- R5: the initiator's side of the Logon answer: ACTIVE, `on_logon(True)`, counted / stamped / journaled -/
theorem recv_logon_initiator {sr : Msg → Bool} {env : Env} {c : Conn} {f : Msg} {v : String} {j : Journal}
    (ha : Addressed c f v c.sess.nextIn) (hst : c.state = st_LOGON_INITIAL_SENT) (hrole : c.role = roleInitiator)
    (hty : f.mtype = mLogon) (hpos : 0 < c.sess.nextIn) (hj : c.journal.persist .inbound c.sess.nextIn f = some j) :
    recv sr env c f =
      ({ c with state := st_ACTIVE, wasActive := true, sess := { c.sess with nextIn := c.sess.nextIn + 1 },
                lastTime := env.now, journal := j },
       [.onState st_ACTIVE, .onLogon true]) := by
  have hv := validateIntegrity_good ha (Int.le_refl _)
  obtain ⟨hbs, h49, h56, h34, hint⟩ := ha
  obtain ⟨state, role, wasActive, sess, maxResend, testReqId, lastTime, hb, sock, journal⟩ := c
  simp only at hst hrole hj hpos hint h49 h56 hv
  subst hst hrole
  have a : f.mtype = "A" := hty
  have hp : ¬ sess.nextIn ≤ 0 := by omega
  simp only [st_LOGON_INITIAL_SENT, roleInitiator] at hv
  unfold recv processMessage M.run swallow
  run_simp [hv, processHead, processLogon, processDispatch, checkSeqnumGaps, finalizeMessage, setNextNumIn, persistInbound,
    stateSet, a, get_of_get? h34, has_of_get? h34, hint, h34, hj, hp]

/-- R6: a Logout on an ACTIVE connection: `on_logout`, socket closed, DISCONNECTED_WCONN_TODAY,
`on_disconnect`; the message is neither counted nor journaled -/
theorem recv_logout {sr : Msg → Bool} {env : Env} {c : Conn} {f : Msg} {v : String}
    (ha : Addressed c f v c.sess.nextIn) (hst : c.state = st_ACTIVE) (hwas : c.wasActive = true)
    (hty : f.mtype = mLogout) (hsock : c.sock = true) :
    recv sr env c f =
      ({ c with state := st_DISCONNECTED_WCONN_TODAY, testReqId := none, lastTime := 0, maxResend := 0, sock := false },
       [.onLogout f, .closeSocket, .onState st_DISCONNECTED_WCONN_TODAY, .onDisconnect]) := by
  have hv := validateIntegrity_good ha (Int.le_refl _)
  obtain ⟨hbs, h49, h56, h34, hint⟩ := ha
  obtain ⟨state, role, wasActive, sess, maxResend, testReqId, lastTime, hb, sock, journal⟩ := c
  simp only at hst hwas hsock hint h49 h56 hv
  subst hst hwas hsock
  have a : f.mtype = "5" := hty
  simp only [st_ACTIVE] at hv
  unfold recv processMessage M.run swallow
  run_simp [hv, processHead, processLogout, disconnect, stateSet, a]

end AsyncFix.Tester
