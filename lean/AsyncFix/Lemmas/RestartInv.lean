import AsyncFix.Lemmas.RestartRel

/-!
Restart family: the stored-equals-live invariant and the step relation `Good` that every handler
satisfies on runs without exceptions.

* `OutOk c`   : `journal.outSeq + 1 = sess.nextOut`
* `InExact c` : `journal.inSeq + 1 = sess.nextIn`
* `lagBy m c` : the D13 shape – the inbound row stored under `inSeq` is the SequenceReset `m`, its own
  MsgSeqNum is `inSeq` and its NewSeqNo is the live `nextIn`
* `Quiet c`   : `OutOk c ∧ (InExact c ∨ inLag c)` – what holds between two events
* `Good om c c' e` (`om` = the inbound frame being processed, if any): the relation between the
  connection before and after (part of) a handler.
-/
namespace AsyncFix.Restart

open AsyncFix.Session AsyncFix.Generated AsyncFix.Generated.ConnEnum

/-- `int(msg[34])` as the journal reads it (`find_seq_no`) -/
def seqOf (m : Msg) : Option Int := (m.get? tMsgSeqNum).bind pyInt
/-- `int(msg[36])` -/
def newSeqOf (m : Msg) : Option Int := (m.get? tNewSeqNo).bind pyInt

def OutOk (c : Conn) : Prop := c.journal.outSeq + 1 = c.sess.nextOut
def InExact (c : Conn) : Prop := c.journal.inSeq + 1 = c.sess.nextIn

instance (c : Conn) : Decidable (OutOk c) := by unfold OutOk; infer_instance
instance (c : Conn) : Decidable (InExact c) := by unfold InExact; infer_instance

/-- the stored inbound counter is the MsgSeqNum of the journaled SequenceReset `m`, the live counter its
NewSeqNo -/
def lagBy (m : Msg) (c : Conn) : Bool :=
  m.mtype == mSequenceReset && c.journal.inb.find c.journal.inSeq == some m
    && seqOf m == some c.journal.inSeq && newSeqOf m == some c.sess.nextIn

def inLag (c : Conn) : Bool :=
  match c.journal.inb.find c.journal.inSeq with
  | some m => lagBy m c
  | none => false

/-- stored = live, up to the SequenceReset lag (D13); the inbound counter is positive -/
def Quiet (c : Conn) : Prop := OutOk c ∧ 0 < c.sess.nextIn ∧ (InExact c ∨ inLag c = true)

/-- stored = live -/
def StoredEqLive (c : Conn) : Prop := OutOk c ∧ InExact c

instance (c : Conn) : Decidable (Quiet c) := by unfold Quiet; infer_instance
instance (c : Conn) : Decidable (StoredEqLive c) := by unfold StoredEqLive; infer_instance

/-- the inbound side (live counter, stored counter, rows) is untouched -/
def InSame (c c' : Conn) : Prop :=
  c'.sess.nextIn = c.sess.nextIn ∧ c'.journal.inSeq = c.journal.inSeq ∧ c'.journal.inb = c.journal.inb

theorem InSame.refl (c : Conn) : InSame c c := ⟨rfl, rfl, rfl⟩
theorem InSame.trans {a b c : Conn} (h1 : InSame a b) (h2 : InSame b c) : InSame a c :=
  ⟨h2.1.trans h1.1, h2.2.1.trans h1.2.1, h2.2.2.trans h1.2.2⟩

theorem InExact.of_same {c c' : Conn} (h : InSame c c') (hc : InExact c) : InExact c' := by
  unfold InExact at *; rw [h.1, h.2.1]; exact hc

theorem lagBy_of_same {c c' : Conn} (m : Msg) (h : InSame c c') : lagBy m c' = lagBy m c := by
  unfold lagBy; rw [h.1, h.2.1, h.2.2]

theorem inLag_of_same {c c' : Conn} (h : InSame c c') : inLag c' = inLag c := by
  unfold inLag; rw [h.2.1, h.2.2]
  split <;> simp [lagBy_of_same _ h]

theorem inLag_of_lagBy {m : Msg} {c : Conn} (h : lagBy m c = true) : inLag c = true := by
  unfold inLag
  have h' := h
  simp only [lagBy, Bool.and_eq_true, beq_iff_eq] at h'
  rw [h'.1.1.2]; exact h

/-- a frame that takes a NEW number in `Codec.encode` (not a SequenceReset, not PossDupFlag=Y) -/
def isNewFrame (f : Msg) : Bool :=
  !(f.mtype == mSequenceReset) && !((f.get? tPossDupFlag).getD "N" == "Y")

/-- the encoder's own test: does the message carry its own MsgSeqNum -/
def ownSeq (m : Msg) : Bool := m.mtype == mSequenceReset || (m.get? tPossDupFlag).getD "N" == "Y"

/-- every new frame written in `e` carries a number below `b` -/
def NewWritesBelow (e : List Effect) (b : Int) : Prop :=
  ∀ f n, Effect.write f ∈ e → isNewFrame f = true → f.get? tMsgSeqNum = some (pyStr n) → n < b

theorem NewWritesBelow.nil (b : Int) : NewWritesBelow [] b := fun _ _ h => by cases h
theorem NewWritesBelow.mono {e : List Effect} {b b' : Int} (h : NewWritesBelow e b) (hb : b ≤ b') :
    NewWritesBelow e b' := fun f n hf hn hs => Int.lt_of_lt_of_le (h f n hf hn hs) hb
theorem NewWritesBelow.append {e1 e2 : List Effect} {b : Int} (h1 : NewWritesBelow e1 b)
    (h2 : NewWritesBelow e2 b) : NewWritesBelow (e1 ++ e2) b := fun f n hf hn hs => by
  rcases List.mem_append.mp hf with h | h
  · exact h1 f n h hn hs
  · exact h2 f n h hn hs

/-- no frame written in `e` is a new one -/
def NoNewWrites (e : List Effect) : Prop := ∀ f, Effect.write f ∈ e → isNewFrame f = false

theorem NoNewWrites.below {e : List Effect} (h : NoNewWrites e) (b : Int) : NewWritesBelow e b :=
  fun f _ hf hn _ => by rw [h f hf] at hn; cases hn

/-- NewSeqNo of the SequenceReset being processed is already the live counter -/
def P2 (m : Msg) (c : Conn) : Prop := m.mtype = mSequenceReset → newSeqOf m = some c.sess.nextIn

structure Good (om : Option Msg) (c c' : Conn) (e : List Effect) : Prop where
  out : OutOk c → OutOk c'
  mono : c.sess.nextOut ≤ c'.sess.nextOut
  writes : NewWritesBelow e c'.sess.nextOut
  inb : InSame c c' ∨ InExact c' ∨ (∃ m, om = some m ∧ lagBy m c' = true)
  ids : c'.sess.sender = c.sess.sender ∧ c'.sess.target = c.sess.target ∧ c'.hb = c.hb
  pos : 0 < c.sess.nextIn → 0 < c'.sess.nextIn

instance (om : Option Msg) : Compositional (Good om) where
  refl := fun c => ⟨id, Int.le_refl _, NewWritesBelow.nil _, Or.inl (InSame.refl c), ⟨rfl, rfl, rfl⟩, id⟩
  trans := by
    intro c c1 c2 e1 e2 h1 h2
    refine ⟨fun h => h2.out (h1.out h), Int.le_trans h1.mono h2.mono,
      NewWritesBelow.append (h1.writes.mono h2.mono) h2.writes, ?_,
      ⟨h2.ids.1.trans h1.ids.1, h2.ids.2.1.trans h1.ids.2.1, h2.ids.2.2.trans h1.ids.2.2⟩,
      fun h => h2.pos (h1.pos h)⟩
    rcases h2.inb with hs | hb | hc
    · rcases h1.inb with hs1 | hb1 | ⟨m, hm, hl⟩
      · exact Or.inl (hs1.trans hs)
      · exact Or.inr (Or.inl (hb1.of_same hs))
      · exact Or.inr (Or.inr ⟨m, hm, by rw [lagBy_of_same m hs]; exact hl⟩)
    · exact Or.inr (Or.inl hb)
    · exact Or.inr (Or.inr hc)

/-- the step relation carries the quiescent invariant -/
theorem Good.quiet {om : Option Msg} {c c' : Conn} {e : List Effect} (h : Good om c c' e) (hq : Quiet c) :
    Quiet c' := by
  refine ⟨h.out hq.1, h.pos hq.2.1, ?_⟩
  rcases h.inb with hs | hb | ⟨m, _, hl⟩
  · rcases hq.2.2 with hi | hl
    · exact Or.inl (hi.of_same hs)
    · exact Or.inr (by rw [inLag_of_same hs]; exact hl)
  · exact Or.inl hb
  · exact Or.inr (inLag_of_lagBy hl)

/-- history-level relation (forgets which frame was being processed) -/
structure GoodH (c c' : Conn) (e : List Effect) : Prop where
  quiet : Quiet c → Quiet c'
  mono : c.sess.nextOut ≤ c'.sess.nextOut
  writes : NewWritesBelow e c'.sess.nextOut
  ids : c'.sess.sender = c.sess.sender ∧ c'.sess.target = c.sess.target ∧ c'.hb = c.hb

theorem Good.toH {om : Option Msg} {c c' : Conn} {e : List Effect} (h : Good om c c' e) : GoodH c c' e :=
  ⟨h.quiet, h.mono, h.writes, h.ids⟩

instance : Compositional GoodH where
  refl := fun _ => ⟨id, Int.le_refl _, NewWritesBelow.nil _, rfl, rfl, rfl⟩
  trans := fun h1 h2 => ⟨fun h => h2.quiet (h1.quiet h), Int.le_trans h1.mono h2.mono,
    NewWritesBelow.append (h1.writes.mono h2.mono) h2.writes,
    h2.ids.1.trans h1.ids.1, h2.ids.2.1.trans h1.ids.2.1, h2.ids.2.2.trans h1.ids.2.2⟩

end AsyncFix.Restart
