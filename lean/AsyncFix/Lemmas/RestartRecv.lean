import AsyncFix.Lemmas.RestartSend

/-!
Restart family: the inbound handlers (everything but resend servicing and `_finalize_message`) satisfy
`Good` on runs without exceptions.
-/
set_option linter.unusedSectionVars false

namespace AsyncFix.Restart

open AsyncFix.Session AsyncFix.Generated AsyncFix.Generated.ConnEnum

variable {g : List Effect → Bool} [EffGuard g] {om : Option Msg}

/-! ### `set_seq_num` pointwise -/

theorem setSeqNum_in_apply (n : Int) (c : Conn) :
    setSeqNum none (some n) c =
      if n > 0 then ⟨.ok (), { c with sess := { c.sess with nextIn := n },
                                      journal := c.journal.setSeq c.sess.nextOut n }, []⟩
      else ⟨.error .assertion, c, []⟩ := by
  unfold setSeqNum
  by_cases h : n > 0 <;> simp [h]

theorem setSeqNum_out_apply (n : Int) (c : Conn) :
    setSeqNum (some n) none c =
      if n > 0 then ⟨.ok (), { c with sess := { c.sess with nextOut := n },
                                      journal := c.journal.setSeq n c.sess.nextIn }, []⟩
      else ⟨.error .assertion, c, []⟩ := by
  unfold setSeqNum
  by_cases h : n > 0 <;> simp [h]

theorem setSeqNum_in_good (n : Int) : OkRel g (Good om) (setSeqNum none (some n)) := by
  constructor
  intro c a c' e h _
  rw [setSeqNum_in_apply] at h
  split at h
  · rename_i hn
    cases h
    refine ⟨fun _ => ?_, Int.le_refl _, NewWritesBelow.nil _, Or.inr (Or.inl ?_), ⟨rfl, rfl, rfl⟩, fun _ => hn⟩
    · show c.sess.nextOut - 1 + 1 = c.sess.nextOut; omega
    · show n - 1 + 1 = n; omega
  · cases h

/-! ### messages the session layer builds itself take new numbers -/

theorem ownSeq_mk' (ty : String) (tags : List (Nat × String)) (h1 : (ty == mSequenceReset) = false)
    (h2 : Msg.lookup tPossDupFlag tags = none) : ownSeq (Msg.mk' ty tags) = false := by
  simp [ownSeq, Msg.mk', Msg.get?, h1, h2]

theorem ownSeq_logout (text : String) : ownSeq (logoutMsg text) = false := by
  unfold logoutMsg
  apply ownSeq_mk'
  · simp [mLogout, mSequenceReset]
  · split <;> simp [Msg.lookup, tText, tPossDupFlag]

section walk
-- the guard is `excFree` from here on: `disconnect` swallows the exception of an unsendable Logout
local notation "g" => excFree
attribute [local irreducible] disconnect stateSet sendMsg setSeqNum M.bind' M.pure' M.get M.modify M.emit M.throw
  M.liftE M.assert M.int

theorem sendTestReq_good (env : Env) : OkRel g (Good om) (sendTestReq env) := by
  unfold sendTestReq
  ok_tac [Good.modify, sendMsg_good]

theorem disconnect_good (env : Env) (d : Nat) (l : Option String) : OkRel g (Good om) (disconnect env d l) := by
  unfold disconnect
  ok_tac [Good.modify, Good.emit, sendMsg_good, stateSet_good, ownSeq_logout]

theorem validateIntegrity_good (m : Msg) : OkRel g (Good om) (validateIntegrity m) := by
  unfold validateIntegrity
  ok_tac []

theorem checkSeqnumGaps_good (env : Env) (n : Int) : OkRel g (Good om) (checkSeqnumGaps env n) := by
  unfold checkSeqnumGaps
  ok_tac [Good.modify, sendMsg_good, stateSet_good]

theorem processLogon_good (env : Env) (m : Msg) : OkRel g (Good om) (processLogon env m) := by
  unfold processLogon
  ok_tac [Good.modify, Good.emit, sendMsg_good, stateSet_good, disconnect_good]

theorem processLogout_good (env : Env) (m : Msg) : OkRel g (Good om) (processLogout env m) := by
  unfold processLogout
  ok_tac [Good.emit, disconnect_good]

theorem processTestRequest_good (env : Env) (m : Msg) : OkRel g (Good om) (processTestRequest env m) := by
  unfold processTestRequest
  ok_tac [sendMsg_good]

theorem processHeartbeat_good (env : Env) (m : Msg) : OkRel g (Good om) (processHeartbeat env m) := by
  unfold processHeartbeat
  ok_tac [Good.modify, disconnect_good]

theorem processSeqreset_good (m : Msg) : OkRel g (Good om) (processSeqreset m) := by
  unfold processSeqreset
  ok_tac [setSeqNum_in_good]

end walk

end AsyncFix.Restart
