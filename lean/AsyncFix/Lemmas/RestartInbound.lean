import AsyncFix.Lemmas.RestartFinal

/-!
Restart family: the crash states of inbound processing of an APPLICATION message.

Segments 1-4 never touch the inbound side of the journal (whatever happens in them); segment 5 journals
the frame under its own number, and it is only reached when the frame was the expected one and had been
handed to `on_message` in segment 2.
-/
set_option linter.unusedSectionVars false

namespace AsyncFix.Restart

open AsyncFix.Session AsyncFix.Generated AsyncFix.Generated.ConnEnum

/-- not one of the session-level types (`noreply_msgs` of connection.py, generated) -/
def isApp (m : Msg) : Bool := !ConnEnum.noReplay.contains m.mtype

theorem isApp_types {m : Msg} (h : isApp m = true) :
    (m.mtype == mHeartbeat) = false ∧ (m.mtype == mTestRequest) = false ∧ (m.mtype == mResendRequest) = false ∧
    (m.mtype == mSequenceReset) = false ∧ (m.mtype == mLogout) = false ∧ (m.mtype == mLogon) = false := by
  simp only [isApp, ConnEnum.noReplay, List.contains_cons, List.contains_nil, Bool.or_false, Bool.not_eq_true',
    Bool.or_eq_false_iff] at h
  simp only [mHeartbeat, mTestRequest, mResendRequest, mSequenceReset, mLogout, mLogon]
  obtain ⟨h0, h1, h2, h4, h5, hA⟩ := h
  exact ⟨h0, h1, h2, h4, h5, hA⟩

/-! ### all outcomes: the inbound side is untouched by everything that only reads and sends -/

def InSameR (c c' : Conn) (_ : List Effect) : Prop := InSame c c'

instance : Compositional InSameR where
  refl := fun c => InSame.refl c
  trans := fun h1 h2 => InSame.trans h1 h2

theorem InSameR.modify {f : Conn → Conn}
    (h : ∀ c, (f c).sess.nextIn = c.sess.nextIn ∧ (f c).journal = c.journal) : M.Rel InSameR (M.modify f) :=
  ⟨fun c => by
    simp only [M.modify_apply]
    exact ⟨(h c).1, by rw [(h c).2], by rw [(h c).2]⟩⟩

theorem InSameR.emit (e : Effect) : M.Rel InSameR (M.emit e) := ⟨fun c => InSame.refl c⟩

theorem stateSet_insame (s : Nat) : M.Rel InSameR (stateSet s) := by
  unfold stateSet
  exact M.Rel.bind (InSameR.modify fun _ => ⟨rfl, rfl⟩) (fun _ => ⟨fun c => InSame.refl c⟩)

theorem sendGate_insame (m : Msg) : M.Rel InSameR (sendGate m) := by
  unfold sendGate
  rel_tac [stateSet_insame, InSameR.modify]
  all_goals exact ⟨rfl, rfl⟩

theorem encodeSeq_insame (m : Msg) : M.Rel InSameR (encodeSeq m) := by
  unfold encodeSeq
  rel_tac [InSameR.modify]
  all_goals exact ⟨rfl, rfl⟩

theorem sendCore_insame (env : Env) (m : Msg) : M.Rel InSameR (sendCore env m) := by
  constructor
  intro c
  unfold sendCore
  simp only [M.get_bind_apply, M.ite_apply, M.throw_apply]
  split
  · exact InSame.refl c
  · have hs := (encodeSeq_insame m).out c
    rcases he : encodeSeq m c with ⟨r, c1, e1⟩
    rw [he] at hs
    cases r with
    | error ex => rw [M.bind_err he]; exact hs
    | ok seq =>
      rw [M.bind_ok he]
      simp only [M.get_bind_apply, M.ite_apply]
      split
      · simp only [M.modify_bind_apply, M.throw_apply]
        exact ⟨hs.1, hs.2.1, hs.2.2⟩
      · generalize buildFrame c1.sess env.stamp m seq = fr
        cases hj : c1.journal.persist Dir.outbound seq fr with
        | none => simp only [M.throw_apply]; exact hs
        | some j =>
          obtain ⟨_, hi, hb⟩ := persist_out_fields hj
          simp only [M.modify_bind_apply, M.ite_apply, M.throw_apply, M.emit_apply]
          split
          · exact ⟨hs.1, hi.trans hs.2.1, hb.trans hs.2.2⟩
          · exact ⟨hs.1, hi.trans hs.2.1, hb.trans hs.2.2⟩

theorem sendMsg_insame (env : Env) (m : Msg) : M.Rel InSameR (sendMsg env m) := by
  unfold sendMsg
  exact M.Rel.bind (sendGate_insame m) (fun _ => sendCore_insame env m)

section walk
attribute [local irreducible] stateSet sendMsg M.bind' M.pure' M.get M.modify M.emit M.throw M.liftE M.assert M.int

theorem disconnect_insame (env : Env) (d : Nat) (l : Option String) : M.Rel InSameR (disconnect env d l) := by
  unfold disconnect
  rel_tac [stateSet_insame, sendMsg_insame, InSameR.modify, InSameR.emit]
  all_goals exact ⟨rfl, rfl⟩

theorem checkSeqnumGaps_insame (env : Env) (n : Int) : M.Rel InSameR (checkSeqnumGaps env n) := by
  unfold checkSeqnumGaps
  rel_tac [stateSet_insame, sendMsg_insame, InSameR.modify]
  all_goals exact ⟨rfl, rfl⟩

theorem validateIntegrity_insame (m : Msg) : M.Rel InSameR (validateIntegrity m) := by
  unfold validateIntegrity
  rel_tac []

end walk

end AsyncFix.Restart
