/-
No single-byte SUBSTITUTION of a returned frame is returned, wherever it hits
(summed region, the `SOH 10=` tag, the CheckSum digits, the final SOH).
-/
import AsyncFix.Lemmas.CodecDecodeCorrupt
namespace AsyncFix.Model.Codec

/-- number of positions at which two byte strings differ (up to the shorter length) -/
def hamming : Bytes → Bytes → Nat
  | x :: xs, y :: ys => (if x = y then 0 else 1) + hamming xs ys
  | _, _ => 0

theorem hamming_self (l : Bytes) : hamming l l = 0 := by
  induction l with
  | nil => rfl
  | cons x xs ih => simp [hamming, ih]

theorem hamming_subst (a b : Bytes) (x y : Nat) : hamming (a ++ x :: b) (a ++ y :: b) ≤ 1 := by
  induction a with
  | nil => simp only [List.nil_append, hamming, hamming_self]; split <;> omega
  | cons c a ih => simp only [List.cons_append, hamming, if_true]; omega

/-- the value that the sum of `pre` demands -/
def ckOf (pre : Bytes) : Nat := (sum pre + 1) % 256

/-- shape of the end of a returned frame -/
theorem returned_shape {bs : Bytes} {tbl : Tbl} {raw : Bytes} {m : Msg} {n : Nat} {enc : Bytes}
    (h : decode bs tbl raw = .msg m n enc) :
    ∃ pre d1 d2 d3 tail, enc = pre ++ [1, 49, 48, 61, d1, d2, d3] ++ tail ∧ (tail = [] ∨ tail = [SOH]) ∧
      ckParse [d1, d2, d3] = some (ckOf pre) := by
  obtain ⟨pre, v, tail, he, ht, _, hp, _⟩ := decode_checksum' h
  obtain ⟨d1, d2, d3, hv, _⟩ := ckParse_some hp
  subst hv
  exact ⟨pre, d1, d2, d3, tail, by rw [he]; simp [ck3, SOH], ht, hp⟩

/-- two returned frames with the same `pre` are equal up to the optional final SOH -/
theorem same_pre_same_digits {p : Bytes} {d1 d2 d3 e1 e2 e3 : Nat}
    (h1 : ckParse [d1, d2, d3] = some (ckOf p)) (h2 : ckParse [e1, e2, e3] = some (ckOf p)) :
    d1 = e1 ∧ d2 = e2 ∧ d3 = e3 := by
  have := ckParse_inj h1 h2
  simp only [List.cons.injEq, and_true] at this
  exact this

/-- split an equation `pre ++ T = a ++ x :: b` : the position lies in `pre` or in `T` -/
theorem subst_position {pre T a b : Bytes} {x : Nat} (h : pre ++ T = a ++ x :: b) :
    (∃ b', pre = a ++ x :: b' ∧ b = b' ++ T) ∨ (∃ a', a = pre ++ a' ∧ T = a' ++ x :: b) := by
  rcases List.append_eq_append_iff.1 h with ⟨a', ha, hT⟩ | ⟨c', hc, hb⟩
  · exact Or.inr ⟨a', ha, hT⟩
  · cases c' with
    | nil =>
      simp only [List.append_nil, List.nil_append] at hc hb
      exact Or.inr ⟨[], by simp [hc], hb.symm⟩
    | cons c cs =>
      simp only [List.cons_append, List.cons.injEq] at hb
      left
      refine ⟨cs, by rw [hc, hb.1], hb.2⟩

/-- **every single-byte substitution of a returned frame is rejected**: if the frame `a ++ x :: b`
is returned by the decoder then `a ++ y :: b` (`y ≠ x`, bytes < 256) is never returned. -/
theorem substitution_never_returned {bs : Bytes} {tbl : Tbl} {raw : Bytes} {m : Msg} {n : Nat}
    {a b : Bytes} {x y : Nat}
    (h : decode bs tbl raw = .msg m n (a ++ x :: b)) (hxy : x ≠ y) (hx : x < 256) (hy : y < 256) :
    ∀ bs' tbl' raw' m' n', decode bs' tbl' raw' ≠ .msg m' n' (a ++ y :: b) := by
  intro bs' tbl' raw' m' n' h'
  obtain ⟨pre, d1, d2, d3, tail, he, ht, hp⟩ := returned_shape h
  obtain ⟨p2, e1, e2, e3, t2, he2, ht2, hp2⟩ := returned_shape h'
  have hne : a ++ x :: b ≠ a ++ y :: b := by
    intro hh
    have := List.append_cancel_left hh
    simp only [List.cons.injEq, and_true] at this
    exact hxy this
  rw [List.append_assoc] at he he2
  rcases subst_position he.symm with ⟨b', hpre, hb⟩ | ⟨a', ha, hT⟩
  · -- the substitution lies in the summed region: the sums differ
    subst hb
    have he2' : (a ++ y :: b') ++ ([1, 49, 48, 61, d1, d2, d3] ++ tail) = p2 ++ ([1, 49, 48, 61, e1, e2, e3] ++ t2) := by
      rw [← he2]; simp
    have hdec := ck_decomp_unique (p1 := a ++ y :: b') (p2 := p2) (v1 := [d1, d2, d3]) (v2 := [e1, e2, e3])
      (t1 := tail) (t2 := t2) (by simpa [ck3, SOH] using he2') (ckParse_noSep hp) (ckParse_noSep hp2) ht ht2
    obtain ⟨hpp, hvv, _⟩ := hdec
    rw [← hpp, ← hvv, hp, hpre] at hp2
    simp only [Option.some.injEq, ckOf] at hp2
    have := sum_subst_ne (a := a) (b := b') hx hy hxy
    exact this hp2
  · -- the substitution lies in the CheckSum field / final SOH
    subst ha
    have hlen : (a' ++ y :: b).length = ([1, 49, 48, 61, d1, d2, d3] ++ tail).length := by
      rw [hT]; simp
    have he2' : pre ++ (a' ++ y :: b) = p2 ++ ([1, 49, 48, 61, e1, e2, e3] ++ t2) := by
      rw [← he2]; simp
    have hham := hamming_subst a' b x y
    rw [← hT] at hham
    rcases ht with rfl | rfl <;> rcases ht2 with rfl | rfl
    · -- same length: same `pre`, hence the same digits
      obtain ⟨hpp, hTT⟩ := List.append_inj' he2' (by simpa using hlen)
      subst hpp
      obtain ⟨q1, q2, q3⟩ := same_pre_same_digits hp hp2
      subst q1; subst q2; subst q3
      apply hne
      rw [List.append_assoc, List.append_assoc, ← hT, hTT]
    · -- the corrupted frame would have to end `… SOH 1 0 = d d d SOH` one byte earlier
      simp only [List.append_nil] at hlen hT hham
      have : ∃ z, pre = p2 ++ [z] := by
        have hl := congrArg List.length he2'
        simp only [List.length_append, List.length_cons, List.length_nil] at hl hlen
        rcases List.eq_nil_or_concat pre with hn | ⟨q, z, hq⟩
        · subst hn; simp at hl; omega
        · rw [List.concat_eq_append] at hq
          subst hq
          rw [List.append_assoc] at he2'
          have := (List.append_inj he2' (by simp at hl ⊢; omega)).1
          exact ⟨z, by rw [this]⟩
      obtain ⟨z, hz⟩ := this
      subst hz
      rw [List.append_assoc] at he2'
      have hU := List.append_cancel_left he2'
      simp only [List.cons_append, List.nil_append] at hU
      -- a' ++ y :: b = [49,48,61,e1,e2,e3,1] after dropping z … compare with T
      have hz : z :: (a' ++ y :: b) = [1, 49, 48, 61, e1, e2, e3, 1] := by simpa [SOH] using hU
      cases a' with
      | nil =>
        simp only [List.nil_append, List.cons.injEq] at hz hT
        obtain ⟨_, _, hb⟩ := hz
        obtain ⟨_, hb2⟩ := hT
        rw [← hb2] at hb
        simp at hb
      | cons c cs =>
        simp only [List.cons_append, List.cons.injEq] at hz hT
        obtain ⟨_, hc, _⟩ := hz
        obtain ⟨hc2, _⟩ := hT
        omega
    · -- the corrupted frame is one byte longer than `… SOH 1 0 = d d d`
      simp only [List.append_nil] at he2'
      have hl := congrArg List.length he2'
      have : ∃ z, p2 = pre ++ [z] := by
        simp only [List.length_append, List.length_cons, List.length_nil] at hl hlen
        rcases List.eq_nil_or_concat p2 with hn | ⟨q, z, hq⟩
        · subst hn; simp at hl; omega
        · rw [List.concat_eq_append] at hq
          subst hq
          rw [List.append_assoc] at he2'
          have := (List.append_inj he2' (by simp at hl ⊢; omega)).1
          exact ⟨z, by rw [this]⟩
      obtain ⟨z, hz⟩ := this
      subst hz
      rw [List.append_assoc] at he2'
      have hU := List.append_cancel_left he2'
      simp only [List.cons_append, List.nil_append] at hU
      -- a' ++ y :: b = z :: [1,49,48,61,e1,e2,e3] and T = [1,49,48,61,d1,d2,d3,1]
      rw [hU] at hham
      have h2 : 2 ≤ hamming ([1, 49, 48, 61, d1, d2, d3] ++ [SOH]) [z, 1, 49, 48, 61, e1, e2, e3] := by
        simp only [SOH, List.cons_append, List.nil_append, hamming]
        have e1' : (if (49 : Nat) = 1 then 0 else 1) = 1 := by decide
        have e2' : (if (48 : Nat) = 49 then 0 else 1) = 1 := by decide
        rw [e1', e2']
        omega
      omega
    · obtain ⟨hpp, hTT⟩ := List.append_inj' he2' (by simpa using hlen)
      subst hpp
      obtain ⟨q1, q2, q3⟩ := same_pre_same_digits hp hp2
      subst q1; subst q2; subst q3
      apply hne
      rw [List.append_assoc, List.append_assoc, ← hT, hTT]

end AsyncFix.Model.Codec
