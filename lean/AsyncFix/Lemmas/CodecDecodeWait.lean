/-
When does `decode` ask the reader to wait (`.none 0`: nothing consumed)?  Characterisation of
that result, and stability of the parse under extension of the buffer once a complete
CheckSum field has arrived: the wait then ends at the latest when the declared length is
buffered (`closed_wait_bounded`).
-/
import AsyncFix.Lemmas.CodecDecodeShape
namespace AsyncFix.Model.Codec

/-- the total frame length that the head of the piece declares (0 when it declares none) -/
def declaredOf : List Bytes → Nat
  | f0 :: f1 :: _ =>
    match splitEq f1 with
    | some (_, v1) => (match pyInt v1 with | some bl => declaredLen f0 f1 bl | none => 0)
    | none => 0
  | _ => 0

theorem decodeFields_none_zero {bs : Bytes} {tbl : Tbl} {rawLen vi w : Nat} {fields : List Bytes} {enc : Bytes}
    (h : decodeFields bs tbl rawLen vi w fields enc = .none 0) :
    (fields.length < 3 ∧ w = 0) ∨ rawLen = 0 ∨
    (vi = 0 ∧ 3 ≤ fields.length ∧ rawLen < declaredOf fields) := by
  unfold decodeFields at h
  split at h
  · rename_i hl
    left; cases h; exact ⟨hl, rfl⟩
  · rename_i hlen
    split at h
    · rename_i f0 f1 rest
      split at h
      · cases h
      · split at h
        · cases h; exact Or.inr (Or.inl rfl)
        · split at h
          · cases h; exact Or.inr (Or.inl rfl)
          · rename_i t1 v1 hs1
            split at h
            · cases h; exact Or.inr (Or.inl rfl)
            · split at h
              · cases h; exact Or.inr (Or.inl rfl)
              · rename_i bl hbl
                split at h
                · cases h; exact Or.inr (Or.inl rfl)
                · dsimp only at h
                  split at h
                  · rename_i hgt
                    cases h
                    right; right
                    refine ⟨rfl, by omega, ?_⟩
                    simp only [declaredOf, hs1, hbl]
                    omega
                  · split at h
                    · cases h
                    · cases h; exact Or.inr (Or.inl rfl)
                    · split at h
                      · cases h
                      · exfalso
                        simp only [DecRes.none.injEq] at h
                        unfold declaredLen at h
                        omega
    · rename_i hno
      exfalso
      match fields, hlen, hno with
      | [], hlen, _ => simp at hlen
      | [_], hlen, _ => simp at hlen
      | f0 :: f1 :: tl, _, hno => exact hno f0 f1 tl rfl

/-! ### the proper-prefix-of-the-marker case -/

theorem partialKeep_zero {raw : Bytes} (h : raw.length - partialMarkerKeep raw = 0) :
    raw.length ≤ 5 ∧ raw = marker.take raw.length := by
  unfold partialMarkerKeep at h
  dsimp only at h
  have key : ∀ k, (decide (k ≤ raw.length) && (raw.drop (raw.length - k) == marker.take k)) = true →
      raw.length - k = 0 → raw.length = k ∧ raw = marker.take raw.length := by
    intro k hk h0
    simp only [Bool.and_eq_true, decide_eq_true_eq, beq_iff_eq] at hk
    have hl : raw.length = k := by omega
    rw [h0, List.drop_zero] at hk
    exact ⟨hl, by rw [hl]; exact hk.2⟩
  split at h
  · rename_i hk; have := key 5 hk h; exact ⟨by omega, this.2⟩
  · split at h
    · rename_i hk; have := key 4 hk h; exact ⟨by omega, this.2⟩
    · split at h
      · rename_i hk; have := key 3 hk h; exact ⟨by omega, this.2⟩
      · split at h
        · rename_i hk; have := key 2 hk h; exact ⟨by omega, this.2⟩
        · split at h
          · rename_i hk; have := key 1 hk h; exact ⟨by omega, this.2⟩
          · have : raw = [] := List.length_eq_zero_iff.1 (by omega)
            subst this; exact ⟨by simp, rfl⟩

/-- **characterisation of "wait"**: `decode` consumes nothing only if
 (a) the buffer is a proper prefix of the frame-start marker, or
 (b) it starts with the marker, no complete CheckSum field has arrived and the piece has fewer than
     three fields, or
 (c) it starts with the marker, has at least three fields, and the length it declares exceeds
     what is buffered. -/
theorem decode_none_zero {bs : Bytes} {tbl : Tbl} {raw : Bytes} (h : decode bs tbl raw = .none 0) :
    (findSub marker raw = none ∧ raw.length ≤ 5 ∧ raw = marker.take raw.length) ∨
    (isPrefix marker raw = true ∧ ckOpen raw = true) ∨
    (isPrefix marker raw = true ∧ findSub cksumPat raw = none ∧
      (fieldsOf (raw.take (cutOf raw))).length < 3) ∨
    (isPrefix marker raw = true ∧ 3 ≤ (fieldsOf (raw.take (cutOf raw))).length ∧
      raw.length < declaredOf (fieldsOf (raw.take (cutOf raw)))) := by
  rw [decode_eq] at h
  cases hvi : findSub marker raw with
  | none =>
    rw [hvi] at h
    simp only [DecRes.none.injEq] at h
    exact Or.inl ⟨rfl, partialKeep_zero h⟩
  | some vi =>
    rw [hvi] at h
    dsimp only at h
    obtain ⟨b, hb, hle⟩ := drop_of_findSub hvi
    have hlen : 6 ≤ raw.length := by
      have := findSub_le hvi
      simp only [marker, List.length_cons, List.length_nil] at this
      omega
    right
    split at h
    · rename_i hopen
      simp only [DecRes.none.injEq] at h
      subst h
      simp only [List.drop_zero] at hb hopen
      exact Or.inl ⟨by rw [hb]; exact isPrefix_append _ _, hopen⟩
    rename_i hopen
    right
    rcases decodeFields_none_zero h with ⟨h1, h2⟩ | h1 | ⟨h1, h2, h3⟩
    · left
      unfold waitResOf at h2
      split at h2
      · rename_i hc
        obtain ⟨c, hc'⟩ := Option.isSome_iff_exists.1 hc
        have := (closedAtOf_le hc').1
        unfold cutOf at h2
        rw [hc', Option.getD_some] at h2
        omega
      · rename_i hc
        subst h2
        simp only [List.drop_zero] at hb h1 hc
        simp only [List.drop_zero] at hopen
        refine ⟨by rw [hb]; exact isPrefix_append _ _, ?_, h1⟩
        cases hcl : closedAtOf raw with
        | none =>
          cases hci : findSub cksumPat raw with
          | none => rfl
          | some ci => exfalso; apply hopen; simp [ckOpen, hci, hcl]
        | some c => rw [hcl] at hc; simp at hc
    · omega
    · right
      subst h1
      simp only [List.drop_zero] at hb h2 h3
      exact ⟨by rw [hb]; exact isPrefix_append _ _, h2, h3⟩

/-! ### stability under extension once the frame is closed -/

theorem closedAtOf_append {msg : Bytes} {c : Nat} (ext : Bytes) (h : closedAtOf msg = some c) :
    closedAtOf (msg ++ ext) = some c := by
  unfold closedAtOf at h ⊢
  split at h
  · rename_i ci hci
    split at h
    · rename_i e he
      have hle := findSub_le hci
      simp only [cksumPat, List.length_cons, List.length_nil] at hle
      rw [findSub_append ext hci]
      dsimp only
      rw [List.drop_append_of_le_length (by omega), findChar_append ext he]
      exact h
    · cases h
  · cases h

theorem decode_append_closed {bs : Bytes} {tbl : Tbl} {raw : Bytes} {vi c : Nat} (ext : Bytes)
    (hvi : findSub marker raw = some vi) (hc : closedAtOf (raw.drop vi) = some c) :
    decode bs tbl (raw ++ ext) =
      decodeFields bs tbl (raw ++ ext).length vi (vi + c)
        (fieldsOf ((raw.drop vi).take c)) ((raw.drop vi).take c) := by
  rw [decode_eq, findSub_append ext hvi]
  dsimp only
  obtain ⟨b, hb, hle⟩ := drop_of_findSub hvi
  have hd : (raw ++ ext).drop vi = raw.drop vi ++ ext := List.drop_append_of_le_length hle
  have hc' := closedAtOf_append ext hc
  have hcle := (closedAtOf_le hc).2
  rw [hd]
  have hcut : cutOf (raw.drop vi ++ ext) = c := by unfold cutOf; rw [hc', Option.getD_some]
  have hw : waitResOf vi (raw.drop vi ++ ext) = vi + c := by
    unfold waitResOf; rw [hc', hcut]; simp
  have hno : ckOpen (raw.drop vi ++ ext) = false := by simp [ckOpen, hc']
  rw [hno, hcut, hw, List.take_append_of_le_length hcle]
  simp

/-- Once a complete CheckSum field has arrived (at or after the first marker), the decoder stops
waiting at the latest when `vi + declared length` bytes are buffered – for EVERY continuation of
the stream. -/
theorem closed_wait_bounded (bs : Bytes) (tbl : Tbl) {raw : Bytes} {vi c : Nat}
    (hvi : findSub marker raw = some vi) (hc : closedAtOf (raw.drop vi) = some c) (ext : Bytes)
    (hN : vi + declaredOf (fieldsOf ((raw.drop vi).take c)) ≤ (raw ++ ext).length) :
    decode bs tbl (raw ++ ext) ≠ .none 0 := by
  intro h
  rw [decode_append_closed ext hvi hc] at h
  have hlen : 6 ≤ raw.length := by
    have := findSub_le hvi
    simp only [marker, List.length_cons, List.length_nil] at this
    omega
  have hc2 := (closedAtOf_le hc).1
  rcases decodeFields_none_zero h with ⟨_, h2⟩ | h1 | ⟨h1, _, h3⟩
  · omega
  · simp only [List.length_append] at h1; omega
  · omega

/-- a buffer that contains, after a marker, a complete CheckSum field is "closed" -/
theorem closed_of_contains {p q v r : Bytes} :
    ∃ vi c, findSub marker (p ++ marker ++ q ++ cksumPat ++ v ++ SOH :: r) = some vi ∧
      closedAtOf ((p ++ marker ++ q ++ cksumPat ++ v ++ SOH :: r).drop vi) = some c := by
  generalize hraw : p ++ marker ++ q ++ cksumPat ++ v ++ SOH :: r = raw
  have hocc : raw = p ++ (marker ++ (q ++ cksumPat ++ v ++ SOH :: r)) := by
    rw [← hraw]; simp only [List.append_assoc]
  cases hvi : findSub marker raw with
  | none => exact absurd hocc (findSub_none (by decide) hvi _ _)
  | some vi =>
    refine ⟨vi, ?_⟩
    have hmin := findSub_min hvi hocc
    -- the piece after `vi` still contains the checksum pattern followed by an SOH
    have hmsg : raw.drop vi = (p ++ marker ++ q).drop vi ++ (cksumPat ++ (v ++ SOH :: r)) := by
      rw [← hraw]
      have : p ++ marker ++ q ++ cksumPat ++ v ++ SOH :: r
          = (p ++ marker ++ q) ++ (cksumPat ++ (v ++ SOH :: r)) := by simp only [List.append_assoc]
      rw [this]
      exact List.drop_append_of_le_length (by simp only [List.length_append]; omega)
    generalize raw.drop vi = msg at hmsg
    generalize (p ++ marker ++ q).drop vi = x at hmsg
    cases hci : findSub cksumPat msg with
    | none => exact absurd hmsg (findSub_none (by decide) hci _ _)
    | some ci =>
      have hcmin := findSub_min hci hmsg
      cases he : findChar SOH (msg.drop (ci + 1)) with
      | none =>
        exfalso
        apply findChar_none he
        have : msg = (x ++ cksumPat ++ v) ++ SOH :: r := by rw [hmsg]; simp only [List.append_assoc]
        rw [this, List.drop_append_of_le_length (by simp [cksumPat]; omega)]
        simp
      | some e =>
        exact ⟨e + (ci + 1) + 1, rfl, by unfold closedAtOf; rw [hci]; dsimp only; rw [he]⟩

end AsyncFix.Model.Codec
