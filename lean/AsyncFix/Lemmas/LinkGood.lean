import AsyncFix.Lemmas.LinkTags

/-!
C07, well-formedness of the executable Link model's data (`FrameGood`, `ConnGood`, `LinkGood`) and the
fields of frames built by `buildFrame`.

`FrameGood snd tgt f` lists exactly the facts about a frame that `_process_message`, `_process_resend` and the
abstraction `absFrame` look at; every frame an endpoint of the Link writes satisfies it (proved in
`LinkSend` / `LinkResend`).
-/
namespace AsyncFix.Link

open AsyncFix.Session AsyncFix.Generated AsyncFix.Generated.ConnEnum
open AsyncFix.Session.Msg

/-- kind-specific fields of a frame -/
def KindOK (f : Msg) : Prop :=
  if f.mtype = mLogon then
    f.has tEncryptMethod = true ∧ f.has tHeartBtInt = true ∧ f.get? tPossDupFlag = none
  else if f.mtype = mResendRequest then
    (∃ b : Int, f.get? tBeginSeqNo = some (pyStr b)) ∧ f.get? tEndSeqNo = some "0" ∧ f.get? tPossDupFlag = none
  else if f.mtype = mSequenceReset then
    f.get? tGapFillFlag = some "Y" ∧ (∃ nw : Int, f.get? tNewSeqNo = some (pyStr nw)) ∧ f.get? tPossDupFlag = none
  else if f.mtype = mLogout then f.get? tPossDupFlag = none
  else f.mtype ≠ mHeartbeat ∧ f.mtype ≠ mTestRequest

structure FrameGood (snd tgt : String) (f : Msg) : Prop where
  bs : f.get? tBeginString = some Proto.beginString
  s49 : f.get? tSenderCompID = some snd
  s56 : f.get? tTargetCompID = some tgt
  seq : ∃ n : Int, f.get? tMsgSeqNum = some (pyStr n)
  ty : f.get? tMsgType = some f.mtype
  h9 : f.has tBodyLength = true
  h52 : f.has tSendingTime = true
  h10 : f.has tCheckSum = true
  lat : frameLatin1 f = true
  kind : KindOK f

def Side.name : Side → String
  | .I => nameI
  | .A => nameA

/-- journal rows: frames written by the endpoint itself, filed under their own number, ascending, in `[1, o)` -/
structure RowsGood (snd tgt : String) (o : Int) (rs : Rows) : Prop where
  sorted : Sorted rs
  range : ∀ r ∈ rs, 1 ≤ r.1 ∧ r.1 < o
  good : ∀ r ∈ rs, FrameGood snd tgt r.2 ∧ r.2.get? tMsgSeqNum = some (pyStr r.1)

/-- states an endpoint rests in between two events -/
def restState (s : Nat) : Prop :=
  s = st_DISCONNECTED_NOCONN_TODAY ∨ s = st_DISCONNECTED_WCONN_TODAY ∨ s = st_DISCONNECTED_BROKEN_CONN ∨
  s = st_NETWORK_CONN_ESTABLISHED ∨ s = st_LOGON_INITIAL_SENT ∨ s = st_RESENDREQ_AWAITING ∨ s = st_ACTIVE

structure ConnGood (s : Side) (c : Conn) : Prop where
  snd : c.sess.sender = s.name
  tgt : c.sess.target = s.other.name
  st : restState c.state
  sock : c.sock = decide (st_DISCONNECTED_BROKEN_CONN < c.state)
  role : c.role = roleInitiator ∨ c.role = roleAcceptor
  e1 : 1 ≤ c.sess.nextIn
  o1 : 1 ≤ c.sess.nextOut
  rows : RowsGood s.name s.other.name c.sess.nextOut c.journal.out
  w : c.state = st_RESENDREQ_AWAITING → 0 < c.maxResend
  inb : AllLt c.sess.nextIn c.journal.inb

structure LinkGood (l : Link) : Prop where
  i : ConnGood .I l.i
  a : ConnGood .A l.a
  toA : ∀ f ∈ l.toA, FrameGood nameI nameA f
  toI : ∀ f ∈ l.toI, FrameGood nameA nameI f

/-! ### fields of `buildFrame` -/

section build
variable (s : Session) (stamp : String) (m : Msg) (n : Int)

theorem buildFrame_mtype : (buildFrame s stamp m n).mtype = m.mtype := rfl

theorem get?_build_8 : (buildFrame s stamp m n).get? tBeginString = some Proto.beginString := by
  simp [buildFrame, Msg.get?, Msg.lookup, tBeginString]

theorem has_build_9 : (buildFrame s stamp m n).has tBodyLength = true := by
  simp [buildFrame, Msg.has, Msg.get?, Msg.lookup, tBeginString, tBodyLength]

theorem get?_build_35 : (buildFrame s stamp m n).get? tMsgType = some m.mtype := by
  simp [buildFrame, Msg.get?, Msg.lookup, tBeginString, tBodyLength, tMsgType]

theorem get?_build_49 : (buildFrame s stamp m n).get? tSenderCompID = some s.sender := by
  simp [buildFrame, bodyFields, Msg.get?, Msg.lookup, tBeginString, tBodyLength, tMsgType, tSenderCompID]

theorem get?_build_56 : (buildFrame s stamp m n).get? tTargetCompID = some s.target := by
  simp [buildFrame, bodyFields, Msg.get?, Msg.lookup, tBeginString, tBodyLength, tMsgType, tSenderCompID,
    tTargetCompID]

theorem get?_build_34 : (buildFrame s stamp m n).get? tMsgSeqNum = some (pyStr n) := by
  simp [buildFrame, bodyFields, Msg.get?, Msg.lookup, tBeginString, tBodyLength, tMsgType, tSenderCompID,
    tTargetCompID, tMsgSeqNum]

theorem has_build_52 : (buildFrame s stamp m n).has tSendingTime = true := by
  simp [buildFrame, bodyFields, Msg.has, Msg.get?, Msg.lookup, tBeginString, tBodyLength, tMsgType, tSenderCompID,
    tTargetCompID, tMsgSeqNum, tSendingTime]

/-- a tag that is neither written by the encoder nor the trailer: looked up in the message itself -/
theorem get?_build_other (t : Nat)
    (h : t ≠ tBeginString ∧ t ≠ tBodyLength ∧ t ≠ tMsgType ∧ t ≠ tSenderCompID ∧ t ≠ tTargetCompID ∧
      t ≠ tMsgSeqNum ∧ t ≠ tSendingTime ∧ t ≠ tCheckSum) :
    (buildFrame s stamp m n).get? t = m.get? t := by
  obtain ⟨h8, h9, h35, h49, h56, h34, h52, h10⟩ := h
  have hf : lookup t (m.tags.filter fun p =>
      p.1 ≠ tMsgSeqNum && p.1 ≠ tSendingTime && p.1 ≠ tSenderCompID && p.1 ≠ tTargetCompID) = lookup t m.tags :=
    lookup_filter_pos _ _ _ (by intro v; simp [h34, h52, h49, h56])
  simp only [buildFrame, bodyFields, Msg.get?]
  rw [lookup_append, lookup_append, lookup_append, hf]
  have e1 : lookup t [(tBeginString, Proto.beginString), (tBodyLength, toString
      ((([(tSenderCompID, s.sender), (tTargetCompID, s.target), (tMsgSeqNum, pyStr n), (tSendingTime, stamp)] ++
        m.tags.filter fun p => p.1 ≠ tMsgSeqNum && p.1 ≠ tSendingTime && p.1 ≠ tSenderCompID && p.1 ≠ tTargetCompID).map
          fieldLen).sum + fieldLen (tMsgType, m.mtype))), (tMsgType, m.mtype)] = none := by
    simp [lookup, Ne.symm h8, Ne.symm h9, Ne.symm h35]
  have e2 : lookup t [(tSenderCompID, s.sender), (tTargetCompID, s.target), (tMsgSeqNum, pyStr n),
      (tSendingTime, stamp)] = none := by
    simp [lookup, Ne.symm h49, Ne.symm h56, Ne.symm h34, Ne.symm h52]
  rw [e1, e2]
  cases hl : lookup t m.tags with
  | some v => rfl
  | none => simp [lookup, Ne.symm h10]

theorem has_build_10 : (buildFrame s stamp m n).has tCheckSum = true := by
  simp only [buildFrame, Msg.has, Msg.get?]
  rw [lookup_append]
  cases lookup tCheckSum _ with
  | some v => rfl
  | none => simp [lookup]

end build

/-- the header / trailer tags are dropped by `payloadOf` -/
theorem payloadOf_build (s : Session) (stamp : String) (m : Msg) (n : Int) :
    payloadOf (buildFrame s stamp m n) = payloadOf m := by
  unfold payloadOf
  simp only [buildFrame_mtype, Prod.mk.injEq, true_and]
  simp only [buildFrame, bodyFields, List.filter_append]
  have hh : ∀ (l : List (Nat × String)), (∀ p ∈ l, hdrTags.contains p.1 = true) →
      l.filter (fun p => !hdrTags.contains p.1) = [] := by
    intro l hl
    apply List.filter_eq_nil_iff.mpr
    intro p hp
    simpa using hl p hp
  rw [hh _ (by intro p hp; simp at hp; rcases hp with h | h | h <;> subst h <;> rfl),
    hh [(tSenderCompID, s.sender), (tTargetCompID, s.target), (tMsgSeqNum, pyStr n), (tSendingTime, stamp)]
      (by intro p hp; simp at hp; rcases hp with h | h | h | h <;> subst h <;> rfl),
    hh [(tCheckSum, _)] (by intro p hp; simp at hp; subst hp; rfl)]
  simp only [List.nil_append, List.append_nil]
  apply filter_filter_of_imp
  intro p hp
  obtain ⟨k, v⟩ := p
  have h1 : k ≠ tMsgSeqNum := by rintro rfl; exact absurd hp (by simp [hdrTags])
  have h2 : k ≠ tSendingTime := by rintro rfl; exact absurd hp (by simp [hdrTags])
  have h3 : k ≠ tSenderCompID := by rintro rfl; exact absurd hp (by simp [hdrTags])
  have h4 : k ≠ tTargetCompID := by rintro rfl; exact absurd hp (by simp [hdrTags])
  simp [h1, h2, h3, h4]

theorem seqOf_of_get? {f : Msg} {n : Int} (h : f.get? tMsgSeqNum = some (pyStr n)) : seqOf f = some n := by
  simp [seqOf, h, pyInt_pyStr]

theorem seqOf_build (s : Session) (stamp : String) (m : Msg) (n : Int) :
    seqOf (buildFrame s stamp m n) = some n := seqOf_of_get? (get?_build_34 s stamp m n)

theorem get_of_get? {m : Msg} {t : Nat} {v : String} (h : m.get? t = some v) : m.get t = .ok v := by
  simp [Msg.get, h]

theorem has_of_get? {m : Msg} {t : Nat} {v : String} (h : m.get? t = some v) : m.has t = true := by
  simp [Msg.has, h]

theorem get?_of_has {m : Msg} {t : Nat} (h : m.has t = true) : ∃ v, m.get? t = some v := by
  simpa [Msg.has, Option.isSome_iff_exists] using h

/-- `buildFrame` does not look at the counters of the session -/
theorem buildFrame_sess (s s' : Session) (stamp : String) (m : Msg) (n : Int)
    (h1 : s.sender = s'.sender) (h2 : s.target = s'.target) :
    buildFrame s stamp m n = buildFrame s' stamp m n := by
  simp [buildFrame, bodyFields, h1, h2]

/-- a frame built by `buildFrame` is `FrameGood` as soon as it is single-byte and its kind fields are right -/
theorem frameGood_build {s : Session} {stamp : String} {m : Msg} {n : Int}
    (hl : frameLatin1 (buildFrame s stamp m n) = true) (hk : KindOK (buildFrame s stamp m n)) :
    FrameGood s.sender s.target (buildFrame s stamp m n) :=
  { bs := get?_build_8 .., s49 := get?_build_49 .., s56 := get?_build_56 .., seq := ⟨n, get?_build_34 ..⟩,
    ty := get?_build_35 .., h9 := has_build_9 .., h52 := has_build_52 .., h10 := has_build_10 ..,
    lat := hl, kind := hk }

end AsyncFix.Link
