/-
Byte-level lemmas for the framing layer of the codec round trip: `findSub`, `findChar`,
`splitOn`, `join`, `sum`, `splitEq` on SOH-separated `tag=value` fields, and the view of
`mkFrame bs fs` as `bodyBytes` of one uniform field list (`frameFlds`).
-/
import AsyncFix.Lemmas.CodecSpec
import AsyncFix.Lemmas.CodecDec
namespace AsyncFix.Model.Codec

/-! ### generic list-of-bytes lemmas -/

theorem isPrefix_append (p a b : Bytes) (h : isPrefix p a = true) : isPrefix p (a ++ b) = true := by
  induction p generalizing a with
  | nil => simp [isPrefix]
  | cons x xs ih =>
    cases a with
    | nil => simp [isPrefix] at h
    | cons c cs =>
      simp only [isPrefix, Bool.and_eq_true, List.cons_append] at h ⊢
      exact ⟨h.1, ih cs h.2⟩

/-- the pattern `SOH 1 0 =` cannot start inside an SOH-free stretch -/
theorem findSub_cksum_skip (a rest : Bytes) (ha : SOH ∉ a) :
    findSub cksumPat (a ++ rest) = (findSub cksumPat rest).map (· + a.length) := by
  induction a with
  | nil => cases h : findSub cksumPat rest <;> simp [h]
  | cons c cs ih =>
    simp only [List.mem_cons, not_or] at ha
    have hc : (1 == c) = false := by
      have : SOH = 1 := rfl
      simp only [beq_eq_false_iff_ne, ne_eq]; rw [← this]; exact ha.1
    simp only [List.cons_append, findSub, cksumPat, isPrefix, hc, Bool.false_and, if_false,
      Bool.false_eq_true]
    have := ih ha.2
    simp only [cksumPat] at this
    rw [this]
    cases findSub [1, 49, 48, 61] rest <;> simp [Nat.add_assoc]

theorem findChar_append_sep (a rest : Bytes) (ha : SOH ∉ a) :
    findChar SOH (a ++ SOH :: rest) = some a.length := by
  induction a with
  | nil => simp [findChar]
  | cons c cs ih =>
    simp only [List.mem_cons, not_or] at ha
    have hc : ¬ c = SOH := fun h => ha.1 h.symm
    simp [findChar, hc, ih ha.2]

theorem splitOn_append_sep (a rest : Bytes) (ha : SOH ∉ a) :
    splitOn SOH (a ++ SOH :: rest) = a :: splitOn SOH rest := by
  induction a with
  | nil => simp [splitOn]
  | cons c cs ih =>
    simp only [List.mem_cons, not_or] at ha
    have hc : ¬ c = SOH := fun h => ha.1 h.symm
    simp [splitOn, hc, ih ha.2]

theorem splitEq_fieldBytes (t v : Bytes) (ht : EQS ∉ t) : splitEq (fieldBytes t v) = some (t, v) := by
  induction t with
  | nil => simp [fieldBytes, splitEq]
  | cons c cs ih =>
    simp only [List.mem_cons, not_or] at ht
    have hc : ¬ c = EQS := fun h => ht.1 h.symm
    simp only [fieldBytes, List.cons_append, splitEq, hc, if_false]
    have := ih ht.2
    simp only [fieldBytes] at this
    simp [this]

theorem sum_foldl (k : Nat) (l : Bytes) : l.foldl (· + ·) k = k + sum l := by
  induction l generalizing k with
  | nil => simp [sum]
  | cons c cs ih =>
    simp only [sum, List.foldl_cons]
    rw [ih (k + c), ih (0 + c)]; simp [sum]; omega

theorem sum_append (a b : Bytes) : sum (a ++ b) = sum a + sum b := by
  simp only [sum, List.foldl_append]
  rw [sum_foldl]; rfl

theorem sum_cons (c : Nat) (a : Bytes) : sum (c :: a) = c + sum a := by
  simp only [sum, List.foldl_cons]; rw [sum_foldl]; simp [sum]

/-! ### digits contain neither SOH nor `=` -/

theorem digits_no_SOH (t : Bytes) (h : t.all isDigit = true) : SOH ∉ t := by
  intro hm
  have := List.all_eq_true.mp h SOH hm
  simp [isDigit, SOH] at this

theorem digits_no_EQS (t : Bytes) (h : t.all isDigit = true) : EQS ∉ t := by
  intro hm
  have := List.all_eq_true.mp h EQS hm
  simp [isDigit, EQS] at this

/-! ### fields -/

/-- the byte rendering of a field, as a function on `Fld` -/
def Fld.bytes (f : Fld) : Bytes := fieldBytes f.tag f.val

/-- weak well-formedness: digit tag, SOH-free value (also true for the CheckSum field) -/
def okW (f : Fld) : Prop := f.tag.all isDigit = true ∧ SOH ∉ f.val

/-- body-field well-formedness, the per-field part of `okFields` -/
def okF (f : Fld) : Bool := okTag f.tag && f.tag != [49, 48] && !f.val.contains SOH

theorem okFields_eq (fs : List Fld) : okFields fs = fs.all okF := rfl

theorem okF_iff (f : Fld) : okF f = true ↔ okTag f.tag = true ∧ f.tag ≠ [49, 48] ∧ SOH ∉ f.val := by
  simp [okF, and_assoc]

theorem okF_okW {f : Fld} (h : okF f = true) : okW f := by
  obtain ⟨h1, _, h3⟩ := (okF_iff f).mp h
  exact ⟨((okTag_iff _).mp h1).2.1, h3⟩

theorem okW.no_SOH {f : Fld} (h : okW f) : SOH ∉ f.bytes := by
  have h1 := digits_no_SOH _ h.1
  simp only [Fld.bytes, fieldBytes, List.mem_append, List.mem_cons, not_or]
  exact ⟨h1, by simp [SOH, EQS], h.2⟩

theorem okW.splitEq {f : Fld} (h : okW f) : splitEq f.bytes = some (f.tag, f.val) :=
  splitEq_fieldBytes _ _ (digits_no_EQS _ h.1)

/-- a digit tag other than `10` does not render to something starting with `10=` -/
theorem okF_not_cksum {f : Fld} (h : okF f = true) (rest : Bytes) :
    isPrefix [49, 48, 61] (f.bytes ++ rest) = false := by
  obtain ⟨h1, h2, _⟩ := (okF_iff f).mp h
  have hd := ((okTag_iff _).mp h1).2.1
  obtain ⟨t, v⟩ := f
  simp only at h2 hd
  simp only [Fld.bytes, fieldBytes]
  match t, h2, hd with
  | [], _, _ => simp [isPrefix, EQS]
  | [a], _, _ => simp [isPrefix, EQS]
  | [a, b], h2, _ =>
    simp only [isPrefix, List.cons_append, List.nil_append, EQS]
    by_cases ha : 49 = a <;> by_cases hb : 48 = b <;> simp_all
  | a :: b :: c :: r, _, hd =>
    simp only [List.all_cons, Bool.and_eq_true, isDigit_iff] at hd
    have : c ≠ 61 := by omega
    simp only [isPrefix, List.cons_append]
    simp [Ne.symm this]

/-! ### `bodyBytes` of a field list -/

theorem bodyBytes_cons (f : Fld) (fs : List Fld) :
    bodyBytes (f :: fs) = f.bytes ++ SOH :: bodyBytes fs := rfl

theorem bodyBytes_append (a b : List Fld) : bodyBytes (a ++ b) = bodyBytes a ++ bodyBytes b := by
  induction a with
  | nil => rfl
  | cons f fs ih => simp [bodyBytes, ih]

theorem bodyBytes_length_pos (f : Fld) (fs : List Fld) : 0 < (bodyBytes (f :: fs)).length := by
  simp [bodyBytes]; omega

theorem splitOn_bodyBytes (l : List Fld) (h : ∀ f ∈ l, okW f) :
    splitOn SOH (bodyBytes l) = l.map Fld.bytes ++ [[]] := by
  induction l with
  | nil => simp [bodyBytes, splitOn]
  | cons f fs ih =>
    rw [bodyBytes_cons, splitOn_append_sep _ _ (h f (by simp)).no_SOH,
      ih (fun g hg => h g (by simp [hg]))]
    simp

theorem join_map_bytes (l : List Fld) (hne : l ≠ []) :
    join SOH (l.map Fld.bytes) ++ [SOH] = bodyBytes l := by
  induction l with
  | nil => exact absurd rfl hne
  | cons f fs ih =>
    cases fs with
    | nil => simp [join, bodyBytes, Fld.bytes]
    | cons g gs =>
      have := ih (by simp)
      simp only [List.map_cons] at this
      simp only [List.map_cons, join, bodyBytes_cons f, ← this]
      simp

/-- the cut: in `f0 | pre… | 10=… |` the pattern `SOH 1 0 =` first occurs at the SOH in front of
the CheckSum field -/
theorem findSub_cksum_bodyBytes (f0 : Fld) (pre : List Fld) (ck : Fld) (rest : Bytes)
    (h0 : SOH ∉ f0.bytes) (hpre : ∀ f ∈ pre, okF f = true)
    (hck : isPrefix [49, 48, 61] (ck.bytes ++ rest) = true) :
    findSub cksumPat (bodyBytes (f0 :: pre) ++ (ck.bytes ++ rest)) =
      some ((bodyBytes (f0 :: pre)).length - 1) := by
  induction pre generalizing f0 with
  | nil =>
    show findSub cksumPat ((f0.bytes ++ SOH :: []) ++ (ck.bytes ++ rest)) =
      some ((f0.bytes ++ SOH :: []).length - 1)
    rw [List.append_assoc, List.cons_append, List.nil_append, findSub_cksum_skip _ _ h0]
    simp only [findSub, cksumPat, isPrefix, SOH, beq_self_eq_true, Bool.true_and]
    rw [hck]
    simp
  | cons g gs ih =>
    have hg := hpre g (by simp)
    have ih' := ih g (okF_okW hg).no_SOH (fun f hf => hpre f (by simp [hf]))
    rw [bodyBytes_cons f0, List.append_assoc, List.cons_append, findSub_cksum_skip _ _ h0]
    have hnot : isPrefix cksumPat (SOH :: (bodyBytes (g :: gs) ++ (ck.bytes ++ rest))) = false := by
      rw [bodyBytes_cons g, List.append_assoc]
      simp only [cksumPat, isPrefix, SOH, beq_self_eq_true, Bool.true_and]
      exact okF_not_cksum hg _
    simp only [findSub, hnot, Bool.false_eq_true, if_false, ih', Option.map_some]
    have := bodyBytes_length_pos g gs
    simp only [List.length_append, List.length_cons]
    congr 1; omega

/-! ### the frame as one field list -/

/-- BeginString, BodyLength and the body fields: everything the checksum covers -/
def preFlds (bs : Bytes) (fs : List Fld) : List Fld :=
  ⟨[56], bs⟩ :: ⟨[57], natToDec (bodyBytes fs).length⟩ :: fs

def ckFld (bs : Bytes) (fs : List Fld) : Fld := ⟨[49, 48], dec3 (frameCk bs fs)⟩

/-- all fields of `mkFrame bs fs` -/
def frameFlds (bs : Bytes) (fs : List Fld) : List Fld := preFlds bs fs ++ [ckFld bs fs]

theorem framePre_eq (bs : Bytes) (fs : List Fld) : framePre bs fs = bodyBytes (preFlds bs fs) := by
  simp [framePre, headBytes, preFlds, bodyBytes]

theorem mkFrame_eq_bodyBytes (bs : Bytes) (fs : List Fld) :
    mkFrame bs fs = bodyBytes (preFlds bs fs) ++ ((ckFld bs fs).bytes ++ [SOH]) := by
  rw [mkFrame_eq, framePre_eq]; simp [ckFld, Fld.bytes]

theorem mkFrame_eq_bodyBytes' (bs : Bytes) (fs : List Fld) :
    mkFrame bs fs = bodyBytes (frameFlds bs fs) := by
  rw [mkFrame_eq_bodyBytes, frameFlds, bodyBytes_append]; simp [bodyBytes, Fld.bytes]

theorem frameFields_eq (bs : Bytes) (fs : List Fld) :
    frameFields bs fs = (frameFlds bs fs).map Fld.bytes := by
  simp [frameFields, frameFlds, preFlds, ckFld, Fld.bytes]

theorem frameCk_lt (bs : Bytes) (fs : List Fld) : frameCk bs fs < 256 :=
  Nat.mod_lt _ (by decide)

theorem okBegin_iff (bs : Bytes) :
    okBegin bs = true ↔ isPrefix marker (fieldBytes [56] bs) = true ∧ SOH ∉ bs := by
  simp [okBegin]

theorem okW_ckFld (bs : Bytes) (fs : List Fld) : okW (ckFld bs fs) :=
  ⟨by simp [ckFld, isDigit], digits_no_SOH _ (dec3_all_digit _)⟩

theorem okW_preFlds (bs : Bytes) (fs : List Fld) (hb : okBegin bs = true)
    (hf : okFields fs = true) : ∀ f ∈ preFlds bs fs, okW f := by
  intro f hm
  simp only [preFlds, List.mem_cons] at hm
  rcases hm with rfl | rfl | hm
  · exact ⟨by simp [isDigit], ((okBegin_iff bs).mp hb).2⟩
  · exact ⟨by simp [isDigit], digits_no_SOH _ (natToDec_all_digit _)⟩
  · rw [okFields_eq] at hf
    exact okF_okW (List.all_eq_true.mp hf f hm)

theorem okW_frameFlds (bs : Bytes) (fs : List Fld) (hb : okBegin bs = true)
    (hf : okFields fs = true) : ∀ f ∈ frameFlds bs fs, okW f := by
  intro f hm
  simp only [frameFlds, List.mem_append, List.mem_singleton] at hm
  rcases hm with hm | rfl
  · exact okW_preFlds bs fs hb hf f hm
  · exact okW_ckFld bs fs

end AsyncFix.Model.Codec
