import Std.Data.String.ToInt
import AsyncFix.Lemmas.RestartInv

/-!
Restart family: the outbound handlers satisfy `Good` (runs without exceptions).
-/
set_option linter.unusedSectionVars false

namespace AsyncFix.Restart

open AsyncFix.Session AsyncFix.Generated AsyncFix.Generated.ConnEnum

variable {g : List Effect → Bool} [EffGuard g] {om : Option Msg}

theorem pyStr_inj {a b : Int} (h : pyStr a = pyStr b) : a = b := Int.repr_inj.mp h

/-- nothing the invariant mentions changed and no new frame was written -/
theorem Good.of_frame {c c' : Conn} {e : List Effect} (hs : c'.sess = c.sess) (hj : c'.journal = c.journal)
    (hh : c'.hb = c.hb) (he : NoNewWrites e) : Good om c c' e :=
  ⟨fun h => by unfold OutOk at *; rw [hs, hj]; exact h, by rw [hs]; exact Int.le_refl _, he.below _,
   Or.inl ⟨by rw [hs], by rw [hj], by rw [hj]⟩, by rw [hs]; exact ⟨rfl, rfl, hh⟩, by rw [hs]; exact id⟩

theorem NoNewWrites.nil : NoNewWrites [] := fun _ h => by cases h

theorem NoNewWrites.single {e : Effect} (h : ∀ f, e ≠ .write f) : NoNewWrites [e] := by
  intro f hf
  simp only [List.mem_singleton] at hf
  exact absurd hf.symm (h f)

theorem Good.modify {f : Conn → Conn}
    (h : ∀ c, (f c).sess = c.sess ∧ (f c).journal = c.journal ∧ (f c).hb = c.hb) :
    OkRel g (Good om) (M.modify f) :=
  OkRel.modify fun c => Good.of_frame (h c).1 (h c).2.1 (h c).2.2 NoNewWrites.nil

theorem Good.emit {e : Effect} (h : ∀ f, e ≠ .write f) : OkRel g (Good om) (M.emit e) :=
  OkRel.emit fun _ => Good.of_frame rfl rfl rfl (NoNewWrites.single h)

theorem stateSet_good (s : Nat) : OkRel g (Good om) (stateSet s) := by
  unfold stateSet
  ok_tac [Good.modify, Good.emit]

theorem sendGate_good (m : Msg) : OkRel g (Good om) (sendGate m) := by
  unfold sendGate
  ok_tac [stateSet_good, Good.modify]

/-! ### the frame -/

theorem lookup_filter_keep (t : Nat) (p : Nat × String → Bool) (hp : ∀ v, p (t, v) = true)
    (l : List (Nat × String)) : Msg.lookup t (l.filter p) = Msg.lookup t l := by
  induction l with
  | nil => rfl
  | cons x xs ih =>
    obtain ⟨k, v⟩ := x
    by_cases hk : k = t
    · subst hk
      simp [List.filter, hp, Msg.lookup]
    · cases hpx : p (k, v) <;> simp [List.filter, hpx, Msg.lookup, hk, ih]

theorem buildFrame_mtype (s : Session) (st : String) (m : Msg) (seq : Int) :
    (buildFrame s st m seq).mtype = m.mtype := rfl

theorem buildFrame_seq (s : Session) (st : String) (m : Msg) (seq : Int) :
    (buildFrame s st m seq).get? tMsgSeqNum = some (pyStr seq) := by
  simp [buildFrame, bodyFields, Msg.get?, Msg.lookup, tBeginString, tBodyLength, tMsgType, tSenderCompID,
    tTargetCompID, tMsgSeqNum]

theorem lookup_append_none {t : Nat} {a b : List (Nat × String)} (h : Msg.lookup t a = none) :
    Msg.lookup t (a ++ b) = Msg.lookup t b := by
  induction a with
  | nil => rfl
  | cons x xs ih =>
    obtain ⟨k, v⟩ := x
    simp only [Msg.lookup] at h
    split at h
    · cases h
    · simp [Msg.lookup, *]

theorem lookup_append_some {t : Nat} {a b : List (Nat × String)} {v : String} (h : Msg.lookup t a = some v) :
    Msg.lookup t (a ++ b) = some v := by
  induction a with
  | nil => cases h
  | cons x xs ih =>
    obtain ⟨k, w⟩ := x
    simp only [Msg.lookup] at h
    split at h
    · simp [Msg.lookup, *]
    · simp [Msg.lookup, *]

theorem buildFrame_possdup (s : Session) (st : String) (m : Msg) (seq : Int) :
    (buildFrame s st m seq).get? tPossDupFlag = m.get? tPossDupFlag := by
  unfold buildFrame Msg.get?
  simp only [List.append_assoc]
  rw [lookup_append_none (by simp [Msg.lookup, tBeginString, tBodyLength, tMsgType, tPossDupFlag])]
  unfold bodyFields
  rw [List.append_assoc, lookup_append_none (by simp [Msg.lookup, tSenderCompID, tTargetCompID, tMsgSeqNum,
    tSendingTime, tPossDupFlag])]
  cases h : Msg.lookup tPossDupFlag (m.tags.filter fun p =>
      p.1 ≠ tMsgSeqNum && p.1 ≠ tSendingTime && p.1 ≠ tSenderCompID && p.1 ≠ tTargetCompID) with
  | none =>
    rw [lookup_append_none h]
    rw [lookup_filter_keep] at h
    · simp only [Msg.lookup, tCheckSum, tPossDupFlag]
      exact h.symm
    · intro v; simp [tPossDupFlag, tMsgSeqNum, tSendingTime, tSenderCompID, tTargetCompID]
  | some v =>
    rw [lookup_append_some h]
    rw [lookup_filter_keep] at h
    · exact h.symm
    · intro v; simp [tPossDupFlag, tMsgSeqNum, tSendingTime, tSenderCompID, tTargetCompID]

theorem buildFrame_isNew (s : Session) (st : String) (m : Msg) (seq : Int) :
    isNewFrame (buildFrame s st m seq) = !ownSeq m := by
  unfold isNewFrame ownSeq
  rw [buildFrame_mtype, buildFrame_possdup]
  simp

/-! ### `send_msg` of a message that takes a new number -/

theorem persist_out_fields {j j' : Journal} {seq : Int} {f : Msg} (h : j.persist .outbound seq f = some j') :
    j'.outSeq = seq ∧ j'.inSeq = j.inSeq ∧ j'.inb = j.inb := by
  unfold Journal.persist at h
  simp only [Option.map_eq_some_iff] at h
  obtain ⟨r, _, hr⟩ := h
  subst hr
  exact ⟨rfl, rfl, rfl⟩

theorem sendCore_good (env : Env) (m : Msg) (hnew : ownSeq m = false) :
    OkRel g (Good om) (sendCore env m) := by
  constructor
  intro c a c' e h _
  unfold ownSeq at hnew
  simp only [Bool.or_eq_false_iff] at hnew
  obtain ⟨h1, h2⟩ := hnew
  simp only [sendCore, encodeSeq, h1, h2, M.get_bind_apply, M.ite_apply, M.throw_apply, bind_assoc,
    M.modify_bind_apply, pure_bind, Bool.false_eq_true, if_false] at h
  split at h
  · cases h
  · split at h
    · cases h
    · generalize hfr : buildFrame _ env.stamp m c.sess.nextOut = fr at h
      cases hj : c.journal.persist Dir.outbound c.sess.nextOut fr with
      | none => simp only [hj, M.throw_apply] at h; cases h
      | some j =>
        simp only [hj, M.modify_bind_apply, M.ite_apply, M.throw_apply, M.emit_apply] at h
        split at h
        · cases h
        · cases h
          obtain ⟨ho, hi, hb⟩ := persist_out_fields hj
          refine ⟨fun _ => ?_, ?_, ?_, Or.inl ⟨rfl, hi, hb⟩, ⟨rfl, rfl, rfl⟩, id⟩
          · show j.outSeq + 1 = c.sess.nextOut + 1
            rw [ho]
          · show c.sess.nextOut ≤ c.sess.nextOut + 1
            omega
          · intro f n hf _ hs
            simp only [List.mem_singleton, Effect.write.injEq] at hf
            subst hf
            rw [← hfr, buildFrame_seq] at hs
            have := pyStr_inj (Option.some.inj hs)
            show n < c.sess.nextOut + 1
            omega

theorem sendMsg_good (env : Env) (m : Msg) (hnew : ownSeq m = false) :
    OkRel g (Good om) (sendMsg env m) := by
  unfold sendMsg
  ok_tac [sendGate_good, sendCore_good]
  exact hnew

end AsyncFix.Restart
