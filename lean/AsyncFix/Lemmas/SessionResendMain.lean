import AsyncFix.Lemmas.SessionResendRecv

/-!
C06 helper lemmas, part 8: `_process_resend` from ACTIVE / RESENDREQ_AWAITING (the state excursion
around `resendBody`), corollaries of the chain relation, the journal below the requested range.
-/
namespace AsyncFix.Session.C06
open Msg AsyncFix.Generated AsyncFix.Generated.ConnEnum

/-- the connection after `_process_resend` served `[b, …]` writing `sent`: outbound rows from `b` on
replaced, inbound side of `set_seq_num`, ACTIVE remembered -/
def answered (c : Conn) (b : Int) (sent : Rows) : Conn :=
  { c with
    wasActive := c.wasActive || (c.state == st_ACTIVE)
    journal := { out := c.journal.out.below b ++ sent, inb := c.journal.inb.below c.sess.nextIn,
                 outSeq := c.sess.nextOut - 1, inSeq := c.sess.nextIn - 1 } }

/-- the connection after `_process_resend` ignored a request -/
def ignored (c : Conn) : Conn := { c with wasActive := c.wasActive || (c.state == st_ACTIVE) }

/-- `on_state_change` notifications of the excursion ACTIVE → RESENDREQ_HANDLING → ACTIVE -/
def pre (c : Conn) : List Effect :=
  if c.state = st_ACTIVE then [.onState st_RESENDREQ_HANDLING] else []
def post (c : Conn) : List Effect := if c.state = st_ACTIVE then [.onState st_ACTIVE] else []

theorem processResend_valid (env : Env) (sr : Msg → Bool) (m : Msg) (c : Conn) (b e0 : Int)
    (hst : c.state = st_ACTIVE ∨ c.state = st_RESENDREQ_AWAITING) (hsock : c.sock = true)
    (hl1 : isLatin1 c.sess.sender = true) (hl2 : isLatin1 c.sess.target = true)
    (hl3 : isLatin1 env.stamp = true)
    (hreq : Req m b e0) (hinv : OutInv c) (hb1 : 1 ≤ b) (hb2 : b < c.sess.nextOut)
    (he : e0 = 0 ∨ c.sess.nextOut - 1 ≤ e0) (hmax : c.sess.nextOut - 1 ≤ sysMaxsize) :
    ∃ sent : Rows,
      processResend env sr m c =
        ⟨.ok (), answered c b sent, pre c ++ sent.map (fun p => Effect.write p.2) ++ post c⟩ ∧
      Chain c.sess c.journal.out sr b c.sess.nextOut (sent.map (·.2)) ∧
      Rows.Sorted (c.journal.out.below b ++ sent) ∧
      Rows.AllLt c.sess.nextOut (c.journal.out.below b ++ sent) ∧
      (∀ p ∈ sent, RowOK p.1 p.2 ∧ b ≤ p.1) := by
  rw [processResend_eq]
  rcases hst with h | h
  · -- ACTIVE: excursion through RESENDREQ_HANDLING
    have hne : (c.state != st_RESENDREQ_AWAITING) = true := by rw [h]; decide
    simp only [hne, if_true]
    let c1 : Conn := { c with state := st_RESENDREQ_HANDLING,
                              wasActive := c.wasActive || st_RESENDREQ_HANDLING == st_ACTIVE }
    have e0' : stateSet st_RESENDREQ_HANDLING c = ⟨.ok (), c1, [.onState st_RESENDREQ_HANDLING]⟩ := by
      simp [stateSet, M.bind_apply, c1]
    have hctx1 : LoopCtx env c1 := ⟨⟨Or.inl rfl, hsock⟩, hl1, hl2, hl3⟩
    have hinv1 : OutInv c1 := ⟨hinv.sorted, hinv.lt, hinv.rows, hinv.stored⟩
    obtain ⟨sent, e1, ch, so, lt, ok⟩ :=
      resendBody_valid env sr m c1 b e0 hreq hctx1 hinv1 hb1 hb2 he hmax
    refine ⟨sent, ?_, ch, so, lt, ok⟩
    rw [M.bind_ok2 e0' e1]
    simp [served, answered, pre, post, h, c1, st_RESENDREQ_HANDLING, st_RESENDREQ_AWAITING, st_ACTIVE]
  · have hne : (c.state != st_RESENDREQ_AWAITING) = false := by rw [h]; decide
    simp only [hne, Bool.false_eq_true, if_false]
    have hctx : LoopCtx env c := ⟨⟨Or.inr h, hsock⟩, hl1, hl2, hl3⟩
    obtain ⟨sent, e1, ch, so, lt, ok⟩ :=
      resendBody_valid env sr m c b e0 hreq hctx hinv hb1 hb2 he hmax
    refine ⟨sent, ?_, ch, so, lt, ok⟩
    rw [e1]
    simp [served, answered, pre, post, h, st_RESENDREQ_AWAITING, st_ACTIVE]

theorem processResend_invalid (env : Env) (sr : Msg → Bool) (m : Msg) (c : Conn) (b e0 : Int)
    (hst : c.state = st_ACTIVE ∨ c.state = st_RESENDREQ_AWAITING)
    (hreq : Req m b e0) (hbad : b < 1 ∨ c.sess.nextOut ≤ b) :
    processResend env sr m c = ⟨.ok (), ignored c, pre c ++ post c⟩ := by
  rw [processResend_eq]
  rcases hst with h | h
  · have hne : (c.state != st_RESENDREQ_AWAITING) = true := by rw [h]; decide
    simp only [hne, if_true]
    let c1 : Conn := { c with state := st_RESENDREQ_HANDLING,
                              wasActive := c.wasActive || st_RESENDREQ_HANDLING == st_ACTIVE }
    have e0' : stateSet st_RESENDREQ_HANDLING c = ⟨.ok (), c1, [.onState st_RESENDREQ_HANDLING]⟩ := by
      simp [stateSet, M.bind_apply, c1]
    have hcond : (decide (b < 1) || decide (b ≥ c1.sess.nextOut)) = true := by
      simp [c1]; omega
    have e1 : resendBody env sr m c1 = ⟨.ok (), ignored c, [.onState st_ACTIVE]⟩ := by
      rw [resendBody_head env sr m c1 b e0 hreq (Or.inl rfl)]
      simp only [hcond, if_true]
      simp [c1, stateSet, M.bind_apply, ignored, h, st_RESENDREQ_HANDLING, st_RESENDREQ_AWAITING,
        st_ACTIVE]
    rw [M.bind_ok2 e0' e1]
    simp [pre, post, h]
  · have hne : (c.state != st_RESENDREQ_AWAITING) = false := by rw [h]; decide
    simp only [hne, Bool.false_eq_true, if_false]
    have hcond : (decide (b < 1) || decide (b ≥ c.sess.nextOut)) = true := by
      simp; omega
    rw [resendBody_head env sr m c b e0 hreq (Or.inr h)]
    simp only [hcond, if_true]
    have ha : c.state ≠ st_ACTIVE := by rw [h]; decide
    have ha' : (c.state == st_ACTIVE) = false := by simpa using ha
    simp [ignored, pre, post, ha, ha', hne]

/-! ### consequences of the chain relation -/

/-- every frame of a chain is a GapFill or the PossDup copy of an application-level message:
no session-level message is ever retransmitted -/
theorem chain_frames {s : Session} {J : Rows} {sr : Msg → Bool} {a z : Int} {xs : List Msg}
    (h : Chain s J sr a z xs) :
    ∀ g ∈ xs, (g.mtype = mSequenceReset ∧ g.get? tGapFillFlag = some "Y") ∨
      (ConnEnum.noReplay.contains g.mtype = false ∧ g.get? tPossDupFlag = some "Y") := by
  induction h with
  | nil => intro g hg; simp at hg
  | replay _ hr hi _ ih =>
    intro g hg
    simp only [List.mem_cons] at hg
    rcases hg with rfl | hg
    · exact Or.inr ⟨by rw [hi.mtype]; exact hr.1, hi.possDup⟩
    · exact ih g hg
  | gap _ hg' _ _ ih =>
    intro g hg
    simp only [List.mem_cons] at hg
    rcases hg with rfl | hg
    · exact Or.inl ⟨hg'.mtype, hg'.gapFill⟩
    · exact ih g hg

/-- the MsgSeqNums of a chain are strictly ascending numbers of `[a, z)`, the first one is `a` -/
theorem chain_seqs {s : Session} {J : Rows} {sr : Msg → Bool} {a z : Int} {xs : List Msg}
    (h : Chain s J sr a z xs) :
    ∃ ns : List Int, xs.map (·.get? tMsgSeqNum) = ns.map (fun n => some (pyStr n)) ∧
      ns.Pairwise (· < ·) ∧ (∀ n ∈ ns, a ≤ n ∧ n < z) ∧ (∀ g ∈ xs.head?, g.get? tMsgSeqNum = some (pyStr a)) := by
  induction h with
  | nil => exact ⟨[], rfl, List.Pairwise.nil, by simp, by simp⟩
  | @replay a z row g rest _ _ hi hc ih =>
    obtain ⟨ns, e, pw, rg, _⟩ := ih
    have := chain_le hc
    refine ⟨a :: ns, by simp [hi.seq, e], ?_, ?_, by simp [hi.seq]⟩
    · exact List.pairwise_cons.mpr ⟨fun n hn => by have := (rg n hn).1; omega, pw⟩
    · intro n hn
      simp only [List.mem_cons] at hn
      rcases hn with rfl | hn
      · omega
      · have := rg n hn; omega
  | @gap a a' z g rest hl hg _ hc ih =>
    obtain ⟨ns, e, pw, rg, _⟩ := ih
    have := chain_le hc
    refine ⟨a :: ns, by simp [hg.seq, e], ?_, ?_, by simp [hg.seq]⟩
    · exact List.pairwise_cons.mpr ⟨fun n hn => by have := (rg n hn).1; omega, pw⟩
    · intro n hn
      simp only [List.mem_cons] at hn
      rcases hn with rfl | hn
      · omega
      · have := rg n hn; omega

/-- rows below the requested range are what they were -/
theorem find_below_append {J sent : Rows} {b n : Int} (hJ : Rows.Sorted J)
    (hs : Rows.Sorted (J.below b ++ sent)) (hsent : ∀ p ∈ sent, b ≤ p.1) (hn : n < b) :
    (J.below b ++ sent).find n = J.find n := by
  apply Option.ext
  intro x
  rw [Rows.find_eq_some_iff hs, Rows.find_eq_some_iff hJ, List.mem_append, Rows.mem_below]
  constructor
  · rintro (h | h)
    · exact h.1
    · have := hsent _ h; simp at this; omega
  · intro h; exact Or.inl ⟨h, hn⟩

theorem writes_append (a b : List Effect) : writes (a ++ b) = writes a ++ writes b := by
  induction a with
  | nil => rfl
  | cons e r ih => cases e <;> simp [writes, ih]

theorem writes_map_write (l : Rows) : writes (l.map fun p => Effect.write p.2) = l.map (·.2) := by
  induction l with
  | nil => rfl
  | cons p r ih => simp [writes, ih]

theorem writes_pre (c : Conn) : writes (pre c) = [] := by unfold pre; split <;> rfl
theorem writes_post (c : Conn) : writes (post c) = [] := by unfold post; split <;> rfl
theorem writes_raisedOf {α} (r : Except Exc α) : writes (raisedOf r) = [] := by cases r <;> rfl

theorem quiet_pre (c : Conn) : Quiet (pre c) := by
  intro e he; unfold pre at he; split at he
  · simp at he; exact Or.inr ⟨_, he⟩
  · simp at he

theorem quiet_post (c : Conn) : Quiet (post c) := by
  intro e he; unfold post at he; split at he
  · simp at he; exact Or.inr ⟨_, he⟩
  · simp at he

theorem quiet_append {a b : List Effect} (ha : Quiet a) (hb : Quiet b) : Quiet (a ++ b) := by
  intro e he
  rcases List.mem_append.mp he with h | h
  · exact ha e h
  · exact hb e h

end AsyncFix.Session.C06
