import AsyncFix.Lemmas.SessionOutResendE

/-!
C05: the step relation holds for every top-level entry point (`step_good`), `reset_seq_num`
re-establishes the invariant from scratch (`resetSeq_inv`).
-/
namespace AsyncFix.Session

open AsyncFix.Generated AsyncFix.Generated.ConnEnum

variable {sr : Msg → Bool} {U X : Prop}

theorem processDispatch_hold (env : Env) (m : Msg) (valid : Bool) (n : Int) (c : Conn)
    (hI : OutInv c) (hl : Live c) (hstamp : isLatin1 env.stamp = true)
    (hU : U → m.mtype = mResendRequest → (m.get? tEndSeqNo).bind pyInt = some 0)
    (hX : X → m.mtype ≠ mResendRequest) :
    Hold sr U X c (processDispatch env sr m valid n) (fun _ _ => True) := by
  unfold processDispatch
  repeat' hstep
  · rename_i h2
    have h2' : m.mtype = mResendRequest := by simpa using h2
    exact processResend_hold env m c hI hl hstamp (fun hu => hU hu h2') (fun hx => hX hx h2')
  · exact processTestRequest_hold env m c hI
  · exact processHeartbeat_hold env m c hI

/-- `_process_message` -/
theorem processMessage_hold (env : Env) (m : Msg) (c : Conn) (hI : OutInv c)
    (hstamp : isLatin1 env.stamp = true)
    (hU : U → m.mtype = mResendRequest → (m.get? tEndSeqNo).bind pyInt = some 0)
    (hX : X → m.mtype ≠ mResendRequest) :
    Hold sr U X c (processMessage env sr m) (fun _ _ => True) := by
  unfold processMessage
  refine Hold.seq (validateIntegrity_hold m c hI) ?_
  intro integ c1 hI1 _
  cases integ with
  | critical => exact (disconnect_hold env _ none c1 hI1).true_of
  | reason text => exact (disconnect_hold env _ (some text) c1 hI1).true_of
  | good =>
    dsimp only
    refine Hold.seq (Hold.swallow (processHead_hold env m c1 hI1) (fun _ _ => by simp)) ?_
    intro head c2 hI2 hhead
    cases head with
    | none => exact Hold.pure hI2 trivial
    | some vn =>
      obtain ⟨valid, n⟩ := vn
      dsimp only
      refine Hold.seq (Hold.swallow (Q := fun _ _ => True)
        (processDispatch_hold env m valid n c2 hI2 (hhead rfl) hstamp hU hX) (fun _ _ => trivial)) ?_
      intro _ c3 hI3 _
      hstep
      · exact finalizeMessage_hold env m c3 hI3
      · exact Hold.pure hI3 trivial

theorem tickBody_hold (env : Env) (c : Conn) (hI : OutInv c) :
    Hold sr U X c (tickBody env) (fun _ _ => True) := by
  unfold tickBody
  dsimp only
  repeat' first
    | hstep
    | exact (disconnect_hold env _ none _ (by assumption)).true_of
    | (refine Hold.seq (disconnect_hold env _ none _ (by assumption)) ?_; intro _ _ _ _)
    | (refine Hold.seq (sendTestReq_hold env _ (by assumption)) ?_; intro _ _ _ _)
    | (refine Hold.bind_modify' (by assumption) ⟨⟨rfl, rfl, rfl⟩, rfl, rfl⟩ rfl rfl ?_; intro _)

theorem connectedM_hold (k : ConnKind) (c : Conn) (hI : OutInv c) :
    Hold sr U X c (connectedM k) (fun _ _ => True) := by
  cases k with
  | initiator =>
    unfold connectedM
    hstep; hstep
    · exact Hold.throw hI
    · exact Hold.bind_modify hI ⟨⟨rfl, rfl, rfl⟩, rfl, rfl⟩ (fun _ => rfl)
        (fun hI1 => Hold.emit rfl hI1 trivial)
  | initiatorFailed =>
    unfold connectedM
    hstep; hstep
    · exact Hold.throw hI
    · exact Hold.modify (hI.of_outEq ⟨⟨rfl, rfl, rfl⟩, rfl, rfl⟩ (fun h => absurd h (Nat.lt_irrefl _)))
        ⟨⟨rfl, rfl, rfl⟩, rfl, rfl⟩ trivial
  | acceptor =>
    unfold connectedM
    dsimp only
    hstep
    have tail : Hold sr U X c (do
        M.modify fun c => { c with sock := true, state := st_NETWORK_CONN_ESTABLISHED }
        M.emit .onConnect) (fun _ _ => True) :=
      Hold.bind_modify hI ⟨⟨rfl, rfl, rfl⟩, rfl, rfl⟩ (fun _ => rfl)
        (fun hI1 => Hold.emit rfl hI1 trivial)
    hstep
    · exact Hold.bind_emit rfl hI tail
    · exact tail

/-- `reset_seq_num()`: numbering restarts at 1 over an emptied journal; the invariant holds again -/
theorem resetSeq_inv (c : Conn) (hI : OutInv c) :
    OutInv (resetSeq c).1 ∧ newWrites (resetSeq c).2 = [] ∧ (resetSeq c).1.sess.nextOut = 1 := by
  have h1 : decide ((1 : Int) > 0) = true := by decide
  have key : resetSeqNum c = ⟨.ok (),
      { c with sess := { c.sess with nextOut := 1, nextIn := 1 },
               journal := c.journal.setSeq 1 1 }, []⟩ := by
    unfold resetSeqNum setSeqNum
    dsimp only
    rw [h1]
    simp only [run_bind_assoc]
    rw [run_bind_of_ok (run_assert_true c), Out.pre_nil, run_bind_modify,
      run_bind_of_ok (run_assert_true _), Out.pre_nil, run_bind_modify, run_bind_modify, run_bind_get]
    dsimp only
    have e1 : ((1 : Int) == 1) = true := by decide
    rw [e1, run_bind_of_ok (run_assert_true _), Out.pre_nil, run_assert_true]
  unfold resetSeq M.run
  rw [key]
  refine ⟨⟨by simp [Journal.setSeq], ?_, Rows.sorted_below _ _ hI.sorted, hI.latin, hI.sock⟩, rfl, rfl⟩
  intro p hp
  have hp' := Rows.mem_below.mp hp
  exact ⟨(hI.rows p hp'.1).1, hp'.2⟩

/-! ### events -/

/-- event side conditions: SendingTime text is single-byte (the real clock prints ASCII); an
application send is a NEW message (no hand-made SequenceReset / PossDupFlag=Y). -/
def Event.ok : Event → Prop
  | .recv env _ => isLatin1 env.stamp = true
  | .appSend _ m => isNew m = true
  | _ => True

instance (ev : Event) : Decidable ev.ok := by
  cases ev <;> unfold Event.ok <;> infer_instance

/-- a ResendRequest whose EndSeqNo(16) is not `0` (= infinity): open finding D9 -/
def boundedResend : Event → Bool
  | .recv _ m => m.mtype == mResendRequest && ((m.get? tEndSeqNo).bind pyInt != some 0)
  | _ => false

def isResendReq : Event → Bool
  | .recv _ m => m.mtype == mResendRequest
  | _ => false

def isReset : Event → Bool
  | .resetSeq => true
  | _ => false

/-- **every event except `reset_seq_num()` satisfies the step relation** -/
theorem step_good (c : Conn) (ev : Event) (hI : OutInv c) (hok : ev.ok)
    (hU : U → boundedResend ev = false) (hX : X → isResendReq ev = false)
    (hr : isReset ev = false) :
    Good sr U X c (step sr c ev).1 (step sr c ev).2 := by
  cases ev with
  | recv env m =>
    refine (processMessage_hold env m c hI hok ?_ ?_).run
    · intro hu h2
      have := hU hu
      simp only [boundedResend, h2, beq_self_eq_true, Bool.true_and, bne_eq_false_iff_eq] at this
      exact this
    · intro hx h2
      have := hX hx
      simp [isResendReq, h2] at this
  | appSend env m => exact (sendMsg_hold env m c hI hok).run
  | appTestReq env => exact (sendTestReq_hold env c hI).run
  | appDisconnect env d l => exact (disconnect_hold env d l c hI).run
  | tick env => exact (tickBody_hold env c hI).run
  | eof env =>
    show Good sr U X c (eof env c).1 (eof env c).2
    unfold eof
    split
    · exact (disconnect_hold env _ none c hI).run
    · exact Good.refl hI
  | connected k => exact (connectedM_hold k c hI).run
  | resetSeq => cases hr

end AsyncFix.Session
