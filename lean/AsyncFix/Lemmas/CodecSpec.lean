/-
Shared statement shapes of the codec proofs (C01 / C03): what `decode` does on a structurally
valid frame, expressed through the field loop.  The framing layer (`decode_mkFrame`, proved in
Lemmas/CodecFrame.lean) and the field/group layer (Lemmas/CodecGroups*.lean) meet here.
-/
import AsyncFix.Model.Codec.Decode
import AsyncFix.Model.Codec.Frame
namespace AsyncFix.Model.Codec

/-- everything of `mkFrame bs fs` in front of the CheckSum field -/
def framePre (bs : Bytes) (fs : List Fld) : Bytes :=
  headBytes bs (bodyBytes fs).length ++ bodyBytes fs

/-- the CheckSum value of `mkFrame bs fs` -/
def frameCk (bs : Bytes) (fs : List Fld) : Nat := sum (framePre bs fs) % 256

theorem mkFrame_eq (bs : Bytes) (fs : List Fld) :
    mkFrame bs fs = framePre bs fs ++ fieldBytes [49, 48] (dec3 (frameCk bs fs)) ++ [SOH] := rfl

/-- the SOH-separated fields of `mkFrame bs fs`, as the decoder's loop sees them -/
def frameFields (bs : Bytes) (fs : List Fld) : List Bytes :=
  fieldBytes [56] bs :: fieldBytes [57] (natToDec (bodyBytes fs).length) ::
    (fs.map (fun f => fieldBytes f.tag f.val) ++ [fieldBytes [49, 48] (dec3 (frameCk bs fs))])

/-- what `decode` returns on `mkFrame bs fs` once the framing checks have passed -/
def decodeViaLoop (bs : Bytes) (tbl : Tbl) (fs : List Fld) : DecRes :=
  match fieldLoop tbl (frameCk bs fs) {} (frameFields bs fs) with
  | .error k => .raised k
  | .ok none => .none (mkFrame bs fs).length
  | .ok (some s) =>
    if s.ckPassed then .msg { mtype := s.mtype, body := s.top } (mkFrame bs fs).length (mkFrame bs fs)
    else .none (mkFrame bs fs).length

end AsyncFix.Model.Codec
