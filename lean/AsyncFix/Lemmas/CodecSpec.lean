/-
Shared statement shapes of the codec proofs (C01 / C03): what `decode` does on a structurally
valid frame, expressed through the field loop.  The framing layer (`decode_mkFrame`, proved in
Lemmas/CodecFrame.lean) and the field/group layer (Lemmas/CodecGroups*.lean) meet here.
-/
import AsyncFix.Model.Codec.Decode
import AsyncFix.Model.Codec.Frame
namespace AsyncFix.Model.Codec

/-- everything of `mkFrame bs fs` in front of the CheckSum field -/
def framePre (bs : Bytes) (fs : List Fld) : Bytes :=
  headBytes bs (bodyBytes fs).length ++ bodyBytes fs

/-- the CheckSum value of `mkFrame bs fs` -/
def frameCk (bs : Bytes) (fs : List Fld) : Nat := sum (framePre bs fs) % 256

theorem mkFrame_eq (bs : Bytes) (fs : List Fld) :
    mkFrame bs fs = framePre bs fs ++ fieldBytes [49, 48] (dec3 (frameCk bs fs)) ++ [SOH] := rfl

/-- the SOH-separated fields of `mkFrame bs fs`, as the decoder's loop sees them -/
def frameFields (bs : Bytes) (fs : List Fld) : List Bytes :=
  fieldBytes [56] bs :: fieldBytes [57] (natToDec (bodyBytes fs).length) ::
    (fs.map (fun f => fieldBytes f.tag f.val) ++ [fieldBytes [49, 48] (dec3 (frameCk bs fs))])

/-- what `decode` returns on `mkFrame bs fs` once the framing checks have passed -/
def decodeViaLoop (bs : Bytes) (tbl : Tbl) (fs : List Fld) : DecRes :=
  match fieldLoop tbl (frameCk bs fs) {} (frameFields bs fs) with
  | .error k => .raised k
  | .ok none => .none (mkFrame bs fs).length
  | .ok (some s) =>
    if s.ckPassed then .msg { mtype := s.mtype, body := s.top } (mkFrame bs fs).length (mkFrame bs fs)
    else .none (mkFrame bs fs).length

end AsyncFix.Model.Codec

namespace AsyncFix.Model.Codec

/-! ## Field/group layer: wire order of a container, well-formedness, the loop over `Fld`s -/

mutual
/-- wire order of one dict entry (what `_addTag` appends), as `Fld`s -/
def flatNode : Node → List Fld
  | .leaf t v => [⟨t, v⟩]
  | .err t => [⟨t, []⟩]                      -- not encodable; excluded by `wfNode`
  | .group g items => ⟨g, natToDec items.length⟩ :: flatItems items
def flatItems : List (List Node) → List Fld
  | [] => []
  | it :: rest => flatCont it ++ flatItems rest
def flatCont : List Node → List Fld
  | [] => []
  | n :: rest => flatNode n ++ flatCont rest
end

/-- the field loop on already split fields -/
def stepAll (tbl : Tbl) (ck : Nat) : DState → List Fld → Except Kind DState
  | s, [] => .ok s
  | s, f :: rest =>
    match stepField tbl ck s f.tag f.val with
    | .error k => .error k
    | .ok s' => stepAll tbl ck s' rest

mutual
/-- member lists of the groups a node leaves open in the decoder when its last field has been read
(outermost first): the group itself, then what the last node of its last item leaves open -/
def openMembersNode (tbl : Tbl) : Node → List (List Tag)
  | .group g items => (tbl.members? g).getD [] :: openMembersItems tbl items
  | _ => []
def openMembersItems (tbl : Tbl) : List (List Node) → List (List Tag)
  | [] => []
  | [it] => openMembersCont tbl it
  | _ :: it :: rest => openMembersItems tbl (it :: rest)
def openMembersCont (tbl : Tbl) : List Node → List (List Tag)
  | [] => []
  | [n] => openMembersNode tbl n
  | _ :: n :: rest => openMembersCont tbl (n :: rest)
end

def notOpen (t : Tag) (open_ : List (List Tag)) : Bool := open_.all fun ms => !ms.contains t

def contTags (c : List Node) : List Tag := c.map Node.tag

mutual
/-- well-formedness of one entry with respect to the group table:
a tag is a group iff it is a key of `tbl`; values are SOH-free; groups have ≥ 1 item -/
def wfNode (tbl : Tbl) : Node → Bool
  | .leaf t v => okTag t && !v.contains SOH && (tbl.members? t).isNone
  | .err _ => false
  | .group g items =>
    okTag g && (match tbl.members? g with
      | none => false
      | some ms => !items.isEmpty && wfItems tbl ms items)
/-- items of a group with member list `ms`: every item is a well-formed container over `ms`
that starts with a plain tag; the first tag of the next item occurs in the previous one (that is
how the decoder recognises an item boundary) and is not a member of a group the previous item
leaves open -/
def wfItems (tbl : Tbl) (ms : List Tag) : List (List Node) → Bool
  | [] => true
  | [it] => wfItem tbl ms it
  | it :: nxt :: rest =>
    wfItem tbl ms it &&
      (match nxt with
       | .leaf t _ :: _ => (contTags it).contains t && notOpen t (openMembersCont tbl it)
       | _ => false) &&
      wfItems tbl ms (nxt :: rest)
def wfItem (tbl : Tbl) (ms : List Tag) : List Node → Bool
  | [] => false
  | .leaf t v :: rest => wfNodes tbl (some ms) [] (.leaf t v :: rest)
  | _ => false
/-- entries of one container: each well-formed, tags pairwise distinct (`seen`), each a member of
the enclosing group (`ms? = some ms`), and the tag following a group is not a member of any
group that group leaves open -/
def wfNodes (tbl : Tbl) (ms? : Option (List Tag)) (seen : List Tag) : List Node → Bool
  | [] => true
  | [n] => wfNode tbl n && !seen.contains n.tag && (match ms? with | some ms => ms.contains n.tag | none => true)
  | n :: m :: rest =>
    wfNode tbl n && !seen.contains n.tag && (match ms? with | some ms => ms.contains n.tag | none => true) &&
      notOpen m.tag (openMembersNode tbl n) && wfNodes tbl ms? (n.tag :: seen) (m :: rest)
end

/-- well-formed top-level container: additionally CheckSum(10) closes every group left open -/
def wfTop (tbl : Tbl) (c : Cont) : Bool :=
  wfNodes tbl none [] c && notOpen tag10 (openMembersCont tbl c) && !(contTags c).contains tag10 &&
    (tbl.members? tag10).isNone

/-- the message type the decoder reports: the value of the LAST field with tag 35 it scans
(at any nesting level), `"UNKNOWN"` when there is none -/
def lastMtype (fs : List Fld) : Bytes :=
  fs.foldl (fun acc f => if f.tag == tag35 then f.val else acc) [85, 78, 75, 78, 79, 87, 78]

end AsyncFix.Model.Codec
