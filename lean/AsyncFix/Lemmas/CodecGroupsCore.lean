/-
Repeating-group reconstruction, part 1: the decoder's per-field step on the pair
`(top, stack)` only (`stepCore`), separated from the `mtype` / `ckPassed` bookkeeping, and the
small algebra (`cur`, `setCur`, `push`, `accepts`) in which the group lemmas are stated.
-/
import AsyncFix.Lemmas.CodecSpec
namespace AsyncFix.Model.Codec

/-- what the group logic of the decoder works on: `DState.top` and `DState.stack` -/
abbrev DS := Cont × List Frame

/-- the container the next plain field goes to: the innermost open item, else the message -/
def cur : DS → Cont
  | (top, []) => top
  | (_, f :: _) => f.item

def setCur : DS → Cont → DS
  | (_, []), c => (c, [])
  | (top, f :: rest), c => (top, { f with item := c } :: rest)

def push (f : Frame) (s : DS) : DS := (s.1, f :: s.2)

/-- `closeWhile` stops at once: no open group, or the tag is a member of the innermost one -/
def accepts : DS → Tag → Bool
  | (_, []), _ => true
  | (_, f :: _), t => f.members.contains t

/-- `stepField` after the `closeWhile` -/
def afterClose (tbl : Tbl) (s : DS) (t v : Bytes) : Except Kind DS :=
  match tbl.members? t with
  | some ms => .ok (push ⟨t, ms, []⟩ s)
  | none =>
    match s with
    | (top, []) =>
      if top.has t then .ok (top.setErr t, [])
      else match top.setStr t v with
        | .error k => .error k
        | .ok top' => .ok (top', [])
    | (top, f :: rest) =>
      if f.item.has t then
        match closeTop top (f :: rest) with
        | .error k => .error k
        | .ok p => .ok (push { f with item := [.leaf t v] } p)
      else .ok (top, { f with item := f.item ++ [.leaf t v] } :: rest)

/-- the `(top, stack)` part of `stepField` -/
def stepCore (tbl : Tbl) (s : DS) (t v : Bytes) : Except Kind DS :=
  match closeWhile t s.1 s.2 with
  | .error k => .error k
  | .ok s1 => afterClose tbl s1 t v

/-- the `(mtype, ckPassed)` part of `stepField` -/
def bk (ck : Nat) (m : Bytes × Bool) (t v : Bytes) : Bytes × Bool :=
  if t == tag10 then
    (m.1, ckParse v == some ck)
  else if t == tag35 then (v, m.2) else m

theorem closeWhile_nil (t : Tag) (top : Cont) : closeWhile t top [] = .ok (top, []) := by
  rw [closeWhile]

theorem setStr_nil (t v : Bytes) : Cont.setStr [] t v = .ok [.leaf t v] := by
  simp [Cont.setStr, Cont.has]

theorem stepField_eq (tbl : Tbl) (ck : Nat) (d : DState) (t v : Bytes) :
    stepField tbl ck d t v =
      match stepCore tbl (d.top, d.stack) t v with
      | .error k => .error k
      | .ok p => .ok { top := p.1, stack := p.2,
                       mtype := (bk ck (d.mtype, d.ckPassed) t v).1,
                       ckPassed := (bk ck (d.mtype, d.ckPassed) t v).2 } := by
  obtain ⟨top, stack, mtype, ckp⟩ := d
  unfold stepField stepCore afterClose bk
  by_cases h10 : (t == tag10) = true <;> by_cases h35 : (t == tag35) = true <;>
    simp only [h10, h35, if_true, if_false, bind, Except.bind, pure, Except.pure, Bool.false_eq_true]
  all_goals
    cases hm : tbl.members? t with
    | some ms =>
      simp only
      cases stack with
      | nil => simp only [closeWhile_nil, push, List.isEmpty_nil, if_true] <;> rfl
      | cons f rest =>
        simp only [List.isEmpty_cons, Bool.false_eq_true, if_false]
        cases closeWhile t top (f :: rest) with
        | error k => rfl
        | ok p => rfl
    | none =>
      simp only
      cases stack with
      | nil =>
        simp only [List.isEmpty_nil, if_true, closeWhile_nil]
        split
        · rfl
        · cases Cont.setStr top t v <;> rfl
      | cons f rest =>
        simp only [List.isEmpty_cons, Bool.false_eq_true, if_false]
        cases closeWhile t top (f :: rest) with
        | error k => rfl
        | ok p =>
          obtain ⟨top1, st1⟩ := p
          cases st1 with
          | nil =>
            simp only
            split
            · rfl
            · cases Cont.setStr top1 t v <;> rfl
          | cons f1 r1 => 
            simp only [setStr_nil]
            split
            · cases closeTop top1 (f1 :: r1) <;> rfl
            · next h => simp only [Cont.setStr, h, Bool.false_eq_true, if_false] <;> rfl


/-- the loop over the `(top, stack)` part -/
def coreAll (tbl : Tbl) : DS → List Fld → Except Kind DS
  | s, [] => .ok s
  | s, f :: rest =>
    match stepCore tbl s f.tag f.val with
    | .error k => .error k
    | .ok s' => coreAll tbl s' rest

def bkAll (ck : Nat) (m : Bytes × Bool) (fs : List Fld) : Bytes × Bool :=
  fs.foldl (fun m f => bk ck m f.tag f.val) m

theorem stepAll_eq (tbl : Tbl) (ck : Nat) (d : DState) (fs : List Fld) :
    stepAll tbl ck d fs =
      match coreAll tbl (d.top, d.stack) fs with
      | .error k => .error k
      | .ok p => .ok { top := p.1, stack := p.2,
                       mtype := (bkAll ck (d.mtype, d.ckPassed) fs).1,
                       ckPassed := (bkAll ck (d.mtype, d.ckPassed) fs).2 } := by
  induction fs generalizing d with
  | nil => rfl
  | cons f rest ih =>
    simp only [stepAll, coreAll, stepField_eq, bkAll, List.foldl_cons]
    cases stepCore tbl (d.top, d.stack) f.tag f.val with
    | error k => rfl
    | ok p => simp only [ih, bkAll]

theorem coreAll_append (tbl : Tbl) (s : DS) (a b : List Fld) :
    coreAll tbl s (a ++ b) =
      match coreAll tbl s a with
      | .error k => .error k
      | .ok s' => coreAll tbl s' b := by
  induction a generalizing s with
  | nil => rfl
  | cons f rest ih =>
    simp only [List.cons_append, coreAll]
    cases stepCore tbl s f.tag f.val with
    | error k => rfl
    | ok p => exact ih p

theorem bk_fst (ck : Nat) (m : Bytes × Bool) (t v : Bytes) :
    (bk ck m t v).1 = if t == tag35 then v else m.1 := by
  unfold bk
  by_cases h10 : (t == tag10) = true
  · have : t = tag10 := eq_of_beq h10
    subst this
    simp [tag10, tag35]
  · simp only [h10, Bool.false_eq_true, if_false]
    split <;> rfl

theorem bkAll_fst (ck : Nat) (m : Bytes × Bool) (fs : List Fld) :
    (bkAll ck m fs).1 = fs.foldl (fun acc f => if f.tag == tag35 then f.val else acc) m.1 := by
  induction fs generalizing m with
  | nil => rfl
  | cons f rest ih =>
    simp only [bkAll, List.foldl_cons] at ih ⊢
    rw [ih, bk_fst]

theorem bkAll_snd_tag10 (ck : Nat) (m : Bytes × Bool) (fs : List Fld) (v : Bytes) :
    (bkAll ck m (fs ++ [⟨tag10, v⟩])).2 =
      (ckParse v == some ck) := by
  simp [bkAll, List.foldl_append, bk]

end AsyncFix.Model.Codec
