/-
C08: `RunSpec` for persist_msg and set_seq_num, and the combined statement for every `Op`.
-/
import AsyncFix.Lemmas.JournalOps
namespace AsyncFix.Model.Journal

theorem persist_runSpec (c : Conn) (hcl : c.Clean) (msg : Bytes) (h : Handle) (dir : Dir) (n : Nat) :
    RunSpec (persistP msg h dir) c c.committed (persist c.working msg h dir).1 (persist c.working msg h dir).2
      (Op.persist msg h dir).ParamsFit n := by
  unfold persistP persist
  simp only [Op.ParamsFit]
  cases hn : findSeqNo msg with
  | none => exact runSpec_ret _ _ c true n (fun _ => rfl) hcl
  | some q =>
    simp only
    apply runSpec_exec _ _ _ _ _ _ _ _ rfl
    intro m
    have htx := exec_inTx c (.insertMsg q h.key dir msg)
    simp only [Stmt.isDML, Bool.or_true] at htx
    by_cases hb : (fits q && fits h.key) = true
    · have hb' := hb
      simp only [Bool.and_eq_true] at hb'
      have hb1 : (Stmt.insertMsg q h.key dir msg).bindOk = true := by
        simp [Stmt.bindOk, Stmt.params, fits_dirVal, hb'.1, hb'.2]; decide
      obtain ⟨hr, hw, hc⟩ := exec_ok c _ hb1
      simp only [Stmt.isDML, Bool.or_true, if_true, Stmt.run] at hr hw hc
      simp only [hb, Bool.not_true, Bool.false_eq_true, if_false]
      cases hi : insMsg c.working q h.key dir msg with
      | none =>
        simp only [hi] at hr hw ⊢
        rw [hr]
        have := runSpec_ret (.raised .duplicateSeqNo) (.raised .duplicateSeqNo)
          (c.exec (.insertMsg q h.key dir msg)).1 true m (fun _ => rfl)
          (by simp only [Conn.Clean, hw, hc]; exact hcl)
        rwa [hw, hc] at this
      | some j1 =>
        simp only [hi] at hr hw ⊢
        rw [hr]
        apply runSpec_exec _ _ _ _ _ _ _ _ hc
        intro m2
        have hb2 : (Stmt.updateCounter dir q h.key).bindOk = true := by
          simp [Stmt.bindOk, Stmt.params, hb'.1, hb'.2]
        obtain ⟨hr2, hw2, hc2⟩ := exec_ok (c.exec (.insertMsg q h.key dir msg)).1 _ hb2
        have htx2 := exec_inTx (c.exec (.insertMsg q h.key dir msg)).1 (.updateCounter dir q h.key)
        simp only [htx, Bool.true_or, if_true, Stmt.run] at hr2 hw2 hc2 htx2
        rw [hr2]
        have := runSpec_commit_ret .none .none
          ((c.exec (.insertMsg q h.key dir msg)).1.exec (.updateCounter dir q h.key)).1 true m2 htx2
          (fun _ => rfl)
        rwa [hw2, hc2, hc, hw] at this
    · have hb0 : (fits q && fits h.key) = false := by simpa using hb
      have hb1 : (Stmt.insertMsg q h.key dir msg).bindOk = false := by
        simp only [Stmt.bindOk, Stmt.params, List.all_cons, List.all_nil, Bool.and_true]
        rw [← Bool.and_assoc, hb0]; rfl
      obtain ⟨hr, hw, hc⟩ := exec_fail c _ hb1
      simp only [hb0, Bool.not_false, if_true]
      rcases hr with hr | hr <;> rw [hr]
      · -- OverflowError: `except Exception` rolls back (the transaction the implicit BEGIN opened)
        have := runSpec_rollback_ret (.raised (excOf .overflow)) (.raised .overflow)
          (c.exec (.insertMsg q h.key dir msg)).1 false m htx (fun hf => by cases hf)
        rw [hc] at this
        have hcl' : c.working = c.committed := hcl
        rw [hcl']
        exact this
      · -- reported as IntegrityError through a stale error code: DuplicateSeqNoError, no rollback
        have := runSpec_ret (.raised .duplicateSeqNo) (.raised .overflow)
          (c.exec (.insertMsg q h.key dir msg)).1 false m (fun hf => by cases hf)
          (by simp only [Conn.Clean, hw, hc]; exact hcl)
        rwa [hw, hc] at this

theorem setSeqNum_runSpec (c : Conn) (hcl : c.Clean) (h : Handle) (out inn : Option Int) (n : Nat) :
    RunSpec (setSeqNumP h out inn) c c.committed (setSeqNum c.working h out inn).1
      (setSeqNum c.working h out inn).2 (Op.setSeqNum h out inn).ParamsFit n := by
  have hcl' : c.working = c.committed := hcl
  unfold setSeqNumP setSeqNum
  simp only [Op.ParamsFit]
  by_cases h1 : out.any (· ≤ 0) = true
  · simp only [h1, if_true]
    exact runSpec_ret _ _ c _ n (fun _ => rfl) hcl
  by_cases h2 : inn.any (· ≤ 0) = true
  · simp only [h1, h2, if_true]
    exact runSpec_ret _ _ c _ n (fun _ => rfl) hcl
  simp only [h1, h2, if_false, Bool.false_eq_true]
  simp only [Bool.or_self, Bool.false_or]
  generalize hh2 : ({ h with nextOut := effOut h out, nextIn := effIn h inn } : Handle) = H2
  apply runSpec_exec _ _ _ _ _ _ _ _ rfl
  intro m1
  have htx1 := exec_inTx c (.updateBoth (effIn h inn - 1) (effOut h out - 1) h.key)
  simp only [Stmt.isDML, Bool.or_true] at htx1
  by_cases h3 : (fits (effIn h inn - 1) && fits (effOut h out - 1) && fits h.key) = true
  · have hb1 : (Stmt.updateBoth (effIn h inn - 1) (effOut h out - 1) h.key).bindOk = true := by
      simp only [Stmt.bindOk, Stmt.params, List.all_cons, List.all_nil, Bool.and_true]
      rw [← Bool.and_assoc]; exact h3
    have hkey : fits h.key = true := by simp only [Bool.and_eq_true] at h3; exact h3.2
    obtain ⟨hr1, hw1, hc1⟩ := exec_ok c _ hb1
    simp only [Stmt.isDML, Bool.or_true, if_true, Stmt.run] at hr1 hw1 hc1
    simp only [h3, Bool.true_and]
    rw [hr1]
    generalize (c.exec (.updateBoth (effIn h inn - 1) (effOut h out - 1) h.key)).1 = c1 at *
    apply runSpec_exec _ _ _ _ _ _ _ _ hc1
    intro m2
    have htx2 := exec_inTx c1 (.deleteFrom h.key (effIn h inn) .inbound)
    simp only [htx1, Bool.true_or] at htx2
    by_cases h4 : fits (effIn h inn) = true
    · have hb2 : (Stmt.deleteFrom h.key (effIn h inn) .inbound).bindOk = true := by
        simp [Stmt.bindOk, Stmt.params, hkey, h4, fits_dirVal]
      obtain ⟨hr2, hw2, hc2⟩ := exec_ok c1 _ hb2
      simp only [htx1, Bool.true_or, if_true, Stmt.run] at hr2 hw2 hc2
      simp only [h4, Bool.true_and]
      rw [hr2]
      generalize (c1.exec (.deleteFrom h.key (effIn h inn) .inbound)).1 = c2 at *
      apply runSpec_exec _ _ _ _ _ _ _ _ (hc2.trans hc1)
      intro m3
      have htx3 := exec_inTx c2 (.deleteFrom h.key (effOut h out) .outbound)
      simp only [htx2, Bool.true_or] at htx3
      by_cases h5 : fits (effOut h out) = true
      · have hb3 : (Stmt.deleteFrom h.key (effOut h out) .outbound).bindOk = true := by
          simp [Stmt.bindOk, Stmt.params, hkey, h5, fits_dirVal]
        obtain ⟨hr3, hw3, hc3⟩ := exec_ok c2 _ hb3
        simp only [htx2, Bool.true_or, if_true, Stmt.run] at hr3 hw3 hc3
        simp only [h5, Bool.not_true, Bool.false_eq_true, if_false]
        rw [hr3]
        generalize (c2.exec (.deleteFrom h.key (effOut h out) .outbound)).1 = c3 at *
        have := runSpec_commit_ret (.set H2 none) (.set H2 none) c3 true m3 htx3 (fun _ => rfl)
        rwa [hw3, hc3, hw2, hc2, hw1, hc1] at this
      · have h5' : fits (effOut h out) = false := by simpa using h5
        have hb3 : (Stmt.deleteFrom h.key (effOut h out) .outbound).bindOk = false := by
          simp [Stmt.bindOk, Stmt.params, hkey, h5']
        obtain ⟨hr3, -, hc3⟩ := exec_fail c2 _ hb3
        simp only [h5', Bool.not_false, if_true]
        generalize (c2.exec (.deleteFrom h.key (effOut h out) .outbound)) = e3 at *
        obtain ⟨c3, r3⟩ := e3
        simp only at hr3 hc3 htx3 ⊢
        have := runSpec_rollback_ret (.set H2 (some (excOf r3))) (.set H2 (some .overflow)) c3 false m3 htx3
          (fun hf => by cases hf)
        rw [hc3, hc2, hc1] at this
        rw [hcl']
        rcases hr3 with rfl | rfl <;> exact this
    · have h4' : fits (effIn h inn) = false := by simpa using h4
      have hb2 : (Stmt.deleteFrom h.key (effIn h inn) .inbound).bindOk = false := by
        simp [Stmt.bindOk, Stmt.params, hkey, h4']
      obtain ⟨hr2, -, hc2⟩ := exec_fail c1 _ hb2
      simp only [h4', Bool.false_and, Bool.not_false, if_true]
      generalize (c1.exec (.deleteFrom h.key (effIn h inn) .inbound)) = e2 at *
      obtain ⟨c2, r2⟩ := e2
      simp only at hr2 hc2 htx2 ⊢
      have := runSpec_rollback_ret (.set H2 (some (excOf r2))) (.set H2 (some .overflow)) c2 false m2 htx2
        (fun hf => by cases hf)
      rw [hc2, hc1] at this
      rw [hcl']
      rcases hr2 with rfl | rfl <;> exact this
  · have h3' : (fits (effIn h inn - 1) && fits (effOut h out - 1) && fits h.key) = false := by simpa using h3
    have hb1 : (Stmt.updateBoth (effIn h inn - 1) (effOut h out - 1) h.key).bindOk = false := by
      simp only [Stmt.bindOk, Stmt.params, List.all_cons, List.all_nil, Bool.and_true]
      rw [← Bool.and_assoc]; exact h3'
    obtain ⟨hr1, -, hc1⟩ := exec_fail c _ hb1
    simp only [h3', Bool.false_and, Bool.not_false, if_true]
    generalize (c.exec (.updateBoth (effIn h inn - 1) (effOut h out - 1) h.key)) = e1 at *
    obtain ⟨c1, r1⟩ := e1
    simp only at hr1 hc1 htx1 ⊢
    have := runSpec_rollback_ret (.set H2 (some (excOf r1))) (.set H2 (some .overflow)) c1 false m1 htx1
      (fun hf => by cases hf)
    rw [hc1] at this
    rw [hcl']
    rcases hr1 with rfl | rfl <;> exact this

/-- every public method, entered with nothing uncommitted -/
theorem op_runSpec (c : Conn) (hcl : c.Clean) (op : Op) (n : Nat) :
    RunSpec op.prog c c.committed (applyOp c.working op).1 (applyOp c.working op).2 op.ParamsFit n := by
  cases op with
  | createOrLoad t s => exact createOrLoad_runSpec c hcl t s n
  | sessions => exact sessions_runSpec c hcl n
  | persist msg h dir => exact persist_runSpec c hcl msg h dir n
  | setSeqNum h out inn => exact setSeqNum_runSpec c hcl h out inn n
  | recover h dir lo hi => exact recover_runSpec c hcl h dir lo hi n
  | recoverMsg h dir b => exact recoverMsg_runSpec c hcl h dir b n
  | getAll keys dir => exact getAll_runSpec c hcl keys dir n

end AsyncFix.Model.Journal
