import AsyncFix.Lemmas.SessionResendBody

/-!
C06 helper lemmas, part 7: the way of a ResendRequest through `_process_message`
(`_validate_integrity`, the head of the `try` block, the dispatch, `_finalize_message`).
-/
namespace AsyncFix.Session.C06
open Msg AsyncFix.Generated AsyncFix.Generated.ConnEnum

/-- the frame around the request: what `_validate_integrity` and the sequence check want to see -/
structure Envelope (c : Conn) (m : Msg) : Prop where
  begin_ : m.get? tBeginString = some Proto.beginString
  sender : m.get? tSenderCompID = some c.sess.target
  target : m.get? tTargetCompID = some c.sess.sender
  seq : ∃ v, m.get? tMsgSeqNum = some v ∧ pyInt v = some c.sess.nextIn

theorem finalize_req (env : Env) (m : Msg) (c : Conn) (v : String)
    (hm : m.mtype = mResendRequest) (h34 : m.get? tMsgSeqNum = some v)
    (hv : pyInt v = some c.sess.nextIn)
    (hst : c.state = st_RESENDREQ_AWAITING → c.sess.nextIn < c.maxResend) :
    (finalizeMessage env m c).conn.state = c.state ∧
    (finalizeMessage env m c).conn.sess.nextOut = c.sess.nextOut ∧
    (finalizeMessage env m c).conn.sess.sender = c.sess.sender ∧
    (finalizeMessage env m c).conn.sess.target = c.sess.target ∧
    (finalizeMessage env m c).conn.journal.out = c.journal.out ∧
    (finalizeMessage env m c).conn.journal.outSeq = c.journal.outSeq ∧
    (finalizeMessage env m c).eff = [] ∧
    (Rows.AllLt c.sess.nextIn c.journal.inb → (finalizeMessage env m c).res = .ok ()) := by
  have hne : (m.mtype == mSequenceReset) = false := by rw [hm]; decide
  have hhas : m.has tMsgSeqNum = true := by rw [has_eq, h34]; rfl
  have hnext : setNextNumIn m c =
      ⟨.ok c.sess.nextIn, { c with sess := { c.sess with nextIn := c.sess.nextIn + 1 } }, []⟩ := by
    simp [setNextNumIn, M.bind_apply, hne, hhas, Msg.get, h34, M.int, hv]
  unfold finalizeMessage
  rw [M.bind_ok hnext]
  by_cases hpos : c.sess.nextIn ≤ 0
  · simp [hpos]
  · simp only [hpos, if_false]
    have hpersist : ∀ c' : Conn, c'.journal.inb = c.journal.inb →
        ((persistInbound m c').conn.state = c'.state ∧
        (persistInbound m c').conn.sess = c'.sess ∧
        (persistInbound m c').conn.journal.out = c'.journal.out ∧
        (persistInbound m c').conn.journal.outSeq = c'.journal.outSeq ∧
        (persistInbound m c').eff = [] ∧
        (Rows.AllLt c.sess.nextIn c.journal.inb → (persistInbound m c').res = .ok ())) := by
      intro c' hinb
      unfold persistInbound
      simp only [h34, hv, M.bind_apply, M.pure_apply, M.get_apply, Journal.persist, hinb]
      cases hins : Rows.insert c.sess.nextIn m c.journal.inb with
      | none =>
        simp only [Option.map_none, M.throw_apply, List.append_nil, true_and]
        intro hl
        rw [Rows.insert_append _ _ _ hl] at hins
        exact absurd hins (by simp)
      | some r => simp
    by_cases haw : c.state = st_RESENDREQ_AWAITING
    · have hmr := hst haw
      have h1 : decide (c.maxResend > 0) = true := by simp; omega
      have h2 : ¬ (c.sess.nextIn ≥ c.maxResend) := by omega
      have haw' : (c.state == st_RESENDREQ_AWAITING) = true := by simp [haw]
      simp only [M.bind_apply, M.get_apply, haw', if_true, h1, M.assert_true_apply,
        h2, if_false, List.nil_append]
      split
      · simp only [M.bind_apply, M.modify_apply, List.nil_append]
        obtain ⟨p1, p2, p3, p4, p5, p6⟩ := hpersist
          { c with sess := { c.sess with nextIn := c.sess.nextIn + 1 }, lastTime := env.now } rfl
        simp only [p1, p2, p3, p4, p5, true_and]
        exact p6
      · obtain ⟨p1, p2, p3, p4, p5, p6⟩ := hpersist
          { c with sess := { c.sess with nextIn := c.sess.nextIn + 1 } } rfl
        simp only [p1, p2, p3, p4, p5, true_and]
        exact p6
    · have haw' : (c.state == st_RESENDREQ_AWAITING) = false := by simpa using haw
      simp only [M.bind_apply, M.get_apply, haw', Bool.false_eq_true, if_false,
        List.nil_append]
      split
      · simp only [M.bind_apply, M.modify_apply, List.nil_append]
        obtain ⟨p1, p2, p3, p4, p5, p6⟩ := hpersist
          { c with sess := { c.sess with nextIn := c.sess.nextIn + 1 }, lastTime := env.now } rfl
        simp only [p1, p2, p3, p4, p5, true_and]
        exact p6
      · obtain ⟨p1, p2, p3, p4, p5, p6⟩ := hpersist
          { c with sess := { c.sess with nextIn := c.sess.nextIn + 1 } } rfl
        simp only [p1, p2, p3, p4, p5, true_and]
        exact p6

/-- the `raised` effect `M.run` appends -/
def raisedOf {α} : Except Exc α → List Effect
  | .ok _ => []
  | .error k => [.raised k]

theorem validate_good (m : Msg) (c : Conn) (henv : Envelope c m) :
    validateIntegrity m c = ⟨.ok .good, c, []⟩ := by
  obtain ⟨v, h34, hv⟩ := henv.seq
  have h49 : m.has tSenderCompID = true := by rw [has_eq, henv.sender]; rfl
  have h56 : m.has tTargetCompID = true := by rw [has_eq, henv.target]; rfl
  have h34' : m.has tMsgSeqNum = true := by rw [has_eq, h34]; rfl
  simp [validateIntegrity, M.bind_apply, Msg.get, henv.begin_, h49, h56, henv.sender, henv.target, h34',
    h34, hv]

theorem processHead_req (env : Env) (m : Msg) (c : Conn) (hm : m.mtype = mResendRequest)
    (henv : Envelope c m) (hst : c.state = st_ACTIVE ∨ c.state = st_RESENDREQ_AWAITING) :
    processHead env m c = ⟨.ok (some (true, c.sess.nextIn)), c, []⟩ := by
  obtain ⟨v, h34, hv⟩ := henv.seq
  unfold processHead
  rcases hst with h | h <;>
    simp [M.bind_apply, h, hm, st_ACTIVE, st_RESENDREQ_AWAITING, st_NETWORK_CONN_ESTABLISHED,
      st_LOGON_INITIAL_SENT, st_DISCONNECTED_BROKEN_CONN, mResendRequest, mLogon, mLogout,
      mSequenceReset, M.assert_true_apply, Msg.get, h34, M.int, hv, checkSeqnumGaps]

theorem recv_of_resend (sr : Msg → Bool) (env : Env) (c c' : Conn) (m : Msg) (effs : List Effect)
    (hm : m.mtype = mResendRequest) (henv : Envelope c m)
    (hst : c.state = st_ACTIVE ∨ c.state = st_RESENDREQ_AWAITING)
    (hpr : processResend env sr m c = ⟨.ok (), c', effs⟩) :
    recv sr env c m =
      ((finalizeMessage env m c').conn,
        effs ++ (finalizeMessage env m c').eff ++ raisedOf (finalizeMessage env m c').res) := by
  have hd : processDispatch env sr m true c.sess.nextIn c = ⟨.ok (), c', effs⟩ := by
    unfold processDispatch
    simp [hm, hpr]
  unfold recv M.run processMessage
  rw [M.bind_ok (validate_good m c henv)]
  simp only [swallow, M.tryCatch, M.bind_apply, processHead_req env m c hm henv hst, hd, if_true,
    List.nil_append]
  cases hf : finalizeMessage env m c' with
  | mk res conn eff =>
    cases res <;> simp [raisedOf]
end AsyncFix.Session.C06
