import AsyncFix.Lemmas.SessionOutHead

/-!
C05, resend servicing, part A: sending a message that carries its own number (gap fill, retransmitted
copy) while the counter is rewound; the replay loop of `_process_resend` (`resendLoop_spec`).
-/
namespace AsyncFix.Session

open AsyncFix.Generated AsyncFix.Generated.ConnEnum

/-- replace the outbound rows and the stored outbound counter -/
def setOut (c : Conn) (J : Rows) (o : Int) : Conn :=
  { c with journal := { c.journal with out := J, outSeq := o } }

/-- what the loop needs from the connection: past the logon states, transport present, CompIDs and
clock text single-byte -/
structure ResendCtx (env : Env) (c : Conn) : Prop where
  state : st_LOGON_INITIAL_SENT < c.state
  sock : c.sock = true
  latS : isLatin1 c.sess.sender = true
  latT : isLatin1 c.sess.target = true
  latStamp : isLatin1 env.stamp = true

theorem ResendCtx.setOut {env : Env} {c : Conn} (h : ResendCtx env c) (J : Rows) (o : Int) :
    ResendCtx env (setOut c J o) := ⟨h.state, h.sock, h.latS, h.latT, h.latStamp⟩

theorem gateRefuses_false {c : Conn} (h : st_LOGON_INITIAL_SENT < c.state) (m : Msg) :
    gateRefuses c m = false := by
  have h1 : ¬ c.state < st_NETWORK_CONN_ESTABLISHED := by
    have : st_NETWORK_CONN_ESTABLISHED < st_LOGON_INITIAL_SENT := by decide
    omega
  have h2 : (c.state == st_NETWORK_CONN_ESTABLISHED) = false := by
    have : st_NETWORK_CONN_ESTABLISHED < st_LOGON_INITIAL_SENT := by decide
    simp only [beq_eq_false_iff_ne, ne_eq]; omega
  have h3 : (c.state == st_LOGON_INITIAL_SENT) = false := by
    simp only [beq_eq_false_iff_ne, ne_eq]; omega
  simp [gateRefuses, h1, h2, h3]

theorem afterGate_of_ne {c : Conn} (h : st_LOGON_INITIAL_SENT < c.state) :
    afterGate c = c ∧ gateEff c = [] := by
  have h2 : (c.state == st_NETWORK_CONN_ESTABLISHED) = false := by
    have : st_NETWORK_CONN_ESTABLISHED < st_LOGON_INITIAL_SENT := by decide
    simp only [beq_eq_false_iff_ne, ne_eq]; omega
  simp [afterGate, gateEff, h2]

/-- `send_msg` of a SequenceReset / PossDupFlag=Y message numbered `k` above every journal row -/
theorem sendMsg_fixed (env : Env) (m : Msg) (c : Conn) (k : Int) (hc : ResendCtx env c)
    (hn : isNew m = false) (h34 : m.get? tMsgSeqNum = some (pyStr k)) (hm : LatinMsg m)
    (hty : (m.mtype == mTestRequest) = false) (hlt : Rows.AllLt k c.journal.out) :
    sendMsg env m c = ⟨.ok (), setOut c (c.journal.out ++ [(k, buildFrame c.sess env.stamp m k)]) k,
      [.write (buildFrame c.sess env.stamp m k)]⟩ := by
  rw [sendMsg_eq, gateRefuses_false hc.state]
  obtain ⟨h1, h2⟩ := afterGate_of_ne hc.state
  simp only [Bool.false_eq_true, if_false, h1, h2]
  rw [Out.pre_nil, sendCore_fixed env m c k (encodeSeq_fixed m c _ k hn h34 (pyInt_pyStr k))]
  have hl := frameLatin1_build c.sess env.stamp m k hc.latS hc.latT hc.latStamp hm
  simp only [hty, Bool.false_and, Bool.false_eq_true, if_false, hl, Bool.not_true,
    persist_out_of_allLt _ _ _ hlt, hc.sock]
  simp [setOut, hc.sock]

theorem latinMsg_gapFill (a b : Int) : LatinMsg (gapFillMsg a b) := by
  refine ⟨(by decide : isLatin1 mSequenceReset = true), ?_⟩
  intro p hp
  simp only [gapFillMsg, Msg.mk', List.mem_cons, List.mem_nil_iff, or_false] at hp
  rcases hp with rfl | rfl | rfl
  · decide
  · exact isLatin1_pyStr a
  · exact isLatin1_pyStr b

theorem gapFill_facts (a b : Int) : isNew (gapFillMsg a b) = false ∧
    (gapFillMsg a b).get? tMsgSeqNum = some (pyStr a) ∧
    ((gapFillMsg a b).mtype == mTestRequest) = false := by
  refine ⟨rfl, rfl, rfl⟩

/-- the gap fill `_process_resend` sends for `[a, b)` -/
theorem sendMsg_gapFill (env : Env) (c : Conn) (a b : Int) (hc : ResendCtx env c)
    (hlt : Rows.AllLt a c.journal.out) :
    sendMsg env (gapFillMsg a b) c =
      ⟨.ok (), setOut c (c.journal.out ++ [(a, buildFrame c.sess env.stamp (gapFillMsg a b) a)]) a,
        [.write (buildFrame c.sess env.stamp (gapFillMsg a b) a)]⟩ :=
  sendMsg_fixed env _ c a hc (gapFill_facts a b).1 (gapFill_facts a b).2.1 (latinMsg_gapFill a b)
    (gapFill_facts a b).2.2 hlt

end AsyncFix.Session
