import AsyncFix.Lemmas.SessionInMsg

/-!
C04 helper: a number above the expectation – exactly what `_check_seqnum_gaps` does when the
ResendRequest can be sent, and what `_process_message` does around it.
-/
namespace AsyncFix.Session
open AsyncFix.Generated AsyncFix.Generated.ConnEnum

/-- `send_msg` of an ordinary message (fresh number, not a TestRequest / SequenceReset / PossDup copy)
on an established connection when nothing can fail -/
theorem sendMsg_ok (env : Env) (m : Msg) (c : Conn) (j : Journal)
    (hst : st_LOGON_INITIAL_RECV ≤ c.state)
    (h1 : m.mtype ≠ mTestRequest) (h4 : m.mtype ≠ mSequenceReset) (hpd : m.get? tPossDupFlag = none)
    (hsock : c.sock = true)
    (hlat : frameLatin1 (buildFrame { c.sess with nextOut := c.sess.nextOut + 1 } env.stamp m c.sess.nextOut) = true)
    (hper : c.journal.persist .outbound c.sess.nextOut
      (buildFrame { c.sess with nextOut := c.sess.nextOut + 1 } env.stamp m c.sess.nextOut) = some j) :
    Holds (sendMsg env m) c (fun r c' e =>
      r = .ok () ∧ c' = { c with sess := { c.sess with nextOut := c.sess.nextOut + 1 }, journal := j } ∧
      e = [.write (buildFrame { c.sess with nextOut := c.sess.nextOut + 1 } env.stamp m c.sess.nextOut)]) := by
  have hs6 : ¬ c.state < st_NETWORK_CONN_ESTABLISHED := by
    simp [st_LOGON_INITIAL_RECV, st_NETWORK_CONN_ESTABLISHED] at *; omega
  have hs6' : ¬ c.state = st_NETWORK_CONN_ESTABLISHED := by
    simp [st_LOGON_INITIAL_RECV, st_NETWORK_CONN_ESTABLISHED] at *; omega
  have hs7 : ¬ c.state = st_LOGON_INITIAL_SENT := by
    simp [st_LOGON_INITIAL_RECV, st_LOGON_INITIAL_SENT] at *; omega
  unfold sendMsg sendGate sendCore encodeSeq
  wp_simp
  simp [hs6, hs6', hs7, h1, h4, hpd, hsock, hlat, hper]

/-- the ResendRequest `_check_seqnum_gaps` builds: BeginSeqNo = expected number, EndSeqNo = 0 -/
def rrMsg (c : Conn) : Msg :=
  Msg.mk' mResendRequest [(tBeginSeqNo, pyStr c.sess.nextIn), (tEndSeqNo, "0")]

/-- … as it goes to the wire (and into the journal) under the next outbound number -/
def rrFrame (env : Env) (c : Conn) : Msg :=
  buildFrame { c.sess with nextOut := c.sess.nextOut + 1 } env.stamp (rrMsg c) c.sess.nextOut

/-- the ResendRequest can be sent: transport present, text encodable, journal accepts the number -/
structure CanSend (env : Env) (c : Conn) (j : Journal) : Prop where
  sock : c.sock = true
  latin1 : frameLatin1 (rrFrame env c) = true
  persist : c.journal.persist .outbound c.sess.nextOut (rrFrame env c) = some j

/-- connection after a detected gap at number `n` -/
def gapConn (c : Conn) (n : Int) (j : Journal) : Conn :=
  { c with maxResend := n, state := st_RESENDREQ_AWAITING,
           sess := { c.sess with nextOut := c.sess.nextOut + 1 }, journal := j }

def gapEffects (env : Env) (c : Conn) : List Effect :=
  [.write (rrFrame env c), .onState st_RESENDREQ_AWAITING]

theorem checkSeqnumGaps_gap (env : Env) (n : Int) (c : Conn) (j : Journal)
    (hn : c.sess.nextIn < n) (hst : st_LOGON_INITIAL_RECV ≤ c.state)
    (hna : c.state ≠ st_RESENDREQ_AWAITING) (hs : CanSend env c j) :
    Holds (checkSeqnumGaps env n) c (fun r c' e =>
      r = .ok false ∧ c' = gapConn c n j ∧ e = gapEffects env c) := by
  obtain ⟨hsock, hlat, hper⟩ := hs
  have hna' : (c.state != st_RESENDREQ_AWAITING) = true := by simpa using hna
  unfold checkSeqnumGaps stateSet
  wp_simp
  refine ⟨fun _ => ⟨fun _ => ?_, fun h => absurd hna' h⟩, fun h => absurd hn h⟩
  refine Holds.of_spec (sendMsg_ok env (rrMsg c) { c with maxResend := n } j hst (by simp [rrMsg, Msg.mk', mResendRequest, mTestRequest]) (by simp [rrMsg, Msg.mk', mResendRequest, mSequenceReset]) rfl
    hsock hlat hper) ?_ ?_
  · rintro _ c' e ⟨-, rfl, rfl⟩
    simp [gapConn, gapEffects, rrFrame, st_RESENDREQ_AWAITING, st_ACTIVE]
  · rintro ex c' e ⟨h, -⟩
    cases h

/-- a GapFill that is not numbered as expected is not honoured and changes nothing -/
theorem processSeqreset_gapfill_off (m : Msg) (c : Conn) (n : Int)
    (hm : m.mtype = mSequenceReset) (hg : isGapFill m = true) (hs : seqOf m = some n)
    (hn : n ≠ c.sess.nextIn) :
    Holds (processSeqreset m) c (fun r c' e => r = .ok false ∧ c' = c ∧ e = []) := by
  unfold processSeqreset
  wp_simp
  simp only [seqOf, isGapFill] at hs hg
  cases hv : m.get? tMsgSeqNum with
  | none => simp [hv] at hs
  | some v =>
    simp [hv] at hs
    simp_all

theorem processHead_gap (env : Env) (m : Msg) (c : Conn) (n : Int) (j : Journal)
    (hst : st_LOGON_INITIAL_RECV ≤ c.state) (hna : c.state ≠ st_RESENDREQ_AWAITING)
    (hs : seqOf m = some n) (hn : c.sess.nextIn < n)
    (hA : m.mtype ≠ mLogon) (h5 : m.mtype ≠ mLogout)
    (h4 : m.mtype = mSequenceReset → isGapFill m = true) (hsend : CanSend env c j) :
    Holds (processHead env m) c (fun r c1 e =>
      c1 = gapConn c n j ∧ e = gapEffects env c ∧
      ((m.mtype ≠ mSequenceReset ∧ r = .ok (some (false, n))) ∨ (m.mtype = mSequenceReset ∧ r = .ok none))) := by
  have hs6 : decide (c.state ≥ st_NETWORK_CONN_ESTABLISHED) = true := by
    simp [st_LOGON_INITIAL_RECV, st_NETWORK_CONN_ESTABLISHED] at *; omega
  have hs6' : ¬ c.state = st_NETWORK_CONN_ESTABLISHED := by
    simp [st_LOGON_INITIAL_RECV, st_NETWORK_CONN_ESTABLISHED] at *; omega
  have hs7 : ¬ c.state = st_LOGON_INITIAL_SENT := by
    simp [st_LOGON_INITIAL_RECV, st_LOGON_INITIAL_SENT] at *; omega
  have hs3 : ¬ c.state ≤ st_DISCONNECTED_BROKEN_CONN := by
    simp [st_LOGON_INITIAL_RECV, st_DISCONNECTED_BROKEN_CONN] at *; omega
  obtain ⟨v, hv, hpv⟩ : ∃ v, m.get? tMsgSeqNum = some v ∧ pyInt v = some n := by
    unfold seqOf at hs
    cases hv : m.get? tMsgSeqNum with
    | none => simp [hv] at hs
    | some v => exact ⟨v, rfl, by simpa [hv] using hs⟩
  unfold processHead
  wp_simp
  simp only [hs6, hs6', hs7, hA, h5, hv, hpv, beq_iff_eq, bne_iff_ne, ne_eq, not_false_eq_true, not_true_eq_false,
    true_implies, false_implies, and_true, true_and, Bool.and_eq_true, and_false,
    Option.some.injEq, forall_eq', reduceCtorEq, hs3]
  refine ⟨fun hm => ?_, fun hm => ?_⟩
  · refine Holds.of_spec (processSeqreset_gapfill_off m c n hm (h4 hm) hs (by omega)) ?_ ?_
    · rintro a c1 e1 ⟨ha, rfl, rfl⟩
      cases ha
      simp only [Bool.not_false, true_implies, not_true_eq_false, false_implies, and_true]
      refine Holds.of_spec (checkSeqnumGaps_gap env n c1 j hn hst hna hsend) ?_ ?_
      · rintro a c2 e2 ⟨-, rfl, rfl⟩
        simp [hm]
      · rintro ex c2 e2 ⟨h, -⟩
        cases h
    · rintro ex c1 e1 ⟨h, -⟩
      cases h
  · refine Holds.of_spec (checkSeqnumGaps_gap env n c j hn hst hna hsend) ?_ ?_
    · rintro a c2 e2 ⟨ha, rfl, rfl⟩
      cases ha
      simp [hm]
    · rintro ex c2 e2 ⟨h, -⟩
      cases h

/-- with `is_valid_msg_num = False` the dispatch delivers nothing, whatever the message -/
theorem processDispatch_invalid_quiet (env : Env) (sr : Msg → Bool) (m : Msg) (n : Int) :
    Sat Quiet (processDispatch env sr m false n) := by
  unfold processDispatch
  repeat' (first
    | with_reducible exact processResend_quiet _ _ _ | with_reducible exact processTestRequest_quiet _ _
    | with_reducible exact processHeartbeat_quiet _ _ | sat_step)
  all_goals simp_all

/-- … and for an application message it does nothing at all -/
theorem processDispatch_invalid_app (env : Env) (sr : Msg → Bool) (m : Msg) (n : Int) (c : Conn)
    (happ : isApp m = true) :
    Holds (processDispatch env sr m false n) c (fun r c' e => r = .ok () ∧ c' = c ∧ e = []) := by
  simp [isApp, sessionTypes] at happ
  unfold processDispatch
  wp_simp
  simp [happ]

theorem validateIntegrity_good_holds (m : Msg) (c : Conn) (h : (validateIntegrity m c).res = .ok .good) :
    Holds (validateIntegrity m) c (fun r c' e => r = .ok .good ∧ c' = c ∧ e = []) :=
  Holds.intro ⟨h, (validateIntegrity_pure m).out c⟩

/-- `_process_message` on a frame numbered above the expectation (not a Logon / Logout / Reset-mode
SequenceReset) outside RESENDREQ_AWAITING: the ResendRequest and the state change come first, the
rest is whatever the dispatch of that message type does – never a delivery, never a change of the
expected number; for application messages and GapFills there is no rest. -/
theorem processMessage_gap (env : Env) (sr : Msg → Bool) (m : Msg) (c : Conn) (n : Int) (j : Journal)
    (hgood : (validateIntegrity m c).res = .ok .good)
    (hst : st_LOGON_INITIAL_RECV ≤ c.state) (hna : c.state ≠ st_RESENDREQ_AWAITING)
    (hs : seqOf m = some n) (hn : c.sess.nextIn < n)
    (hA : m.mtype ≠ mLogon) (h5 : m.mtype ≠ mLogout)
    (h4 : m.mtype = mSequenceReset → isGapFill m = true) (hsend : CanSend env c j) :
    Holds (processMessage env sr m) c (fun r c' e =>
      ∃ rest, e = gapEffects env c ++ rest ∧ Quiet.R (gapConn c n j) c' rest ∧
        ((isApp m = true ∨ m.mtype = mSequenceReset) → r = .ok () ∧ c' = gapConn c n j ∧ rest = [])) := by
  unfold processMessage swallow
  wp_simp
  refine Holds.of_spec (validateIntegrity_good_holds m c hgood) ?_ ?_
  · rintro integ c0 e0 ⟨hi, rfl, rfl⟩
    cases hi
    wp_simp
    refine Holds.of_spec (processHead_gap env m c0 n j hst hna hs hn hA h5 h4 hsend) ?_ ?_
    · rintro head c1 e1 ⟨rfl, rfl, hr⟩
      rcases hr with ⟨hm, hr⟩ | ⟨hm, hr⟩
      · cases hr
        wp_simp
        by_cases happ : isApp m = true
        · refine Holds.of_spec (processDispatch_invalid_app env sr m n _ happ) ?_ ?_
          · rintro _ c2 e2 ⟨-, rfl, rfl⟩
            exact ⟨fun h => absurd h (by simp), fun _ => ⟨[], by simp, Quiet.refl _, fun _ => by simp⟩⟩
          · rintro ex c2 e2 ⟨h, -⟩
            cases h
        · refine Holds.of_sat' (processDispatch_invalid_quiet env sr m n) ?_ ?_
          · intro _ c2 e2 hq
            exact ⟨fun h => absurd h (by simp), fun _ => ⟨e2, by simp, hq,
              fun h => by rcases h with h | h; exact absurd h happ; exact absurd h hm⟩⟩
          · intro ex c2 e2 hq
            refine ⟨fun h => absurd h (by simp), fun _ => ⟨e2 ++ [Effect.caught ex], by simp, ?_,
              fun h => by rcases h with h | h; exact absurd h happ; exact absurd h hm⟩⟩
            exact ⟨hq.1, by simp [hq.2, deliveries]⟩
      · cases hr
        wp_simp
        exact ⟨[], by simp, Quiet.refl _, fun _ => by simp⟩
    · rintro ex c1 e1 ⟨-, -, h⟩
      rcases h with ⟨-, h⟩ | ⟨-, h⟩ <;> cases h
  · rintro ex c0 e0 ⟨h, -⟩
    cases h

end AsyncFix.Session
