/-
Lemmas about the model of Python's int(str) / str(int) (`AsyncFix/Py/PyInt.lean`):
  * `pyIntOfString_renderInt` : int(str(n)) = n            (n within the interpreter's digit limit)
  * `intLike_tagChar`         : every character of an accepted string is a sign, digit, underscore or space
                                 – in particular none of `= | , [ ]`
Core Lean only.
-/
import AsyncFix.Py.PyInt
namespace AsyncFix.Py
open AsyncFix.Generated.PyUnicode

/-! ### str(int) -/

theorem natDigits_ne_nil (n : Nat) : natDigits n ≠ [] := by
  unfold natDigits; split <;> simp

theorem natDigits_isDigit (n : Nat) : ∀ c ∈ natDigits n, isDigit c = true := by
  induction n using Nat.strongRecOn with
  | _ n ih =>
    unfold natDigits
    split
    · intro c hc
      simp only [List.mem_singleton] at hc
      subst hc
      simp [isDigit]; omega
    · intro c hc
      simp only [List.mem_append, List.mem_singleton] at hc
      rcases hc with hc | hc
      · exact ih (n / 10) (by omega) c hc
      · subst hc; simp [isDigit]; omega

/-- the value the digit loop computes from `natDigits n` when it starts with `a` -/
def shift (a n : Nat) : Nat := if n < 10 then a * 10 + n else shift a (n / 10) * 10 + n % 10
termination_by n
decreasing_by omega

theorem shift_zero (n : Nat) : shift 0 n = n := by
  induction n using Nat.strongRecOn with
  | _ n ih =>
    unfold shift
    by_cases h : n < 10
    · simp [h]
    · simp [h, ih (n / 10) (by omega)]; omega

def digitStep (a c : Nat) : Nat := a * 10 + (c - 48)

theorem foldl_natDigits (n a : Nat) : (natDigits n).foldl digitStep a = shift a n := by
  induction n using Nat.strongRecOn generalizing a with
  | _ n ih =>
    unfold natDigits shift
    by_cases h : n < 10
    · simp [h, digitStep]
    · simp [h, List.foldl_append, ih (n / 10) (by omega), digitStep]

/-! ### the digit loop on a run of digits -/

theorem scanDigits_digits (xs ys : Str) (acc nd : Nat) (pu : Bool) (h : ∀ c ∈ xs, isDigit c = true)
    (hne : xs ≠ []) :
    scanDigitsU acc nd pu (xs ++ ys) = scanDigitsU (xs.foldl digitStep acc) (nd + xs.length) false ys := by
  induction xs generalizing acc nd pu with
  | nil => exact absurd rfl hne
  | cons c cs ih =>
    have hc : isDigit c = true := h c (by simp)
    simp only [List.cons_append, scanDigitsU, hc, if_true, List.foldl_cons, List.length_cons]
    by_cases hcs : cs = []
    · subst hcs; simp [digitStep]
    · rw [ih _ _ _ (fun x hx => h x (by simp [hx])) hcs]
      have : nd + 1 + cs.length = nd + (cs.length + 1) := by omega
      rw [this]; rfl

theorem scanDigits_natDigits (n : Nat) :
    scanDigitsU 0 0 false (natDigits n) = some (n, (natDigits n).length, []) := by
  have := scanDigits_digits (natDigits n) [] 0 0 false (natDigits_isDigit n) (natDigits_ne_nil n)
  simp only [List.append_nil] at this
  rw [this, foldl_natDigits, shift_zero]
  simp [scanDigitsU]

/-! ### ASCII strings pass the transformation unchanged -/

theorem transformWith_ascii (sp zs : List Nat) (s : Str) (h : ∀ c ∈ s, c < 127) :
    transformWith sp zs s = s := by
  induction s with
  | nil => rfl
  | cons c cs ih =>
    have hc : c < 127 := h c (by simp)
    simp [transformWith, toAsciiWith, hc, ih (fun x hx => h x (by simp [hx]))]

theorem isDigit_lt (c : Nat) (h : isDigit c = true) : c < 127 := by
  simp [isDigit] at h; omega

theorem natDigits_head (n : Nat) : ∃ d rest, natDigits n = d :: rest ∧ isDigit d = true := by
  cases h : natDigits n with
  | nil => exact absurd h (natDigits_ne_nil n)
  | cons d rest =>
    exact ⟨d, rest, rfl, natDigits_isDigit n d (by simp [h])⟩

theorem pyIntUnsigned_natDigits (maxD n : Nat) (hlen : maxD = 0 ∨ (natDigits n).length ≤ maxD) :
    pyIntUnsigned maxD (natDigits n) = some n := by
  obtain ⟨d, rest, hd, hdig⟩ := natDigits_head n
  have hsc := scanDigits_natDigits n
  have h95 : d ≠ 95 := by simp [isDigit] at hdig; omega
  unfold pyIntUnsigned
  rw [hd] at hsc hlen ⊢
  split
  · next heq2 => simp at heq2; omega
  · rw [hsc]
    simp only [List.length_cons] at hlen ⊢
    rcases hlen with h0 | hle
    · subst h0; simp
    · have : ¬ (rest.length + 1 > maxD) := by omega
      simp [this]

theorem stripSign_digit (d : Nat) (rest : Str) (hdig : isDigit d = true) :
    splitSign (d :: rest) = (false, d :: rest) := by
  have h43 : d ≠ 43 := by simp [isDigit] at hdig; omega
  have h45 : d ≠ 45 := by simp [isDigit] at hdig; omega
  unfold splitSign
  split
  · next heq => simp at heq; omega
  · next heq => simp at heq; omega
  · rfl

theorem pyIntAscii_natDigits (maxD n : Nat) (hlen : maxD = 0 ∨ (natDigits n).length ≤ maxD) :
    pyIntBuf maxD (natDigits n) = some (Int.ofNat n) := by
  obtain ⟨d, rest, hd, hdig⟩ := natDigits_head n
  have hnsp : isCSpace d = false := by
    simp [isDigit] at hdig; simp [isCSpace]; omega
  have hu := pyIntUnsigned_natDigits maxD n hlen
  unfold pyIntBuf
  rw [hd] at hu ⊢
  simp only [List.dropWhile_cons, hnsp]
  rw [show (if false = true then List.dropWhile isCSpace rest else d :: rest) = d :: rest from rfl,
    stripSign_digit d rest hdig]
  simp [hu]

theorem pyIntAscii_neg_natDigits (maxD n : Nat) (hlen : maxD = 0 ∨ (natDigits n).length ≤ maxD) :
    pyIntBuf maxD (45 :: natDigits n) = some (-(Int.ofNat n)) := by
  have hu := pyIntUnsigned_natDigits maxD n hlen
  have h45 : isCSpace 45 = false := by decide
  unfold pyIntBuf
  simp only [List.dropWhile_cons, h45]
  simp [splitSign, hu]

/-- `int(str(n)) == n` whenever `str(n)` stays within the interpreter's digit limit -/
theorem pyIntOfString_renderInt (n : Int)
    (hlen : maxStrDigits = 0 ∨ (natDigits n.natAbs).length ≤ maxStrDigits) :
    pyIntOfString (renderInt n) = some n := by
  unfold pyIntOfString pyIntWith
  cases n with
  | ofNat m =>
    simp only [renderInt]
    rw [transformWith_ascii _ _ _ (fun c hc => isDigit_lt c (natDigits_isDigit m c hc))]
    exact pyIntAscii_natDigits _ m hlen
  | negSucc m =>
    simp only [renderInt]
    rw [transformWith_ascii]
    · rw [pyIntAscii_neg_natDigits _ (m + 1) hlen]; rfl
    · intro c hc
      simp only [List.mem_cons] at hc
      rcases hc with hc | hc
      · omega
      · exact isDigit_lt c (natDigits_isDigit _ c hc)

theorem natDigits_length_le (k n : Nat) (h : n < 10 ^ (k + 1)) : (natDigits n).length ≤ k + 1 := by
  induction k generalizing n with
  | zero =>
    unfold natDigits
    have : n < 10 := by simpa using h
    simp [this]
  | succ k ih =>
    unfold natDigits
    split
    · simp
    · have : n / 10 < 10 ^ (k + 1) := by
        rw [Nat.div_lt_iff_lt_mul (by omega)]
        calc n < 10 ^ (k + 1 + 1) := h
          _ = 10 ^ (k + 1) * 10 := by rw [Nat.pow_succ]
      have := ih (n / 10) this
      simp; omega

/-- every int below 10^4300 in absolute value is accepted back: `int(str(n)) == n` -/
theorem pyIntOfString_renderInt_of_lt (n : Int) (h : n.natAbs < 10 ^ maxStrDigits) :
    pyIntOfString (renderInt n) = some n := by
  apply pyIntOfString_renderInt
  right
  have : maxStrDigits = 4299 + 1 := by decide
  rw [this] at h ⊢
  exact natDigits_length_le 4299 _ h

theorem small_lt_limit (n : Nat) (h : n < 1000) : n < 10 ^ maxStrDigits :=
  Nat.lt_of_lt_of_le h (Nat.pow_le_pow_right (n := 10) (by omega) (by decide : 3 ≤ maxStrDigits))

theorem natDigits_one (n : Nat) (h : n < 10) : natDigits n = [48 + n] := by
  unfold natDigits; simp [h]

theorem natDigits_two (n : Nat) (h1 : 10 ≤ n) (h2 : n < 100) : natDigits n = [48 + n / 10, 48 + n % 10] := by
  unfold natDigits
  have : ¬ n < 10 := by omega
  simp only [this, if_false]
  rw [natDigits_one (n / 10) (by omega)]
  rfl

theorem intLike_renderInt (n : Int) (h : n.natAbs < 10 ^ maxStrDigits) : intLike (renderInt n) = true := by
  simp [intLike, pyIntOfString_renderInt_of_lt n h]

theorem r35 : renderInt 35 = [51, 53] := natDigits_two 35 (by omega) (by omega)
theorem r1 : renderInt 1 = [49] := natDigits_one 1 (by omega)
theorem il35 : intLike [51, 53] = true := r35 ▸ intLike_renderInt 35 (small_lt_limit _ (by decide))
theorem il1 : intLike [49] = true := r1 ▸ intLike_renderInt 1 (small_lt_limit _ (by decide))

/-! ### the characters of an accepted string -/

/-- the ASCII characters `PyLong_FromString` can consume -/
def asciiOk (a : Nat) : Bool := isCSpace a || a == 43 || a == 45 || isDigit a || a == 95

theorem scanDigits_split (s : Str) (acc nd : Nat) (pu : Bool) (v nd' : Nat) (rest : Str)
    (h : scanDigitsU acc nd pu s = some (v, nd', rest)) :
    ∃ pre, s = pre ++ rest ∧ ∀ c ∈ pre, asciiOk c = true := by
  induction s generalizing acc nd pu with
  | nil =>
    simp only [scanDigitsU] at h
    split at h
    · simp at h
    · simp only [Option.some.injEq, Prod.mk.injEq] at h
      exact ⟨[], by simp [h.2.2.symm], by simp⟩
  | cons c cs ih =>
    simp only [scanDigitsU] at h
    split at h
    · next hd =>
      obtain ⟨pre, hpre, hok⟩ := ih _ _ _ h
      refine ⟨c :: pre, by simp [hpre], ?_⟩
      intro x hx
      simp only [List.mem_cons] at hx
      rcases hx with hx | hx
      · subst hx; simp [asciiOk, hd]
      · exact hok x hx
    · split at h
      · next hus =>
        split at h
        · simp at h
        · obtain ⟨pre, hpre, hok⟩ := ih _ _ _ h
          refine ⟨c :: pre, by simp [hpre], ?_⟩
          intro x hx
          simp only [List.mem_cons] at hx
          rcases hx with hx | hx
          · subst hx
            have : x = 95 := by simpa using hus
            subst this; decide
          · exact hok x hx
      · split at h
        · simp at h
        · simp only [Option.some.injEq, Prod.mk.injEq] at h
          exact ⟨[], by simp [h.2.2.symm], by simp⟩

theorem dropWhile_nil_all {p : Nat → Bool} (l : List Nat) (h : l.dropWhile p = []) : ∀ x ∈ l, p x = true := by
  induction l with
  | nil => simp
  | cons a as ih =>
    simp only [List.dropWhile_cons] at h
    split at h
    · next ha =>
      intro x hx
      simp only [List.mem_cons] at hx
      rcases hx with hx | hx
      · subst hx; exact ha
      · exact ih h x hx
    · simp at h

theorem mem_takeWhile_all {p : Nat → Bool} (l : List Nat) : ∀ x ∈ l.takeWhile p, p x = true := by
  induction l with
  | nil => simp
  | cons a as ih =>
    simp only [List.takeWhile_cons]
    split
    · next ha =>
      intro x hx
      simp only [List.mem_cons] at hx
      rcases hx with hx | hx
      · subst hx; exact ha
      · exact ih x hx
    · simp

theorem stripSign_split (s : Str) : ∃ pre, s = pre ++ (splitSign s).2 ∧ ∀ c ∈ pre, asciiOk c = true := by
  unfold splitSign
  split
  · exact ⟨[43], by simp, by simp; decide⟩
  · exact ⟨[45], by simp, by simp; decide⟩
  · exact ⟨[], by simp, by simp⟩

theorem pyIntAscii_chars (maxD : Nat) (s : Str) (n : Int) (h : pyIntBuf maxD s = some n) :
    ∀ c ∈ s, asciiOk c = true := by
  unfold pyIntBuf at h
  simp only at h
  split at h
  · simp at h
  · next v hv =>
    unfold pyIntUnsigned at hv
    split at hv
    · simp at hv
    · split at hv
      · simp at hv
      · next v' nd rest hsc =>
        split at hv
        · simp at hv
        · split at hv
          · simp at hv
          · split at hv
            · simp at hv
            · next hrest =>
              obtain ⟨pre2, hpre2, hok2⟩ := scanDigits_split _ _ _ _ _ _ _ hsc
              obtain ⟨pre1, hpre1, hok1⟩ := stripSign_split (s.dropWhile isCSpace)
              have hsp : ∀ x ∈ rest, isCSpace x = true := by
                have : rest.dropWhile isCSpace = [] := by
                  simpa using hrest
                exact dropWhile_nil_all rest this
              have hs : s = s.takeWhile isCSpace ++ s.dropWhile isCSpace :=
                (List.takeWhile_append_dropWhile).symm
              intro c hc
              rw [hs] at hc
              simp only [List.mem_append] at hc
              rcases hc with hc | hc
              · have := mem_takeWhile_all s c hc
                simp [asciiOk, this]
              · rw [hpre1] at hc
                simp only [List.mem_append] at hc
                rcases hc with hc | hc
                · exact hok1 c hc
                · rw [hpre2] at hc
                  simp only [List.mem_append] at hc
                  rcases hc with hc | hc
                  · exact hok2 c hc
                  · simp [asciiOk, hsp c hc]

theorem transformWith_ok (sp zs : List Nat) (s : Str) (h : ∀ a ∈ transformWith sp zs s, asciiOk a = true) :
    ∀ c ∈ s, ∃ a, toAsciiWith sp zs c = some a ∧ asciiOk a = true := by
  induction s with
  | nil => simp
  | cons c cs ih =>
    simp only [transformWith] at h
    cases hc : toAsciiWith sp zs c with
    | none =>
      rw [hc] at h
      have := h 63 (by simp)
      exact absurd this (by decide)
    | some a =>
      rw [hc] at h
      simp only [List.mem_cons, forall_eq_or_imp] at h ⊢
      exact ⟨⟨a, hc, h.1⟩, ih h.2⟩

/-- a character that no tag accepted by `set()` can contain: `=  |  ,  [  ]  >` -/
def isSpecial (c : Nat) : Bool := c == 61 || c == 124 || c == 44 || c == 91 || c == 93 || c == 62

theorem special_not_ok (sp zs : List Nat) (c a : Nat) (hs : isSpecial c = true)
    (h : toAsciiWith sp zs c = some a) : asciiOk a = false := by
  have hc : c = 61 ∨ c = 124 ∨ c = 44 ∨ c = 91 ∨ c = 93 ∨ c = 62 := by
    simp only [isSpecial, Bool.or_eq_true, beq_iff_eq] at hs
    omega
  have hlt : c < 127 := by omega
  simp only [toAsciiWith, hlt, if_true, Option.some.injEq] at h
  subst h
  rcases hc with h | h | h | h | h | h <;> subst h <;> decide

/-- no string accepted by `int()` contains `=`, `|`, `,`, `[`, `]` or `>` -/
theorem intLike_no_special (s : Str) (h : intLike s = true) : ∀ c ∈ s, isSpecial c = false := by
  intro c hc
  unfold intLike pyIntOfString pyIntWith at h
  cases hp : pyIntBuf maxStrDigits (transformWith spaces decimalZeros s) with
  | none => simp [hp] at h
  | some n =>
    have hall := pyIntAscii_chars _ _ _ hp
    obtain ⟨a, ha, hok⟩ := transformWith_ok _ _ _ hall c hc
    cases hsp : isSpecial c with
    | false => rfl
    | true =>
      have := special_not_ok _ _ c a hsp ha
      rw [this] at hok; exact absurd hok (by decide)

end AsyncFix.Py
