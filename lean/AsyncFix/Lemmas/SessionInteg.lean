import AsyncFix.Lemmas.SessionPre

/-!
Session family: what happens to a frame with an integrity defect (C11), evaluated.
-/
namespace AsyncFix.Session

open AsyncFix.Generated AsyncFix.Generated.ConnEnum

/-- `_process_message` on a first frame that is not a Logon (acceptor side) / not Logon or Logout
(initiator before the Logon reply), integrity good: the connection is dropped without a reply; counters
and journal are untouched. -/
theorem processMessage_first_frame_dropped (env : Env) (sr : Msg → Bool) (m : Msg) (c : Conn)
    (hs : (c.state = st_NETWORK_CONN_ESTABLISHED ∧ m.mtype ≠ mLogon) ∨
      (c.state = st_LOGON_INITIAL_SENT ∧ m.mtype ≠ mLogon ∧ m.mtype ≠ mLogout))
    (hi : integrityOf c m = .ok .good) :
    processMessage env sr m c =
      ⟨.ok (), (discTail (discReset c) st_DISCONNECTED_BROKEN_CONN).1,
        (discTail (discReset c) st_DISCONNECTED_BROKEN_CONN).2⟩ := by
  have hv := validateIntegrity_eq m c
  rw [hi] at hv
  have hh : processHead env m c = ⟨.ok none, (discTail (discReset c) st_DISCONNECTED_BROKEN_CONN).1,
      (discTail (discReset c) st_DISCONNECTED_BROKEN_CONN).2⟩ := by
    rcases hs with ⟨h1, h2⟩ | ⟨h1, h2, h3⟩
    · exact processHead_first_not_logon env m c h1 h2
    · exact processHead_initiator_not_logon env m c h1 h2 h3
  unfold processMessage
  rw [M.bind_ok hv]
  simp only [List.nil_append]
  have hsw : swallow none (processHead env m) c = _ := M.tryCatch_ok hh
  rw [M.bind_ok hsw]
  simp

/-- CompIDs missing: dropped without a Logout (the counterparty is not identifiable) -/
theorem processMessage_critical (env : Env) (sr : Msg → Bool) (m : Msg) (c : Conn)
    (hc : isDisc c.state = false) (hi : integrityOf c m = .ok .critical) :
    processMessage env sr m c =
      ⟨.ok (), (discTail (discReset c) st_DISCONNECTED_BROKEN_CONN).1,
        (discTail (discReset c) st_DISCONNECTED_BROKEN_CONN).2⟩ := by
  have hv := validateIntegrity_eq m c
  rw [hi] at hv
  unfold processMessage
  rw [M.bind_ok hv]
  simp [disconnect_plain_eval env _ c hc isDisc_broken]

/-- a defect with a reason: `disconnect(DISCONNECTED_BROKEN_CONN, logout_message = reason)` -/
theorem processMessage_reason (env : Env) (sr : Msg → Bool) (m : Msg) (c : Conn) (text : String)
    (hi : integrityOf c m = .ok (.reason text)) :
    processMessage env sr m c = disconnect env st_DISCONNECTED_BROKEN_CONN (some text) c := by
  have hv := validateIntegrity_eq m c
  rw [hi] at hv
  unfold processMessage
  rw [M.bind_ok hv]
  simp

/-! ### the Logout that states the reason -/

/-- the frame of the Logout sent by `disconnect` from connection `c` -/
def logoutFrame (env : Env) (c : Conn) (text : String) : Msg :=
  buildFrame c.sess env.stamp (logoutMsg text) c.sess.nextOut

/-- the connection after that Logout went out (before the socket is closed): the state checks of
`send_msg` turn NETWORK_CONN_ESTABLISHED into LOGON_INITIAL_SENT / INITIATOR, the number is consumed,
the frame journaled -/
def afterLogout (c : Conn) (j : Journal) : Conn :=
  let c1 : Conn := if c.state = st_NETWORK_CONN_ESTABLISHED then
      { c with state := st_LOGON_INITIAL_SENT, role := roleInitiator } else c
  { c1 with sess := { c1.sess with nextOut := c1.sess.nextOut + 1 }, journal := j }

theorem logoutMsg_mtype (text : String) : (logoutMsg text).mtype = mLogout := rfl

theorem logoutMsg_no43 (text : String) : (logoutMsg text).get? tPossDupFlag = none := by
  unfold logoutMsg Msg.mk' Msg.get?
  split <;> simp [Msg.lookup, tText, tPossDupFlag]

/-- the frame depends on the session's CompIDs only -/
theorem buildFrame_nextOut (s : Session) (n : Int) (stamp : String) (m : Msg) (q : Int) :
    buildFrame { s with nextOut := n } stamp m q = buildFrame s stamp m q := rfl

theorem sendMsg_logout_eval (env : Env) (text : String) (c : Conn) (j : Journal)
    (h6 : st_NETWORK_CONN_ESTABLISHED ≤ c.state) (hsock : c.sock = true)
    (hl : frameLatin1 (logoutFrame env c text) = true)
    (hp : c.journal.persist .outbound c.sess.nextOut (logoutFrame env c text) = some j) :
    sendMsg env (logoutMsg text) c =
      ⟨.ok (), afterLogout c j,
        (if c.state = st_NETWORK_CONN_ESTABLISHED then [Effect.onState st_LOGON_INITIAL_SENT] else [])
          ++ [.write (logoutFrame env c text)]⟩ := by
  have hnlt : ¬ c.state < st_NETWORK_CONN_ESTABLISHED := by omega
  have h1 : mLogout ≠ mLogon := by decide
  have h2 : mLogout ≠ mTestRequest := by decide
  have h3 : mLogout ≠ mSequenceReset := by decide
  have h7 : (st_LOGON_INITIAL_SENT == st_ACTIVE) = false := by decide
  unfold logoutFrame at hl hp
  by_cases hs : c.state = st_NETWORK_CONN_ESTABLISHED
  · simp [sendMsg, sendGate, sendCore, encodeSeq, stateSet, bind, M.bind', hs, logoutMsg_mtype, logoutMsg_no43,
      h1, h2, h3, h7, hl, hp, hsock, afterLogout, logoutFrame, buildFrame_nextOut]
  · simp [sendMsg, sendGate, sendCore, encodeSeq, stateSet, bind, M.bind', hs, hnlt, logoutMsg_mtype,
      logoutMsg_no43, h1, h2, h3, hl, hp, hsock, afterLogout, logoutFrame, buildFrame_nextOut]

/-- a defect with a reason, from a state in which `send_msg` accepts a Logout, with a transport, a
single-byte frame and a free journal slot: the Logout goes out, then the connection is dropped -/
theorem processMessage_reason_eval (env : Env) (sr : Msg → Bool) (m : Msg) (c : Conn) (text : String)
    (j : Journal) (hi : integrityOf c m = .ok (.reason text))
    (h6 : st_NETWORK_CONN_ESTABLISHED ≤ c.state) (hsock : c.sock = true)
    (hl : frameLatin1 (logoutFrame env c text) = true)
    (hp : c.journal.persist .outbound c.sess.nextOut (logoutFrame env c text) = some j) :
    processMessage env sr m c =
      ⟨.ok (), (discTail (afterLogout (discReset c) j) st_DISCONNECTED_BROKEN_CONN).1,
        ((if c.state = st_NETWORK_CONN_ESTABLISHED then [Effect.onState st_LOGON_INITIAL_SENT] else [])
          ++ [.write (logoutFrame env c text)])
          ++ (discTail (afterLogout (discReset c) j) st_DISCONNECTED_BROKEN_CONN).2⟩ := by
  have hd : isDisc c.state = false := by
    have : ¬ c.state ≤ st_DISCONNECTED_BROKEN_CONN := by
      simp only [st_DISCONNECTED_BROKEN_CONN, st_NETWORK_CONN_ESTABLISHED] at h6 ⊢; omega
    simp [isDisc, this]
  rw [processMessage_reason env sr m c text hi, disconnect_logout_eval env _ text c hd isDisc_broken]
  have := sendMsg_logout_eval env text (discReset c) j h6 hsock hl hp
  rw [this]
  rfl

/-! ### whatever happens to the Logout, the connection is dropped -/

/-- `send_msg` never touches the inbound counter -/
def RIn (c c' : Conn) (_ : List Effect) : Prop := c'.sess.nextIn = c.sess.nextIn

instance : Compositional RIn where
  refl := fun _ => rfl
  trans := by
    intro c c1 c2 e1 e2 h1 h2
    exact Eq.trans h2 h1

theorem RIn.modify {f : Conn → Conn} (h : ∀ c, (f c).sess.nextIn = c.sess.nextIn) : M.Rel RIn (M.modify f) := ⟨h⟩
theorem RIn.emit (e : Effect) : M.Rel RIn (M.emit e) := ⟨fun _ => rfl⟩

section
attribute [local irreducible] M.bind' M.pure' M.throw M.tryCatch M.get M.modify M.emit M.liftE
  M.assert M.int
theorem sendMsg_RIn (env : Env) (m : Msg) : M.Rel RIn (sendMsg env m) := by
  unfold sendMsg sendGate sendCore encodeSeq stateSet
  rel_tac [RIn.modify, RIn.emit]
end

/-- a defect with a reason, from ANY connected state, whether or not the Logout can be sent (since the fix
of `disconnect()`: an unsendable Logout is logged and the disconnect completes): the outcome is
`disconnect`'s tail applied to whatever `send_msg` left behind -/
theorem processMessage_reason_outcome (env : Env) (sr : Msg → Bool) (m : Msg) (c : Conn) (text : String)
    (hi : integrityOf c m = .ok (.reason text)) (hc : isDisc c.state = false) :
    ∃ c1 e1, (processMessage env sr m c).res = .ok () ∧
      (processMessage env sr m c).conn = (discTail c1 st_DISCONNECTED_BROKEN_CONN).1 ∧
      (processMessage env sr m c).eff = e1 ++ (discTail c1 st_DISCONNECTED_BROKEN_CONN).2 ∧
      c1.sess.nextIn = c.sess.nextIn ∧ e1.all plainUp = true := by
  rw [processMessage_reason env sr m c text hi, disconnect_logout_eval env _ text c hc isDisc_broken]
  have hp := (sendMsg_plain env (logoutMsg text)).out (discReset c)
  have hin := (sendMsg_RIn env (logoutMsg text)).out (discReset c)
  rcases hsend : sendMsg env (logoutMsg text) (discReset c) with ⟨r, c1, e1⟩
  rw [hsend] at hp hin
  have hin : c1.sess.nextIn = c.sess.nextIn := hin
  have hpl : e1.all plainUp = true := hp.2
  cases r with
  | error ex =>
    refine ⟨c1, e1 ++ [.caught ex], rfl, rfl, rfl, hin, ?_⟩
    rw [List.all_append, hpl]; rfl
  | ok u => exact ⟨c1, e1, rfl, rfl, rfl, hin, hpl⟩

/-! ### the defect classes, as verdicts of `_validate_integrity` -/

theorem integrity_begin_string (c : Conn) (m : Msg) (bs : String) (h8 : m.get? tBeginString = some bs)
    (hne : bs ≠ Proto.beginString) :
    integrityOf c m = .ok (.reason
      ("Protocol BeginString(8) mismatch, expected " ++ Proto.beginString ++ ", got " ++ bs)) := by
  simp [integrityOf, validateIntegrity, bind, M.bind', Msg.get, h8, hne]

theorem integrity_compid_missing (c : Conn) (m : Msg) (h8 : m.get? tBeginString = some Proto.beginString)
    (h : m.has tSenderCompID = false ∨ m.has tTargetCompID = false) :
    integrityOf c m = .ok .critical := by
  rcases h with h | h <;> simp [integrityOf, validateIntegrity, bind, M.bind', Msg.get, h8, h]

theorem integrity_compid_wrong (c : Conn) (m : Msg) (s49 s56 : String)
    (h8 : m.get? tBeginString = some Proto.beginString)
    (h49 : m.get? tSenderCompID = some s49) (h56 : m.get? tTargetCompID = some s56)
    (h : ¬ (c.sess.sender = s56 ∧ c.sess.target = s49)) :
    integrityOf c m = .ok (.reason "TargetCompID / SenderCompID mismatch") := by
  have a : m.has tSenderCompID = true := by simp [Msg.has, h49]
  have b : m.has tTargetCompID = true := by simp [Msg.has, h56]
  have h' : ¬c.sess.sender = s56 ∨ ¬c.sess.target = s49 := by
    by_cases hx : c.sess.sender = s56
    · right; intro hy; exact h ⟨hx, hy⟩
    · left; exact hx
  simp [integrityOf, validateIntegrity, bind, M.bind', Msg.get, h8, h49, h56, a, b, h']

/-- header fields in order: BeginString, both CompIDs present and matching the session -/
structure HeaderOk (c : Conn) (m : Msg) : Prop where
  h8 : m.get? tBeginString = some Proto.beginString
  h49 : m.get? tSenderCompID = some c.sess.target
  h56 : m.get? tTargetCompID = some c.sess.sender

theorem integrity_seq_missing (c : Conn) (m : Msg) (hh : HeaderOk c m) (h34 : m.has tMsgSeqNum = false) :
    integrityOf c m = .ok (.reason "MsgSeqNum(34) tag is missing") := by
  have a : m.has tSenderCompID = true := by simp [Msg.has, hh.h49]
  have b : m.has tTargetCompID = true := by simp [Msg.has, hh.h56]
  simp [integrityOf, validateIntegrity, bind, M.bind', Msg.get, hh.h8, hh.h49, hh.h56, a, b, h34]

theorem integrity_seq_garbled (c : Conn) (m : Msg) (hh : HeaderOk c m) (v : String)
    (h34 : m.get? tMsgSeqNum = some v) (hv : pyInt v = none) :
    integrityOf c m = .ok (.reason "MsgSeqNum(34) is not a number") := by
  have a : m.has tSenderCompID = true := by simp [Msg.has, hh.h49]
  have b : m.has tTargetCompID = true := by simp [Msg.has, hh.h56]
  have d : m.has tMsgSeqNum = true := by simp [Msg.has, h34]
  simp [integrityOf, validateIntegrity, bind, M.bind', Msg.get, hh.h8, hh.h49, hh.h56, a, b, d, h34, hv]

/-- too low: below the expected number; tolerated only for a SequenceReset and for a PossDupFlag=Y
frame while RESENDREQ_AWAITING (the code's deliberate, documented tolerance) -/
theorem integrity_seq_too_low (c : Conn) (m : Msg) (hh : HeaderOk c m) (v : String) (n : Int)
    (h34 : m.get? tMsgSeqNum = some v) (hv : pyInt v = some n) (hlow : n < c.sess.nextIn)
    (hnr : m.mtype ≠ mSequenceReset)
    (hna : ¬ (c.state = st_RESENDREQ_AWAITING ∧ m.get? tPossDupFlag = some "Y")) :
    integrityOf c m = .ok (.reason
      ("MsgSeqNum is too low, expected " ++ pyStr c.sess.nextIn ++ ", got " ++ pyStr n)) := by
  have a : m.has tSenderCompID = true := by simp [Msg.has, hh.h49]
  have b : m.has tTargetCompID = true := by simp [Msg.has, hh.h56]
  have d : m.has tMsgSeqNum = true := by simp [Msg.has, h34]
  have e : ¬ (c.state = st_RESENDREQ_AWAITING ∧ (m.get? tPossDupFlag).getD "N" = "Y") := by
    intro ⟨h1, h2⟩
    apply hna
    refine ⟨h1, ?_⟩
    cases hg : m.get? tPossDupFlag with
    | none => rw [hg] at h2; simp at h2
    | some w => rw [hg] at h2; simp at h2; rw [h2]
  have e' : ¬c.state = st_RESENDREQ_AWAITING ∨ ¬(m.get? tPossDupFlag).getD "N" = "Y" := by
    by_cases hx : c.state = st_RESENDREQ_AWAITING
    · right; intro hy; exact e ⟨hx, hy⟩
    · left; exact hx
  simp [integrityOf, validateIntegrity, bind, M.bind', Msg.get, hh.h8, hh.h49, hh.h56, a, b, d, h34, hv,
    hlow, hnr, e']

end AsyncFix.Session
