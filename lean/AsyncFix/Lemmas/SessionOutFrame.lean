import AsyncFix.Lemmas.SessionOutDefs

/-!
C05 helper lemmas, part 3: the frame `buildFrame` produces (header fields, numbering, latin-1) and
`prepareReplay` on a well-formed journal row.
-/
namespace AsyncFix.Session

open AsyncFix.Generated AsyncFix.Generated.ConnEnum

/-- the message's own tags that `Codec.encode` copies after the header -/
def ownTags (m : Msg) : List (Nat × String) :=
  m.tags.filter fun p =>
    p.1 ≠ tMsgSeqNum && p.1 ≠ tSendingTime && p.1 ≠ tSenderCompID && p.1 ≠ tTargetCompID

theorem buildFrame_tags (s : Session) (stamp : String) (m : Msg) (seq : Int) :
    ∃ bl ck, (buildFrame s stamp m seq).tags =
      (tBeginString, Proto.beginString) :: (tBodyLength, toString (bl : Nat)) :: (tMsgType, m.mtype) ::
      (tSenderCompID, s.sender) :: (tTargetCompID, s.target) :: (tMsgSeqNum, pyStr seq) ::
      (tSendingTime, stamp) :: (ownTags m ++ [(tCheckSum, pad3 ck)]) := by
  exact ⟨_, _, rfl⟩

@[simp] theorem buildFrame_mtype (s : Session) (stamp : String) (m : Msg) (seq : Int) :
    (buildFrame s stamp m seq).mtype = m.mtype := rfl

theorem buildFrame_sess (s : Session) (stamp : String) (m : Msg) (seq : Int) :
    buildFrame s stamp m seq = buildFrame { sender := s.sender, target := s.target } stamp m seq := rfl

theorem buildFrame_get_seq (s : Session) (stamp : String) (m : Msg) (seq : Int) :
    (buildFrame s stamp m seq).get? tMsgSeqNum = some (pyStr seq) := by
  obtain ⟨bl, ck, h⟩ := buildFrame_tags s stamp m seq
  simp [Msg.get?, h, Msg.lookup, tMsgSeqNum, tBeginString, tBodyLength, tMsgType, tSenderCompID,
    tTargetCompID]

theorem buildFrame_seqOf (s : Session) (stamp : String) (m : Msg) (seq : Int) :
    seqOf (buildFrame s stamp m seq) = some seq := by
  simp [seqOf, buildFrame_get_seq, pyInt_pyStr]

theorem buildFrame_get_sender (s : Session) (stamp : String) (m : Msg) (seq : Int) :
    (buildFrame s stamp m seq).get? tSenderCompID = some s.sender := by
  obtain ⟨bl, ck, h⟩ := buildFrame_tags s stamp m seq
  simp [Msg.get?, h, Msg.lookup, tBeginString, tBodyLength, tMsgType, tSenderCompID]

theorem buildFrame_get_target (s : Session) (stamp : String) (m : Msg) (seq : Int) :
    (buildFrame s stamp m seq).get? tTargetCompID = some s.target := by
  obtain ⟨bl, ck, h⟩ := buildFrame_tags s stamp m seq
  simp [Msg.get?, h, Msg.lookup, tBeginString, tBodyLength, tMsgType, tSenderCompID, tTargetCompID]

theorem ownTags_lookup (m : Msg) (t : Nat) (h1 : t ≠ tMsgSeqNum) (h2 : t ≠ tSendingTime)
    (h3 : t ≠ tSenderCompID) (h4 : t ≠ tTargetCompID) :
    Msg.lookup t (ownTags m) = Msg.lookup t m.tags := by
  apply Msg.lookup_filter_keep
  intro v; simp [h1, h2, h3, h4]

theorem buildFrame_get_possdup (s : Session) (stamp : String) (m : Msg) (seq : Int) :
    (buildFrame s stamp m seq).get? tPossDupFlag = m.get? tPossDupFlag := by
  obtain ⟨bl, ck, h⟩ := buildFrame_tags s stamp m seq
  simp only [Msg.get?, h, Msg.lookup]
  simp only [tPossDupFlag, tBeginString, tBodyLength, tMsgType, tSenderCompID, tTargetCompID,
    tMsgSeqNum, tSendingTime]
  simp only [Nat.reduceEqDiff, if_false, Msg.lookup_append]
  have := ownTags_lookup m 43 (by decide) (by decide) (by decide) (by decide)
  rw [this]
  cases Msg.lookup 43 m.tags <;> simp [Msg.lookup, tCheckSum]

theorem buildFrame_isNew (s : Session) (stamp : String) (m : Msg) (seq : Int) :
    isNew (buildFrame s stamp m seq) = isNew m := by
  simp [isNew, buildFrame_get_possdup]

theorem buildFrame_rowOk (s : Session) (stamp : String) (m : Msg) (seq : Int)
    (hl : frameLatin1 (buildFrame s stamp m seq) = true) : RowOk (buildFrame s stamp m seq) seq := by
  obtain ⟨bl, ck, h⟩ := buildFrame_tags s stamp m seq
  refine ⟨buildFrame_get_seq s stamp m seq, ?_, ?_, ?_, ?_, ?_, ?_, ?_, hl⟩
  all_goals simp only [Msg.get?, h, Msg.lookup, buildFrame_mtype]
  all_goals simp only [tMsgType, tBeginString, tBodyLength, tSenderCompID, tTargetCompID,
    tMsgSeqNum, tSendingTime, tCheckSum]
  all_goals simp only [Nat.reduceEqDiff, if_false, if_true, Option.isSome_some]
  -- CheckSum: found in the message's own tags or at the end
  rw [Msg.lookup_append]
  cases Msg.lookup 10 (ownTags m) <;> simp [Msg.lookup]

theorem isLatin1_beginString : isLatin1 Proto.beginString = true := by decide

theorem frameLatin1_build (s : Session) (stamp : String) (m : Msg) (seq : Int)
    (h1 : isLatin1 s.sender = true) (h2 : isLatin1 s.target = true) (h3 : isLatin1 stamp = true)
    (hm : LatinMsg m) : frameLatin1 (buildFrame s stamp m seq) = true := by
  obtain ⟨bl, ck, h⟩ := buildFrame_tags s stamp m seq
  unfold frameLatin1
  rw [h]
  simp only [List.all_cons, List.all_append, List.all_nil, Bool.and_true, isLatin1_beginString,
    isLatin1_natStr, hm.1, h1, h2, h3, isLatin1_pyStr, isLatin1_pad3, Bool.true_and]
  rw [List.all_eq_true]
  intro p hp
  exact hm.2 p (List.mem_filter.mp hp).1

theorem RowOk.latin_mtype {f : Msg} {n : Int} (h : RowOk f n) : isLatin1 f.mtype = true := by
  have hm := Msg.lookup_mem h.ty
  have := h.lat
  unfold frameLatin1 at this
  rw [List.all_eq_true] at this
  exact this _ hm

theorem RowOk.latin_tags {f : Msg} {n : Int} (h : RowOk f n) : ∀ p ∈ f.tags, isLatin1 p.2 = true := by
  have := h.lat
  unfold frameLatin1 at this
  rw [List.all_eq_true] at this
  exact this

/-! ### `prepareReplay` -/

theorem prepareReplay_ok {r : Msg} {n : Int} (h : RowOk r n) :
    ∃ rp, prepareReplay r = .ok rp ∧ rp.mtype = r.mtype ∧ rp.get? tPossDupFlag = some "Y" ∧
      rp.get? tMsgSeqNum = some (pyStr n) ∧ LatinMsg rp := by
  obtain ⟨r1, e1, m1, g1, t1⟩ := Msg.set_replace r tPossDupFlag "Y"
  -- OrigSendingTime
  obtain ⟨st, hst⟩ : ∃ st, r.get? tSendingTime = some st := Option.isSome_iff_exists.mp h.h52
  have hst1 : r1.get? tSendingTime = some st := by rw [g1, if_neg (by decide)]; exact hst
  obtain ⟨r2, e2, m2, g2, t2⟩ : ∃ r2,
      ((r1.has tOrigSendingTime = true ∧ r2 = r1) ∨
        (r1.has tOrigSendingTime = false ∧ r1.set tOrigSendingTime st = .ok r2)) ∧
      r2.mtype = r1.mtype ∧
      (∀ t', t' ≠ tOrigSendingTime → r2.get? t' = r1.get? t') ∧
      (∀ p ∈ r2.tags, p ∈ r1.tags ∨ p = (tOrigSendingTime, st)) := by
    by_cases hh : r1.has tOrigSendingTime = true
    · exact ⟨r1, Or.inl ⟨hh, rfl⟩, rfl, fun _ _ => rfl, fun p hp => Or.inl hp⟩
    · have hn : r1.get? tOrigSendingTime = none := by
        simp only [Msg.has] at hh
        cases hx : r1.get? tOrigSendingTime <;> simp_all
      obtain ⟨r2, e2, m2, g2, t2⟩ := Msg.set_new r1 tOrigSendingTime st hn
      exact ⟨r2, Or.inr ⟨by simpa using hh, e2⟩, m2, fun t' ht => by rw [g2]; simp [ht], t2⟩
  -- the seven deletions
  have keep : ∀ t', t' ≠ tPossDupFlag → t' ≠ tOrigSendingTime → r2.get? t' = r.get? t' := by
    intro t' h1 h2; rw [g2 t' h2, g1]; simp [h1]
  have p2 : r2.get? tPossDupFlag = some "Y" := by
    rw [g2 _ (by decide), g1]; simp
  obtain ⟨r3, e3, m3, g3, t3⟩ := Msg.del_has r2 tMsgType (by
    rw [keep _ (by decide) (by decide), h.ty]; rfl)
  obtain ⟨r4, e4, m4, g4, t4⟩ := Msg.del_has r3 tBeginString (by
    rw [g3, if_neg (by decide), keep _ (by decide) (by decide)]; exact h.h8)
  obtain ⟨r5, e5, m5, g5, t5⟩ := Msg.del_has r4 tBodyLength (by
    rw [g4, if_neg (by decide), g3, if_neg (by decide), keep _ (by decide) (by decide)]; exact h.h9)
  obtain ⟨r6, e6, m6, g6, t6⟩ := Msg.del_has r5 tSendingTime (by
    rw [g5, if_neg (by decide), g4, if_neg (by decide), g3, if_neg (by decide),
      keep _ (by decide) (by decide)]; exact h.h52)
  obtain ⟨r7, e7, m7, g7, t7⟩ := Msg.del_has r6 tSenderCompID (by
    rw [g6, if_neg (by decide), g5, if_neg (by decide), g4, if_neg (by decide), g3,
      if_neg (by decide), keep _ (by decide) (by decide)]; exact h.h49)
  obtain ⟨r8, e8, m8, g8, t8⟩ := Msg.del_has r7 tTargetCompID (by
    rw [g7, if_neg (by decide), g6, if_neg (by decide), g5, if_neg (by decide), g4,
      if_neg (by decide), g3, if_neg (by decide), keep _ (by decide) (by decide)]; exact h.h56)
  obtain ⟨r9, e9, m9, g9, t9⟩ := Msg.del_has r8 tCheckSum (by
    rw [g8, if_neg (by decide), g7, if_neg (by decide), g6, if_neg (by decide), g5,
      if_neg (by decide), g4, if_neg (by decide), g3, if_neg (by decide),
      keep _ (by decide) (by decide)]; exact h.h10)
  have through : ∀ t', t' ≠ tMsgType → t' ≠ tBeginString → t' ≠ tBodyLength → t' ≠ tSendingTime →
      t' ≠ tSenderCompID → t' ≠ tTargetCompID → t' ≠ tCheckSum → r9.get? t' = r2.get? t' := by
    intro t' a b c d e f g
    rw [g9, if_neg g, g8, if_neg f, g7, if_neg e, g6, if_neg d, g5, if_neg c, g4, if_neg b, g3, if_neg a]
  refine ⟨r9, ?_, ?_, ?_, ?_, ?_, ?_⟩
  · unfold prepareReplay
    rcases e2 with ⟨hh, rfl⟩ | ⟨hh, e2⟩
    · simp only [bind, Except.bind, e1, hh, if_true, pure, Except.pure, e3, e4, e5, e6, e7, e8, e9]
    · simp only [bind, Except.bind, e1, hh, Bool.false_eq_true, if_false, Msg.get, hst1, e2, e3, e4,
        e5, e6, e7, e8, e9]
  · rw [m9, m8, m7, m6, m5, m4, m3, m2, m1]
  · rw [through _ (by decide) (by decide) (by decide) (by decide) (by decide) (by decide) (by decide)]
    exact p2
  · rw [through _ (by decide) (by decide) (by decide) (by decide) (by decide) (by decide) (by decide),
      keep _ (by decide) (by decide)]
    exact h.seq
  · rw [m9, m8, m7, m6, m5, m4, m3, m2, m1]; exact h.latin_mtype
  · intro p hp
    have hp2 := t3 p (t4 p (t5 p (t6 p (t7 p (t8 p (t9 p hp))))))
    rcases t2 p hp2 with hp1 | hp1
    · rcases t1 p hp1 with hp0 | hp0
      · exact h.latin_tags p hp0
      · rw [hp0]; decide
    · rw [hp1]
      exact h.latin_tags (tSendingTime, st) (Msg.lookup_mem (show Msg.lookup tSendingTime r.tags = some st from hst))

end AsyncFix.Session
