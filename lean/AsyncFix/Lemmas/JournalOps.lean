/-
C08: `RunSpec` for every public method and for `Journaler.__init__`.
-/
import AsyncFix.Lemmas.JournalRun
namespace AsyncFix.Model.Journal

theorem exec_readOnly_clean (c : Conn) (s : Stmt) (hro : s.readOnly = true) (hcl : c.Clean) :
    (c.exec s).1.working = c.working ∧ (c.exec s).1.committed = c.committed := by
  have hdml := readOnly_not_dml hro
  have hrun := run_readOnly hro c.working
  by_cases hb : s.bindOk = true
  · obtain ⟨-, hw, hc⟩ := exec_ok c s hb
    rw [hrun] at hw hc
    refine ⟨hw, ?_⟩
    rw [hc]; split
    · rfl
    · exact hcl
  · have hb' : s.bindOk = false := by simpa using hb
    obtain ⟨-, hw, hc⟩ := exec_fail c s hb'
    exact ⟨hw, hc⟩

/-- `Journaler.__init__`: two CREATE TABLE IF NOT EXISTS -/
theorem open_runSpec (c : Conn) (hcl : c.Clean) (n : Nat) :
    RunSpec openP c c.committed c.working .none true n := by
  unfold openP
  apply runSpec_exec _ _ _ _ _ _ _ _ rfl
  intro m
  obtain ⟨hw1, hc1⟩ := exec_readOnly_clean c .createMsgTable rfl hcl
  have hcl1 : (c.exec .createMsgTable).1.Clean := by simp only [Conn.Clean, hw1, hc1]; exact hcl
  apply runSpec_exec _ _ _ _ _ _ _ _ hc1
  intro m'
  obtain ⟨hw2, hc2⟩ := exec_readOnly_clean _ .createSessTable rfl hcl1
  have := runSpec_ret .none .none ((c.exec .createMsgTable).1.exec .createSessTable).1 true m'
    (fun _ => rfl) (by simp only [Conn.Clean, hw2, hc2]; exact hcl1)
  rwa [hw2, hc2, hw1, hc1] at this

theorem sessions_runSpec (c : Conn) (hcl : c.Clean) (n : Nat) :
    RunSpec sessionsP c c.committed c.working (.dict (sessions c.working)) true n :=
  runSpec_select .selectSessions sessionsRes c rfl hcl _ true (fun _ => ⟨rfl, rfl⟩) n

theorem recover_runSpec (c : Conn) (hcl : c.Clean) (h : Handle) (dir : Dir) (lo hi : Bound) (n : Nat) :
    RunSpec (recoverP h dir lo hi) c c.committed c.working (recoverMessages c.working h dir lo hi)
      (fits h.key && fits lo.param && fits hi.param) n := by
  apply runSpec_select (.selectRange h.key dir lo hi) recoverRes c rfl hcl
  intro hfit
  simp only [Bool.and_eq_true] at hfit
  refine ⟨by simp [Stmt.bindOk, Stmt.params, hfit, fits_dirVal], ?_⟩
  simp only [Stmt.run, recoverMessages, hfit, Bool.and_self, Bool.not_true, Bool.false_eq_true, if_false]
  cases lo.eval <;> cases hi.eval <;> rfl

theorem recoverMsg_runSpec (c : Conn) (hcl : c.Clean) (h : Handle) (dir : Dir) (b : Bound) (n : Nat) :
    RunSpec (recoverMsgP h dir b) c c.committed c.working (recoverMsg c.working h dir b)
      (fits h.key && fits b.param) n := by
  apply runSpec_select (.selectRange h.key dir b b) recoverMsgRes c rfl hcl
  intro hfit
  simp only [Bool.and_eq_true] at hfit
  refine ⟨by simp [Stmt.bindOk, Stmt.params, hfit, fits_dirVal], ?_⟩
  simp only [Stmt.run, recoverMsg, recoverMessages, hfit, Bool.and_self, Bool.not_true, Bool.false_eq_true, if_false]
  cases b.eval with
  | unmodelled => rfl
  | val v =>
    dsimp only
    generalize selRange c.working h.key dir (.val v) (.val v) = l
    cases l <;> rfl
  | posInf =>
    dsimp only
    generalize selRange c.working h.key dir .posInf .posInf = l
    cases l <;> rfl

theorem getAll_runSpec (c : Conn) (hcl : c.Clean) (keys : Option (List Int)) (dir : Option Dir) (n : Nat) :
    RunSpec (getAllP keys dir) c c.committed c.working (getAllMsgs c.working keys dir)
      (((normKeys keys).getD []).all fits) n := by
  apply runSpec_select (.selectAll (normKeys keys) dir) getAllRes c rfl hcl
  intro hfit
  constructor
  · simp only [Stmt.bindOk, Stmt.params, List.all_append, hfit, Bool.true_and]
    cases dir <;> simp [fits_dirVal]
  · have hany : ((normKeys keys).getD []).any (fun x => !fits x) = false := by
      rw [List.any_eq_false]
      intro x hx
      simp [List.all_eq_true.mp hfit x hx]
    simp only [Stmt.run, getAllMsgs, hany, Bool.false_eq_true, if_false, getAllRes]

theorem createOrLoad_runSpec (c : Conn) (hcl : c.Clean) (t s : String) (n : Nat) :
    RunSpec (createOrLoadP t s) c c.committed (createOrLoad c.working t s).1 (createOrLoad c.working t s).2
      true n := by
  unfold createOrLoadP
  apply runSpec_exec _ _ _ _ _ _ _ _ rfl
  intro m
  obtain ⟨hr, hw, hc⟩ := exec_ok c (.insertSession t s) rfl
  have htx := exec_inTx c (.insertSession t s)
  simp only [Stmt.isDML, Bool.or_true, if_true] at hc htx
  simp only [Stmt.run] at hr hw
  unfold createOrLoad
  cases hi : insSession c.working t s with
  | some p =>
    obtain ⟨j', id⟩ := p
    simp only [hi] at hr hw ⊢
    rw [hr]
    have := runSpec_commit_ret (.handle ⟨id, t, s, 1, 1⟩) (.handle ⟨id, t, s, 1, 1⟩)
      (c.exec (.insertSession t s)).1 true m htx (fun _ => rfl)
    rwa [hw, hc] at this
  | none =>
    simp only [hi] at hr hw ⊢
    rw [hr]
    have hcl1 : (c.exec (.insertSession t s)).1.Clean := by simp only [Conn.Clean, hw, hc]; exact hcl
    have := runSpec_select (.selectSession t s) loadRes (c.exec (.insertSession t s)).1 rfl hcl1
      (match selSession c.working t s with
        | r :: _ => (Res.handle (handleOf r)) | [] => .raised .stopIteration) true
      (fun _ => ⟨rfl, by
        simp only [Stmt.run, hw]
        cases selSession c.working t s <;> rfl⟩) m
    rw [hw, hc] at this
    cases hsel : selSession c.working t s <;> simp only [hsel] at this ⊢ <;> exact this

end AsyncFix.Model.Journal
