import AsyncFix.Model.TesterDict
import AsyncFix.Props.C16

/-!
C20 helper lemmas about the fabrication model: what an accepted `fix_exec_report_msg` call implies,
how the counters move, what `process_execution_report` finds in a fabricated report.
-/
namespace AsyncFix.Tester

open AsyncFix.Model.OrderTable

theorem firstFail_none {cs : List (Site × Bool)} (h : firstFail cs = none) : ∀ p ∈ cs, p.2 = true := by
  induction cs with
  | nil => intro p hp; cases hp
  | cons c r ih =>
    obtain ⟨s, ok⟩ := c
    cases ok with
    | false => simp [firstFail] at h
    | true =>
      simp only [firstFail, if_true] at h
      intro p hp
      rcases List.mem_cons.mp hp with rfl | hp
      · rfl
      · exact ih h p hp

theorem firstFail_none_iff {cs : List (Site × Bool)} : firstFail cs = none ↔ ∀ p ∈ cs, p.2 = true := by
  refine ⟨firstFail_none, ?_⟩
  induction cs with
  | nil => intro _; rfl
  | cons c r ih =>
    intro h
    obtain ⟨s, ok⟩ := c
    have : ok = true := h (s, ok) (by simp)
    subst this
    simp only [firstFail, if_true]
    exact ih fun p hp => h p (by simp [hp])

theorem orderIdOf_execCtr (st : TState) (o : OrderView) : (orderIdOf st o).1.execCtr = st.execCtr := by
  unfold orderIdOf
  cases o.orderId with
  | some x => rfl
  | none => simp only; cases lookupRoot (rootOf o) st.orderIds <;> rfl

/-- the tester state after the two counters were consumed -/
def bumped (st : TState) (o : OrderView) : TState :=
  { (orderIdOf st o).1 with execCtr := st.execCtr + 1 }

/-- everything an accepted call tells: both check lists passed, the message is `buildReport` with the
counter values, the tester state is the bumped one -/
theorem fabricate_ok {sc : Option (RMsg → Bool)} {st st' : TState} {o : OrderView} {a : Args} {m : RMsg}
    (h : fabricate sc st o a = (st', .ok m)) :
    firstFail (preChecks st o a) = none ∧ firstFail (mainChecks o a) = none ∧
    st' = bumped st o ∧ m = buildReport o a (orderIdOf st o).2 (st.execCtr + 1) ∧
    (∀ ok, sc = some ok → ok m = true) := by
  unfold fabricate at h
  cases hp : firstFail (preChecks st o a) with
  | some s => simp [hp] at h
  | none =>
    simp only [hp] at h
    have hexec := orderIdOf_execCtr st o
    cases hm : firstFail (mainChecks o a) with
    | some s => simp [hm] at h
    | none =>
      simp only [hm] at h
      cases sc with
      | none =>
        simp only [Prod.mk.injEq, Except.ok.injEq] at h
        refine ⟨rfl, rfl, ?_, ?_, by intro ok hok; cases hok⟩
        · rw [← h.1]; simp [bumped, hexec]
        · rw [← h.2, hexec]
      | some ok =>
        by_cases hok : ok (buildReport o a (orderIdOf st o).2 ((orderIdOf st o).1.execCtr + 1)) = true
        · simp only [hok, if_true, Prod.mk.injEq, Except.ok.injEq] at h
          refine ⟨rfl, rfl, ?_, ?_, ?_⟩
          · rw [← h.1]; simp [bumped, hexec]
          · rw [← h.2, hexec]
          · intro ok' hok'
            cases hok'
            rw [← h.2]; exact hok
        · simp [hok] at h

/-- the ExecID counter never goes down, whatever the outcome -/
theorem fabricate_execCtr_le (sc : Option (RMsg → Bool)) (st : TState) (o : OrderView) (a : Args) :
    st.execCtr ≤ (fabricate sc st o a).1.execCtr := by
  have hexec := orderIdOf_execCtr st o
  unfold fabricate
  cases firstFail (preChecks st o a) with
  | some s => simp
  | none =>
    simp only
    cases firstFail (mainChecks o a) with
    | some s => simp [hexec]
    | none =>
      cases sc with
      | none => simp [hexec]
      | some ok => simp only; split <;> simp [hexec]

/-! ### the OrderID map (`_order_ids`, fix e62ed38) -/

/-- for an order without OrderID the report carries the number the map holds for its root afterwards -/
theorem orderIdOf_none {st : TState} {o : OrderView} (h : o.orderId = none) :
    ∃ k, (orderIdOf st o).2 = .c k ∧ lookupRoot (rootOf o) (orderIdOf st o).1.orderIds = some k := by
  unfold orderIdOf
  rw [h]
  simp only
  cases hl : lookupRoot (rootOf o) st.orderIds with
  | some k => exact ⟨k, rfl, hl⟩
  | none => exact ⟨st.orderCtr + 1, rfl, by simp [lookupRoot]⟩

/-- an entry of the map is never overwritten or dropped -/
theorem knows_orderIdOf {st : TState} {r : List Nat} {k : Nat} (o : OrderView)
    (h : lookupRoot r st.orderIds = some k) : lookupRoot r (orderIdOf st o).1.orderIds = some k := by
  unfold orderIdOf
  cases o.orderId with
  | some x => exact h
  | none =>
    simp only
    cases hl : lookupRoot (rootOf o) st.orderIds with
    | some k' => exact h
    | none =>
      simp only [lookupRoot]
      by_cases e : r = rootOf o
      · rw [e, hl] at h; cases h
      · simp [e, h]

theorem fabricate_orderIds (sc : Option (RMsg → Bool)) (st : TState) (o : OrderView) (a : Args) :
    (fabricate sc st o a).1.orderIds = st.orderIds ∨
    (fabricate sc st o a).1.orderIds = (orderIdOf st o).1.orderIds := by
  unfold fabricate
  cases firstFail (preChecks st o a) with
  | some s => exact Or.inl rfl
  | none =>
    simp only
    cases firstFail (mainChecks o a) with
    | some s => exact Or.inr rfl
    | none =>
      cases sc with
      | none => exact Or.inr rfl
      | some ok => simp only; split <;> exact Or.inr rfl

theorem knows_fabricate {st : TState} {r : List Nat} {k : Nat} (sc : Option (RMsg → Bool)) (o : OrderView) (a : Args)
    (h : lookupRoot r st.orderIds = some k) : lookupRoot r (fabricate sc st o a).1.orderIds = some k := by
  rcases fabricate_orderIds sc st o a with e | e <;> rw [e]
  · exact h
  · exact knows_orderIdOf o h

theorem knows_runCalls {r : List Nat} {k : Nat} (sc : Option (RMsg → Bool)) (calls : List (OrderView × Args)) :
    ∀ {st : TState}, lookupRoot r st.orderIds = some k → lookupRoot r (runCalls sc st calls).1.orderIds = some k := by
  induction calls with
  | nil => intro st h; exact h
  | cons c rest ih =>
    intro st h
    obtain ⟨o, a⟩ := c
    simp only [runCalls]
    exact ih (knows_fabricate sc o a h)

theorem mem_mainChecks {o : OrderView} {a : Args} (h : firstFail (mainChecks o a) = none) (s : Site) (b : Bool)
    (hm : (s, b) ∈ mainChecks o a) : b = true := firstFail_none h (s, b) hm

end AsyncFix.Tester

namespace AsyncFix.Tester

theorem check_sum {o : OrderView} {a : Args} (hm : firstFail (mainChecks o a) = none) :
    (effOf o a).cum.e + (effOf o a).leaves.e ≤ (effOf o a).orderQty.e := by
  have := firstFail_none hm
    (.sumLeOrderQty, decide ((effOf o a).cum.e + (effOf o a).leaves.e ≤ (effOf o a).orderQty.e)) (by simp [mainChecks])
  simpa using this

theorem check_finished {o : OrderView} {a : Args} (hm : firstFail (mainChecks o a) = none)
    (hf : a.ordStatus ∈ finished) : (effOf o a).leaves.e = 0 := by
  have := firstFail_none hm
    (.finishedLeavesZero, !finished.contains a.ordStatus || decide ((effOf o a).leaves.e = 0)) (by simp [mainChecks])
  simpa [hf] using this

/-- the documented tag list of a fabricated ExecutionReport, in the order the helper sets the tags -/
def documentedTags (a : Args) : List Nat :=
  [11, 37, 17] ++ (if truthy a.origClordId then [41] else []) ++ [150, 39, 54, 14, 151]
    ++ (if a.lastQty.isSome then [32] else []) ++ [55, 44, 38, 6, 1]

macro "report_cases" a:ident : tactic =>
  `(tactic| (cases h1 : truthy (Args.origClordId $a) <;> cases h2 : Args.lastQty $a <;>
      simp [buildReport, RMsg.qty?, RMsg.nat?, RMsg.str?, RMsg.get?, RMsg.lookup, RMsg.tagList, documentedTags,
        getS, getF, getFOpt, Val.render, Except.map, h1, h2]))

theorem buildReport_tagList (o : OrderView) (a : Args) (oid : Val) (eid : Nat) :
    (buildReport o a oid eid).tagList = documentedTags a := by report_cases a

theorem buildReport_mtype (o : OrderView) (a : Args) (oid : Val) (eid : Nat) :
    (buildReport o a oid eid).mtype = "8" := rfl

theorem buildReport_qty14 (o : OrderView) (a : Args) (oid : Val) (eid : Nat) :
    (buildReport o a oid eid).qty? 14 = some (effOf o a).cum.e := by report_cases a

theorem buildReport_qty151 (o : OrderView) (a : Args) (oid : Val) (eid : Nat) :
    (buildReport o a oid eid).qty? 151 = some (effOf o a).leaves.e := by report_cases a

theorem buildReport_qty38 (o : OrderView) (a : Args) (oid : Val) (eid : Nat) :
    (buildReport o a oid eid).qty? 38 = some (effOf o a).orderQty.e := by report_cases a

theorem buildReport_nat17 (o : OrderView) (a : Args) (oid : Val) (eid : Nat) :
    (buildReport o a oid eid).nat? 17 = some eid := by report_cases a

theorem buildReport_get37 (o : OrderView) (a : Args) (oid : Val) (eid : Nat) :
    (buildReport o a oid eid).get? 37 = some oid := by report_cases a

theorem buildReport_str39 (o : OrderView) (a : Args) (oid : Val) (eid : Nat) :
    (buildReport o a oid eid).str? 39 = some a.ordStatus := by report_cases a

theorem buildReport_str11 (o : OrderView) (a : Args) (oid : Val) (eid : Nat) :
    (buildReport o a oid eid).str? 11 = some a.clordId := by report_cases a

/-- what `process_execution_report` reads from a fabricated report -/
theorem buildReport_reads (o : OrderView) (a : Args) (oid : Val) (eid : Nat) :
    let m := buildReport o a oid eid
    getS m 11 = .ok a.clordId ∧ getF m 14 = .ok (effOf o a).cum.toFloat ∧ getS m 39 = .ok a.ordStatus ∧
    getS m 150 = .ok a.execType ∧ getF m 151 = .ok (effOf o a).leaves.toFloat ∧ getS m 37 = .ok oid.render ∧
    getF m 6 = .ok a.avgPrice.toFloat ∧ getFOpt m 44 = .ok (some (effOf o a).price.toFloat) ∧
    getFOpt m 38 = .ok (some (effOf o a).orderQty.toFloat) := by
  report_cases a

end AsyncFix.Tester
