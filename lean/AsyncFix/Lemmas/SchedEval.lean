import AsyncFix.Model.SchedRun
import AsyncFix.Lemmas.SessionRel

/-!
Sched family: evaluation lemmas – what a resumption computation is on a given connection
(`simp` with them unfolds a handler's first segment).
-/
namespace AsyncFix.Sched

open AsyncFix.Session

variable {α β : Type}

theorem R.bind_apply (x : R α) (f : α → R β) (c : Conn) : (x >>= f) c = (x c).bind f := rfl
theorem R.pure_apply (a : α) (c : Conn) : (pure a : R α) c = .done c [] [] (.ok a) := rfl

theorem R.liftM_apply (x : M α) (c : Conn) :
    R.liftM x c = .done (x c).conn (x c).eff [] (x c).res := by
  unfold R.liftM
  rcases x c with ⟨r, c1, e⟩
  rfl

theorem R.get_apply (c : Conn) : R.get c = .done c [] [] (.ok c) := rfl
theorem R.modify_apply (f : Conn → Conn) (c : Conn) : R.modify f c = .done (f c) [] [] (.ok ()) := rfl
theorem R.throw_apply (ex : Exc) (c : Conn) : (R.throw ex : R α) c = .done c [] [] (.error ex) := rfl
theorem R.yield_apply (pt : YieldPoint) (c : Conn) :
    R.yield pt c = .yield c [] [] pt fun c' => .done c' [] [] (.ok ()) := rfl

theorem R.ite_apply (p : Prop) [Decidable p] (x y : R α) (c : Conn) :
    (if p then x else y) c = if p then x c else y c := by
  split <;> rfl

theorem Res.bind_done_ok (c : Conn) (e : List Effect) (g : List Ghost) (a : α) (f : α → Conn → Res β) :
    (Res.done c e g (.ok a)).bind f = (f a c).prepend e g := rfl

theorem Res.bind_done_error (c : Conn) (e : List Effect) (g : List Ghost) (ex : Exc) (f : α → Conn → Res β) :
    (Res.done c e g (.error ex)).bind f = .done c e g (.error ex) := rfl

theorem Res.bind_yield (c : Conn) (e : List Effect) (g : List Ghost) (pt : YieldPoint) (k : Conn → Res α)
    (f : α → Conn → Res β) :
    (Res.yield c e g pt k).bind f = .yield c e g pt fun c' => (k c').bind f := rfl

@[simp] theorem Res.prepend_nil (r : Res α) : r.prepend [] [] = r := by
  cases r <;> rfl

end AsyncFix.Sched
