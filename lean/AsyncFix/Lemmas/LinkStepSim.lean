import AsyncFix.Lemmas.LinkConnSim

/-!
C07: **the abstraction commutes with the step functions** on well-formed Link states, and well-formedness is an
invariant: `absLink (step l ev) = astep (absLink l) (absEv ev)`.
-/
namespace AsyncFix.Link

open AsyncFix.Session AsyncFix.Generated AsyncFix.Generated.ConnEnum
open AsyncFix.Session.Msg

/-- abstraction of one endpoint's step result -/
def absRes (c : Conn) (eff : List Effect) : ARes :=
  { c := absConn c, wr := (writesOf eff).map absFrame, dl := (deliveriesOf eff).map absDelivered }

theorem absLink_absorb (l : Link) (s : Side) (c : Conn) (eff : List Effect) :
    absLink (l.absorb s c eff) = (absLink l).absorb s (absRes c eff) := by
  cases s <;> simp [absLink, Link.absorb, ALink.absorb, absRes, List.map_append]

theorem absLink_noteAccepted (l : Link) (s : Side) (m : Msg) :
    absLink (l.noteAccepted s m) = (absLink l).noteAccepted s (payloadOf m) := by
  cases s <;> simp [absLink, Link.noteAccepted, ALink.noteAccepted, List.map_append]

theorem absLink_pop (l : Link) (s : Side) : absLink (l.pop s) = (absLink l).pop s := by
  cases s <;> simp [absLink, Link.pop, ALink.pop, List.map_tail]

theorem absLink_conn (l : Link) (s : Side) : (absLink l).conn s = absConn (l.conn s) := by
  cases s <;> rfl

theorem absLink_queueTo (l : Link) (s : Side) : (absLink l).queueTo s = (l.queueTo s).map absFrame := by
  cases s <;> rfl

theorem absRes_of_stepOK {s : Side} {r : ARes} {c : Conn} {eff : List Effect} (h : StepOK s r c eff) :
    absRes c eff = r := by
  cases r
  simp only [absRes, h.conn, h.wr, h.dl]

theorem LinkGood.conn {l : Link} (h : LinkGood l) (s : Side) : ConnGood s (l.conn s) := by
  cases s
  · exact h.i
  · exact h.a

theorem LinkGood.queue {l : Link} (h : LinkGood l) (s : Side) :
    ∀ f ∈ l.queueTo s, FrameGood s.other.name s.name f := by
  cases s
  · exact h.toI
  · exact h.toA

/-- absorbing a good step keeps the link well-formed -/
theorem linkGood_absorb {l : Link} (h : LinkGood l) (s : Side) {c : Conn} {eff : List Effect}
    (hc : ConnGood s c) (hf : ∀ g ∈ writesOf eff, FrameGood s.name s.other.name g) :
    LinkGood (l.absorb s c eff) := by
  cases s
  · refine ⟨hc, h.a, ?_, h.toI⟩
    intro f hf'
    rcases List.mem_append.mp hf' with hf' | hf'
    · exact h.toA f hf'
    · exact hf f hf'
  · refine ⟨h.i, hc, h.toA, ?_⟩
    intro f hf'
    rcases List.mem_append.mp hf' with hf' | hf'
    · exact h.toI f hf'
    · exact hf f hf'

theorem linkGood_noteAccepted {l : Link} (h : LinkGood l) (s : Side) (m : Msg) : LinkGood (l.noteAccepted s m) := by
  cases s <;> exact ⟨h.i, h.a, h.toA, h.toI⟩

theorem linkGood_pop {l : Link} (h : LinkGood l) (s : Side) : LinkGood (l.pop s) := by
  cases s
  · exact ⟨h.i, h.a, h.toA, fun f hf => h.toI f (List.mem_of_mem_tail hf)⟩
  · exact ⟨h.i, h.a, fun f hf => h.toA f (List.mem_of_mem_tail hf), h.toI⟩

theorem absorb_conn_other (l : Link) (s : Side) (c : Conn) (eff : List Effect) :
    (l.absorb s c eff).conn s.other = l.conn s.other := by
  cases s <;> rfl

theorem stepCore_sim (l : Link) (ev : Ev) (hg : LinkGood l) (hwf : ev.wf = true) :
    absLink (stepCore l ev) = astep (absLink l) (absEv ev) ∧ LinkGood (stepCore l ev) := by
  cases ev with
  | appSend s env m =>
    simp only [Ev.wf, Bool.and_eq_true] at hwf
    have hsim := appSend_sim (env := env) (hg.conn s) hwf.1 hwf.2
    simp only [stepCore, absEv, astep, absLink_conn]
    by_cases hcond : ((absConn (l.conn s)).canSend && msgLatin1 m) = true
    · rw [if_pos hcond] at hsim
      obtain ⟨hstep, hr⟩ := hsim
      rw [if_pos hcond]
      cases hres : Session.appSend env (l.conn s) m with
      | mk c eff =>
        rw [hres] at hstep hr
        simp only [hr, Bool.false_eq_true, if_false]
        refine ⟨?_, linkGood_noteAccepted (linkGood_absorb hg s hstep.good hstep.frames) s m⟩
        rw [absLink_noteAccepted, absLink_absorb, absRes_of_stepOK hstep]
    · rw [if_neg hcond] at hsim
      obtain ⟨h1, h2, h3, h4⟩ := hsim
      rw [if_neg hcond]
      cases hres : Session.appSend env (l.conn s) m with
      | mk c eff =>
        rw [hres] at h1 h2 h3 h4
        simp only at h1 h2 h3 h4
        simp only [h4, if_true]
        subst h1
        refine ⟨?_, linkGood_absorb hg s (hg.conn s) (by simp [h2])⟩
        rw [absLink_absorb]
        cases s <;> simp [ALink.absorb, absRes, h2, h3, absLink, Link.conn]
  | deliverNext to env =>
    simp only [Ev.wf] at hwf
    simp only [stepCore, absEv, astep, absLink_queueTo, absLink_conn]
    cases hq : l.queueTo to with
    | nil => exact ⟨by simp, hg⟩
    | cons f rest =>
      simp only [List.map_cons]
      have hfg : FrameGood to.other.name to.name f := hg.queue to f (by rw [hq]; simp)
      have hcg := hg.conn to
      by_cases hs : (l.conn to).sock = true
      · have hne : (absConn (l.conn to)).st ≠ .disc := by rw [Ne, absSt_disc_iff hcg, hs]; decide
        have hstep := recv_sim (env := env) hcg hs hfg hwf
        simp only [hs, Bool.not_true, Bool.false_eq_true, if_false, hne]
        cases hres : Session.recv srAll env (l.conn to) f with
        | mk c eff =>
          rw [hres] at hstep
          refine ⟨?_, linkGood_absorb (linkGood_pop hg to) to hstep.good hstep.frames⟩
          rw [absLink_absorb, absLink_pop, absRes_of_stepOK hstep]
      · have hs' : (l.conn to).sock = false := by simpa using hs
        have hd : (absConn (l.conn to)).st = .disc := (absSt_disc_iff hcg).mpr hs'
        simp only [hs', Bool.not_false, if_true, hd]
        exact ⟨absLink_pop l to, linkGood_pop hg to⟩
  | breakConn env =>
    have hi := eof_sim (env := env) hg.i
    have ha := eof_sim (env := env) hg.a
    simp only [stepCore, absEv, astep]
    cases hri : Session.eof env l.i with
    | mk ci ei =>
      cases hra : Session.eof env l.a with
      | mk ca ea =>
        rw [hri] at hi
        rw [hra] at ha
        have hwi : writesOf ei = [] := by have := hi.wr; simpa using this
        have hwa : writesOf ea = [] := by have := ha.wr; simpa using this
        have hdi : deliveriesOf ei = [] := by have := hi.dl; simpa using this
        have hda : deliveriesOf ea = [] := by have := ha.dl; simpa using this
        refine ⟨?_, ⟨hi.good, ha.good, by simp [Link.absorb, hwi], by simp [Link.absorb, hwa]⟩⟩
        simp [absLink, Link.absorb, hwi, hwa, hdi, hda, hi.conn, ha.conn]
  | reconnect env =>
    simp only [Ev.wf] at hwf
    simp only [stepCore, absEv, astep]
    by_cases hs : (l.i.sock || l.a.sock) = true
    · have : ((absLink l).i.st ≠ .disc ∨ (absLink l).a.st ≠ .disc) := by
        rcases Bool.or_eq_true _ _ |>.mp hs with h | h
        · left; show (absConn l.i).st ≠ .disc; rw [Ne, absSt_disc_iff hg.i, h]; decide
        · right; show (absConn l.a).st ≠ .disc; rw [Ne, absSt_disc_iff hg.a, h]; decide
      simp only [hs, if_true]
      have hc : (decide ((absLink l).i.st ≠ .disc) || decide ((absLink l).a.st ≠ .disc)) = true := by
        rcases this with h | h <;> simp [h]
      rw [if_pos hc]
      exact ⟨rfl, hg⟩
    · have hs' : l.i.sock = false ∧ l.a.sock = false := by simpa using hs
      have hdi : (absLink l).i.st = .disc := (absSt_disc_iff hg.i).mpr hs'.1
      have hda : (absLink l).a.st = .disc := (absSt_disc_iff hg.a).mpr hs'.2
      have hc : ¬ ((decide ((absLink l).i.st ≠ .disc) || decide ((absLink l).a.st ≠ .disc)) = true) := by
        simp [hdi, hda]
      rw [if_neg hc]
      simp only [hs, Bool.false_eq_true, if_false]
      have hA := connected_acceptor_sim hg.a hs'.2
      have hI := connected_initiator_sim (env := env) hg.i hs'.1 hwf
      simp only at hI
      cases hra : Session.connected l.a .acceptor with
      | mk ca ea =>
        cases hri : Session.connected l.i .initiator with
        | mk ci ei =>
          rw [hra] at hA
          rw [hri] at hI
          simp only at hI
          cases hri2 : Session.appSend env ci (logonMsg ci.hb) with
          | mk ci2 ei2 =>
            rw [hri2] at hI
            obtain ⟨hI, _⟩ := hI
            have hwa : writesOf ea = [] := by have := hA.wr; simpa using this
            have hda' : deliveriesOf ea = [] := by have := hA.dl; simpa using this
            have hdi' : deliveriesOf (ei ++ ei2) = [] := by have := hI.dl; simpa using this
            refine ⟨?_, ⟨hI.good, hA.good, ?_, ?_⟩⟩
            · have hwr := hI.wr
              simp only at hwr
              simp [absLink, Link.absorb, hwa, hda', hdi', hI.conn, hA.conn, hwr, AConn.push]
            · intro f hf
              simp only [Link.absorb, List.nil_append, hwa, List.append_nil] at hf
              exact hI.frames f hf
            · intro f hf
              simp only [Link.absorb, List.nil_append, hwa, List.append_nil] at hf
              exact absurd hf (by simp)

/-- **Simulation.**  On well-formed states the abstraction commutes with the step functions, and
well-formedness is kept. -/
theorem step_sim (l : Link) (ev : Ev) (hg : LinkGood l) (hwf : ev.wf = true) :
    absLink (step l ev) = astep (absLink l) (absEv ev) ∧ LinkGood (step l ev) := by
  have hg' : LinkGood { l with eff := [] } := ⟨hg.i, hg.a, hg.toA, hg.toI⟩
  have := stepCore_sim { l with eff := [] } ev hg' hwf
  exact this

end AsyncFix.Link
