/-
Decimal rendering / Python `int()` round trip for the codec model:
`pyInt (natToDec n) = some n`, `pyInt (dec3 k) = some k`, `(pyInt t).isSome` for `okTag t`.
-/
import AsyncFix.Model.Codec.Frame
namespace AsyncFix.Model.Codec

/-- value of a digit string read left to right with accumulator `a` -/
def decVal (a : Nat) (l : Bytes) : Nat := l.foldl (fun a c => a * 10 + (c - 48)) a

theorem decVal_append (a : Nat) (xs ys : Bytes) : decVal a (xs ++ ys) = decVal (decVal a xs) ys := by
  simp [decVal, List.foldl_append]

theorem isDigit_iff (c : Nat) : isDigit c = true ↔ 48 ≤ c ∧ c ≤ 57 := by
  simp [isDigit]

/-! ### `natToDec` -/

theorem natToDec_ne_nil (n : Nat) : natToDec n ≠ [] := by
  unfold natToDec; split <;> simp

theorem natToDec_all_digit (n : Nat) : (natToDec n).all isDigit = true := by
  induction n using Nat.strongRecOn with
  | _ n ih =>
    unfold natToDec
    by_cases h : n < 10
    · simp [h, isDigit]; omega
    · have := ih (n / 10) (by omega)
      simp [h, this, isDigit]; omega

theorem decVal_natToDec (n : Nat) : decVal 0 (natToDec n) = n := by
  induction n using Nat.strongRecOn with
  | _ n ih =>
    unfold natToDec
    by_cases h : n < 10
    · simp [h, decVal]
    · simp only [h, if_false, decVal_append, ih (n / 10) (by omega)]
      simp [decVal]; omega

theorem natToDec_length_pos (n : Nat) : 0 < (natToDec n).length :=
  List.length_pos_iff.mpr (natToDec_ne_nil n)

theorem natToDec_length_lt1000 (n : Nat) (h : n < 1000) : (natToDec n).length ≤ 3 := by
  unfold natToDec
  split
  · simp
  · unfold natToDec
    split
    · simp
    · unfold natToDec
      split
      · simp
      · omega

/-! ### `digitsVal` on pure digit strings -/

theorem digitsVal_digits (l : Bytes) (hd : l.all isDigit = true) (a n : Nat) :
    digitsVal l a n true = some (decVal a l, n + l.length) := by
  induction l generalizing a n with
  | nil => simp [digitsVal, decVal]
  | cons c cs ih =>
    simp only [List.all_cons, Bool.and_eq_true] at hd
    simp only [digitsVal, hd.1, if_true, ih hd.2, decVal, List.foldl_cons, List.length_cons]
    congr 2; omega

theorem digitsVal_digits_ne_nil (l : Bytes) (hne : l ≠ []) (hd : l.all isDigit = true) :
    digitsVal l 0 0 false = some (decVal 0 l, l.length) := by
  cases l with
  | nil => exact absurd rfl hne
  | cons c cs =>
    simp only [List.all_cons, Bool.and_eq_true] at hd
    simp only [digitsVal, hd.1, if_true, digitsVal_digits cs hd.2, decVal, List.foldl_cons,
      List.length_cons]
    congr 2; omega

/-! ### `pyInt` on pure digit strings -/

theorem digit_not_space (c : Nat) (h : isDigit c = true) : isSpaceAscii c = false := by
  simp only [isDigit, Bool.and_eq_true, decide_eq_true_eq] at h
  simp [isSpaceAscii]; omega

theorem all_digit_lt128 (l : Bytes) (hd : l.all isDigit = true) : l.all (· < 128) = true := by
  simp only [List.all_eq_true, isDigit, Bool.and_eq_true, decide_eq_true_eq] at hd ⊢
  intro c hc; have := hd c hc; omega

theorem dropWhile_space_digits (l : Bytes) (hd : l.all isDigit = true) :
    l.dropWhile isSpaceAscii = l := by
  cases l with
  | nil => rfl
  | cons c cs =>
    simp only [List.all_cons, Bool.and_eq_true] at hd
    simp [List.dropWhile, digit_not_space c hd.1]

theorem dropWhileEnd_space_digits (l : Bytes) (hd : l.all isDigit = true) :
    dropWhileEnd isSpaceAscii l = l := by
  unfold dropWhileEnd
  rw [dropWhile_space_digits _ (by simpa using hd), List.reverse_reverse]

theorem signMatch_digit (c : Nat) (cs : Bytes) (h45 : c ≠ 45) (h43 : c ≠ 43) :
    pyInt.match_1 (fun _ => Bool × List Nat) (c :: cs) (fun r => (true, r)) (fun r => (false, r))
      (fun r => (false, r)) = (false, c :: cs) := by
  split
  · next r heq => cases heq; exact absurd rfl h45
  · next r heq => cases heq; exact absurd rfl h43
  · rfl

theorem pyInt_digits (t : Bytes) (hne : t ≠ []) (hd : t.all isDigit = true)
    (hl : t.length ≤ maxStrDigits) : pyInt t = some (decVal 0 t : Int) := by
  unfold pyInt
  simp only [all_digit_lt128 t hd, if_true, dropWhile_space_digits t hd,
    dropWhileEnd_space_digits t hd]
  cases t with
  | nil => exact absurd rfl hne
  | cons c cs =>
    have hc : isDigit c = true := by
      simp only [List.all_cons, Bool.and_eq_true] at hd; exact hd.1
    have hc' := (isDigit_iff c).mp hc
    rw [signMatch_digit c cs (by omega) (by omega)]
    simp only [digitsVal_digits_ne_nil _ hne hd, gt_iff_lt]
    rw [if_neg (by omega)]
    simp

theorem pyInt_natToDec (n : Nat) (h : (natToDec n).length ≤ maxStrDigits) :
    pyInt (natToDec n) = some (n : Int) := by
  rw [pyInt_digits _ (natToDec_ne_nil n) (natToDec_all_digit n) h, decVal_natToDec]

/-! ### `dec3` -/

theorem dec3_all_digit (k : Nat) : (dec3 k).all isDigit = true := by
  simp only [dec3, List.all_append, natToDec_all_digit, Bool.and_true, List.all_replicate]
  simp [isDigit]

theorem dec3_ne_nil (k : Nat) : dec3 k ≠ [] := by
  simp [dec3, natToDec_ne_nil]

theorem decVal_replicate_zero (m : Nat) : decVal 0 (List.replicate m 48) = 0 := by
  induction m with
  | zero => rfl
  | succ m ih => rw [List.replicate_succ', decVal_append, ih]; rfl

theorem decVal_dec3 (k : Nat) : decVal 0 (dec3 k) = k := by
  simp [dec3, decVal_append, decVal_replicate_zero, decVal_natToDec]

theorem dec3_length (k : Nat) (h : k < 1000) : (dec3 k).length = 3 := by
  have h1 := natToDec_length_lt1000 k h
  have h2 := natToDec_length_pos k
  simp only [dec3, List.length_append, List.length_replicate]; omega

theorem pyInt_dec3 (k : Nat) (h : k < 1000) : pyInt (dec3 k) = some (k : Int) := by
  rw [pyInt_digits _ (dec3_ne_nil k) (dec3_all_digit k)
    (by rw [dec3_length k h]; simp [maxStrDigits]), decVal_dec3]

/-! ### tags -/

theorem okTag_iff (t : Bytes) :
    okTag t = true ↔ t ≠ [] ∧ t.all isDigit = true ∧ t.length ≤ maxStrDigits := by
  cases t <;> simp [okTag, and_assoc]

theorem pyInt_okTag (t : Bytes) (h : okTag t = true) : pyInt t = some (decVal 0 t : Int) := by
  obtain ⟨h1, h2, h3⟩ := (okTag_iff t).mp h
  exact pyInt_digits t h1 h2 h3

theorem pyInt_okTag_isSome (t : Bytes) (h : okTag t = true) : (pyInt t).isSome = true := by
  rw [pyInt_okTag t h]; rfl

end AsyncFix.Model.Codec
