import AsyncFix.Lemmas.RestartInbound

/-!
Restart family: crash states of inbound processing of an application message, part 2 (the segments).
-/
set_option linter.unusedSectionVars false

namespace AsyncFix.Restart

open AsyncFix.Session AsyncFix.Generated AsyncFix.Generated.ConnEnum

/-- `processHead` of an application message: no logon / seqreset / logout handling -/
def headApp (env : Env) (m : Msg) : M (Option (Bool × Int)) := do
  let c ← M.get
  M.assert (decide (c.state ≥ st_NETWORK_CONN_ESTABLISHED))
  if c.state == st_NETWORK_CONN_ESTABLISHED then do
    disconnect env st_DISCONNECTED_BROKEN_CONN none
    pure none
  else do
    let c1 ← M.get
    if c1.state == st_LOGON_INITIAL_SENT then do
      disconnect env st_DISCONNECTED_BROKEN_CONN none
      pure none
    else do
      let c2 ← M.get
      if c2.state ≤ st_DISCONNECTED_BROKEN_CONN then pure none
      else do
        let v ← M.liftE (m.get tMsgSeqNum)
        let n ← M.int v
        let valid ← checkSeqnumGaps env n
        pure (some (valid, n))

theorem processHead_app (env : Env) (m : Msg) (happ : isApp m = true) : processHead env m = headApp env m := by
  obtain ⟨_, _, _, h4, h5, hA⟩ := isApp_types happ
  unfold processHead headApp
  dsimp only
  simp only [pure_bind, h4, h5, hA, bne, Bool.not_false, Bool.and_true, Bool.false_eq_true, if_false, if_true]


section walk
attribute [local irreducible] stateSet sendMsg disconnect checkSeqnumGaps validateIntegrity M.bind' M.pure' M.get
  M.modify M.emit M.throw M.liftE M.assert M.int

theorem headApp_insame (env : Env) (m : Msg) : M.Rel InSameR (headApp env m) := by
  unfold headApp
  rel_tac [disconnect_insame, checkSeqnumGaps_insame]

end walk

theorem headApp_val (env : Env) (m : Msg) :
    OkPost noGuard (headApp env m) (fun r _ => ∀ v n, r = some (v, n) → seqOf m = some n) := by
  unfold headApp
  apply OkPost.skip; intro c
  apply OkPost.skip; intro _
  split
  · apply OkPost.skip; intro _
    exact OkPost.pure (fun _ _ _ h => by cases h)
  apply OkPost.skip; intro c1
  split
  · apply OkPost.skip; intro _
    exact OkPost.pure (fun _ _ _ h => by cases h)
  apply OkPost.skip; intro c2
  split
  · exact OkPost.pure (fun _ _ _ h => by cases h)
  apply OkPost.liftE_bind; intro v hv
  apply OkPost.int_bind; intro n hn
  apply OkPost.skip; intro valid
  refine OkPost.pure (fun _ v' n' h => ?_)
  cases h
  unfold seqOf; rw [get_ok_get? hv]; exact hn

/-- swallowing keeps an all-outcomes relation (the `caught` effect changes no state) -/
theorem swallow_rel {α : Type} {R : Conn → Conn → List Effect → Prop} [Compositional R] {x : M α} {d : α}
    (hx : M.Rel R x) (hc : ∀ ex, M.Rel R (M.emit (.caught ex))) : M.Rel R (swallow d x) := by
  unfold Session.swallow
  apply M.Rel.tryCatch hx
  intro ex
  exact M.Rel.bind (hc ex) (fun _ => M.Rel.pure _)

/-- swallowing keeps a post-condition that the default value satisfies everywhere -/
theorem OkPost.swallow_noGuard {α : Type} {x : M α} {d : α} {P : α → Conn → Prop}
    (hx : OkPost noGuard x P) (hd : ∀ c, P d c) : OkPost noGuard (swallow d x) P := by
  constructor
  intro c a c' e h _
  unfold Session.swallow at h
  rcases hx1 : x c with ⟨r, c1, e1⟩
  cases r with
  | ok a1 =>
    rw [M.tryCatch_ok hx1] at h
    cases h
    exact hx.out _ _ _ _ hx1 rfl
  | error ex =>
    rw [M.tryCatch_err hx1] at h
    have : a = d := by
      have := congrArg Out.res h
      simp only [M.bind_ok (M.emit_apply (Effect.caught ex) c1), M.pure_apply] at this
      exact (Except.ok.inj this).symm
    subst this
    exact hd c'

/-! ### segment 1 -/

theorem recvHead_insame (env : Env) (m : Msg) (happ : isApp m = true) (s : RecvSt) :
    M.Rel InSameR (recvHead env m s) := by
  unfold recvHead
  rw [processHead_app env m happ]
  apply M.Rel.bind (validateIntegrity_insame m)
  intro integ
  cases integ with
  | critical => exact M.Rel.bind (disconnect_insame env _ _) (fun _ => M.Rel.pure _)
  | reason text => exact M.Rel.bind (disconnect_insame env _ _) (fun _ => M.Rel.pure _)
  | good =>
    apply M.Rel.bind (swallow_rel (headApp_insame env m) (fun ex => InSameR.emit _))
    intro head
    cases head with
    | none => exact M.Rel.pure _
    | some p => exact M.Rel.pure _

theorem recvHead_val (env : Env) (m : Msg) (happ : isApp m = true) (s : RecvSt) :
    OkPost noGuard (recvHead env m s) (fun s' _ => s'.go = true → seqOf m = some s'.n) := by
  unfold recvHead
  rw [processHead_app env m happ]
  apply OkPost.skip; intro integ
  cases integ with
  | critical => apply OkPost.skip; intro _; exact OkPost.pure (fun _ h => by cases h)
  | reason text => apply OkPost.skip; intro _; exact OkPost.pure (fun _ h => by cases h)
  | good =>
    apply OkPost.bind_pre (OkPost.swallow_noGuard (headApp_val env m) (fun _ _ _ h => by cases h))
    intro head
    cases head with
    | none => exact ⟨fun _ _ _ _ hx _ _ h => by cases hx; cases h⟩
    | some p =>
      obtain ⟨valid, n⟩ := p
      exact ⟨fun _ _ _ _ hx _ hv _ => by cases hx; exact hv valid n rfl⟩

/-! ### segment 2 -/

theorem processDispatch_app_apply (env : Env) (sr : Msg → Bool) (m : Msg) (happ : isApp m = true)
    (valid : Bool) (n : Int) (c : Conn) :
    processDispatch env sr m valid n c =
      if (valid && n == c.sess.nextIn) = true then ⟨.ok (), c, [.deliver m]⟩ else ⟨.ok (), c, []⟩ := by
  obtain ⟨h0, h1, h2, h4, _, hA⟩ := isApp_types happ
  simp only [processDispatch, h0, h1, h2, h4, hA, Bool.false_eq_true, if_false, M.get_bind_apply, M.ite_apply,
    M.emit_apply, M.pure_apply]

theorem recvDispatch_apply (env : Env) (sr : Msg → Bool) (m : Msg) (happ : isApp m = true) (s : RecvSt)
    (c : Conn) :
    recvDispatch env sr m s c =
      if (s.go && s.valid && s.n == c.sess.nextIn) = true then ⟨.ok s, c, [.deliver m]⟩ else ⟨.ok s, c, []⟩ := by
  unfold recvDispatch
  cases hgo : s.go with
  | false => simp
  | true =>
    simp only [if_true, Bool.true_and]
    by_cases hcond : (s.valid && s.n == c.sess.nextIn) = true
    · have hp : processDispatch env sr m s.valid s.n c = ⟨.ok (), c, [.deliver m]⟩ := by
        rw [processDispatch_app_apply env sr m happ, if_pos hcond]
      have hsw : swallow () (processDispatch env sr m s.valid s.n) c = ⟨.ok (), c, [.deliver m]⟩ := by
        unfold Session.swallow; rw [M.tryCatch_ok hp]
      rw [M.bind_ok hsw, if_pos hcond]; rfl
    · have hp : processDispatch env sr m s.valid s.n c = ⟨.ok (), c, []⟩ := by
        rw [processDispatch_app_apply env sr m happ, if_neg hcond]
      have hsw : swallow () (processDispatch env sr m s.valid s.n) c = ⟨.ok (), c, []⟩ := by
        unfold Session.swallow; rw [M.tryCatch_ok hp]
      rw [M.bind_ok hsw, if_neg hcond]; rfl

end AsyncFix.Restart
