import AsyncFix.Lemmas.SessionOutSendHold

/-!
C05 proof machinery: derived rules that keep the *same* connection variable across state-neutral
statements (`assert`, `liftE`, `int`, `emit`, `get`), and `modify` to an explicit update.
-/
namespace AsyncFix.Session

open AsyncFix.Generated AsyncFix.Generated.ConnEnum

variable {sr : Msg → Bool} {U X : Prop} {α β : Type}

theorem Hold.congr {c : Conn} {x y : M α} {Q : α → Conn → Prop} (h : x c = y c)
    (hy : Hold sr U X c y Q) : Hold sr U X c x Q := by
  unfold Hold at *; rw [h]; exact hy

theorem Good.pre_nonwrite {c c' : Conn} {e : Effect} {es : List Effect} (h : e.isWrite = false)
    (hI : OutInv c) (hg : Good sr U X c c' es) : Good sr U X c c' ([e] ++ es) :=
  (Good.emit e h hI).trans hg

theorem Hold.bind_assert {c : Conn} {b : Bool} {f : Unit → M β} {Q : β → Conn → Prop}
    (hI : OutInv c) (hf : b = true → Hold sr U X c (f ()) Q) :
    Hold sr U X c (M.assert b >>= f) Q := by
  cases b with
  | true => exact Hold.congr (by rw [run_bind_of_ok (run_assert_true c), Out.pre_nil]) (hf rfl)
  | false =>
    exact Hold.congr (y := M.throw .assertion) (by rw [run_bind_of_err (run_assert_false c)]; rfl)
      (Hold.throw hI)

theorem Hold.bind_liftE {c : Conn} {x : Except Exc α} {f : α → M β} {Q : β → Conn → Prop}
    (hI : OutInv c) (hf : ∀ a, x = .ok a → Hold sr U X c (f a) Q) :
    Hold sr U X c (M.liftE x >>= f) Q := by
  cases x with
  | ok a => exact Hold.congr (run_bind_liftE_ok a f c) (hf a rfl)
  | error ex =>
    exact Hold.congr (y := M.throw ex) (by rw [run_bind_liftE_err]; rfl) (Hold.throw hI)

theorem Hold.bind_int {c : Conn} {s : String} {f : Int → M β} {Q : β → Conn → Prop}
    (hI : OutInv c) (hf : ∀ n, pyInt s = some n → Hold sr U X c (f n) Q) :
    Hold sr U X c (M.int s >>= f) Q := by
  cases h : pyInt s with
  | some n =>
    exact Hold.congr (by rw [run_bind_of_ok (run_int_some h c), Out.pre_nil]) (hf n h)
  | none =>
    exact Hold.congr (y := M.throw .value) (by rw [run_bind_of_err (run_int_none h c)]; rfl)
      (Hold.throw hI)

theorem Hold.bind_pure {c : Conn} {a : α} {f : α → M β} {Q : β → Conn → Prop}
    (hf : Hold sr U X c (f a) Q) : Hold sr U X c ((Pure.pure a : M α) >>= f) Q :=
  Hold.congr (run_bind_pure a f c) hf

theorem Hold.bind_emit {c : Conn} {e : Effect} {f : Unit → M β} {Q : β → Conn → Prop}
    (h : e.isWrite = false) (hI : OutInv c) (hf : Hold sr U X c (f ()) Q) :
    Hold sr U X c (M.emit e >>= f) Q := by
  unfold Hold at *
  rw [run_bind_emit]
  exact ⟨Good.pre_nonwrite h hI hf.1, hf.2⟩

/-- `modify` of fields C05 does not talk about (or of `state` / `sock` with the `sock` clause
re-established): continue from the updated connection. -/
theorem Hold.bind_modify {c : Conn} {g : Conn → Conn} {f : Unit → M β} {Q : β → Conn → Prop}
    (hI : OutInv c) (he : OutEq c (g c))
    (hs : st_DISCONNECTED_BROKEN_CONN < (g c).state → (g c).sock = true)
    (hf : OutInv (g c) → Hold sr U X (g c) (f ()) Q) :
    Hold sr U X c (M.modify g >>= f) Q := by
  have hI' := hI.of_outEq he hs
  have h2 := hf hI'
  unfold Hold at *
  rw [run_bind_modify]
  exact ⟨(Good.refl_of_eq hI' he).trans h2.1 |> (by simpa using ·), h2.2⟩

theorem Hold.bind_get {c : Conn} {f : Conn → M β} {Q : β → Conn → Prop}
    (hf : Hold sr U X c (f c) Q) : Hold sr U X c (M.get >>= f) Q :=
  Hold.congr (run_bind_get f c) hf

/-- sequencing with a sub-handler whose normal exit satisfies `Q1` -/
theorem Hold.seq {c : Conn} {x : M α} {f : α → M β} {Q1 : α → Conn → Prop} {Q : β → Conn → Prop}
    (hx : Hold sr U X c x Q1) (hf : ∀ a c1, OutInv c1 → Q1 a c1 → Hold sr U X c1 (f a) Q) :
    Hold sr U X c (x >>= f) Q := Hold.bind hx hf

theorem Hold.true_of {c : Conn} {x : M α} {Q : α → Conn → Prop} (hx : Hold sr U X c x Q) :
    Hold sr U X c x (fun _ _ => True) := hx.weaken (fun _ _ _ _ => trivial)

end AsyncFix.Session
