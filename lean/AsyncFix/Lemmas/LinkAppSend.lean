import AsyncFix.Lemmas.LinkRecvSim2

/-!
C07: `send_msg` of an application message, EOF, and connection set-up agree with the abstract model.
-/
namespace AsyncFix.Link

open AsyncFix.Session AsyncFix.Generated AsyncFix.Generated.ConnEnum
open AsyncFix.Session.Msg

theorem lookup_43_of_all {l : List (Nat × String)} (h : l.all appTagOk = true) {v : String}
    (hv : lookup tPossDupFlag l = some v) : v ≠ "Y" := by
  induction l with
  | nil => simp [lookup] at hv
  | cons p r ih =>
    obtain ⟨k, w⟩ := p
    simp only [List.all_cons, Bool.and_eq_true] at h
    by_cases hk : k = tPossDupFlag
    · subst hk
      simp only [lookup, if_true, Option.some.injEq] at hv
      subst hv
      have := h.1
      intro hw
      subst hw
      exact absurd this (by decide)
    · simp only [lookup, hk, if_false] at hv
      exact ih h.2 hv

theorem appMsg_facts {m : Msg} (h : isAppMsg m = true) :
    (m.mtype ≠ mHeartbeat ∧ m.mtype ≠ mTestRequest ∧ m.mtype ≠ mResendRequest ∧ m.mtype ≠ mSequenceReset ∧
      m.mtype ≠ mLogout ∧ m.mtype ≠ mLogon) ∧ m.get? tPossDupFlag ≠ some "Y" ∧
      ¬ (m.get? tPossDupFlag).getD "N" = "Y" := by
  simp only [isAppMsg, Bool.and_eq_true, Bool.not_eq_true'] at h
  have hne : m.get? tPossDupFlag ≠ some "Y" := fun hh => lookup_43_of_all h.2 hh rfl
  refine ⟨isAppRow_ne h.1, hne, ?_⟩
  cases hg : m.get? tPossDupFlag with
  | none => decide
  | some v => intro hv; simp at hv; exact hne (by rw [hg, hv])

/-- the frame an accepted application message is sent as -/
theorem appFrame_facts {s : Session} {stamp : String} {m : Msg} {n : Int} (h : isAppMsg m = true)
    (hl : frameLatin1 (buildFrame s stamp m n) = true) :
    FrameGood s.sender s.target (buildFrame s stamp m n) ∧
      absFrame (buildFrame s stamp m n) = ⟨n, .app (payloadOf m) false⟩ ∧
      absRow (n, buildFrame s stamp m n) = (n, some (payloadOf m)) := by
  obtain ⟨⟨a0, a1, a2, a4, a5, aA⟩, hpd, _⟩ := appMsg_facts h
  have h43 : (buildFrame s stamp m n).get? tPossDupFlag = m.get? tPossDupFlag :=
    get?_build_other s stamp m n tPossDupFlag (by refine ⟨?_, ?_, ?_, ?_, ?_, ?_, ?_, ?_⟩ <;> decide)
  have hb43 : ((buildFrame s stamp m n).get? tPossDupFlag == some "Y") = false := by
    rw [h43]; simpa using hpd
  refine ⟨frameGood_build hl ?_, ?_, ?_⟩
  · unfold KindOK
    rw [buildFrame_mtype, if_neg aA, if_neg a2, if_neg a4, if_neg a5]
    exact ⟨a0, a1⟩
  · have hk := absFrame_app (f := buildFrame s stamp m n) aA a2 a4 a5
    rw [payloadOf_build, hb43] at hk
    exact absFrame_eq (get?_build_34 ..) hk
  · have : ConnEnum.noReplay.contains m.mtype = false := by
      simp only [isAppMsg, Bool.and_eq_true, Bool.not_eq_true'] at h; exact h.1
    unfold absRow
    simp only [buildFrame_mtype, this, Bool.false_eq_true, if_false, payloadOf_build]

/-- `send_msg(m)` for an application message -/
theorem appSend_sim {s : Side} {env : Env} {c : Conn} {m : Msg} (hc : ConnGood s c) (hm : isAppMsg m = true)
    (hl3 : isLatin1 env.stamp = true) :
    if ((absConn c).canSend && msgLatin1 m) = true then
      StepOK s { c := ((absConn c).push (.app (payloadOf m) false)).1,
                 wr := [((absConn c).push (.app (payloadOf m) false)).2] }
        (Session.appSend env c m).1 (Session.appSend env c m).2 ∧ hasRaised (Session.appSend env c m).2 = false
    else (Session.appSend env c m).1 = c ∧ writesOf (Session.appSend env c m).2 = [] ∧
      deliveriesOf (Session.appSend env c m).2 = [] ∧ hasRaised (Session.appSend env c m).2 = true := by
  obtain ⟨⟨a0, a1, a2, a4, a5, aA⟩, _, hpd⟩ := appMsg_facts hm
  obtain ⟨g1, g2, g5, g6, g7, g8, he, hinb, hrows, l1, l2⟩ := connFacts hc
  have hlat : frameLatin1 (buildFrame c.sess env.stamp m c.sess.nextOut) = msgLatin1 m :=
    frameLatin1_build_app l1 l2 hl3 hm
  -- the gate
  have hgate : (absConn c).canSend = true →
      sendGate m c = ⟨.ok (), c, []⟩ ∧ c.sock = true := by
    intro hcs
    rcases hc.st with h | h | h | h | h | h | h
    · simp [AConn.canSend, absConn, absSt, h, st_DISCONNECTED_NOCONN_TODAY, st_DISCONNECTED_BROKEN_CONN] at hcs
    · simp [AConn.canSend, absConn, absSt, h, st_DISCONNECTED_WCONN_TODAY, st_DISCONNECTED_BROKEN_CONN] at hcs
    · simp [AConn.canSend, absConn, absSt, h, st_DISCONNECTED_BROKEN_CONN] at hcs
    · simp [AConn.canSend, absSt_conn h] at hcs
    · have hr : c.role ≠ roleInitiator := by
        simp [AConn.canSend, absSt_sent h, absConn_ini] at hcs; exact hcs
      exact ⟨sendGate_pass m c (by rw [h]; decide) (fun hh => hr hh.1), sock_of_state hc (by rw [h]; decide)⟩
    · exact ⟨sendGate_pass m c (by rw [h]; decide) (fun hh => by rw [h] at hh; exact absurd hh.2.1 (by decide)),
        sock_of_state hc (by rw [h]; decide)⟩
    · exact ⟨sendGate_pass m c (by rw [h]; decide) (fun hh => by rw [h] at hh; exact absurd hh.2.1 (by decide)),
        sock_of_state hc (by rw [h]; decide)⟩
  have hrefuse : (absConn c).canSend = false → sendGate m c = ⟨.error .connection, c, []⟩ := by
    intro hcs
    rcases hc.st with h | h | h | h | h | h | h
    · exact sendGate_refuse m c (Or.inl (by rw [h]; decide))
    · exact sendGate_refuse m c (Or.inl (by rw [h]; decide))
    · exact sendGate_refuse m c (Or.inl (by rw [h]; decide))
    · exact sendGate_refuse m c (Or.inr (Or.inl ⟨h, aA, a5⟩))
    · have hr : c.role = roleInitiator := by
        simp [AConn.canSend, absSt_sent h, absConn_ini] at hcs; exact hcs
      exact sendGate_refuse m c (Or.inr (Or.inr ⟨by rw [h]; decide, hr, h, a5⟩))
    · simp [AConn.canSend, absSt_awaiting h] at hcs
    · simp [AConn.canSend, absSt_active h] at hcs
  by_cases hcs : (absConn c).canSend = true
  · obtain ⟨hg, hsock⟩ := hgate hcs
    by_cases hml : msgLatin1 m = true
    · have hl : frameLatin1 (buildFrame c.sess env.stamp m c.sess.nextOut) = true := by rw [hlat, hml]
      rw [if_pos (by simp [hcs, hml])]
      have hsend : sendMsg env m c = ⟨.ok (), sentFresh c (buildFrame c.sess env.stamp m c.sess.nextOut),
          [.write (buildFrame c.sess env.stamp m c.sess.nextOut)]⟩ := by
        rw [sendMsg_gate_ok hg, sendCore_fresh' env m c a1 a4 hpd hl hrows hsock]; rfl
      obtain ⟨fg, fa, fr⟩ := appFrame_facts (s := c.sess) (stamp := env.stamp) (n := c.sess.nextOut) hm hl
      rw [g1, g2] at fg
      have hap : Session.appSend env c m = (sentFresh c (buildFrame c.sess env.stamp m c.sess.nextOut),
          [.write (buildFrame c.sess env.stamp m c.sess.nextOut)]) := by
        simp [Session.appSend, M.run, hsend]
      rw [hap]
      refine ⟨⟨?_, ?_, rfl, ⟨g1, g2, hc.st, hc.sock, g5, g6, ?_, ?_, hc.w, hinb⟩, ?_⟩, rfl⟩
      · simp [sentFresh, absConn, AConn.push, fr, AKind.entry]
      · simp [writesOf, fa, AConn.push, absConn]
      · show 1 ≤ c.sess.nextOut + 1; omega
      · exact rowsGood_append g8 g7 fg (get?_build_34 ..)
      · intro g hg'; simp [writesOf] at hg'; subst hg'; exact fg
    · have hml' : msgLatin1 m = false := by simpa using hml
      have hl : frameLatin1 (buildFrame c.sess env.stamp m c.sess.nextOut) = false := by rw [hlat, hml']
      rw [if_neg (by simp [hml'])]
      have hb : buildFrame { c.sess with nextOut := c.sess.nextOut + 1 } env.stamp m c.sess.nextOut
          = buildFrame c.sess env.stamp m c.sess.nextOut := buildFrame_sess _ _ _ _ _ rfl rfl
      have hsend : sendMsg env m c = ⟨.error .encoding, c, []⟩ := by
        rw [sendMsg_gate_ok hg]
        simp [sendCore, encodeSeq, M.bind_apply, a1, a4, hpd, hb, hl]
      simp [Session.appSend, M.run, hsend, writesOf, deliveriesOf, hasRaised]
  · have hcs' : (absConn c).canSend = false := by simpa using hcs
    rw [if_neg (by simp [hcs'])]
    have hsend : sendMsg env m c = ⟨.error .connection, c, []⟩ := sendMsg_gate_err (hrefuse hcs')
    simp [Session.appSend, M.run, hsend, writesOf, deliveriesOf, hasRaised]

end AsyncFix.Link
