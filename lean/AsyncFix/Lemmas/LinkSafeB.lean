import AsyncFix.Lemmas.LinkSafeA

/-!
Link family, safety invariant, part B: the primitive sender operations are `SendStep`s
(`AConn.push`, the resend loop `resendRows` and `AConn.serve`).
-/
namespace AsyncFix.Link

open AsyncFix.Session

/-! ### `push` -/

/-- application rows added by a freshly numbered send -/
def pushExt (o : Int) (k : AKind) : List (Int × Payload) :=
  match k.entry with
  | some p => [(o, p)]
  | none => []

theorem appView_single (o : Int) (k : AKind) : appView [(o, k.entry)] = pushExt o k := by
  cases h : k.entry <;> simp [appView, pushExt, h]

theorem keysOK_snoc {o o' g : Int} {J : AJournal} {v : Option Payload} (hk : keysOK o J)
    (hlt : ∀ r ∈ J, r.1 < g) (h1 : 1 ≤ g) (hg : g < o') (ho : o ≤ o') : keysOK o' (J ++ [(g, v)]) := by
  refine ⟨?_, ?_⟩
  · rw [List.pairwise_append]
    refine ⟨hk.1, by simp, ?_⟩
    intro a ha b hb
    simp at hb
    subst hb
    exact hlt a ha
  · intro r hr
    rcases List.mem_append.1 hr with h | h
    · have := hk.2 r h
      omega
    · simp at h
      subst h
      exact ⟨h1, hg⟩

theorem sendStep_push {o : Int} {J : AJournal} (hk : keysOK o J) (h1 : 1 ≤ o) (k : AKind)
    (hg : ∀ nw, k ≠ .gapFill nw) : SendStep o J (o + 1) (J ++ [(o, k.entry)]) [⟨o, k⟩] (pushExt o k) := by
  refine ⟨keysOK_snoc hk (fun r hr => (hk.2 r hr).2) h1 (by omega) (by omega), by omega, ?_, ?_, ?_, ?_⟩
  · rw [appView_append, appView_single]
  · intro r hr
    unfold pushExt at hr
    split at hr <;> simp at hr
    subst hr
    exact Int.le_refl _
  · intro r hr
    rcases List.mem_append.1 hr with h | h
    · exact Or.inl h
    · simp at h
      subst h
      exact Or.inr (Or.inr (Int.le_refl _))
  · intro f hf
    simp at hf
    subst hf
    refine ⟨h1, by simp only; omega, ?_⟩
    have hnone : ∀ v, (∀ r ∈ J ++ [(o, v)], r.1 = o → r.2 = none) ↔ v = none := by
      intro v
      constructor
      · intro h
        exact h (o, v) (by simp) rfl
      · intro hv r hr he
        rcases List.mem_append.1 hr with h | h
        · have := (hk.2 r h).2
          omega
        · simp at h
          subst h
          exact hv
    cases k with
    | app p pd => simp [AKind.entry]
    | gapFill nw => exact absurd rfl (hg nw)
    | logon => exact (hnone _).2 rfl
    | logout => exact (hnone _).2 rfl
    | resend b => exact (hnone _).2 rfl

/-- a gap fill `[g, o)` journaled above every existing row -/
theorem sendStep_gap {o g : Int} {J : AJournal} (hk : keysOK o J) (hlt : ∀ r ∈ J, r.1 < g) (h1 : 1 ≤ g)
    (hg : g < o) : SendStep o J o (J ++ [(g, none)]) [⟨g, .gapFill o⟩] [] := by
  refine ⟨keysOK_snoc hk hlt h1 hg (Int.le_refl _), Int.le_refl _, ?_, by simp, ?_, ?_⟩
  · rw [appView_append]
    simp [appView]
  · intro r hr
    rcases List.mem_append.1 hr with h | h
    · exact Or.inl h
    · simp at h
      subst h
      exact Or.inr (Or.inl rfl)
  · intro f hf
    simp at hf
    subst hf
    refine ⟨h1, hg, hg, Int.le_refl _, ?_⟩
    intro r hr ha hb
    rcases List.mem_append.1 hr with h | h
    · have := hlt r h
      simp at ha
      omega
    · simp at h
      subst h
      rfl

/-! ### the resend loop -/

/-- journal rows and frames produced by `resendRows`, and the final `gap_fill_begin` -/
def rrNew : AJournal → Int → AJournal × List AFrame × Int
  | [], g => ([], [], g)
  | (_, none) :: rest, g => rrNew rest g
  | (k, some p) :: rest, g =>
    ((if g < k then [(g, none)] else []) ++ (k, some p) :: (rrNew rest (k + 1)).1,
     (if g < k then [⟨g, .gapFill k⟩] else []) ++ ⟨k, .app p true⟩ :: (rrNew rest (k + 1)).2.1,
     (rrNew rest (k + 1)).2.2)

theorem resendRows_eq (rows : AJournal) (g : Int) (c : AConn) (acc : List AFrame) :
    resendRows rows g c acc =
      ({ c with out := c.out ++ (rrNew rows g).1 }, acc ++ (rrNew rows g).2.1, (rrNew rows g).2.2) := by
  induction rows generalizing g c acc with
  | nil => simp [resendRows, rrNew]
  | cons x rest ih =>
    obtain ⟨k, v⟩ := x
    cases v with
    | none => simp [resendRows, rrNew, ih]
    | some p =>
      by_cases hgk : g < k
      · simp [resendRows, rrNew, ih, hgk, AConn.pushAt, AKind.entry]
      · simp [resendRows, rrNew, ih, hgk, AConn.pushAt, AKind.entry]

structure RRSpec (rows : AJournal) (g o : Int) (N : AJournal) (F : List AFrame) (g' : Int) : Prop where
  le : g ≤ g'
  leo : g' ≤ o
  sorted : N.Pairwise (fun a b => a.1 < b.1)
  lo : ∀ r ∈ N, g ≤ r.1 ∧ r.1 < g'
  view : appView N = appView rows
  rows : ∀ r ∈ N, r.2 = none ∨ r ∈ rows
  frames : ∀ f ∈ F, frameOK N o f ∧ g ≤ f.seq

theorem rrNew_spec {o : Int} (rows : AJournal) (g : Int) (hs : rows.Pairwise (fun a b => a.1 < b.1))
    (hb : ∀ r ∈ rows, g ≤ r.1 ∧ r.1 < o) (h1 : 1 ≤ g) (hgo : g ≤ o) :
    RRSpec rows g o (rrNew rows g).1 (rrNew rows g).2.1 (rrNew rows g).2.2 := by
  induction rows generalizing g with
  | nil => exact ⟨by simp [rrNew], by simpa [rrNew] using hgo, by simp [rrNew], by simp [rrNew], by simp [rrNew],
      by simp [rrNew], by simp [rrNew]⟩
  | cons x rest ih =>
    obtain ⟨k, v⟩ := x
    rw [List.pairwise_cons] at hs
    have hk := hb (k, v) (by simp)
    simp only at hk
    cases v with
    | none =>
      have I := ih g hs.2 (fun r hr => ⟨by have := hs.1 r hr; simp at this; omega, (hb r (by simp [hr])).2⟩) h1 hgo
      simp only [rrNew]
      exact ⟨I.le, I.leo, I.sorted, I.lo, by rw [I.view]; simp [appView],
        fun r hr => (I.rows r hr).imp id (fun h => List.mem_cons_of_mem _ h), I.frames⟩
    | some p =>
      have I := ih (k + 1) hs.2
        (fun r hr => ⟨by have := hs.1 r hr; simp at this; omega, (hb r (by simp [hr])).2⟩) (by omega) (by omega)
      simp only [rrNew]
      generalize (rrNew rest (k + 1)).1 = N' at I ⊢
      generalize (rrNew rest (k + 1)).2.1 = F' at I ⊢
      generalize (rrNew rest (k + 1)).2.2 = g' at I ⊢
      generalize hpre : (if g < k then [((g : Int), (none : Option Payload))] else []) = pre
      have hpre' : ∀ r ∈ pre, r = (g, none) ∧ g < k := by
        intro r hr
        subst hpre
        split at hr <;> simp at hr
        exact ⟨hr, by assumption⟩
      have hN : ∀ r ∈ pre ++ (k, some p) :: N', r ∈ pre ∨ r = (k, some p) ∨ r ∈ N' := by
        intro r hr
        simpa using hr
      have hle := I.le
      refine ⟨by omega, I.leo, ?_, ?_, ?_, ?_, ?_⟩
      · rw [List.pairwise_append, List.pairwise_cons]
        refine ⟨?_, ⟨fun r hr => by have := (I.lo r hr).1; simp; omega, I.sorted⟩, ?_⟩
        · subst hpre
          split <;> simp
        · intro a ha b hb'
          obtain ⟨rfl, hgk⟩ := hpre' a ha
          rcases List.mem_cons.1 hb' with rfl | h
          · exact hgk
          · have := (I.lo b h).1
            simp; omega
      · intro r hr
        rcases hN r hr with h | rfl | h
        · obtain ⟨rfl, hgk⟩ := hpre' r h
          simp; omega
        · simp; omega
        · have := I.lo r h
          omega
      · rw [appView_append]
        have : appView pre = [] := by
          subst hpre
          split <;> simp [appView]
        rw [this]
        simp [appView] at I ⊢
        exact I.view
      · intro r hr
        rcases hN r hr with h | rfl | h
        · exact Or.inl (by rw [(hpre' r h).1])
        · exact Or.inr (by simp)
        · exact (I.rows r h).imp id (fun h => List.mem_cons_of_mem _ h)
      · intro f hf
        have hf' : (f = ⟨g, .gapFill k⟩ ∧ g < k) ∨ f = ⟨k, .app p true⟩ ∨ f ∈ F' := by
          rcases List.mem_append.1 hf with h | h
          · left
            split at h <;> simp at h
            exact ⟨h, by assumption⟩
          · right
            simpa using h
        rcases hf' with ⟨rfl, hgk⟩ | rfl | h
        · refine ⟨⟨h1, by simp; omega, ?_⟩, Int.le_refl _⟩
          simp only
          refine ⟨hgk, by omega, ?_⟩
          intro r hr ha hb'
          rcases hN r hr with h | rfl | h
          · rw [(hpre' r h).1]
          · simp at hb'
          · have := (I.lo r h).1
            omega
        · refine ⟨⟨by simp; omega, by simp; omega, ?_⟩, hk.1⟩
          simp
        · obtain ⟨hok, hge⟩ := I.frames f h
          refine ⟨?_, by omega⟩
          have : pre ++ (k, some p) :: N' = (pre ++ [(k, some p)]) ++ N' := by simp
          rw [this]
          apply frameOK_prepend hok
          intro r hr
          rcases List.mem_append.1 hr with h | h
          · obtain ⟨rfl, hgk⟩ := hpre' r h
            simp; omega
          · simp at h
            subst h
            simp; omega

/-! ### `serve` -/

theorem serve_eq (c : AConn) (b : Int) :
    c.serve b =
      if b < 1 ∨ b ≥ c.o then (c, [])
      else
        let R := rrNew (c.out.filter fun r => b ≤ r.1 && r.1 ≤ sysMaxsize) b
        let J1 := c.out.filter (fun r => r.1 < b) ++ R.1
        if R.2.2 < min (sysMaxsize + 1) c.o then
          ({ c with out := J1 ++ [(R.2.2, none)] }, R.2.1 ++ [⟨R.2.2, .gapFill (min (sysMaxsize + 1) c.o)⟩])
        else ({ c with out := J1 }, R.2.1) := by
  unfold AConn.serve
  by_cases h : b < 1 ∨ b ≥ c.o
  · simp [h]
  · simp only [resendRows_eq, AConn.pushAt, AKind.entry]
    simp [h]

theorem serve_e (c : AConn) (b : Int) : (c.serve b).1.e = c.e := by
  rw [serve_eq]; simp only []; split
  · rfl
  · split <;> rfl

theorem serve_o (c : AConn) (b : Int) : (c.serve b).1.o = c.o := by
  rw [serve_eq]; simp only []; split
  · rfl
  · split <;> rfl

theorem sendStep_serve (c : AConn) (b : Int) (hk : keysOK c.o c.out) (hmax : c.o ≤ sysMaxsize + 1) :
    SendStep c.o c.out (c.serve b).1.o (c.serve b).1.out (c.serve b).2 [] := by
  rw [serve_eq]
  have hm : min (sysMaxsize + 1) c.o = c.o := Int.min_eq_right hmax
  simp only [hm]
  by_cases hb : b < 1 ∨ b ≥ c.o
  · simp only [hb, if_true]
    exact SendStep.refl hk
  · simp only [hb, if_false]
    have hb1 : 1 ≤ b := by omega
    have hbo : b < c.o := by omega
    have hrows : (c.out.filter fun r => b ≤ r.1 && r.1 ≤ sysMaxsize) = c.out.filter fun r => b ≤ r.1 := by
      apply List.filter_congr
      intro r hr
      have := (hk.2 r hr).2
      have : r.1 ≤ sysMaxsize := by omega
      simp [this]
    rw [hrows]
    have hsplit := filter_split hk.1 b
    have S := rrNew_spec (o := c.o) (c.out.filter fun r => b ≤ r.1) b (hk.1.filter _)
      (fun r hr => by
        rw [List.mem_filter] at hr
        exact ⟨by simpa using hr.2, (hk.2 r hr.1).2⟩) hb1 (by omega)
    generalize (rrNew (c.out.filter fun r => b ≤ r.1) b).1 = N at S ⊢
    generalize (rrNew (c.out.filter fun r => b ≤ r.1) b).2.1 = F at S ⊢
    generalize (rrNew (c.out.filter fun r => b ≤ r.1) b).2.2 = g' at S ⊢
    have hJ0 : ∀ r ∈ c.out.filter (fun r => r.1 < b), r ∈ c.out ∧ r.1 < b := by
      intro r hr
      rw [List.mem_filter] at hr
      exact ⟨hr.1, by simpa using hr.2⟩
    have S1 : SendStep c.o c.out c.o (c.out.filter (fun r => r.1 < b) ++ N) F [] := by
      refine ⟨⟨?_, ?_⟩, Int.le_refl _, ?_, by simp, ?_, ?_⟩
      · rw [List.pairwise_append]
        refine ⟨hk.1.filter _, S.sorted, ?_⟩
        intro a ha r hr
        have := (hJ0 a ha).2
        have := (S.lo r hr).1
        omega
      · intro r hr
        rcases List.mem_append.1 hr with h | h
        · exact hk.2 r (hJ0 r h).1
        · have := S.lo r h
          have := S.leo
          omega
      · rw [appView_append, S.view, ← appView_append, hsplit]
        simp
      · intro r hr
        rcases List.mem_append.1 hr with h | h
        · exact Or.inl (hJ0 r h).1
        · rcases S.rows r h with h' | h'
          · exact Or.inr (Or.inl h')
          · exact Or.inl (List.mem_filter.1 h').1
      · intro f hf
        obtain ⟨hok, hge⟩ := S.frames f hf
        apply frameOK_prepend hok
        intro r hr
        have := (hJ0 r hr).2
        omega
    by_cases hg : g' < c.o
    · simp only [hg, if_true]
      have S2 := sendStep_gap (g := g') S1.keys (fun r hr => by
        rcases List.mem_append.1 hr with h | h
        · have := (hJ0 r h).2
          have := S.le
          omega
        · exact (S.lo r h).2) (by have := S.le; omega) hg
      simpa using S1.trans S2
    · simp only [hg, if_false]
      exact S1

end AsyncFix.Link
