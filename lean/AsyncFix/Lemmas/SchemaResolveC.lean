/-
C15, order-independence of component declarations: given ONE successful resolution (final
environment `E`), the loop succeeds from every consistent state – no assertion, no
RuntimeError – and `resolve_perm`.
-/
import AsyncFix.Lemmas.SchemaResolveB
namespace AsyncFix.Model.SchemaResolve

variable {ds : List CDecl}

/-- reference run: `E` is built from `ds`, contains every declared name, names are distinct -/
structure Ref (ds : List CDecl) (E : Env) : Prop where
  built : Built ds E
  complete : ∀ n, n ∈ declNames ds → n ∈ envNames E
  nodup : (declNames ds).Nodup

theorem Ref.sub {E : Env} (R : Ref ds E) {env : Env} (hb : Built ds env) :
    ∀ c x, env.get c = some x → E.get c = some x := by
  intro c x hc
  have hc' : c ∈ envNames env := get_isSome_iff.mp (by simp [hc])
  have := get_isSome_iff.mpr (R.complete c (hb.names_sub c hc'))
  cases hE : E.get c with
  | none => simp [hE] at this
  | some y => rw [R.built.agree R.nodup hb hE hc]

/-- in the final environment every declaration expands completely -/
theorem Ref.full {E : Env} (R : Ref ds E) {n : String} {body : List Decl} (hm : (n, body) ∈ ds) :
    ∃ ms, E.get n = some ms ∧ expandBody E body [] false = .done ms false ∧
      ∀ c, c ∈ refs body → (E.get c).isSome = true := by
  have hn := get_isSome_iff.mpr (R.complete n (List.mem_map.mpr ⟨_, hm, rfl⟩))
  cases hE : E.get n with
  | none => simp [hE] at hn
  | some ms =>
    obtain ⟨pre, body', hp1, hp2, hp3, hp4⟩ := R.built.get_inv hE
    have := decl_unique R.nodup hm hp3
    subst this
    have r := (expand_nodefer pre hp4).2
    have hc : ∀ c, c ∈ refs body → pre.get c = E.get c := by
      intro c hc
      cases ha : pre.get c with
      | none => have := r c hc; simp [ha] at this
      | some a => rw [hp2 c a ha]
    refine ⟨ms, rfl, by rw [← expand_congr hc]; exact hp4, ?_⟩
    intro c hc'
    rw [← hc c hc']; exact r c hc'

/-- consistent loop state -/
structure Inv (ds : List CDecl) (env : Env) (p : List CDecl) : Prop where
  built : Built ds env
  sub : ∀ d, d ∈ p → d ∈ ds
  nodup : (declNames p).Nodup
  fresh : ∀ n, n ∈ declNames p → env.get n = none

theorem sweep_total {E : Env} (R : Ref ds E) {env : Env} {p : List CDecl} (I : Inv ds env p) :
    ∃ e r, sweep env p = some (e, r) := by
  fun_induction sweep env p with
  | case1 env => exact ⟨_, _, rfl⟩
  | case2 env n body rest hn =>
    have := I.fresh n (by simp [declNames])
    simp [this] at hn
  | case3 env n body rest hn he =>
    exfalso
    obtain ⟨ms, _, hfull, hrefs⟩ := R.full (I.sub _ (List.mem_cons_self ..))
    obtain ⟨msP, dP, hP, _⟩ := expand_partial (R.sub I.built) hrefs hfull [] false (fun x hx => hx)
    rw [he] at hP; cases hP
  | case4 env n body rest hn ms he ih =>
    have hn' : env.get n = none := by simpa using hn
    have hnd := I.nodup
    simp only [declNames, List.map_cons, List.nodup_cons] at hnd
    apply ih
    refine ⟨Built.snoc I.built (I.sub _ (List.mem_cons_self ..)) hn' he,
      fun d hd => I.sub d (List.mem_cons_of_mem _ hd), hnd.2, ?_⟩
    intro k hk
    rw [Env.get_append, I.fresh k (by simp only [declNames, List.map_cons]; exact List.mem_cons_of_mem _ hk)]
    have : n ≠ k := fun e => hnd.1 (e ▸ hk)
    simp [this]
  | case5 env n body rest hn ms he hs ih =>
    have hnd := I.nodup
    simp only [declNames, List.map_cons, List.nodup_cons] at hnd
    obtain ⟨e, r, h⟩ := ih ⟨I.built, fun d hd => I.sub d (List.mem_cons_of_mem _ hd), hnd.2,
      fun k hk => I.fresh k (by simp only [declNames, List.map_cons]; exact List.mem_cons_of_mem _ hk)⟩
    rw [hs] at h; cases h
  | case6 env n body rest hn ms he e p hs ih => exact ⟨_, _, rfl⟩

/-- the first entry of `E` (in resolution order) whose name satisfies `P` -/
theorem Built.first {E : Env} (h : Built ds E) (P : String → Prop) :
    (∃ n, n ∈ envNames E ∧ P n) →
    ∃ pre n body ms, Built ds pre ∧ (n, body) ∈ ds ∧ P n ∧
      expandBody pre body [] false = .done ms false ∧ ∀ k, k ∈ envNames pre → ¬ P k := by
  induction h with
  | nil => rintro ⟨n, hn, _⟩; cases hn
  | @snoc env n0 body0 ms0 hb hm hn he ih =>
    rintro ⟨n, hn', hP⟩
    by_cases hex : ∃ k, k ∈ envNames env ∧ P k
    · exact ih hex
    · simp only [envNames, List.map_append, List.mem_append, List.map_cons, List.map_nil,
        List.mem_singleton] at hn'
      rcases hn' with hn' | hn'
      · exact absurd ⟨n, hn', hP⟩ hex
      · subst hn'
        exact ⟨env, n, body0, ms0, hb, hm, hP, he, fun k hk hPk => hex ⟨k, hk, hPk⟩⟩

theorem sweep_progress {E : Env} (R : Ref ds E) {env : Env} {p : List CDecl} (I : Inv ds env p)
    (hcov : ∀ n, n ∈ declNames ds → n ∈ envNames env ∨ n ∈ declNames p) (hne : p ≠ [])
    {e : Env} {r : List CDecl} (hs : sweep env p = some (e, r)) : r.length < p.length := by
  obtain ⟨hle, hst⟩ := sweep_stuck hs
  by_cases heq : r.length = p.length
  · exfalso
    have hall := hst heq
    obtain ⟨d0, hd0⟩ := List.exists_mem_of_ne_nil p hne
    have hd0n : d0.1 ∈ declNames p := List.mem_map.mpr ⟨d0, hd0, rfl⟩
    have hd0E : d0.1 ∈ envNames E := R.complete _ (List.mem_map.mpr ⟨d0, I.sub d0 hd0, rfl⟩)
    obtain ⟨pre, n, body, ms, hpre, hm, hP, hexp, hmin⟩ :=
      R.built.first (fun k => k ∈ declNames p) ⟨d0.1, hd0E, hd0n⟩
    obtain ⟨d, hd, hdn⟩ := List.mem_map.mp hP
    obtain ⟨dn, dbody⟩ := d
    simp only at hdn; subst hdn
    have : dbody = body := decl_unique R.nodup (I.sub _ hd) hm
    subst this
    obtain ⟨ms', hdef⟩ := hall _ hd
    have hrefs : ∀ c, c ∈ refs dbody → (env.get c).isSome = true := by
      intro c hc
      have hcpre : c ∈ envNames pre := get_isSome_iff.mp ((expand_nodefer pre hexp).2 c hc)
      rcases hcov c (hpre.names_sub c hcpre) with h | h
      · exact get_isSome_iff.mpr h
      · exact absurd h (hmin c hcpre)
    have := expand_allrefs env hrefs hdef
    simp at this
  · omega

theorem sweep_inv {env : Env} {p : List CDecl} (I : Inv ds env p)
    (hcov : ∀ n, n ∈ declNames ds → n ∈ envNames env ∨ n ∈ declNames p)
    {e : Env} {r : List CDecl} (hs : sweep env p = some (e, r)) :
    Inv ds e r ∧ ∀ n, n ∈ declNames ds → n ∈ envNames e ∨ n ∈ declNames r := by
  obtain ⟨h1, h2, h3, _⟩ := sweep_sound hs I.built I.sub
  have hnd : (envNames env ++ declNames p).Nodup := by
    rw [List.nodup_append]
    refine ⟨I.built.nodup, I.nodup, ?_⟩
    intro a ha b hb e
    subst e
    exact get_none_iff.mp (I.fresh a hb) ha
  have hnd' := (h3.nodup_iff).mpr hnd
  rw [List.nodup_append] at hnd'
  refine ⟨⟨h1, fun d hd => I.sub d (h2 d hd), hnd'.2.1, ?_⟩, ?_⟩
  · intro n hn
    apply get_none_iff.mpr
    intro hne
    exact hnd'.2.2 n hne n hn rfl
  · intro n hn
    have := (h3.mem_iff (a := n)).mpr (by simpa [List.mem_append] using hcov n hn)
    simpa [List.mem_append] using this

theorem loop_total {E : Env} (R : Ref ds E) {env : Env} {p : List CDecl} (I : Inv ds env p)
    (hcov : ∀ n, n ∈ declNames ds → n ∈ envNames env ∨ n ∈ declNames p) :
    ∃ E', resolveLoop env p = .ok E' := by
  fun_induction resolveLoop env p with
  | case1 env p he => exact ⟨_, rfl⟩
  | case2 env p hne hs =>
    obtain ⟨e, r, h⟩ := sweep_total R I
    rw [hs] at h; cases h
  | case3 env p hne e r hs hlt ih =>
    obtain ⟨I', hcov'⟩ := sweep_inv I hcov hs
    exact ih I' hcov'
  | case4 env p hne e r hs hlt =>
    exact absurd (sweep_progress R I hcov (by simpa using hne) hs) hlt

theorem resolve_ref {E : Env} (h : resolve ds = .ok E) : Ref ds E := by
  obtain ⟨hb, hp⟩ := loop_sound (ds := ds) h Built.nil (fun d hd => hd)
  simp only [envNames, List.map_nil, List.nil_append] at hp
  refine ⟨hb, fun n hn => (hp.mem_iff).mpr hn, (hp.nodup_iff).mp hb.nodup⟩

/-- the set of resolved components, and the members of each, do not depend on the order of the
    declarations -/
theorem resolve_perm_aux {ds' : List CDecl} {E : Env} (hp : ds'.Perm ds) (h : resolve ds = .ok E) :
    ∃ E', resolve ds' = .ok E' ∧ ∀ n, E'.get n = E.get n := by
  have R := resolve_ref h
  have hnames : (declNames ds').Perm (declNames ds) := hp.map _
  have I : Inv ds [] ds' := ⟨Built.nil, fun d hd => hp.subset hd, (hnames.nodup_iff).mpr R.nodup,
    fun _ _ => rfl⟩
  have hcov : ∀ n, n ∈ declNames ds → n ∈ envNames ([] : Env) ∨ n ∈ declNames ds' :=
    fun n hn => Or.inr ((hnames.mem_iff).mpr hn)
  obtain ⟨E', hE'⟩ := loop_total R I hcov
  refine ⟨E', hE', ?_⟩
  obtain ⟨hb', hp'⟩ := loop_sound (ds := ds) hE' Built.nil (fun d hd => hp.subset hd)
  simp only [envNames, List.map_nil, List.nil_append] at hp'
  intro n
  by_cases hn : n ∈ declNames ds
  · have h1 := get_isSome_iff.mpr (R.complete n hn)
    have h2 : (E'.get n).isSome = true :=
      get_isSome_iff.mpr ((hp'.mem_iff).mpr ((hnames.mem_iff).mpr hn))
    cases hE : E.get n with
    | none => simp [hE] at h1
    | some x =>
      cases hE2 : E'.get n with
      | none => simp [hE2] at h2
      | some y => rw [hb'.agree R.nodup R.built hE2 hE]
  · have a : E.get n = none := get_none_iff.mpr (fun hm => hn (R.built.names_sub n hm))
    have b : E'.get n = none := get_none_iff.mpr (fun hm => hn (hb'.names_sub n hm))
    rw [a, b]

end AsyncFix.Model.SchemaResolve
