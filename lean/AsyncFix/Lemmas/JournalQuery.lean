/-
C13: the reading calls – ORDER BY, range queries, get_all_msgs, the two session-loading paths.
-/
import AsyncFix.Lemmas.JournalRefine
namespace AsyncFix.Model.Journal

/-! ### ORDER BY seqNo -/

theorem mem_insertSeq {a r : MsgRow} {l : List MsgRow} : a ∈ insertSeq r l ↔ a = r ∨ a ∈ l := by
  induction l with
  | nil => simp [insertSeq]
  | cons x xs ih =>
    simp only [insertSeq]
    split
    · simp
    · simp only [List.mem_cons, ih]
      constructor
      · rintro (h | h | h) <;> simp [h]
      · rintro (h | h | h) <;> simp [h]

theorem mem_sortSeq {a : MsgRow} {l : List MsgRow} : a ∈ sortSeq l ↔ a ∈ l := by
  induction l with
  | nil => simp [sortSeq]
  | cons x xs ih => simp only [sortSeq, mem_insertSeq, ih, List.mem_cons]

theorem insertSeq_sorted {r : MsgRow} {l : List MsgRow}
    (hl : l.Pairwise fun a b => a.seq < b.seq) (hr : ∀ a ∈ l, a.seq ≠ r.seq) :
    (insertSeq r l).Pairwise fun a b => a.seq < b.seq := by
  induction l with
  | nil => simp [insertSeq]
  | cons x xs ih =>
    rw [List.pairwise_cons] at hl
    simp only [insertSeq]
    split
    · rename_i hlt
      refine List.pairwise_cons.mpr ⟨?_, List.pairwise_cons.mpr hl⟩
      intro a ha
      rcases List.mem_cons.mp ha with rfl | ha
      · exact hlt
      · have := hl.1 a ha; omega
    · rename_i hge
      refine List.pairwise_cons.mpr ⟨?_, ih hl.2 (fun a ha => hr a (List.mem_cons_of_mem _ ha))⟩
      intro a ha
      rcases mem_insertSeq.mp ha with rfl | ha
      · have := hr x (List.mem_cons_self ..); omega
      · exact hl.1 a ha

theorem sortSeq_sorted {l : List MsgRow} (hd : l.Pairwise fun a b => a.seq ≠ b.seq) :
    (sortSeq l).Pairwise fun a b => a.seq < b.seq := by
  induction l with
  | nil => simp [sortSeq]
  | cons x xs ih =>
    rw [List.pairwise_cons] at hd
    simp only [sortSeq]
    apply insertSeq_sorted (ih hd.2)
    intro a ha
    exact fun h => hd.1 a (mem_sortSeq.mp ha) h.symm

/-! ### ORDER BY rowid: the table is held in rowid order -/

theorem sortRowid_sorted {l : List MsgRow} (hs : l.Pairwise fun a b => a.rowid < b.rowid) :
    sortRowid l = l := by
  induction l with
  | nil => rfl
  | cons x xs ih =>
    rw [List.pairwise_cons] at hs
    simp only [sortRowid, ih hs.2]
    cases xs with
    | nil => rfl
    | cons y ys => simp [insertRowid, hs.1 y (List.mem_cons_self ..)]

/-! ### recover_messages -/

theorem filterMap_of_forall {α β γ} (g : α → β) (f : β → Option γ) (v : α → γ) (l : List α)
    (h : ∀ a ∈ l, f (g a) = some (v a)) : (l.map g).filterMap f = l.map v := by
  induction l with
  | nil => rfl
  | cons x xs ih =>
    simp only [List.map_cons, List.filterMap_cons, h x (List.mem_cons_self ..)]
    rw [ih (fun a ha => h a (List.mem_cons_of_mem _ ha))]

/-- the range query returns exactly the abstract range -/
theorem selRange_isRange {j : Journal} (hinv : JInv j) (key : Int) (dir : Dir) (lo hi : BVal) :
    (abs j).IsRange key dir lo hi (selRange j key dir lo hi) := by
  let p : MsgRow → Bool := fun r => r.sid == key && r.dir == dir && lo.le r.seq && hi.ge r.seq
  have hp : ∀ r, p r = true ↔ r.sid = key ∧ r.dir = dir ∧ lo.le r.seq = true ∧ hi.ge r.seq = true := by
    intro r; simp [p, and_assoc]
  have hsub : ∀ r ∈ sortSeq (j.msgs.filter p), r ∈ j.msgs ∧ p r = true := by
    intro r hr; exact List.mem_filter.mp (mem_sortSeq.mp hr)
  refine ⟨(sortSeq (j.msgs.filter p)).map (·.seq), ?_, ?_, ?_⟩
  · rw [List.pairwise_map]
    apply sortSeq_sorted
    apply (hinv.keyUnique.filter p).imp_of_mem
    intro a b ha hb hne heq
    have ha' := (hp a).mp (List.mem_filter.mp ha).2
    have hb' := (hp b).mp (List.mem_filter.mp hb).2
    exact hne ⟨heq, ha'.1.trans hb'.1.symm, ha'.2.1.trans hb'.2.1.symm⟩
  · intro n
    simp only [List.mem_map]
    constructor
    · rintro ⟨r, hr, rfl⟩
      obtain ⟨hm, hpr⟩ := hsub r hr
      obtain ⟨h1, h2, h3, h4⟩ := (hp r).mp hpr
      refine ⟨h3, h4, ?_⟩
      have := store_of_mem hinv hm
      rw [h1, h2] at this
      simp [this]
    · rintro ⟨h3, h4, hs⟩
      obtain ⟨m, hm⟩ := Option.isSome_iff_exists.mp hs
      obtain ⟨r, hr, rfl, rfl, rfl, -⟩ := mem_of_store hm
      exact ⟨r, mem_sortSeq.mpr (List.mem_filter.mpr ⟨hr, (hp r).mpr ⟨rfl, rfl, h3, h4⟩⟩), rfl⟩
  · show (sortSeq (j.msgs.filter p)).map (·.msg) = _
    symm
    apply filterMap_of_forall
    intro r hr
    obtain ⟨hm, hpr⟩ := hsub r hr
    obtain ⟨h1, h2, -, -⟩ := (hp r).mp hpr
    have := store_of_mem hinv hm
    rwa [h1, h2] at this

/-! ### get_all_msgs -/

theorem selAll_filter {j : Journal} (hinv : JInv j) (keys : Option (List Int)) (dir : Option Dir) :
    selAll j keys dir =
      (j.msgs.filter fun r =>
        (match keys with | some ks => ks.contains r.sid | none => true) &&
        (match dir with | some d => r.dir == d | none => true)).map
        fun r => (r.seq, r.msg, r.dir.val, r.sid) := by
  simp only [selAll]
  rw [sortRowid_sorted (hinv.rowidAsc.filter _)]
  rfl

theorem selAll_all {j : Journal} (hinv : JInv j) :
    selAll j none none = j.msgs.map fun r => (r.seq, r.msg, r.dir.val, r.sid) := by
  rw [selAll_filter hinv]
  congr 1
  exact List.filter_eq_self.mpr (fun _ _ => rfl)

theorem dirVal_inj {a b : Dir} (h : a.val = b.val) : a = b := by
  cases a <;> cases b <;> simp_all [Dir.val]

/-- every stored message, and nothing else, is listed -/
theorem selAll_complete {j : Journal} (hinv : JInv j) (key : Int) (d : Dir) (n : Int) (m : Bytes) :
    (n, m, d.val, key) ∈ selAll j none none ↔ (abs j).store key d n = some m := by
  rw [selAll_all hinv]
  simp only [List.mem_map, Prod.mk.injEq]
  constructor
  · rintro ⟨r, hr, rfl, rfl, hd, rfl⟩
    have := store_of_mem hinv hr
    rwa [dirVal_inj hd] at this
  · intro h
    obtain ⟨r, hr, rfl, rfl, rfl, rfl⟩ := mem_of_store h
    exact ⟨r, hr, rfl, rfl, rfl, rfl⟩

/-! ### sessions() and create_or_load -/

theorem dict_fold (rows : List SessRow) (acc : List ((String × String) × Handle))
    (hacc : ∀ r ∈ rows, ∀ e ∈ acc, e.1 ≠ (r.target, r.sender))
    (hrows : rows.Pairwise fun a b => ¬(a.target = b.target ∧ a.sender = b.sender)) :
    rows.foldl (fun d r => dictSet d (r.target, r.sender) (handleOf r)) acc =
      acc ++ rows.map fun r => ((r.target, r.sender), handleOf r) := by
  induction rows generalizing acc with
  | nil => simp
  | cons x xs ih =>
    rw [List.pairwise_cons] at hrows
    have hno : acc.any (·.1 == (x.target, x.sender)) = false := by
      rw [List.any_eq_false]
      intro e he
      simpa using hacc x (List.mem_cons_self ..) e he
    have hset : dictSet acc (x.target, x.sender) (handleOf x) = acc ++ [((x.target, x.sender), handleOf x)] := by
      simp only [dictSet, hno, Bool.false_eq_true, if_false]
    rw [List.foldl_cons, hset, ih]
    · simp
    · intro r hr e he
      rcases List.mem_append.mp he with he | he
      · exact hacc r (List.mem_cons_of_mem _ hr) e he
      · simp only [List.mem_singleton] at he
        subst he
        intro heq
        simp only [Prod.mk.injEq] at heq
        exact hrows.1 r hr heq
    · exact hrows.2

/-- `sessions()` lists one entry per session row, in table order -/
theorem sessions_eq_map {j : Journal} (hinv : JInv j) :
    sessions j = j.sessions.map fun r => ((r.target, r.sender), handleOf r) := by
  unfold sessions
  rw [dict_fold _ _ (by simp) hinv.pairUnique]
  simp

theorem createOrLoad_existing {j : Journal} (hinv : JInv j) {r : SessRow} (hr : r ∈ j.sessions) :
    createOrLoad j r.target r.sender = (j, .handle (handleOf r)) := by
  have hf := (sess_of_mem hinv hr).1
  have hany : j.sessions.any (·.isPair r.target r.sender) = true :=
    List.any_eq_true.mpr ⟨r, hr, (isPair_iff ..).mpr ⟨rfl, rfl⟩⟩
  have hsel : ∃ rest, selSession j r.target r.sender = r :: rest := by
    have := @selSession_find j r.target r.sender
    rw [hf] at this
    cases h : selSession j r.target r.sender with
    | nil => rw [h] at this; cases this
    | cons x xs => rw [h] at this; simp only [List.head?_cons, Option.some.injEq] at this; exact ⟨xs, by rw [this]⟩
  obtain ⟨rest, hsel⟩ := hsel
  simp only [createOrLoad, insSession, hany, hsel, if_true]

theorem createOrLoad_new {j : Journal} {t s : String} (hno : j.sessions.any (·.isPair t s) = false) :
    createOrLoad j t s =
      ({ j with sessions := j.sessions ++ [⟨j.nextSid, t, s, 0, 0⟩], nextSid := j.nextSid + 1 },
        .handle ⟨j.nextSid, t, s, 1, 1⟩) := by
  simp only [createOrLoad, insSession, hno, Bool.false_eq_true, if_false]

/-- the successful way through `persist_msg` -/
theorem persist_ok {j : Journal} {msg : Bytes} {h : Handle} {dir : Dir} {n : Int}
    (hn : findSeqNo msg = some n) (hres : (persist j msg h dir).2 = .none) :
    fits n = true ∧ fits h.key = true ∧ j.msgs.any (·.isKey n h.key dir) = false ∧
    (persist j msg h dir).1 =
      updCounter { j with msgs := j.msgs ++ [⟨maxRowid j.msgs + 1, n, h.key, dir, msg⟩] } dir n h.key := by
  unfold persist at hres ⊢
  rw [hn] at hres ⊢
  simp only at hres ⊢
  by_cases hf : (!(fits n && fits h.key)) = true
  · simp only [hf, if_true] at hres; cases hres
  · have hf' : fits n = true ∧ fits h.key = true := by simpa using hf
    simp only [hf, if_false, Bool.false_eq_true] at hres ⊢
    by_cases hany : j.msgs.any (·.isKey n h.key dir) = true
    · simp only [insMsg, hany, if_true] at hres; cases hres
    · have hany' : j.msgs.any (·.isKey n h.key dir) = false := by simpa using hany
      simp only [insMsg, hany', Bool.false_eq_true, if_false]
      exact ⟨hf'.1, hf'.2, trivial, trivial⟩

/-- the four ways through `set_seq_num` -/
theorem setSeqNum_cases (j : Journal) (h : Handle) (out inn : Option Int) :
    (setSeqNum j h out inn = (j, .set h (some .assertion))) ∨
    (setSeqNum j h out inn = (j, .set { h with nextOut := effOut h out } (some .assertion))) ∨
    (setSeqNum j h out inn =
        (j, .set { h with nextOut := effOut h out, nextIn := effIn h inn } (some .overflow))) ∨
    (fits (effIn h inn) = true ∧ fits (effOut h out) = true ∧
      fits (effIn h inn - 1) = true ∧ fits (effOut h out - 1) = true ∧ fits h.key = true ∧
      setSeqNum j h out inn =
        (delFrom (delFrom (updBoth j (effIn h inn - 1) (effOut h out - 1) h.key) h.key (effIn h inn) .inbound)
            h.key (effOut h out) .outbound,
          .set { h with nextOut := effOut h out, nextIn := effIn h inn } none)) := by
  unfold setSeqNum
  by_cases h1 : out.any (· ≤ 0) = true
  · simp [h1]
  by_cases h2 : inn.any (· ≤ 0) = true
  · simp [h1, h2]
  by_cases h3 : (fits (effIn h inn - 1) && fits (effOut h out - 1) && fits h.key &&
      fits (effIn h inn) && fits (effOut h out)) = true
  · have h3' := h3
    simp only [Bool.and_eq_true] at h3'
    simp [h1, h2, h3'.1.1.1.1, h3'.1.1.1.2, h3'.1.1.2, h3'.1.2, h3'.2]
  · simp [h1, h2, h3]

end AsyncFix.Model.Journal
