import AsyncFix.Lemmas.SessionPlain

/-!
Session family: what `disconnect` does, and the invariant "`on_disconnect` calls = transitions into a
disconnected state" (`RAB`) for every handler.
-/
namespace AsyncFix.Session

open AsyncFix.Generated.ConnEnum

/-! ### consequences of the plain invariant -/

theorem plain_track_up {e : List Effect} (h : e.all plainUp = true) {s : Nat} (hs : isDisc s = false) :
    isDisc (track s e) = false := by
  induction e generalizing s with
  | nil => exact hs
  | cons x xs ih =>
    simp only [List.all_cons, Bool.and_eq_true] at h
    cases x <;> simp_all [track, plainUp]

theorem plain_nDisc {e : List Effect} (h : e.all plainUp = true) : nDisc e = 0 := by
  induction e with
  | nil => rfl
  | cons x xs ih =>
    simp only [List.all_cons, Bool.and_eq_true] at h
    cases x <;> simp_all [nDisc, plainUp]

theorem plain_nTrans {e : List Effect} (h : e.all plainUp = true) (s : Nat) : nTrans s e = 0 := by
  induction e generalizing s with
  | nil => rfl
  | cons x xs ih =>
    simp only [List.all_cons, Bool.and_eq_true] at h
    cases x <;> simp_all [nTrans, plainUp]

/-! ### `disconnect`, evaluated -/

/-- the part of `disconnect` after the optional Logout: close, forget the transport, state, hook -/
def discTail (c1 : Conn) (d : Nat) : Conn × List Effect :=
  ({ c1 with sock := false, state := d, wasActive := c1.wasActive || d == st_ACTIVE },
   (if c1.sock then [Effect.closeSocket] else []) ++ [.onState d, .onDisconnect])

/-- the watchdog fields `disconnect` resets first -/
def discReset (c : Conn) : Conn := { c with testReqId := none, lastTime := 0, maxResend := 0 }

theorem disconnect_of_disc (env : Env) (d : Nat) (lo : Option String) (c : Conn)
    (h : isDisc c.state = true) : disconnect env d lo c = ⟨.ok (), c, []⟩ := by
  have h' : ¬ c.state > st_DISCONNECTED_BROKEN_CONN := by simpa [isDisc] using h
  simp [disconnect, bind, M.bind', h']

theorem disconnect_bad_target (env : Env) (d : Nat) (lo : Option String) (c : Conn)
    (h : isDisc c.state = false) (hd : isDisc d = false) :
    disconnect env d lo c = ⟨.error .assertion, c, []⟩ := by
  have h' : c.state > st_DISCONNECTED_BROKEN_CONN := by simpa [isDisc] using h
  have hd' : ¬ d ≤ st_DISCONNECTED_BROKEN_CONN := by simpa [isDisc] using hd
  simp [disconnect, bind, M.bind', h', hd', M.assert_apply]

theorem disconnect_plain_eval (env : Env) (d : Nat) (c : Conn)
    (h : isDisc c.state = false) (hd : isDisc d = true) :
    disconnect env d none c = ⟨.ok (), (discTail (discReset c) d).1, (discTail (discReset c) d).2⟩ := by
  have h' : c.state > st_DISCONNECTED_BROKEN_CONN := by simpa [isDisc] using h
  have hd' : d ≤ st_DISCONNECTED_BROKEN_CONN := by simpa [isDisc] using hd
  cases hs : c.sock <;>
    simp [disconnect, bind, M.bind', h', hd', M.assert_apply, stateSet, discTail, discReset, hs]

theorem disconnect_logout_eval (env : Env) (d : Nat) (text : String) (c : Conn)
    (h : isDisc c.state = false) (hd : isDisc d = true) :
    disconnect env d (some text) c =
      (match sendMsg env (logoutMsg text) (discReset c) with
       | ⟨.error ex, c1, e1⟩ => ⟨.error ex, c1, e1⟩
       | ⟨.ok _, c1, e1⟩ => ⟨.ok (), (discTail c1 d).1, e1 ++ (discTail c1 d).2⟩) := by
  have h' : c.state > st_DISCONNECTED_BROKEN_CONN := by simpa [isDisc] using h
  have hd' : d ≤ st_DISCONNECTED_BROKEN_CONN := by simpa [isDisc] using hd
  simp only [disconnect, bind, M.bind', h', hd', M.assert_apply, stateSet, discTail, M.get_apply,
    M.modify_apply, M.emit_apply, if_true, decide_true, discReset]
  rcases sendMsg env (logoutMsg text) _ with ⟨r, c1, e1⟩
  cases r with
  | error ex => rfl
  | ok u => cases hs : c1.sock <;> simp [hs]

end AsyncFix.Session
