import AsyncFix.Lemmas.SessionPlain

/-!
Session family: what `disconnect` does, and the invariant "`on_disconnect` calls = transitions into a
disconnected state" (`RAB`) for every handler.
-/
namespace AsyncFix.Session

open AsyncFix.Generated.ConnEnum

/-! ### consequences of the plain invariant -/

theorem plain_track_up {e : List Effect} (h : e.all plainUp = true) {s : Nat} (hs : isDisc s = false) :
    isDisc (track s e) = false := by
  induction e generalizing s with
  | nil => exact hs
  | cons x xs ih =>
    simp only [List.all_cons, Bool.and_eq_true] at h
    cases x <;> simp_all [track, plainUp]

theorem plain_nDisc {e : List Effect} (h : e.all plainUp = true) : nDisc e = 0 := by
  induction e with
  | nil => rfl
  | cons x xs ih =>
    simp only [List.all_cons, Bool.and_eq_true] at h
    cases x <;> simp_all [nDisc, plainUp]

theorem plain_nTrans {e : List Effect} (h : e.all plainUp = true) (s : Nat) : nTrans s e = 0 := by
  induction e generalizing s with
  | nil => rfl
  | cons x xs ih =>
    simp only [List.all_cons, Bool.and_eq_true] at h
    cases x <;> simp_all [nTrans, plainUp]

/-! ### `disconnect`, evaluated -/

/-- the part of `disconnect` after the optional Logout: close, forget the transport, state, hook -/
def discTail (c1 : Conn) (d : Nat) : Conn × List Effect :=
  ({ c1 with sock := false, state := d, wasActive := c1.wasActive || d == st_ACTIVE },
   (if c1.sock then [Effect.closeSocket] else []) ++ [.onState d, .onDisconnect])

/-- the watchdog fields `disconnect` resets first -/
def discReset (c : Conn) : Conn := { c with testReqId := none, lastTime := 0, maxResend := 0 }

theorem disconnect_of_disc (env : Env) (d : Nat) (lo : Option String) (c : Conn)
    (h : isDisc c.state = true) : disconnect env d lo c = ⟨.ok (), c, []⟩ := by
  have h' : ¬ c.state > st_DISCONNECTED_BROKEN_CONN := by simpa [isDisc] using h
  simp [disconnect, bind, M.bind', h']

theorem disconnect_bad_target (env : Env) (d : Nat) (lo : Option String) (c : Conn)
    (h : isDisc c.state = false) (hd : isDisc d = false) :
    disconnect env d lo c = ⟨.error .assertion, c, []⟩ := by
  have h' : c.state > st_DISCONNECTED_BROKEN_CONN := by simpa [isDisc] using h
  have hd' : ¬ d ≤ st_DISCONNECTED_BROKEN_CONN := by simpa [isDisc] using hd
  simp [disconnect, bind, M.bind', h', hd', M.assert_apply]

theorem disconnect_plain_eval (env : Env) (d : Nat) (c : Conn)
    (h : isDisc c.state = false) (hd : isDisc d = true) :
    disconnect env d none c = ⟨.ok (), (discTail (discReset c) d).1, (discTail (discReset c) d).2⟩ := by
  have h' : c.state > st_DISCONNECTED_BROKEN_CONN := by simpa [isDisc] using h
  have hd' : d ≤ st_DISCONNECTED_BROKEN_CONN := by simpa [isDisc] using hd
  cases hs : c.sock <;>
    simp [disconnect, bind, M.bind', h', hd', M.assert_apply, stateSet, discTail, discReset, hs]

theorem disconnect_logout_eval (env : Env) (d : Nat) (text : String) (c : Conn)
    (h : isDisc c.state = false) (hd : isDisc d = true) :
    disconnect env d (some text) c =
      (match sendMsg env (logoutMsg text) (discReset c) with
       | ⟨.error ex, c1, e1⟩ => ⟨.ok (), (discTail c1 d).1, e1 ++ [.caught ex] ++ (discTail c1 d).2⟩
       | ⟨.ok _, c1, e1⟩ => ⟨.ok (), (discTail c1 d).1, e1 ++ (discTail c1 d).2⟩) := by
  have h' : c.state > st_DISCONNECTED_BROKEN_CONN := by simpa [isDisc] using h
  have hd' : d ≤ st_DISCONNECTED_BROKEN_CONN := by simpa [isDisc] using hd
  simp only [disconnect, swallow, M.tryCatch_apply, bind, M.bind', h', hd', M.assert_apply, stateSet, discTail,
    M.get_apply, M.modify_apply, M.emit_apply, if_true, decide_true, discReset]
  rcases sendMsg env (logoutMsg text) _ with ⟨r, c1, e1⟩
  cases r with
  | error ex => cases hs : c1.sock <;> simp [bind, M.bind', hs]
  | ok u => cases hs : c1.sock <;> simp [bind, M.bind', hs]

/-! ### `on_disconnect` calls = reported transitions into a disconnected state -/

def notConn : Effect → Bool
  | .onConnect => false
  | _ => true

/-- post-state = tracked state, as many `onDisconnect` as transitions connected → disconnected, and no
`onConnect` (only transport set-up emits that) -/
def RAB (c c' : Conn) (e : List Effect) : Prop :=
  c'.state = track c.state e ∧ nDisc e = nTrans c.state e ∧ e.all notConn = true

instance : Compositional RAB where
  refl := fun c => ⟨rfl, rfl, rfl⟩
  trans := by
    intro c c1 c2 e1 e2 h1 h2
    refine ⟨?_, ?_, ?_⟩
    · rw [track_append, ← h1.1, h2.1]
    · rw [nDisc_append, nTrans_append, ← h1.1, h1.2.1, h2.2.1]
    · rw [List.all_append, h1.2.2, h2.2.2]; rfl

theorem plain_notConn {e : List Effect} (h : e.all plainUp = true) : e.all notConn = true := by
  induction e with
  | nil => rfl
  | cons x xs ih =>
    simp only [List.all_cons, Bool.and_eq_true] at h ⊢
    exact ⟨by cases x <;> simp_all [plainUp, notConn], ih h.2⟩

theorem RPlain.toAB {α : Type} {x : M α} (h : M.Rel RPlain x) : M.Rel RAB x :=
  ⟨fun c => ⟨(h.out c).1, by rw [plain_nDisc (h.out c).2, plain_nTrans (h.out c).2],
    plain_notConn (h.out c).2⟩⟩

theorem RAB.modify {f : Conn → Conn} (h : ∀ c, (f c).state = c.state) :
    M.Rel RAB (M.modify f) := ⟨fun c => ⟨h c, rfl, rfl⟩⟩

/-- emitting an effect other than `onState` / `onDisconnect` / `onConnect` -/
theorem RAB.emit {e : Effect} (h : ∀ s, track s [e] = s := by intro s; rfl)
    (h1 : nDisc [e] = 0 := by rfl) (h2 : ∀ s, nTrans s [e] = 0 := by intro s; rfl)
    (h3 : notConn e = true := by rfl) :
    M.Rel RAB (M.emit e) :=
  ⟨fun c => ⟨(h c.state).symm, by show nDisc [e] = nTrans c.state [e]; rw [h1, h2],
    by show [e].all notConn = true; simp [h3]⟩⟩

theorem discTail_AB (c1 : Conn) (d : Nat) (h1 : isDisc c1.state = false) (hd : isDisc d = true) :
    RAB c1 (discTail c1 d).1 (discTail c1 d).2 := by
  cases hs : c1.sock <;> simp [discTail, RAB, track, nDisc, nTrans, hs, h1, hd, notConn]

theorem disconnect_AB (env : Env) (d : Nat) (lo : Option String) : M.Rel RAB (disconnect env d lo) := by
  constructor
  intro c
  cases h : isDisc c.state with
  | true => rw [disconnect_of_disc env d lo c h]; exact Compositional.refl c
  | false =>
    cases hd : isDisc d with
    | false => rw [disconnect_bad_target env d lo c h hd]; exact Compositional.refl c
    | true =>
      cases lo with
      | none =>
        rw [disconnect_plain_eval env d c h hd]
        exact discTail_AB (discReset c) d h hd
      | some text =>
        rw [disconnect_logout_eval env d text c h hd]
        have hp := (sendMsg_plain env (logoutMsg text)).out (discReset c)
        have hab := (RPlain.toAB (sendMsg_plain env (logoutMsg text))).out (discReset c)
        rcases hsend : sendMsg env (logoutMsg text) (discReset c) with ⟨r, c1, e1⟩
        rw [hsend] at hp hab
        have hup : isDisc c1.state = false := by
          have := plain_track_up hp.2 (s := (discReset c).state) h
          rw [← hp.1] at this; exact this
        cases r with
        | error ex =>
          have hc : RAB c1 c1 [Effect.caught ex] := ⟨rfl, rfl, rfl⟩
          have := Compositional.trans (c := c) (c1 := c1) (Compositional.trans (c := c) hab hc)
            (discTail_AB c1 d hup hd)
          simpa [List.append_assoc] using this
        | ok u =>
          exact Compositional.trans (c := c) (c1 := c1) hab (discTail_AB c1 d hup hd)

theorem stateSet_AB {s : Nat} (h : isDisc s = false) : M.Rel RAB (stateSet s) :=
  RPlain.toAB (stateSet_plain h)

theorem processLogon_AB (env : Env) (m : Msg) : M.Rel RAB (processLogon env m) := by
  unfold processLogon
  rel_tac [RAB.modify, RAB.emit, disconnect_AB, stateSet_AB, RPlain.toAB (sendMsg_plain _ _)]

theorem processLogout_AB (env : Env) (m : Msg) : M.Rel RAB (processLogout env m) := by
  unfold processLogout
  rel_tac [RAB.modify, RAB.emit, disconnect_AB]

theorem processHeartbeat_AB (env : Env) (m : Msg) : M.Rel RAB (processHeartbeat env m) := by
  unfold processHeartbeat
  rel_tac [RAB.modify, RAB.emit, disconnect_AB]

attribute [local irreducible] processLogon processLogout processHeartbeat checkSeqnumGaps processSeqreset

theorem processHead_AB (env : Env) (m : Msg) : M.Rel RAB (processHead env m) := by
  unfold processHead
  rel_tac [RAB.modify, RAB.emit, disconnect_AB, stateSet_AB, processLogon_AB, processLogout_AB,
    RPlain.toAB (processSeqreset_plain _), RPlain.toAB (checkSeqnumGaps_plain _ _)]

theorem processDispatch_AB (env : Env) (sr : Msg → Bool) (m : Msg) (v : Bool) (n : Int) :
    M.Rel RAB (processDispatch env sr m v n) := by
  unfold processDispatch
  rel_tac [RAB.modify, RAB.emit, processHeartbeat_AB, RPlain.toAB (processResend_plain _ _ _),
    RPlain.toAB (processTestRequest_plain _ _)]

theorem swallow_AB {α : Type} (d : α) {x : M α} (h : M.Rel RAB x) : M.Rel RAB (swallow d x) := by
  unfold swallow
  rel_tac [RAB.emit, h]

theorem processMessage_AB (env : Env) (sr : Msg → Bool) (m : Msg) :
    M.Rel RAB (processMessage env sr m) := by
  unfold processMessage
  rel_tac [RAB.emit, disconnect_AB, swallow_AB, processHead_AB, processDispatch_AB,
    RPlain.toAB (validateIntegrity_plain _), RPlain.toAB (finalizeMessage_plain _ _)]

theorem tickBody_AB (env : Env) : M.Rel RAB (tickBody env) := by
  unfold tickBody
  rel_tac [RAB.modify, RAB.emit, disconnect_AB, RPlain.toAB (sendTestReq_plain _)]

end AsyncFix.Session
