import AsyncFix.Lemmas.SessionRel

/-!
Session family: the "plain" trace invariant of all handlers that never disconnect.

`RPlain c c' e`: the state after the handler is the one its `on_state_change` calls report
(`track`), and the trace contains no `deliver`, no `onDisconnect`, no `onConnect`, and only
`onState s` with `s` a connected state.  Proved for: `stateSet` (connected target), `encodeSeq`,
`sendGate`, `sendCore`, `sendMsg`, `sendTestReq`, `validateIntegrity`, `setSeqNum`,
`checkSeqnumGaps`, `processSeqreset`, `setNextNumIn`, `persistInbound`, `finalizeMessage`,
`processTestRequest`, `resendLoop`, `processResend`, `resetSeqNum`.
-/
namespace AsyncFix.Session

open AsyncFix.Generated.ConnEnum

def plainUp : Effect → Bool
  | .deliver _ => false
  | .onDisconnect => false
  | .onConnect => false
  | .onState s => !isDisc s
  | _ => true

def RPlain (c c' : Conn) (e : List Effect) : Prop :=
  c'.state = track c.state e ∧ e.all plainUp = true

instance : Compositional RPlain where
  refl := fun c => ⟨rfl, rfl⟩
  trans := by
    intro c c1 c2 e1 e2 h1 h2
    refine ⟨?_, ?_⟩
    · rw [track_append, ← h1.1, h2.1]
    · rw [List.all_append, h1.2, h2.2]; rfl

theorem RPlain.modify {f : Conn → Conn} (h : ∀ c, (f c).state = c.state) :
    M.Rel RPlain (M.modify f) := ⟨fun c => ⟨h c, rfl⟩⟩

/-- emitting an effect other than `onState` -/
theorem RPlain.emit {e : Effect} (h : plainUp e = true) (h' : ∀ s, track s [e] = s := by intro s; rfl) :
    M.Rel RPlain (M.emit e) := by
  constructor
  intro c
  exact ⟨(h' c.state).symm, by simp [h]⟩

/-- the tactic that walks a handler body: structural rules, then the callee lemmas given -/
syntax "rel_tac" "[" term,* "]" : tactic
open Lean in
macro_rules
  | `(tactic| rel_tac [$ls,*]) => do
    let user ← ls.getElems.mapM fun l => `(tactic| apply $l)
    let builtin ← #[``M.Rel.pure, ``M.Rel.throw, ``M.Rel.get, ``M.Rel.liftE, ``M.Rel.assert, ``M.Rel.int].mapM
      fun n => `(tactic| apply $(mkIdent n))
    let tail ← #[``M.Rel.bind, ``M.Rel.ite, ``M.Rel.tryCatch].mapM fun n => `(tactic| apply $(mkIdent n))
    let all := #[← `(tactic| intro _), ← `(tactic| rfl)] ++ builtin ++ user ++ tail ++ #[← `(tactic| split)]
    `(tactic| repeat' (first $[| $all:tactic]*))

theorem stateSet_plain {s : Nat} (h : isDisc s = false) : M.Rel RPlain (stateSet s) := by
  constructor
  intro c
  simp [stateSet, RPlain, track, plainUp, h, bind, M.bind']

attribute [local irreducible] M.bind' M.pure' M.throw M.tryCatch M.get M.modify M.emit M.liftE
  M.assert M.int

theorem encodeSeq_plain (m : Msg) : M.Rel RPlain (encodeSeq m) := by
  unfold encodeSeq
  rel_tac [RPlain.modify]

theorem sendGate_plain (m : Msg) : M.Rel RPlain (sendGate m) := by
  unfold sendGate
  rel_tac [RPlain.modify, stateSet_plain]

theorem sendCore_plain (env : Env) (m : Msg) : M.Rel RPlain (sendCore env m) := by
  unfold sendCore
  rel_tac [RPlain.modify, RPlain.emit, encodeSeq_plain]

theorem sendMsg_plain (env : Env) (m : Msg) : M.Rel RPlain (sendMsg env m) := by
  unfold sendMsg
  rel_tac [sendGate_plain, sendCore_plain]

theorem sendTestReq_plain (env : Env) : M.Rel RPlain (sendTestReq env) := by
  unfold sendTestReq
  rel_tac [RPlain.modify, sendMsg_plain]

theorem validateIntegrity_plain (m : Msg) : M.Rel RPlain (validateIntegrity m) := by
  unfold validateIntegrity
  rel_tac []

theorem setSeqNum_plain (a b : Option Int) : M.Rel RPlain (setSeqNum a b) := by
  unfold setSeqNum
  rel_tac [RPlain.modify]

theorem checkSeqnumGaps_plain (env : Env) (n : Int) : M.Rel RPlain (checkSeqnumGaps env n) := by
  unfold checkSeqnumGaps
  rel_tac [RPlain.modify, sendMsg_plain, stateSet_plain]

theorem processSeqreset_plain (m : Msg) : M.Rel RPlain (processSeqreset m) := by
  unfold processSeqreset
  rel_tac [setSeqNum_plain]

theorem setNextNumIn_plain (m : Msg) : M.Rel RPlain (setNextNumIn m) := by
  unfold setNextNumIn
  rel_tac [RPlain.modify]

theorem persistInbound_plain (m : Msg) : M.Rel RPlain (persistInbound m) := by
  unfold persistInbound
  rel_tac [RPlain.modify]

theorem finalizeMessage_plain (env : Env) (m : Msg) : M.Rel RPlain (finalizeMessage env m) := by
  unfold finalizeMessage
  rel_tac [RPlain.modify, setNextNumIn_plain, persistInbound_plain, stateSet_plain]

theorem processTestRequest_plain (env : Env) (m : Msg) : M.Rel RPlain (processTestRequest env m) := by
  unfold processTestRequest
  rel_tac [sendMsg_plain]

theorem persistOutboundRow_plain (n : Int) (row : Msg) : M.Rel RPlain (persistOutboundRow n row) := by
  unfold persistOutboundRow
  rel_tac [RPlain.modify]

theorem resendLoop_plain (env : Env) (sr : Msg → Bool) (endNo : Int) (rows : List Msg) (a b : Int) :
    M.Rel RPlain (resendLoop env sr endNo rows a b) := by
  induction rows generalizing a b with
  | nil => unfold resendLoop; rel_tac []
  | cons row rest ih =>
    unfold resendLoop
    rel_tac [sendMsg_plain, persistOutboundRow_plain, ih]

theorem processResend_plain (env : Env) (sr : Msg → Bool) (m : Msg) :
    M.Rel RPlain (processResend env sr m) := by
  unfold processResend
  rel_tac [stateSet_plain, setSeqNum_plain, sendMsg_plain, resendLoop_plain]

theorem resetSeqNum_plain : M.Rel RPlain resetSeqNum := by
  unfold resetSeqNum
  rel_tac [setSeqNum_plain]

end AsyncFix.Session
