import AsyncFix.Lemmas.SchedSpecH
import AsyncFix.Model.SchedRun

/-!
Sched family: `Ok` – EVERY segment of a resumption, from whatever connection its task is resumed on,
satisfies the segment relation `Seg` (given `J` at its start) – until a segment carries the ghost mark
`rewind`: nothing is claimed about that segment and about what follows it (the resend rewind window).
Rules that lift `Ok` through the resumption monad, and `Ok` for every handler of
`Model/SchedHandlers.lean`, up to the task bodies.
-/
namespace AsyncFix.Sched

open AsyncFix.Session AsyncFix.Generated AsyncFix.Generated.ConnEnum

variable {α β : Type} {i : Bool}

def noRewind (g : List Ghost) : Bool := !g.contains .rewind && !g.contains .waive

theorem noRewind_append (a b : List Ghost) : noRewind (a ++ b) = (noRewind a && noRewind b) := by
  simp only [noRewind, List.contains_eq_mem, List.mem_append, Bool.decide_or, Bool.not_or]
  cases decide (Ghost.rewind ∈ a) <;> cases decide (Ghost.rewind ∈ b) <;> cases decide (Ghost.waive ∈ a) <;>
    cases decide (Ghost.waive ∈ b) <;> rfl

def Ok (i : Bool) : Conn → Res α → Prop
  | c0, .done c e g r => noRewind g = true → J c0 → Seg i c0 c (e ++ pend r)
  | c0, .yield c e g _ k =>
    (noRewind g = true → J c0 → Seg i c0 c e) ∧ (noRewind g = true → ∀ c1, Ok i c1 (k c1))

/-- a coroutine body all of whose segments are fine (a structure, so that `intro` does not unfold it) -/
structure ROk (i : Bool) (x : R α) : Prop where
  out : ∀ c, Ok i c (x c)

theorem Ok.prepend {c0 c : Conn} {e : List Effect} {g : List Ghost} {r : Res α}
    (h1 : noRewind g = true → J c0 → Seg i c0 c e) (h2 : Ok i c r) : Ok i c0 (r.prepend e g) := by
  cases r with
  | done c' e' g' r' =>
    intro hg hJ
    rw [noRewind_append, Bool.and_eq_true] at hg
    have s1 := h1 hg.1 hJ
    have s2 := h2 hg.2 s1.inv
    simpa [List.append_assoc] using s1.trans s2
  | yield c' e' g' pt k =>
    refine ⟨?_, ?_⟩
    · intro hg hJ
      rw [noRewind_append, Bool.and_eq_true] at hg
      have s1 := h1 hg.1 hJ
      exact s1.trans (h2.1 hg.2 s1.inv)
    · intro hg
      rw [noRewind_append, Bool.and_eq_true] at hg
      exact h2.2 hg.2

theorem Ok.bind {c0 : Conn} {r : Res α} {f : α → Conn → Res β}
    (h : Ok i c0 r) (hf : ∀ a c, Ok i c (f a c)) : Ok i c0 (r.bind f) := by
  induction r generalizing c0 with
  | done c e g r =>
    cases r with
    | ok a =>
      refine Ok.prepend (c := c) ?_ (hf a c)
      intro hg hJ
      simpa [pend] using h hg hJ
    | error ex => exact h
  | yield c e g pt k ih =>
    exact ⟨h.1, fun hg c1 => ih c1 (h.2 hg c1)⟩

theorem Ok.weaken {c0 : Conn} {r : Res α} (h : Ok false c0 r) : Ok i c0 r := by
  induction r generalizing c0 with
  | done c e g r => exact fun hg hJ => (h hg hJ).weaken i
  | yield c e g pt k ih =>
    exact ⟨fun hg hJ => (h.1 hg hJ).weaken i, fun hg c1 => ih c1 (h.2 hg c1)⟩

/-- `except Exception: log; result d` around a body without inbound journal writes -/
theorem Ok.swallow {c0 : Conn} {r : Res α} (d : α) (h : Ok false c0 r) :
    Ok i c0 (r.tryCatch fun ex c => .done c [.caught ex] [] (.ok d)) := by
  induction r generalizing c0 with
  | done c e g r =>
    cases r with
    | ok a => exact fun hg hJ => (h hg hJ).weaken i
    | error ex =>
      intro hg hJ
      simp only [List.append_nil] at hg
      have := (h hg hJ)
      simp only [pend] at this
      simpa [pend] using (this.caught_of_raised (i := i))
  | yield c e g pt k ih =>
    exact ⟨fun hg hJ => (h.1 hg hJ).weaken i, fun hg c1 => ih c1 (h.2 hg c1)⟩

/-- a benign pending exception can be taken off the end of a segment -/
theorem Seg.drop_raised {c c' : Conn} {e : List Effect} {ex : Exc} (h : Seg i c c' (e ++ [.raised ex]))
    (hb : (ex != .duplicateSeqNo && ex != .attribute) = true) : Seg i c c' e := by
  have hw : writes (e ++ [.raised ex]) = writes e := by simp [writes_append, writes]
  have hl : lost (e ++ [.raised ex]) = lost e := by
    simp only [lost_append]; cases ex <;> simp_all [lost]
  have hd : dupErr i e = false := by
    have := h.nodup
    rw [dupErr_append] at this
    cases hde : dupErr i e <;> simp_all
  exact ⟨h.inv, by simpa [newWrites, hw] using h.asc, by simpa [newWrites, hw, hl] using h.cnt,
    by simpa [hw] using h.allNew, h.keep, by simpa [newWrites, hw] using h.fresh, hd⟩

/-- a result whose first ghost list carries `waive`, behind any prefix: nothing is claimed -/
theorem Ok.waived {c0 : Conn} (e : List Effect) (g : List Ghost) (r : Res α) :
    Ok i c0 ((r.prepend [] [.waive]).prepend e g) := by
  cases r with
  | done c' e' g' r' =>
    intro hg
    simp only [noRewind_append, Bool.and_eq_true] at hg
    have := hg.2.1
    simp [noRewind] at this
  | yield c' e' g' pt k =>
    refine ⟨fun hg => ?_, fun hg => ?_⟩ <;>
    · simp only [noRewind_append, Bool.and_eq_true] at hg
      have := hg.2.1
      simp [noRewind] at this

/-- `try: x except Exception as ex: hnd ex` where the handler is fine for benign exceptions and waives the
claims (ghost mark first) for the others -/
theorem Ok.tryCatch_waive {c0 : Conn} {r : Res α} {hnd : Exc → Conn → Res α} (h : Ok i c0 r)
    (hb : ∀ ex c, (ex != .duplicateSeqNo && ex != .attribute) = true → Ok i c (hnd ex c))
    (hw : ∀ ex c, (ex != .duplicateSeqNo && ex != .attribute) = false →
      ∃ r' : Res α, hnd ex c = r'.prepend [] [.waive]) :
    Ok i c0 (r.tryCatch hnd) := by
  induction r generalizing c0 with
  | done c e g r =>
    cases r with
    | ok a => exact h
    | error ex =>
      show Ok i c0 ((hnd ex c).prepend e g)
      cases hben : (ex != .duplicateSeqNo && ex != .attribute) with
      | true =>
        refine Ok.prepend (c := c) ?_ (hb ex c hben)
        intro hg hJ
        exact (h hg hJ).drop_raised hben
      | false =>
        obtain ⟨r', hr'⟩ := hw ex c hben
        rw [hr']
        exact Ok.waived e g r'
  | yield c e g pt k ih =>
    exact ⟨h.1, fun hg c1 => ih c1 (h.2 hg c1)⟩

namespace ROk

theorem weaken {x : R α} (h : ROk false x) : ROk i x := ⟨fun c => (h.out c).weaken⟩

theorem pure (a : α) : ROk i (Pure.pure a : R α) := ⟨fun _ _ hJ => Seg.refl hJ⟩

theorem bind {x : R α} {f : α → R β} (hx : ROk i x) (hf : ∀ a, ROk i (f a)) : ROk i (x >>= f) :=
  ⟨fun c => Ok.bind (hx.out c) fun a c' => (hf a).out c'⟩

theorem liftM {x : M α} (h : MSpec i x) : ROk i (R.liftM x) := by
  constructor
  intro c
  have := h.out c
  unfold R.liftM
  rcases hx : x c with ⟨r, c1, e⟩
  rw [hx] at this
  exact fun _ hJ => this hJ

theorem yield (pt : YieldPoint) : ROk i (R.yield pt) :=
  ⟨fun _ => ⟨fun _ hJ => Seg.refl hJ, fun _ _ _ hJ => Seg.refl hJ⟩⟩

theorem hook {e : Effect} (pt : YieldPoint) (h : quiet e = true := by rfl) : ROk i (R.hook e pt) :=
  ⟨fun c => ⟨fun _ hJ => Seg.of_same hJ (OutSame.refl c) (writes_quiet h) (lost_quiet h) (dupErr_quiet h i),
    fun _ _ _ hJ => Seg.refl hJ⟩⟩

theorem ghost (g : Ghost) : ROk i (R.ghost g) := ⟨fun _ _ hJ => Seg.refl hJ⟩

/-- nothing is claimed from the rewinding `set_seq_num` on -/
theorem rewind_bind (f : Unit → R β) : ROk i (R.ghost .rewind >>= f) := by
  constructor
  intro c
  show Ok i c ((f () c).prepend [] [.rewind])
  cases f () c with
  | done c' e' g' r' => intro hg; simp [noRewind] at hg
  | yield c' e' g' pt k =>
    exact ⟨fun hg => by simp [noRewind] at hg, fun hg => by simp [noRewind] at hg⟩

/-- nothing is claimed after a `waive` mark either -/
theorem waive_bind (f : Unit → R β) : ROk i (R.ghost .waive >>= f) := by
  constructor
  intro c
  show Ok i c ((f () c).prepend [] [.waive])
  cases f () c with
  | done c' e' g' r' => intro hg; simp [noRewind] at hg
  | yield c' e' g' pt k =>
    exact ⟨fun hg => by simp [noRewind] at hg, fun hg => by simp [noRewind] at hg⟩

theorem ite {p : Prop} [Decidable p] {a b : R α} (ha : ROk i a) (hb : ROk i b) :
    ROk i (if p then a else b) := by
  split <;> assumption

theorem get : ROk i R.get := liftM MSpec.get
theorem modify {f : Conn → Conn} (h1 : ∀ c, (f c).sess.nextOut = c.sess.nextOut)
    (h2 : ∀ c, (f c).journal.out = c.journal.out) (h3 : ∀ c, (f c).journal.outSeq = c.journal.outSeq) :
    ROk i (R.modify f) := liftM (MSpec.modify' h1 h2 h3)
theorem throw {ex : Exc} (h : benign ex = true := by rfl) : ROk i (R.throw ex : R α) := liftM (MSpec.throw h)
theorem liftE_get (m : Msg) (t : Nat) : ROk i (R.liftE (m.get t)) := liftM (MSpec.liftE_get m t)
theorem assert (b : Bool) : ROk i (R.assert b) := liftM (MSpec.assert b)
theorem int (s : String) : ROk i (R.int s) := liftM (MSpec.int s)

/-- `try: x except Exception: y; raise` (with the bookkeeping mark of `rethrowAfter`) -/
theorem tryCatch_rethrow {x : R α} {y : R Unit} (hx : ROk i x) (hy : ROk i y) :
    ROk i (R.tryCatch x (rethrowAfter y)) := by
  constructor
  intro c
  apply Ok.tryCatch_waive (hx.out c)
  · intro ex c1 hben
    have hcond : (ex == .duplicateSeqNo || ex == .attribute) = false := by
      cases ex <;> simp_all
    have h : ROk i (rethrowAfter (α := α) y ex) := by
      unfold rethrowAfter
      rw [hcond]
      exact bind hy fun _ => throw hben
    exact h.out c1
  · intro ex c1 hnb
    have hcond : (ex == .duplicateSeqNo || ex == .attribute) = true := by
      cases ex <;> simp_all
    refine ⟨((y >>= fun _ => (R.throw ex : R α)) c1), ?_⟩
    unfold rethrowAfter
    rw [hcond]
    rfl

theorem swallow {x : R α} (d : α) (hx : ROk false x) : ROk i (swallowR d x) :=
  ⟨fun c => Ok.swallow d (hx.out c)⟩

end ROk

syntax "rok_tac" "[" term,* "]" : tactic
open Lean in
macro_rules
  | `(tactic| rok_tac [$ls,*]) => do
    let user ← ls.getElems.mapM fun l => `(tactic| apply $l)
    let builtin ← #[``ROk.pure, ``ROk.throw, ``ROk.get, ``ROk.liftE_get, ``ROk.assert, ``ROk.int,
        ``ROk.yield, ``ROk.hook, ``ROk.modify].mapM fun n => `(tactic| apply $(mkIdent n))
    let tail ← #[``ROk.bind, ``ROk.ite, ``ROk.tryCatch_rethrow].mapM fun n => `(tactic| apply $(mkIdent n))
    let all := #[← `(tactic| intro _), ← `(tactic| rfl)] ++ builtin ++ user ++ tail ++ #[← `(tactic| split)]
    `(tactic| repeat' (first $[| $all:tactic]*))

end AsyncFix.Sched
