/-
String-like types (String, char, Boolean, Country/Currency/Exchange), the guard / enumeration /
special-case layer of `validate_value`, and "never raises".
-/
import AsyncFix.Model.Lexical
import AsyncFix.Model.LexSpec
import AsyncFix.Model.LexClass
namespace AsyncFix.Lemmas.LexStr
open AsyncFix.Py AsyncFix.Model AsyncFix.Model.Lexical AsyncFix.Model.LexClass

theorem validateStr_pass_iff (maxLen : Option Nat) (subset : Option (List Str)) (alnum : Bool) (s : Str) :
    validateStr maxLen subset alnum s = .pass ↔
      s ≠ [] ∧ s.contains 1 = false ∧ s.contains 61 = false ∧
      (∀ n, maxLen = some n → n = 0 ∨ s.length ≤ n) ∧
      (∀ set, subset = some set → set = [] ∨ set.contains s = true) ∧
      (alnum = true → reHasNonAlnum s = false) := by
  unfold validateStr
  cases hs : s with
  | nil => simp
  | cons c cs =>
    rw [← hs]
    have hne : s ≠ [] := by rw [hs]; simp
    have hemp : s.isEmpty = false := by rw [hs]; rfl
    simp only [hemp, Bool.false_eq_true, ↓reduceIte, ne_eq, hne, not_false_eq_true, true_and]
    cases h1 : s.contains 1
    · cases h2 : s.contains 61
      · simp only [Bool.false_eq_true, ↓reduceIte, true_and]
        rcases maxLen with _ | n
        · rcases subset with _ | set
          · cases alnum <;> cases h3 : reHasNonAlnum s <;> simp
          · cases h4 : set.isEmpty <;> cases h5 : set.contains s <;> cases alnum <;>
              cases h3 : reHasNonAlnum s <;> simp_all
        · by_cases hn : n = 0
          · subst hn
            rcases subset with _ | set
            · cases alnum <;> cases h3 : reHasNonAlnum s <;> simp
            · cases h4 : set.isEmpty <;> cases h5 : set.contains s <;> cases alnum <;>
                cases h3 : reHasNonAlnum s <;> simp_all
          · by_cases hl : n < s.length
            · have : ¬ s.length ≤ n := by omega
              simp [hn, hl, this]
            · have : s.length ≤ n := by omega
              rcases subset with _ | set
              · cases alnum <;> cases h3 : reHasNonAlnum s <;> simp [hn, hl, this]
              · cases h4 : set.isEmpty <;> cases h5 : set.contains s <;> cases alnum <;>
                  cases h3 : reHasNonAlnum s <;> simp_all
      · simp
    · simp

/-- String / MultipleValueString: accepted = non-empty, no SOH, and no '=' -/
theorem string_pass_iff (cfg : Cfg) (s : Str) :
    validateTyped cfg .string s = .pass ↔ LexSpec.isString s = true ∧ hasEquals s = false := by
  show validateStr none none false s = .pass ↔ _
  rw [validateStr_pass_iff]
  cases s <;> simp [LexSpec.isString, hasEquals]

/-- char: accepted = one character other than SOH and '=' -/
theorem char_pass_iff (cfg : Cfg) (s : Str) :
    validateTyped cfg .char s = .pass ↔ LexSpec.isChar s = true ∧ hasEquals s = false := by
  show validateStr (some 1) none false s = .pass ↔ _
  rw [validateStr_pass_iff]
  rcases s with _ | ⟨c, _ | ⟨d, t⟩⟩ <;> simp [LexSpec.isChar, hasEquals]

/-- Boolean: accepted = "Y" or "N" -/
theorem boolean_pass_iff (cfg : Cfg) (s : Str) :
    validateTyped cfg .boolean s = .pass ↔ LexSpec.isBoolean s = true := by
  show validateStr (some 1) (some [[89], [78]]) false s = .pass ↔ _
  rw [validateStr_pass_iff]
  rcases s with _ | ⟨c, _ | ⟨d, t⟩⟩
  · simp [LexSpec.isBoolean]
  · simp [LexSpec.isBoolean]
    constructor
    · rintro ⟨-, -, h⟩; exact h
    · rintro (rfl | rfl) <;> simp
  · simp [LexSpec.isBoolean]

theorem alnum_eq (c : Nat) : isAsciiAlnum c = (LexSpec.digit c || LexSpec.letter c) := by
  simp [isAsciiAlnum, LexSpec.digit, LexSpec.letter, isAsciiDigit, inRange, Bool.or_assoc]

theorem alnum_facts {c : Nat} (h : isAsciiAlnum c = true) : c ≠ 1 ∧ c ≠ 61 := by
  simp [isAsciiAlnum, isAsciiDigit, inRange] at h
  omega

theorem all_alnum_no {s : Str} (h : s.all isAsciiAlnum = true) : s.contains 1 = false ∧ s.contains 61 = false := by
  induction s with
  | nil => simp
  | cons c cs ih =>
    simp only [List.all_cons, Bool.and_eq_true] at h
    have := alnum_facts h.1
    have := ih h.2
    simp_all
    omega

/-- Country / Currency / Exchange (bound n ≥ 1): accepted = 1..n ASCII letters or digits -/
theorem code_pass_iff (cfg : Cfg) (n : Nat) (hn : n ≠ 0) (s : Str) :
    validateTyped cfg (.code n) s = .pass ↔ LexSpec.isCode n s = true := by
  show validateStr (some n) none true s = .pass ↔ _
  rw [validateStr_pass_iff]
  have hall : reHasNonAlnum s = false ↔ s.all isAsciiAlnum = true := by
    simp [reHasNonAlnum]
  have hspec : (s.all fun c => LexSpec.digit c || LexSpec.letter c) = s.all isAsciiAlnum := by
    congr 1; funext c; exact (alnum_eq c).symm
  unfold LexSpec.isCode
  rw [hspec]
  simp only [Option.some.injEq, forall_eq', reduceCtorEq, false_implies, implies_true, true_and,
    forall_const, hall, Bool.and_eq_true, Bool.not_eq_true', List.isEmpty_eq_false_iff, decide_eq_true_eq]
  constructor
  · rintro ⟨h1, -, -, h4, h5⟩
    exact ⟨⟨h1, by omega⟩, h5⟩
  · rintro ⟨⟨h1, h2⟩, h3⟩
    exact ⟨h1, (all_alnum_no h3).1, (all_alnum_no h3).2, Or.inr h2, h3⟩

/-! ### never raises -/

theorem validateNumber_not_raised (cfg : Cfg) (nt : NumType) (nz nn nf : Bool) (range : Option (Int × Int))
    (s : Str) (hs : s ≠ []) (hint : nt = .int → nf = false)
    (hfl : nt = .float → nz = false ∧ nn = false ∧ range = none) (k : String) :
    validateNumber cfg nt nz nn nf range s ≠ .raised k := by
  unfold validateNumber
  cases s with
  | nil => exact absurd rfl hs
  | cons c cs =>
    cases nt with
    | int =>
      have := hint rfl; subst this
      simp only [List.isEmpty_cons, Bool.false_eq_true, ↓reduceIte, Bool.false_and]
      cases pyInt cfg.maxStrDigits (c :: cs) with
      | none => simp
      | some v =>
        simp only []
        repeat' split
        all_goals simp
    | float =>
      obtain ⟨rfl, rfl, rfl⟩ := hfl rfl
      simp only [List.isEmpty_cons, Bool.false_eq_true, ↓reduceIte, Bool.or_self, Option.isSome_none]
      cases pyFloat (c :: cs) <;> simp only [] <;> (repeat' split) <;> simp

theorem validateStr_not_raised (maxLen : Option Nat) (subset : Option (List Str)) (alnum : Bool)
    (s : Str) (hs : s ≠ []) (k : String) : validateStr maxLen subset alnum s ≠ .raised k := by
  unfold validateStr
  cases s with
  | nil => exact absurd rfl hs
  | cons c cs =>
    simp only [List.isEmpty_cons, Bool.false_eq_true, ↓reduceIte]
    repeat' split
    all_goals simp

theorem validateDatetime_not_raised (s : Str) (fmt : List Dir) (k : String) :
    validateDatetime s fmt ≠ .raised k := by
  unfold validateDatetime
  simp only []
  repeat' split
  all_goals simp

theorem validateMonthYear_not_raised (s : Str) (k : String) : validateMonthYear s ≠ .raised k := by
  unfold validateMonthYear
  simp only []
  repeat' split
  all_goals first | exact validateDatetime_not_raised _ _ _ | simp

/-- the type dispatch never lets an exception other than the library's error escape -/
theorem validateTyped_not_raised (cfg : Cfg) (t : FType) (s : Str) (hs : s ≠ []) (k : String) :
    validateTyped cfg t s ≠ .raised k := by
  cases t <;> simp only [validateTyped]
  · exact validateNumber_not_raised _ _ _ _ _ _ _ hs (fun _ => rfl) (fun h => by cases h) _
  · exact validateNumber_not_raised _ _ _ _ _ _ _ hs (fun _ => rfl) (fun h => by cases h) _
  · exact validateNumber_not_raised _ _ _ _ _ _ _ hs (fun _ => rfl) (fun h => by cases h) _
  · exact validateNumber_not_raised _ _ _ _ _ _ _ hs (fun h => by cases h) (fun _ => ⟨rfl, rfl, rfl⟩) _
  · exact validateStr_not_raised _ _ _ _ hs _
  · exact validateStr_not_raised _ _ _ _ hs _
  · exact validateStr_not_raised _ _ _ _ hs _
  · exact validateStr_not_raised _ _ _ _ hs _
  · exact validateDatetime_not_raised _ _ _
  · exact validateDatetime_not_raised _ _ _
  · exact validateDatetime_not_raised _ _ _
  · exact validateMonthYear_not_raised _ _
  · simp
  · simp

/-- `validate_value` on a field without enumerators -/
theorem validateValue_typed (cfg : Cfg) (tag16 : Bool) (t : FType) (s : Str) :
    validateValue cfg { tag16 := tag16, ftype := t, values := [] } (.str s) = .ok ↔
      s ≠ [] ∧ ((tag16 = true ∧ s = [48]) ∨ validateTyped cfg t s = .pass) := by
  unfold validateValue
  cases s with
  | nil => simp
  | cons c cs =>
    have hnr := validateTyped_not_raised cfg t (c :: cs) (by simp)
    simp only [List.isEmpty_cons, Bool.false_eq_true, ↓reduceIte, List.isEmpty_nil, Bool.not_true,
      specialCases]
    cases hv : validateTyped cfg t (c :: cs) with
    | raised k => exact absurd hv (hnr k)
    | pass => cases tag16 <;> simp
    | err =>
      cases tag16
      · simp
      · by_cases h : (c :: cs) = [48]
        · simp [h]
        · have h' : ¬(c = 48 ∧ cs = []) := by simpa using h
          simp [h']

end AsyncFix.Lemmas.LexStr
