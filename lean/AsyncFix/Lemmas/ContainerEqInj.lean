/-
`render` (`FIXContainer.__str__`) is injective on safe containers.
-/
import AsyncFix.Lemmas.ContainerRenderInj
namespace AsyncFix.Model.Container
open AsyncFix.Py

theorem natDigits_injective (n m : Nat) (h : natDigits n = natDigits m) : n = m := by
  have h1 := foldl_natDigits n 0
  have h2 := foldl_natDigits m 0
  rw [shift_zero] at h1 h2
  rw [← h1, ← h2, h]

theorem not_mem_61_digits (n : Nat) : 61 ∉ natDigits n := by
  intro h
  have := natDigits_plain n 61 h
  omega

theorem not_mem_61_tag (t : Str) (h : tagOk t = true) : 61 ∉ t := by
  intro hm
  have := tagOk_mem t h 61 hm
  exact absurd this (by decide)

theorem isBar_not_91 : isBar 91 = true → False := by decide
theorem isComma_not_91 : isComma 91 = true → False := by decide

theorem scan_field_bar (t : Str) (v : Val) (ht : tagOk t = true) (hv : v.safe = true) :
    scan isBar 0 (t ++ 61 :: v.render) = some 0 :=
  scan_mono isBarComma isBar (by intro c hc; simp only [isBar, beq_iff_eq] at hc; subst hc; decide) _ _ _
    (scan_field t v ht hv)

theorem str_ne_group (s : Str) (gs : List Cont) (hs : strOk s = true) : s ≠ (Val.group gs).render := by
  intro h
  have hm : 91 ∈ (Val.group gs).render := by rw [render_group]; simp
  rw [← h] at hm
  have := strOk_mem s hs 91 hm
  omega

mutual
theorem inj_val (v₁ : Val) : ∀ v₂ : Val, v₁.safe = true → v₂.safe = true → v₁.render = v₂.render → v₁ = v₂ := by
  intro v₂ h₁ h₂ h
  match v₁, v₂ with
  | .cls _, _ => simp [Val.safe] at h₁
  | _, .cls _ => simp [Val.safe] at h₂
  | .str s₁, .str s₂ => simpa [Val.render] using h
  | .str s₁, .group gs₂ =>
    exact absurd (by simpa [Val.render] using h) (str_ne_group s₁ gs₂ (by simpa [Val.safe] using h₁))
  | .group gs₁, .str s₂ =>
    have h' : s₂ = (Val.group gs₁).render := by simpa [Val.render] using h.symm
    exact absurd h' (str_ne_group s₂ gs₁ (by simpa [Val.safe] using h₂))
  | .group gs₁, .group gs₂ =>
    rw [render_group, render_group] at h
    obtain ⟨hd, ht⟩ := split_first 61 _ _ _ _ (not_mem_61_digits _) (not_mem_61_digits _) h
    have hlen := natDigits_injective _ _ hd
    simp only [List.cons.injEq, true_and] at ht
    have hj : itemsText gs₁ = itemsText gs₂ := List.append_cancel_right ht
    have := inj_items gs₁ gs₂ (by simpa [Val.safe] using h₁) (by simpa [Val.safe] using h₂) hlen hj
    rw [this]
theorem inj_items (gs₁ : List (List (Str × Val))) : ∀ gs₂ : List (List (Str × Val)),
    safeItems gs₁ = true → safeItems gs₂ = true → gs₁.length = gs₂.length →
    itemsText gs₁ = itemsText gs₂ → gs₁ = gs₂ := by
  intro gs₂ h₁ h₂ hlen h
  match gs₁, gs₂ with
  | [], [] => rfl
  | [], _ :: _ => simp at hlen
  | _ :: _, [] => simp at hlen
  | g₁ :: r₁, g₂ :: r₂ =>
    simp only [safeItems, Bool.and_eq_true] at h₁ h₂
    simp only [List.length_cons, Nat.add_right_cancel_iff] at hlen
    rw [itemsText_cons, itemsText_cons] at h
    obtain ⟨hg, ht⟩ := split_unique isComma isComma_not_91 _ _ _ _ 0
      (scan_fields g₁ h₁.1) (scan_fields g₂ h₂.1) (term_commaTail r₁) (term_commaTail r₂) h
    have e1 := inj_fields g₁ g₂ h₁.1 h₂.1 hg
    match r₁, r₂ with
    | [], [] => rw [e1]
    | [], _ :: _ => simp at hlen
    | _ :: _, [] => simp at hlen
    | a₁ :: t₁, a₂ :: t₂ =>
      simp only [commaTail, List.cons.injEq, true_and] at ht
      have e2 := inj_items (a₁ :: t₁) (a₂ :: t₂) h₁.2 h₂.2 hlen ht
      rw [e1, e2]
theorem inj_fields (c₁ : List (Str × Val)) : ∀ c₂ : List (Str × Val),
    safeFields c₁ = true → safeFields c₂ = true → render c₁ = render c₂ → c₁ = c₂ := by
  intro c₂ h₁ h₂ h
  match c₁, c₂ with
  | [], [] => rfl
  | [], (t, v) :: r =>
    rw [render_nil, render_cons] at h
    have : (61 : Nat) ∈ ([] : Str) := by rw [h]; simp
    simp at this
  | (t, v) :: r, [] =>
    rw [render_nil, render_cons] at h
    have : (61 : Nat) ∈ ([] : Str) := by rw [← h]; simp
    simp at this
  | (t₁, v₁) :: r₁, (t₂, v₂) :: r₂ =>
    simp only [safeFields, Bool.and_eq_true] at h₁ h₂
    obtain ⟨⟨ht₁, hv₁⟩, hr₁⟩ := h₁
    obtain ⟨⟨ht₂, hv₂⟩, hr₂⟩ := h₂
    rw [render_cons, render_cons] at h
    obtain ⟨hf, htail⟩ := split_unique isBar isBar_not_91 _ _ _ _ 0
      (scan_field_bar t₁ v₁ ht₁ hv₁) (scan_field_bar t₂ v₂ ht₂ hv₂) (term_barTail r₁) (term_barTail r₂) h
    obtain ⟨et, ev⟩ := split_first 61 _ _ _ _ (not_mem_61_tag t₁ ht₁) (not_mem_61_tag t₂ ht₂) hf
    have ev' := inj_val v₁ v₂ hv₁ hv₂ ev
    match r₁, r₂ with
    | [], [] => rw [et, ev']
    | [], _ :: _ => simp [barTail] at htail
    | _ :: _, [] => simp [barTail] at htail
    | a₁ :: s₁, a₂ :: s₂ =>
      simp only [barTail, List.cons.injEq, true_and] at htail
      have er := inj_fields (a₁ :: s₁) (a₂ :: s₂) hr₁ hr₂ htail
      rw [et, ev', er]
end

/-- `__str__` is unambiguous on safe containers (since fix 7c684d5 `==` no longer depends on it) -/
theorem render_injective_on_safe (a b : Cont) (ha : Cont.safe a = true) (hb : Cont.safe b = true)
    (h : render a = render b) : a = b :=
  inj_fields a b ha hb h

end AsyncFix.Model.Container
