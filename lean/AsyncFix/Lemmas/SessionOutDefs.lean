import AsyncFix.Lemmas.SessionOutMsg

/-!
C05 definitions: what a well-formed outbound journal row is (`RowOk`), the invariant `OutInv`, new
messages among the written frames (`isNew`, `newWrites`, `numbered`), retransmitted copies (`Copy`),
what a journal slot holds for a frame that was once sent (`Slot`), and the step relation `Good` that
every handler of the session layer satisfies.  Facts about `buildFrame` and `prepareReplay`.
-/
namespace AsyncFix.Session

open AsyncFix.Generated AsyncFix.Generated.ConnEnum

/-- the frame's MsgSeqNum(34) as the journaler / the peer read it: `int(frame[34])` -/
def seqOf (f : Msg) : Option Int := (f.get? tMsgSeqNum).bind pyInt

/-- a NEW message: not a SequenceReset and no PossDupFlag(43)=Y – exactly the messages for which
`Codec.encode` calls `allocate_next_num_out()` (`encodeSeq`). -/
def isNew (f : Msg) : Bool :=
  !(f.mtype == mSequenceReset) && !((f.get? tPossDupFlag).getD "N" == "Y")

def LatinMsg (m : Msg) : Prop := isLatin1 m.mtype = true ∧ ∀ p ∈ m.tags, isLatin1 p.2 = true

/-- an outbound journal row under key `n` as `send_msg` leaves it: numbered `n`, MsgType field =
message type, the header / trailer fields `_process_resend` deletes are present, single-byte text. -/
structure RowOk (f : Msg) (n : Int) : Prop where
  seq : f.get? tMsgSeqNum = some (pyStr n)
  ty : f.get? tMsgType = some f.mtype
  h8 : (f.get? tBeginString).isSome = true
  h9 : (f.get? tBodyLength).isSome = true
  h52 : (f.get? tSendingTime).isSome = true
  h49 : (f.get? tSenderCompID).isSome = true
  h56 : (f.get? tTargetCompID).isSome = true
  h10 : (f.get? tCheckSum).isSome = true
  lat : frameLatin1 f = true

theorem RowOk.seqOf {f : Msg} {n : Int} (h : RowOk f n) : seqOf f = some n := by
  simp [Session.seqOf, h.seq, pyInt_pyStr]

/-- **The C05 invariant.**  `counter`: stored next-outbound = the session's counter; `rows`: every
outbound row sits under its own MsgSeqNum, below the counter; `sorted`: the primary key;
`latin`: CompIDs are single-byte text (otherwise nothing can be sent at all);
`sock`: a connection that is not in a disconnected state has its transport. -/
structure OutInv (c : Conn) : Prop where
  counter : c.journal.outSeq + 1 = c.sess.nextOut
  rows : ∀ p ∈ c.journal.out, RowOk p.2 p.1 ∧ p.1 < c.sess.nextOut
  sorted : Rows.Sorted c.journal.out
  latin : isLatin1 c.sess.sender = true ∧ isLatin1 c.sess.target = true
  sock : st_DISCONNECTED_BROKEN_CONN < c.state → c.sock = true

theorem OutInv.allLt {c : Conn} (h : OutInv c) : Rows.AllLt c.sess.nextOut c.journal.out :=
  fun p hp => (h.rows p hp).2

/-! ### written frames -/

def newWrites : List Effect → List Msg
  | [] => []
  | .write f :: r => if isNew f then f :: newWrites r else newWrites r
  | _ :: r => newWrites r

theorem newWrites_append (a b : List Effect) : newWrites (a ++ b) = newWrites a ++ newWrites b := by
  induction a with
  | nil => rfl
  | cons e r ih =>
    cases e <;> simp only [List.cons_append, newWrites, ih]
    split <;> simp

def allWrites : List Effect → List Msg
  | [] => []
  | .write f :: r => f :: allWrites r
  | _ :: r => allWrites r

/-- numbered `b, b+1, b+2, …` -/
def numbered : Int → List Msg → Prop
  | _, [] => True
  | b, f :: r => seqOf f = some b ∧ numbered (b + 1) r

theorem numbered_append (b : Int) (l1 l2 : List Msg) :
    numbered b (l1 ++ l2) ↔ numbered b l1 ∧ numbered (b + l1.length) l2 := by
  induction l1 generalizing b with
  | nil => simp [numbered]
  | cons f r ih =>
    simp only [List.cons_append, numbered, ih, List.length_cons, and_assoc]
    have : b + 1 + (r.length : Int) = b + ((r.length + 1 : Nat) : Int) := by omega
    rw [this]

theorem numbered_mem {b : Int} {l : List Msg} (h : numbered b l) {f : Msg} (hf : f ∈ l) :
    ∃ n, seqOf f = some n ∧ b ≤ n ∧ n < b + l.length := by
  induction l generalizing b with
  | nil => simp at hf
  | cons g r ih =>
    rcases List.mem_cons.mp hf with e | hr
    · subst e; exact ⟨b, h.1, by omega, by simp; omega⟩
    · obtain ⟨n, h1, h2, h3⟩ := ih h.2 hr
      exact ⟨n, h1, by omega, by simp; omega⟩

/-! ### retransmitted copies and journal slots -/

/-- `g` is `f` itself or what (repeated) resend servicing made of it: header / trailer stripped,
PossDupFlag=Y, OrigSendingTime, re-encoded under the same session. -/
inductive Copy (snd tgt : String) : Msg → Msg → Prop
  | refl (f : Msg) : Copy snd tgt f f
  | resent {f g : Msg} (stamp : String) (rp : Msg) (n : Int) :
      Copy snd tgt f g → prepareReplay g = .ok rp →
      Copy snd tgt f (buildFrame { sender := snd, target := tgt } stamp rp n)

/-- why a sent frame may be represented by a gap fill: its type is never retransmitted, or the
application's `should_replay` declined it (or a retransmitted copy of it). -/
def Declined (sr : Msg → Bool) (snd tgt : String) (f : Msg) : Prop :=
  ConnEnum.noReplay.contains f.mtype = true ∨ ∃ g, Copy snd tgt f g ∧ sr g = false

/-- what the journal holds under `n` for a frame `f` that went out under `n`: `f` or a retransmitted
copy of it; or – only when `f` is `Declined` – a SequenceReset-GapFill row or nothing (inside a
multi-number gap fill). -/
def Slot (sr : Msg → Bool) (c : Conn) (n : Int) (f : Msg) : Prop :=
  match Rows.find n c.journal.out with
  | some g => Copy c.sess.sender c.sess.target f g ∨
      (g.mtype = mSequenceReset ∧ Declined sr c.sess.sender c.sess.target f)
  | none => Declined sr c.sess.sender c.sess.target f

/-- Step relation.  `U` = "journal-content claims are wanted, no bounded ResendRequest is involved";
`X` = "no ResendRequest is serviced at all". -/
structure Good (sr : Msg → Bool) (U X : Prop) (c c' : Conn) (es : List Effect) : Prop where
  inv : OutInv c'
  ids : c'.sess.sender = c.sess.sender ∧ c'.sess.target = c.sess.target
  num : numbered c.sess.nextOut (newWrites es)
  cnt : c'.sess.nextOut = c.sess.nextOut + (newWrites es).length
  keepSlot : U → c'.sess.nextOut ≤ sysMaxsize + 1 →
    ∀ n f, n < c.sess.nextOut → Slot sr c n f → Slot sr c' n f
  freshSlot : U → c'.sess.nextOut ≤ sysMaxsize + 1 →
    ∀ f ∈ newWrites es, ∀ n, seqOf f = some n → Slot sr c' n f
  keepRow : X → ∀ n g, Rows.find n c.journal.out = some g → Rows.find n c'.journal.out = some g
  freshRow : X → ∀ f ∈ newWrites es, ∀ n, seqOf f = some n → Rows.find n c'.journal.out = some f

/-- connections that agree on everything C05 talks about -/
structure OutEq (c c' : Conn) : Prop where
  sess : c'.sess.nextOut = c.sess.nextOut ∧ c'.sess.sender = c.sess.sender ∧ c'.sess.target = c.sess.target
  out : c'.journal.out = c.journal.out
  outSeq : c'.journal.outSeq = c.journal.outSeq

theorem Slot.congr {sr : Msg → Bool} {c c' : Conn} (h : OutEq c c') {n : Int} {f : Msg}
    (hs : Slot sr c n f) : Slot sr c' n f := by
  unfold Slot at *
  rw [h.out, h.sess.2.1, h.sess.2.2]; exact hs

theorem Good.refl_of_eq {sr : Msg → Bool} {U X : Prop} {c c' : Conn} (hI : OutInv c') (h : OutEq c c') :
    Good sr U X c c' [] where
  inv := hI
  ids := h.sess.2
  num := trivial
  cnt := by simp [newWrites, h.sess.1]
  keepSlot := fun _ _ _ _ _ hs => hs.congr h
  freshSlot := by intro _ _ f hf; simp [newWrites] at hf
  keepRow := by intro _ n g hg; rw [h.out]; exact hg
  freshRow := by intro _ f hf; simp [newWrites] at hf

theorem OutEq.refl (c : Conn) : OutEq c c := ⟨⟨rfl, rfl, rfl⟩, rfl, rfl⟩

theorem Good.refl {sr : Msg → Bool} {U X : Prop} {c : Conn} (hI : OutInv c) : Good sr U X c c [] :=
  Good.refl_of_eq hI (OutEq.refl c)

theorem Good.trans {sr : Msg → Bool} {U X : Prop} {c c1 c2 : Conn} {e1 e2 : List Effect}
    (h1 : Good sr U X c c1 e1) (h2 : Good sr U X c1 c2 e2) : Good sr U X c c2 (e1 ++ e2) where
  inv := h2.inv
  ids := ⟨h2.ids.1.trans h1.ids.1, h2.ids.2.trans h1.ids.2⟩
  num := by
    rw [newWrites_append, numbered_append]
    refine ⟨h1.num, ?_⟩
    rw [← h1.cnt]; exact h2.num
  cnt := by
    rw [newWrites_append, h2.cnt, h1.cnt]; simp; omega
  keepSlot := by
    intro hU hB n f hn hs
    have hc1 : c1.sess.nextOut ≤ c2.sess.nextOut := by rw [h2.cnt]; omega
    have hcc : c.sess.nextOut ≤ c1.sess.nextOut := by rw [h1.cnt]; omega
    exact h2.keepSlot hU hB n f (by omega) (h1.keepSlot hU (by omega) n f hn hs)
  freshSlot := by
    intro hU hB f hf n hn
    have hc1 : c1.sess.nextOut ≤ c2.sess.nextOut := by rw [h2.cnt]; omega
    rw [newWrites_append] at hf
    rcases List.mem_append.mp hf with hf | hf
    · obtain ⟨n', h1', _, h3⟩ := numbered_mem h1.num hf
      rw [hn] at h1'; cases h1'
      exact h2.keepSlot hU hB n f (by rw [h1.cnt]; exact h3) (h1.freshSlot hU (by omega) f hf n hn)
    · exact h2.freshSlot hU hB f hf n hn
  keepRow := fun hX n g hg => h2.keepRow hX n g (h1.keepRow hX n g hg)
  freshRow := by
    intro hX f hf n hn
    rw [newWrites_append] at hf
    rcases List.mem_append.mp hf with hf | hf
    · exact h2.keepRow hX n f (h1.freshRow hX f hf n hn)
    · exact h2.freshRow hX f hf n hn

end AsyncFix.Session
