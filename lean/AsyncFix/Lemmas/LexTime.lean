/-
Times: `%H:%M:%S` and `%H:%M:%S.%f` on layout-conform strings (what `re.match` returns), the
layout shapes of the time formats, and the SPEC's time recognisers as explicit shapes.
-/
import AsyncFix.Lemmas.LexDate
namespace AsyncFix.Lemmas.LexTime
open AsyncFix.Py AsyncFix.Lemmas.LexTok AsyncFix.Lemmas.LexSeq AsyncFix.Lemmas.LexLayout
open AsyncFix.Lemmas.LexDate
open AsyncFix.Model AsyncFix.Model.Lexical AsyncFix.Model.LexClass

def fmtHMSf : List Dir := fmtHMS ++ [.lit 46, .f]

theorem headFull_ite (c : Bool) (L : Succ) :
    headFull (if c = true then L else []) = if c = true then headFull L else none := by
  cases c <;> simp

theorem not_digit_58 : isAsciiDigit 58 = false := by decide
theorem not_digit_46 : isAsciiDigit 46 = false := by decide
theorem not_digit_45 : isAsciiDigit 45 = false := by decide

/-- six ASCII digits h1 h2 n1 n2 s1 s2 -/
def D6 (h1 h2 n1 n2 s1 s2 : Nat) : Prop :=
  isAsciiDigit h1 = true ∧ isAsciiDigit h2 = true ∧ isAsciiDigit n1 = true ∧ isAsciiDigit n2 = true ∧
    isAsciiDigit s1 = true ∧ isAsciiDigit s2 = true

/-- `%H:%M:` in front of anything -/
theorem matchSeq_HM {h1 h2 n1 n2 : Nat} (ds : List Dir) (r : Str)
    (a1 : isAsciiDigit h1 = true) (a2 : isAsciiDigit h2 = true) (a3 : isAsciiDigit n1 = true)
    (a4 : isAsciiDigit n2 = true) :
    matchSeq (.H :: .lit 58 :: .M :: .lit 58 :: ds) (h1 :: h2 :: 58 :: n1 :: n2 :: 58 :: r) =
      if (inRng .H h1 h2 && inRng .M n1 n2) = true then
        ext (two h1 h2) (ext 0 (ext (two n1 n2) (ext 0 (matchSeq ds r)))) else [] := by
  rw [matchSeq_num_lit (D := .H) rfl _ _ a1 a2 not_digit_58,
    matchSeq_num_lit (D := .M) rfl _ _ a3 a4 not_digit_58]
  by_cases x : inRng .H h1 h2 = true <;> by_cases y : inRng .M n1 n2 = true <;> simp [x, y]

theorem hms_headFull {h1 h2 n1 n2 s1 s2 : Nat} (hd : D6 h1 h2 n1 n2 s1 s2) :
    headFull (matchSeq fmtHMS [h1, h2, 58, n1, n2, 58, s1, s2]) =
      if (inRng .H h1 h2 && inRng .M n1 n2 && inRng .S s1 s2) = true then
        some [two h1 h2, 0, two n1 n2, 0, two s1 s2] else none := by
  obtain ⟨a1, a2, a3, a4, a5, a6⟩ := hd
  unfold fmtHMS
  rw [matchSeq_HM _ _ a1 a2 a3 a4, headFull_ite]
  simp only [headFull_ext, headFull_num_end (D := .S) rfl a5 a6]
  by_cases x : (inRng .H h1 h2 && inRng .M n1 n2) = true <;> by_cases y : inRng .S s1 s2 = true <;>
    simp [x, y]

/-- `%H:%M:%S.%f` when the fraction `fr` is matched completely by %f with value `fv` -/
theorem hmsf_headFull {h1 h2 n1 n2 s1 s2 : Nat} {fr : Str} {fv : Nat} (hd : D6 h1 h2 n1 n2 s1 s2)
    (hf : headFull (matchSeq [.f] fr) = some [fv]) :
    headFull (matchSeq fmtHMSf (h1 :: h2 :: 58 :: n1 :: n2 :: 58 :: s1 :: s2 :: 46 :: fr)) =
      if (inRng .H h1 h2 && inRng .M n1 n2 && inRng .S s1 s2) = true then
        some [two h1 h2, 0, two n1 n2, 0, two s1 s2, 0, fv] else none := by
  obtain ⟨a1, a2, a3, a4, a5, a6⟩ := hd
  show headFull (matchSeq (.H :: .lit 58 :: .M :: .lit 58 :: .S :: .lit 46 :: [.f]) _) = _
  rw [matchSeq_HM _ _ a1 a2 a3 a4, headFull_ite, matchSeq_num_lit (D := .S) rfl _ _ a5 a6 not_digit_46]
  simp only [headFull_ext, headFull_ite, hf]
  by_cases x : (inRng .H h1 h2 && inRng .M n1 n2) = true <;> by_cases y : inRng .S s1 s2 = true <;>
    simp [x, y]

/-! ### layout shapes -/

/-- a '.' and three ASCII digits -/
def Is3 (fr : Str) : Prop :=
  ∃ a b c, fr = [46, a, b, c] ∧ isAsciiDigit a = true ∧ isAsciiDigit b = true ∧ isAsciiDigit c = true
/-- a '.' and six ASCII digits -/
def Is6 (fr : Str) : Prop :=
  ∃ a b c d e f, fr = [46, a, b, c, d, e, f] ∧ isAsciiDigit a = true ∧ isAsciiDigit b = true ∧
    isAsciiDigit c = true ∧ isAsciiDigit d = true ∧ isAsciiDigit e = true ∧ isAsciiDigit f = true

theorem layout_hms_gen {ds : List Dir} {s : Str} :
    layoutMatch (.H :: .lit 58 :: .M :: .lit 58 :: .S :: ds) s = true ↔
      ∃ h1 h2 n1 n2 s1 s2 r, s = h1 :: h2 :: 58 :: n1 :: n2 :: 58 :: s1 :: s2 :: r ∧
        D6 h1 h2 n1 n2 s1 s2 ∧ layoutMatch ds r = true := by
  constructor
  · intro h
    obtain ⟨h1, h2, r, rfl, a1, a2, h⟩ := (layout_num (D := .H) rfl).1 h
    obtain ⟨r, rfl, h⟩ := layout_lit.1 h
    obtain ⟨n1, n2, r, rfl, a3, a4, h⟩ := (layout_num (D := .M) rfl).1 h
    obtain ⟨r, rfl, h⟩ := layout_lit.1 h
    obtain ⟨s1, s2, r, rfl, a5, a6, h⟩ := (layout_num (D := .S) rfl).1 h
    exact ⟨h1, h2, n1, n2, s1, s2, r, rfl, ⟨a1, a2, a3, a4, a5, a6⟩, h⟩
  · rintro ⟨h1, h2, n1, n2, s1, s2, r, rfl, ⟨a1, a2, a3, a4, a5, a6⟩, h⟩
    exact (layout_num (D := .H) rfl).2 ⟨_, _, _, rfl, a1, a2, layout_lit.2 ⟨_, rfl,
      (layout_num (D := .M) rfl).2 ⟨_, _, _, rfl, a3, a4, layout_lit.2 ⟨_, rfl,
        (layout_num (D := .S) rfl).2 ⟨_, _, _, rfl, a5, a6, h⟩⟩⟩⟩⟩

theorem layout_dotf {r : Str} : layoutMatch [.lit 46, .f] r = true ↔ Is3 r ∨ Is6 r := by
  rw [layout_lit]
  constructor
  · rintro ⟨r', rfl, h⟩
    rcases layout_f_end.1 h with ⟨a, b, c, rfl, x⟩ | ⟨a, b, c, d, e, f, rfl, x⟩
    · exact Or.inl ⟨a, b, c, rfl, x⟩
    · exact Or.inr ⟨a, b, c, d, e, f, rfl, x⟩
  · rintro (⟨a, b, c, rfl, x⟩ | ⟨a, b, c, d, e, f, rfl, x⟩)
    · exact ⟨_, rfl, layout_f_end.2 (Or.inl ⟨a, b, c, rfl, x⟩)⟩
    · exact ⟨_, rfl, layout_f_end.2 (Or.inr ⟨a, b, c, d, e, f, rfl, x⟩)⟩

/-- a fraction that the layout admits is matched completely by `%f`, with a microsecond value -/
theorem frac_headFull {fr : Str} (h : Is3 (46 :: fr) ∨ Is6 (46 :: fr)) :
    ∃ fv, headFull (matchSeq [.f] fr) = some [fv] ∧ fv ≤ 999999 := by
  rcases h with ⟨a, b, c, he, x1, x2, x3⟩ | ⟨a, b, c, d, e, f, he, x1, x2, x3, x4, x5, x6⟩
  · injection he with _ he; subst he
    exact ⟨_, headFull_f3 x1 x2 x3, fracVal3_le x1 x2 x3⟩
  · injection he with _ he; subst he
    exact ⟨_, headFull_f6 x1 x2 x3 x4 x5 x6, fracVal6_le x1 x2 x3 x4 x5 x6⟩

theorem is3_or_6_head {r : Str} (h : Is3 r ∨ Is6 r) : ∃ fr, r = 46 :: fr := by
  rcases h with ⟨a, b, c, rfl, _⟩ | ⟨a, b, c, d, e, f, rfl, _⟩ <;> exact ⟨_, rfl⟩

end AsyncFix.Lemmas.LexTime
