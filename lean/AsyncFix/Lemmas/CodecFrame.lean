/-
Framing layer of the codec round trip: on `mkFrame bs fs` every framing check of `decode`
passes and the field loop runs over exactly `frameFields bs fs` with expectation `frameCk bs fs`.
-/
import AsyncFix.Lemmas.CodecFrameA
namespace AsyncFix.Model.Codec

/-- `decode` with all framing facts supplied as equations -/
theorem decode_of_facts (bs : Bytes) (tbl : Tbl) (raw : Bytes) (ci e n : Nat)
    (f0 f1 : Bytes) (tl : List Bytes) (t0 v1 : Bytes) (htl : tl ≠ [])
    (h1 : findSub marker raw = some 0)
    (h2 : findSub cksumPat raw = some ci)
    (h3 : findChar SOH (raw.drop (ci + 1)) = some e)
    (h4 : e + (ci + 1) + 1 = raw.length)
    (h5 : splitOn SOH raw = (f0 :: f1 :: tl) ++ [[]])
    (h6 : splitEq f0 = some (t0, bs))
    (h7 : splitEq f1 = some (tag9, v1))
    (h8 : pyInt v1 = some (n : Int))
    (h9 : f0.length + f1.length + 6 + 3 + n = raw.length) :
    decode bs tbl raw =
      match fieldLoop tbl ((sum (join SOH (f0 :: f1 :: tl).dropLast) + 1) % 256) {}
          (f0 :: f1 :: tl) with
      | .error k => .raised k
      | .ok none => .none raw.length
      | .ok (some s) =>
        if s.ckPassed then .msg { mtype := s.mtype, body := s.top } raw.length raw
        else .none raw.length := by
  have hn : ¬ ((n : Int) < 0) := by omega
  have hlen := List.length_pos_iff.mpr htl
  unfold decode
  simp only [h1, List.drop_zero, h2, h3, h4, Option.isSome_some, Option.isNone_some, Bool.and_false,
    Bool.false_eq_true, if_false, Option.getD_some, List.take_length, h5]
  simp only [List.getLast?_append, List.getLast?_singleton, Option.some_or, Option.getD_some,
    beq_self_eq_true, if_true, List.dropLast_concat, List.length_cons]
  rw [if_neg (by omega)]
  simp only [h6, bne_self_eq_false, Bool.false_eq_true, if_false, h7, h8, hn, Int.toNat_natCast,
    h9, Nat.sub_zero, Nat.lt_irrefl, gt_iff_lt, Nat.zero_add]
  generalize fieldLoop tbl _ {} (f0 :: f1 :: tl) = r
  cases r with
  | error k => rfl
  | ok o => cases o <;> rfl

/-! ### the facts for `mkFrame` -/

theorem findSub_marker_mkFrame (bs : Bytes) (fs : List Fld) (hb : okBegin bs = true) :
    findSub marker (mkFrame bs fs) = some 0 := by
  have hp := ((okBegin_iff bs).mp hb).1
  rw [mkFrame_eq_bodyBytes, preFlds, bodyBytes_cons, List.append_assoc]
  have := isPrefix_append marker _ (SOH :: bodyBytes (⟨[57], natToDec (bodyBytes fs).length⟩ :: fs) ++
    ((ckFld bs fs).bytes ++ [SOH])) hp
  simp only [Fld.bytes, fieldBytes, List.cons_append, List.nil_append] at this ⊢
  simp only [findSub, this, if_true]

theorem okF_bodyLength (n : Nat) : okF ⟨[57], natToDec n⟩ = true := by
  rw [okF_iff]
  exact ⟨by simp [okTag, isDigit, maxStrDigits], by simp, digits_no_SOH _ (natToDec_all_digit _)⟩

theorem okF_tail (fs : List Fld) (hf : okFields fs = true) :
    ∀ f ∈ (⟨[57], natToDec (bodyBytes fs).length⟩ :: fs : List Fld), okF f = true := by
  intro f hm
  rcases List.mem_cons.mp hm with rfl | hm
  · exact okF_bodyLength _
  · rw [okFields_eq] at hf; exact List.all_eq_true.mp hf f hm

theorem ckFld_prefix (bs : Bytes) (fs : List Fld) :
    isPrefix [49, 48, 61] ((ckFld bs fs).bytes ++ [SOH]) = true := by
  simp [ckFld, Fld.bytes, fieldBytes, isPrefix, EQS]

theorem ckFld_bytes_length (bs : Bytes) (fs : List Fld) : (ckFld bs fs).bytes.length = 6 := by
  simp [ckFld, Fld.bytes, fieldBytes, dec3_length _ (Nat.lt_trans (frameCk_lt bs fs) (by decide))]

theorem findSub_cksum_mkFrame (bs : Bytes) (fs : List Fld) (hb : okBegin bs = true)
    (hf : okFields fs = true) :
    findSub cksumPat (mkFrame bs fs) = some ((bodyBytes (preFlds bs fs)).length - 1) := by
  rw [mkFrame_eq_bodyBytes]
  exact findSub_cksum_bodyBytes _ _ _ _ (okW_preFlds bs fs hb hf _ (by simp [preFlds])).no_SOH
    (okF_tail fs hf) (ckFld_prefix bs fs)

theorem findChar_SOH_mkFrame (bs : Bytes) (fs : List Fld) :
    findChar SOH ((mkFrame bs fs).drop ((bodyBytes (preFlds bs fs)).length - 1 + 1)) =
      some (ckFld bs fs).bytes.length := by
  have hpos : 0 < (bodyBytes (preFlds bs fs)).length := bodyBytes_length_pos _ _
  rw [Nat.sub_add_cancel hpos, mkFrame_eq_bodyBytes, List.drop_left]
  exact findChar_append_sep _ _ (okW_ckFld bs fs).no_SOH

theorem mkFrame_length (bs : Bytes) (fs : List Fld) :
    (mkFrame bs fs).length = (bodyBytes (preFlds bs fs)).length + 7 := by
  rw [mkFrame_eq_bodyBytes, List.length_append, List.length_append, ckFld_bytes_length]; rfl

theorem preFlds_length (bs : Bytes) (fs : List Fld) :
    (bodyBytes (preFlds bs fs)).length =
      (fieldBytes [56] bs).length + (fieldBytes [57] (natToDec (bodyBytes fs).length)).length + 2 +
        (bodyBytes fs).length := by
  simp only [preFlds, bodyBytes_cons, Fld.bytes, List.length_append, List.length_cons]; omega

theorem splitOn_mkFrame (bs : Bytes) (fs : List Fld) (hb : okBegin bs = true)
    (hf : okFields fs = true) :
    splitOn SOH (mkFrame bs fs) = frameFields bs fs ++ [[]] := by
  rw [mkFrame_eq_bodyBytes', splitOn_bodyBytes _ (okW_frameFlds bs fs hb hf), frameFields_eq]

/-- the checksum expectation the decoder computes is the frame's CheckSum value -/
theorem ckExpected_frameFields (bs : Bytes) (fs : List Fld) :
    (sum (join SOH (frameFields bs fs).dropLast) + 1) % 256 = frameCk bs fs := by
  have h : (frameFields bs fs).dropLast = (preFlds bs fs).map Fld.bytes := by
    rw [frameFields_eq, frameFlds, List.map_append, List.map_singleton, List.dropLast_concat]
  have hj := join_map_bytes (preFlds bs fs) (by simp [preFlds])
  rw [h, frameCk, framePre_eq, ← hj, sum_append]
  rfl

theorem decode_mkFrame (bs : Bytes) (tbl : Tbl) (fs : List Fld)
    (hb : okBegin bs = true) (hf : okFields fs = true)
    (hd : (natToDec (bodyBytes fs).length).length ≤ maxStrDigits) :
    decode bs tbl (mkFrame bs fs) = decodeViaLoop bs tbl fs := by
  have h := decode_of_facts bs tbl (mkFrame bs fs) ((bodyBytes (preFlds bs fs)).length - 1)
    (ckFld bs fs).bytes.length (bodyBytes fs).length
    (fieldBytes [56] bs) (fieldBytes [57] (natToDec (bodyBytes fs).length))
    (fs.map (fun f => fieldBytes f.tag f.val) ++ [fieldBytes [49, 48] (dec3 (frameCk bs fs))])
    [56] (natToDec (bodyBytes fs).length) (by simp)
    (findSub_marker_mkFrame bs fs hb) (findSub_cksum_mkFrame bs fs hb hf)
    (findChar_SOH_mkFrame bs fs)
    (by have := mkFrame_length bs fs; have := ckFld_bytes_length bs fs
        have : 0 < (bodyBytes (preFlds bs fs)).length := bodyBytes_length_pos _ _
        omega)
    (splitOn_mkFrame bs fs hb hf)
    (splitEq_fieldBytes _ _ (by simp [EQS]))
    (splitEq_fieldBytes _ _ (by simp [EQS]))
    (pyInt_natToDec _ hd)
    (by rw [mkFrame_length, preFlds_length]; omega)
  rw [h]
  show (match fieldLoop tbl ((sum (join SOH (frameFields bs fs).dropLast) + 1) % 256) {}
      (frameFields bs fs) with
    | .error k => DecRes.raised k
    | .ok none => DecRes.none (mkFrame bs fs).length
    | .ok (some s) =>
      if s.ckPassed then DecRes.msg { mtype := s.mtype, body := s.top } (mkFrame bs fs).length
        (mkFrame bs fs)
      else DecRes.none (mkFrame bs fs).length) = _
  rw [ckExpected_frameFields, decodeViaLoop]
  generalize fieldLoop tbl _ {} (frameFields bs fs) = r
  cases r with
  | error k => rfl
  | ok o => cases o <;> rfl

end AsyncFix.Model.Codec
