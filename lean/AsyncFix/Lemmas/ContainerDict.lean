/-
Python's insertion-ordered dict as modelled by `lookup` / `dictSet` / `dictDel` (Model/Container.lean)
refines the reference ordered map `OMap` = (first-insertion order of the keys, partial function).
Core Lean only.
-/
import AsyncFix.Model.Container
namespace AsyncFix.Model.Container
open AsyncFix.Py

variable {β : Type}

/-! ### the reference: an insertion-ordered map -/

/-- Reference specification: a finite map together with the order in which its keys were first
inserted.  `put` on a present key changes only the value; on an absent key it also appends the key;
`remove` forgets the key (a later `put` appends it again). -/
structure OMap (β : Type) where
  order : List Str
  val : Str → Option β

namespace OMap
def empty : OMap β := ⟨[], fun _ => none⟩
def put (m : OMap β) (k : Str) (v : β) : OMap β :=
  ⟨if k ∈ m.order then m.order else m.order ++ [k], fun x => if x = k then some v else m.val x⟩
def remove (m : OMap β) (k : Str) : OMap β :=
  ⟨m.order.erase k, fun x => if x = k then none else m.val x⟩
/-- well-formed: the order lists exactly the defined keys, once each -/
def WF (m : OMap β) : Prop := m.order.Nodup ∧ ∀ k, k ∈ m.order ↔ (m.val k).isSome = true
/-- iteration: the (key, value) pairs in key order -/
def items (m : OMap β) : List (Str × β) :=
  m.order.filterMap fun k => (m.val k).map fun v => (k, v)
end OMap

/-- abstraction function -/
def absMap (d : List (Str × β)) : OMap β := ⟨keys d, fun k => lookup k d⟩

/-! ### lookup / dictSet / dictDel -/

theorem hasKey_iff_mem_keys (k : Str) (d : List (Str × β)) : hasKey k d = true ↔ k ∈ keys d := by
  induction d with
  | nil => simp [hasKey, lookup, keys]
  | cons p rest ih =>
    obtain ⟨k', v⟩ := p
    simp only [hasKey, lookup, keys, List.map_cons, List.mem_cons] at ih ⊢
    by_cases h : k' = k
    · simp [h]
    · simp only [h, if_false]
      rw [ih]
      constructor
      · intro hm; exact Or.inr hm
      · intro hm; rcases hm with hm | hm
        · exact absurd hm.symm h
        · exact hm

theorem lookup_isSome_iff (k : Str) (d : List (Str × β)) : (lookup k d).isSome = true ↔ k ∈ keys d :=
  hasKey_iff_mem_keys k d

theorem lookup_eq_none_iff (k : Str) (d : List (Str × β)) : lookup k d = none ↔ k ∉ keys d := by
  rw [← hasKey_iff_mem_keys]; simp [hasKey]

theorem lookup_dictSet_self (k : Str) (v : β) (d : List (Str × β)) : lookup k (dictSet k v d) = some v := by
  induction d with
  | nil => simp [dictSet, lookup]
  | cons p rest ih =>
    obtain ⟨k', v'⟩ := p
    by_cases h : k' = k
    · simp [dictSet, lookup, h]
    · simp [dictSet, lookup, h, ih]

theorem lookup_dictSet_ne (k k' : Str) (v : β) (d : List (Str × β)) (hne : k' ≠ k) :
    lookup k' (dictSet k v d) = lookup k' d := by
  induction d with
  | nil =>
    have : ¬ k = k' := fun h => hne h.symm
    simp [dictSet, lookup, this]
  | cons p rest ih =>
    obtain ⟨k₀, v₀⟩ := p
    by_cases h : k₀ = k
    · subst h
      have : ¬ k₀ = k' := fun h => hne h.symm
      simp [dictSet, lookup, this]
    · by_cases h2 : k₀ = k'
      · subst h2; simp [dictSet, lookup, h]
      · simp [dictSet, lookup, h, h2, ih]

theorem keys_dictSet_of_mem (k : Str) (v : β) (d : List (Str × β)) (h : k ∈ keys d) :
    keys (dictSet k v d) = keys d := by
  induction d with
  | nil => simp [keys] at h
  | cons p rest ih =>
    obtain ⟨k', v'⟩ := p
    by_cases hk : k' = k
    · simp [dictSet, keys, hk]
    · have : k ∈ keys rest := by
        simp only [keys, List.map_cons, List.mem_cons] at h
        rcases h with h | h
        · exact absurd h.symm hk
        · exact h
      simp only [dictSet, hk, if_false, keys, List.map_cons, List.cons.injEq, true_and]
      exact ih this

theorem keys_dictSet_of_not_mem (k : Str) (v : β) (d : List (Str × β)) (h : k ∉ keys d) :
    keys (dictSet k v d) = keys d ++ [k] := by
  induction d with
  | nil => simp [dictSet, keys]
  | cons p rest ih =>
    obtain ⟨k', v'⟩ := p
    simp only [keys, List.map_cons, List.mem_cons, not_or] at h
    have hk : ¬ k' = k := fun e => h.1 e.symm
    simp only [dictSet, hk, if_false, keys, List.map_cons, List.cons_append, List.cons.injEq, true_and]
    exact ih h.2

theorem keys_dictSet (k : Str) (v : β) (d : List (Str × β)) :
    keys (dictSet k v d) = if k ∈ keys d then keys d else keys d ++ [k] := by
  split
  · next h => exact keys_dictSet_of_mem k v d h
  · next h => exact keys_dictSet_of_not_mem k v d h

theorem keys_dictDel (k : Str) (d : List (Str × β)) : keys (dictDel k d) = (keys d).erase k := by
  induction d with
  | nil => simp [dictDel, keys]
  | cons p rest ih =>
    obtain ⟨k', v'⟩ := p
    by_cases hk : k' = k
    · simp [dictDel, keys, hk]
    · have hb : (k' == k) = false := by simpa using hk
      simp only [dictDel, hk, if_false, keys, List.map_cons, List.erase_cons, hb]
      simp only [keys] at ih
      simp [ih]

theorem lookup_dictDel_ne (k k' : Str) (d : List (Str × β)) (hne : k' ≠ k) :
    lookup k' (dictDel k d) = lookup k' d := by
  induction d with
  | nil => simp [dictDel, lookup]
  | cons p rest ih =>
    obtain ⟨k₀, v₀⟩ := p
    by_cases h : k₀ = k
    · subst h
      have : ¬ k₀ = k' := fun h => hne h.symm
      simp [dictDel, lookup, this]
    · by_cases h2 : k₀ = k'
      · subst h2; simp [dictDel, lookup, h]
      · simp [dictDel, lookup, h, h2, ih]

theorem lookup_dictDel_self (k : Str) (d : List (Str × β)) (hnd : (keys d).Nodup) :
    lookup k (dictDel k d) = none := by
  induction d with
  | nil => simp [dictDel, lookup]
  | cons p rest ih =>
    obtain ⟨k₀, v₀⟩ := p
    simp only [keys, List.map_cons, List.nodup_cons] at hnd
    by_cases h : k₀ = k
    · subst h
      simp only [dictDel, if_true]
      exact (lookup_eq_none_iff _ _).2 hnd.1
    · simp [dictDel, lookup, h, ih hnd.2]

theorem nodup_dictSet (k : Str) (v : β) (d : List (Str × β)) (hnd : (keys d).Nodup) :
    (keys (dictSet k v d)).Nodup := by
  rw [keys_dictSet]
  split
  · exact hnd
  · next h =>
    rw [List.nodup_append]
    refine ⟨hnd, by simp, ?_⟩
    intro a ha b hb
    simp only [List.mem_singleton] at hb
    subst hb
    intro e; subst e; exact h ha

theorem nodup_dictDel (k : Str) (d : List (Str × β)) (hnd : (keys d).Nodup) :
    (keys (dictDel k d)).Nodup := by
  rw [keys_dictDel]; exact hnd.erase k

/-! ### refinement -/

theorem absMap_nil : absMap ([] : List (Str × β)) = OMap.empty := by
  simp [absMap, OMap.empty, keys, lookup]

theorem absMap_dictSet (k : Str) (v : β) (d : List (Str × β)) :
    absMap (dictSet k v d) = (absMap d).put k v := by
  simp only [absMap, OMap.put, keys_dictSet, OMap.mk.injEq]
  refine ⟨rfl, ?_⟩
  funext x
  by_cases h : x = k
  · subst h; simp [lookup_dictSet_self]
  · simp [h, lookup_dictSet_ne k x v d h]

theorem absMap_dictDel (k : Str) (d : List (Str × β)) (hnd : (keys d).Nodup) :
    absMap (dictDel k d) = (absMap d).remove k := by
  simp only [absMap, OMap.remove, keys_dictDel, OMap.mk.injEq, true_and]
  funext x
  by_cases h : x = k
  · subst h; simp [lookup_dictDel_self x d hnd]
  · simp [h, lookup_dictDel_ne k x d h]

theorem absMap_wf (d : List (Str × β)) (hnd : (keys d).Nodup) : (absMap d).WF :=
  ⟨hnd, fun k => (lookup_isSome_iff k d).symm⟩

theorem filterMap_congr' {α γ : Type} (f g : α → Option γ) (l : List α) (h : ∀ x ∈ l, f x = g x) :
    l.filterMap f = l.filterMap g := by
  induction l with
  | nil => rfl
  | cons a as ih =>
    simp only [List.filterMap_cons, h a (by simp)]
    rw [ih (fun x hx => h x (by simp [hx]))]

/-- nothing is lost by the abstraction: iterating the reference map gives back the dict -/
theorem items_absMap (d : List (Str × β)) (hnd : (keys d).Nodup) : (absMap d).items = d := by
  induction d with
  | nil => simp [absMap, OMap.items, keys]
  | cons p rest ih =>
    obtain ⟨k, v⟩ := p
    simp only [keys, List.map_cons, List.nodup_cons] at hnd
    have ih' : (keys rest).filterMap (fun x => (lookup x rest).map fun w => (x, w)) = rest := ih hnd.2
    have hc : (keys rest).filterMap (fun x => (lookup x ((k, v) :: rest)).map fun w => (x, w))
        = (keys rest).filterMap (fun x => (lookup x rest).map fun w => (x, w)) :=
      filterMap_congr' _ _ _ (fun x hx => by
        have : ¬ k = x := by
          intro e; subst e; exact hnd.1 hx
        simp [lookup, this])
    show (keys ((k, v) :: rest)).filterMap (fun x => (lookup x ((k, v) :: rest)).map fun w => (x, w))
      = (k, v) :: rest
    have hk : keys ((k, v) :: rest) = k :: keys rest := rfl
    rw [hk, List.filterMap_cons]
    have hl : lookup k ((k, v) :: rest) = some v := by simp [lookup]
    simp only [hl, Option.map_some]
    rw [hc, ih']

theorem absMap_injective (d₁ d₂ : List (Str × β)) (h₁ : (keys d₁).Nodup) (h₂ : (keys d₂).Nodup)
    (h : absMap d₁ = absMap d₂) : d₁ = d₂ := by
  rw [← items_absMap d₁ h₁, ← items_absMap d₂ h₂, h]

end AsyncFix.Model.Container
