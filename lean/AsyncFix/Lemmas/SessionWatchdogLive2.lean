import AsyncFix.Lemmas.SessionWatchdogLive

/-!
C12 helper lemmas, part 6: interleaved histories of watchdog ticks and benign inbound frames; the two
liveness inductions.
-/
namespace AsyncFix.Session.Watchdog

open AsyncFix.Generated AsyncFix.Generated.ConnEnum

/-- events of a watchdog history -/
inductive WEv
  | tick (env : Env)
  | recv (env : Env) (m : Msg)

def WEv.toEvent : WEv → Event
  | .tick env => .tick env
  | .recv env m => .recv env m

def WEv.now : WEv → Int
  | .tick env => env.now
  | .recv env _ => env.now

/-- the model history of a watchdog history -/
def hist (evs : List WEv) : List Event := evs.map WEv.toEvent

/-- summary of an idle tick with nothing outstanding, whatever happens to the send -/
theorem tick_none_idle_ctl (env : Env) (h : Int) (c : Conn) (hu : Up h c) (hh : 1 ≤ h)
    (hn : c.testReqId = none) (h1 : (h - 1) * 1000 < env.now - c.lastTime) :
    Up h (tick env c).1 ∧ (tick env c).1.testReqId = some env.secs ∧ NoDisc (tick env c).2 ∧
    (∀ f ∈ writes (tick env c).2, f = testReqFrame env c) ∧ (writes (tick env c).2).length ≤ 1 ∧
    (writes (tick env c).2 ≠ [] → (tick env c).1.lastTime = env.now) ∧
    ((tick env c).1.lastTime = env.now ∨ (tick env c).1.lastTime = c.lastTime) := by
  rw [tick_none_idle env c hu.sock hu.active hn (by rw [hu.hb]; exact hh) (by rw [hu.hb]; exact h1)]
  have up : Up h (armed env c) := ⟨hu.active, hu.sock, hu.hb⟩
  split
  · exact ⟨up, rfl, by simp [NoDisc, isDisc], by simp [writes], by simp [writes], by simp [writes], Or.inr rfl⟩
  · split
    · exact ⟨⟨hu.active, hu.sock, hu.hb⟩, rfl, by simp [NoDisc, isDisc], by simp [writes], by simp [writes],
        by simp [writes], Or.inr rfl⟩
    · exact ⟨⟨hu.active, hu.sock, hu.hb⟩, rfl, by simp [NoDisc, isDisc], by simp [writes], by simp [writes],
        fun _ => rfl, Or.inl rfl⟩

/-- the frame is a Heartbeat whose TestReqID reads as `id` (non-numeric reads as 0) -/
def isEcho (id : Int) (m : Msg) : Bool :=
  m.mtype == mHeartbeat &&
    match m.get? tTestReqID with
    | some v => (pyInt v).getD 0 == id
    | none => false

/-- "the TestRequest with this id is answered in time": no tick later than the deadline `dl` happens
before a Heartbeat echoing `id` is received (or before the history ends) -/
def Answered (id dl : Int) : List WEv → Prop
  | [] => True
  | .tick env :: rest => env.now ≤ dl ∧ Answered id dl rest
  | .recv _ m :: rest => isEcho id m = true ∨ Answered id dl rest

theorem Answered.mono {id dl dl' : Int} (hd : dl ≤ dl') : ∀ {evs : List WEv}, Answered id dl evs → Answered id dl' evs
  | [], _ => trivial
  | .tick _ :: _, h => ⟨Int.le_trans h.1 hd, Answered.mono hd h.2⟩
  | .recv _ _ :: _, h => h.elim Or.inl fun h' => Or.inr (Answered.mono hd h')

/-- the peer is live in the "answers every TestRequest" sense, relative to the run of the model:
events are in time order (`p` = time of the previous event), every inbound frame is benign, the clock is
past 1970-01-01 00:00:01 (ids are non-zero), and whenever a step records a new TestReqID at time `t`, the
TestRequest really went out (a frame was written) and that id is `Answered` by deadline `D t` in the rest. -/
def Live (sr : Msg → Bool) (D : Int → Int) : Int → Conn → List WEv → Prop
  | _, _, [] => True
  | p, c, ev :: rest =>
    p ≤ ev.now ∧
    (match ev with
      | .recv _ m => Benign c m
      | .tick env => 1000 ≤ env.now) ∧
    (c.testReqId = none → ∀ id, (step sr c ev.toEvent).1.testReqId = some id →
      writes (step sr c ev.toEvent).2 ≠ [] ∧ Answered id (D ev.now) rest) ∧
    Live sr D ev.now (step sr c ev.toEvent).1 rest

/-- invariant of the induction: logged on, and an outstanding id is non-zero, not younger than `lastTime`
and than the previous event, and answered by a deadline not later than `id·1000 + 2·h·1000` in what
remains of the history -/
def Inv (h p : Int) (c : Conn) (rest : List WEv) : Prop :=
  Up h c ∧ (c.testReqId = none ∨
    ∃ id dl, c.testReqId = some id ∧ id ≠ 0 ∧ dl ≤ id * 1000 + h * 2 * 1000 ∧ id * 1000 ≤ c.lastTime ∧
      id * 1000 ≤ p ∧ Answered id dl rest)

theorem live_run (sr : Msg → Bool) (h : Int) (D : Int → Int) (hh : 1 ≤ h)
    (hD : ∀ t, D t ≤ t / 1000 * 1000 + h * 2 * 1000) (p : Int) (c : Conn) (evs : List WEv)
    (hinv : Inv h p c evs) (hl : Live sr D p c evs) :
    Up h (run sr c (hist evs)).1 ∧ NoDisc (run sr c (hist evs)).2 := by
  induction evs generalizing c p with
  | nil => exact ⟨hinv.1, NoDisc.nil⟩
  | cons ev rest ih =>
    obtain ⟨hu, hout⟩ := hinv
    obtain ⟨hord, hev, hnew, hrest⟩ := hl
    suffices hs : Inv h ev.now (step sr c ev.toEvent).1 rest ∧ NoDisc (step sr c ev.toEvent).2 by
      have := ih _ _ hs.1 hrest
      show Up h (run sr c (ev.toEvent :: hist rest)).1 ∧ NoDisc (run sr c (ev.toEvent :: hist rest)).2
      rw [run_cons]
      exact ⟨this.1, hs.2.append this.2⟩
    cases ev with
    | tick env =>
      have hnow : 1000 ≤ env.now := hev
      show Inv h env.now (tick env c).1 rest ∧ NoDisc (tick env c).2
      rcases hout with hn | ⟨id, dl, hid, h0, hdl, hlast, hp, hans⟩
      · by_cases hidle : (h - 1) * 1000 < env.now - c.lastTime
        · obtain ⟨u1, t1, n1, _, _, l1, _⟩ := tick_none_idle_ctl env h c hu hh hn hidle
          have hsec : env.secs ≠ 0 := by unfold Env.secs; omega
          obtain ⟨hw, hans⟩ := hnew hn env.secs t1
          have hle : env.secs * 1000 ≤ env.now := by unfold Env.secs; omega
          exact ⟨⟨u1, Or.inr ⟨env.secs, D env.now, t1, hsec, hD env.now, by rw [l1 hw]; exact hle, hle, hans⟩⟩, n1⟩
        · rw [tick_none_quiet env c hu.sock hu.active hn (by rw [hu.hb]; exact hh) (by rw [hu.hb]; omega)]
          exact ⟨⟨hu, Or.inl hn⟩, NoDisc.nil⟩
      · have hle : env.now ≤ dl := hans.1
        have hb := hu.hb
        have hord' : p ≤ env.now := hord
        rw [tick_outstanding env c id hu.sock hu.active hid h0, if_neg (fun hc => by have := hc.1; omega)]
        exact ⟨⟨hu, Or.inr ⟨id, dl, hid, h0, hdl, hlast, by omega, hans.2⟩⟩, NoDisc.nil⟩
    | recv env m =>
      have hb : Benign c m := hev
      have hord' : p ≤ env.now := hord
      show Inv h env.now (recv sr env c m).1 rest ∧ NoDisc (recv sr env c m).2
      obtain ⟨u1, l1, t1, n1, _⟩ := recv_benign sr env h c m hu hb
      refine ⟨⟨u1, ?_⟩, n1⟩
      rcases hout with hn | ⟨id, dl, hid, h0, hdl, hlast, hp, hans⟩
      · left; rw [t1, hn]; simp
      · by_cases he : echoes c m = true
        · left; rw [t1, if_pos he]
        · right
          refine ⟨id, dl, by rw [t1, if_neg he]; exact hid, h0, hdl, by rw [l1]; omega, by omega, ?_⟩
          rcases hans with hecho | hans
          · exfalso; apply he
            unfold isEcho at hecho
            unfold echoes
            cases hv : m.get? tTestReqID with
            | none => simp [hv] at hecho
            | some v => simp [hv] at hecho; simp [hecho.1, hid]
          · exact hans

/-! ### liveness by traffic alone -/

/-- every tick finds the latest inbound frame (or the start, `last`) at most `(h − 1)·1000` ms old -/
def Fresh (h : Int) : Int → List WEv → Prop
  | _, [] => True
  | last, .tick env :: rest => env.now - last ≤ (h - 1) * 1000 ∧ Fresh h last rest
  | _, .recv env _ :: rest => Fresh h env.now rest

/-- every inbound frame of the history is benign where it arrives -/
def BenignRun (sr : Msg → Bool) : Conn → List WEv → Prop
  | _, [] => True
  | c, ev :: rest =>
    (match ev with
      | .recv _ m => Benign c m
      | .tick _ => True) ∧
    BenignRun sr (step sr c ev.toEvent).1 rest

theorem fresh_run (sr : Msg → Bool) (h : Int) (hh : 1 ≤ h) (c : Conn) (evs : List WEv) (hu : Up h c)
    (hn : c.testReqId = none) (hf : Fresh h c.lastTime evs) (hb : BenignRun sr c evs) :
    Up h (run sr c (hist evs)).1 ∧ (run sr c (hist evs)).1.testReqId = none ∧
    NoDisc (run sr c (hist evs)).2 ∧ (∀ f ∈ writes (run sr c (hist evs)).2, f.mtype = mHeartbeat) := by
  induction evs generalizing c with
  | nil => exact ⟨hu, hn, NoDisc.nil, by simp [hist, run, writes]⟩
  | cons ev rest ih =>
    obtain ⟨hev, hrest⟩ := hb
    show Up h (run sr c (ev.toEvent :: hist rest)).1 ∧ (run sr c (ev.toEvent :: hist rest)).1.testReqId = none ∧
      NoDisc (run sr c (ev.toEvent :: hist rest)).2 ∧
      (∀ f ∈ writes (run sr c (ev.toEvent :: hist rest)).2, f.mtype = mHeartbeat)
    rw [run_cons]
    cases ev with
    | tick env =>
      have hq : tick env c = (c, []) :=
        tick_none_quiet env c hu.sock hu.active hn (by rw [hu.hb]; exact hh) (by rw [hu.hb]; exact hf.1)
      have hst : step sr c (WEv.tick env).toEvent = (c, []) := hq
      rw [hst] at hrest ⊢
      simpa using ih c hu hn hf.2 hrest
    | recv env m =>
      have hbm : Benign c m := hev
      obtain ⟨u1, l1, t1, n1, w1⟩ := recv_benign sr env h c m hu hbm
      have hst : step sr c (WEv.recv env m).toEvent = recv sr env c m := rfl
      rw [hst] at hrest ⊢
      have hn1 : (recv sr env c m).1.testReqId = none := by rw [t1, hn]; simp
      have hf1 : Fresh h (recv sr env c m).1.lastTime rest := by rw [l1]; exact hf
      obtain ⟨a1, a2, a3, a4⟩ := ih _ u1 hn1 hf1 hrest
      refine ⟨a1, a2, n1.append a3, ?_⟩
      intro f hf'
      rw [writes_append] at hf'
      rcases List.mem_append.mp hf' with h' | h'
      · exact w1 f h'
      · exact a4 f h'

/-- traffic at least every `g` ms, in time order: every tick happens at most `g` ms after the latest
inbound frame before it (`last`; initially the connection's `lastTime`), nothing runs backwards -/
def Paced (g : Int) : Int → List WEv → Prop
  | _, [] => True
  | last, .tick env :: rest => last ≤ env.now ∧ env.now - last ≤ g ∧ Paced g last rest
  | last, .recv env _ :: rest => last ≤ env.now ∧ Paced g env.now rest

/-- after fix e3d9663: benign traffic at least every `2·h·1000` ms keeps the peer, whether or not it ever
answers a TestRequest (`a` = time of the latest inbound frame, `a ≤ lastTime`). -/
theorem paced_run (sr : Msg → Bool) (h : Int) (hh : 1 ≤ h) (a : Int) (c : Conn) (evs : List WEv) (hu : Up h c)
    (ha : 1000 ≤ a) (hal : a ≤ c.lastTime) (hid : c.testReqId = none ∨ ∃ id, id ≠ 0 ∧ c.testReqId = some id)
    (hp : Paced (h * 2 * 1000) a evs) (hb : BenignRun sr c evs) :
    Up h (run sr c (hist evs)).1 ∧ NoDisc (run sr c (hist evs)).2 := by
  induction evs generalizing c a with
  | nil => exact ⟨hu, NoDisc.nil⟩
  | cons ev rest ih =>
    obtain ⟨hev, hrest⟩ := hb
    show Up h (run sr c (ev.toEvent :: hist rest)).1 ∧ NoDisc (run sr c (ev.toEvent :: hist rest)).2
    rw [run_cons]
    cases ev with
    | tick env =>
      obtain ⟨ho, hg, hp'⟩ := hp
      have hst : step sr c (WEv.tick env).toEvent = tick env c := rfl
      rw [hst] at hrest ⊢
      rcases hid with hn | ⟨id, h0, hi⟩
      · by_cases hidle : (h - 1) * 1000 < env.now - c.lastTime
        · obtain ⟨u1, t1, n1, _, _, _, l1⟩ := tick_none_idle_ctl env h c hu hh hn hidle
          have hsec : env.secs ≠ 0 := by unfold Env.secs; omega
          have := ih a _ u1 ha (by rcases l1 with l | l <;> rw [l] <;> omega) (Or.inr ⟨_, hsec, t1⟩) hp' hrest
          exact ⟨this.1, n1.append this.2⟩
        · have hq := tick_none_quiet env c hu.sock hu.active hn (by rw [hu.hb]; exact hh) (by rw [hu.hb]; omega)
          rw [hq] at hrest ⊢
          simpa using ih a c hu ha hal (Or.inl hn) hp' hrest
      · have hb' := hu.hb
        have hq : tick env c = (c, []) := by
          rw [tick_outstanding env c id hu.sock hu.active hi h0, if_neg (fun hc => by have := hc.1; omega)]
        rw [hq] at hrest ⊢
        simpa using ih a c hu ha hal (Or.inr ⟨id, h0, hi⟩) hp' hrest
    | recv env m =>
      obtain ⟨ho, hp'⟩ := hp
      have hbm : Benign c m := hev
      obtain ⟨u1, l1, t1, n1, _⟩ := recv_benign sr env h c m hu hbm
      have hst : step sr c (WEv.recv env m).toEvent = recv sr env c m := rfl
      rw [hst] at hrest ⊢
      have hid' : (recv sr env c m).1.testReqId = none ∨ ∃ id, id ≠ 0 ∧ (recv sr env c m).1.testReqId = some id := by
        rw [t1]
        split
        · exact Or.inl rfl
        · exact hid
      have := ih env.now _ u1 (by omega) (by rw [l1]; omega) hid' hp' hrest
      exact ⟨this.1, n1.append this.2⟩

end AsyncFix.Session.Watchdog
