import AsyncFix.Lemmas.SessionResendSpec

/-!
C06 helper lemmas, part 2: ordered tag lists (`FIXMessage.tags`) under `set` / `del` / `filter`,
the result of `prepareReplay` and the fields of `buildFrame`.
-/
namespace AsyncFix.Session

namespace Msg

theorem lookup_append (t : Nat) (l1 l2 : List (Nat × String)) :
    lookup t (l1 ++ l2) = match lookup t l1 with
      | some v => some v
      | none => lookup t l2 := by
  induction l1 with
  | nil => rfl
  | cons p r ih =>
    obtain ⟨k, w⟩ := p
    by_cases h : k = t <;> simp [lookup, h, ih]

theorem lookup_filter_pos (q : Nat × String → Bool) (t : Nat) (l : List (Nat × String))
    (h : ∀ v, q (t, v) = true) : lookup t (l.filter q) = lookup t l := by
  induction l with
  | nil => rfl
  | cons p r ih =>
    obtain ⟨k, w⟩ := p
    by_cases hq : q (k, w) = true
    · rw [List.filter_cons_of_pos hq]
      by_cases hk : k = t <;> simp [lookup, hk, ih]
    · have hk : k ≠ t := by
        rintro rfl; exact hq (h w)
      rw [List.filter_cons_of_neg hq]
      simp [lookup, hk, ih]

theorem lookup_filter_neg (q : Nat × String → Bool) (t : Nat) (l : List (Nat × String))
    (h : ∀ v, q (t, v) = false) : lookup t (l.filter q) = none := by
  induction l with
  | nil => rfl
  | cons p r ih =>
    obtain ⟨k, w⟩ := p
    by_cases hq : q (k, w) = true
    · have hk : k ≠ t := by
        rintro rfl; rw [h w] at hq; exact absurd hq (by simp)
      rw [List.filter_cons_of_pos hq]
      simp [lookup, hk, ih]
    · rw [List.filter_cons_of_neg hq]; exact ih

theorem lookup_replaceVal (t t' : Nat) (v : String) (l : List (Nat × String)) :
    lookup t (replaceVal t' v l) =
      if t = t' then (lookup t l).map (fun _ => v) else lookup t l := by
  induction l with
  | nil => simp [replaceVal, lookup]
  | cons p r ih =>
    obtain ⟨k, w⟩ := p
    by_cases hk : k = t'
    · subst hk
      by_cases ht : t = k
      · subst ht; simp [replaceVal, lookup]
      · have : ¬ k = t := fun h => ht h.symm
        simp [replaceVal, lookup, ht, this]
    · by_cases ht : t = t'
      · subst ht
        simp only [replaceVal, hk, if_false, lookup, if_true] at ih ⊢
        exact ih
      · by_cases hkt : k = t
        · simp [replaceVal, lookup, ht, hkt]
        · simp only [replaceVal, hk, if_false, lookup, hkt, ht] at ih ⊢
          exact ih

theorem filter_replaceVal (q : Nat × String → Bool) (t : Nat) (v : String) (l : List (Nat × String))
    (h : ∀ w, q (t, w) = false) : (replaceVal t v l).filter q = l.filter q := by
  induction l with
  | nil => rfl
  | cons p r ih =>
    obtain ⟨k, w⟩ := p
    by_cases hk : k = t
    · subst hk; simp [replaceVal, h]
    · simp [replaceVal, hk, List.filter_cons, ih]

theorem all_replaceVal (f : Nat × String → Bool) (t : Nat) (v : String) (l : List (Nat × String))
    (hl : l.all f = true) (hv : f (t, v) = true) : (replaceVal t v l).all f = true := by
  induction l with
  | nil => rfl
  | cons p r ih =>
    obtain ⟨k, w⟩ := p
    simp only [List.all_cons, Bool.and_eq_true] at hl
    by_cases hk : k = t
    · subst hk; simp [replaceVal, hv, hl.2]
    · simp [replaceVal, hk, hl.1, ih hl.2]

theorem filter_filter_of_imp (q q' : Nat × String → Bool) (l : List (Nat × String))
    (h : ∀ p, q p = true → q' p = true) : (l.filter q').filter q = l.filter q := by
  rw [List.filter_filter]
  congr 1
  funext p
  by_cases hq : q p = true
  · simp [hq, h p hq]
  · simp [hq]

/-- `msg.set(t, v, replace=True)` as a total function -/
def setR (m : Msg) (t : Nat) (v : String) : Msg :=
  { m with tags := if m.has t then replaceVal t v m.tags else m.tags ++ [(t, v)] }

/-- `del msg[t]` when the tag is there -/
def delR (m : Msg) (t : Nat) : Msg := { m with tags := m.tags.filter fun p => p.1 ≠ t }

theorem set_replace (m : Msg) (t : Nat) (v : String) : m.set t v true = .ok (m.setR t v) := by
  unfold set setR
  by_cases h : m.has t = true <;> simp [h]

theorem set_new (m : Msg) (t : Nat) (v : String) (h : m.has t = false) :
    m.set t v = .ok (m.setR t v) := by
  unfold set setR
  simp [h]

theorem del_of_has (m : Msg) (t : Nat) (h : m.has t = true) : m.del t = .ok (m.delR t) := by
  unfold del delR
  simp [h]

theorem get?_setR (m : Msg) (t t' : Nat) (v : String) :
    (m.setR t v).get? t' = if t' = t then some v else m.get? t' := by
  unfold setR get?
  by_cases hh : m.has t = true
  · simp only [hh, if_true, lookup_replaceVal]
    by_cases ht : t' = t
    · subst ht
      simp only [has, get?, Option.isSome_iff_exists] at hh
      obtain ⟨w, hw⟩ := hh
      simp [hw]
    · simp [ht]
  · simp only [hh]
    simp only [has, get?, Bool.not_eq_true, Option.isSome_eq_false_iff, Option.isNone_iff_eq_none] at hh
    rw [if_neg (by simp), lookup_append]
    by_cases ht : t' = t
    · subst ht; simp [hh, lookup]
    · have : ¬ t = t' := fun h => ht h.symm
      simp only [ht, if_false, lookup, this]
      cases lookup t' m.tags <;> rfl

theorem get?_delR (m : Msg) (t t' : Nat) :
    (m.delR t).get? t' = if t' = t then none else m.get? t' := by
  unfold delR get?
  by_cases ht : t' = t
  · subst ht
    simp only [if_true]
    exact lookup_filter_neg _ _ _ (by intro v; simp)
  · simp only [ht, if_false]
    exact lookup_filter_pos _ _ _ (by intro v; simpa using ht)

theorem has_eq (m : Msg) (t : Nat) : m.has t = (m.get? t).isSome := rfl

@[simp] theorem mtype_setR (m : Msg) (t : Nat) (v : String) : (m.setR t v).mtype = m.mtype := rfl
@[simp] theorem mtype_delR (m : Msg) (t : Nat) : (m.delR t).mtype = m.mtype := rfl

theorem filter_setR (q : Nat × String → Bool) (m : Msg) (t : Nat) (v : String)
    (h : ∀ w, q (t, w) = false) : (m.setR t v).tags.filter q = m.tags.filter q := by
  unfold setR
  by_cases hh : m.has t = true
  · simp only [hh, if_true]; exact filter_replaceVal q t v _ h
  · simp [hh, List.filter_append, h]

theorem filter_delR (q : Nat × String → Bool) (m : Msg) (t : Nat)
    (h : ∀ w, q (t, w) = false) : (m.delR t).tags.filter q = m.tags.filter q := by
  unfold delR
  apply filter_filter_of_imp
  intro p hp
  obtain ⟨k, w⟩ := p
  have : k ≠ t := by rintro rfl; rw [h w] at hp; exact absurd hp (by simp)
  simpa using this

theorem all_setR (f : Nat × String → Bool) (m : Msg) (t : Nat) (v : String)
    (hl : m.tags.all f = true) (hv : f (t, v) = true) : (m.setR t v).tags.all f = true := by
  unfold setR
  by_cases hh : m.has t = true
  · simp only [hh, if_true]; exact all_replaceVal f t v _ hl hv
  · simp [hh, List.all_append, hl, hv]

theorem all_delR (f : Nat × String → Bool) (m : Msg) (t : Nat)
    (hl : m.tags.all f = true) : (m.delR t).tags.all f = true := by
  unfold delR
  rw [List.all_eq_true] at hl ⊢
  intro p hp
  exact hl p (List.mem_filter.mp hp).1

theorem all_of_lookup (f : Nat × String → Bool) (l : List (Nat × String)) (t : Nat) (v : String)
    (hl : l.all f = true) (h : lookup t l = some v) : f (t, v) = true := by
  induction l with
  | nil => simp [lookup] at h
  | cons p r ih =>
    obtain ⟨k, w⟩ := p
    simp only [List.all_cons, Bool.and_eq_true] at hl
    by_cases hk : k = t
    · subst hk
      simp only [lookup, if_true, Option.some.injEq] at h
      subst h; exact hl.1
    · simp only [lookup, hk, if_false] at h
      exact ih hl.2 h

end Msg

end AsyncFix.Session
