import AsyncFix.Model.SessionSend
import AsyncFix.Model.Codec.Encode
import AsyncFix.Lemmas.CodecFrameA

/-!
Bridge between the two model families, part 1: definitions and arithmetic.

The SESSION model (`AsyncFix.Session`) holds a frame as the abstract field list the decoder reads
back (`Session.Msg`, Lean `String`s); the CODEC model (`AsyncFix.Model.Codec`) holds it as the byte
string (`List Nat` code points).  `render` maps the first to the second:
every field `tag=value` followed by SOH, tags in decimal, values as their code points.

This file: `cps` (code points of a `String`), `renderField`, `render`, the correspondence
`toFld` / `toCodec` / `toCodecSession`, and the arithmetic that makes the session model's
`fieldLen` / `fieldSum` / `toString` / `pyStr` / `pad3` the byte-level `length` / `sum` /
`natToDec` / `intToDec` / `dec3`.
-/
namespace AsyncFix.Bridge

open AsyncFix.Model
open AsyncFix.Model.Codec (Bytes SOH EQS natToDec intToDec dec3 Fld fieldBytes bodyBytes)

/-- the code points of a Lean `String` (Python `[ord(ch) for ch in s]`) -/
def cps (s : String) : Bytes := s.toList.map Char.toNat

/-- one field on the wire: `tag=value<SOH>`, the tag in decimal -/
def renderField (p : Nat × String) : Bytes := natToDec p.1 ++ EQS :: (cps p.2 ++ [SOH])

/-- the wire bytes of a session-model frame -/
def render (f : Session.Msg) : Bytes := (f.tags.map renderField).flatten

/-- a session-model field as a codec `Fld` -/
def toFld (p : Nat × String) : Fld := ⟨natToDec p.1, cps p.2⟩

/-- **the correspondence of messages**: a session-model message (plain tags only – the session
model has no repeating groups) is the codec message with the same type and one `leaf` per tag, in
the same order; tag keys are the decimal strings, values the code points. -/
def toCodec (m : Session.Msg) : Codec.Msg :=
  { mtype := cps m.mtype, body := m.tags.map fun p => .leaf (natToDec p.1) (cps p.2) }

/-- the codec's view of the session object -/
def toCodecSession (s : Session.Session) : Codec.Session :=
  { sender := cps s.sender, target := cps s.target, nextOut := s.nextOut }

/-! ### `cps` -/

@[simp] theorem cps_append (a b : String) : cps (a ++ b) = cps a ++ cps b := by
  simp [cps, String.toList_append]

@[simp] theorem cps_ofList (l : List Char) : cps (String.ofList l) = l.map Char.toNat := by
  simp [cps, String.toList_ofList]

theorem cps_length (s : String) : (cps s).length = s.length := by
  simp [cps, String.length_toList]

/-- `cps` is injective: two strings with the same code points are equal -/
theorem cps_inj {a b : String} (h : cps a = cps b) : a = b := by
  have hl : a.toList = b.toList := by
    have hinj : ∀ (x y : List Char), x.map Char.toNat = y.map Char.toNat → x = y := by
      intro x
      induction x with
      | nil => intro y hy; cases y <;> simp_all
      | cons c cs ih =>
        intro y hy
        cases y with
        | nil => simp at hy
        | cons d ds =>
          simp only [List.map_cons, List.cons.injEq] at hy
          have hcd : c = d := Char.ext (UInt32.toNat_inj.mp hy.1)
          rw [hcd, ih ds hy.2]
    exact hinj _ _ h
  exact String.toList_inj.mp hl

theorem digitChar_toNat (n : Nat) (h : n < 10) : (Nat.digitChar n).toNat = 48 + n := by
  have : n = 0 ∨ n = 1 ∨ n = 2 ∨ n = 3 ∨ n = 4 ∨ n = 5 ∨ n = 6 ∨ n = 7 ∨ n = 8 ∨ n = 9 := by omega
  rcases this with h | h | h | h | h | h | h | h | h | h <;> subst h <;> rfl

/-- `str(n)` for a natural number is the codec's `natToDec` -/
theorem toDigits_natToDec (n : Nat) : (Nat.toDigits 10 n).map Char.toNat = natToDec n := by
  induction n using Nat.strongRecOn with
  | _ n ih =>
    unfold natToDec
    by_cases h : n < 10
    · simp [h, Nat.toDigits_of_lt_base h, digitChar_toNat n h]
    · have h10 : 10 ≤ n := by omega
      rw [Nat.toDigits_of_base_le (by decide) h10]
      simp only [h, if_false, List.map_append, List.map_cons, List.map_nil]
      rw [ih (n / 10) (by omega), digitChar_toNat _ (by omega)]

@[simp] theorem cps_toString_nat (n : Nat) : cps (toString n) = natToDec n := by
  rw [Nat.toString_eq_repr, Nat.repr_eq_ofList_toDigits, cps_ofList, toDigits_natToDec]

/-- `render` with the tag written by `toString` (the form the kernel can evaluate: `natToDec` is
defined by well-founded recursion); used by the concrete examples -/
def renderC (f : Session.Msg) : Bytes :=
  (f.tags.map fun p => cps (toString p.1) ++ EQS :: (cps p.2 ++ [SOH])).flatten

theorem render_eq_renderC (f : Session.Msg) : render f = renderC f := by
  unfold render renderC
  congr 1
  apply List.map_congr_left
  intro p _
  rw [renderField, cps_toString_nat]

/-- `str(n)` for a Python int (`pyStr`) is the codec's `intToDec` -/
@[simp] theorem cps_pyStr (i : Int) : cps (Session.pyStr i) = intToDec i := by
  cases i with
  | ofNat n =>
    show cps (Nat.repr n) = natToDec n
    rw [← Nat.toString_eq_repr]; exact cps_toString_nat n
  | negSucc n =>
    show cps ("-" ++ Nat.repr (n + 1)) = 45 :: natToDec (n + 1)
    rw [cps_append, ← Nat.toString_eq_repr, cps_toString_nat]; rfl

/-- `"%0.3i" % n`: `pad3` is the codec's `dec3` -/
theorem cps_pad3 (n : Nat) (h : n < 1000) : cps (Session.pad3 n) = dec3 n := by
  have hl := Codec.natToDec_length_lt1000 n h
  unfold Session.pad3 dec3
  by_cases h1 : n < 10
  · have : (natToDec n).length = 1 := by unfold natToDec; simp [h1]
    simp only [h1, if_true, cps_append, cps_toString_nat, this]; rfl
  · by_cases h2 : n < 100
    · have : (natToDec n).length = 2 := by
        unfold natToDec; simp only [h1, if_false, List.length_append, List.length_singleton]
        unfold natToDec; have : n / 10 < 10 := by omega
        simp [this]
      simp only [h1, h2, if_true, if_false, cps_append, cps_toString_nat, this]; rfl
    · have : (natToDec n).length = 3 := by
        unfold natToDec; simp only [h1, if_false, List.length_append, List.length_singleton]
        unfold natToDec; have h3 : ¬ n / 10 < 10 := by omega
        simp only [h3, if_false, List.length_append, List.length_singleton]
        unfold natToDec; have : n / 10 / 10 < 10 := by omega
        simp [this]
      simp only [h1, h2, if_false, cps_toString_nat, this]; rfl

/-! ### `fieldLen` / `fieldSum` are length / byte sum of the rendered field -/

theorem renderField_length (p : Nat × String) : (renderField p).length = Session.fieldLen p := by
  simp only [renderField, Session.fieldLen, List.length_append, List.length_cons, List.length_nil,
    cps_length]
  rw [← cps_length (toString p.1), cps_toString_nat]; omega

theorem foldl_ord (l : List Char) (k : Nat) :
    l.foldl (fun a ch => a + ch.toNat) k = k + Codec.sum (l.map Char.toNat) := by
  induction l generalizing k with
  | nil => simp [Codec.sum]
  | cons c cs ih => rw [List.foldl_cons, ih, List.map_cons, Codec.sum_cons]; omega

theorem renderField_sum (p : Nat × String) : Codec.sum (renderField p) = Session.fieldSum p := by
  simp only [renderField, Session.fieldSum, Codec.sum_append, Codec.sum_cons, foldl_ord]
  have h1 : Codec.sum ((toString p.1).toList.map Char.toNat) = Codec.sum (natToDec p.1) := by
    have := cps_toString_nat p.1; unfold cps at this; rw [this]
  rw [h1]
  simp [cps, Codec.sum, EQS, SOH]; omega

theorem sum_flatten (ls : List Bytes) : Codec.sum ls.flatten = (ls.map Codec.sum).sum := by
  induction ls with
  | nil => rfl
  | cons a r ih => simp [Codec.sum_append, ih]

theorem length_flatten_render (ps : List (Nat × String)) :
    ((ps.map renderField).flatten).length = (ps.map Session.fieldLen).sum := by
  induction ps with
  | nil => rfl
  | cons p r ih => simp [renderField_length, ih]

theorem sum_flatten_render (ps : List (Nat × String)) :
    Codec.sum ((ps.map renderField).flatten) = (ps.map Session.fieldSum).sum := by
  rw [sum_flatten, List.map_map]
  congr 1
  exact List.map_congr_left fun p _ => renderField_sum p

/-- rendering a field list is `bodyBytes` of the corresponding `Fld`s -/
theorem flatten_render_eq_bodyBytes (ps : List (Nat × String)) :
    (ps.map renderField).flatten = bodyBytes (ps.map toFld) := by
  induction ps with
  | nil => rfl
  | cons p r ih =>
    simp only [List.map_cons, List.flatten_cons, bodyBytes, ih, renderField, toFld, fieldBytes,
      List.append_assoc, List.cons_append, List.nil_append]

/-! ### BeginString: the two generated constants agree -/

theorem beginString_agree :
    cps AsyncFix.Generated.Proto.beginString = AsyncFix.Generated.Proto.beginStringBytes := by
  decide

end AsyncFix.Bridge
