import AsyncFix.Lemmas.LinkSyncB

/-!
Link family, coverage invariant, part C: the strengthened invariant `SyncInv'`, the symmetric form `P3` of the
"both logged on" phase with its two transitions (delivery `recv3`, application send `push3`), and the two
handshake transitions (`step_p1`: the acceptor takes the Logon, `step_p2`: the initiator takes the reply).
-/
namespace AsyncFix.Link

open AsyncFix.Session

/-- `SyncInv` plus: while the initiator's Logon is in flight (phase 1) its number `I.o - 1` is not below
what the acceptor expects.  (Without it the acceptor could answer the Logon with "MsgSeqNum too low".) -/
def SyncInv' (l : ALink) : Prop :=
  SyncInv l ∧ (l.i.st = .sent → l.a.st = .conn → l.a.e < l.i.o)

instance (l : ALink) : Decidable (SyncInv' l) := by unfold SyncInv'; infer_instance

theorem SyncInv'.syncInv {l : ALink} (h : SyncInv' l) : SyncInv l := h.1

/-- `SyncInv'` reads the endpoints and the two queues only -/
theorem syncInv'_congr {l l' : ALink} (hi : l'.i = l.i) (ha : l'.a = l.a) (hA : l'.toA = l.toA)
    (hI : l'.toI = l.toI) (h : SyncInv' l) : SyncInv' l' := by
  unfold SyncInv' SyncInv Phase at *
  rw [hi, ha, hA, hI]
  exact h

/-! ### phase 3, symmetric form -/

def P3 (X Y : AConn) (Q Q' : List AFrame) : Prop :=
  est X.st ∧ est Y.st ∧ (∀ f ∈ Q, clean f) ∧ (∀ f ∈ Q', clean f) ∧ DirSync X Y Q Q' ∧ DirSync Y X Q' Q ∧
  (X.st = .awaiting → 0 < X.w) ∧ (Y.st = .awaiting → 0 < Y.w)

theorem P3.symm {X Y : AConn} {Q Q' : List AFrame} (h : P3 X Y Q Q') : P3 Y X Q' Q := by
  obtain ⟨a, b, c, d, e, f, g, k⟩ := h
  exact ⟨b, a, d, c, f, e, k, g⟩

/-- `Y` takes the head of the queue `X → Y` -/
theorem recv3 {X Y : AConn} {f : AFrame} {rest Q' : List AFrame} (h : P3 X Y (f :: rest) Q') (he1 : 1 ≤ X.e)
    (hk : keysOK Y.o Y.out) (hmax : Y.o ≤ sysMaxsize + 1) :
    P3 X (arecv Y f).c rest (Q' ++ (arecv Y f).wr) ∧ (arecv Y f).c.ini = Y.ini := by
  obtain ⟨hX, hY, hQ, hQ', d1, d2, wX, wY⟩ := h
  obtain ⟨hh1, hh2, hh3⟩ := dirsync_head d1 hY
  obtain ⟨hc, hwr⟩ := arecv_est Y f hY hh1 (hQ f (by simp)) hh2 hh3
  obtain ⟨_, s2, s3⟩ := dirsync_serve (Y' := Y) d2 hX rfl he1 hk hmax
  have hq : requests (Q' ++ (served Y f).2) = requests Q' := by
    rw [requests_append, requests_data s2, List.append_nil]
  obtain ⟨r1, r2, r3, r4, r5⟩ := dirsync_recv d1 hY s3 hq wY (arecv Y f).c hc
  obtain ⟨t1, _, _⟩ := dirsync_serve (Y' := (arecv Y f).c) d2 hX r4 he1 hk hmax
  rw [hwr]
  refine ⟨⟨hX, r2, fun g hg => hQ g (by simp [hg]), ?_, r1, t1, wX, r3⟩, r5⟩
  intro g hg
  rcases List.mem_append.1 hg with hg | hg
  · exact hQ' g hg
  · exact (s2 g hg).clean

/-- `X` sends a fresh application frame -/
theorem push3 {X Y : AConn} {Q Q' : List AFrame} (h : P3 X Y Q Q') (p : Payload) (pd : Bool) :
    P3 (X.push (.app p pd)).1 Y (Q ++ [(X.push (.app p pd)).2]) Q' := by
  obtain ⟨hX, hY, hQ, hQ', d1, d2, wX, wY⟩ := h
  refine ⟨hX, hY, ?_, hQ', ?_, ?_, wX, wY⟩
  · intro g hg
    rcases List.mem_append.1 hg with hg | hg
    · exact hQ g hg
    · simp only [List.mem_singleton] at hg
      subst hg
      simp [clean, AConn.push]
  · exact dirsync_push_fwd d1 rfl rfl
  · exact dirsync_push_bwd d2 rfl rfl rfl rfl

/-! ### phase 2: the acceptor's Logon reply is in flight -/

def P2 (i a : AConn) (toI : List AFrame) : Prop :=
  i.st = .sent ∧ est a.st ∧ i.ini = true ∧ a.ini = false ∧
  (∃ f rest, toI = f :: rest ∧ f.kind = .logon ∧ i.e ≤ f.seq ∧ (∀ g ∈ rest, clean g) ∧ chain f.seq toI a.o) ∧
  DirSync i a [] toI ∧ (a.st = .awaiting → 0 < a.w)

theorem arecv_conn_logon_eq (a : AConn) (n : Int) (ha : a.st = .conn) (he : n = a.e) :
    arecv a ⟨n, .logon⟩ =
      { c := { a with ini := false, o := a.o + 1, out := a.out ++ [(a.o, none)], st := .active, e := a.e + 1 },
        wr := [⟨a.o, .logon⟩] } := by
  simp [arecv, ha, he, AConn.push, AKind.entry]

theorem arecv_conn_logon_gt (a : AConn) (n : Int) (ha : a.st = .conn) (hgt : a.e < n) :
    arecv a ⟨n, .logon⟩ =
      { c := { a with
                ini := false, o := a.o + 1 + 1, out := a.out ++ [(a.o, none)] ++ [(a.o + 1, none)],
                st := .awaiting, w := n },
        wr := [⟨a.o, .logon⟩, ⟨a.o + 1, .resend a.e⟩] } := by
  have h1 : ¬ n < a.e := by omega
  have h2 : ¬ n = a.e := by omega
  simp [arecv, ha, h1, h2, AConn.push, AConn.askResend, AKind.entry]

theorem arecv_sent_logon_eq (i : AConn) (n : Int) (h1 : i.st = .sent) (h3 : i.ini = true) (he : n = i.e) :
    arecv i ⟨n, .logon⟩ = { c := { i with st := .active, e := i.e + 1 } } := by
  simp [arecv, h1, h3, he]

theorem arecv_sent_logon_gt (i : AConn) (n : Int) (h1 : i.st = .sent) (h3 : i.ini = true) (hgt : i.e < n) :
    arecv i ⟨n, .logon⟩ =
      { c := { i with st := .awaiting, w := n, o := i.o + 1, out := i.out ++ [(i.o, none)] },
        wr := [⟨i.o, .resend i.e⟩] } := by
  have h4 : ¬ n < i.e := by omega
  have h2 : ¬ n = i.e := by omega
  simp [arecv, h1, h3, h4, h2, AConn.push, AConn.askResend, AKind.entry]

/-- the acceptor (`conn`) takes the initiator's Logon, numbered `I.o - 1 ≥ A.e` -/
theorem step_p1 {i a : AConn} (hi : i.st = .sent) (ha : a.st = .conn) (hini : i.ini = true) (hlt : a.e < i.o)
    (he1 : 1 ≤ a.e) (hs2 : i.e ≤ a.o) :
    P2 i (arecv a ⟨i.o - 1, .logon⟩).c (arecv a ⟨i.o - 1, .logon⟩).wr := by
  by_cases he : i.o - 1 = a.e
  · rw [arecv_conn_logon_eq a _ ha he]
    refine ⟨hi, Or.inl rfl, hini, rfl, ⟨_, _, rfl, rfl, hs2, by simp, ⟨rfl, ?_, rfl⟩⟩, ?_, by simp⟩
    · show a.o < a.o + 1
      omega
    · refine ⟨fun _ => ⟨?_, by simp [requests, resendB]⟩, by simp⟩
      show a.e + 1 = i.o
      omega
  · rw [arecv_conn_logon_gt a _ ha (by omega)]
    refine ⟨hi, Or.inr rfl, hini, rfl, ⟨_, _, rfl, rfl, hs2, by simp [clean], ⟨rfl, ?_, rfl, ?_, rfl⟩⟩, ?_, ?_⟩
    · show a.o < a.o + 1
      omega
    · show a.o + 1 < a.o + 1 + 1
      omega
    · refine ⟨by simp, fun _ => ⟨?_, ?_, Or.inl ⟨rfl, rfl⟩⟩⟩
      · show a.e ≤ i.o - 1
        omega
      · show i.o - 1 < i.o
        omega
    · intro _
      show 0 < i.o - 1
      omega

/-- the acceptor sends a fresh application frame behind its Logon reply -/
theorem push_p2 {i a : AConn} {toI : List AFrame} (h : P2 i a toI) (p : Payload) (pd : Bool) :
    P2 i (a.push (.app p pd)).1 (toI ++ [(a.push (.app p pd)).2]) := by
  obtain ⟨h1, h2, h3, h4, ⟨f, rest, rfl, h5, h6, h7, h8⟩, h9, h10⟩ := h
  refine ⟨h1, h2, h3, h4, ⟨f, rest ++ [(a.push (.app p pd)).2], rfl, h5, h6, ?_, ?_⟩, ?_, h10⟩
  · intro g hg
    rcases List.mem_append.1 hg with hg | hg
    · exact h7 g hg
    · simp only [List.mem_singleton] at hg
      subst hg
      simp [clean, AConn.push]
  · exact chain_snoc (Q := f :: rest) ⟨a.o, .app p pd⟩ h8 rfl (by show a.o < a.o + 1; omega)
  · exact dirsync_push_bwd (Q := f :: rest) h9 rfl rfl rfl rfl

/-- the initiator (`sent`) takes the Logon reply -/
theorem step_p2 {i a : AConn} {f : AFrame} {rest : List AFrame} (h : P2 i a (f :: rest)) (he1 : 1 ≤ i.e) :
    P3 (arecv i f).c a (arecv i f).wr rest ∧ (arecv i f).c.ini = true := by
  obtain ⟨h1, h2, h3, h4, ⟨f', rest', heq, h5, h6, h7, h8⟩, h9, h10⟩ := h
  obtain ⟨rfl, rfl⟩ := List.cons.inj heq
  obtain ⟨n, k⟩ := f
  simp only at h5 h6
  subst h5
  obtain ⟨_, _, h8⟩ := h8
  simp only [AFrame.next] at h8
  have hr : requests (⟨n, .logon⟩ :: rest) = requests rest := by simp [requests_cons, resendB]
  have h9' : DirSync i a [] rest := by simpa [DirSync, hr] using h9
  by_cases he : n = i.e
  · rw [arecv_sent_logon_eq i n h1 h3 he]
    refine ⟨⟨Or.inl rfl, h2, by simp, h7, ?_, ?_, by simp, h10⟩, h3⟩
    · simpa [DirSync] using h9'
    · refine ⟨fun _ => ⟨?_, rfl⟩, by simp⟩
      show chain (i.e + 1) rest a.o
      rw [← he]; exact h8
  · have hgt : i.e < n := by omega
    have hno := chain_le h8
    rw [arecv_sent_logon_gt i n h1 h3 hgt]
    have hq : resendB ⟨i.o, .resend i.e⟩ = some i.e := rfl
    refine ⟨⟨Or.inr rfl, h2, ?_, h7, ?_, ?_, ?_, h10⟩, h3⟩
    · intro g hg
      simp only [List.mem_singleton] at hg
      subst hg
      simp [clean]
    · have := dirsync_push_fwd (X' := { i with st := .awaiting, w := n, o := i.o + 1, out := i.out ++ [(i.o, none)] }) (k := .resend i.e) h9' rfl rfl
      simpa using this
    · refine ⟨by simp, fun _ => ⟨h6, ?_, Or.inl ⟨?_, rfl⟩⟩⟩
      · show n < a.o
        omega
      · exact dropWhile_chain_above h8 (show i.e < n + 1 by omega)
    · intro _
      show 0 < n
      omega

end AsyncFix.Link
