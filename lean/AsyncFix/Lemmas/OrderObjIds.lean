/-
Arbitrary call sequences: the local invariant is kept, the gates imply that the builders succeed,
the ClOrdID counter strictly increases and every id built is `<root of the current id>--<counter>`;
for roots that are non-empty and not of the chain form this is `<root>--<counter>`.
-/
import AsyncFix.Lemmas.OrderObjLocal
namespace AsyncFix.Model.OrderObj
open AsyncFix.Model.OrderTable AsyncFix.Props.C16

theorem applyOp_fst (o : Order) (op : Op) :
    (applyOp o op).1 = match op with
      | .newReq => (newReq o).1
      | .cancelReq => (cancelReq o).1
      | .replaceReq p q => (replaceReq o p q).1
      | .execReport r => (processExecReport o r).1
      | .cancelRej r => (processCancelRej o r).1 := by
  cases op <;> rfl

theorem applyOp_inv (o : Order) (op : Op) (h : LocalInv o) : LocalInv (applyOp o op).1 := by
  rw [applyOp_fst]
  cases op with
  | newReq => exact newReq_inv o h
  | cancelReq => exact cancelReq_inv o h
  | replaceReq p q => exact replaceReq_inv o p q h
  | execReport r => exact processExecReport_inv o r h
  | cancelRej r => exact processCancelRej_inv o r h

theorem runOps_inv (o : Order) (ops : List Op) (h : LocalInv o) : LocalInv (runOps o ops) := by
  induction ops generalizing o with
  | nil => exact h
  | cons op rest ih => exact ih _ (applyOp_inv o op h)

/-! ### gates ⇒ builders -/

theorem not_truthy_of_live {o : Order} (h : LocalInv o) (hl : o.status ∈ live) :
    truthy o.origClordId = false := by
  cases ht : truthy o.origClordId with
  | false => rfl
  | true => exact absurd (h.orig ht) (live_not_sticky hl)

theorem live_of_can {o : Order} {b : Res Bool} (hb : b = .ok (decide (o.status ∈ live)))
    (h : b = .ok true) : o.status ∈ live := by
  rw [hb] at h
  simpa using h

theorem cancelReq_builds (o : Order) (h : LocalInv o) (hc : canCancel o = .ok true) :
    (cancelReq o).2 = .ok ⟨"F", [(11, .text (nextId o)), (38, .num o.qty), (41, .text o.clordId),
      (55, .text o.ticker), (54, .text o.side), (60, .text clock)]⟩ ∧
    (cancelReq o).1 = startRequest o "6" := by
  have hl := live_of_can (canCancel_eq o) hc
  have ht := not_truthy_of_live h hl
  unfold cancelReq
  rw [hc]
  simp [ht]

theorem replaceReq_builds (o : Order) (p q : Option Int) (h : LocalInv o) (hc : canReplace o = .ok true)
    (hchange : effPrice o p ≠ o.price ∨ effQty o q ≠ o.qty) :
    (replaceReq o p q).2 = .ok ⟨"G", [(11, .text (nextId o)), (41, .text o.clordId), (40, .text o.ordType),
      (55, .text o.ticker), (44, .num (effPrice o p)), (38, .num (effQty o q)), (54, .text o.side),
      (60, .text clock)]⟩ ∧
    (replaceReq o p q).1 = startRequest o "E" := by
  have hl := live_of_can (canReplace_eq o) hc
  have ht := not_truthy_of_live h hl
  have hne : ¬ (effPrice o p = o.price ∧ effQty o q = o.qty) := by
    intro ⟨h1, h2⟩; rcases hchange with h | h
    · exact h h1
    · exact h h2
  unfold replaceReq
  rw [hc]
  simp [ht, hne]

/-- a request that is refused leaves the order untouched and raises FIXError -/
theorem cancelReq_refused (o : Order) (hc : canCancel o = .ok false) :
    cancelReq o = (o, .raised .fixError) := by
  unfold cancelReq; rw [hc]

theorem replaceReq_refused (o : Order) (p q : Option Int) (hc : canReplace o = .ok false) :
    replaceReq o p q = (o, .raised .fixError) := by
  unfold replaceReq; rw [hc]

/-! ### counter and ids -/

theorem setStatus_cnt (o : Order) (s : String) : (setStatus o s).1.clordCnt = o.clordCnt := by
  unfold setStatus; split <;> rfl

theorem revertId_cnt (o : Order) : (revertId o).clordCnt = o.clordCnt := by
  unfold revertId; split <;> rfl

/-- the order after `process_cancel_rej_report` -/
theorem processCancelRej_cases (o : Order) (r : Report) :
    (processCancelRej o r).1 = o ∨ ∃ x : Order, (x = o ∨ x = { o with leavesQty := 0 }) ∧
      ((processCancelRej o r).1 = revertId x ∨ ∃ s, (processCancelRej o r).1 = (setStatus (revertId x) s).1) := by
  unfold processCancelRej
  split
  · exact Or.inl rfl
  · split
    · exact Or.inl rfl
    · rename_i st _
      have hx : (if st = "8" then { o with leavesQty := 0 } else o) = o ∨
          (if st = "8" then { o with leavesQty := 0 } else o) = { o with leavesQty := 0 } := by
        split
        · exact Or.inr rfl
        · exact Or.inl rfl
      split
      · exact Or.inl rfl
      · rename_i s _; exact Or.inr ⟨_, hx, Or.inr ⟨s, rfl⟩⟩
      · exact Or.inr ⟨_, hx, Or.inl rfl⟩

/-- a cancel reject keeps the status or sets the one the table allowed -/
theorem processCancelRej_status (o : Order) (r : Report) :
    (processCancelRej o r).1.status = o.status ∨
    ∃ st, changeStatus spec o.status "9" omitted st false = .to (processCancelRej o r).1.status := by
  unfold processCancelRej
  split
  · exact Or.inl rfl
  · split
    · exact Or.inl rfl
    · rename_i st _
      have hk : (revertId (if st = "8" then { o with leavesQty := 0 } else o)).status = o.status := by
        unfold revertId; repeat' split
        all_goals rfl
      split
      · exact Or.inl rfl
      · rename_i s hs
        unfold setStatus
        split
        · exact Or.inr ⟨st, hs⟩
        · exact Or.inl hk
      · exact Or.inl hk

theorem processCancelRej_cnt (o : Order) (r : Report) :
    (processCancelRej o r).1.clordCnt = o.clordCnt := by
  rcases processCancelRej_cases o r with h | ⟨x, hx, h | ⟨s, h⟩⟩
  · rw [h]
  · rw [h, revertId_cnt]; rcases hx with rfl | rfl <;> rfl
  · rw [h, setStatus_cnt, revertId_cnt]; rcases hx with rfl | rfl <;> rfl

def msgD (o : Order) : Msg :=
  ⟨"D", [(11, .text (nextId o)), (55, .text o.ticker), (1, .text o.account), (40, .text o.ordType),
         (54, .text o.side), (60, .text clock), (44, .num o.price), (38, .num o.qty)]⟩
def msgF (o : Order) : Msg :=
  ⟨"F", [(11, .text (nextId o)), (38, .num o.qty), (41, .text o.clordId), (55, .text o.ticker),
         (54, .text o.side), (60, .text clock)]⟩
def msgG (o : Order) (p q : Int) : Msg :=
  ⟨"G", [(11, .text (nextId o)), (41, .text o.clordId), (40, .text o.ordType), (55, .text o.ticker),
         (44, .num p), (38, .num q), (54, .text o.side), (60, .text clock)]⟩

theorem newReq_cases (o : Order) :
    (∃ e, newReq o = (o, .raised e)) ∨ newReq o = ({ takeNextId o with status := "A" }, .ok (msgD o)) := by
  unfold newReq; split
  · exact Or.inl ⟨_, rfl⟩
  · exact Or.inr rfl

theorem cancelReq_cases (o : Order) :
    (∃ e, cancelReq o = (o, .raised e)) ∨ cancelReq o = (startRequest o "6", .ok (msgF o)) := by
  unfold cancelReq
  repeat' split
  all_goals first
    | exact Or.inl ⟨_, rfl⟩
    | exact Or.inr rfl

theorem replaceReq_cases (o : Order) (p q : Option Int) :
    (∃ e, replaceReq o p q = (o, .raised e)) ∨
    replaceReq o p q = (startRequest o "E", .ok (msgG o (effPrice o p) (effQty o q))) := by
  unfold replaceReq
  repeat' split
  all_goals first
    | exact Or.inl ⟨_, rfl⟩
    | exact Or.inr rfl

/-- one call: either nothing is built and the counter is unchanged, or the request carries the id
`nextId o`, OrigClOrdID = the id the order had (for cancel / replace), and the counter went up by one -/
theorem applyOp_built (o : Order) (op : Op) :
    ((∃ e, (applyOp o op).2 = .raised e) ∨ (applyOp o op).2 = .ok none) ∧ (applyOp o op).1.clordCnt = o.clordCnt ∨
    ∃ m, (applyOp o op).2 = .ok (some m) ∧ (applyOp o op).1.clordCnt = o.clordCnt + 1 ∧
      m.clOrdId = some (nextId o) ∧ (applyOp o op).1.clordId = nextId o ∧
      (m.msgType ≠ "D" → m.origClOrdId = some o.clordId ∧ (applyOp o op).1.origClordId = some o.clordId) := by
  cases op with
  | newReq =>
    rcases newReq_cases o with ⟨e, h⟩ | h
    · left; simp [applyOp, liftBuild, h]
    · right; refine ⟨msgD o, ?_⟩
      simp [applyOp, liftBuild, h, msgD, Msg.clOrdId, getText, takeNextId]
  | cancelReq =>
    rcases cancelReq_cases o with ⟨e, h⟩ | h
    · left; simp [applyOp, liftBuild, h]
    · right; refine ⟨msgF o, ?_⟩
      simp [applyOp, liftBuild, h, msgF, Msg.clOrdId, Msg.origClOrdId, getText, takeNextId, startRequest]
  | replaceReq p q =>
    rcases replaceReq_cases o p q with ⟨e, h⟩ | h
    · left; simp [applyOp, liftBuild, h]
    · right; refine ⟨msgG o (effPrice o p) (effQty o q), ?_⟩
      simp [applyOp, liftBuild, h, msgG, Msg.clOrdId, Msg.origClOrdId, getText, takeNextId, startRequest]
  | execReport r =>
    left
    have := (processExecReport_shape o r).cnt
    simp only [applyOp, liftRet]
    refine ⟨?_, this⟩
    split <;> simp
  | cancelRej r =>
    left
    have := processCancelRej_cnt o r
    simp only [applyOp, liftRet]
    refine ⟨?_, this⟩
    split <;> simp

theorem builtOps_spec (o : Order) (ops : List Op) :
    ∀ cm ∈ builtOps o ops, o.clordCnt < cm.1 ∧ ∃ x, cm.2.clOrdId = some (x ++ [45, 45] ++ dec cm.1) := by
  induction ops generalizing o with
  | nil => intro cm h; simp [builtOps] at h
  | cons op rest ih =>
    intro cm hcm
    rcases applyOp_built o op with ⟨hres, hcnt⟩ | ⟨m, hres, hcnt, hid, _⟩
    · have hb : builtOps o (op :: rest) = builtOps (applyOp o op).1 rest := by
        rw [builtOps]
        rcases hres with ⟨e, he⟩ | he
        · split <;> simp_all
        · split <;> simp_all
      rw [hb] at hcm
      have := ih _ cm hcm
      rw [hcnt] at this
      exact this
    · have hb : builtOps o (op :: rest) =
          ((applyOp o op).1.clordCnt, m) :: builtOps (applyOp o op).1 rest := by
        rw [builtOps]
        split <;> simp_all
      rw [hb] at hcm
      rcases List.mem_cons.mp hcm with rfl | hcm
      · refine ⟨by simp [hcnt], clordRoot o.clordId, ?_⟩
        simp [hid, nextId, hcnt]
      · have := ih _ cm hcm
        exact ⟨by omega, this.2⟩

/-- the counter values of the requests built are strictly increasing … -/
theorem builtOps_sorted (o : Order) (ops : List Op) :
    (builtOps o ops).Pairwise (fun a b => a.1 < b.1) := by
  induction ops generalizing o with
  | nil => simp [builtOps]
  | cons op rest ih =>
    rw [builtOps]
    split
    · rename_i o' m heq
      refine List.Pairwise.cons ?_ (ih o')
      intro cm hcm
      exact (builtOps_spec o' rest cm hcm).1
    · exact ih _

/-- … hence no ClOrdID is ever built twice, whatever the root looks like -/
theorem builtOps_fresh (o : Order) (ops : List Op) :
    (builtOps o ops).Pairwise (fun a b => a.2.clOrdId ≠ b.2.clOrdId) := by
  have hs := builtOps_sorted o ops
  have hspec := builtOps_spec o ops
  generalize builtOps o ops = l at hs hspec
  induction l with
  | nil => exact List.Pairwise.nil
  | cons a l ih =>
    rw [List.pairwise_cons] at hs ⊢
    refine ⟨?_, ih hs.2 (fun cm h => hspec cm (List.mem_cons_of_mem _ h))⟩
    intro b hb heq
    obtain ⟨_, x, hx⟩ := hspec a (by simp)
    obtain ⟨_, y, hy⟩ := hspec b (List.mem_cons_of_mem _ hb)
    rw [hx, hy] at heq
    have := chain_id_inj (Option.some.inj heq)
    have := hs.1 b hb
    omega

/-! ### roots the property covers -/

/-- non-empty, not itself ending in the chaining suffix -/
structure GoodRoot (root : Str) : Prop where
  ne : root ≠ []
  bare : ¬ ChainForm root

/-- every id the order holds is the root or a chained id of the root -/
def IdOf (root : Str) (x : Str) : Prop := x = root ∨ ∃ j, x = root ++ [45, 45] ++ dec j

structure IdInv (root : Str) (o : Order) : Prop where
  clord : IdOf root o.clordId
  orig : ∀ x, o.origClordId = some x → IdOf root x

theorem clordRoot_idOf {root x : Str} (g : GoodRoot root) (h : IdOf root x) : clordRoot x = root := by
  rcases h with rfl | ⟨j, rfl⟩
  · exact clordRoot_bare _ g.bare
  · exact clordRoot_chain_dec root j g.ne

theorem nextId_good {root : Str} {o : Order} (g : GoodRoot root) (h : IdInv root o) :
    nextId o = root ++ [45, 45] ++ dec (o.clordCnt + 1) := by
  unfold nextId; rw [clordRoot_idOf g h.clord]

theorem applyOp_idInv {root : Str} (g : GoodRoot root) (o : Order) (op : Op) (h : IdInv root o) :
    IdInv root (applyOp o op).1 := by
  have hn : IdOf root (nextId o) := Or.inr ⟨_, nextId_good g h⟩
  rw [applyOp_fst]
  cases op with
  | newReq =>
    show IdInv root (newReq o).1
    rcases newReq_cases o with ⟨e, h'⟩ | h'
    · rw [h']; exact h
    · rw [h']; exact ⟨hn, h.orig⟩
  | cancelReq =>
    show IdInv root (cancelReq o).1
    rcases cancelReq_cases o with ⟨e, h'⟩ | h'
    · rw [h']; exact h
    · rw [h']; exact ⟨hn, fun x hx => by simp [startRequest, takeNextId] at hx; exact hx ▸ h.clord⟩
  | replaceReq p q =>
    show IdInv root (replaceReq o p q).1
    rcases replaceReq_cases o p q with ⟨e, h'⟩ | h'
    · rw [h']; exact h
    · rw [h']; exact ⟨hn, fun x hx => by simp [startRequest, takeNextId] at hx; exact hx ▸ h.clord⟩
  | execReport r =>
    show IdInv root (processExecReport o r).1
    have sh := processExecReport_shape o r
    refine ⟨sh.clord ▸ h.clord, fun x hx => ?_⟩
    rcases sh.orig with ho | ⟨ho, _⟩
    · exact h.orig x (ho ▸ hx)
    · rw [ho] at hx; cases hx
  | cancelRej r =>
    have key : ∀ o1 : Order, IdInv root o1 → IdInv root (revertId o1) := by
      intro o1 h1
      unfold revertId
      split
      · refine ⟨?_, fun x hx => by cases hx⟩
        cases ho : o1.origClordId with
        | none => simp [ho, truthy] at *
        | some x => exact h1.orig x ho
      · exact h1
    have key2 : ∀ (o1 : Order) (s : String), IdInv root o1 → IdInv root (setStatus o1 s).1 := by
      intro o1 s h1; unfold setStatus; split
      · exact ⟨h1.clord, h1.orig⟩
      · exact h1
    have hl : ∀ x : Order, (x = o ∨ x = { o with leavesQty := 0 }) → IdInv root x := by
      intro x hx; rcases hx with rfl | rfl
      · exact h
      · exact ⟨h.clord, h.orig⟩
    show IdInv root (processCancelRej o r).1
    rcases processCancelRej_cases o r with h' | ⟨x, hx, h' | ⟨s, h'⟩⟩
    · rw [h']; exact h
    · rw [h']; exact key _ (hl x hx)
    · rw [h']; exact key2 _ _ (key _ (hl x hx))

/-- for a good root every request built carries exactly `<root>--<counter>` -/
theorem builtOps_good {root : Str} (g : GoodRoot root) (o : Order) (ops : List Op) (h : IdInv root o) :
    ∀ cm ∈ builtOps o ops, cm.2.clOrdId = some (root ++ [45, 45] ++ dec cm.1) := by
  induction ops generalizing o with
  | nil => intro cm h; simp [builtOps] at h
  | cons op rest ih =>
    intro cm hcm
    have hinv := applyOp_idInv g o op h
    rcases applyOp_built o op with ⟨hres, _⟩ | ⟨m, hres, hcnt, hid, _⟩
    · have hb : builtOps o (op :: rest) = builtOps (applyOp o op).1 rest := by
        rw [builtOps]
        rcases hres with ⟨e, he⟩ | he
        · split <;> simp_all
        · split <;> simp_all
      rw [hb] at hcm
      exact ih _ hinv cm hcm
    · have hb : builtOps o (op :: rest) =
          ((applyOp o op).1.clordCnt, m) :: builtOps (applyOp o op).1 rest := by
        rw [builtOps]
        split <;> simp_all
      rw [hb] at hcm
      rcases List.mem_cons.mp hcm with rfl | hcm
      · simp [hid, nextId_good g h, hcnt]
      · exact ih _ hinv cm hcm

end AsyncFix.Model.OrderObj
