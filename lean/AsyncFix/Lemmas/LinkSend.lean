import AsyncFix.Lemmas.LinkGood

/-!
C07: exact evaluation of the outbound primitives of the Session model (`stateSet`, `sendGate`, `sendCore`,
`sendMsg`, `disconnect`) on connections whose relevant fields are known.
-/
namespace AsyncFix.Link

open AsyncFix.Session AsyncFix.Generated AsyncFix.Generated.ConnEnum
open AsyncFix.Session.Msg

/-- the connection after a freshly numbered frame was journaled -/
def sentFresh (c : Conn) (frame : Msg) : Conn :=
  { c with sess := { c.sess with nextOut := c.sess.nextOut + 1 },
           journal := { c.journal with out := c.journal.out ++ [(c.sess.nextOut, frame)],
                                       outSeq := c.sess.nextOut } }

/-- the connection after a frame was journaled under its own number `n` -/
def sentAt (c : Conn) (n : Int) (frame : Msg) : Conn :=
  { c with journal := { c.journal with out := c.journal.out ++ [(n, frame)], outSeq := n } }

def setState (c : Conn) (s : Nat) : Conn :=
  { c with state := s, wasActive := c.wasActive || s == st_ACTIVE }

theorem stateSet_apply (s : Nat) (c : Conn) : stateSet s c = ⟨.ok (), setState c s, [.onState s]⟩ := by
  simp [stateSet, setState, M.bind_apply]

theorem sendCore_fresh' (env : Env) (m : Msg) (c : Conn)
    (h1 : m.mtype ≠ mTestRequest) (h4 : m.mtype ≠ mSequenceReset) (hpd : ¬ (m.get? tPossDupFlag).getD "N" = "Y")
    (hl : frameLatin1 (buildFrame c.sess env.stamp m c.sess.nextOut) = true)
    (hrows : AllLt c.sess.nextOut c.journal.out) (hs : c.sock = true) :
    sendCore env m c = ⟨.ok (), sentFresh c (buildFrame c.sess env.stamp m c.sess.nextOut),
      [.write (buildFrame c.sess env.stamp m c.sess.nextOut)]⟩ := by
  have hb : buildFrame { c.sess with nextOut := c.sess.nextOut + 1 } env.stamp m c.sess.nextOut
      = buildFrame c.sess env.stamp m c.sess.nextOut := buildFrame_sess _ _ _ _ _ rfl rfl
  simp [sendCore, encodeSeq, M.bind_apply, h1, h4, hpd, hb, hl, Journal.persist, insert_append _ _ _ hrows, hs,
    sentFresh]

theorem sendCore_fresh (env : Env) (m : Msg) (c : Conn)
    (h1 : m.mtype ≠ mTestRequest) (h4 : m.mtype ≠ mSequenceReset) (hpd : m.get? tPossDupFlag = none)
    (hl : frameLatin1 (buildFrame c.sess env.stamp m c.sess.nextOut) = true)
    (hrows : AllLt c.sess.nextOut c.journal.out) (hs : c.sock = true) :
    sendCore env m c = ⟨.ok (), sentFresh c (buildFrame c.sess env.stamp m c.sess.nextOut),
      [.write (buildFrame c.sess env.stamp m c.sess.nextOut)]⟩ := by
  have hb : buildFrame { c.sess with nextOut := c.sess.nextOut + 1 } env.stamp m c.sess.nextOut
      = buildFrame c.sess env.stamp m c.sess.nextOut := buildFrame_sess _ _ _ _ _ rfl rfl
  simp [sendCore, encodeSeq, M.bind_apply, h1, h4, hpd, hb, hl, Journal.persist, insert_append _ _ _ hrows, hs,
    sentFresh]

/-- a SequenceReset is sent under its own MsgSeqNum, the counter stays -/
theorem sendCore_seqreset (env : Env) (m : Msg) (n : Int) (c : Conn)
    (h4 : m.mtype = mSequenceReset) (h34 : m.get? tMsgSeqNum = some (pyStr n))
    (hl : frameLatin1 (buildFrame c.sess env.stamp m n) = true)
    (hrows : AllLt n c.journal.out) (hs : c.sock = true) :
    sendCore env m c = ⟨.ok (), sentAt c n (buildFrame c.sess env.stamp m n),
      [.write (buildFrame c.sess env.stamp m n)]⟩ := by
  have h1 : m.mtype ≠ mTestRequest := by rw [h4]; decide
  have hb4 : (m.mtype == mSequenceReset) = true := by simp [h4]
  simp [sendCore, encodeSeq, M.bind_apply, h1, hb4, Msg.has, h34, Msg.get, M.int_apply, pyInt_pyStr, hl,
    Journal.persist, insert_append _ _ _ hrows, hs, sentAt]

/-- a retransmission (PossDupFlag=Y, own MsgSeqNum) -/
theorem sendCore_replay (env : Env) (m : Msg) (n : Int) (c : Conn)
    (h1 : m.mtype ≠ mTestRequest) (h4 : m.mtype ≠ mSequenceReset) (hpd : m.get? tPossDupFlag = some "Y")
    (h34 : m.get? tMsgSeqNum = some (pyStr n))
    (hl : frameLatin1 (buildFrame c.sess env.stamp m n) = true)
    (hrows : AllLt n c.journal.out) (hs : c.sock = true) :
    sendCore env m c = ⟨.ok (), sentAt c n (buildFrame c.sess env.stamp m n),
      [.write (buildFrame c.sess env.stamp m n)]⟩ := by
  simp [sendCore, encodeSeq, M.bind_apply, h1, h4, hpd, Msg.has, h34, Msg.get, M.int_apply, pyInt_pyStr, hl,
    Journal.persist, insert_append _ _ _ hrows, hs, sentAt]

/-- the state gate of `send_msg` in an established phase -/
theorem sendGate_pass (m : Msg) (c : Conn) (h6 : st_NETWORK_CONN_ESTABLISHED < c.state)
    (h7 : ¬ (c.role = roleInitiator ∧ c.state = st_LOGON_INITIAL_SENT ∧ m.mtype ≠ mLogout)) :
    sendGate m c = ⟨.ok (), c, []⟩ := by
  have a1 : ¬ c.state < st_NETWORK_CONN_ESTABLISHED := by omega
  have a2 : (c.state == st_NETWORK_CONN_ESTABLISHED) = false := by
    simp only [beq_eq_false_iff_ne, ne_eq]; omega
  have a3 : (c.role == roleInitiator && c.state == st_LOGON_INITIAL_SENT && m.mtype != mLogout) = false := by
    cases hb : (c.role == roleInitiator && c.state == st_LOGON_INITIAL_SENT && m.mtype != mLogout) with
    | false => rfl
    | true =>
      simp only [Bool.and_eq_true, beq_iff_eq, bne_iff_ne, ne_eq] at hb
      exact absurd ⟨hb.1.1, hb.1.2, hb.2⟩ h7
  simp only [sendGate, M.bind_apply, M.get_apply, a1, if_false, a2, a3, M.pure_apply, Bool.false_eq_true]
  rfl

/-- the state gate on a fresh transport: only Logon / Logout; the role becomes INITIATOR -/
theorem sendGate_conn (m : Msg) (c : Conn) (h6 : c.state = st_NETWORK_CONN_ESTABLISHED)
    (hm : m.mtype = mLogon ∨ m.mtype = mLogout) :
    sendGate m c = ⟨.ok (), { setState c st_LOGON_INITIAL_SENT with role := roleInitiator },
      [.onState st_LOGON_INITIAL_SENT]⟩ := by
  have a1 : ¬ c.state < st_NETWORK_CONN_ESTABLISHED := by omega
  have a2 : (c.state == st_NETWORK_CONN_ESTABLISHED) = true := by simp [h6]
  have a3 : (m.mtype != mLogon && m.mtype != mLogout) = false := by
    rcases hm with hm | hm <;> simp [hm]
  simp only [sendGate, M.bind_apply, M.get_apply, a1, if_false, a2, a3, if_true, stateSet_apply, M.modify_apply,
    Bool.false_eq_true]
  rfl

theorem sendGate_refuse (m : Msg) (c : Conn)
    (h : c.state < st_NETWORK_CONN_ESTABLISHED ∨
      (c.state = st_NETWORK_CONN_ESTABLISHED ∧ m.mtype ≠ mLogon ∧ m.mtype ≠ mLogout) ∨
      (st_NETWORK_CONN_ESTABLISHED < c.state ∧ c.role = roleInitiator ∧ c.state = st_LOGON_INITIAL_SENT ∧
        m.mtype ≠ mLogout)) :
    sendGate m c = ⟨.error .connection, c, []⟩ := by
  rcases h with h | ⟨h, h1, h2⟩ | ⟨h0, h1, h2, h3⟩
  · simp only [sendGate, M.bind_apply, M.get_apply, h, if_true, M.throw_apply]
    rfl
  · have a1 : ¬ c.state < st_NETWORK_CONN_ESTABLISHED := by omega
    have a2 : (c.state == st_NETWORK_CONN_ESTABLISHED) = true := by simp [h]
    have a3 : (m.mtype != mLogon && m.mtype != mLogout) = true := by simp [h1, h2]
    simp only [sendGate, M.bind_apply, M.get_apply, a1, if_false, a2, a3, if_true, M.throw_apply]
    rfl
  · have a1 : ¬ c.state < st_NETWORK_CONN_ESTABLISHED := by omega
    have a2 : (c.state == st_NETWORK_CONN_ESTABLISHED) = false := by
      simp only [beq_eq_false_iff_ne, ne_eq]; omega
    have a3 : (c.role == roleInitiator && c.state == st_LOGON_INITIAL_SENT && m.mtype != mLogout) = true := by
      simp [h1, h2, h3]
    simp only [sendGate, M.bind_apply, M.get_apply, a1, if_false, a2, a3, if_true, M.throw_apply,
      Bool.false_eq_true]
    rfl

/-- `send_msg` of a freshly numbered message in an established phase -/
theorem sendMsg_fresh (env : Env) (m : Msg) (c : Conn) (h6 : st_NETWORK_CONN_ESTABLISHED < c.state)
    (h7 : ¬ (c.role = roleInitiator ∧ c.state = st_LOGON_INITIAL_SENT ∧ m.mtype ≠ mLogout))
    (h1 : m.mtype ≠ mTestRequest) (h4 : m.mtype ≠ mSequenceReset) (hpd : m.get? tPossDupFlag = none)
    (hl : frameLatin1 (buildFrame c.sess env.stamp m c.sess.nextOut) = true)
    (hrows : AllLt c.sess.nextOut c.journal.out) (hs : c.sock = true) :
    sendMsg env m c = ⟨.ok (), sentFresh c (buildFrame c.sess env.stamp m c.sess.nextOut),
      [.write (buildFrame c.sess env.stamp m c.sess.nextOut)]⟩ := by
  rw [sendMsg, M.bind_ok (sendGate_pass m c h6 h7), sendCore_fresh env m c h1 h4 hpd hl hrows hs]
  rfl

theorem sendMsg_gate_ok {env : Env} {m : Msg} {c c1 : Conn} {e1 : List Effect}
    (h : sendGate m c = ⟨.ok (), c1, e1⟩) :
    sendMsg env m c = ⟨(sendCore env m c1).res, (sendCore env m c1).conn, e1 ++ (sendCore env m c1).eff⟩ :=
  M.bind_ok h

theorem sendMsg_gate_err {env : Env} {m : Msg} {c c1 : Conn} {e1 : List Effect} {ex : Exc}
    (h : sendGate m c = ⟨.error ex, c1, e1⟩) : sendMsg env m c = ⟨.error ex, c1, e1⟩ :=
  M.bind_err h

end AsyncFix.Link
