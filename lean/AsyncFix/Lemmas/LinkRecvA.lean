import AsyncFix.Lemmas.LinkBuilt

/-!
C07: `Session.recv` on a well-formed frame agrees with the abstract receiver `arecv` – part A: the statement
(`StepOK`), the evaluation tactic, application frames.
-/
namespace AsyncFix.Link

open AsyncFix.Session AsyncFix.Generated AsyncFix.Generated.ConnEnum
open AsyncFix.Session.Msg

/-- what the simulation needs of one entry point of endpoint `s`: the abstraction of the new connection, of the
frames written and of the messages delivered is what the abstract model says; well-formedness is kept -/
structure StepOK (s : Side) (r : ARes) (c' : Conn) (eff : List Effect) : Prop where
  conn : absConn c' = r.c
  wr : (writesOf eff).map absFrame = r.wr
  dl : (deliveriesOf eff).map absDelivered = r.dl
  good : ConnGood s c'
  frames : ∀ g ∈ writesOf eff, FrameGood s.name s.other.name g

/-- unfold `_process_message` and everything below it except the send path and the resend servicing -/
macro "ev_simp" "[" ts:Lean.Parser.Tactic.simpLemma,* "]" : tactic =>
  `(tactic| simp [recv, M.run, processMessage, validateIntegrity, M.bind_apply, Msg.get, Msg.has, pyInt_pyStr, swallow,
      M.tryCatch_apply, processHead, processDispatch, M.assert_apply, checkSeqnumGaps, M.int_apply, finalizeMessage,
      setNextNumIn, persistInbound, Journal.persist, processLogon, processLogout, processSeqreset, setSeqNum,
      Journal.setSeq, stateSet_apply, setState, disconnect,
      st_ACTIVE, st_NETWORK_CONN_ESTABLISHED, st_LOGON_INITIAL_SENT, st_DISCONNECTED_BROKEN_CONN,
      st_DISCONNECTED_WCONN_TODAY, st_DISCONNECTED_NOCONN_TODAY, st_RESENDREQ_AWAITING, st_LOGON_INITIAL_RECV,
      st_RECV_SEQNUM_TOO_HIGH, st_RESENDREQ_HANDLING, writesOf, deliveriesOf,
      absConn, absSt, restState, absDelivered, AConn.advance, AConn.askResend, AConn.push, AConn.drop, AConn.dropLogout,
      AKind.entry, sentFresh, sendMsg_resendReq', sendMsg_logonReply', sendMsg_logout', sendMsg_logout_conn',
      absFrame_build_resend, absFrame_build_logonReply, absFrame_build_logout, absRow_build_resend, absRow_build_logon,
      absRow_build_logout, frameGood_build_resend, frameGood_build_logon, frameGood_build_logout, rowsGood_append,
      get?_build_34, $ts,*])

/-- the facts about a frame of the peer that every case uses -/
structure InFrame (c : Conn) (f : Msg) (n : Int) : Prop where
  h8 : f.get? tBeginString = some Proto.beginString
  h49 : f.get? tSenderCompID = some c.sess.target
  h56 : f.get? tTargetCompID = some c.sess.sender
  h34 : f.get? tMsgSeqNum = some (pyStr n)

theorem inFrame_of_good {s : Side} {c : Conn} {f : Msg} (hc : ConnGood s c)
    (hf : FrameGood s.other.name s.name f) : ∃ n, InFrame c f n := by
  obtain ⟨n, hn⟩ := hf.seq
  exact ⟨n, ⟨hf.bs, by rw [hc.tgt]; exact hf.s49, by rw [hc.snd]; exact hf.s56, hn⟩⟩

theorem stepOK_iff {s : Side} {r : ARes} {c' : Conn} {eff : List Effect} :
    StepOK s r c' eff ↔ (absConn c' = r.c ∧ (writesOf eff).map absFrame = r.wr ∧
      (deliveriesOf eff).map absDelivered = r.dl ∧ ConnGood s c' ∧
      ∀ g ∈ writesOf eff, FrameGood s.name s.other.name g) :=
  ⟨fun ⟨a, b, c, d, e⟩ => ⟨a, b, c, d, e⟩, fun ⟨a, b, c, d, e⟩ => ⟨a, b, c, d, e⟩⟩

theorem connGood_iff {s : Side} {c : Conn} :
    ConnGood s c ↔ (c.sess.sender = s.name ∧ c.sess.target = s.other.name ∧ restState c.state ∧
      c.sock = decide (st_DISCONNECTED_BROKEN_CONN < c.state) ∧ (c.role = roleInitiator ∨ c.role = roleAcceptor) ∧
      1 ≤ c.sess.nextIn ∧ 1 ≤ c.sess.nextOut ∧ RowsGood s.name s.other.name c.sess.nextOut c.journal.out ∧
      (c.state = st_RESENDREQ_AWAITING → 0 < c.maxResend) ∧ AllLt c.sess.nextIn c.journal.inb) :=
  ⟨fun ⟨a, b, c, d, e, f, g, h, i, j⟩ => ⟨a, b, c, d, e, f, g, h, i, j⟩,
   fun ⟨a, b, c, d, e, f, g, h, i, j⟩ => ⟨a, b, c, d, e, f, g, h, i, j⟩⟩

/-- facts of a well-formed connection in the shape the evaluation uses -/
structure ConnFacts (s : Side) (c : Conn) : Prop where
  g1 : c.sess.sender = s.name
  g2 : c.sess.target = s.other.name
  g5 : c.role = roleInitiator ∨ c.role = roleAcceptor
  g6 : 1 ≤ c.sess.nextIn
  g7 : 1 ≤ c.sess.nextOut
  g8 : RowsGood s.name s.other.name c.sess.nextOut c.journal.out
  he : ¬ c.sess.nextIn ≤ 0
  hinb : AllLt c.sess.nextIn c.journal.inb
  hrows : AllLt c.sess.nextOut c.journal.out
  l1 : isLatin1 c.sess.sender = true
  l2 : isLatin1 c.sess.target = true

theorem connFacts {s : Side} {c : Conn} (hc : ConnGood s c) : ConnFacts s c :=
  { g1 := hc.snd, g2 := hc.tgt, g5 := hc.role, g6 := hc.e1, g7 := hc.o1, g8 := hc.rows,
    he := by have := hc.e1; omega, hinb := hc.inb, hrows := rowsGood_allLt hc.rows,
    l1 := by rw [hc.snd]; cases s <;> decide, l2 := by rw [hc.tgt]; cases s <;> decide }

theorem sock_of_state {s : Side} {c : Conn} (hc : ConnGood s c) (h : st_DISCONNECTED_BROKEN_CONN < c.state) :
    c.sock = true := by rw [hc.sock]; simpa using h

/-- an application frame with the expected number in an established phase: delivered, counter advanced -/
theorem recv_app_accept {s : Side} {env : Env} {c : Conn} {f : Msg} {n : Int}
    (hc : ConnGood s c) (hi : InFrame c f n)
    (hst : c.state = st_ACTIVE ∨ c.state = st_RESENDREQ_AWAITING)
    (hA : f.mtype ≠ mLogon) (h2 : f.mtype ≠ mResendRequest) (h4 : f.mtype ≠ mSequenceReset) (h5 : f.mtype ≠ mLogout)
    (h0 : f.mtype ≠ mHeartbeat) (h1 : f.mtype ≠ mTestRequest)
    (hn : n = c.sess.nextIn) :
    StepOK s { c := (absConn c).advance (c.sess.nextIn + 1), dl := [(n, payloadOf f)] }
      (recv srAll env c f).1 (recv srAll env c f).2 := by
  obtain ⟨h8, h49, h56, h34⟩ := hi
  subst hn
  obtain ⟨g1, g2, g5, g6, g7, g8, he, hinb, hrows, l1, l2⟩ := connFacts hc
  have hinb' : AllLt (c.sess.nextIn + 1) (c.journal.inb ++ [(c.sess.nextIn, f)]) :=
    allLt_append_last hinb (by omega)
  have hw := hc.w
  rw [stepOK_iff, connGood_iff]
  rcases hst with hst | hst
  · have hsock := sock_of_state hc (by rw [hst]; decide)
    ev_simp [h8, h49, h56, h34, hst, hA, h2, h4, h5, h0, h1, he, insert_append _ _ _ hinb, absConn, absSt,
      AConn.advance, g1, g2, g5, g7, g8, hinb', absDelivered, seqOf_of_get? h34, restState, hsock]
    omega
  · have hsock := sock_of_state hc (by rw [hst]; decide)
    have hw' : 0 < c.maxResend := hw hst
    by_cases hm : c.maxResend ≤ c.sess.nextIn
    · ev_simp [h8, h49, h56, h34, hst, hA, h2, h4, h5, h0, h1, he, insert_append _ _ _ hinb, absConn, absSt,
        AConn.advance, g1, g2, g5, g7, g8, hinb', absDelivered, seqOf_of_get? h34, restState, hsock, hw', hm]
      omega
    · ev_simp [h8, h49, h56, h34, hst, hA, h2, h4, h5, h0, h1, he, insert_append _ _ _ hinb, absConn, absSt,
        AConn.advance, g1, g2, g5, g7, g8, hinb', absDelivered, seqOf_of_get? h34, restState, hsock, hw', hm]
      omega

theorem rowsGood_push {snd tgt : String} {o : Int} {rs : Rows} {f : Msg} (h : RowsGood snd tgt o rs)
    (ho : 1 ≤ o) (hf : FrameGood snd tgt f) (h34 : f.get? tMsgSeqNum = some (pyStr o)) :
    RowsGood snd tgt (o + 1) (rs ++ [(o, f)]) := rowsGood_append h ho hf h34

/-- an application frame numbered above the expectation in ACTIVE: ResendRequest, awaiting -/
theorem recv_app_gap_active {s : Side} {env : Env} {c : Conn} {f : Msg} {n : Int}
    (hc : ConnGood s c) (hi : InFrame c f n) (hl3 : isLatin1 env.stamp = true)
    (hst : c.state = st_ACTIVE)
    (hA : f.mtype ≠ mLogon) (h2 : f.mtype ≠ mResendRequest) (h4 : f.mtype ≠ mSequenceReset) (h5 : f.mtype ≠ mLogout)
    (h0 : f.mtype ≠ mHeartbeat) (h1 : f.mtype ≠ mTestRequest)
    (hn : c.sess.nextIn < n) :
    StepOK s { c := ((absConn c).askResend n).1, wr := [((absConn c).askResend n).2] }
      (recv srAll env c f).1 (recv srAll env c f).2 := by
  obtain ⟨h8, h49, h56, h34⟩ := hi
  obtain ⟨g1, g2, g5, g6, g7, g8, he, hinb, hrows, l1, l2⟩ := connFacts hc
  have hsock := sock_of_state hc (by rw [hst]; decide)
  have hlow : ¬ n < c.sess.nextIn := by omega
  have hpos : 0 < n := by omega
  rw [stepOK_iff, connGood_iff]
  simp only [← g1, ← g2] at g8 ⊢
  ev_simp [h8, h49, h56, h34, hst, hA, h2, h4, h5, h0, h1, he, absConn, absSt, g5, g7, g8, restState, hsock,
    hn, hlow, sendMsg_resendReq', sentFresh, hrows, l1, l2, hl3, absFrame_build_resend, AConn.askResend, AConn.push,
    absRow_build_resend, AKind.entry, frameGood_build_resend, rowsGood_append, get?_build_34, hinb, hpos, g6]
  omega

end AsyncFix.Link
