import AsyncFix.Lemmas.TesterFab

/-!
C20 helper lemmas: the dictionary check on rendered messages, reduced to tag lists; facts about the
GENERATED tables (`decide +kernel`, re-checked whenever tests/FIX44.xml or the schema parser changes).
-/
namespace AsyncFix.Tester

open AsyncFix.Session

theorem all_and_split {α} (l : List α) (g p q : α → Bool) :
    (l.all fun x => g x || (p x && q x)) = ((l.all fun x => g x || p x) && (l.all fun x => g x || q x)) := by
  induction l with
  | nil => rfl
  | cons x r ih =>
    simp only [List.all_cons, ih]
    cases g x <;> cases p x <;> cases q x <;> simp <;>
      cases (r.all fun x => g x || p x) <;> cases (r.all fun x => g x || q x) <;> rfl

theorem dictCheck_eq (m : Msg) : dictCheck m = (dictStruct m && dictValues m) := by
  unfold dictCheck dictStruct dictValues
  rw [all_and_split]
  cases knownType m.mtype <;> cases (requiredOf m.mtype).all (fun t => m.has t) <;> simp

theorem lookup_render (t : Nat) (tags : List (Nat × Val)) :
    Msg.lookup t (tags.map fun p => (p.1, p.2.render)) = (RMsg.lookup t tags).map Val.render := by
  induction tags with
  | nil => rfl
  | cons p r ih =>
    obtain ⟨k, v⟩ := p
    by_cases h : k = t <;> simp [Msg.lookup, RMsg.lookup, h, ih]

theorem render_get? (m : RMsg) (t : Nat) : m.render.get? t = m.str? t := by
  simp [RMsg.render, Msg.get?, RMsg.str?, RMsg.get?, lookup_render]

theorem lookup_isSome_iff (t : Nat) (tags : List (Nat × Val)) :
    (RMsg.lookup t tags).isSome = (tags.map (·.1)).contains t := by
  induction tags with
  | nil => rfl
  | cons p r ih =>
    obtain ⟨k, v⟩ := p
    by_cases h : k = t
    · simp [RMsg.lookup, h]
    · have h' : (t == k) = false := by simp; exact fun e => h e.symm
      simp [RMsg.lookup, h, ih, List.contains_cons, h']

theorem render_has (m : RMsg) (t : Nat) : m.render.has t = m.tagList.contains t := by
  simp [Msg.has, render_get?, RMsg.str?, RMsg.get?, RMsg.tagList, lookup_isSome_iff]

theorem render_tags_fst (m : RMsg) : m.render.tags.map (·.1) = m.tagList := by
  simp [RMsg.render, RMsg.tagList, List.map_map, Function.comp_def]

theorem msg_lookup_isSome (t : Nat) (tags : List (Nat × String)) :
    (Msg.lookup t tags).isSome = (tags.map (·.1)).contains t := by
  induction tags with
  | nil => rfl
  | cons p r ih =>
    obtain ⟨k, v⟩ := p
    by_cases h : k = t
    · simp [Msg.lookup, h]
    · have h' : (t == k) = false := by simp; exact fun e => h e.symm
      simp [Msg.lookup, h, ih, h']

/-- the structural check only looks at the message type and the tag list -/
theorem dictStruct_eq (m : Msg) : dictStruct m = structOk m.mtype (m.tags.map (·.1)) := by
  unfold dictStruct structOk
  congr 1
  · congr 1
    exact List.all_congr rfl fun t => by simp [Msg.has, Msg.get?, msg_lookup_isSome]
  · rw [List.all_map]; rfl

theorem dictStruct_render (m : RMsg) : dictStruct m.render = structOk m.mtype m.tagList := by
  rw [dictStruct_eq, render_tags_fst]; rfl

/-! ### facts about the generated dictionary -/

/-- all four shapes of a fabricated ExecutionReport are structurally valid ExecutionReports of the
dictionary: every required member present, nothing outside the member list -/
theorem struct8 : ∀ (b1 b2 : Bool),
    structOk "8" ([11, 37, 17] ++ (if b1 then [41] else []) ++ [150, 39, 54, 14, 151]
      ++ (if b2 then [32] else []) ++ [55, 44, 38, 6, 1]) = true := by decide +kernel

theorem struct9 : structOk "9" [37, 11, 41, 39, 434] = true := by decide +kernel
theorem structLogon : structOk "A" [98, 108] = true := by decide +kernel
theorem structLogout : structOk "5" [] = true := by decide +kernel
theorem structHb0 : structOk "0" [] = true := by decide +kernel
theorem structHb1 : structOk "0" [112] = true := by decide +kernel
theorem structTestReq : structOk "1" [112] = true := by decide +kernel
theorem structSeqReset : structOk "4" [34, 123, 36] = true := by decide +kernel
theorem structResend : structOk "2" [7, 16] = true := by decide +kernel
theorem structCxlReq : structOk "F" [11, 38, 41, 55, 54, 60] = true := by decide +kernel
theorem structRepReq : structOk "G" [11, 41, 40, 55, 44, 38, 54, 60] = true := by decide +kernel

end AsyncFix.Tester
