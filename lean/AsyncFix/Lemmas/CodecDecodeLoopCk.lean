/-
What the field loop does with `checksum_passed`, what a `.msg` result of `decode` implies
about the parsed fields (`decodeFields_msg`), and the byte-level CheckSum theorem
`decode_checksum` used by Props/C10.
-/
import AsyncFix.Lemmas.CodecDecodeCk
namespace AsyncFix.Model.Codec

/-- value of `checksum_passed` after one field -/
def ckAfter (ck : Nat) (s : DState) (tag value : Bytes) : Bool :=
  if tag == tag10 then (ckParse value == some ck) else s.ckPassed

theorem stepField_ck {tbl : Tbl} {ck : Nat} {s s' : DState} {tag value : Bytes}
    (h : stepField tbl ck s tag value = .ok s') : s'.ckPassed = ckAfter ck s tag value := by
  unfold stepField at h
  generalize hs1 : (if tag == tag10 then
      { s with ckPassed := (ckParse value == some ck) }
    else if tag == tag35 then { s with mtype := value } else s) = s1 at h
  have hck : s1.ckPassed = ckAfter ck s tag value := by
    subst hs1
    unfold ckAfter
    split
    · rfl
    · split
      · rfl
      · rfl
  rw [← hck]
  clear hck hs1
  simp only [bind, Except.bind, pure, Except.pure] at h
  repeat' split at h
  all_goals first
    | (cases h; rfl)
    | (cases h)

theorem fieldLoop_ck {tbl : Tbl} {ck : Nat} : ∀ (fields : List Bytes) (s s' : DState),
    fieldLoop tbl ck s fields = .ok (some s') → s'.ckPassed = true →
    (s.ckPassed = true ∧ ∀ m ∈ fields, ∀ v, splitEq m ≠ some (tag10, v)) ∨
    (∃ F v G, fields = F ++ (tag10 ++ EQS :: v) :: G ∧ ckParse v = some ck ∧
      ∀ m ∈ G, ∀ v', splitEq m ≠ some (tag10, v')) := by
  intro fields
  induction fields with
  | nil =>
    intro s s' h hp
    simp only [fieldLoop, pure, Except.pure, Except.ok.injEq, Option.some.injEq] at h
    subst h
    exact Or.inl ⟨hp, fun m hm => by cases hm⟩
  | cons m rest ih =>
    intro s s' h hp
    unfold fieldLoop at h
    split at h
    · cases h
    · rename_i tag value hsp
      split at h
      · cases h
      · cases hstep : stepField tbl ck s tag value with
        | error k => simp only [bind, Except.bind, hstep] at h; cases h
        | ok s1 =>
          simp only [bind, Except.bind, hstep] at h
          have hm : m = tag ++ EQS :: value := splitEq_some hsp
          rcases ih s1 s' h hp with ⟨h1, h2⟩ | ⟨F, v, G, hF, hv, hG⟩
          · have hck := stepField_ck hstep
            rw [h1] at hck
            unfold ckAfter at hck
            split at hck
            · rename_i ht
              have ht' : tag = tag10 := eq_of_beq ht
              right
              exact ⟨[], value, rest, by rw [hm, ht']; rfl, eq_of_beq hck.symm, h2⟩
            · rename_i ht
              left
              refine ⟨hck.symm, ?_⟩
              intro m' hm' v hv
              rcases List.mem_cons.1 hm' with h3 | h3
              · subst h3
                rw [hsp] at hv
                simp only [Option.some.injEq, Prod.mk.injEq] at hv
                apply ht; rw [hv.1]; exact beq_self_eq_true _
              · exact h2 m' h3 v hv
          · right
            exact ⟨m :: F, v, G, by rw [hF]; rfl, hv, hG⟩

/-- everything that a `.msg` result says about the fields -/
theorem decodeFields_msg {bs : Bytes} {tbl : Tbl} {rawLen vi w : Nat} {fields : List Bytes} {enc : Bytes}
    {m : Msg} {n : Nat} {e : Bytes} (h : decodeFields bs tbl rawLen vi w fields enc = .msg m n e) :
    ∃ f0 f1 rest t0 v1 bl s, fields = f0 :: f1 :: rest ∧ rest ≠ [] ∧
      splitEq f0 = some (t0, bs) ∧ splitEq f1 = some (tag9, v1) ∧ pyInt v1 = some bl ∧ 0 ≤ bl ∧
      declaredLen f0 f1 bl ≤ rawLen - vi ∧ n = vi + declaredLen f0 f1 bl ∧
      fieldLoop tbl ((sum (join SOH fields.dropLast) + 1) % 256) {} fields = .ok (some s) ∧
      s.ckPassed = true ∧ m = { mtype := s.mtype, body := s.top } ∧ e = enc := by
  unfold decodeFields at h
  split at h
  · cases h
  · rename_i hlen
    split at h
    · rename_i f0 f1 rest
      split at h
      · cases h
      · rename_i t0 v0 hs0
        split at h
        · cases h
        · rename_i hv0
          split at h
          · cases h
          · rename_i t1 v1 hs1
            split at h
            · cases h
            · rename_i ht1
              split at h
              · cases h
              · rename_i bl hbl
                split at h
                · cases h
                · rename_i hneg
                  dsimp only at h
                  split at h
                  · cases h
                  · rename_i hdl
                    split at h
                    · cases h
                    · cases h
                    · rename_i s hloop
                      split at h
                      · rename_i hp
                        cases h
                        have e0 : v0 = bs := by simpa using hv0
                        have e1 : t1 = tag9 := by simpa using ht1
                        subst e0; subst e1
                        refine ⟨f0, f1, rest, t0, v1, bl, s, rfl, ?_, hs0, hs1, hbl, by omega, by omega, rfl,
                          hloop, hp, rfl, rfl⟩
                        intro hr; subst hr; simp at hlen
                      · cases h
    · cases h

/-- **CheckSum theorem, byte level.** -/
theorem decode_checksum {bs : Bytes} {tbl : Tbl} {raw : Bytes} {m : Msg} {n : Nat} {enc : Bytes}
    (h : decode bs tbl raw = .msg m n enc) :
    ∃ F v, fieldsOf enc = F ++ [tag10 ++ EQS :: v] ∧ F ≠ [] ∧ SOH ∉ v ∧
      ckParse v = some ((sum (join SOH F) + 1) % 256) ∧
      (enc = join SOH F ++ SOH :: (tag10 ++ EQS :: v) ∨
       enc = join SOH F ++ SOH :: (tag10 ++ EQS :: v) ++ [SOH]) := by
  rw [decode_eq] at h
  cases hvi : findSub marker raw with
  | none => rw [hvi] at h; cases h
  | some vi =>
    rw [hvi] at h
    dsimp only at h
    split at h
    · cases h
    obtain ⟨b, hb, _⟩ := drop_of_findSub hvi
    obtain ⟨f0, f1, rest, t0, v1, bl, s, hf, hrest, _, _, _, _, _, _, hloop, hp, _, he⟩ := decodeFields_msg h
    subst he
    generalize hmsg : raw.drop vi = msg at *
    rcases fieldLoop_ck _ _ _ hloop hp with ⟨h1, _⟩ | ⟨F, v, G, hF, hv, _⟩
    · cases h1
    · -- the field with tag 10 is not the first one …
      have hFne : F ≠ [] := by
        intro hF0
        subst hF0
        rw [hf] at hF
        simp only [List.nil_append, List.cons.injEq] at hF
        obtain ⟨f, hf0⟩ := fieldsOf_head b (cutOf msg) (by rw [← hb]; exact hf)
          (by cases rest with
              | nil => exact absurd rfl hrest
              | cons r0 rs => simp)
        rw [hf0] at hF
        have := hF.1
        simp [tag10] at this
      -- … hence the last one
      have hG : G = [] := by
        rw [ckField_eq] at hF
        exact fieldsOf_ck_last msg hF hFne
      subst hG
      have hdl : (fieldsOf (msg.take (cutOf msg))).dropLast = F := by rw [hF]; simp
      rw [hdl] at hv
      refine ⟨F, v, hF, hFne, ?_, hv, ?_⟩
      · have hmem : (tag10 ++ EQS :: v) ∈ splitOn SOH (msg.take (cutOf msg)) := by
          rcases fieldsOf_cases (msg.take (cutOf msg)) with h0 | ⟨h0, _⟩
          · rw [h0, hF]; simp
          · rw [h0, hF]; simp
        have := splitOn_mem_noSep hmem
        intro hv'; apply this; simp [hv']
      · have hne : fieldsOf (msg.take (cutOf msg)) ≠ [] := by rw [hF]; simp
        rcases enc_eq_join _ hne with h0 | h0
        · left
          rw [hF, join_append SOH hFne (by simp)] at h0
          exact h0
        · right
          rw [hF, join_append SOH hFne (by simp)] at h0
          rw [h0]; simp [join]

/-- a returned frame that contains `SOH 10=` ends with SOH (the decoder waits for the SOH that
terminates the CheckSum field) -/
theorem decode_msg_ends_soh {bs : Bytes} {tbl : Tbl} {raw : Bytes} {m : Msg} {n : Nat} {enc : Bytes}
    (h : decode bs tbl raw = .msg m n enc) {a b : Bytes} (hocc : enc = a ++ (cksumPat ++ b)) :
    ∃ x, enc = x ++ [SOH] := by
  rw [decode_eq] at h
  cases hvi : findSub marker raw with
  | none => rw [hvi] at h; cases h
  | some vi =>
    rw [hvi] at h
    dsimp only at h
    split at h
    · cases h
    · rename_i hopen
      obtain ⟨_, _, _, _, _, _, _, _, _, _, _, _, _, _, _, _, _, _, he⟩ := decodeFields_msg h
      generalize raw.drop vi = msg at *
      have hmsg : msg = a ++ (cksumPat ++ (b ++ msg.drop (cutOf msg))) := by
        have := List.take_append_drop (cutOf msg) msg
        rw [← he, hocc] at this
        simpa only [List.append_assoc] using this.symm
      cases hci : findSub cksumPat msg with
      | none => exact absurd hmsg (findSub_none (by decide) hci _ _)
      | some ci =>
        cases hc : closedAtOf msg with
        | none => exfalso; apply hopen; simp [ckOpen, hci, hc]
        | some c =>
          have hcut : cutOf msg = c := by unfold cutOf; rw [hc, Option.getD_some]
          rw [he, hcut]
          exact closedAtOf_take_ends hc

end AsyncFix.Model.Codec
