import AsyncFix.Lemmas.SessionOutResendB

/-!
C05, resend servicing, part C: the replay loop of `_process_resend` over an ascending list of
well-formed rows (`resendLoop_spec`): it never raises, writes no new message, leaves ascending
well-formed rows below its running number, keeps the rows below the start, puts the retransmitted
copy of every replayed row under its own number, and everything else it writes is a gap fill.
-/
namespace AsyncFix.Session

open AsyncFix.Generated AsyncFix.Generated.ConnEnum

theorem setOut_self (c : Conn) : setOut c c.journal.out c.journal.outSeq = c := by
  cases c; rename_i j; cases j; rfl

theorem rowOk_gapFill {env : Env} {c : Conn} (hc : ResendCtx env c) (a b : Int) :
    RowOk (buildFrame c.sess env.stamp (gapFillMsg a b) a) a :=
  buildFrame_rowOk _ _ _ _
    (frameLatin1_build _ _ _ _ hc.latS hc.latT hc.latStamp (latinMsg_gapFill a b))

structure AfterReplay (J J2 : Rows) (gfb n : Int) (gf f : Msg) : Prop where
  sorted : Rows.Sorted J2
  allLt : Rows.AllLt (n + 1) J2
  mem : ∀ p ∈ J2, p ∈ J ∨ (gfb < n ∧ p = (gfb, gf)) ∨ p = (n, f)
  below : ∀ k, k < gfb → Rows.find k J2 = Rows.find k J
  atN : Rows.find n J2 = some f

theorem afterReplay_facts (s : Session) (stamp : String) (J : Rows) (gfb n : Int) (rp : Msg)
    (hs : Rows.Sorted J) (hlt : Rows.AllLt gfb J) (hle : gfb ≤ n) :
    AfterReplay J (afterReplay s stamp J gfb n rp) gfb n
      (buildFrame s stamp (gapFillMsg gfb n) gfb) (buildFrame s stamp rp n) := by
  unfold afterReplay
  by_cases hg : gfb < n
  · simp only [if_pos hg]
    have h1 : Rows.AllLt n (J ++ [(gfb, buildFrame s stamp (gapFillMsg gfb n) gfb)]) := by
      intro p hp
      rcases List.mem_append.mp hp with hp | hp
      · have := hlt p hp; omega
      · simp only [List.mem_singleton] at hp; subst hp; exact hg
    have hs1 := Rows.sorted_append_last J gfb (buildFrame s stamp (gapFillMsg gfb n) gfb) hs hlt
    refine ⟨Rows.sorted_append_last _ _ _ hs1 h1, ?_, ?_, ?_, ?_⟩
    · intro p hp
      rcases List.mem_append.mp hp with hp | hp
      · have := h1 p hp; omega
      · simp only [List.mem_singleton] at hp; subst hp; simp only; omega
    · intro p hp
      simp only [List.mem_append, List.mem_singleton] at hp
      rcases hp with (hp | hp) | hp
      · exact Or.inl hp
      · exact Or.inr (Or.inl ⟨hg, hp⟩)
      · exact Or.inr (Or.inr hp)
    · intro k hk
      rw [Rows.find_append_last _ _ _ _ h1, if_neg (by omega),
        Rows.find_append_last _ _ _ _ hlt, if_neg (by omega)]
    · rw [Rows.find_append_last _ _ _ _ h1, if_pos rfl]
  · simp only [if_neg hg]
    have h1 : Rows.AllLt n J := fun p hp => by have := hlt p hp; omega
    refine ⟨Rows.sorted_append_last _ _ _ hs h1, ?_, ?_, ?_, ?_⟩
    · intro p hp
      rcases List.mem_append.mp hp with hp | hp
      · have := h1 p hp; omega
      · simp only [List.mem_singleton] at hp; subst hp; simp only; omega
    · intro p hp
      simp only [List.mem_append, List.mem_singleton] at hp
      rcases hp with hp | hp
      · exact Or.inl hp
      · exact Or.inr (Or.inr hp)
    · intro k hk
      rw [Rows.find_append_last _ _ _ _ h1, if_neg (by omega)]
    · rw [Rows.find_append_last _ _ _ _ h1, if_pos rfl]

theorem replayEff_noNew (s : Session) (stamp : String) (gfb n : Int) (rp : Msg)
    (h43 : rp.get? tPossDupFlag = some "Y") : newWrites (replayEff s stamp gfb n rp) = [] := by
  have h1 : isNew (buildFrame s stamp rp n) = false := by
    rw [buildFrame_isNew]; simp [isNew, h43]
  have h2 : isNew (buildFrame s stamp (gapFillMsg gfb n) gfb) = false := by
    rw [buildFrame_isNew]; rfl
  unfold replayEff
  split <;> simp [newWrites, h1, h2]

structure LoopOut (env : Env) (sr : Msg → Bool) (c : Conn) (rs : List (Int × Msg)) (gfb cur : Int)
    (J' : Rows) (gfb' gfe' : Int) (es : List Effect) : Prop where
  le : gfb ≤ gfb'
  leCur : gfb' ≤ cur
  gfeCur : gfe' ≤ cur
  sorted : Rows.Sorted J'
  allLt : Rows.AllLt gfb' J'
  rowOk : ∀ p ∈ J', RowOk p.2 p.1
  noNew : newWrites es = []
  below : ∀ k, k < gfb → Rows.find k J' = Rows.find k c.journal.out
  above : ∀ k g', gfb ≤ k → Rows.find k J' = some g' →
    g'.mtype = mSequenceReset ∨ ∃ g rp, (k, g) ∈ rs ∧ Replayable sr g ∧ prepareReplay g = .ok rp ∧
      g' = buildFrame c.sess env.stamp rp k
  copies : ∀ p ∈ rs, Replayable sr p.2 →
    ∃ rp, prepareReplay p.2 = .ok rp ∧ Rows.find p.1 J' = some (buildFrame c.sess env.stamp rp p.1)

theorem resendLoop_spec (env : Env) (sr : Msg → Bool) (cur : Int) :
    ∀ (rs : List (Int × Msg)) (c : Conn) (gfb gfe : Int), ResendCtx env c →
      Rows.Sorted c.journal.out → Rows.AllLt gfb c.journal.out → (∀ p ∈ c.journal.out, RowOk p.2 p.1) →
      Rows.Sorted rs → (∀ p ∈ rs, RowOk p.2 p.1 ∧ gfb ≤ p.1 ∧ p.1 < cur) → gfb ≤ cur → gfe ≤ cur →
      ∃ J' o' gfb' gfe' es,
        resendLoop env sr (rs.map (·.2)) gfb gfe c = ⟨.ok (gfb', gfe'), setOut c J' o', es⟩ ∧
        LoopOut env sr c rs gfb cur J' gfb' gfe' es := by
  intro rs
  induction rs with
  | nil =>
    intro c gfb gfe _ hs hlt hrow _ _ hb he
    refine ⟨c.journal.out, c.journal.outSeq, gfb, gfe, [], ?_, ?_⟩
    · rw [setOut_self]; rfl
    · exact ⟨Int.le_refl _, hb, he, hs, hlt, hrow, rfl, fun _ _ => rfl,
        fun k g' hk hf => by
          have := hlt _ (Rows.find_mem hf); simp only at this; omega,
        fun p hp => by cases hp⟩
  | cons hd rest ih =>
    obtain ⟨n, row⟩ := hd
    intro c gfb gfe hc hs hlt hrow hrs hall hb he
    have hhd := hall (n, row) (by simp)
    have hr : RowOk row n := hhd.1
    have hrs' := List.pairwise_cons.mp hrs
    simp only [List.map_cons]
    by_cases hrep : Replayable sr row
    · -- retransmit
      obtain ⟨rp, hrp, hty, h43, h34, hlat⟩ := prepareReplay_ok hr
      rw [loop_replay env sr row rp _ n gfb gfe c hc hr hrep hrp hty h43 h34 hlat hlt hhd.2.1]
      have hf := afterReplay_facts c.sess env.stamp c.journal.out gfb n rp hs hlt hhd.2.1
      have hrowf : RowOk (buildFrame c.sess env.stamp rp n) n :=
        buildFrame_rowOk _ _ _ _ (frameLatin1_build _ _ _ _ hc.latS hc.latT hc.latStamp hlat)
      have hrow2 : ∀ p ∈ afterReplay c.sess env.stamp c.journal.out gfb n rp, RowOk p.2 p.1 := by
        intro p hp
        rcases hf.mem p hp with h | ⟨_, h⟩ | h
        · exact hrow p h
        · subst h; exact rowOk_gapFill hc gfb n
        · subst h; exact hrowf
      obtain ⟨J', o', gfb', gfe', es, heq, hout⟩ :=
        ih (setOut c (afterReplay c.sess env.stamp c.journal.out gfb n rp) n) (n + 1) gfe
          (hc.setOut _ _) hf.sorted hf.allLt hrow2 hrs'.2
          (fun p hp => ⟨(hall p (by simp [hp])).1, by have := hrs'.1 p hp; simp only at this; omega,
            (hall p (by simp [hp])).2.2⟩)
          (by omega) he
      refine ⟨J', o', gfb', gfe', replayEff c.sess env.stamp gfb n rp ++ es, ?_, ?_⟩
      · rw [heq]; rfl
      · have hbelow2 : ∀ k, k < n + 1 → Rows.find k J' =
            Rows.find k (afterReplay c.sess env.stamp c.journal.out gfb n rp) := hout.below
        refine ⟨by have := hout.le; omega, hout.leCur, hout.gfeCur, hout.sorted, hout.allLt,
          hout.rowOk, ?_, ?_, ?_, ?_⟩
        · rw [newWrites_append, replayEff_noNew _ _ _ _ _ h43, hout.noNew]; rfl
        · intro k hk
          rw [hbelow2 k (by omega)]; exact hf.below k hk
        · intro k g' hk hfind
          by_cases hkn : k < n + 1
          · rw [hbelow2 k hkn] at hfind
            rcases hf.mem _ (Rows.find_mem hfind) with h | ⟨_, h⟩ | h
            · have := hlt _ h; simp only at this; omega
            · left; cases h; rfl
            · right; cases h
              exact ⟨row, rp, by simp, hrep, hrp, rfl⟩
          · rcases hout.above k g' (by omega) hfind with h | ⟨g, rp', hm, h1, h2, h3⟩
            · exact Or.inl h
            · exact Or.inr ⟨g, rp', by simp [hm], h1, h2, h3⟩
        · intro p hp hpr
          rcases List.mem_cons.mp hp with h | h
          · subst h
            exact ⟨rp, hrp, by rw [hbelow2 n (by omega)]; exact hf.atN⟩
          · exact hout.copies p h hpr
    · -- covered by a gap fill
      rw [loop_skip env sr row _ n gfb gfe c hr hrep]
      obtain ⟨J', o', gfb', gfe', es, heq, hout⟩ :=
        ih c gfb (n + 1) hc hs hlt hrow hrs'.2
          (fun p hp => ⟨(hall p (by simp [hp])).1, (hall p (by simp [hp])).2.1,
            (hall p (by simp [hp])).2.2⟩) hb (by omega)
      refine ⟨J', o', gfb', gfe', es, heq, ?_⟩
      refine ⟨hout.le, hout.leCur, hout.gfeCur, hout.sorted, hout.allLt, hout.rowOk, hout.noNew,
        hout.below, ?_, ?_⟩
      · intro k g' hk hfind
        rcases hout.above k g' hk hfind with h | ⟨g, rp', hm, h1, h2, h3⟩
        · exact Or.inl h
        · exact Or.inr ⟨g, rp', by simp [hm], h1, h2, h3⟩
      · intro p hp hpr
        rcases List.mem_cons.mp hp with h | h
        · subst h; exact absurd hpr hrep
        · exact hout.copies p h hpr

end AsyncFix.Session
