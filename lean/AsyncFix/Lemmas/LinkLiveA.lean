import AsyncFix.Lemmas.LinkRun

/-!
Link family, termination of the recovery handshake (liveness flavour) on the abstract model, part A:
`quiescent_of_empty` (empty queues + invariant + a transport ⇒ both ACTIVE), the cost of the frames in flight
(`fcost`: one per frame plus, for a ResendRequest, the length bound of its answer) and the fact that one delivery
in the "both logged on" phase strictly decreases the total cost `mu3` (`step3A`, `step3I`).
-/
namespace AsyncFix.Link

open AsyncFix.Session

/-- only deliveries -/
def onlyDeliveries (evs : List AEv) : Prop := ∀ e ∈ evs, e = .deliverNext .A ∨ e = .deliverNext .I

/-- with both queues empty and a transport, the coverage invariant forces both endpoints ACTIVE -/
theorem quiescent_of_empty (l : ALink) (h : SyncInv' l) (hA : l.toA = []) (hI : l.toI = [])
    (hc : l.i.st ≠ .disc) : l.quiescent = true := by
  rcases h.phases with ⟨h1, _⟩ | ⟨_, _, _, _, h5, _⟩ | ⟨⟨_, _, _, _, ⟨f, rest, heq, _⟩, _⟩, _⟩ |
    ⟨⟨hX, hY, _, _, d1, d2, _, _⟩, _, _⟩
  · exact absurd h1 hc
  · simp [hA] at h5
  · simp [hI] at heq
  · rw [hA, hI] at d1 d2
    have ha : l.a.st = .active := by
      rcases hY with h | h
      · exact h
      · have := (d1.2 h).2.2
        simp [requests] at this
    have hi : l.i.st = .active := by
      rcases hX with h | h
      · exact h
      · have := (d2.2 h).2.2
        simp [requests] at this
    simp [ALink.quiescent, ha, hi, hA, hI]

/-! ### the cost of the frames in flight -/

theorem chain_length : ∀ {Q : List AFrame} {a b : Int}, chain a Q b → (Q.length : Int) ≤ b - a
  | [], a, b, h => by simp [chain] at h; simp; omega
  | f :: r, a, b, h => by
    obtain ⟨h1, h2, h3⟩ := h
    have := chain_length h3
    simp only [List.length_cons]
    omega

/-- cost of a frame in flight towards an endpoint whose next outbound number is `o`: the frame itself plus, for a
ResendRequest, (a bound on) the number of frames of the answer -/
def fcost (o : Int) (f : AFrame) : Nat :=
  match f.kind with
  | .resend b => (o - b).toNat + 1
  | _ => 1

def qcost (o : Int) (Q : List AFrame) : Nat := (Q.map (fcost o)).sum

theorem qcost_nil (o : Int) : qcost o [] = 0 := rfl

theorem qcost_cons (o : Int) (f : AFrame) (Q : List AFrame) : qcost o (f :: Q) = fcost o f + qcost o Q := by
  simp [qcost]

theorem qcost_append (o : Int) (Q R : List AFrame) : qcost o (Q ++ R) = qcost o Q + qcost o R := by
  simp [qcost]

theorem qcost_data (o : Int) {Q : List AFrame} (h : ∀ f ∈ Q, isData f) : qcost o Q = Q.length := by
  induction Q with
  | nil => rfl
  | cons f r ih =>
    rw [qcost_cons, ih fun g hg => h g (by simp [hg])]
    have hf := h f (by simp)
    have : fcost o f = 1 := by
      unfold isData at hf; unfold fcost
      cases hk : f.kind <;> simp_all
    simp only [this, List.length_cons]
    omega

theorem served_o (c : AConn) (f : AFrame) : (served c f).1.o = c.o := by
  unfold served
  split
  · exact serve_o c _
  · rfl

/-- the answer to a frame costs less than the frame -/
theorem served_cost (c : AConn) (f : AFrame) (hk : keysOK c.o c.out) (hmax : c.o ≤ sysMaxsize + 1) :
    (served c f).2.length + 1 ≤ fcost c.o f ∧ ∀ g ∈ (served c f).2, isData g := by
  unfold served fcost
  cases hkd : f.kind with
  | resend b =>
    simp only
    by_cases hb : 1 ≤ b ∧ b < c.o
    · obtain ⟨s1, s2, _⟩ := serve_spec c b hb.1 hb.2 hk hmax
      have := chain_length s1
      exact ⟨by omega, s2⟩
    · have : c.serve b = (c, []) := by
        unfold AConn.serve
        rw [if_pos]
        simp only [Bool.or_eq_true, decide_eq_true_eq]
        omega
      rw [this]
      simp
  | _ => simp

/-- total cost of the frames in flight -/
def mu3 (l : ALink) : Nat := qcost l.a.o l.toA + qcost l.i.o l.toI

/-- what `recv3` does not say: the frames written are the served ones, `o` stays -/
theorem recv3_wr {X Y : AConn} {f : AFrame} {rest Q' : List AFrame} (h : P3 X Y (f :: rest) Q') :
    (arecv Y f).wr = (served Y f).2 ∧ (arecv Y f).c.o = Y.o := by
  obtain ⟨hX, hY, hQ, hQ', d1, d2, wX, wY⟩ := h
  obtain ⟨hh1, hh2, hh3⟩ := dirsync_head d1 hY
  obtain ⟨hc, hwr⟩ := arecv_est Y f hY hh1 (hQ f (by simp)) hh2 hh3
  refine ⟨hwr, ?_⟩
  rw [hc]
  split
  · rw [advance_o, served_o]
  · exact served_o Y f

theorem est_phase3 {l : ALink} (h : SyncInv' l) (hi : est l.i.st) :
    P3 l.i l.a l.toA l.toI ∧ l.i.ini = true ∧ l.a.ini = false := by
  rcases h.phases with ⟨h1, _⟩ | ⟨h1, _⟩ | ⟨⟨h1, _⟩, _⟩ | h3
  · rcases hi with h | h <;> simp [h] at h1
  · rcases hi with h | h <;> simp [h] at h1
  · rcases hi with h | h <;> simp [h] at h1
  · exact h3

/-- both logged on, a delivery towards A: still both logged on, the counters `o` stay, the cost decreases -/
theorem step3A {l : ALink} {f : AFrame} {rest : List AFrame} (hs : SafeInv l) (h : SyncInv' l) (hi : est l.i.st)
    (hq : l.toA = f :: rest) (hb : Bounded l) :
    est (astep l (.deliverNext .A)).i.st ∧ est (astep l (.deliverNext .A)).a.st ∧
    (astep l (.deliverNext .A)).i.o = l.i.o ∧ (astep l (.deliverNext .A)).a.o = l.a.o ∧
    mu3 (astep l (.deliverNext .A)) < mu3 l := by
  obtain ⟨h3, _, _⟩ := est_phase3 h hi
  have hst : l.a.st ≠ .disc := by rcases h3.2.1 with h | h <;> simp [h]
  obtain ⟨e1, e2, e3, e4⟩ := astep_deliverA hq hst
  rw [hq] at h3
  obtain ⟨r1, _⟩ := recv3 h3 hs.2.e1 hs.2.keys hb.2
  obtain ⟨w1, w2⟩ := recv3_wr h3
  obtain ⟨c1, c2⟩ := served_cost l.a f hs.2.keys hb.2
  refine ⟨by rw [e1]; exact hi, by rw [e2]; exact r1.2.1, by rw [e1], by rw [e2, w2], ?_⟩
  unfold mu3
  rw [e1, e2, e3, e4, w1, w2, hq, qcost_cons, qcost_append, qcost_data _ c2]
  omega

/-- both logged on, a delivery towards I -/
theorem step3I {l : ALink} {f : AFrame} {rest : List AFrame} (hs : SafeInv l) (h : SyncInv' l) (hi : est l.i.st)
    (hq : l.toI = f :: rest) (hb : Bounded l) :
    est (astep l (.deliverNext .I)).i.st ∧ est (astep l (.deliverNext .I)).a.st ∧
    (astep l (.deliverNext .I)).i.o = l.i.o ∧ (astep l (.deliverNext .I)).a.o = l.a.o ∧
    mu3 (astep l (.deliverNext .I)) < mu3 l := by
  obtain ⟨h3, _, _⟩ := est_phase3 h hi
  have hst : l.i.st ≠ .disc := by rcases hi with h | h <;> simp [h]
  obtain ⟨e1, e2, e3, e4⟩ := astep_deliverI hq hst
  have h3' := h3.symm
  rw [hq] at h3'
  obtain ⟨r1, _⟩ := recv3 h3' hs.1.e1 hs.1.keys hb.1
  obtain ⟨w1, w2⟩ := recv3_wr h3'
  obtain ⟨c1, c2⟩ := served_cost l.i f hs.1.keys hb.1
  refine ⟨by rw [e1]; exact r1.2.1, by rw [e2]; exact h3.2.1, by rw [e1, w2], by rw [e2], ?_⟩
  unfold mu3
  rw [e1, e2, e3, e4, w1, w2, hq, qcost_cons, qcost_append, qcost_data _ c2]
  omega

end AsyncFix.Link
