/-
`decode` cut into pieces that can be reasoned about separately
(`closedAtOf`, `cutOf`, `fieldsOf`, `decodeFields`) with `decode_eq` proving the pieces
equal to the model's single definition, and the consequences that need no knowledge of
the byte structure: no raise, bounds, progress.
-/
import AsyncFix.Model.Codec.Decode
import AsyncFix.Lemmas.CodecNoRaise
import AsyncFix.Lemmas.CodecDecodeBytes
namespace AsyncFix.Model.Codec

/-- end of the first complete `SOH 10=…SOH` field (Python `frame_closed` / `cksum_end + 1`) -/
def closedAtOf (msg : Bytes) : Option Nat :=
  match findSub cksumPat msg with
  | some ci => (match findChar SOH (msg.drop (ci + 1)) with
      | some e => some (e + (ci + 1) + 1)
      | none => none)
  | none => none

/-- start of the next `8=FIX.` after the head, else the end of the buffer -/
def nextMsg0Of (msg : Bytes) : Nat :=
  match findSub marker (msg.drop 5) with
  | some i => i + 5
  | none => msg.length

/-- Python `next_msg` -/
def cutOf (msg : Bytes) : Nat := (closedAtOf msg).getD (nextMsg0Of msg)

/-- `msg[:next_msg].split(SOH)` without a trailing empty element -/
def fieldsOf (encoded : Bytes) : List Bytes :=
  let fields0 := splitOn SOH encoded
  if fields0.getLast?.getD [] == [] then fields0.dropLast else fields0

/-- declared total length of the frame: `len(msg[0]) + len(msg[1]) + len("10=000") + 3 + BodyLength` -/
def declaredLen (f0 f1 : Bytes) (bl : Int) : Nat := f0.length + f1.length + 6 + 3 + bl.toNat

/-- everything `decode` does after cutting the buffer into fields -/
def decodeFields (beginString : Bytes) (tbl : Tbl) (rawLen validIdx waitRes : Nat)
    (fields : List Bytes) (encoded : Bytes) : DecRes :=
  if fields.length < 3 then .none waitRes else
  match fields with
  | f0 :: f1 :: _ =>
    match splitEq f0 with
    | none => .raised .valueError
    | some (_, v0) =>
      if v0 != beginString then .none rawLen else
      match splitEq f1 with
      | none => .none rawLen
      | some (t1, v1) =>
        if t1 != tag9 then .none rawLen else
        match pyInt v1 with
        | none => .none rawLen
        | some bl =>
          if bl < 0 then .none rawLen else
          let msgLength := declaredLen f0 f1 bl
          if msgLength > rawLen - validIdx then .none validIdx else
          let parsed := validIdx + msgLength
          let ckExpected := (sum (join SOH fields.dropLast) + 1) % 256
          match fieldLoop tbl ckExpected {} fields with
          | .error k => .raised k
          | .ok none => .none rawLen
          | .ok (some s) =>
            if s.ckPassed then .msg { mtype := s.mtype, body := s.top } parsed encoded
            else .none parsed
  | _ => .none validIdx

/-- result of the "fewer than three fields" branch -/
def waitResOf (validIdx : Nat) (msg : Bytes) : Nat :=
  if (closedAtOf msg).isSome then validIdx + cutOf msg else validIdx

/-- `SOH 10=` has been seen but the SOH that ends the CheckSum field has not arrived -/
def ckOpen (msg : Bytes) : Bool := (findSub cksumPat msg).isSome && (closedAtOf msg).isNone

theorem decode_eq (bs : Bytes) (tbl : Tbl) (raw : Bytes) :
    decode bs tbl raw =
      match findSub marker raw with
      | none => .none (raw.length - partialMarkerKeep raw)
      | some vi =>
        if ckOpen (raw.drop vi) then .none vi else
        decodeFields bs tbl raw.length vi (waitResOf vi (raw.drop vi))
          (fieldsOf ((raw.drop vi).take (cutOf (raw.drop vi))))
          ((raw.drop vi).take (cutOf (raw.drop vi))) := by
  unfold decode
  cases findSub marker raw with
  | none => rfl
  | some vi => rfl

/-! ### facts about the cut -/

theorem closedAtOf_le {msg : Bytes} {n : Nat} (h : closedAtOf msg = some n) : 2 ≤ n ∧ n ≤ msg.length := by
  unfold closedAtOf at h
  split at h
  · rename_i ci hci
    split at h
    · rename_i e he
      cases h
      obtain ⟨a, b, hab, hl, _⟩ := findChar_some he
      have h1 := congrArg List.length hab
      have h2 := findSub_le hci
      simp only [List.length_drop, List.length_append, List.length_cons] at h1
      omega
    · cases h
  · cases h

theorem nextMsg0Of_le (msg : Bytes) : nextMsg0Of msg ≤ msg.length ∨ msg.length < 5 := by
  unfold nextMsg0Of
  split
  · rename_i i hi
    have := findSub_le hi
    simp only [List.length_drop] at this
    omega
  · exact Or.inl (Nat.le_refl _)

theorem waitResOf_le {vi : Nat} {raw : Bytes} (hvi : vi ≤ raw.length) :
    waitResOf vi (raw.drop vi) ≤ raw.length := by
  unfold waitResOf cutOf
  split
  · rename_i hc
    obtain ⟨n, hn⟩ := Option.isSome_iff_exists.1 hc
    have := (closedAtOf_le hn).2
    simp only [hn, Option.getD_some, List.length_drop] at this ⊢
    omega
  · exact hvi

/-- the closed piece ends with the SOH of its CheckSum field -/
theorem closedAtOf_take_ends {msg : Bytes} {c : Nat} (h : closedAtOf msg = some c) :
    ∃ x, msg.take c = x ++ [SOH] := by
  unfold closedAtOf at h
  split at h
  · rename_i ci hci
    split at h
    · rename_i e he
      cases h
      obtain ⟨A, B, hAB, hAl, _⟩ := findChar_some he
      refine ⟨msg.take (ci + 1) ++ A, ?_⟩
      have h1 : e + (ci + 1) + 1 = (ci + 1) + (e + 1) := by omega
      rw [h1, List.take_add, hAB]
      have h2 : A ++ SOH :: B = (A ++ [SOH]) ++ B := by simp
      rw [h2, List.take_left' (by simp [hAl]), List.append_assoc]
    · cases h
  · cases h

/-! ### the first field starts with "8=" -/

theorem take_marker (r : Bytes) (n : Nat) :
    (marker ++ r).take n = [] ∨ (marker ++ r).take n = [56] ∨ ∃ x, (marker ++ r).take n = 56 :: 61 :: x := by
  match n with
  | 0 => exact Or.inl rfl
  | 1 => exact Or.inr (Or.inl rfl)
  | n + 2 => exact Or.inr (Or.inr ⟨_, rfl⟩)

theorem dropLast_head {α : Type} {a f0 : α} {fs rest : List α} (h : (a :: fs).dropLast = f0 :: rest) :
    f0 = a := by
  cases fs with
  | nil => simp at h
  | cons b bs => simp only [List.dropLast_cons_cons, List.cons.injEq] at h; exact h.1.symm

theorem fieldsOf_length_le (enc : Bytes) : (fieldsOf enc).length ≤ (splitOn SOH enc).length := by
  unfold fieldsOf
  dsimp only
  split
  · simp
  · exact Nat.le_refl _

/-- when the piece starts at the marker and has at least 3 fields, the first one is `8=…` -/
theorem fieldsOf_head (r : Bytes) (n : Nat) {f0 : Bytes} {rest : List Bytes}
    (h : fieldsOf ((marker ++ r).take n) = f0 :: rest) (h3 : 3 ≤ (f0 :: rest).length) :
    ∃ f, f0 = 56 :: 61 :: f := by
  rcases take_marker r n with h0 | h1 | ⟨x, hx⟩
  · have := fieldsOf_length_le ((marker ++ r).take n)
    have e1 : splitOn SOH [] = [[]] := by decide
    rw [h, h0, e1] at this
    simp only [List.length_cons, List.length_nil] at this h3
    omega
  · have := fieldsOf_length_le ((marker ++ r).take n)
    have e1 : splitOn SOH [56] = [[56]] := by decide
    rw [h, h1, e1] at this
    simp only [List.length_cons, List.length_nil] at this h3
    omega
  · rw [hx] at h
    obtain ⟨g, gs, _, h2⟩ := splitOn_cons_ne (sep := SOH) (c := 61) x (by decide)
    obtain ⟨g', gs', h3', h4⟩ := splitOn_cons_ne (sep := SOH) (c := 56) (61 :: x) (by decide)
    rw [h2] at h3'
    cases h3'
    unfold fieldsOf at h
    dsimp only at h
    rw [h4] at h
    split at h
    · exact ⟨g, dropLast_head h⟩
    · cases h; exact ⟨g, rfl⟩

theorem splitEq_head (f : Bytes) : splitEq (56 :: 61 :: f) = some ([56], f) := by
  simp [splitEq, EQS]

/-! ### no raise, bounds, progress for `decodeFields` -/

theorem decodeFields_no_raise (bs : Bytes) (tbl : Tbl) (rawLen vi w : Nat) (fields : List Bytes) (enc : Bytes)
    (hhead : ∀ f0 rest, fields = f0 :: rest → 3 ≤ fields.length → ∃ f, f0 = 56 :: 61 :: f) (k : Kind) :
    decodeFields bs tbl rawLen vi w fields enc ≠ .raised k := by
  unfold decodeFields
  split
  · intro h; cases h
  · rename_i hlen
    split
    · rename_i f0 f1 rest
      obtain ⟨f, hf⟩ := hhead f0 (f1 :: rest) rfl (by omega)
      subst hf
      rw [splitEq_head]
      dsimp only
      split
      · intro h; cases h
      · split
        · intro h; cases h
        · split
          · intro h; cases h
          · split
            · intro h; cases h
            · split
              · intro h; cases h
              · split
                · intro h; cases h
                · obtain ⟨r, hr⟩ := fieldLoop_no_raise tbl
                    ((sum (join SOH ((56 :: 61 :: f) :: f1 :: rest).dropLast) + 1) % 256)
                    ((56 :: 61 :: f) :: f1 :: rest)
                  split
                  · rename_i k' hk; rw [hr] at hk; cases hk
                  · intro h; cases h
                  · split
                    · intro h; cases h
                    · intro h; cases h
    · intro h; cases h

/-- what a result of `decode` on a buffer of `rawLen` bytes may look like -/
def ResOK (rawLen : Nat) (enc : Bytes) : DecRes → Prop
  | .msg _ n e => 0 < n ∧ n ≤ rawLen ∧ e = enc
  | .none n => n ≤ rawLen
  | .raised _ => True

theorem decodeFields_bounds {bs : Bytes} {tbl : Tbl} {rawLen vi w : Nat} {fields : List Bytes} {enc : Bytes}
    (hvi : vi ≤ rawLen) (hw : w ≤ rawLen) :
    ResOK rawLen enc (decodeFields bs tbl rawLen vi w fields enc) := by
  unfold decodeFields declaredLen
  repeat' split
  all_goals try dsimp only
  all_goals repeat' split
  all_goals simp only [ResOK]
  all_goals (first | omega | (refine ⟨?_, ?_, ?_⟩ <;> first | omega | trivial))

/-! ### lifted to `decode` -/

theorem drop_of_findSub {pat raw : Bytes} {vi : Nat} (h : findSub pat raw = some vi) :
    ∃ b, raw.drop vi = pat ++ b ∧ vi ≤ raw.length := by
  obtain ⟨a, b, hab, hl⟩ := findSub_some h
  refine ⟨b, ?_, ?_⟩
  · subst hab; subst hl; simp
  · subst hab; subst hl; simp

theorem decode_resOK (bs : Bytes) (tbl : Tbl) (raw : Bytes) :
    ∃ enc, ResOK raw.length enc (decode bs tbl raw) := by
  rw [decode_eq]
  cases h : findSub marker raw with
  | none => exact ⟨[], by simp only [ResOK]; omega⟩
  | some vi =>
    obtain ⟨b, _, hvi⟩ := drop_of_findSub h
    dsimp only
    split
    · exact ⟨[], hvi⟩
    · exact ⟨_, decodeFields_bounds hvi (waitResOf_le hvi)⟩

theorem decode_ne_raised (bs : Bytes) (tbl : Tbl) (raw : Bytes) (k : Kind) :
    decode bs tbl raw ≠ .raised k := by
  rw [decode_eq]
  cases h : findSub marker raw with
  | none => intro h'; cases h'
  | some vi =>
    obtain ⟨b, hb, _⟩ := drop_of_findSub h
    dsimp only
    split
    · intro h'; cases h'
    apply decodeFields_no_raise
    intro f0 rest hf h3
    rw [hb] at hf h3
    rw [hf] at h3
    exact fieldsOf_head b _ hf h3

end AsyncFix.Model.Codec
