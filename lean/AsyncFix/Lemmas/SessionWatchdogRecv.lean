import AsyncFix.Lemmas.SessionWatchdog

/-!
C12 helper lemmas, part 2: what `_process_message` does with a valid, in-sequence inbound frame on a
logged-on connection: interval Heartbeat, Heartbeat echoing the outstanding TestReqID, Heartbeat with a
wrong id, TestRequest, application message.  Every lemma is an equation about `AsyncFix.Session.recv`.
-/
namespace AsyncFix.Session.Watchdog

open AsyncFix.Generated AsyncFix.Generated.ConnEnum

/-! ### more monad evaluation -/

@[simp] theorem liftE_run {α : Type} (x : Except Exc α) (c : Conn) : M.liftE x c = ⟨x, c, []⟩ := rfl

@[simp] theorem liftE_ok_bind {α β : Type} (a : α) (f : α → M β) (c : Conn) :
    (M.liftE (.ok a) >>= f) c = f a c :=
  (bind_ok (x := M.liftE (.ok a)) (a := a) (c1 := c) (e1 := []) rfl).trans (pre_nil _)

@[simp] theorem assert_true : M.assert true = pure () := rfl

theorem get_of_get? {m : Msg} {t : Nat} {v : String} (h : m.get? t = some v) : m.get t = .ok v := by
  simp [Msg.get, h]

theorem has_of_get? {m : Msg} {t : Nat} {v : String} (h : m.get? t = some v) : m.has t = true := by
  simp [Msg.has, h]

theorem int_of {v : String} {n : Int} (h : pyInt v = some n) : M.int v = pure n := by
  simp [M.int, h]

theorem swallow_ok {α : Type} {d : α} {x : M α} {c c1 : Conn} {a : α} {e1 : List Effect}
    (h : x c = ⟨.ok a, c1, e1⟩) : swallow d x c = ⟨.ok a, c1, e1⟩ := by
  unfold swallow M.tryCatch
  rw [h]

theorem swallow_err {α : Type} {d : α} {x : M α} {c c1 : Conn} {ex : Exc} {e1 : List Effect}
    (h : x c = ⟨.error ex, c1, e1⟩) : swallow d x c = ⟨.ok d, c1, e1 ++ [.caught ex]⟩ := by
  unfold swallow M.tryCatch
  rw [h]
  simp

/-! ### a valid in-sequence frame -/

/-- `m` passes `_validate_integrity` on `c` and carries exactly the expected MsgSeqNum -/
structure InSeq (c : Conn) (m : Msg) : Prop where
  begin : m.get? tBeginString = some Proto.beginString
  sender : m.get? tSenderCompID = some c.sess.target
  target : m.get? tTargetCompID = some c.sess.sender
  seq : (m.get? tMsgSeqNum).bind pyInt = some c.sess.nextIn
  pos : 0 < c.sess.nextIn

theorem InSeq.seqv {c : Conn} {m : Msg} (h : InSeq c m) :
    ∃ v, m.get? tMsgSeqNum = some v ∧ pyInt v = some c.sess.nextIn := by
  have := h.seq
  cases hv : m.get? tMsgSeqNum with
  | none => simp [hv] at this
  | some v => exact ⟨v, rfl, by simpa [hv] using this⟩

theorem validateIntegrity_good (c : Conn) (m : Msg) (h : InSeq c m) :
    validateIntegrity m c = ⟨.ok .good, c, []⟩ := by
  obtain ⟨v, hv, hn⟩ := h.seqv
  simp [validateIntegrity, get_of_get? h.begin, get_of_get? h.sender, get_of_get? h.target, get_of_get? hv,
    has_of_get? h.sender, has_of_get? h.target, has_of_get? hv, hn]

/-- message types handled before the sequence check (Logon, SequenceReset, Logout) or that change the
connection state (ResendRequest): not "traffic" in the sense of C12 -/
def Routine (m : Msg) : Prop :=
  (m.mtype == mLogon) = false ∧ (m.mtype == mSequenceReset) = false ∧ (m.mtype == mLogout) = false ∧
  (m.mtype == mResendRequest) = false

/-- message types `_process_message` does not handle BEFORE the sequence check -/
def Headable (m : Msg) : Prop :=
  (m.mtype == mLogon) = false ∧ (m.mtype == mSequenceReset) = false ∧ (m.mtype == mLogout) = false

theorem Routine.headable {m : Msg} (h : Routine m) : Headable m := ⟨h.1, h.2.1, h.2.2.1⟩

/-- first part of `_process_message` in a logged-on state (≥ 8: ACTIVE, RESENDREQ_AWAITING,
RESENDREQ_HANDLING, RECV_SEQNUM_TOO_HIGH, …) for the expected number: no early return,
`is_valid_msg_num = True` -/
theorem processHead_on (env : Env) (c : Conn) (m : Msg) (h8 : 8 ≤ c.state) (h : InSeq c m)
    (hr : Headable m) : processHead env m c = ⟨.ok (some (true, c.sess.nextIn)), c, []⟩ := by
  obtain ⟨v, hv, hn⟩ := h.seqv
  obtain ⟨r1, r2, r3⟩ := hr
  have g6 : 6 ≤ c.state := by omega
  have n6 : ¬ (c.state = 6) := by omega
  have n7 : ¬ (c.state = 7) := by omega
  have n3 : ¬ (c.state ≤ 3) := by omega
  simp [processHead, r1, r2, r3, get_of_get? hv, int_of hn, checkSeqnumGaps,
    st_NETWORK_CONN_ESTABLISHED, st_LOGON_INITIAL_SENT, st_DISCONNECTED_BROKEN_CONN, g6, n6, n7, n3]

/-- `_finalize_message` ends the wait for a resend: RESENDREQ_AWAITING and the accepted number has reached
the recorded watermark -/
def promoted (c : Conn) : Bool := c.state == st_RESENDREQ_AWAITING && decide (c.maxResend ≤ c.sess.nextIn)

/-- outcome of `_finalize_message` for the expected number: counter advanced; RESENDREQ_AWAITING → ACTIVE
(with `on_state_change`) once the watermark is reached; `lastTime := now` while connected (fix 5623bd4: not
on a connection the dispatch has just disconnected); frame journaled – or DuplicateSeqNoError (escaping)
when the journal already holds that number -/
def finalized (env : Env) (c : Conn) (m : Msg) : Conn × List Effect :=
  let st := if promoted c then st_ACTIVE else c.state
  let c1 : Conn := { c with sess := { c.sess with nextIn := c.sess.nextIn + 1 }, state := st,
                            wasActive := c.wasActive || promoted c,
                            maxResend := if promoted c then 0 else c.maxResend,
                            lastTime := if st > st_DISCONNECTED_BROKEN_CONN then env.now else c.lastTime }
  let e0 : List Effect := if promoted c then [.onState st_ACTIVE] else []
  match c.journal.persist .inbound c.sess.nextIn m with
  | none => (c1, e0 ++ [.raised .duplicateSeqNo])
  | some j => ({ c1 with journal := j }, e0)

theorem finalizeMessage_inseq (env : Env) (c : Conn) (m : Msg) (h : InSeq c m)
    (hm : (m.mtype == mSequenceReset) = false) (hmr : c.state = st_RESENDREQ_AWAITING → 0 < c.maxResend) :
    (finalizeMessage env m).run c = finalized env c m := by
  obtain ⟨v, hv, hn⟩ := h.seqv
  have hp := h.pos
  have hle : ¬ (c.sess.nextIn ≤ 0) := by omega
  unfold finalized promoted
  by_cases hw : c.state = st_RESENDREQ_AWAITING
  · have hmr' := hmr hw
    by_cases hup : c.maxResend ≤ c.sess.nextIn <;>
    cases hj : c.journal.persist .inbound c.sess.nextIn m <;>
      simp [M.run, finalizeMessage, setNextNumIn, hm, has_of_get? hv, get_of_get? hv, int_of hn, hle, hw,
        persistInbound, hv, hn, hj, hup, hmr', M.assert, stateSet, pre, st_ACTIVE, st_RESENDREQ_AWAITING,
        st_DISCONNECTED_BROKEN_CONN]
  · by_cases hc : c.state > st_DISCONNECTED_BROKEN_CONN <;>
    cases hj : c.journal.persist .inbound c.sess.nextIn m <;>
      simp [M.run, finalizeMessage, setNextNumIn, hm, has_of_get? hv, get_of_get? hv, int_of hn, hle, hw,
        persistInbound, hv, hn, hj, hc]

/-- `_process_message` for a valid in-sequence routine frame in a logged-on state = integrity check (passes), head
(passes), the swallowed dispatch, then `_finalize_message` on whatever the dispatch left behind -/
theorem processMessage_on (sr : Msg → Bool) (env : Env) (c c1 : Conn) (m : Msg) (e1 : List Effect)
    (h8 : 8 ≤ c.state) (h : InSeq c m) (hr : Headable m)
    (hd : swallow () (processDispatch env sr m true c.sess.nextIn) c = ⟨.ok (), c1, e1⟩) :
    processMessage env sr m c = pre e1 (finalizeMessage env m c1) := by
  unfold processMessage
  rw [bind_ok (validateIntegrity_good c m h), pre_nil]
  simp only []
  rw [bind_ok (swallow_ok (processHead_on env c m h8 h hr)), pre_nil]
  simp only []
  rw [bind_ok hd]
  simp

theorem run_of_pre {x y : M Unit} {c c1 : Conn} {e1 : List Effect} (h : x c = pre e1 (y c1)) :
    x.run c = ((y.run c1).1, e1 ++ (y.run c1).2) := by
  unfold M.run
  rw [h]
  generalize y c1 = o
  rcases o with ⟨r | a, c2, e2⟩ <;> simp [pre]

theorem recv_on (sr : Msg → Bool) (env : Env) (c c1 : Conn) (m : Msg) (e1 : List Effect)
    (h8 : 8 ≤ c.state) (h : InSeq c m) (hr : Headable m)
    (hd : swallow () (processDispatch env sr m true c.sess.nextIn) c = ⟨.ok (), c1, e1⟩) :
    recv sr env c m =
      (((finalizeMessage env m).run c1).1, e1 ++ ((finalizeMessage env m).run c1).2) :=
  run_of_pre (processMessage_on sr env c c1 m e1 h8 h hr hd)

theorem InSeq.congr {c c1 : Conn} {m : Msg} (h : InSeq c m) (h1 : c1.sess.nextIn = c.sess.nextIn)
    (h2 : c1.sess.sender = c.sess.sender) (h3 : c1.sess.target = c.sess.target) : InSeq c1 m :=
  ⟨h.begin, by rw [h3]; exact h.sender, by rw [h2]; exact h.target, by rw [h1]; exact h.seq, by rw [h1]; exact h.pos⟩

/-! ### Heartbeat -/

theorem heartbeat_routine {m : Msg} (hm : m.mtype = mHeartbeat) : Routine m := by
  simp [Routine, hm, mHeartbeat, mLogon, mSequenceReset, mLogout, mResendRequest]

/-- `_process_heartbeat`, all four branches -/
theorem dispatch_heartbeat (env : Env) (sr : Msg → Bool) (c : Conn) (m : Msg) (n : Int)
    (hm : m.mtype = mHeartbeat) (valid : Bool := true) :
    processDispatch env sr m valid n c =
      match c.testReqId, m.get? tTestReqID with
      | none, _ => ⟨.ok (), c, []⟩
      | some _, none => ⟨.ok (), c, []⟩
      | some tid, some v =>
        if tid = (pyInt v).getD 0 then ⟨.ok (), { c with testReqId := none }, []⟩
        else disconnect env st_DISCONNECTED_BROKEN_CONN (some "Invalid TestRequest(TestReqID) received") c := by
  unfold processDispatch
  simp only [hm, mHeartbeat, mResendRequest, mSequenceReset, mLogon, mTestRequest]
  simp only [String.reduceBEq, Bool.false_eq_true, if_false, if_true]
  unfold processHeartbeat
  simp only [hm, mHeartbeat, String.reduceBEq, assert_true, pure_bind', get_bind]
  cases ht : c.testReqId with
  | none => rfl
  | some tid =>
    cases hv : m.get? tTestReqID with
    | none => rfl
    | some v =>
      by_cases he : tid = (pyInt v).getD 0
      · simp [he]
      · simp [he]

/-- watchdog fields as `disconnect` resets them before it tries to send the Logout -/
def cleared (c : Conn) : Conn := { c with testReqId := none, lastTime := 0, maxResend := 0 }

theorem logoutMsg_plain (text : String) : Plain (logoutMsg text) := by
  constructor
  · simp [logoutMsg, Msg.mk', mLogout, mSequenceReset]
  · unfold logoutMsg
    split <;> simp [Msg.mk', Msg.get?, Msg.lookup, tText, tPossDupFlag]

/-- `disconnect(DISCONNECTED_BROKEN_CONN, logout_message=text)` on an ACTIVE connection with transport:
when the Logout cannot be sent the exception is logged (`caught`) and the disconnect completes all the same
(socket closed, state, `on_disconnect`); otherwise the Logout is written first. -/
theorem disconnect_logout_active (env : Env) (c : Conn) (text : String) (ha : c.state = st_ACTIVE)
    (hs : c.sock = true) :
    disconnect env st_DISCONNECTED_BROKEN_CONN (some text) c =
      if frameLatin1 (frameOf env (cleared c) (logoutMsg text)) = false then
        ⟨.ok (), dropped c, .caught .encoding :: dropEff⟩
      else match c.journal.persist .outbound c.sess.nextOut (frameOf env (cleared c) (logoutMsg text)) with
        | none => ⟨.ok (), dropped (burnt c), .caught .duplicateSeqNo :: dropEff⟩
        | some j => ⟨.ok (), dropped (sent c j), .write (frameOf env (cleared c) (logoutMsg text)) :: dropEff⟩ := by
  have h3 : 3 < c.state := by rw [ha]; decide
  have hsend := sendMsg_active env (cleared c) (logoutMsg text) ha hs (logoutMsg_plain text)
    (by simp [logoutMsg, Msg.mk', mLogout, mTestRequest])
  have e1 : (cleared c).journal = c.journal := rfl
  have e2 : (cleared c).sess = c.sess := rfl
  rw [e1, e2] at hsend
  have hc : ∀ f : Unit → M Unit, ((M.modify fun c : Conn =>
      { c with testReqId := none, lastTime := 0, maxResend := 0 }) >>= f) c = f () (cleared c) := by
    intro f; rw [modify_bind]; rfl
  simp only [disconnect, get_bind, st_DISCONNECTED_BROKEN_CONN, h3, if_true, M.assert, Nat.le_refl,
    decide_true, pure_bind', hc]
  cases hl : frameLatin1 (frameOf env (cleared c) (logoutMsg text))
  · rw [hl] at hsend
    simp only [if_true] at hsend
    rw [bind_ok (swallow_err hsend)]
    simp [cleared, hs, stateSet, dropped, dropEff, st_DISCONNECTED_BROKEN_CONN, st_ACTIVE]
  · rw [hl] at hsend
    simp only [Bool.true_eq_false, if_false] at hsend
    cases hj : c.journal.persist Dir.outbound c.sess.nextOut (frameOf env (cleared c) (logoutMsg text))
    · rw [hj] at hsend
      rw [bind_ok (swallow_err hsend)]
      simp [burnt, cleared, hs, stateSet, dropped, dropEff, st_DISCONNECTED_BROKEN_CONN, st_ACTIVE]
    · rw [hj] at hsend
      rw [bind_ok (swallow_ok hsend)]
      simp [sent, cleared, hs, stateSet, dropped, dropEff, st_DISCONNECTED_BROKEN_CONN, st_ACTIVE]

/-! ### TestRequest and application messages -/

/-- the Heartbeat `_process_testrequest` answers with: the request's TestReqID, `0` when it has none -/
def echoMsg (m : Msg) : Msg := Msg.mk' mHeartbeat [(tTestReqID, (m.get? tTestReqID).getD "0")]

theorem echoMsg_plain (m : Msg) : Plain (echoMsg m) := by
  constructor
  · simp [echoMsg, Msg.mk', mHeartbeat, mSequenceReset]
  · simp [echoMsg, Msg.mk', Msg.get?, Msg.lookup, tTestReqID, tPossDupFlag]

theorem testrequest_routine {m : Msg} (hm : m.mtype = mTestRequest) : Routine m := by
  simp [Routine, hm, mTestRequest, mLogon, mSequenceReset, mLogout, mResendRequest]

theorem dispatch_testrequest (env : Env) (sr : Msg → Bool) (c : Conn) (m : Msg) (n : Int)
    (hm : m.mtype = mTestRequest) (valid : Bool := true) :
    processDispatch env sr m valid n c = sendMsg env (echoMsg m) c := by
  unfold processDispatch
  simp only [hm, mHeartbeat, mResendRequest, mSequenceReset, mLogon, mTestRequest]
  simp only [String.reduceBEq, Bool.false_eq_true, if_false, if_true]
  unfold processTestRequest
  simp only [hm, mTestRequest, String.reduceBEq, assert_true, pure_bind']
  rfl

/-- neither a session-level type handled by the dispatcher nor one excluded by `Routine` -/
def AppType (m : Msg) : Prop :=
  Routine m ∧ (m.mtype == mTestRequest) = false ∧ (m.mtype == mHeartbeat) = false

theorem dispatch_app (env : Env) (sr : Msg → Bool) (c : Conn) (m : Msg) (ht : AppType m) :
    processDispatch env sr m true c.sess.nextIn c = ⟨.ok (), c, [.deliver m]⟩ := by
  obtain ⟨⟨r1, r2, r3, r4⟩, r5, r6⟩ := ht
  simp [processDispatch, r1, r2, r4, r5, r6]

end AsyncFix.Session.Watchdog
