import AsyncFix.Lemmas.LinkLiveA

/-!
Link family, termination of the recovery handshake (liveness flavour) on the abstract model:

* `settle3` – both logged on, invariants: the schedule "deliver towards A while `toA ≠ []`, else towards I" empties
  both queues (the cost `mu3` decreases with every delivery) and ends both-ACTIVE;
* `recover_from_logon` – Logon in flight (`sent` / `conn`): two deliveries (Logon, Logon reply) reach "both logged
  on", then `settle3`;
* `recover_quiescent` – from any state satisfying the invariants: break, reconnect, deliveries only ⇒ quiescent.
-/
namespace AsyncFix.Link

open AsyncFix.Session

theorem settle3_aux : ∀ (n : Nat) (l : ALink), mu3 l < n → SafeInv l → SyncInv' l → est l.i.st → est l.a.st →
    Bounded l → ∃ evs : List AEv, onlyDeliveries evs ∧ (arun l evs).quiescent = true := by
  intro n
  induction n with
  | zero => intro l h; omega
  | succ n ih =>
    intro l hmu hs h hi ha hb
    have hdisc : l.i.st ≠ .disc := by rcases hi with h | h <;> simp [h]
    cases hA : l.toA with
    | cons f rest =>
      obtain ⟨s1, s2, s3, s4, s5⟩ := step3A hs h hi hA hb
      have hb' : Bounded (astep l (.deliverNext .A)) := by
        unfold Bounded; rw [s3, s4]; exact hb
      obtain ⟨evs, he1, he2⟩ := ih (astep l (.deliverNext .A)) (by omega) (safeInv_step l _ hs hb')
        (syncInv'_step l _ hs h hb) s1 s2 hb'
      refine ⟨.deliverNext .A :: evs, ?_, he2⟩
      intro e he
      rcases List.mem_cons.1 he with rfl | he
      · exact Or.inl rfl
      · exact he1 e he
    | nil =>
      cases hI : l.toI with
      | cons f rest =>
        obtain ⟨s1, s2, s3, s4, s5⟩ := step3I hs h hi hI hb
        have hb' : Bounded (astep l (.deliverNext .I)) := by
          unfold Bounded; rw [s3, s4]; exact hb
        obtain ⟨evs, he1, he2⟩ := ih (astep l (.deliverNext .I)) (by omega) (safeInv_step l _ hs hb')
          (syncInv'_step l _ hs h hb) s1 s2 hb'
        refine ⟨.deliverNext .I :: evs, ?_, he2⟩
        intro e he
        rcases List.mem_cons.1 he with rfl | he
        · exact Or.inr rfl
        · exact he1 e he
      | nil =>
        exact ⟨[], by intro e he; simp at he, quiescent_of_empty l h hA hI hdisc⟩

/-- both logged on: delivering the frames in flight (no application sends) reaches both-ACTIVE with empty queues -/
theorem settle3 (l : ALink) (hs : SafeInv l) (h : SyncInv' l) (hi : est l.i.st) (ha : est l.a.st) (hb : Bounded l) :
    ∃ evs : List AEv, onlyDeliveries evs ∧ (arun l evs).quiescent = true :=
  settle3_aux (mu3 l + 1) l (by omega) hs h hi ha hb

/-- the acceptor's answer to the Logon allocates at most two numbers -/
theorem arecv_conn_logon_o (a : AConn) (n : Int) (ha : a.st = .conn) (hge : a.e ≤ n) :
    (arecv a ⟨n, .logon⟩).c.o ≤ a.o + 2 := by
  by_cases he : n = a.e
  · rw [arecv_conn_logon_eq a n ha he]
    show a.o + 1 ≤ a.o + 2
    omega
  · rw [arecv_conn_logon_gt a n ha (by omega)]
    show a.o + 1 + 1 ≤ a.o + 2
    omega

/-- the initiator's reaction to the Logon reply allocates at most one number -/
theorem arecv_sent_logon_o (i : AConn) (n : Int) (h1 : i.st = .sent) (h3 : i.ini = true) (hge : i.e ≤ n) :
    (arecv i ⟨n, .logon⟩).c.o ≤ i.o + 1 := by
  by_cases he : n = i.e
  · rw [arecv_sent_logon_eq i n h1 h3 he]
    show i.o ≤ i.o + 1
    omega
  · rw [arecv_sent_logon_gt i n h1 h3 (by omega)]
    show i.o + 1 ≤ i.o + 1
    omega

/-- Logon in flight: the Logon, then the Logon reply, then everything else -/
theorem recover_from_logon (l : ALink) (hs : SafeInv l) (h : SyncInv' l) (hi : l.i.st = .sent) (ha : l.a.st = .conn)
    (hb : l.i.o + 1 ≤ sysMaxsize + 1 ∧ l.a.o + 2 ≤ sysMaxsize + 1) :
    ∃ evs : List AEv, onlyDeliveries evs ∧ (arun l evs).quiescent = true := by
  rcases h.phases with ⟨h1, _⟩ | ⟨h1, h2, h3, hI, hA, hlt⟩ | ⟨⟨_, h2, _⟩, _⟩ | ⟨⟨h1, _⟩, _⟩
  · simp [hi] at h1
  · -- first delivery: the acceptor takes the Logon
    obtain ⟨e1, e2, e3, e4⟩ := astep_deliverA hA (by simp [h2])
    have hp2 := step_p1 h1 h2 h3 hlt hs.1.e1 hs.2.s2
    have ho1 := arecv_conn_logon_o l.a (l.i.o - 1) h2 (by omega)
    rw [← e2] at ho1
    have hb1 : Bounded (astep l (.deliverNext .A)) := by
      refine ⟨?_, ?_⟩
      · rw [e1]; omega
      · omega
    have hs1 := safeInv_step l _ hs hb1
    have hb0 : Bounded l := ⟨by have := hb.1; omega, by have := hb.2; omega⟩
    have hy1 := syncInv'_step l (.deliverNext .A) hs h hb0
    replace hp2 : P2 (astep l (.deliverNext .A)).i (astep l (.deliverNext .A)).a (astep l (.deliverNext .A)).toI := by
      rw [e1, e2, e4, hI, List.nil_append]; exact hp2
    generalize hl1 : astep l (.deliverNext .A) = l1 at *
    -- second delivery: the initiator takes the Logon reply
    obtain ⟨g1, g2, g3, _, ⟨f, rest, heq, g5, g6, _, _⟩, _, _⟩ := id hp2
    obtain ⟨d1, d2, d3, d4⟩ := astep_deliverI heq (by simp [g1])
    rw [heq] at hp2
    have hp3 := step_p2 hp2 hs1.2.e1
    have ho2 : (arecv l1.i f).c.o ≤ l1.i.o + 1 := by
      obtain ⟨n, k⟩ := f
      simp only at g5 g6
      subst g5
      exact arecv_sent_logon_o l1.i n g1 g3 g6
    rw [← d1] at ho2 hp3
    have hb2 : Bounded (astep l1 (.deliverNext .I)) := by
      refine ⟨?_, ?_⟩
      · rw [e1] at ho2; omega
      · rw [d2]; omega
    have hs2 := safeInv_step l1 _ hs1 hb2
    have hy2 := syncInv'_step l1 (.deliverNext .I) hs1 hy1 hb1
    have hest2 : est (astep l1 (.deliverNext .I)).a.st := by rw [d2]; exact g2
    obtain ⟨evs, he1, he2⟩ := settle3 _ hs2 hy2 hp3.1.1 hest2 hb2
    refine ⟨.deliverNext .A :: .deliverNext .I :: evs, ?_, ?_⟩
    rotate_left
    · show (arun (astep (astep l (.deliverNext .A)) (.deliverNext .I)) evs).quiescent = true
      rw [hl1]; exact he2
    intro e he
    simp only [List.mem_cons] at he
    rcases he with rfl | rfl | he
    · exact Or.inl rfl
    · exact Or.inr rfl
    · exact he1 e he
  · rcases h2 with h | h <;> simp [ha] at h
  · rcases h1 with h | h <;> simp [hi] at h

/-- the state after a break and a reconnect -/
theorem break_reconnect (l : ALink) :
    (astep (astep l .breakConn) .reconnect).i.st = .sent ∧ (astep (astep l .breakConn) .reconnect).a.st = .conn ∧
    (astep (astep l .breakConn) .reconnect).i.o = l.i.o + 1 ∧ (astep (astep l .breakConn) .reconnect).a.o = l.a.o := by
  have hbi : (astep l .breakConn).i.st = .disc := by
    simp only [astep, AConn.eof, AConn.drop]; split <;> simp_all
  have hba : (astep l .breakConn).a.st = .disc := by
    simp only [astep, AConn.eof, AConn.drop]; split <;> simp_all
  have hoi : (astep l .breakConn).i.o = l.i.o := by simp [astep, eof_o]
  have hoa : (astep l .breakConn).a.o = l.a.o := by simp [astep, eof_o]
  generalize astep l .breakConn = l1 at *
  simp [astep, hbi, hba, AConn.push, hoi, hoa]

/-- Sharper form: after a break the coverage invariant is re-established from scratch, so only `SafeInv` of the
pre-state is needed, and a slack of 2 numbers per side suffices (Logon + ResendRequest on I's side, Logon reply +
ResendRequest on A's side). -/
theorem recover_quiescent_safe (l : ALink) (hs : SafeInv l)
    (hb : l.i.o + 2 ≤ sysMaxsize + 1 ∧ l.a.o + 2 ≤ sysMaxsize + 1) :
    ∃ evs : List AEv, onlyDeliveries evs ∧
      (arun (astep (astep l .breakConn) .reconnect) evs).quiescent = true := by
  obtain ⟨b1, b2, b3, b4⟩ := break_reconnect l
  have hm := astep_o_mono (astep l .breakConn) .reconnect
  have hbd1 : Bounded (astep l .breakConn) := ⟨by omega, by omega⟩
  have hbd2 : Bounded (astep (astep l .breakConn) .reconnect) := ⟨by omega, by omega⟩
  have hs1 := safeInv_step l .breakConn hs hbd1
  have hy1 := step_break l
  have hs2 := safeInv_step _ .reconnect hs1 hbd2
  have hy2 := step_reconnect _ hs1 hy1
  exact recover_from_logon _ hs2 hy2 b1 b2 ⟨by omega, by omega⟩

/-- From any state satisfying the invariants, a break followed by a reconnect and delivery of the frames in flight
(no further application sends) reaches both-ACTIVE with empty queues. -/
theorem recover_quiescent (l : ALink) (hs : SafeInv l) (h : SyncInv' l)
    (hb : l.i.o + 4 ≤ sysMaxsize + 1 ∧ l.a.o + 4 ≤ sysMaxsize + 1) :
    ∃ evs : List AEv, onlyDeliveries evs ∧
      (arun (astep (astep l .breakConn) .reconnect) evs).quiescent = true :=
  have _ := h
  recover_quiescent_safe l hs ⟨by omega, by omega⟩

end AsyncFix.Link
