import AsyncFix.Lemmas.LinkRecvA

/-!
C07: `Session.recv` vs `arecv` – part C: application frames that are ignored, SequenceReset-GapFill.
-/
namespace AsyncFix.Link

open AsyncFix.Session AsyncFix.Generated AsyncFix.Generated.ConnEnum
open AsyncFix.Session.Msg

/-- the connection and nothing else: the frame is ignored -/
theorem stepOK_same {s : Side} {c : Conn} (hc : ConnGood s c) (eff : List Effect) (c' : Conn) (h : c' = c)
    (h7 : writesOf eff = []) (h8 : deliveriesOf eff = []) : StepOK s { c := absConn c } c' eff := by
  subst h
  exact ⟨rfl, by simp [h7], by simp [h8], hc, by simp [h7]⟩

/-- an application frame above the expectation while awaiting a resend: ignored -/
theorem recv_app_gap_awaiting {s : Side} {env : Env} {c : Conn} {f : Msg} {n : Int}
    (hc : ConnGood s c) (hi : InFrame c f n) (hst : c.state = st_RESENDREQ_AWAITING)
    (hA : f.mtype ≠ mLogon) (h2 : f.mtype ≠ mResendRequest) (h4 : f.mtype ≠ mSequenceReset) (h5 : f.mtype ≠ mLogout)
    (h0 : f.mtype ≠ mHeartbeat) (h1 : f.mtype ≠ mTestRequest) (hn : c.sess.nextIn < n) :
    StepOK s { c := absConn c } (recv srAll env c f).1 (recv srAll env c f).2 := by
  obtain ⟨h8, h49, h56, h34⟩ := hi
  have hlow : ¬ n < c.sess.nextIn := by omega
  refine stepOK_same hc _ _ ?_ ?_ ?_ <;>
    ev_simp [h8, h49, h56, h34, hst, hA, h2, h4, h5, h0, h1, hn, hlow]

/-- a retransmitted duplicate below the expectation while awaiting a resend: ignored -/
theorem recv_app_dup_awaiting {s : Side} {env : Env} {c : Conn} {f : Msg} {n : Int}
    (hc : ConnGood s c) (hi : InFrame c f n) (hst : c.state = st_RESENDREQ_AWAITING)
    (hA : f.mtype ≠ mLogon) (h2 : f.mtype ≠ mResendRequest) (h4 : f.mtype ≠ mSequenceReset) (h5 : f.mtype ≠ mLogout)
    (h0 : f.mtype ≠ mHeartbeat) (h1 : f.mtype ≠ mTestRequest) (hpd : f.get? tPossDupFlag = some "Y")
    (hn : n < c.sess.nextIn) :
    StepOK s { c := absConn c } (recv srAll env c f).1 (recv srAll env c f).2 := by
  obtain ⟨h8, h49, h56, h34⟩ := hi
  have hlow : ¬ c.sess.nextIn < n := by omega
  have hne : ¬ n = c.sess.nextIn := by omega
  refine stepOK_same hc _ _ ?_ ?_ ?_ <;>
    ev_simp [h8, h49, h56, h34, hst, hA, h2, h4, h5, h0, h1, hn, hlow, hne, hpd]

/-! ### SequenceReset-GapFill -/

/-- facts of a gap-fill frame -/
structure GapFrame (f : Msg) (nw : Int) : Prop where
  h4 : f.mtype = mSequenceReset
  h123 : f.get? tGapFillFlag = some "Y"
  h36 : f.get? tNewSeqNo = some (pyStr nw)

/-- a gap fill that is not numbered as expected or does not move forward, no gap to request: ignored -/
theorem recv_gapFill_ignored {s : Side} {env : Env} {c : Conn} {f : Msg} {n nw : Int}
    (hc : ConnGood s c) (hi : InFrame c f n) (hg : GapFrame f nw)
    (hst : c.state = st_ACTIVE ∨ c.state = st_RESENDREQ_AWAITING)
    (hn : n < c.sess.nextIn ∨ (n = c.sess.nextIn ∧ nw ≤ n) ∨ (c.sess.nextIn < n ∧ c.state = st_RESENDREQ_AWAITING)) :
    StepOK s { c := absConn c } (recv srAll env c f).1 (recv srAll env c f).2 := by
  obtain ⟨h8, h49, h56, h34⟩ := hi
  obtain ⟨h4, h123, h36⟩ := hg
  rcases hn with hn | ⟨hn, hw⟩ | ⟨hn, hst'⟩
  · have hne : ¬ n = c.sess.nextIn := by omega
    have hgt : ¬ c.sess.nextIn < n := by omega
    rcases hst with hst | hst <;>
    · refine stepOK_same hc _ _ ?_ ?_ ?_ <;>
        ev_simp [h8, h49, h56, h34, hst, h4, h123, h36, hne, hgt, mSequenceReset, mLogon, mLogout]
  · subst hn
    rcases hst with hst | hst <;>
    · refine stepOK_same hc _ _ ?_ ?_ ?_ <;>
        ev_simp [h8, h49, h56, h34, hst, h4, h123, h36, hw, mSequenceReset, mLogon, mLogout]
  · have hne : ¬ n = c.sess.nextIn := by omega
    refine stepOK_same hc _ _ ?_ ?_ ?_ <;>
      ev_simp [h8, h49, h56, h34, hst', h4, h123, h36, hne, hn, mSequenceReset, mLogon, mLogout]

/-- a gap fill numbered above the expectation in ACTIVE: ResendRequest, awaiting -/
theorem recv_gapFill_gap_active {s : Side} {env : Env} {c : Conn} {f : Msg} {n nw : Int}
    (hc : ConnGood s c) (hi : InFrame c f n) (hg : GapFrame f nw) (hl3 : isLatin1 env.stamp = true)
    (hst : c.state = st_ACTIVE) (hn : c.sess.nextIn < n) :
    StepOK s { c := ((absConn c).askResend n).1, wr := [((absConn c).askResend n).2] }
      (recv srAll env c f).1 (recv srAll env c f).2 := by
  obtain ⟨h8, h49, h56, h34⟩ := hi
  obtain ⟨h4, h123, h36⟩ := hg
  obtain ⟨g1, g2, g5, g6, g7, g8, he, hinb, hrows, l1, l2⟩ := connFacts hc
  have hsock := sock_of_state hc (by rw [hst]; decide)
  have hne : ¬ n = c.sess.nextIn := by omega
  have hpos : 0 < n := by omega
  rw [stepOK_iff, connGood_iff]
  simp only [← g1, ← g2] at g8 ⊢
  ev_simp [h8, h49, h56, h34, hst, h4, h123, h36, hne, hn, mSequenceReset, mLogon, mLogout, g5, g6, g7, g8, hsock,
    hrows, l1, l2, hl3, hinb, hpos]
  omega

/-- a gap fill numbered as expected that moves forward: the expectation jumps to NewSeqNo -/
theorem recv_gapFill_honoured {s : Side} {env : Env} {c : Conn} {f : Msg} {n nw : Int}
    (hc : ConnGood s c) (hi : InFrame c f n) (hg : GapFrame f nw)
    (hst : c.state = st_ACTIVE ∨ c.state = st_RESENDREQ_AWAITING)
    (hn : n = c.sess.nextIn) (hw : n < nw) :
    StepOK s { c := (absConn c).advance nw } (recv srAll env c f).1 (recv srAll env c f).2 := by
  obtain ⟨h8, h49, h56, h34⟩ := hi
  obtain ⟨h4, h123, h36⟩ := hg
  subst hn
  obtain ⟨g1, g2, g5, g6, g7, g8, he, hinb, hrows, l1, l2⟩ := connFacts hc
  have hnw : ¬ nw ≤ c.sess.nextIn := by omega
  have hnw0 : 0 < nw := by omega
  have hnw1 : ¬ nw - 1 ≤ 0 := by omega
  have hnw2 : ¬ nw < c.sess.nextIn := by omega
  have hnw3 : ¬ c.sess.nextIn > nw := by omega
  have he0 : 0 < c.sess.nextIn := by omega
  have b1 : Rows.below c.sess.nextOut c.journal.out = c.journal.out := below_of_allLt _ _ hrows
  have b2 : Rows.below c.sess.nextIn c.journal.inb = c.journal.inb := below_of_allLt _ _ hinb
  have b3 : Rows.below nw c.journal.inb = c.journal.inb := below_of_allLt _ _ (allLt_mono (by omega) hinb)
  have hinb' : AllLt nw (c.journal.inb ++ [(c.sess.nextIn, f)]) := allLt_append_last hinb hw
  have hw' := hc.w
  rw [stepOK_iff, connGood_iff]
  rcases hst with hst | hst
  · have hsock := sock_of_state hc (by rw [hst]; decide)
    ev_simp [h8, h49, h56, h34, hst, h4, h123, h36, hnw, hnw0, hnw1, hnw2, hnw3, he0, b1, b2, b3, hinb', mSequenceReset, mResendRequest, mTestRequest, mHeartbeat,
      mLogon, mLogout, g1, g2, g5, g6, g7, g8, hsock, insert_append _ _ _ hinb]
    omega
  · have hsock := sock_of_state hc (by rw [hst]; decide)
    have hw'' : 0 < c.maxResend := hw' hst
    by_cases hm : c.maxResend ≤ nw - 1
    · ev_simp [h8, h49, h56, h34, hst, h4, h123, h36, hnw, hnw0, hnw1, hnw2, hnw3, he0, b1, b2, b3, hinb',
        mSequenceReset, mResendRequest, mTestRequest, mHeartbeat, mLogon, mLogout, g1, g2, g5, g6, g7, g8, hsock, insert_append _ _ _ hinb, hw'', hm]
      omega
    · ev_simp [h8, h49, h56, h34, hst, h4, h123, h36, hnw, hnw0, hnw1, hnw2, hnw3, he0, b1, b2, b3, hinb',
        mSequenceReset, mResendRequest, mTestRequest, mHeartbeat, mLogon, mLogout, g1, g2, g5, g6, g7, g8, hsock, insert_append _ _ _ hinb, hw'', hm]
      omega

end AsyncFix.Link
