import AsyncFix.Lemmas.TesterFrame

/-!
C20 helper lemmas: a frame built from ASCII parts is ASCII (hence encodable as latin-1, and identical
under UTF-8: the condition under which `FIXTester.reply` and `send_msg` put the same bytes on the wire).
-/
namespace AsyncFix.Tester
open AsyncFix.Session AsyncFix.Generated

def asciiStr (s : String) : Bool := s.toList.all fun c => c.toNat < 128

/-- every value of the message and its type are ASCII -/
def asciiMsg (m : Msg) : Bool := asciiStr m.mtype && m.tags.all fun p => asciiStr p.2

theorem asciiStr_of_digits (s : String) (h : ∀ c ∈ s.toList, isAsciiDigit c = true ∨ c = '-') : asciiStr s = true := by
  unfold asciiStr
  rw [List.all_eq_true]
  intro c hc
  rcases h c hc with h | h
  · simp only [isAsciiDigit, Bool.and_eq_true, decide_eq_true_eq] at h
    simp only [decide_eq_true_eq]; omega
  · subst h; decide

theorem asciiStr_natStr (n : Nat) : asciiStr (toString n) = true := by
  apply asciiStr_of_digits
  intro c hc
  rw [Nat.toString_eq_repr, Nat.toList_repr] at hc
  exact Or.inl (digits_all n c hc)

theorem asciiStr_pyStr (n : Int) : asciiStr (pyStr n) = true := by
  apply asciiStr_of_digits
  intro c hc
  unfold pyStr at hc
  rw [Int.toString_eq_repr, Int.repr_eq_if] at hc
  split at hc
  · rw [Nat.toList_repr] at hc; exact Or.inl (digits_all _ c hc)
  · simp only [String.toList_append, List.mem_append, Nat.toList_repr] at hc
    rcases hc with hc | hc
    · right; simpa using hc
    · exact Or.inl (digits_all _ c hc)

theorem asciiStr_append (a b : String) : asciiStr (a ++ b) = (asciiStr a && asciiStr b) := by
  simp [asciiStr, String.toList_append, List.all_append]

theorem asciiStr_pad3 (n : Nat) : asciiStr (pad3 n) = true := by
  unfold pad3
  simp only
  split
  · rw [asciiStr_append, asciiStr_natStr]; rfl
  · split
    · rw [asciiStr_append, asciiStr_natStr]; rfl
    · exact asciiStr_natStr n

theorem isAscii_iff (f : Msg) : isAscii f = f.tags.all fun p => asciiStr p.2 := rfl

theorem isAscii_buildFrame (s : Session) (stamp : String) (m : Msg) (seq : Int)
    (h1 : asciiStr s.sender = true) (h2 : asciiStr s.target = true) (h3 : asciiStr stamp = true)
    (h4 : asciiMsg m = true) : isAscii (buildFrame s stamp m seq) = true := by
  simp only [asciiMsg, Bool.and_eq_true] at h4
  obtain ⟨hm, ht⟩ := h4
  have hb : asciiStr Proto.beginString = true := by decide
  rw [isAscii_iff]
  simp only [buildFrame, bodyFields, List.all_append, List.all_cons, List.all_nil, Bool.and_true, Bool.and_eq_true,
    h1, h2, h3, hm, hb, asciiStr_natStr, asciiStr_pyStr, asciiStr_pad3, and_self, true_and, and_true]
  rw [List.all_eq_true] at ht ⊢
  intro p hp
  exact ht p (List.mem_filter.mp hp).1

theorem frameLatin1_of_isAscii {f : Msg} (h : isAscii f = true) : frameLatin1 f = true := by
  unfold frameLatin1 isLatin1
  unfold isAscii at h
  rw [List.all_eq_true] at h ⊢
  intro p hp
  have := h p hp
  rw [List.all_eq_true] at this ⊢
  intro c hc
  have := this c hc
  simp only [decide_eq_true_eq] at this ⊢
  omega

end AsyncFix.Tester
