import AsyncFix.Lemmas.TesterLock

/-!
C20 helper lemmas: one clean script step through the tester's wiring (`tStep`) and through two
endpoints exchanging frames (`lStep`), evaluated with the closed forms.
-/
namespace AsyncFix.Tester
open AsyncFix.Session AsyncFix.Generated AsyncFix.Generated.ConnEnum

/-- counterparties: CompIDs and counters mirror each other -/
structure Peer (a b : Conn) : Prop where
  st : b.sess.target = a.sess.sender
  ts : b.sess.sender = a.sess.target
  oi : b.sess.nextIn = a.sess.nextOut
  io : a.sess.nextIn = b.sess.nextOut

theorem Peer.symm {a b : Conn} (h : Peer a b) : Peer b a := ⟨h.ts.symm, h.st.symm, h.io, h.oi⟩

theorem addressed_peer {a b : Conn} (h : Peer a b) (env : Env) (m : Msg) :
    Addressed b (sentFrame a env m) (pyStr a.sess.nextOut) b.sess.nextIn :=
  addressed_sentFrame env m h.st h.ts h.oi

open Lean.Parser.Tactic in
/-- evaluates the wiring once the handler results are known -/
macro "wire_simp" "[" ls:simpLemma,* "]" : tactic =>
  `(tactic| simp [tStep, drainAfter, tSend, tTestReq, tReply, procLoop, procOne, nestedFeed, queueWrites, writes,
      lStep, exchange, step, feed, $ls,*])

theorem any_raised_eq (es : List Effect) :
    (es.any fun e => match e with | .raised _ => true | _ => false) = hasRaised es := by
  unfold hasRaised
  congr 1

/-! ### the tester -/

/-- initiator sends, the acceptor does not answer -/
theorem tStep_iSend_oneway {srI srA : Msg → Bool} {env : Env} {ci ca ci1 ca1 : Conn} {m f : Msg} {eI eA : List Effect}
    (k : Nat) (hs : appSend env ci m = (ci1, eI)) (hw1 : writes eI = [f])
    (hr : recv srA env ca f = (ca1, eA)) (hw : writes eA = []) (hnr : hasRaised eA = false) :
    tStep srI srA env (k + 1) ⟨ci, ca, []⟩ (.iSend m) =
      { pair := ⟨ci1, ca1, []⟩, effI := eI, effA := eA, out := .done } := by
  wire_simp [hs, hw1, hr, hw, hnr]

/-- initiator sends, the acceptor answers with one frame (nested in its `drain()`), the initiator takes it -/
theorem tStep_iSend_reply {srI srA : Msg → Bool} {env : Env} {ci ca ci1 ca1 ci2 : Conn} {m f g : Msg}
    {eI eA eI2 : List Effect} (k : Nat)
    (hs : appSend env ci m = (ci1, eI)) (hw1 : writes eI = [f])
    (hr : recv srA env ca f = (ca1, eA)) (hw : writes eA = [g]) (hnr : hasRaised eA = false)
    (hr2 : recv srI env ci1 g = (ci2, eI2)) (hw2 : writes eI2 = []) (hnr2 : hasRaised eI2 = false) :
    tStep srI srA env (k + 1) ⟨ci, ca, []⟩ (.iSend m) =
      { pair := ⟨ci2, ca1, []⟩, effI := eI ++ eI2, effA := eA, out := .done } := by
  wire_simp [hs, hw1, hr, hw, hnr, hr2, hw2, hnr2]

theorem tStep_iTestReq_reply {srI srA : Msg → Bool} {env : Env} {ci ca ci1 ca1 ci2 : Conn} {f g : Msg}
    {eI eA eI2 : List Effect} (k : Nat)
    (hs : appTestReq env ci = (ci1, eI)) (hw1 : writes eI = [f])
    (hr : recv srA env ca f = (ca1, eA)) (hw : writes eA = [g]) (hnr : hasRaised eA = false)
    (hr2 : recv srI env ci1 g = (ci2, eI2)) (hw2 : writes eI2 = []) (hnr2 : hasRaised eI2 = false) :
    tStep srI srA env (k + 1) ⟨ci, ca, []⟩ .iTestReq =
      { pair := ⟨ci2, ca1, []⟩, effI := eI ++ eI2, effA := eA, out := .done } := by
  wire_simp [hs, hw1, hr, hw, hnr, hr2, hw2, hnr2]

/-- `reply` numbers the message with the acceptor's counter (no 34 in the message) -/
theorem replySeq_plain {ca : Conn} {m : Msg} (h34 : m.has tMsgSeqNum = false) (hsr : m.mtype ≠ mSequenceReset)
    (hpd : (m.get? tPossDupFlag).getD "N" ≠ "Y") :
    replySeq m ca = ⟨.ok ca.sess.nextOut, { ca with sess := { ca.sess with nextOut := ca.sess.nextOut + 1 } }, []⟩ := by
  have a : (m.mtype == mSequenceReset) = false := by simp [hsr]
  have b : ((m.get? tPossDupFlag).getD "N" == "Y") = false := by simp [hpd]
  simp [replySeq, h34, encodeSeq, a, b, bind, M.bind', pure, M.pure', M.get, M.modify]

/-- the acceptor's connection after `reply`: the number is consumed, nothing else -/
def afterReply (ca : Conn) : Conn := { ca with sess := { ca.sess with nextOut := ca.sess.nextOut + 1 } }

/-- `reply(m)`, the initiator does not answer -/
theorem tStep_aSend_oneway {srI srA : Msg → Bool} {env : Env} {ci ca ci1 : Conn} {m : Msg} {eI : List Effect} (k : Nat)
    (h34 : m.has tMsgSeqNum = false) (hsr : m.mtype ≠ mSequenceReset) (hpd : (m.get? tPossDupFlag).getD "N" ≠ "Y")
    (hasc : frameLatin1 (sentFrame ca env m) = true)
    (hr : recv srI env ci (sentFrame ca env m) = (ci1, eI)) (hw : writes eI = []) (hnr : hasRaised eI = false) :
    tStep srI srA env k ⟨ci, ca, []⟩ (.aSend m) =
      { pair := ⟨ci1, afterReply ca, []⟩, effI := eI, effA := [.write (sentFrame ca env m)], out := .done } := by
  unfold sentFrame at hasc hr
  simp [tStep, tReply, replySeq_plain h34 hsr hpd, buildFrame_sess, hasc, hr, hw, hnr, drainAfter, queueWrites,
    afterReply, sentFrame]

/-- `reply(TestRequest)`: the initiator answers with a Heartbeat, which the acceptor then takes from the queue -/
theorem tStep_aTestReq_reply {srI srA : Msg → Bool} {env : Env} {ci ca ci1 ca2 : Conn} {g : Msg}
    {eI eA2 : List Effect} (k : Nat)
    (hasc : frameLatin1 (sentFrame ca env (testReqMsg env)) = true)
    (hr : recv srI env ci (sentFrame ca env (testReqMsg env)) = (ci1, eI)) (hw : writes eI = [g])
    (hnr : hasRaised eI = false)
    (hr2 : recv srA env (afterReply ca) g = (ca2, eA2)) (hw2 : writes eA2 = []) (hnr2 : hasRaised eA2 = false) :
    tStep srI srA env (k + 1) ⟨ci, ca, []⟩ .aTestReq =
      { pair := ⟨ci1, ca2, []⟩, effI := eI, effA := .write (sentFrame ca env (testReqMsg env)) :: eA2, out := .done } := by
  have h34 : (testReqMsg env).has tMsgSeqNum = false := rfl
  have hsr : (testReqMsg env).mtype ≠ mSequenceReset := by simp [testReqMsg, Msg.mk', mTestRequest, mSequenceReset]
  have hpd : ((testReqMsg env).get? tPossDupFlag).getD "N" ≠ "Y" := by
    simp [testReqMsg, Msg.mk', Msg.get?, Msg.lookup, tPossDupFlag, tTestReqID]
  unfold sentFrame at hasc hr
  unfold afterReply at hr2
  simp [tStep, tReply, replySeq_plain h34 hsr hpd, buildFrame_sess, hasc, hr, hw, hnr, drainAfter, queueWrites,
    procLoop, procOne, nestedFeed, writes, hr2, hw2, hnr2, sentFrame]

/-! ### two endpoints -/

theorem lStep_iSend_oneway {srI srA : Msg → Bool} {env : Env} {ci ca ci1 ca1 : Conn} {m f : Msg} {eI eA : List Effect}
    (hs : appSend env ci m = (ci1, eI)) (hw1 : writes eI = [f]) (hca : 3 < ca.state)
    (hr : recv srA env ca f = (ca1, eA)) (hw : writes eA = []) (hnr : hasRaised eA = false) :
    lStep srI srA env ci ca (.iSend m) = ⟨ci1, ca1, eI, eA, true⟩ := by
  have h1 : ¬ ca.state ≤ st_DISCONNECTED_BROKEN_CONN := by simp [st_DISCONNECTED_BROKEN_CONN]; omega
  wire_simp [hs, hw1, hr, hw, any_raised_eq, hnr, h1]

theorem lStep_iSend_reply {srI srA : Msg → Bool} {env : Env} {ci ca ci1 ca1 ci2 : Conn} {m f g : Msg}
    {eI eA eI2 : List Effect}
    (hs : appSend env ci m = (ci1, eI)) (hw1 : writes eI = [f]) (hca : 3 < ca.state)
    (hr : recv srA env ca f = (ca1, eA)) (hw : writes eA = [g]) (hnr : hasRaised eA = false) (hci : 3 < ci1.state)
    (hr2 : recv srI env ci1 g = (ci2, eI2)) (hw2 : writes eI2 = []) (hnr2 : hasRaised eI2 = false) :
    lStep srI srA env ci ca (.iSend m) = ⟨ci2, ca1, eI ++ eI2, eA, true⟩ := by
  have h1 : ¬ ca.state ≤ st_DISCONNECTED_BROKEN_CONN := by simp [st_DISCONNECTED_BROKEN_CONN]; omega
  have h2 : ¬ ci1.state ≤ st_DISCONNECTED_BROKEN_CONN := by simp [st_DISCONNECTED_BROKEN_CONN]; omega
  wire_simp [hs, hw1, hr, hw, any_raised_eq, hnr, h1, h2, hr2, hw2, hnr2]

theorem lStep_iTestReq_reply {srI srA : Msg → Bool} {env : Env} {ci ca ci1 ca1 ci2 : Conn} {f g : Msg}
    {eI eA eI2 : List Effect}
    (hs : appTestReq env ci = (ci1, eI)) (hw1 : writes eI = [f]) (hca : 3 < ca.state)
    (hr : recv srA env ca f = (ca1, eA)) (hw : writes eA = [g]) (hnr : hasRaised eA = false) (hci : 3 < ci1.state)
    (hr2 : recv srI env ci1 g = (ci2, eI2)) (hw2 : writes eI2 = []) (hnr2 : hasRaised eI2 = false) :
    lStep srI srA env ci ca .iTestReq = ⟨ci2, ca1, eI ++ eI2, eA, true⟩ := by
  have h1 : ¬ ca.state ≤ st_DISCONNECTED_BROKEN_CONN := by simp [st_DISCONNECTED_BROKEN_CONN]; omega
  have h2 : ¬ ci1.state ≤ st_DISCONNECTED_BROKEN_CONN := by simp [st_DISCONNECTED_BROKEN_CONN]; omega
  wire_simp [hs, hw1, hr, hw, any_raised_eq, hnr, h1, h2, hr2, hw2, hnr2]

theorem lStep_aSend_oneway {srI srA : Msg → Bool} {env : Env} {ci ca ci1 ca1 : Conn} {m f : Msg} {eI eA : List Effect}
    (hs : appSend env ca m = (ca1, eA)) (hw1 : writes eA = [f]) (hci : 3 < ci.state)
    (hr : recv srI env ci f = (ci1, eI)) (hw : writes eI = []) (hnr : hasRaised eI = false) :
    lStep srI srA env ci ca (.aSend m) = ⟨ci1, ca1, eI, eA, true⟩ := by
  have h1 : ¬ ci.state ≤ st_DISCONNECTED_BROKEN_CONN := by simp [st_DISCONNECTED_BROKEN_CONN]; omega
  wire_simp [hs, hw1, hr, hw, any_raised_eq, hnr, h1]

theorem lStep_aTestReq_reply {srI srA : Msg → Bool} {env : Env} {ci ca ci1 ca1 ca2 : Conn} {f g : Msg}
    {eI eA eA2 : List Effect}
    (hs : appTestReq env ca = (ca1, eA)) (hw1 : writes eA = [f]) (hci : 3 < ci.state)
    (hr : recv srI env ci f = (ci1, eI)) (hw : writes eI = [g]) (hnr : hasRaised eI = false) (hca : 3 < ca1.state)
    (hr2 : recv srA env ca1 g = (ca2, eA2)) (hw2 : writes eA2 = []) (hnr2 : hasRaised eA2 = false) :
    lStep srI srA env ci ca .aTestReq = ⟨ci1, ca2, eI, eA ++ eA2, true⟩ := by
  have h1 : ¬ ci.state ≤ st_DISCONNECTED_BROKEN_CONN := by simp [st_DISCONNECTED_BROKEN_CONN]; omega
  have h2 : ¬ ca1.state ≤ st_DISCONNECTED_BROKEN_CONN := by simp [st_DISCONNECTED_BROKEN_CONN]; omega
  wire_simp [hs, hw1, hr, hw, any_raised_eq, hnr, h1, h2, hr2, hw2, hnr2]

end AsyncFix.Tester
