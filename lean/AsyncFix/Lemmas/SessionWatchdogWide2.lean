import AsyncFix.Lemmas.SessionWatchdogWide
import AsyncFix.Lemmas.SessionWatchdogDec

/-!
C12 helper lemmas, part 9: histories of ticks, accepted (benign) frames and NOT accepted (too high) frames in
any logged-on state; liveness by accepted traffic.
-/
namespace AsyncFix.Session.Watchdog

open AsyncFix.Generated AsyncFix.Generated.ConnEnum

/-- events of a wide watchdog history: `stray` = an inbound frame numbered too high -/
inductive XEv
  | tick (env : Env)
  | recv (env : Env) (m : Msg)
  | stray (env : Env) (m : Msg)

def XEv.toEvent : XEv → Event
  | .tick env => .tick env
  | .recv env m => .recv env m
  | .stray env m => .recv env m

def xhist (evs : List XEv) : List Event := evs.map XEv.toEvent

/-- every tick happens at most `g` ms after the latest ACCEPTED frame before it (`last`), accepted frames and
ticks in time order; frames numbered too high do not count and may come at any time -/
def PacedX (g : Int) : Int → List XEv → Prop
  | _, [] => True
  | last, .tick env :: rest => last ≤ env.now ∧ env.now - last ≤ g ∧ PacedX g last rest
  | last, .recv env _ :: rest => last ≤ env.now ∧ PacedX g env.now rest
  | last, .stray _ _ :: rest => PacedX g last rest

/-- accepted frames are benign, the others are routine frames numbered too high – judged where they arrive -/
def TolerableRun (sr : Msg → Bool) : Conn → List XEv → Prop
  | _, [] => True
  | c, ev :: rest =>
    (match ev with
      | .recv _ m => Benign c m
      | .stray _ m => GapFrame c m
      | .tick _ => True) ∧
    TolerableRun sr (step sr c ev.toEvent).1 rest

/-- one watchdog iteration within `2·h·1000` ms of the latest accepted frame `a ≤ lastTime`, any logged-on state -/
theorem tick_paced_step (h : Int) (hh : 1 ≤ h) (a : Int) (c : Conn) (env : Env) (ho : On h c) (ha : 1000 ≤ a)
    (hal : a ≤ c.lastTime) (hid : c.testReqId = none ∨ ∃ id, id ≠ 0 ∧ c.testReqId = some id)
    (hord : a ≤ env.now) (hg : env.now - a ≤ h * 2 * 1000) :
    On h (tick env c).1 ∧ NoDisc (tick env c).2 ∧ a ≤ (tick env c).1.lastTime ∧
    ((tick env c).1.testReqId = none ∨ ∃ id, id ≠ 0 ∧ (tick env c).1.testReqId = some id) := by
  have hb' := ho.hb
  by_cases hact : c.state = st_ACTIVE
  · have hu : Up h c := ⟨hact, ho.sock, ho.hb⟩
    rcases hid with hn | ⟨id, h0, hi⟩
    · by_cases hidle : (h - 1) * 1000 < env.now - c.lastTime
      · obtain ⟨u1, t1, n1, _, _, _, l1⟩ := tick_none_idle_ctl env h c hu hh hn hidle
        have hsec : env.secs ≠ 0 := by unfold Env.secs; omega
        exact ⟨u1.on, n1, by rcases l1 with l | l <;> rw [l] <;> omega, Or.inr ⟨_, hsec, t1⟩⟩
      · rw [tick_none_quiet env c hu.sock hu.active hn (by rw [hu.hb]; exact hh) (by rw [hu.hb]; omega)]
        exact ⟨ho, NoDisc.nil, hal, Or.inl hn⟩
    · rw [tick_outstanding env c id hu.sock hu.active hi h0, if_neg (fun hc => by have := hc.1; omega)]
      exact ⟨ho, NoDisc.nil, hal, Or.inr ⟨id, h0, hi⟩⟩
  · have h8 := ho.state
    rw [tick_not_active env c ho.sock hact (by show 3 < c.state; omega), if_neg (fun hc => by have := hc.1; omega)]
    exact ⟨ho, NoDisc.nil, hal, hid⟩

theorem paced_run_wide (sr : Msg → Bool) (h : Int) (hh : 1 ≤ h) (a : Int) (c : Conn) (evs : List XEv) (ho : On h c)
    (ha : 1000 ≤ a) (hal : a ≤ c.lastTime) (hid : c.testReqId = none ∨ ∃ id, id ≠ 0 ∧ c.testReqId = some id)
    (hp : PacedX (h * 2 * 1000) a evs) (hb : TolerableRun sr c evs) :
    On h (run sr c (xhist evs)).1 ∧ NoDisc (run sr c (xhist evs)).2 := by
  induction evs generalizing c a with
  | nil => exact ⟨ho, NoDisc.nil⟩
  | cons ev rest ih =>
    obtain ⟨hev, hrest⟩ := hb
    show On h (run sr c (ev.toEvent :: xhist rest)).1 ∧ NoDisc (run sr c (ev.toEvent :: xhist rest)).2
    rw [run_cons]
    cases ev with
    | tick env =>
      obtain ⟨hord, hg, hp'⟩ := hp
      have hst : step sr c (XEv.tick env).toEvent = tick env c := rfl
      rw [hst] at hrest ⊢
      obtain ⟨o1, n1, l1, i1⟩ := tick_paced_step h hh a c env ho ha hal hid hord hg
      have := ih a _ o1 ha l1 i1 hp' hrest
      exact ⟨this.1, n1.append this.2⟩
    | recv env m =>
      obtain ⟨hord, hp'⟩ := hp
      have hbm : Benign c m := hev
      obtain ⟨o1, l1, t1, n1, _, _⟩ := recv_benign_on sr env h c m ho hbm
      have hst : step sr c (XEv.recv env m).toEvent = recv sr env c m := rfl
      rw [hst] at hrest ⊢
      have hid' : (recv sr env c m).1.testReqId = none ∨ ∃ id, id ≠ 0 ∧ (recv sr env c m).1.testReqId = some id := by
        rw [t1]
        split
        · exact Or.inl rfl
        · exact hid
      have := ih env.now _ o1 (by omega) (by rw [l1]; omega) hid' hp' hrest
      exact ⟨this.1, n1.append this.2⟩
    | stray env m =>
      have hgm : GapFrame c m := hev
      obtain ⟨o1, l1, t1, n1, _⟩ := recv_gap_on sr env h c m ho hgm
      have hst : step sr c (XEv.stray env m).toEvent = recv sr env c m := rfl
      rw [hst] at hrest ⊢
      have hid' : (recv sr env c m).1.testReqId = none ∨ ∃ id, id ≠ 0 ∧ (recv sr env c m).1.testReqId = some id := by
        rcases t1 with t | t
        · rw [t]; exact hid
        · exact Or.inl t
      have := ih a _ o1 ha (by rw [l1]; exact hal) hid' hp hrest
      exact ⟨this.1, n1.append this.2⟩

/-! ### Boolean checkers -/

def gapFrameB (c : Conn) (m : Msg) : Bool :=
  m.get? tBeginString == some Proto.beginString && m.get? tSenderCompID == some c.sess.target &&
  m.get? tTargetCompID == some c.sess.sender &&
  (match (m.get? tMsgSeqNum).bind pyInt with
    | some n => decide (c.sess.nextIn < n)
    | none => false) &&
  decide (0 < c.sess.nextIn) && routineB m && rightIdB c m

theorem gapFrameB_sound {c : Conn} {m : Msg} (h : gapFrameB c m = true) : GapFrame c m := by
  simp only [gapFrameB, Bool.and_eq_true, beq_iff_eq, decide_eq_true_eq] at h
  obtain ⟨⟨⟨⟨⟨⟨h1, h2⟩, h3⟩, h4⟩, h5⟩, h6⟩, h7⟩ := h
  refine ⟨h1, h2, h3, ?_, h5, routineB_sound h6, ?_⟩
  · cases hn : (m.get? tMsgSeqNum).bind pyInt with
    | none => simp [hn] at h4
    | some n => exact ⟨n, rfl, by simpa [hn] using h4⟩
  · intro _ tid v ht hv
    simpa [rightIdB, ht, hv] using h7

def tolerableRunB (sr : Msg → Bool) : Conn → List XEv → Bool
  | _, [] => true
  | c, ev :: rest =>
    (match ev with
      | .recv _ m => benignB c m
      | .stray _ m => gapFrameB c m
      | .tick _ => true) &&
    tolerableRunB sr (step sr c ev.toEvent).1 rest

theorem tolerableRunB_sound {sr : Msg → Bool} :
    ∀ {c : Conn} {evs : List XEv}, tolerableRunB sr c evs = true → TolerableRun sr c evs
  | _, [], _ => trivial
  | c, ev :: rest, h => by
    simp only [tolerableRunB, Bool.and_eq_true] at h
    refine ⟨?_, tolerableRunB_sound h.2⟩
    cases ev with
    | tick env => trivial
    | recv env m => exact benignB_sound h.1
    | stray env m => exact gapFrameB_sound h.1

end AsyncFix.Session.Watchdog
