import AsyncFix.Lemmas.LinkFrames

/-!
C07: the session-level frames the endpoints build (Logon, Logout, ResendRequest, SequenceReset-GapFill) and
application frames: well-formedness and abstraction.
-/
namespace AsyncFix.Link

open AsyncFix.Session AsyncFix.Generated AsyncFix.Generated.ConnEnum
open AsyncFix.Session.Msg

abbrev resendReqMsg (b : Int) : Msg := Msg.mk' mResendRequest [(tBeginSeqNo, pyStr b), (tEndSeqNo, "0")]
abbrev logonReplyMsg (e h : String) : Msg := Msg.mk' mLogon [(tEncryptMethod, e), (tHeartBtInt, h)]

section
variable (s : Session) (stamp : String) (n : Int)

local macro "other_tac" : tactic =>
  `(tactic| (refine ⟨?_, ?_, ?_, ?_, ?_, ?_, ?_, ?_⟩ <;> decide))

theorem get?_build_43_of_none {m : Msg} (h : m.get? tPossDupFlag = none) :
    (buildFrame s stamp m n).get? tPossDupFlag = none := by
  rw [get?_build_other s stamp m n tPossDupFlag (by other_tac), h]

/-! #### ResendRequest -/

theorem absFrame_build_resend (b : Int) :
    absFrame (buildFrame s stamp (resendReqMsg b) n) = ⟨n, .resend b⟩ := by
  have h7 : (buildFrame s stamp (resendReqMsg b) n).get? tBeginSeqNo = some (pyStr b) := by
    rw [get?_build_other s stamp _ n tBeginSeqNo (by other_tac)]; rfl
  have hk := absFrame_resend (f := buildFrame s stamp (resendReqMsg b) n) rfl h7
  have hs := absFrame_seq (get?_build_34 s stamp (resendReqMsg b) n)
  cases hf : absFrame (buildFrame s stamp (resendReqMsg b) n) with
  | mk sq kd => rw [hf] at hk hs; simp_all

theorem kindOK_build_resend (b : Int) : KindOK (buildFrame s stamp (resendReqMsg b) n) := by
  unfold KindOK
  rw [buildFrame_mtype]
  have e1 : (resendReqMsg b).mtype ≠ mLogon := by show mResendRequest ≠ mLogon; decide
  have e2 : (resendReqMsg b).mtype = mResendRequest := rfl
  rw [if_neg e1, if_pos e2]
  refine ⟨⟨b, ?_⟩, ?_, ?_⟩
  · rw [get?_build_other s stamp _ n tBeginSeqNo (by other_tac)]; rfl
  · rw [get?_build_other s stamp _ n tEndSeqNo (by other_tac)]; rfl
  · exact get?_build_43_of_none s stamp n rfl

theorem latin1_build_resend (b : Int) (h1 : isLatin1 s.sender = true) (h2 : isLatin1 s.target = true)
    (h3 : isLatin1 stamp = true) : frameLatin1 (buildFrame s stamp (resendReqMsg b) n) = true :=
  frameLatin1_build h1 h2 h3 (by show isLatin1 mResendRequest = true; decide) (by simp [resendReqMsg, Msg.mk', isLatin1_pyStr]; decide)

/-! #### Logon -/

theorem absFrame_build_logon (m : Msg) (hm : m.mtype = mLogon) :
    absFrame (buildFrame s stamp m n) = ⟨n, .logon⟩ := by
  have hk := absFrame_logon (f := buildFrame s stamp m n) hm
  have hs := absFrame_seq (get?_build_34 s stamp m n)
  cases hf : absFrame (buildFrame s stamp m n) with
  | mk sq kd => rw [hf] at hk hs; simp_all

theorem absFrame_build_logonReply (e h : String) :
    absFrame (buildFrame s stamp (logonReplyMsg e h) n) = ⟨n, .logon⟩ := absFrame_build_logon s stamp n _ rfl

theorem kindOK_build_logon (e h : String) : KindOK (buildFrame s stamp (logonReplyMsg e h) n) := by
  unfold KindOK
  rw [buildFrame_mtype, if_pos (by rfl)]
  refine ⟨?_, ?_, get?_build_43_of_none s stamp n rfl⟩
  · rw [Msg.has, get?_build_other s stamp _ n tEncryptMethod (by other_tac)]; rfl
  · rw [Msg.has, get?_build_other s stamp _ n tHeartBtInt (by other_tac)]; rfl

theorem latin1_build_logon (e h : String) (h1 : isLatin1 s.sender = true) (h2 : isLatin1 s.target = true)
    (h3 : isLatin1 stamp = true) (he : isLatin1 e = true) (hh : isLatin1 h = true) :
    frameLatin1 (buildFrame s stamp (logonReplyMsg e h) n) = true :=
  frameLatin1_build h1 h2 h3 (by show isLatin1 mLogon = true; decide) (by simp [logonReplyMsg, Msg.mk', he, hh])

/-! #### Logout -/

theorem absFrame_build_logout (text : String) :
    absFrame (buildFrame s stamp (logoutMsg text) n) = ⟨n, .logout⟩ := by
  have hk := absFrame_logout (f := buildFrame s stamp (logoutMsg text) n) rfl
  have hs := absFrame_seq (get?_build_34 s stamp (logoutMsg text) n)
  cases hf : absFrame (buildFrame s stamp (logoutMsg text) n) with
  | mk sq kd => rw [hf] at hk hs; simp_all

theorem kindOK_build_logout (text : String) : KindOK (buildFrame s stamp (logoutMsg text) n) := by
  unfold KindOK
  rw [buildFrame_mtype]
  have e1 : (logoutMsg text).mtype ≠ mLogon := by show mLogout ≠ mLogon; decide
  have e2 : (logoutMsg text).mtype ≠ mResendRequest := by show mLogout ≠ mResendRequest; decide
  have e3 : (logoutMsg text).mtype ≠ mSequenceReset := by show mLogout ≠ mSequenceReset; decide
  have e4 : (logoutMsg text).mtype = mLogout := rfl
  rw [if_neg e1, if_neg e2, if_neg e3, if_pos e4]
  apply get?_build_43_of_none
  unfold logoutMsg Msg.mk'
  by_cases h : text == "" <;> simp [h, Msg.get?, Msg.lookup, tText, tPossDupFlag]

theorem latin1_build_logout (text : String) (h1 : isLatin1 s.sender = true) (h2 : isLatin1 s.target = true)
    (h3 : isLatin1 stamp = true) (ht : isLatin1 text = true) :
    frameLatin1 (buildFrame s stamp (logoutMsg text) n) = true :=
  frameLatin1_build h1 h2 h3 (by show isLatin1 mLogout = true; decide) (by unfold logoutMsg Msg.mk'; by_cases h : text == "" <;> simp [h, ht])

/-! #### SequenceReset-GapFill -/

theorem absFrame_build_gapFill (nw : Int) :
    absFrame (buildFrame s stamp (gapFillMsg n nw) n) = ⟨n, .gapFill nw⟩ := by
  have h36 : (buildFrame s stamp (gapFillMsg n nw) n).get? tNewSeqNo = some (pyStr nw) := by
    rw [get?_build_other s stamp _ n tNewSeqNo (by other_tac)]; rfl
  have hk := absFrame_gapFill (f := buildFrame s stamp (gapFillMsg n nw) n) rfl h36
  have hs := absFrame_seq (get?_build_34 s stamp (gapFillMsg n nw) n)
  cases hf : absFrame (buildFrame s stamp (gapFillMsg n nw) n) with
  | mk sq kd => rw [hf] at hk hs; simp_all

theorem kindOK_build_gapFill (nw : Int) : KindOK (buildFrame s stamp (gapFillMsg n nw) n) := by
  unfold KindOK
  rw [buildFrame_mtype]
  have e1 : (gapFillMsg n nw).mtype ≠ mLogon := by show mSequenceReset ≠ mLogon; decide
  have e2 : (gapFillMsg n nw).mtype ≠ mResendRequest := by show mSequenceReset ≠ mResendRequest; decide
  have e3 : (gapFillMsg n nw).mtype = mSequenceReset := rfl
  rw [if_neg e1, if_neg e2, if_pos e3]
  refine ⟨?_, ⟨nw, ?_⟩, get?_build_43_of_none s stamp n rfl⟩
  · rw [get?_build_other s stamp _ n tGapFillFlag (by other_tac)]; rfl
  · rw [get?_build_other s stamp _ n tNewSeqNo (by other_tac)]; rfl

theorem latin1_build_gapFill (nw : Int) (h1 : isLatin1 s.sender = true) (h2 : isLatin1 s.target = true)
    (h3 : isLatin1 stamp = true) : frameLatin1 (buildFrame s stamp (gapFillMsg n nw) n) = true :=
  frameLatin1_build h1 h2 h3 (by show isLatin1 mSequenceReset = true; decide) (by simp [gapFillMsg, Msg.mk', isLatin1_pyStr]; decide)

end

/-- a session-level frame's journal row abstracts to `none` -/
theorem absRow_session {n : Int} {f : Msg} (h : f.mtype = mLogon ∨ f.mtype = mResendRequest ∨
    f.mtype = mSequenceReset ∨ f.mtype = mLogout) : absRow (n, f) = (n, none) := by
  unfold absRow
  rcases h with h | h | h | h <;> simp [h, noReplay, mLogon, mResendRequest, mSequenceReset, mLogout]

end AsyncFix.Link

namespace AsyncFix.Link

open AsyncFix.Session AsyncFix.Generated AsyncFix.Generated.ConnEnum
open AsyncFix.Session.Msg

/-! ### `send_msg` of the session-level messages, and the frames it leaves behind -/

section
variable (env : Env) (c : Conn)

theorem frameGood_build_resend (s : Session) (stamp : String) (n b : Int) (h1 : isLatin1 s.sender = true)
    (h2 : isLatin1 s.target = true) (h3 : isLatin1 stamp = true) :
    FrameGood s.sender s.target (buildFrame s stamp (resendReqMsg b) n) :=
  frameGood_build (latin1_build_resend s stamp n b h1 h2 h3) (kindOK_build_resend s stamp n b)

theorem frameGood_build_logon (s : Session) (stamp : String) (n : Int) (e h : String) (h1 : isLatin1 s.sender = true)
    (h2 : isLatin1 s.target = true) (h3 : isLatin1 stamp = true) (he : isLatin1 e = true) (hh : isLatin1 h = true) :
    FrameGood s.sender s.target (buildFrame s stamp (logonReplyMsg e h) n) :=
  frameGood_build (latin1_build_logon s stamp n e h h1 h2 h3 he hh) (kindOK_build_logon s stamp n e h)

theorem frameGood_build_logout (s : Session) (stamp : String) (n : Int) (text : String) (h1 : isLatin1 s.sender = true)
    (h2 : isLatin1 s.target = true) (h3 : isLatin1 stamp = true) (ht : isLatin1 text = true) :
    FrameGood s.sender s.target (buildFrame s stamp (logoutMsg text) n) :=
  frameGood_build (latin1_build_logout s stamp n text h1 h2 h3 ht) (kindOK_build_logout s stamp n text)

theorem frameGood_build_gapFill (s : Session) (stamp : String) (n nw : Int) (h1 : isLatin1 s.sender = true)
    (h2 : isLatin1 s.target = true) (h3 : isLatin1 stamp = true) :
    FrameGood s.sender s.target (buildFrame s stamp (gapFillMsg n nw) n) :=
  frameGood_build (latin1_build_gapFill s stamp n nw h1 h2 h3) (kindOK_build_gapFill s stamp n nw)

theorem sendMsg_resendReq (b : Int) (h6 : st_NETWORK_CONN_ESTABLISHED < c.state)
    (h7 : c.state ≠ st_LOGON_INITIAL_SENT) (l1 : isLatin1 c.sess.sender = true) (l2 : isLatin1 c.sess.target = true)
    (l3 : isLatin1 env.stamp = true) (hrows : AllLt c.sess.nextOut c.journal.out) (hs : c.sock = true) :
    sendMsg env (resendReqMsg b) c =
      ⟨.ok (), sentFresh c (buildFrame c.sess env.stamp (resendReqMsg b) c.sess.nextOut),
        [.write (buildFrame c.sess env.stamp (resendReqMsg b) c.sess.nextOut)]⟩ :=
  sendMsg_fresh env _ c h6 (fun h => h7 h.2.1) (by show mResendRequest ≠ mTestRequest; decide)
    (by show mResendRequest ≠ mSequenceReset; decide) rfl (latin1_build_resend _ _ _ _ l1 l2 l3) hrows hs

theorem sendMsg_logonReply (e h : String) (h6 : st_NETWORK_CONN_ESTABLISHED < c.state)
    (h7 : c.state ≠ st_LOGON_INITIAL_SENT) (l1 : isLatin1 c.sess.sender = true) (l2 : isLatin1 c.sess.target = true)
    (l3 : isLatin1 env.stamp = true) (he : isLatin1 e = true) (hh : isLatin1 h = true)
    (hrows : AllLt c.sess.nextOut c.journal.out) (hs : c.sock = true) :
    sendMsg env (logonReplyMsg e h) c =
      ⟨.ok (), sentFresh c (buildFrame c.sess env.stamp (logonReplyMsg e h) c.sess.nextOut),
        [.write (buildFrame c.sess env.stamp (logonReplyMsg e h) c.sess.nextOut)]⟩ :=
  sendMsg_fresh env _ c h6 (fun h => h7 h.2.1) (by show mLogon ≠ mTestRequest; decide)
    (by show mLogon ≠ mSequenceReset; decide) rfl (latin1_build_logon _ _ _ _ _ l1 l2 l3 he hh) hrows hs

theorem logoutMsg_get43 (text : String) : (logoutMsg text).get? tPossDupFlag = none := by
  unfold logoutMsg Msg.mk'
  by_cases h : text == "" <;> simp [h, Msg.get?, Msg.lookup, tText, tPossDupFlag]

/-- Logout in an established phase (also LOGON_INITIAL_SENT: Logout is the one message the gate lets through) -/
theorem sendMsg_logout (text : String) (h6 : st_NETWORK_CONN_ESTABLISHED < c.state)
    (l1 : isLatin1 c.sess.sender = true) (l2 : isLatin1 c.sess.target = true)
    (l3 : isLatin1 env.stamp = true) (ht : isLatin1 text = true)
    (hrows : AllLt c.sess.nextOut c.journal.out) (hs : c.sock = true) :
    sendMsg env (logoutMsg text) c =
      ⟨.ok (), sentFresh c (buildFrame c.sess env.stamp (logoutMsg text) c.sess.nextOut),
        [.write (buildFrame c.sess env.stamp (logoutMsg text) c.sess.nextOut)]⟩ :=
  sendMsg_fresh env _ c h6 (fun h => h.2.2 rfl) (by show mLogout ≠ mTestRequest; decide)
    (by show mLogout ≠ mSequenceReset; decide) (logoutMsg_get43 text) (latin1_build_logout _ _ _ _ l1 l2 l3 ht) hrows hs

theorem absRow_build_resend (s : Session) (stamp : String) (k n b : Int) :
    absRow (k, buildFrame s stamp (resendReqMsg b) n) = (k, none) := absRow_session (Or.inr (Or.inl rfl))

theorem absRow_build_logon (s : Session) (stamp : String) (k n : Int) (e h : String) :
    absRow (k, buildFrame s stamp (logonReplyMsg e h) n) = (k, none) := absRow_session (Or.inl rfl)

theorem absRow_build_logout (s : Session) (stamp : String) (k n : Int) (text : String) :
    absRow (k, buildFrame s stamp (logoutMsg text) n) = (k, none) :=
  absRow_session (Or.inr (Or.inr (Or.inr rfl)))

theorem absRow_build_gapFill (s : Session) (stamp : String) (k n nw : Int) :
    absRow (k, buildFrame s stamp (gapFillMsg n nw) n) = (k, none) :=
  absRow_session (Or.inr (Or.inr (Or.inl rfl)))

/-! the same with the state ordinals written as numerals (the form `simp` can use as conditional rewrite rules) -/

theorem sendMsg_resendReq' (b : Int) (h6 : 6 < c.state) (h7 : c.state ≠ 7)
    (l1 : isLatin1 c.sess.sender = true) (l2 : isLatin1 c.sess.target = true)
    (l3 : isLatin1 env.stamp = true) (hrows : AllLt c.sess.nextOut c.journal.out) (hs : c.sock = true) :
    sendMsg env (resendReqMsg b) c =
      ⟨.ok (), sentFresh c (buildFrame c.sess env.stamp (resendReqMsg b) c.sess.nextOut),
        [.write (buildFrame c.sess env.stamp (resendReqMsg b) c.sess.nextOut)]⟩ :=
  sendMsg_resendReq env c b h6 h7 l1 l2 l3 hrows hs

theorem sendMsg_logonReply' (e h : String) (h6 : 6 < c.state) (h7 : c.state ≠ 7)
    (l1 : isLatin1 c.sess.sender = true) (l2 : isLatin1 c.sess.target = true)
    (l3 : isLatin1 env.stamp = true) (he : isLatin1 e = true) (hh : isLatin1 h = true)
    (hrows : AllLt c.sess.nextOut c.journal.out) (hs : c.sock = true) :
    sendMsg env (logonReplyMsg e h) c =
      ⟨.ok (), sentFresh c (buildFrame c.sess env.stamp (logonReplyMsg e h) c.sess.nextOut),
        [.write (buildFrame c.sess env.stamp (logonReplyMsg e h) c.sess.nextOut)]⟩ :=
  sendMsg_logonReply env c e h h6 h7 l1 l2 l3 he hh hrows hs

theorem sendMsg_logout' (text : String) (h6 : 6 < c.state)
    (l1 : isLatin1 c.sess.sender = true) (l2 : isLatin1 c.sess.target = true)
    (l3 : isLatin1 env.stamp = true) (ht : isLatin1 text = true)
    (hrows : AllLt c.sess.nextOut c.journal.out) (hs : c.sock = true) :
    sendMsg env (logoutMsg text) c =
      ⟨.ok (), sentFresh c (buildFrame c.sess env.stamp (logoutMsg text) c.sess.nextOut),
        [.write (buildFrame c.sess env.stamp (logoutMsg text) c.sess.nextOut)]⟩ :=
  sendMsg_logout env c text h6 l1 l2 l3 ht hrows hs

/-- Logout on a fresh transport: the gate lets it through, turns the state to LOGON_INITIAL_SENT and the role to
INITIATOR -/
theorem sendMsg_logout_conn' (text : String) (h6 : c.state = 6)
    (l1 : isLatin1 c.sess.sender = true) (l2 : isLatin1 c.sess.target = true)
    (l3 : isLatin1 env.stamp = true) (ht : isLatin1 text = true)
    (hrows : AllLt c.sess.nextOut c.journal.out) (hs : c.sock = true) :
    sendMsg env (logoutMsg text) c =
      ⟨.ok (), sentFresh { setState c st_LOGON_INITIAL_SENT with role := roleInitiator }
          (buildFrame c.sess env.stamp (logoutMsg text) c.sess.nextOut),
        [.onState st_LOGON_INITIAL_SENT, .write (buildFrame c.sess env.stamp (logoutMsg text) c.sess.nextOut)]⟩ := by
  have hc' := sendCore_fresh env (logoutMsg text) { setState c st_LOGON_INITIAL_SENT with role := roleInitiator }
    (by show mLogout ≠ mTestRequest; decide) (by show mLogout ≠ mSequenceReset; decide) (logoutMsg_get43 text)
    (latin1_build_logout c.sess _ _ _ l1 l2 l3 ht) hrows hs
  rw [sendMsg, M.bind_ok (sendGate_conn (logoutMsg text) c h6 (Or.inr rfl)), hc']
  rfl

end

end AsyncFix.Link
